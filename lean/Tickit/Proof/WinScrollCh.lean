import Tickit.Proof.WinScrollStep
/-
  `tickit_window_scroll_with_children` followed by the application moving the children (`WinFlush.scrollWithChildrenMoved`):
  the invariant step.

  `_scroll` without masking the children scrolls, on the terminal, every cell the painter's model gives to the *subtree*
  of the scrolled window (`visibleG_spec`: the visible region is exactly that set of cells).  Afterwards the application
  moves every child by the same offsets; in the tree so changed the owner of a cell inside the region is the owner, in
  the old tree, of the cell `(downward, rightward)` away (`subOwn_moved`), and outside the region nothing changes
  (`ownerLoc_moved_back`).  So the scrolled cells are right for the new tree, the vacated strips and the rectangles the
  terminal refused are exposed by `_scrollrectset` itself, and pending damage moved with the cells.
-/
namespace Tickit
namespace WinFlush
open WinTree WinRB WinSpec

/-! ### ancestors -/

theorem Anc.trans {t : Tree} {a b c : Id} (h1 : Anc t a b) (h2 : Anc t b c) : Anc t a c := by
  induction h2 with
  | refl => exact h1
  | step hw hp _ ih => exact Anc.step hw hp ih

theorem anc_parent_down {t : Tree} {a w p : Id} {ww : Win} (h : Anc t a w) (hne : a ≠ w) (hw : t.wins[w]? = some ww)
    (hp : ww.parent = some p) : Anc t a p := by
  cases h with
  | refl => exact absurd rfl hne
  | step hw' hp' hrest =>
    rw [hw] at hw'; cases hw'
    rw [hp] at hp'; cases hp'
    exact hrest

/-- A window that has a parent is not the root window. -/
theorem not_root_of_parent (t : Tree) (hok : TreeOk t) (a : Id) (aw : Win) (p : Id) (haw : t.wins[a]? = some aw)
    (hp : aw.parent = some p) : aw.isRoot = false := by
  cases hr : aw.isRoot with
  | false => rfl
  | true =>
    have hx := hok.onlyRoot a aw haw hr
    obtain ⟨rw0, hrw0, _, _, hrp, _⟩ := hok.rootWin.ex
    rw [hx] at haw
    rw [haw] at hrw0; cases hrw0
    rw [hp] at hrp; cases hrp

/-- Where a window is exposed, so is every ancestor of it. -/
theorem exposedAt_anc (t : Tree) (hok : TreeOk t) {a o : Id} (h : Anc t a o) :
    ∀ (k : Nat) (lo co L C : Int), ExposedAt t k o lo co L C → ∃ l c, ExposedAt t k a l c L C := by
  induction h with
  | refl => intro k lo co L C hex; exact ⟨lo, co, hex⟩
  | step hw hp _ ih =>
    intro k lo co L C hex
    cases k with
    | zero => simp [ExposedAt] at hex
    | succ k' =>
      simp only [ExposedAt] at hex
      obtain ⟨w', hw', _, _, _, _, _, _, hrest⟩ := hex
      rw [hw] at hw'; cases hw'
      have hnr := not_root_of_parent t hok _ _ _ hw hp
      rcases hrest with ⟨hr, _⟩ | ⟨_, p', hp', hexp⟩
      · rw [hnr] at hr; cases hr
      · rw [hp] at hp'; cases hp'
        exact ih (k' + 1) _ _ L C (exposedAt_mono t k' _ _ _ _ _ hexp)

/-- The owner within a window's subtree lies below that window. -/
theorem subOwn_anc (t : Tree) (hwf : WFp t) (a : Id) (aw : Win) (haw : t.wins[a]? = some aw) (x y : Int) :
    Anc t a (subOwn t a aw.children x y).1 := by
  unfold subOwn
  cases hfs : aw.children.findSome? (fun ch => own t ch x y) with
  | none => exact Anc.refl a
  | some o =>
    obtain ⟨ch, hch, hown⟩ := List.exists_of_findSome?_eq_some hfs
    obtain ⟨cw, hcw, hcp, _⟩ := hwf.child a aw haw ch hch
    obtain ⟨w, l, c⟩ := o
    exact (ownerLoc_anc t hwf _ ch x y w l c hown).parent_up hcw hcp

/-- The offsets `_scrollrectset` accumulates are the position of the scrolled window on the terminal. -/
theorem scrollWalk_coords (t : Tree) (pens : Array (Option Pen)) (hok : TreeOk t) : ∀ (k : Nat) (a : Id) (vis : List Rect)
    (aT aL : Int) (pen : Pen) (top : Id) (vis' : List Rect) (T' L' : Int) (pen' : Pen),
    scrollWalk t pens k a vis aT aL pen = .ok (some (top, vis', T', L', pen')) →
    ∀ (k' : Nat) (x y L C : Int), ExposedAt t k' a x y L C → L = x - aT + T' ∧ C = y - aL + L' := by
  intro k
  induction k with
  | zero => intro a vis aT aL pen top vis' T' L' pen' h; simp [scrollWalk] at h
  | succ n ih =>
    intro a vis aT aL pen top vis' T' L' pen' h k' x y L C hex
    simp only [scrollWalk, bind, Bind.bind] at h
    cases hg : WinTree.get t a with
    | ub e => rw [hg] at h; cases h
    | ok aw =>
      rw [hg] at h
      have haw := get_ok hg
      simp only at h
      cases k' with
      | zero => simp [ExposedAt] at hex
      | succ k2 =>
        simp only [ExposedAt] at hex
        obtain ⟨aw', haw', _, _, _, _, _, hv, hrest⟩ := hex
        rw [haw.1] at haw'; cases haw'
        simp only [hv, Bool.not_true, Bool.false_eq_true, if_false] at h
        cases hp : aw.parent with
        | none =>
          simp only [hp, pure, Pure.pure, Res.ok.injEq, Option.some.injEq, Prod.mk.injEq] at h
          obtain ⟨_, _, e3, e4, _⟩ := h
          rcases hrest with ⟨_, hl, hc⟩ | ⟨_, p', hp', _⟩
          · omega
          · rw [hp] at hp'; cases hp'
        | some p =>
          simp only [hp] at h
          cases hgp : WinTree.get t p with
          | ub e => rw [hgp] at h; cases h
          | ok pw =>
            rw [hgp] at h
            simp only at h
            cases hss : subtractSiblings t a pw.children (RectSet.translate vis aw.rect.top aw.rect.left) with
            | ub e => rw [hss] at h; cases h
            | ok v2 =>
              rw [hss] at h
              simp only at h
              have hnr := not_root_of_parent t hok a aw p haw.1 hp
              rcases hrest with ⟨hr, _⟩ | ⟨_, p', hp', hexp⟩
              · rw [hnr] at hr; cases hr
              · rw [hp] at hp'; cases hp'
                have := ih p _ _ _ _ _ _ _ _ _ h _ _ _ _ _ hexp
                omega

/-! ### the walk to the root, for a region owned by the subtree of the scrolled window -/

/-- **The walk of `_scrollrectset`, children not masked**: level by level, the rectangle set is the part of the target
    region whose owner, within the subtree of the window reached, is whatever the subtree of the scrolled window shows
    there (`F`, in the scrolled window's coordinates); conversely every cell of the target region whose owner lies below
    the scrolled window is in the set. -/
theorem scrollWalkG_spec (t : Tree) (pens : Array (Option Pen)) (hok : TreeOk t) (ho : Ordered t) (hpl : ParentListed t)
    (win : Id) (Tgt : Int → Int → Prop) (F : Int → Int → Id × Int × Int) :
    ∀ (k : Nat) (a : Id) (vis : List Rect) (aT aL : Int) (pen : Pen) (top : Id) (vis' : List Rect) (T' L' : Int) (pen' : Pen),
    scrollWalk t pens k a vis aT aL pen = .ok (some (top, vis', T', L', pen')) →
    RectSet.Inv vis → Anc t a win →
    (∀ l c, Tgt l c → InAnc t k a aT aL l c) →
    (∀ l c, Tgt l c → ∀ aw, t.wins[a]? = some aw → 0 ≤ l + aT ∧ l + aT < aw.rect.lines ∧ 0 ≤ c + aL ∧ c + aL < aw.rect.cols) →
    (∀ x y, Covered vis x y → ∀ aw, t.wins[a]? = some aw →
      Tgt (x - aT) (y - aL) ∧ subOwn t a aw.children x y = F (x - aT) (y - aL)) →
    (∀ x y o, ∀ aw, t.wins[a]? = some aw → subOwn t a aw.children x y = o → Anc t win o.1 → Tgt (x - aT) (y - aL) →
      Covered vis x y) →
    RectSet.Inv vis' ∧ ∃ tw, t.wins[top]? = some tw ∧ tw.parent = none ∧ tw.isVisible = true ∧ tw.freed = false ∧
      (∀ l c, Tgt l c → 0 ≤ l + T' ∧ l + T' < tw.rect.lines ∧ 0 ≤ c + L' ∧ c + L' < tw.rect.cols) ∧
      (∀ x y, Covered vis' x y → Tgt (x - T') (y - L') ∧ subOwn t top tw.children x y = F (x - T') (y - L')) ∧
      (∀ x y o, subOwn t top tw.children x y = o → Anc t win o.1 → Tgt (x - T') (y - L') → Covered vis' x y) := by
  intro k
  induction k with
  | zero => intro a vis aT aL pen top vis' T' L' pen' h; simp [scrollWalk] at h
  | succ n ih =>
    intro a vis aT aL pen top vis' T' L' pen' h hinv hanc hia hin hv1 hv2
    simp only [scrollWalk, bind, Bind.bind] at h
    cases hg : WinTree.get t a with
    | ub e => rw [hg] at h; cases h
    | ok aw =>
      rw [hg] at h
      have haw := get_ok hg
      simp only at h
      cases hvis : aw.isVisible with
      | false => simp only [hvis, Bool.not_false, if_true, pure, Pure.pure] at h; cases h
      | true =>
        simp only [hvis, Bool.not_true, Bool.false_eq_true, if_false] at h
        cases hp : aw.parent with
        | none =>
          simp only [hp, pure, Pure.pure, Res.ok.injEq, Option.some.injEq, Prod.mk.injEq] at h
          obtain ⟨e1, e2, e3, e4, _⟩ := h
          subst e1 e2 e3 e4
          exact ⟨hinv, aw, haw.1, hp, hvis, haw.2, fun l c ht => hin l c ht aw haw.1,
            fun x y hc => hv1 x y hc aw haw.1, fun x y o hs hwo ht => hv2 x y o aw haw.1 hs hwo ht⟩
        | some p =>
          simp only [hp] at h
          cases hgp : WinTree.get t p with
          | ub e => rw [hgp] at h; cases h
          | ok pw =>
            rw [hgp] at h
            have hpw := get_ok hgp
            simp only at h
            cases hss : subtractSiblings t a pw.children (RectSet.translate vis aw.rect.top aw.rect.left) with
            | ub e => rw [hss] at h; cases h
            | ok vis2 =>
              rw [hss] at h
              simp only at h
              -- `a` is listed by `p`
              obtain ⟨pw', hpw', hmem⟩ := hpl a aw p haw.1 hp
              rw [hpw.1] at hpw'; cases hpw'
              have hinv1 := Props.C05.translate_inv vis aw.rect.top aw.rect.left hinv
              have htr := (Props.C05.translate_spec vis aw.rect.top aw.rect.left hinv.1).2
              obtain ⟨hinv2, l1, l2, hsplit, hnl1, hlive, hcov2⟩ := subtractSiblings_spec t a pw.children _ vis2 hss hinv1 hmem
              have hancp : Anc t p win := hanc.parent_up haw.1 hp
              -- `own` of `a` at a cell of the target region
              have hown_a : ∀ X Y, 0 ≤ X - aw.rect.top → X - aw.rect.top < aw.rect.lines → 0 ≤ Y - aw.rect.left →
                  Y - aw.rect.left < aw.rect.cols →
                  own t a X Y = some (subOwn t a aw.children (X - aw.rect.top) (Y - aw.rect.left)) := by
                intro X Y b1 b2 b3 b4
                rw [own_eq_sub t ho a aw haw.1, if_pos]
                refine ⟨hvis, haw.2, (memb_true_iff _ _ _).2 ?_⟩
                simp only [Rect.Mem, Rect.bottom, Rect.right]
                omega
              refine ih p vis2 (aT + aw.rect.top) (aL + aw.rect.left) _ top vis' T' L' pen' h hinv2 hancp ?_ ?_ ?_ ?_
              · intro l c ht
                have := hia l c ht
                simp only [InAnc] at this
                exact (this aw haw.1 p hp pw hpw.1).2
              · intro l c ht pw' hpw'
                rw [hpw.1] at hpw'; cases hpw'
                have := hia l c ht
                simp only [InAnc] at this
                have hb := (this aw haw.1 p hp pw hpw.1).1
                omega
              · -- V1 at `p`
                intro X Y hc pw' hpw'
                rw [hpw.1] at hpw'; cases hpw'
                obtain ⟨hc1, hnc⟩ := (hcov2 X Y).1 hc
                have hc0 := (htr X Y).1 hc1
                obtain ⟨ht, hs⟩ := hv1 _ _ hc0 aw haw.1
                have hb := hin _ _ ht aw haw.1
                have e1 : X - aw.rect.top - aT = X - (aT + aw.rect.top) := by omega
                have e2 : Y - aw.rect.left - aL = Y - (aL + aw.rect.left) := by omega
                rw [e1, e2] at ht hs
                refine ⟨ht, ?_⟩
                unfold subOwn
                rw [hsplit, findSome?_append_none _ l1 _ (own_none_of_noneCovers t ho l1 X Y hnc)]
                simp only [List.findSome?_cons]
                rw [hown_a X Y (by omega) (by omega) (by omega) (by omega), hs]
              · -- V2 at `p`
                intro X Y o pw' hpw' hs hwo ht
                rw [hpw.1] at hpw'; cases hpw'
                unfold subOwn at hs
                cases hfs : pw.children.findSome? (fun ch => own t ch X Y) with
                | none =>
                  rw [hfs] at hs
                  -- `p` is a strict ancestor of `win`, so it is not below it
                  subst hs
                  have h1 := anc_le t ho hpl hanc
                  have h2 := parent_lt t ho hpl a aw p haw.1 hp
                  have h3 : @LE.le Nat _ win p := anc_le t ho hpl hwo
                  omega
                | some o' =>
                  rw [hfs] at hs
                  simp only at hs
                  subst hs
                  obtain ⟨m1, ch, m2, hdec, hch, hm1⟩ := List.findSome?_eq_some_iff.1 hfs
                  have hchmem : ch ∈ pw.children := by rw [hdec]; simp
                  obtain ⟨chw, hchw, hchp, _⟩ := hok.wf.child p pw hpw.1 ch hchmem
                  have hanc_ch : Anc t ch o'.1 := ownerLoc_anc t hok.wf _ ch X Y o'.1 o'.2.1 o'.2.2 hch
                  have hcha : ch = a := anc_unique t ho hpl hanc_ch (hanc.trans hwo) hchw haw.1 hchp hp
                  subst hcha
                  have hnd := hok.nodup p pw hpw.1
                  have hnm1 : ch ∉ m1 := by
                    rw [hdec] at hnd
                    intro hx
                    have := (List.nodup_append.1 hnd).2.2 ch hx ch List.mem_cons_self
                    exact this rfl
                  have hl1 : l1 = m1 := prefix_unique ch l1 m1 l2 m2 (by rw [← hsplit, hdec]) hnl1 hnm1
                  have hcin := cin_of_own_some t ch X Y _ hch
                  obtain ⟨cw, hcw, _, _, hmm⟩ := hcin
                  rw [haw.1] at hcw; cases hcw
                  have hmm' := (memb_true_iff _ _ _).1 hmm
                  simp only [Rect.Mem, Rect.bottom, Rect.right] at hmm'
                  rw [hown_a X Y (by omega) (by omega) (by omega) (by omega)] at hch
                  simp only [Option.some.injEq] at hch
                  have e1 : X - aw.rect.top - aT = X - (aT + aw.rect.top) := by omega
                  have e2 : Y - aw.rect.left - aL = Y - (aL + aw.rect.left) := by omega
                  have hc0 := hv2 _ _ o' aw haw.1 hch hwo (by rw [e1, e2]; exact ht)
                  refine (hcov2 X Y).2 ⟨(htr X Y).2 hc0, ?_⟩
                  intro s hs sw hsw hvs
                  rw [hl1] at hs
                  exact not_mem_of_own_none t ho s X Y (hlive s (by rw [hl1]; exact hs)) (hm1 s hs) sw hsw hvs

/-! ### the visible region without the children masked -/

/-- **The visible region `_scroll` computes when the children are not masked** is exactly the set of terminal cells the
    painter's model gives to the subtree of the scrolled window inside the rectangle: each of its cells is owned by
    whatever that subtree shows at the cell (and the window is exposed there), and every cell whose owner lies below the
    window, inside the rectangle, is in it. -/
theorem visibleG_spec (t : Tree) (pens : Array (Option Pen)) (hok : TreeOk t) (ho : Ordered t) (hpl : ParentListed t)
    (win : Id) (w : Win) (hw : t.wins[win]? = some w) (origrect rect0 rect : Rect)
    (h0 : Rect.intersect ⟨0, 0, w.rect.lines, w.rect.cols⟩ origrect = some rect0)
    (h1 : clipToAncestors t (t.wins.size + 1) win 0 0 rect0 = .ok (some rect))
    (vis0 : List Rect) (h2 : rsAdd [] rect = .ok vis0)
    (pen : Pen) (top : Id) (vis' : List Rect) (T' L' : Int) (pen' : Pen)
    (h4 : scrollWalk t pens (t.wins.size + 1) win vis0 0 0 pen = .ok (some (top, vis', T', L', pen')))
    (tw : Win) (htw : t.wins[top]? = some tw) (hroot : tw.isRoot = true) :
    RectSet.Inv vis' ∧
    (∀ L C, Covered vis' L C → ownerAt t L C = some (subOwn t win w.children (L - T') (C - L')) ∧
      origrect.Mem (L - T') (C - L') ∧ ExposedAt t (t.wins.size + 1) win (L - T') (C - L') L C) ∧
    (∀ L C o, ownerAt t L C = some o → Anc t win o.1 →
      ExposedAt t (t.wins.size + 1) win (L - T') (C - L') L C ∧ (origrect.Mem (L - T') (C - L') → Covered vis' L C)) := by
  obtain ⟨hne0, hm0⟩ := Props.C06.intersect_some _ _ _ h0
  have hrne := clip_nonempty t _ win 0 0 rect0 rect h1 hne0
  have hinvnil : RectSet.Inv ([] : List Rect) := (RectSet.inv_iff _).2 RectSet.invS_nil
  have hinv0 := Props.C05.add_inv rsFuel [] vis0 rect (rsAdd_ok h2) hrne hinvnil
  have hcov0 := (Props.C05.add_spec rsFuel [] vis0 rect (rsAdd_ok h2) hrne (fun _ h => by cases h)).2
  have hcov0' : ∀ x y, Covered vis0 x y ↔ rect.Mem x y := by
    intro x y
    rw [hcov0 x y]
    constructor
    · rintro (hx | hx)
      · exact absurd hx (RectSet.covered_nil x y)
      · exact hx
    · exact Or.inr
  have hclip := clip_sub t _ win 0 0 rect0 rect h1
  obtain ⟨hinv', tw', htw', htp, htv, htf, hbt, hv1, hv2⟩ := scrollWalkG_spec t pens hok ho hpl win (fun l c => rect.Mem l c)
    (fun l c => subOwn t win w.children l c)
    _ win vis0 0 0 pen top vis' T' L' pen' h4 hinv0 (Anc.refl win)
    (fun l c ht => (hclip l c ht).2)
    (fun l c ht aw haw => by
      rw [hw] at haw; cases haw
      have := ((hm0 l c).1 (hclip l c ht).1).1
      simp only [Rect.Mem, Rect.bottom, Rect.right] at this
      omega)
    (fun x y hc aw haw => by
      rw [hw] at haw; cases haw
      simp only [Int.sub_zero]
      exact ⟨(hcov0' x y).1 hc, trivial⟩)
    (fun x y o aw haw _ _ ht => by
      simp only [Int.sub_zero] at ht
      exact (hcov0' x y).2 ht)
  rw [htw] at htw'; cases htw'
  have htop0 : top = 0 := hok.onlyRoot top tw htw hroot
  subst htop0
  obtain ⟨rw0, hrw0, _, _, _, hrt, hrl⟩ := hok.rootWin.ex
  rw [htw] at hrw0; cases hrw0
  have hown0 : ∀ L C, 0 ≤ L → L < tw.rect.lines → 0 ≤ C → C < tw.rect.cols →
      ownerAt t L C = some (subOwn t 0 tw.children L C) := by
    intro L C b1 b2 b3 b4
    rw [ownerAt_own, own_eq_sub t ho 0 tw htw, if_pos, hrt, hrl]
    · simp only [Int.sub_zero]
    · refine ⟨htv, htf, (memb_true_iff _ _ _).2 ?_⟩
      simp only [Rect.Mem, Rect.bottom, Rect.right]
      omega
  -- below the scrolled window: the window itself is exposed at the cell, at the position the walk computes
  have hbelow : ∀ L C o, ownerAt t L C = some o → Anc t win o.1 → ExposedAt t (t.wins.size + 1) win (L - T') (C - L') L C := by
    intro L C o hown hwo
    have hex := owner_exposedAt t hok L C o.1 o.2.1 o.2.2 hown
    obtain ⟨l, c, hexw⟩ := exposedAt_anc t hok hwo _ _ _ _ _ hex
    obtain ⟨e1, e2⟩ := scrollWalk_coords t pens hok _ win vis0 0 0 pen 0 vis' T' L' pen' h4 _ l c L C hexw
    have e1' : L - T' = l := by omega
    have e2' : C - L' = c := by omega
    rw [e1', e2']
    exact hexw
  refine ⟨hinv', ?_, ?_⟩
  · intro L C hc
    obtain ⟨ht, hs⟩ := hv1 L C hc
    have hb := hbt _ _ ht
    have hown : ownerAt t L C = some (subOwn t win w.children (L - T') (C - L')) := by
      rw [hown0 L C (by omega) (by omega) (by omega) (by omega), hs]
    exact ⟨hown, ((hm0 _ _).1 (hclip _ _ ht).1).2, hbelow L C _ hown (subOwn_anc t hok.wf win w hw _ _)⟩
  · intro L C o hown hwo
    have hex := hbelow L C o hown hwo
    refine ⟨hex, fun horig => ?_⟩
    have hself : (⟨0, 0, w.rect.lines, w.rect.cols⟩ : Rect).Mem (L - T') (C - L') := by
      have hex' := hex
      simp only [ExposedAt] at hex'
      obtain ⟨w', hw', _, b1, b2, b3, b4, _⟩ := hex'
      rw [hw] at hw'; cases hw'
      simp only [Rect.Mem, Rect.bottom, Rect.right]
      omega
    have hr0 : rect0.Mem (L - T') (C - L') := (hm0 _ _).2 ⟨hself, horig⟩
    obtain ⟨r', hr', hmr⟩ := clip_keep t hok _ win 0 0 rect0 (some rect) (t.wins.size + 1) (L - T') (C - L') L C h1 hr0
      (by simpa using hex)
    cases hr'
    obtain ⟨wr, hwr, b1, b2, b3, b4⟩ := ownerAt_some_memb t ⟨⟨tw, htw, htf, htv, hrt, hrl⟩⟩ L C _ hown
    rw [htw] at hwr; cases hwr
    rw [hown0 L C b1 b2 b3 b4] at hown
    simp only [Option.some.injEq] at hown
    exact hv2 L C o hown hwo hmr

/-! ### the loop of `_scrollrectset`, against two compositions -/

/-- "Damaged or already right", against what the *new* composition `F'` shows inside the region `D` scrolled so far and
    what the old composition `F` shows elsewhere. -/
def MixedG (F F' : Int → Int → Option Cell) (D : Int → Int → Prop) (st : St) : Prop :=
  ∀ L C, Covered st.tree.root.damage L C ∨ (D L C ∧ ∀ v, F' L C = some v → st.screen L C = v) ∨
    (¬ D L C ∧ ∀ v, F L C = some v → st.screen L C = v)

theorem mixedG_grow (F F' : Int → Int → Option Cell) (D : Int → Int → Prop) (ρ : Rect) (st st' : St)
    (hM : MixedG F F' D st)
    (hscr : ∀ L C, ¬ ρ.Mem L C → st'.screen L C = st.screen L C)
    (hgrow : ∀ L C, ¬ ρ.Mem L C → Covered st.tree.root.damage L C → Covered st'.tree.root.damage L C)
    (hin : ∀ L C, ρ.Mem L C → Covered st'.tree.root.damage L C ∨ ∀ v, F' L C = some v → st'.screen L C = v) :
    MixedG F F' (fun L C => ρ.Mem L C ∨ D L C) st' := by
  intro L C
  by_cases hm : ρ.Mem L C
  · rcases hin L C hm with h1 | h1
    · exact Or.inl h1
    · exact Or.inr (Or.inl ⟨Or.inl hm, h1⟩)
  · rcases hM L C with h1 | ⟨h1, h2⟩ | ⟨h1, h2⟩
    · exact Or.inl (hgrow L C hm h1)
    · exact Or.inr (Or.inl ⟨Or.inr h1, fun v hv => by rw [hscr L C hm]; exact h2 v hv⟩)
    · exact Or.inr (Or.inr ⟨fun hx => by rcases hx with hx | hx; exact hm hx; exact h1 hx,
        fun v hv => by rw [hscr L C hm]; exact h2 v hv⟩)

theorem mixedG_congr (F F' : Int → Int → Option Cell) (D D' : Int → Int → Prop) (st : St)
    (h : ∀ L C, D L C ↔ D' L C) (hM : MixedG F F' D st) : MixedG F F' D' st := by
  intro L C
  rcases hM L C with h1 | ⟨h1, h2⟩ | ⟨h1, h2⟩
  · exact Or.inl h1
  · exact Or.inr (Or.inl ⟨(h L C).1 h1, h2⟩)
  · exact Or.inr (Or.inr ⟨fun hx => h1 ((h L C).2 hx), h2⟩)

/-- **One rectangle of the visible region**, every cell of which is exposed from the scrolled window: whichever way
    `_scrollrectset` deals with it, the invariant moves on with the new composition inside it, provided the new
    composition shows at a cell what the old one showed `(d, r)` away (both cells in the rectangle). -/
theorem scrollOneG_step (oracle : Oracle) (F F' : Int → Int → Option Cell) (t0 : Tree) (st0 : St) (win : Id)
    (T' L' d r : Int) (pen : Pen) (D : Int → Int → Prop) (acc acc' : St × Bool × Bool) (ρ : Rect)
    (h : scrollOne oracle win T' L' d r pen acc ρ = .ok acc')
    (hpos : RootsPositive t0) (hl : SLoopOk t0 st0 acc.1) (hρ : ρ.Nonempty)
    (hexp : ∀ L C, ρ.Mem L C → ExposedAt t0 (t0.wins.size + 1) win (L - T') (C - L') L C ∧ ¬ D L C ∧
      0 ≤ L ∧ L < st0.tlines ∧ 0 ≤ C ∧ C < st0.tcols)
    (hsh : ∀ L C, ρ.Mem L C → ρ.Mem (L + d) (C + r) → ∀ v, F' L C = some v → F (L + d) (C + r) = some v)
    (hM : MixedG F F' D acc.1) :
    SLoopOk t0 st0 acc'.1 ∧ MixedG F F' (fun L C => ρ.Mem L C ∨ D L C) acc'.1 := by
  rw [scrollOne_eq] at h
  unfold scrollOne' at h
  simp only [bind, Bind.bind, pure, Pure.pure, St.fuel] at h
  have hfuel : acc.1.tree.wins.size + 1 = t0.wins.size + 1 := by rw [hl.wins]
  -- every cell of the rectangle is exposed from the scrolled window, in any tree with this store
  have hex : ∀ L C, ρ.Mem L C → ∀ t : Tree, t.wins = t0.wins → ExposedAt t (t0.wins.size + 1) win (L - T') (C - L') L C := by
    intro L C hm t ht
    exact exposedAt_congr ht _ _ _ _ _ _ (hexp L C hm).1
  have hom : ∀ L C, ρ.Mem L C → (ρ.translate (-T') (-L')).Mem (L - T') (C - L') := by
    intro L C hm
    simp only [Rect.translate, Rect.Mem, Rect.bottom, Rect.right] at hm ⊢
    omega
  -- the whole rectangle exposed: common to "shift too large" and "terminal refuses"
  have whole : ∀ (st1 : St) (t' : Tree) (ret' dp' : Bool), SLoopOk t0 st0 st1 → st1.screen = acc.1.screen →
      (∀ L C, ¬ ρ.Mem L C → Covered acc.1.tree.root.damage L C → Covered st1.tree.root.damage L C) →
      expose st1.tree (t0.wins.size + 1) win (some (ρ.translate (-T') (-L'))) = .ok t' →
      SLoopOk t0 st0 ({ st1 with tree := t' }, ret', dp').1 ∧
        MixedG F F' (fun L C => ρ.Mem L C ∨ D L C) ({ st1 with tree := t' }, ret', dp').1 := by
    intro st1 t' ret' dp' hl1 hscr hout he
    obtain ⟨a1, a2, a3, a4, a5, a6⟩ := expose_grow st1.tree t' _ win _ he hl1.nonempty (rootsPositive_wins hl1.wins hpos)
    have := sLoopOk_expose hl1 a1 a2 (a3 hl1.dinv) a4 st1.screen
    refine ⟨this, mixedG_grow F F' D ρ acc.1 _ hM (fun L C _ => by show st1.screen L C = _; rw [hscr])
      (fun L C hm hc => a5 L C (hout L C hm hc)) (fun L C hm => Or.inl ?_)⟩
    exact a6 L C _ _ (hom L C hm) (hex L C hm st1.tree hl1.wins)
  split at h
  · -- shift too large
    rw [hfuel] at h
    cases he : expose acc.1.tree (t0.wins.size + 1) win (some (ρ.translate (-T') (-L'))) with
    | ub e => rw [he] at h; cases h
    | ok t' =>
      rw [he] at h
      simp only [Res.ok.injEq] at h
      subst h
      exact whole acc.1 t' _ _ hl rfl (fun _ _ _ hc => hc) he
  · cases hsd : shiftDamage ρ d r acc.1.tree.root.damage [] with
    | ub e => rw [hsd] at h; cases h
    | ok dmg1 =>
      rw [hsd] at h
      simp only at h
      obtain ⟨s1, s2⟩ := shiftDamage_spec ρ d r hρ _ [] dmg1 hsd hl.nonempty RectSet.invS_nil
      generalize ht1 : ({ acc.1.tree with root := { acc.1.tree.root with damage := dmg1 } } : Tree) = t1 at h
      have h1w : t1.wins = acc.1.tree.wins := by rw [← ht1]
      have h1d : t1.root.damage = dmg1 := by rw [← ht1]
      have hl1 : SLoopOk t0 st0 { acc.1 with tree := t1 } :=
        { wins := h1w.trans hl.wins
          changes := by rw [← ht1]; exact hl.changes
          tl := hl.tl, tc := hl.tc, pens := hl.pens
          nonempty := by rw [h1d]; exact s1.1
          dinv := by rw [h1d]; exact (RectSet.inv_iff _).2 s1
          flags := by
            intro hd
            rw [h1d] at hd
            have hne0 : acc.1.tree.root.damage ≠ [] := by
              intro h0
              rw [h0, shiftDamage_nil] at hsd
              cases hsd
              exact hd rfl
            have := hl.flags hne0
            rw [← ht1]
            exact this
          later := by rw [← ht1]; exact hl.later }
      have hout : ∀ L C, ¬ ρ.Mem L C → Covered acc.1.tree.root.damage L C → Covered t1.root.damage L C := by
        intro L C hm hc
        rw [h1d]
        obtain ⟨rj, hrj, hmem⟩ := hc
        exact (s2 L C).2 (Or.inr ⟨rj, hrj, Or.inl ⟨hmem, hm⟩⟩)
      rw [hfuel] at h
      split at h
      · -- the terminal scrolls
        cases hv : stripV t1 (t0.wins.size + 1) win (ρ.translate (-T') (-L')) ρ.cols d with
        | ub e => rw [hv] at h; cases h
        | ok t2 =>
          rw [hv] at h
          simp only at h
          cases hh : stripH t2 (t0.wins.size + 1) win (ρ.translate (-T') (-L')) ρ.lines r with
          | ub e => rw [hh] at h; cases h
          | ok t3 =>
            rw [hh] at h
            simp only [Res.ok.injEq] at h
            subst h
            unfold stripV at hv
            unfold stripH at hh
            obtain ⟨a1, a2, a3, a4, a5, a6, a7⟩ := strip_step t1 t2 _ win _ _ _ _ hv hl1.nonempty (rootsPositive_wins hl1.wins hpos)
            have hw2 : t2.wins = t0.wins := a1.trans hl1.wins
            obtain ⟨b1, b2, b3, b4, b5, b6, b7⟩ := strip_step t2 t3 _ win _ _ _ _ hh a2 (rootsPositive_wins hw2 hpos)
            have hl2 := sLoopOk_expose hl1 a1 a2 (a3 hl1.dinv) a4 acc.1.screen
            have hl3 := sLoopOk_expose hl2 b1 b2 (b3 (a3 hl1.dinv)) b4
              (termScroll acc.1.tlines acc.1.tcols acc.1.screen ρ d r (Cell.blank pen))
            refine ⟨hl3, mixedG_grow F F' D ρ acc.1 _ hM
              (fun L C hm => termScroll_outside _ _ _ _ _ _ _ L C hm)
              (fun L C hm hc => b5 L C (a5 L C (hout L C hm hc))) ?_⟩
            intro L C hm
            obtain ⟨_, hnd, q1, q2, q3, q4⟩ := hexp L C hm
            have hmm := hm
            simp only [Rect.Mem, Rect.bottom, Rect.right] at hmm
            by_cases hin : ρ.Mem (L + d) (C + r)
            · -- the cell receives the cell `(d, r)` away
              obtain ⟨_, hnd2, p1, p2, p3, p4⟩ := hexp _ _ hin
              have hscr : termScroll acc.1.tlines acc.1.tcols acc.1.screen ρ d r (Cell.blank pen) L C =
                  acc.1.screen (L + d) (C + r) :=
                termScroll_inside _ _ _ _ _ _ _ L C hm (by rw [hl.tl, hl.tc]; exact ⟨q1, q2, q3, q4⟩) hin
                  (by rw [hl.tl, hl.tc]; exact ⟨p1, p2, p3, p4⟩)
              rcases hM (L + d) (C + r) with hc | ⟨hd', _⟩ | ⟨_, hs⟩
              · left
                apply b5; apply a5
                rw [h1d]
                obtain ⟨rj, hrj, hmem⟩ := hc
                exact (s2 L C).2 (Or.inr ⟨rj, hrj, Or.inr ⟨hm, hmem, hin⟩⟩)
              · exact absurd hd' hnd2
              · right
                intro v hv'
                show termScroll acc.1.tlines acc.1.tcols acc.1.screen ρ d r (Cell.blank pen) L C = _
                rw [hscr]
                exact hs v (hsh L C hm hin v hv')
            · -- a vacated cell: inside one of the exposed strips
              left
              have hex1 := hex L C hm t1 hl1.wins
              have hex2 := hex L C hm t2 hw2
              simp only [Rect.Mem, Rect.bottom, Rect.right] at hin
              by_cases hv1 : L + d ≥ ρ.top + ρ.lines
              · apply b5
                refine a6 (by omega) L C _ _ ?_ hex1
                simp only [Rect.translate, Rect.Mem, Rect.bottom, Rect.right]
                omega
              · by_cases hv2 : L + d < ρ.top
                · apply b5
                  refine a7 (by omega) (by omega) L C _ _ ?_ hex1
                  simp only [Rect.translate, Rect.Mem, Rect.bottom, Rect.right]
                  omega
                · by_cases hh1 : C + r ≥ ρ.left + ρ.cols
                  · refine b6 (by omega) L C _ _ ?_ hex2
                    simp only [Rect.translate, Rect.Mem, Rect.bottom, Rect.right]
                    omega
                  · refine b7 (by omega) (by omega) L C _ _ ?_ hex2
                    simp only [Rect.translate, Rect.Mem, Rect.bottom, Rect.right]
                    omega
      · -- the terminal refuses: the whole rectangle is exposed
        cases he : expose t1 (t0.wins.size + 1) win (some (ρ.translate (-T') (-L'))) with
        | ub e => rw [he] at h; cases h
        | ok t' =>
          rw [he] at h
          simp only [Res.ok.injEq] at h
          subst h
          exact whole { acc.1 with tree := t1 } t' _ _ hl1 rfl hout he

/-- **The loop over the visible region.** -/
theorem scrollLoopG_step (oracle : Oracle) (F F' : Int → Int → Option Cell) (t0 : Tree) (st0 : St) (win : Id)
    (T' L' d r : Int) (pen : Pen) (hpos : RootsPositive t0) :
    ∀ (rest : List Rect) (D : Int → Int → Prop) (acc acc' : St × Bool × Bool),
    scrollLoop oracle win T' L' d r pen rest acc = .ok acc' →
    SLoopOk t0 st0 acc.1 → (∀ ρ ∈ rest, ρ.Nonempty) → rest.Pairwise Rect.Disjoint →
    (∀ ρ ∈ rest, ∀ L C, ρ.Mem L C → ExposedAt t0 (t0.wins.size + 1) win (L - T') (C - L') L C ∧ ¬ D L C ∧
      0 ≤ L ∧ L < st0.tlines ∧ 0 ≤ C ∧ C < st0.tcols) →
    (∀ ρ ∈ rest, ∀ L C, ρ.Mem L C → ρ.Mem (L + d) (C + r) → ∀ v, F' L C = some v → F (L + d) (C + r) = some v) →
    MixedG F F' D acc.1 →
    SLoopOk t0 st0 acc'.1 ∧ MixedG F F' (fun L C => Covered rest L C ∨ D L C) acc'.1 := by
  intro rest
  induction rest with
  | nil =>
    intro D acc acc' h hl _ _ _ _ hM
    simp only [scrollLoop] at h
    cases h
    exact ⟨hl, mixedG_congr F F' D _ _ (fun L C => ⟨Or.inr, fun hx => by
      rcases hx with hx | hx
      · exact absurd hx (RectSet.covered_nil L C)
      · exact hx⟩) hM⟩
  | cons ρ rest ih =>
    intro D acc acc' h hl hne hdis hexp hsh hM
    simp only [scrollLoop, bind, Bind.bind] at h
    cases h1 : scrollOne oracle win T' L' d r pen acc ρ with
    | ub e => rw [h1] at h; cases h
    | ok acc1 =>
      rw [h1] at h
      simp only at h
      obtain ⟨a1, a2⟩ := scrollOneG_step oracle F F' t0 st0 win T' L' d r pen D acc acc1 ρ h1 hpos hl
        (hne ρ List.mem_cons_self) (hexp ρ List.mem_cons_self) (hsh ρ List.mem_cons_self) hM
      have hdis' := List.pairwise_cons.1 hdis
      obtain ⟨b1, b2⟩ := ih (fun L C => ρ.Mem L C ∨ D L C) acc1 acc' h a1 (fun q hq => hne q (List.mem_cons_of_mem _ hq)) hdis'.2
        (fun q hq L C hm => by
          obtain ⟨c1, c2, c3⟩ := hexp q (List.mem_cons_of_mem _ hq) L C hm
          refine ⟨c1, ?_, c3⟩
          rintro (hx | hx)
          · exact hdis'.1 q hq L C ⟨hx, hm⟩
          · exact c2 hx)
        (fun q hq => hsh q (List.mem_cons_of_mem _ hq)) a2
      refine ⟨b1, mixedG_congr F F' _ _ _ (fun L C => ?_) b2⟩
      rw [RectSet.covered_cons]
      constructor
      · rintro (hx | hx | hx)
        · exact Or.inl (Or.inr hx)
        · exact Or.inl (Or.inl hx)
        · exact Or.inr hx
      · rintro ((hx | hx) | hx)
        · exact Or.inr (Or.inl hx)
        · exact Or.inl hx
        · exact Or.inr (Or.inr hx)

/-! ### the application's half: the children moved -/

/-- `t'` is `t` with every window of `cs` moved by `(-d, -r)`. -/
structure Moved (t t' : Tree) (cs : List Id) (d r : Int) : Prop where
  size : t'.wins.size = t.wins.size
  other : ∀ x, x ∉ cs → t'.wins[x]? = t.wins[x]?
  moved : ∀ ch ∈ cs, ∀ cw, t.wins[ch]? = some cw →
    t'.wins[ch]? = some { cw with rect := { cw.rect with top := cw.rect.top - d, left := cw.rect.left - r } }

theorem setGeometry_spec (t : Tree) (id : Id) (w : Win) (g : Rect) (hg : WinTree.get t id = .ok w) :
    ∃ t1 b, WinTree.setGeometry t id g = .ok (t1, b) ∧ t1.wins[id]? = some { w with rect := g } ∧
      (∀ x, x ≠ id → t1.wins[x]? = t.wins[x]?) ∧ t1.wins.size = t.wins.size ∧ t1.root = t.root ∧ SameButG t t1 id := by
  have hw := get_ok hg
  unfold WinTree.setGeometry
  rw [hg]
  simp only [bind, Bind.bind]
  by_cases hrr : w.rect = g
  · refine ⟨t, false, by simp [hrr, pure, Pure.pure], ?_, fun _ _ => rfl, rfl, rfl, ⟨fun _ _ => rfl, rfl, rfl⟩⟩
    rw [hw.1, ← hrr]
  · refine ⟨WinTree.set t id { w with rect := g }, true, by simp [hrr, pure, Pure.pure],
      set_wins_self t id w _ hw.1, fun x hx => set_wins_other t id x _ hx, set_size _ _ _, rfl, ?_⟩
    refine ⟨fun x hx => by rw [set_wins_other t id x _ hx], ?_, set_size _ _ _⟩
    rw [set_wins_self t id w _ hw.1, hw.1]
    rfl

/-- The structural invariants of the window store that a geometry change of a window other than the root keeps. -/
structure WStruct (t : Tree) : Prop where
  ok : TreeOk t
  ord : Ordered t
  pos : RootsPositive t
  pc : ParentListed t

theorem wstruct_sameButG {t t' : Tree} {id : Id} (h : SameButG t t' id) (hid : id ≠ 0) (hs : WStruct t) : WStruct t' :=
  have hst := struct_sameButG h hs.ok.nodup hs.ok.noSelf
  { ok := ⟨wfp_sameButG h hs.ok.wf, hst.1, hst.2, onlyRoot_sameButG h hs.ok.onlyRoot, rootWin_sameButG h hid hs.ok.rootWin⟩
    ord := ordered_sameButG h hs.ord
    pos := rootsPositive_sameButG h hid hs.ok.onlyRoot hs.pos
    pc := parentListed_sameButG h hs.pc }

theorem moveChildren_spec (d r : Int) : ∀ (cs : List Id) (t t' : Tree), moveChildren d r t cs = .ok t' → cs.Nodup →
    (∀ c ∈ cs, c ≠ 0) → WStruct t → Moved t t' cs d r ∧ t'.root = t.root ∧ WStruct t' := by
  intro cs
  induction cs with
  | nil =>
    intro t t' h _ _ hs
    simp only [moveChildren] at h
    cases h
    exact ⟨⟨rfl, fun _ _ => rfl, fun _ h => by cases h⟩, rfl, hs⟩
  | cons ch cs ih =>
    intro t t' h hnd hnz hs
    simp only [moveChildren, bind, Bind.bind] at h
    cases hg : WinTree.get t ch with
    | ub e => rw [hg] at h; cases h
    | ok cw =>
      rw [hg] at h
      simp only at h
      obtain ⟨t1, b, hsg, h1s, h1o, h1z, h1r, hsb⟩ := setGeometry_spec t ch cw
        { cw.rect with top := cw.rect.top - d, left := cw.rect.left - r } hg
      rw [hsg] at h
      simp only at h
      have hnd' := List.nodup_cons.1 hnd
      obtain ⟨hm, hr, hs'⟩ := ih t1 t' h hnd'.2 (fun c hc => hnz c (List.mem_cons_of_mem _ hc))
        (wstruct_sameButG hsb (hnz ch List.mem_cons_self) hs)
      refine ⟨⟨hm.size.trans h1z, ?_, ?_⟩, hr.trans h1r, hs'⟩
      · intro x hx
        have hx1 : x ≠ ch := fun e => hx (by rw [e]; exact List.mem_cons_self)
        have hx2 : x ∉ cs := fun e => hx (List.mem_cons_of_mem _ e)
        rw [hm.other x hx2, h1o x hx1]
      · intro c hc cw0 hcw0
        rcases List.mem_cons.1 hc with rfl | hc
        · have := get_ok hg
          rw [this.1] at hcw0; cases hcw0
          rw [hm.other c hnd'.1, h1s]
        · have hne : c ≠ ch := fun e => hnd'.1 (by rw [← e]; exact hc)
          exact hm.moved c hc cw0 (by rw [h1o c hne]; exact hcw0)

/-! ### ownership in the tree with the children moved -/

theorem ownerLoc_zero (t : Tree) (id : Id) (l c : Int) : ownerLoc t 0 id l c = none := rfl

/-- A subtree that contains no moved window composes as before. -/
theorem ownerLoc_moved_off (t0 t1 : Tree) (cs : List Id) (d r : Int) (hmv : Moved t0 t1 cs d r) (hwf : WFp t0) :
    ∀ (n : Nat) (a : Id), (∀ k, Anc t0 a k → k ∉ cs) → ∀ x y, ownerLoc t1 n a x y = ownerLoc t0 n a x y := by
  intro n
  induction n with
  | zero => intro a _ x y; rfl
  | succ m ih =>
    intro a ha x y
    rw [ownerLoc_unfold, ownerLoc_unfold, hmv.other a (ha a (Anc.refl a))]
    cases hw : t0.wins[a]? with
    | none => rfl
    | some aw =>
      simp only
      have hall : ∀ s ∈ aw.children, ownerLoc t1 m s (x - aw.rect.top) (y - aw.rect.left) =
          ownerLoc t0 m s (x - aw.rect.top) (y - aw.rect.left) := by
        intro s hs
        obtain ⟨sw, hsw, hsp, _⟩ := hwf.child a aw hw s hs
        exact ih s (fun k hk => ha k (hk.parent_up hsw hsp)) _ _
      rw [findSome?_congr_mem _ _ _ hall]

/-- A moved window shows at a cell what it showed, before the move, at the cell `(d, r)` away. -/
theorem ownerLoc_moved_child (t0 t1 : Tree) (n : Nat) (ch : Id) (cw : Win) (d r : Int) (h0 : t0.wins[ch]? = some cw)
    (h1 : t1.wins[ch]? = some { cw with rect := { cw.rect with top := cw.rect.top - d, left := cw.rect.left - r } })
    (hkids : ∀ s ∈ cw.children, ∀ x y, ownerLoc t1 n s x y = ownerLoc t0 n s x y) (x y : Int) :
    ownerLoc t1 (n + 1) ch x y = ownerLoc t0 (n + 1) ch (x + d) (y + r) := by
  rw [ownerLoc_unfold, ownerLoc_unfold, h0, h1]
  simp only
  have hm : Rect.memb { cw.rect with top := cw.rect.top - d, left := cw.rect.left - r } x y = cw.rect.memb (x + d) (y + r) := by
    apply Bool.eq_iff_iff.mpr
    rw [memb_true_iff, memb_true_iff]
    simp only [Rect.Mem, Rect.bottom, Rect.right]
    omega
  rw [hm]
  have e1 : x - (cw.rect.top - d) = x + d - cw.rect.top := by omega
  have e2 : y - (cw.rect.left - r) = y + r - cw.rect.left := by omega
  rw [e1, e2]
  have hall : ∀ s ∈ cw.children, ownerLoc t1 n s (x + d - cw.rect.top) (y + r - cw.rect.left) =
      ownerLoc t0 n s (x + d - cw.rect.top) (y + r - cw.rect.left) := fun s hs => hkids s hs _ _
  rw [findSome?_congr_mem _ _ _ hall]

theorem ownerLoc_isNone_congr (t t' : Tree) (n : Nat) (s : Id) (x y : Int) (h : t'.wins[s]? = t.wins[s]?) :
    (ownerLoc t' n s x y).isNone = (ownerLoc t n s x y).isNone := by
  cases n with
  | zero => rfl
  | succ m =>
    rw [ownerLoc_unfold, ownerLoc_unfold, h]
    cases t.wins[s]? with
    | none => rfl
    | some sw =>
      simp only
      split
      · rfl
      · split
        · rfl
        · cases sw.children.findSome? (fun ch => ownerLoc t' m ch (x - sw.rect.top) (y - sw.rect.left)) <;>
            cases sw.children.findSome? (fun ch => ownerLoc t m ch (x - sw.rect.top) (y - sw.rect.left)) <;> rfl

theorem findSome?_transfer {α β : Type} (f1 f0 : α → Option β) (o : β) : ∀ (cs : List α),
    (∀ s ∈ cs, (f1 s).isNone = (f0 s).isNone) → (∀ s ∈ cs, f1 s = some o → f0 s = some o) →
    cs.findSome? f1 = some o → cs.findSome? f0 = some o := by
  intro cs
  induction cs with
  | nil => intro _ _ h; cases h
  | cons a rest ih =>
    intro hn hs h
    simp only [List.findSome?_cons] at h ⊢
    have hna := hn a List.mem_cons_self
    cases h1 : f1 a with
    | some o' =>
      rw [h1] at h
      simp only [Option.some.injEq] at h
      subst h
      rw [hs a List.mem_cons_self h1]
    | none =>
      rw [h1] at h hna
      simp only at h
      cases h0 : f0 a with
      | some o' => rw [h0] at hna; cases hna
      | none =>
        simp only
        exact ih (fun s hs' => hn s (List.mem_cons_of_mem _ hs')) (fun s hs' => hs s (List.mem_cons_of_mem _ hs')) h

theorem findSome?_none_transfer {α β : Type} (f1 f0 : α → Option β) : ∀ (cs : List α),
    (∀ s ∈ cs, (f1 s).isNone = (f0 s).isNone) → cs.findSome? f1 = none → cs.findSome? f0 = none := by
  intro cs hn h
  rw [List.findSome?_eq_none_iff] at h ⊢
  intro s hs
  have := hn s hs
  rw [h s hs] at this
  cases h0 : f0 s with
  | none => rfl
  | some o => rw [h0] at this; cases this

/-- A window not strictly below `win` is not one of its children. -/
theorem not_child_of_not_below (t1 : Tree) (hwf : WFp t1) (win : Id) (ww : Win) (hww1 : t1.wins[win]? = some ww) (a : Id)
    (hnb : ¬ (Anc t1 win a ∧ a ≠ win)) (hord : ∀ ch ∈ ww.children, ch ≠ win) : a ∉ ww.children := by
  intro hc
  obtain ⟨cw, hcw, hcp, _⟩ := hwf.child win ww hww1 a hc
  exact hnb ⟨Anc.step hcw hcp (Anc.refl win), hord a hc⟩

/-- **Outside the subtree of the scrolled window nothing changes**: an owner, in the tree with the children moved, that
    does not lie below the scrolled window is the owner in the tree as it was. -/
theorem ownerLoc_moved_back (t0 t1 : Tree) (win : Id) (ww : Win) (d r : Int) (hmv : Moved t0 t1 ww.children d r)
    (hwf1 : WFp t1) (hww1 : t1.wins[win]? = some ww) (hord : ∀ ch ∈ ww.children, ch ≠ win) :
    ∀ (n : Nat) (a : Id) (x y : Int) (o : Id × Int × Int), ¬ (Anc t1 win a ∧ a ≠ win) →
      ownerLoc t1 n a x y = some o → ¬ Anc t1 win o.1 → ownerLoc t0 n a x y = some o := by
  intro n
  induction n with
  | zero => intro a x y o _ h; cases h
  | succ m ih =>
    intro a x y o hnb h hno
    by_cases haw : a = win
    · subst haw
      exact absurd (ownerLoc_anc t1 hwf1 (m + 1) a x y o.1 o.2.1 o.2.2 h) hno
    · have hrec := hmv.other a (not_child_of_not_below t1 hwf1 win ww hww1 a hnb hord)
      rw [ownerLoc_unfold] at h ⊢
      rw [hrec] at h
      cases hw : t0.wins[a]? with
      | none => rw [hw] at h; cases h
      | some aw =>
        rw [hw] at h
        simp only at h ⊢
        have hw1 : t1.wins[a]? = some aw := hrec.trans hw
        -- the children of `a` are not strictly below `win` either, so they are not moved
        have hkid : ∀ s ∈ aw.children, ¬ (Anc t1 win s ∧ s ≠ win) := by
          intro s hs hx
          obtain ⟨sw, hsw, hsp, _⟩ := hwf1.child a aw hw1 s hs
          exact hnb ⟨anc_parent_down hx.1 (Ne.symm hx.2) hsw hsp, haw⟩
        have hnone : ∀ s ∈ aw.children,
            (ownerLoc t1 m s (x - aw.rect.top) (y - aw.rect.left)).isNone =
            (ownerLoc t0 m s (x - aw.rect.top) (y - aw.rect.left)).isNone := fun s hs =>
          ownerLoc_isNone_congr t0 t1 m s _ _
            (hmv.other s (not_child_of_not_below t1 hwf1 win ww hww1 s (hkid s hs) hord))
        split at h
        · cases h
        · rename_i hg1
          split at h
          · cases h
          · rename_i hg2
            rw [if_neg hg1, if_neg hg2]
            cases hfs : aw.children.findSome? (fun ch => ownerLoc t1 m ch (x - aw.rect.top) (y - aw.rect.left)) with
            | some o' =>
              rw [hfs] at h
              simp only [Option.some.injEq] at h
              subst h
              rw [findSome?_transfer _ _ o' aw.children hnone
                (fun s hs hso => ih s _ _ o' (hkid s hs) hso hno) hfs]
            | none =>
              rw [hfs] at h
              rw [findSome?_none_transfer _ _ aw.children hnone hfs]
              exact h

/-! ### the visible-region computation does not read the children of the scrolled window -/

theorem get_congr {t t' : Tree} {x : Id} (h : t'.wins[x]? = t.wins[x]?) : WinTree.get t' x = WinTree.get t x := by
  unfold WinTree.get; rw [h]

theorem subtractSiblings_congr (t t' : Tree) (win : Id) : ∀ (cs : List Id) (v : List Rect),
    (∀ s ∈ cs, t'.wins[s]? = t.wins[s]?) → subtractSiblings t' win cs v = subtractSiblings t win cs v := by
  intro cs
  induction cs with
  | nil => intro v _; rfl
  | cons s rest ih =>
    intro v h
    simp only [subtractSiblings]
    by_cases hsw : s = win
    · simp only [hsw, if_true]
    · simp only [hsw, if_false, bind, Bind.bind]
      rw [get_congr (h s List.mem_cons_self)]
      cases WinTree.get t s with
      | ub e => rfl
      | ok sw =>
        simp only
        have ih' := fun v' => ih v' (fun q hq => h q (List.mem_cons_of_mem _ hq))
        cases hv : sw.isVisible with
        | false => simp only [Bool.not_false, if_true]; exact ih' v
        | true =>
          simp only [Bool.not_true, Bool.false_eq_true, if_false]
          cases rsSub v sw.rect with
          | ub e => rfl
          | ok v1 => exact ih' v1

/-- Windows on the way from the scrolled window to the root, and their siblings, are not children of the scrolled
    window. -/
theorem clipToAncestors_congr (t0 t1 : Tree) (win : Id) (hs0 : WStruct t0)
    (hsame : ∀ x, @LE.le Nat _ x win → t1.wins[x]? = t0.wins[x]?) :
    ∀ (k : Nat) (a : Id) (aT aL : Int) (rect : Rect), Anc t0 a win →
      clipToAncestors t1 k a aT aL rect = clipToAncestors t0 k a aT aL rect := by
  intro k
  induction k with
  | zero => intro a aT aL rect _; rfl
  | succ n ih =>
    intro a aT aL rect hanc
    have ha := anc_le t0 hs0.ord hs0.pc hanc
    simp only [clipToAncestors, bind, Bind.bind]
    rw [get_congr (hsame a ha)]
    cases hg : WinTree.get t0 a with
    | ub e => rfl
    | ok aw =>
      have haw := get_ok hg
      simp only
      cases hp : aw.parent with
      | none => rfl
      | some p =>
        simp only
        have hlt := parent_lt t0 hs0.ord hs0.pc a aw p haw.1 hp
        rw [get_congr (hsame p (by omega))]
        cases WinTree.get t0 p with
        | ub e => rfl
        | ok pw =>
          simp only
          cases Rect.intersect rect ⟨-(aT + aw.rect.top), -(aL + aw.rect.left), pw.rect.lines, pw.rect.cols⟩ with
          | none => rfl
          | some r1 => exact ih p _ _ r1 (hanc.parent_up haw.1 hp)

theorem scrollWalk_congr (t0 t1 : Tree) (pens : Array (Option Pen)) (win : Id) (ww : Win) (hs0 : WStruct t0)
    (hww : t0.wins[win]? = some ww)
    (hsame : ∀ x, x ∉ ww.children → t1.wins[x]? = t0.wins[x]?) :
    ∀ (k : Nat) (a : Id) (vis : List Rect) (aT aL : Int) (pen : Pen), Anc t0 a win →
      scrollWalk t1 pens k a vis aT aL pen = scrollWalk t0 pens k a vis aT aL pen := by
  have hle : ∀ x, @LE.le Nat _ x win → x ∉ ww.children := by
    intro x hx hc
    have := hs0.ord win ww hww x hc
    omega
  intro k
  induction k with
  | zero => intro a vis aT aL pen _; rfl
  | succ n ih =>
    intro a vis aT aL pen hanc
    have ha := anc_le t0 hs0.ord hs0.pc hanc
    simp only [scrollWalk, bind, Bind.bind]
    rw [get_congr (hsame a (hle a ha))]
    cases hg : WinTree.get t0 a with
    | ub e => rfl
    | ok aw =>
      have haw := get_ok hg
      simp only
      cases hv : aw.isVisible with
      | false => rfl
      | true =>
        simp only [Bool.not_true, Bool.false_eq_true, if_false]
        cases hp : aw.parent with
        | none => rfl
        | some p =>
          simp only
          have hlt := parent_lt t0 hs0.ord hs0.pc a aw p haw.1 hp
          rw [get_congr (hsame p (hle p (by omega)))]
          cases hgp : WinTree.get t0 p with
          | ub e => rfl
          | ok pw =>
            have hpw := get_ok hgp
            simp only
            have hsib : ∀ s ∈ pw.children, t1.wins[s]? = t0.wins[s]? := by
              intro s hs
              apply hsame
              intro hc
              obtain ⟨_, hsw, hsp, _⟩ := hs0.ok.wf.child p pw hpw.1 s hs
              obtain ⟨_, hsw', hsp', _⟩ := hs0.ok.wf.child win ww hww s hc
              rw [hsw] at hsw'; cases hsw'
              rw [hsp] at hsp'
              have : @Eq Nat p win := by cases hsp'; rfl
              omega
            rw [subtractSiblings_congr t0 t1 a pw.children _ hsib]
            cases subtractSiblings t0 a pw.children (RectSet.translate vis aw.rect.top aw.rect.left) with
            | ub e => rfl
            | ok v2 => exact ih p v2 _ _ _ (hanc.parent_up haw.1 hp)

/-! ### assembling the step -/

theorem compose_some (t : Tree) (content : Id → Int → Int → Cell) (L C : Int) (o : Id × Int × Int)
    (h : ownerAt t L C = some o) : compose t content L C = some (content o.1 o.2.1 o.2.2) := by
  obtain ⟨w, l, c⟩ := o
  unfold compose
  rw [h]

/-- Where something below `win` owns a cell, `win` is exposed at it. -/
theorem below_exposed (t : Tree) (hok : TreeOk t) (win : Id) (L C : Int) (o : Id × Int × Int)
    (h : ownerAt t L C = some o) (hwo : Anc t win o.1) : ∃ l c, ExposedAt t (t.wins.size + 1) win l c L C :=
  exposedAt_anc t hok hwo _ _ _ _ _ (owner_exposedAt t hok L C o.1 o.2.1 o.2.2 h)

theorem exposedAt_self (t : Tree) (k : Nat) (win : Id) (w : Win) (hw : t.wins[win]? = some w) (l c L C : Int)
    (hex : ExposedAt t k win l c L C) : (⟨0, 0, w.rect.lines, w.rect.cols⟩ : Rect).Mem l c := by
  cases k with
  | zero => simp [ExposedAt] at hex
  | succ n =>
    simp only [ExposedAt] at hex
    obtain ⟨w', hw', _, b1, b2, b3, b4, _⟩ := hex
    rw [hw] at hw'; cases hw'
    simp only [Rect.Mem, Rect.bottom, Rect.right]
    omega

theorem wstruct_congr {t t' : Tree} (h : t'.wins = t.wins) (hs : WStruct t) : WStruct t' :=
  have hcore : ∀ x : Id, (t'.wins[x]?).map core = (t.wins[x]?).map core := by intro x; rw [h]
  { ok := treeOk_congr_core hcore hs.ok, ord := ordered_congr h hs.ord, pos := rootsPositive_congr_core hcore hs.pos,
    pc := parentListed_congr h hs.pc }

theorem mixedG_dummy (D : Int → Int → Prop) (st : St) : MixedG (fun _ _ => none) (fun _ _ => none) D st := by
  intro L C
  by_cases hd : D L C
  · exact Or.inr (Or.inl ⟨hd, fun v hv => by cases hv⟩)
  · exact Or.inr (Or.inr ⟨hd, fun v hv => by cases hv⟩)

/-- What the application's move leaves of the state the scroll produced. -/
theorem moved_facts (content : Id → Int → Int → Cell) (st st_s : St) (win : Id) (ww w2 : Win) (d r : Int) (t1 : Tree)
    (hg : GoodQ content st) (hgw : WinTree.get st.tree win = .ok ww) (hwins : st_s.tree.wins = st.tree.wins)
    (hg2 : WinTree.get st_s.tree win = .ok w2) (hmc : moveChildren d r st_s.tree w2.children = .ok t1) :
    w2 = ww ∧ Moved st.tree t1 ww.children d r ∧ t1.root = st_s.tree.root ∧ WStruct t1 ∧ t1.wins[win]? = some ww ∧
      (∀ ch ∈ ww.children, @LT.lt Nat _ win ch) ∧ t1.wins[0]? = st.tree.wins[0]? := by
  have hw := get_ok hgw
  have hw2 := get_ok hg2
  have e : w2 = ww := by
    have := hw2.1
    rw [hwins, hw.1] at this
    exact (Option.some.inj this).symm
  subst e
  have hs0 : WStruct st.tree := ⟨hg.tinv.ok, hg.tinv.ord, hg.tinv.pos, hg.pc⟩
  have hlt : ∀ ch ∈ w2.children, @LT.lt Nat _ win ch := hg.tinv.ord win w2 hw.1
  obtain ⟨hm, hr, hs1⟩ := moveChildren_spec d r w2.children st_s.tree t1 hmc (hg.tinv.ok.nodup win w2 hw.1)
    (fun c hc e => by have := hlt c hc; rw [e] at this; exact Nat.not_lt_zero _ this) (wstruct_congr hwins hs0)
  have hm' : Moved st.tree t1 w2.children d r :=
    ⟨by rw [hm.size, hwins], fun x hx => by rw [hm.other x hx, hwins], fun ch hch cw hcw => hm.moved ch hch cw (by rw [hwins]; exact hcw)⟩
  have hnw : win ∉ w2.children := fun hc => by have := hlt win hc; omega
  have hn0 : (0 : Id) ∉ w2.children := fun hc => by have := hlt 0 hc; omega
  exact ⟨rfl, hm', hr, hs1, by rw [hm'.other win hnw]; exact hw.1, hlt, hm'.other 0 hn0⟩

/-- **Closing the step**: once the scroll has left "damaged, or right for the new composition inside the region `V`, or
    right for the old one outside it", and `V` contains every cell the subtree of the scrolled window owns after the
    move, the state with the children moved satisfies the invariant for the shifted content. -/
theorem scrollch_finish (content content' : Id → Int → Int → Cell) (st st_s : St) (win : Id) (ww : Win) (d r : Int) (t1 : Tree)
    (V : Int → Int → Prop) (hg : GoodQ content st) (hloop : SLoopOk st.tree st st_s)
    (hmv : Moved st.tree t1 ww.children d r) (hroot : t1.root = st_s.tree.root) (hs1 : WStruct t1)
    (hww1 : t1.wins[win]? = some ww) (hlt : ∀ ch ∈ ww.children, @LT.lt Nat _ win ch)
    (h0 : t1.wins[0]? = st.tree.wins[0]?)
    (hM : MixedG (compose st.tree content) (compose t1 content') V st_s)
    (hV2 : ∀ L C o, ownerAt t1 L C = some o → Anc t1 win o.1 → V L C)
    (hc : ∀ w' l c, w' ≠ win → content' w' l c = content w' l c) :
    GoodQ content' { st_s with tree := t1 } := by
  have hord : ∀ ch ∈ ww.children, ch ≠ win := fun ch hch e => by
    have := hlt ch hch; rw [e] at this; exact Nat.lt_irrefl _ this
  refine { tinv := ⟨hs1.ok, hs1.ord, hs1.pos, by rw [hroot]; exact hloop.nonempty, by rw [hroot]; exact hloop.dinv, ?_⟩
           flags := (by unfold Flags; rw [hroot]; exact hloop.flags)
           queue := (by unfold QueueOk; rw [hroot, hloop.changes]; exact hg.queue)
           queueLater := (by
             rw [hroot, hloop.changes]
             exact fun hq => hloop.later (hg.queueLater hq))
           term := ?_
           pc := hs1.pc }
  · intro L C w l c ho
    show Covered t1.root.damage L C ∨ st_s.screen L C = content' w l c
    rcases hM L C with hcv | ⟨_, hr⟩ | ⟨hnv, hr⟩
    · exact Or.inl (by rw [hroot]; exact hcv)
    · exact Or.inr (hr _ (compose_some t1 content' L C _ ho))
    · right
      have hno : ¬ Anc t1 win w := fun ha => hnv (hV2 L C _ ho ha)
      have hback := ownerLoc_moved_back st.tree t1 win ww d r hmv hs1.ok.wf hww1 hord (t1.wins.size + 1) 0 L C (w, l, c)
        (by
          rintro ⟨ha, hne⟩
          have := anc_le t1 hs1.ord hs1.pc ha
          have h0' : @Eq Nat win 0 := by omega
          exact hne h0'.symm)
        ho hno
      rw [hmv.size] at hback
      have := hr _ (compose_some st.tree content L C _ hback)
      rw [this, hc w l c (fun e => hno (by rw [e]; exact Anc.refl win))]
  · obtain ⟨w0, hw0, e1, e2⟩ := hg.term
    exact ⟨w0, by show t1.wins[0]? = some w0; rw [h0]; exact hw0, by rw [hloop.tl]; exact e1, by rw [hloop.tc]; exact e2⟩

theorem sLoopOk_refl (content : Id → Int → Int → Cell) (st : St) (hg : GoodQ content st) : SLoopOk st.tree st st :=
  { wins := rfl, changes := rfl, tl := rfl, tc := rfl, pens := rfl, nonempty := hg.tinv.nonempty, dinv := hg.tinv.dinv,
    flags := hg.flags, later := fun hx => hx }

theorem sLoopOk_reroot {t0 : Tree} {st0 st : St} (hl : SLoopOk t0 st0 st) :
    SLoopOk t0 st0 { st with tree := { st.tree with root := { st.tree.root with needsRestore := true, needsLater := true } } } :=
  { wins := hl.wins, changes := hl.changes, tl := hl.tl, tc := hl.tc, pens := hl.pens, nonempty := hl.nonempty, dinv := hl.dinv,
    flags := fun hd => ⟨(hl.flags hd).1, rfl⟩, later := fun _ => rfl }

theorem mixedG_init (content content' : Id → Int → Int → Cell) (st : St) (t1 : Tree)
    (hinv : InvC content st.tree st.screen) :
    MixedG (compose st.tree content) (compose t1 content') (fun _ _ => False) st := by
  intro L C
  cases ho : ownerAt st.tree L C with
  | none =>
    refine Or.inr (Or.inr ⟨fun h => h, fun v hv => ?_⟩)
    unfold compose at hv
    rw [ho] at hv
    cases hv
  | some o =>
    rcases hinv L C o.1 o.2.1 o.2.2 ho with hcv | hr
    · exact Or.inl hcv
    · refine Or.inr (Or.inr ⟨fun h => h, fun v hv => ?_⟩)
      rw [compose_some _ _ _ _ _ ho] at hv
      simp only [Option.some.injEq] at hv
      rw [← hv]
      exact hr

/-- **The subtree of the scrolled window after the move** shows at a cell what it showed, before, at the cell `(d, r)`
    away: a child's cell where a (moved) child owns it, else the window's own. -/
theorem subOwn_moved (t0 t1 : Tree) (win : Id) (ww : Win) (d r : Int) (hmv : Moved t0 t1 ww.children d r) (hs0 : WStruct t0)
    (hww : t0.wins[win]? = some ww) (l c : Int) :
    (∀ o, ww.children.findSome? (fun ch => own t0 ch (l + d) (c + r)) = some o → subOwn t1 win ww.children l c = o) ∧
    (ww.children.findSome? (fun ch => own t0 ch (l + d) (c + r)) = none → subOwn t1 win ww.children l c = (win, l, c)) := by
  unfold subOwn
  have hall : ∀ ch ∈ ww.children, own t1 ch l c = own t0 ch (l + d) (c + r) := by
    intro ch hch
    unfold own
    rw [hmv.size]
    obtain ⟨cw, hcw, hcp, _⟩ := hs0.ok.wf.child win ww hww ch hch
    have hwc : @LT.lt Nat _ win ch := hs0.ord win ww hww ch hch
    refine ownerLoc_moved_child t0 t1 _ ch cw d r hcw (hmv.moved ch hch cw hcw) (fun s hs x y => ?_) l c
    refine ownerLoc_moved_off t0 t1 ww.children d r hmv hs0.ok.wf _ s (fun k hk hkc => ?_) x y
    -- a window below a grandchild is not a child
    obtain ⟨sw, hsw, hsp, _⟩ := hs0.ok.wf.child ch cw hcw s hs
    obtain ⟨kw, hkw, hkp, _⟩ := hs0.ok.wf.child win ww hww k hkc
    have hcs : @LT.lt Nat _ ch s := hs0.ord ch cw hcw s hs
    by_cases hsk : s = k
    · subst hsk
      rw [hsw] at hkw; cases hkw
      rw [hsp] at hkp
      have : @Eq Nat ch win := by cases hkp; rfl
      omega
    · have := anc_le t0 hs0.ord hs0.pc (anc_parent_down hk hsk hkw hkp)
      omega
  rw [findSome?_congr_mem _ _ _ hall]
  exact ⟨fun o h => by rw [h], fun h => by rw [h]⟩

theorem subOwn_child_ne (t0 : Tree) (win : Id) (ww : Win) (hs0 : WStruct t0) (hww : t0.wins[win]? = some ww) (x y : Int)
    (o : Id × Int × Int) (h : ww.children.findSome? (fun ch => own t0 ch x y) = some o) : o.1 ≠ win := by
  obtain ⟨ch, hch, hown⟩ := List.exists_of_findSome?_eq_some h
  have h1 := anc_le t0 hs0.ord hs0.pc (ownerLoc_anc t0 hs0.ok.wf _ ch x y o.1 o.2.1 o.2.2 hown)
  have h2 : @LT.lt Nat _ win ch := hs0.ord win ww hww ch hch
  intro e
  rw [e] at h1
  omega

/-- **`scrollch_step`**: `tickit_window_scroll_with_children` (`_scroll` with the children *not* masked: the terminal
    scrolls every cell of the window's subtree) followed by the application moving every child by the same offsets,
    under every scroll oracle and whatever the call returned, keeps the state invariant when the window's own content
    moves with the scroll (the children's content, in their own coordinates, stays). -/
theorem scrollch_step (oracle : Oracle) (content content' : Id → Int → Int → Cell) (st st' : St) (win : Id) (ww : Win)
    (d r : Int) (ret : Bool) (hg : GoodQ content st) (hgw : WinTree.get st.tree win = .ok ww)
    (h : scrollWithChildrenMoved oracle st win d r = .ok (st', ret))
    (hc : ∀ w l c, content' w l c =
      if w = win ∧ (⟨0, 0, ww.rect.lines, ww.rect.cols⟩ : Rect).memb l c = true then content w (l + d) (c + r)
      else content w l c) :
    GoodQ content' st' := by
  have hI := hg.tinv
  have hok := hI.ok
  have hw := get_ok hgw
  have hs0 : WStruct st.tree := ⟨hI.ok, hI.ord, hI.pos, hg.pc⟩
  have hcne : ∀ w' l c, w' ≠ win → content' w' l c = content w' l c := by
    intro w' l c hne
    rw [hc w' l c, if_neg (fun hx => hne hx.1)]
  have hltw : ∀ ch ∈ ww.children, @LT.lt Nat _ win ch := hI.ord win ww hw.1
  unfold scrollWithChildrenMoved scrollWithChildren at h
  simp only [bind, Bind.bind, hgw] at h
  cases hs : scroll oracle st win ⟨0, 0, ww.rect.lines, ww.rect.cols⟩ d r none false with
  | ub e => rw [hs] at h; cases h
  | ok res =>
    obtain ⟨st_s, ret_s⟩ := res
    rw [hs] at h
    simp only at h
    cases hg2 : WinTree.get st_s.tree win with
    | ub e => rw [hg2] at h; cases h
    | ok w2 =>
      rw [hg2] at h
      simp only at h
      cases hmc : moveChildren d r st_s.tree w2.children with
      | ub e => rw [hmc] at h; cases h
      | ok t1 =>
        rw [hmc] at h
        simp only [pure, Pure.pure, Res.ok.injEq, Prod.mk.injEq] at h
        obtain ⟨hst', _⟩ := h
        subst hst'
        -- a tree that differs only in the children of `win`
        have hsame_le : ∀ t : Tree, (∀ x, x ∉ ww.children → t.wins[x]? = st.tree.wins[x]?) →
            ∀ x, @LE.le Nat _ x win → t.wins[x]? = st.tree.wins[x]? := by
          intro t ht x hx
          exact ht x (fun hcx => by have := hltw x hcx; omega)
        -- the outcomes in which nothing is scrolled: nothing of the subtree shows, before or after the move
        have trivial_case : st_s = st → (∀ t : Tree, WStruct t → t.wins[win]? = some ww →
            (∀ x, x ∉ ww.children → t.wins[x]? = st.tree.wins[x]?) → t.wins.size = st.tree.wins.size →
            ∀ L C o, ownerAt t L C = some o → Anc t win o.1 → False) → GoodQ content' { st_s with tree := t1 } := by
          intro hss hnone
          subst hss
          obtain ⟨_, hmv, hroot, hs1, hww1, hlt, h00⟩ := moved_facts content st_s st_s win ww w2 d r t1 hg hgw rfl hg2 hmc
          exact scrollch_finish content content' st_s st_s win ww d r t1 (fun _ _ => False) hg (sLoopOk_refl content st_s hg)
            hmv hroot hs1 hww1 hlt h00 (mixedG_init content content' st_s t1 hI.inv)
            (fun L C o ho ha => hnone t1 hs1 hww1 hmv.other hmv.size L C o ho ha) hcne
        unfold scroll at hs
        simp only [bind, Bind.bind, pure, Pure.pure, hgw, Bool.false_eq_true, if_false] at hs
        cases h0 : Rect.intersect ⟨0, 0, ww.rect.lines, ww.rect.cols⟩ ⟨0, 0, ww.rect.lines, ww.rect.cols⟩ with
        | none =>
          rw [h0] at hs
          simp only [Res.ok.injEq, Prod.mk.injEq] at hs
          refine trivial_case hs.1.symm (fun t hst htw _ _ L C o ho ha => ?_)
          obtain ⟨l, c, hex⟩ := below_exposed t hst.ok win L C o ho ha
          have hm := exposedAt_self t _ win ww htw l c L C hex
          exact Props.C06.intersect_none _ _ h0 l c ⟨hm, hm⟩
        | some rect0 =>
          rw [h0] at hs
          simp only at hs
          have hm0 := (Props.C06.intersect_some _ _ _ h0).2
          cases h1 : clipToAncestors st.tree st.fuel win 0 0 rect0 with
          | ub e => rw [h1] at hs; cases hs
          | ok cr =>
            rw [h1] at hs
            simp only at hs
            cases cr with
            | none =>
              simp only [Res.ok.injEq, Prod.mk.injEq] at hs
              refine trivial_case hs.1.symm (fun t hst htw hto hsz L C o ho ha => ?_)
              obtain ⟨l, c, hex⟩ := below_exposed t hst.ok win L C o ho ha
              have hm := exposedAt_self t _ win ww htw l c L C hex
              have h1t : clipToAncestors t (t.wins.size + 1) win 0 0 rect0 = .ok none := by
                rw [hsz, clipToAncestors_congr st.tree t win hs0 (hsame_le t hto) _ win 0 0 rect0 (Anc.refl win)]
                exact h1
              obtain ⟨r', hr', _⟩ := clip_keep t hst.ok _ win 0 0 rect0 none _ l c L C h1t ((hm0 l c).2 ⟨hm, hm⟩)
                (by simpa using hex)
              cases hr'
            | some crect =>
              simp only at hs
              cases h2 : rsAdd [] crect with
              | ub e => rw [h2] at hs; cases hs
              | ok vis0 =>
                rw [h2] at hs
                simp only at hs
                unfold scrollRectSet at hs
                simp only [bind, Bind.bind, pure, Pure.pure] at hs
                cases h4 : scrollWalk st.tree st.pens st.fuel win vis0 0 0 ((none : Option Pen).getD {}) with
                | ub e => rw [h4] at hs; cases hs
                | ok wres =>
                  rw [h4] at hs
                  simp only at hs
                  cases wres with
                  | none =>
                    simp only [Res.ok.injEq, Prod.mk.injEq] at hs
                    refine trivial_case hs.1.symm (fun t hst htw hto hsz L C o ho ha => ?_)
                    obtain ⟨l, c, hex⟩ := below_exposed t hst.ok win L C o ho ha
                    have h4t : scrollWalk t st.pens (t.wins.size + 1) win vis0 0 0 ((none : Option Pen).getD {}) = .ok none := by
                      rw [hsz, scrollWalk_congr st.tree t st.pens win ww hs0 hw.1 hto _ win vis0 0 0 _ (Anc.refl win)]
                      exact h4
                    exact scrollWalk_none t st.pens hst.ok _ win _ _ _ _ h4t _ _ _ _ _ hex
                  | some quint =>
                    obtain ⟨top, vis', T', L', pen'⟩ := quint
                    simp only at hs
                    cases hgt : WinTree.get st.tree top with
                    | ub e => rw [hgt] at hs; cases hs
                    | ok tw =>
                      rw [hgt] at hs
                      have htw := get_ok hgt
                      simp only at hs
                      cases hir : tw.isRoot with
                      | false => simp [hir] at hs
                      | true =>
                        simp only [hir, Bool.not_true, Bool.false_eq_true, if_false] at hs
                        cases hlp : scrollLoop oracle win T' L' d r pen' vis' (st, true, false) with
                        | ub e => rw [hlp] at hs; cases hs
                        | ok acc' =>
                          rw [hlp] at hs
                          simp only [Res.ok.injEq, Prod.mk.injEq] at hs
                          obtain ⟨hst_s, _⟩ := hs
                          have htop0 : top = 0 := hok.onlyRoot top tw htw.1 hir
                          subst htop0
                          -- the visible region, in the tree as it is
                          obtain ⟨vinv, v1, _⟩ := visibleG_spec st.tree st.pens hok hI.ord hg.pc win ww hw.1 _ rect0 crect h0 h1
                            vis0 h2 _ 0 vis' T' L' pen' h4 tw htw.1 hir
                          obtain ⟨rootw, hrootw, hrl, hrc⟩ := hg.term
                          have hexp : ∀ ρ ∈ vis', ∀ L C, ρ.Mem L C →
                              ExposedAt st.tree (st.tree.wins.size + 1) win (L - T') (C - L') L C ∧ ¬ False ∧
                              0 ≤ L ∧ L < st.tlines ∧ 0 ≤ C ∧ C < st.tcols := by
                            intro ρ hρ L C hm
                            obtain ⟨o1, _, o3⟩ := v1 L C ⟨ρ, hρ, hm⟩
                            have hro : RootOk st.tree := by
                              rcases root_vis_cases st.tree hI.ok with hv | ⟨wh, hwh, hvh⟩
                              · exact rootOk_of_visible hI.ok hv
                              · rw [ownerAt_none_of_hidden st.tree wh hwh hvh] at o1; cases o1
                            obtain ⟨wr, hwr, b1, b2, b3, b4⟩ := ownerAt_some_memb st.tree hro L C _ o1
                            rw [hrootw] at hwr; cases hwr
                            exact ⟨o3, fun hx => hx, b1, by omega, b3, by omega⟩
                          -- the loop keeps the store: the move acts on the windows as they were
                          obtain ⟨a1d, _⟩ := scrollLoopG_step oracle (fun _ _ => none) (fun _ _ => none) st.tree st win T' L' d r pen'
                            hI.pos vis' (fun _ _ => False) (st, true, false) acc' hlp (sLoopOk_refl content st hg) vinv.1 vinv.2.1
                            hexp (fun _ _ _ _ _ _ v hv => by cases hv) (mixedG_dummy _ _)
                          have hwins_s : st_s.tree.wins = st.tree.wins := by
                            rw [← hst_s]
                            split <;> exact a1d.wins
                          obtain ⟨_, hmv, hroot, hs1, hww1, hlt, h00⟩ :=
                            moved_facts content st st_s win ww w2 d r t1 hg hgw hwins_s hg2 hmc
                          -- the same region, in the tree with the children moved
                          have h1t : clipToAncestors t1 (t1.wins.size + 1) win 0 0 rect0 = .ok (some crect) := by
                            rw [hmv.size, clipToAncestors_congr st.tree t1 win hs0 (hsame_le t1 hmv.other) _ win 0 0 rect0 (Anc.refl win)]
                            exact h1
                          have h4t : scrollWalk t1 st.pens (t1.wins.size + 1) win vis0 0 0 ((none : Option Pen).getD {}) =
                              .ok (some (0, vis', T', L', pen')) := by
                            rw [hmv.size, scrollWalk_congr st.tree t1 st.pens win ww hs0 hw.1 hmv.other _ win vis0 0 0 _ (Anc.refl win)]
                            exact h4
                          obtain ⟨_, v1', v2'⟩ := visibleG_spec t1 st.pens hs1.ok hs1.ord hs1.pc win ww hww1 _ rect0 crect h0 h1t
                            vis0 h2 _ 0 vis' T' L' pen' h4t tw (by rw [h00]; exact htw.1) hir
                          -- inside the region the new composition shows what the old one showed `(d, r)` away
                          have hsh : ∀ ρ ∈ vis', ∀ L C, ρ.Mem L C → ρ.Mem (L + d) (C + r) →
                              ∀ v, compose t1 content' L C = some v → compose st.tree content (L + d) (C + r) = some v := by
                            intro ρ hρ L C hm hm2 v hv
                            obtain ⟨p1, p2, _⟩ := v1' L C ⟨ρ, hρ, hm⟩
                            obtain ⟨q1, _, _⟩ := v1 (L + d) (C + r) ⟨ρ, hρ, hm2⟩
                            have e1 : L + d - T' = L - T' + d := by omega
                            have e2 : C + r - L' = C - L' + r := by omega
                            rw [e1, e2] at q1
                            rw [compose_some _ _ _ _ _ p1] at hv
                            rw [compose_some _ _ _ _ _ q1, ← hv]
                            obtain ⟨m1, m2⟩ := subOwn_moved st.tree t1 win ww d r hmv hs0 hw.1 (L - T') (C - L')
                            cases hfs : ww.children.findSome? (fun ch => own st.tree ch (L - T' + d) (C - L' + r)) with
                            | some o =>
                              have e0 : subOwn st.tree win ww.children (L - T' + d) (C - L' + r) = o := by
                                unfold subOwn; rw [hfs]
                              rw [m1 o hfs, e0, hcne o.1 _ _ (subOwn_child_ne st.tree win ww hs0 hw.1 _ _ o hfs)]
                            | none =>
                              have e0 : subOwn st.tree win ww.children (L - T' + d) (C - L' + r) = (win, L - T' + d, C - L' + r) := by
                                unfold subOwn; rw [hfs]
                              rw [m2 hfs, e0, hc win _ _, if_pos ⟨rfl, (memb_true_iff _ _ _).2 p2⟩]
                          obtain ⟨a1, a2⟩ := scrollLoopG_step oracle (compose st.tree content) (compose t1 content') st.tree st win
                            T' L' d r pen' hI.pos vis' (fun _ _ => False) (st, true, false) acc' hlp (sLoopOk_refl content st hg)
                            vinv.1 vinv.2.1 hexp hsh (mixedG_init content content' st t1 hI.inv)
                          -- `needs_restore`, `needs_later_processing` raised or not
                          have hfin : SLoopOk st.tree st st_s ∧
                              MixedG (compose st.tree content) (compose t1 content') (fun L C => Covered vis' L C ∨ False) st_s := by
                            rw [← hst_s]
                            split
                            · exact ⟨sLoopOk_reroot a1, a2⟩
                            · exact ⟨a1, a2⟩
                          exact scrollch_finish content content' st st_s win ww d r t1 (fun L C => Covered vis' L C ∨ False) hg hfin.1
                            hmv hroot hs1 hww1 hlt h00 hfin.2
                            (fun L C o ho ha => by
                              obtain ⟨hex, hcov⟩ := v2' L C o ho ha
                              exact Or.inl (hcov (exposedAt_self t1 _ win ww hww1 _ _ L C hex))) hcne

end WinFlush
end Tickit
