import Tickit.Proof.WinScrollStep
/-
  `tickit_window_scroll_with_children` followed by the application moving the children (`WinFlush.scrollWithChildrenMoved`):
  the invariant step.

  `_scroll` without masking the children scrolls, on the terminal, every cell the painter's model gives to the *subtree*
  of the scrolled window (`visibleG_spec`: the visible region is exactly that set of cells).  Afterwards the application
  moves every child by the same offsets; in the tree so changed the owner of a cell inside the region is the owner, in
  the old tree, of the cell `(downward, rightward)` away (`subOwn_moved`), and outside the region nothing changes
  (`ownerLoc_moved_back`).  So the scrolled cells are right for the new tree, the vacated strips and the rectangles the
  terminal refused are exposed by `_scrollrectset` itself, and pending damage moved with the cells.
-/
namespace Tickit
namespace WinFlush
open WinTree WinRB WinSpec

/-! ### ancestors -/

theorem Anc.trans {t : Tree} {a b c : Id} (h1 : Anc t a b) (h2 : Anc t b c) : Anc t a c := by
  induction h2 with
  | refl => exact h1
  | step hw hp _ ih => exact Anc.step hw hp ih

theorem anc_parent_down {t : Tree} {a w p : Id} {ww : Win} (h : Anc t a w) (hne : a ≠ w) (hw : t.wins[w]? = some ww)
    (hp : ww.parent = some p) : Anc t a p := by
  cases h with
  | refl => exact absurd rfl hne
  | step hw' hp' hrest =>
    rw [hw] at hw'; cases hw'
    rw [hp] at hp'; cases hp'
    exact hrest

/-- A window that has a parent is not the root window. -/
theorem not_root_of_parent (t : Tree) (hok : TreeOk t) (a : Id) (aw : Win) (p : Id) (haw : t.wins[a]? = some aw)
    (hp : aw.parent = some p) : aw.isRoot = false := by
  cases hr : aw.isRoot with
  | false => rfl
  | true =>
    have hx := hok.onlyRoot a aw haw hr
    obtain ⟨rw0, hrw0, _, _, hrp, _⟩ := hok.rootWin.ex
    rw [hx] at haw
    rw [haw] at hrw0; cases hrw0
    rw [hp] at hrp; cases hrp

/-- Where a window is exposed, so is every ancestor of it. -/
theorem exposedAt_anc (t : Tree) (hok : TreeOk t) {a o : Id} (h : Anc t a o) :
    ∀ (k : Nat) (lo co L C : Int), ExposedAt t k o lo co L C → ∃ l c, ExposedAt t k a l c L C := by
  induction h with
  | refl => intro k lo co L C hex; exact ⟨lo, co, hex⟩
  | step hw hp _ ih =>
    intro k lo co L C hex
    cases k with
    | zero => simp [ExposedAt] at hex
    | succ k' =>
      simp only [ExposedAt] at hex
      obtain ⟨w', hw', _, _, _, _, _, _, hrest⟩ := hex
      rw [hw] at hw'; cases hw'
      have hnr := not_root_of_parent t hok _ _ _ hw hp
      rcases hrest with ⟨hr, _⟩ | ⟨_, p', hp', hexp⟩
      · rw [hnr] at hr; cases hr
      · rw [hp] at hp'; cases hp'
        exact ih (k' + 1) _ _ L C (exposedAt_mono t k' _ _ _ _ _ hexp)

/-- The owner within a window's subtree lies below that window. -/
theorem subOwn_anc (t : Tree) (hwf : WFp t) (a : Id) (aw : Win) (haw : t.wins[a]? = some aw) (x y : Int) :
    Anc t a (subOwn t a aw.children x y).1 := by
  unfold subOwn
  cases hfs : aw.children.findSome? (fun ch => own t ch x y) with
  | none => exact Anc.refl a
  | some o =>
    obtain ⟨ch, hch, hown⟩ := List.exists_of_findSome?_eq_some hfs
    obtain ⟨cw, hcw, hcp, _⟩ := hwf.child a aw haw ch hch
    obtain ⟨w, l, c⟩ := o
    exact (ownerLoc_anc t hwf _ ch x y w l c hown).parent_up hcw hcp

/-- The offsets `_scrollrectset` accumulates are the position of the scrolled window on the terminal. -/
theorem scrollWalk_coords (t : Tree) (pens : Array (Option Pen)) (hok : TreeOk t) : ∀ (k : Nat) (a : Id) (vis : List Rect)
    (aT aL : Int) (pen : Pen) (top : Id) (vis' : List Rect) (T' L' : Int) (pen' : Pen),
    scrollWalk t pens k a vis aT aL pen = .ok (some (top, vis', T', L', pen')) →
    ∀ (k' : Nat) (x y L C : Int), ExposedAt t k' a x y L C → L = x - aT + T' ∧ C = y - aL + L' := by
  intro k
  induction k with
  | zero => intro a vis aT aL pen top vis' T' L' pen' h; simp [scrollWalk] at h
  | succ n ih =>
    intro a vis aT aL pen top vis' T' L' pen' h k' x y L C hex
    simp only [scrollWalk, bind, Bind.bind] at h
    cases hg : WinTree.get t a with
    | ub e => rw [hg] at h; cases h
    | ok aw =>
      rw [hg] at h
      have haw := get_ok hg
      simp only at h
      cases k' with
      | zero => simp [ExposedAt] at hex
      | succ k2 =>
        simp only [ExposedAt] at hex
        obtain ⟨aw', haw', _, _, _, _, _, hv, hrest⟩ := hex
        rw [haw.1] at haw'; cases haw'
        simp only [hv, Bool.not_true, Bool.false_eq_true, if_false] at h
        cases hp : aw.parent with
        | none =>
          simp only [hp, pure, Pure.pure, Res.ok.injEq, Option.some.injEq, Prod.mk.injEq] at h
          obtain ⟨_, _, e3, e4, _⟩ := h
          rcases hrest with ⟨_, hl, hc⟩ | ⟨_, p', hp', _⟩
          · omega
          · rw [hp] at hp'; cases hp'
        | some p =>
          simp only [hp] at h
          cases hgp : WinTree.get t p with
          | ub e => rw [hgp] at h; cases h
          | ok pw =>
            rw [hgp] at h
            simp only at h
            cases hss : subtractSiblings t a pw.children (RectSet.translate vis aw.rect.top aw.rect.left) with
            | ub e => rw [hss] at h; cases h
            | ok v2 =>
              rw [hss] at h
              simp only at h
              have hnr := not_root_of_parent t hok a aw p haw.1 hp
              rcases hrest with ⟨hr, _⟩ | ⟨_, p', hp', hexp⟩
              · rw [hnr] at hr; cases hr
              · rw [hp] at hp'; cases hp'
                have := ih p _ _ _ _ _ _ _ _ _ h _ _ _ _ _ hexp
                omega

/-! ### the walk to the root, for a region owned by the subtree of the scrolled window -/

/-- **The walk of `_scrollrectset`, children not masked**: level by level, the rectangle set is the part of the target
    region whose owner, within the subtree of the window reached, is whatever the subtree of the scrolled window shows
    there (`F`, in the scrolled window's coordinates); conversely every cell of the target region whose owner lies below
    the scrolled window is in the set. -/
theorem scrollWalkG_spec (t : Tree) (pens : Array (Option Pen)) (hok : TreeOk t) (ho : Ordered t) (hpl : ParentListed t)
    (win : Id) (Tgt : Int → Int → Prop) (F : Int → Int → Id × Int × Int) :
    ∀ (k : Nat) (a : Id) (vis : List Rect) (aT aL : Int) (pen : Pen) (top : Id) (vis' : List Rect) (T' L' : Int) (pen' : Pen),
    scrollWalk t pens k a vis aT aL pen = .ok (some (top, vis', T', L', pen')) →
    RectSet.Inv vis → Anc t a win →
    (∀ l c, Tgt l c → InAnc t k a aT aL l c) →
    (∀ l c, Tgt l c → ∀ aw, t.wins[a]? = some aw → 0 ≤ l + aT ∧ l + aT < aw.rect.lines ∧ 0 ≤ c + aL ∧ c + aL < aw.rect.cols) →
    (∀ x y, Covered vis x y → ∀ aw, t.wins[a]? = some aw →
      Tgt (x - aT) (y - aL) ∧ subOwn t a aw.children x y = F (x - aT) (y - aL)) →
    (∀ x y o, ∀ aw, t.wins[a]? = some aw → subOwn t a aw.children x y = o → Anc t win o.1 → Tgt (x - aT) (y - aL) →
      Covered vis x y) →
    RectSet.Inv vis' ∧ ∃ tw, t.wins[top]? = some tw ∧ tw.parent = none ∧ tw.isVisible = true ∧ tw.freed = false ∧
      (∀ l c, Tgt l c → 0 ≤ l + T' ∧ l + T' < tw.rect.lines ∧ 0 ≤ c + L' ∧ c + L' < tw.rect.cols) ∧
      (∀ x y, Covered vis' x y → Tgt (x - T') (y - L') ∧ subOwn t top tw.children x y = F (x - T') (y - L')) ∧
      (∀ x y o, subOwn t top tw.children x y = o → Anc t win o.1 → Tgt (x - T') (y - L') → Covered vis' x y) := by
  intro k
  induction k with
  | zero => intro a vis aT aL pen top vis' T' L' pen' h; simp [scrollWalk] at h
  | succ n ih =>
    intro a vis aT aL pen top vis' T' L' pen' h hinv hanc hia hin hv1 hv2
    simp only [scrollWalk, bind, Bind.bind] at h
    cases hg : WinTree.get t a with
    | ub e => rw [hg] at h; cases h
    | ok aw =>
      rw [hg] at h
      have haw := get_ok hg
      simp only at h
      cases hvis : aw.isVisible with
      | false => simp only [hvis, Bool.not_false, if_true, pure, Pure.pure] at h; cases h
      | true =>
        simp only [hvis, Bool.not_true, Bool.false_eq_true, if_false] at h
        cases hp : aw.parent with
        | none =>
          simp only [hp, pure, Pure.pure, Res.ok.injEq, Option.some.injEq, Prod.mk.injEq] at h
          obtain ⟨e1, e2, e3, e4, _⟩ := h
          subst e1 e2 e3 e4
          exact ⟨hinv, aw, haw.1, hp, hvis, haw.2, fun l c ht => hin l c ht aw haw.1,
            fun x y hc => hv1 x y hc aw haw.1, fun x y o hs hwo ht => hv2 x y o aw haw.1 hs hwo ht⟩
        | some p =>
          simp only [hp] at h
          cases hgp : WinTree.get t p with
          | ub e => rw [hgp] at h; cases h
          | ok pw =>
            rw [hgp] at h
            have hpw := get_ok hgp
            simp only at h
            cases hss : subtractSiblings t a pw.children (RectSet.translate vis aw.rect.top aw.rect.left) with
            | ub e => rw [hss] at h; cases h
            | ok vis2 =>
              rw [hss] at h
              simp only at h
              -- `a` is listed by `p`
              obtain ⟨pw', hpw', hmem⟩ := hpl a aw p haw.1 hp
              rw [hpw.1] at hpw'; cases hpw'
              have hinv1 := Props.C05.translate_inv vis aw.rect.top aw.rect.left hinv
              have htr := (Props.C05.translate_spec vis aw.rect.top aw.rect.left hinv.1).2
              obtain ⟨hinv2, l1, l2, hsplit, hnl1, hlive, hcov2⟩ := subtractSiblings_spec t a pw.children _ vis2 hss hinv1 hmem
              have hancp : Anc t p win := hanc.parent_up haw.1 hp
              -- `own` of `a` at a cell of the target region
              have hown_a : ∀ X Y, 0 ≤ X - aw.rect.top → X - aw.rect.top < aw.rect.lines → 0 ≤ Y - aw.rect.left →
                  Y - aw.rect.left < aw.rect.cols →
                  own t a X Y = some (subOwn t a aw.children (X - aw.rect.top) (Y - aw.rect.left)) := by
                intro X Y b1 b2 b3 b4
                rw [own_eq_sub t ho a aw haw.1, if_pos]
                refine ⟨hvis, haw.2, (memb_true_iff _ _ _).2 ?_⟩
                simp only [Rect.Mem, Rect.bottom, Rect.right]
                omega
              refine ih p vis2 (aT + aw.rect.top) (aL + aw.rect.left) _ top vis' T' L' pen' h hinv2 hancp ?_ ?_ ?_ ?_
              · intro l c ht
                have := hia l c ht
                simp only [InAnc] at this
                exact (this aw haw.1 p hp pw hpw.1).2
              · intro l c ht pw' hpw'
                rw [hpw.1] at hpw'; cases hpw'
                have := hia l c ht
                simp only [InAnc] at this
                have hb := (this aw haw.1 p hp pw hpw.1).1
                omega
              · -- V1 at `p`
                intro X Y hc pw' hpw'
                rw [hpw.1] at hpw'; cases hpw'
                obtain ⟨hc1, hnc⟩ := (hcov2 X Y).1 hc
                have hc0 := (htr X Y).1 hc1
                obtain ⟨ht, hs⟩ := hv1 _ _ hc0 aw haw.1
                have hb := hin _ _ ht aw haw.1
                have e1 : X - aw.rect.top - aT = X - (aT + aw.rect.top) := by omega
                have e2 : Y - aw.rect.left - aL = Y - (aL + aw.rect.left) := by omega
                rw [e1, e2] at ht hs
                refine ⟨ht, ?_⟩
                unfold subOwn
                rw [hsplit, findSome?_append_none _ l1 _ (own_none_of_noneCovers t ho l1 X Y hnc)]
                simp only [List.findSome?_cons]
                rw [hown_a X Y (by omega) (by omega) (by omega) (by omega), hs]
              · -- V2 at `p`
                intro X Y o pw' hpw' hs hwo ht
                rw [hpw.1] at hpw'; cases hpw'
                unfold subOwn at hs
                cases hfs : pw.children.findSome? (fun ch => own t ch X Y) with
                | none =>
                  rw [hfs] at hs
                  -- `p` is a strict ancestor of `win`, so it is not below it
                  subst hs
                  have h1 := anc_le t ho hpl hanc
                  have h2 := parent_lt t ho hpl a aw p haw.1 hp
                  have h3 : @LE.le Nat _ win p := anc_le t ho hpl hwo
                  omega
                | some o' =>
                  rw [hfs] at hs
                  simp only at hs
                  subst hs
                  obtain ⟨m1, ch, m2, hdec, hch, hm1⟩ := List.findSome?_eq_some_iff.1 hfs
                  have hchmem : ch ∈ pw.children := by rw [hdec]; simp
                  obtain ⟨chw, hchw, hchp, _⟩ := hok.wf.child p pw hpw.1 ch hchmem
                  have hanc_ch : Anc t ch o'.1 := ownerLoc_anc t hok.wf _ ch X Y o'.1 o'.2.1 o'.2.2 hch
                  have hcha : ch = a := anc_unique t ho hpl hanc_ch (hanc.trans hwo) hchw haw.1 hchp hp
                  subst hcha
                  have hnd := hok.nodup p pw hpw.1
                  have hnm1 : ch ∉ m1 := by
                    rw [hdec] at hnd
                    intro hx
                    have := (List.nodup_append.1 hnd).2.2 ch hx ch List.mem_cons_self
                    exact this rfl
                  have hl1 : l1 = m1 := prefix_unique ch l1 m1 l2 m2 (by rw [← hsplit, hdec]) hnl1 hnm1
                  have hcin := cin_of_own_some t ch X Y _ hch
                  obtain ⟨cw, hcw, _, _, hmm⟩ := hcin
                  rw [haw.1] at hcw; cases hcw
                  have hmm' := (memb_true_iff _ _ _).1 hmm
                  simp only [Rect.Mem, Rect.bottom, Rect.right] at hmm'
                  rw [hown_a X Y (by omega) (by omega) (by omega) (by omega)] at hch
                  simp only [Option.some.injEq] at hch
                  have e1 : X - aw.rect.top - aT = X - (aT + aw.rect.top) := by omega
                  have e2 : Y - aw.rect.left - aL = Y - (aL + aw.rect.left) := by omega
                  have hc0 := hv2 _ _ o' aw haw.1 hch hwo (by rw [e1, e2]; exact ht)
                  refine (hcov2 X Y).2 ⟨(htr X Y).2 hc0, ?_⟩
                  intro s hs sw hsw hvs
                  rw [hl1] at hs
                  exact not_mem_of_own_none t ho s X Y (hlive s (by rw [hl1]; exact hs)) (hm1 s hs) sw hsw hvs

/-! ### the visible region without the children masked -/

/-- **The visible region `_scroll` computes when the children are not masked** is exactly the set of terminal cells the
    painter's model gives to the subtree of the scrolled window inside the rectangle: each of its cells is owned by
    whatever that subtree shows at the cell (and the window is exposed there), and every cell whose owner lies below the
    window, inside the rectangle, is in it. -/
theorem visibleG_spec (t : Tree) (pens : Array (Option Pen)) (hok : TreeOk t) (ho : Ordered t) (hpl : ParentListed t)
    (win : Id) (w : Win) (hw : t.wins[win]? = some w) (origrect rect0 rect : Rect)
    (h0 : Rect.intersect ⟨0, 0, w.rect.lines, w.rect.cols⟩ origrect = some rect0)
    (h1 : clipToAncestors t (t.wins.size + 1) win 0 0 rect0 = .ok (some rect))
    (vis0 : List Rect) (h2 : rsAdd [] rect = .ok vis0)
    (pen : Pen) (top : Id) (vis' : List Rect) (T' L' : Int) (pen' : Pen)
    (h4 : scrollWalk t pens (t.wins.size + 1) win vis0 0 0 pen = .ok (some (top, vis', T', L', pen')))
    (tw : Win) (htw : t.wins[top]? = some tw) (hroot : tw.isRoot = true) :
    RectSet.Inv vis' ∧
    (∀ L C, Covered vis' L C → ownerAt t L C = some (subOwn t win w.children (L - T') (C - L')) ∧
      origrect.Mem (L - T') (C - L') ∧ ExposedAt t (t.wins.size + 1) win (L - T') (C - L') L C) ∧
    (∀ L C o, ownerAt t L C = some o → Anc t win o.1 →
      ExposedAt t (t.wins.size + 1) win (L - T') (C - L') L C ∧ (origrect.Mem (L - T') (C - L') → Covered vis' L C)) := by
  obtain ⟨hne0, hm0⟩ := Props.C06.intersect_some _ _ _ h0
  have hrne := clip_nonempty t _ win 0 0 rect0 rect h1 hne0
  have hinvnil : RectSet.Inv ([] : List Rect) := (RectSet.inv_iff _).2 RectSet.invS_nil
  have hinv0 := Props.C05.add_inv rsFuel [] vis0 rect (rsAdd_ok h2) hrne hinvnil
  have hcov0 := (Props.C05.add_spec rsFuel [] vis0 rect (rsAdd_ok h2) hrne (fun _ h => by cases h)).2
  have hcov0' : ∀ x y, Covered vis0 x y ↔ rect.Mem x y := by
    intro x y
    rw [hcov0 x y]
    constructor
    · rintro (hx | hx)
      · exact absurd hx (RectSet.covered_nil x y)
      · exact hx
    · exact Or.inr
  have hclip := clip_sub t _ win 0 0 rect0 rect h1
  obtain ⟨hinv', tw', htw', htp, htv, htf, hbt, hv1, hv2⟩ := scrollWalkG_spec t pens hok ho hpl win (fun l c => rect.Mem l c)
    (fun l c => subOwn t win w.children l c)
    _ win vis0 0 0 pen top vis' T' L' pen' h4 hinv0 (Anc.refl win)
    (fun l c ht => (hclip l c ht).2)
    (fun l c ht aw haw => by
      rw [hw] at haw; cases haw
      have := ((hm0 l c).1 (hclip l c ht).1).1
      simp only [Rect.Mem, Rect.bottom, Rect.right] at this
      omega)
    (fun x y hc aw haw => by
      rw [hw] at haw; cases haw
      simp only [Int.sub_zero]
      exact ⟨(hcov0' x y).1 hc, trivial⟩)
    (fun x y o aw haw _ _ ht => by
      simp only [Int.sub_zero] at ht
      exact (hcov0' x y).2 ht)
  rw [htw] at htw'; cases htw'
  have htop0 : top = 0 := hok.onlyRoot top tw htw hroot
  subst htop0
  obtain ⟨rw0, hrw0, _, _, _, hrt, hrl⟩ := hok.rootWin.ex
  rw [htw] at hrw0; cases hrw0
  have hown0 : ∀ L C, 0 ≤ L → L < tw.rect.lines → 0 ≤ C → C < tw.rect.cols →
      ownerAt t L C = some (subOwn t 0 tw.children L C) := by
    intro L C b1 b2 b3 b4
    rw [ownerAt_own, own_eq_sub t ho 0 tw htw, if_pos, hrt, hrl]
    · simp only [Int.sub_zero]
    · refine ⟨htv, htf, (memb_true_iff _ _ _).2 ?_⟩
      simp only [Rect.Mem, Rect.bottom, Rect.right]
      omega
  -- below the scrolled window: the window itself is exposed at the cell, at the position the walk computes
  have hbelow : ∀ L C o, ownerAt t L C = some o → Anc t win o.1 → ExposedAt t (t.wins.size + 1) win (L - T') (C - L') L C := by
    intro L C o hown hwo
    have hex := owner_exposedAt t hok L C o.1 o.2.1 o.2.2 hown
    obtain ⟨l, c, hexw⟩ := exposedAt_anc t hok hwo _ _ _ _ _ hex
    obtain ⟨e1, e2⟩ := scrollWalk_coords t pens hok _ win vis0 0 0 pen 0 vis' T' L' pen' h4 _ l c L C hexw
    have e1' : L - T' = l := by omega
    have e2' : C - L' = c := by omega
    rw [e1', e2']
    exact hexw
  refine ⟨hinv', ?_, ?_⟩
  · intro L C hc
    obtain ⟨ht, hs⟩ := hv1 L C hc
    have hb := hbt _ _ ht
    have hown : ownerAt t L C = some (subOwn t win w.children (L - T') (C - L')) := by
      rw [hown0 L C (by omega) (by omega) (by omega) (by omega), hs]
    exact ⟨hown, ((hm0 _ _).1 (hclip _ _ ht).1).2, hbelow L C _ hown (subOwn_anc t hok.wf win w hw _ _)⟩
  · intro L C o hown hwo
    have hex := hbelow L C o hown hwo
    refine ⟨hex, fun horig => ?_⟩
    have hself : (⟨0, 0, w.rect.lines, w.rect.cols⟩ : Rect).Mem (L - T') (C - L') := by
      have hex' := hex
      simp only [ExposedAt] at hex'
      obtain ⟨w', hw', _, b1, b2, b3, b4, _⟩ := hex'
      rw [hw] at hw'; cases hw'
      simp only [Rect.Mem, Rect.bottom, Rect.right]
      omega
    have hr0 : rect0.Mem (L - T') (C - L') := (hm0 _ _).2 ⟨hself, horig⟩
    obtain ⟨r', hr', hmr⟩ := clip_keep t hok _ win 0 0 rect0 (some rect) (t.wins.size + 1) (L - T') (C - L') L C h1 hr0
      (by simpa using hex)
    cases hr'
    obtain ⟨wr, hwr, b1, b2, b3, b4⟩ := ownerAt_some_memb t ⟨⟨tw, htw, htf, htv, hrt, hrl⟩⟩ L C _ hown
    rw [htw] at hwr; cases hwr
    rw [hown0 L C b1 b2 b3 b4] at hown
    simp only [Option.some.injEq] at hown
    exact hv2 L C o hown hwo hmr

end WinFlush
end Tickit
