import Tickit.Proof.RBCopyPrim
import Tickit.Proof.RBRefine
/-
  C13 ↔ C03: the invariant of the render-buffer engine (`Tickit.RB.WF`, preserved by every public operation:
  `Tickit.RB.step_wf`, `Tickit.RB.run_wf`) implies the well-formedness the C13 theorems ask for
  (`Tickit.RBCopy.WF`), so those theorems hold of every buffer reachable by drawing programs.
-/
namespace Tickit.RBCopy

theorem rowWF_of_rb {n : Int} {row : Tickit.RB.Row} (h : Tickit.RB.RowWF n row) : Tickit.RBCopy.RowWF n row :=
  ⟨fun k h0 h1 hc => ⟨(h.cont_lo k h0 h1 hc).1, (h.cont_lo k h0 h1 hc).2, h.cont_start k h0 h1 hc, h.cont_in k h0 h1 hc⟩,
   fun k h0 h1 hc => ⟨(h.start_len k h0 h1 hc).1, (h.start_len k h0 h1 hc).2, fun j hj1 hj2 => h.start_run k j h0 h1 hc hj1 hj2⟩,
   h.one⟩

theorem wf_of_rb {rb : Tickit.RB.RB} (h : Tickit.RB.WF rb) : Tickit.RBCopy.WF rb := by
  refine ⟨fun l h0 h1 => rowWF_of_rb (h.rows l h0 h1), fun l c h0 h1 h2 h3 => ⟨h.maskLB l c, h.maskUB l c h0 h1 h2 h3⟩, ?_⟩
  rcases h.clip with hc | hc
  · exact Or.inl hc
  · exact Or.inr ⟨hc.1, hc.2.1, hc.2.2.1, hc.2.2.2.1⟩

/-- Every buffer a drawing program reaches from a fresh one is well-formed. -/
theorem wf_reachable (lines cols g1 g2 : Int) (hl : 0 ≤ lines) (hc : 0 < cols) (prog : List Tickit.RB.Op) :
    Tickit.RBCopy.WF (Tickit.RB.run (Tickit.RB.RB.new lines cols g1 g2) prog) :=
  wf_of_rb (Tickit.RB.run_wf prog (Tickit.RB.new_refines lines cols g1 g2 hl hc).1)

end Tickit.RBCopy
