import Tickit.Proof.LifeWalk
/-
  C08 proofs: the operations on the window tree keep `TInv` and never fail.
  Part 1: sibling-list surgery, restacking requests and their execution by `tickit_window_flush`.
-/
namespace Tickit.Life
open WinTree (Id Win Req Change Tree)

/-! ## sibling-list surgery -/

theorem listRemove_ok {cs : List Nat} {w : Nat} (h : w ∈ cs) : WinTree.listRemove cs w = .ok (cs.erase w) := by
  unfold WinTree.listRemove
  simp [h]

theorem listRaise_ok : ∀ (cs : List Nat) (w : Nat), w ∈ cs → ∃ cs', WinTree.listRaise cs w = .ok cs' ∧ cs'.Perm cs
  | [], w, h => by simp at h
  | [x], w, h => by
    simp only [List.mem_singleton] at h
    subst h
    exact ⟨[w], by simp [WinTree.listRaise], List.Perm.refl _⟩
  | x :: y :: rest, w, h => by
    unfold WinTree.listRaise
    by_cases hx : x = w
    · exact ⟨x :: y :: rest, by simp [hx], List.Perm.refl _⟩
    · by_cases hy : y = w
      · exact ⟨y :: x :: rest, by simp [hx, hy], List.Perm.swap _ _ _⟩
      · have hm : w ∈ y :: rest := by
          simp only [List.mem_cons] at h ⊢
          rcases h with h | h | h
          · exact absurd h.symm hx
          · exact .inl h
          · exact .inr h
        obtain ⟨r, hr, hp⟩ := listRaise_ok (y :: rest) w hm
        refine ⟨x :: r, ?_, List.Perm.cons x hp⟩
        simp only [hx, hy, if_false, hr]
        rfl

theorem listLower_perm : ∀ (cs : List Nat) (w : Nat), (WinTree.listLower cs w).Perm cs
  | [], _ => by simp [WinTree.listLower]
  | [x], _ => by simp [WinTree.listLower]
  | x :: y :: rest, w => by
    unfold WinTree.listLower
    by_cases hx : x = w
    · simp only [hx, if_true]; exact List.Perm.swap _ _ _
    · simp only [hx, if_false]; exact List.Perm.cons x (listLower_perm (y :: rest) w)

/-! ## replacing the children of one window by a permutation -/

theorem trel_set {t : Tree} {p : Nat} {pw pw' : Win} (hl : t.wins[p]? = some pw) (hr : WRel pw pw') :
    TRel t (WinTree.set t p pw') := by
  refine ⟨set_size _ _ _, ?_⟩
  intro i w hw
  by_cases hip : p = i
  · subst hip
    have hlt : p < t.wins.size := by
      by_cases hlt : p < t.wins.size
      · exact hlt
      · have := Array.getElem?_eq_none (xs := t.wins) (Nat.le_of_not_lt hlt)
        rw [hl] at this; cases this
    rw [hl] at hw; cases hw
    exact ⟨pw', set_get_self pw' hlt, hr⟩
  · exact ⟨w, by rw [set_get_ne pw' hip]; exact hw, WRel.refl w⟩

theorem wrel_children {pw : Win} {cs : List Nat} (h : cs.Perm pw.children) : WRel pw { pw with children := cs } :=
  ⟨rfl, h, rfl, rfl, .inl rfl, .inl rfl⟩

/-- A queued request is executable: its window is live and still has the recorded parent. -/
def ReqOk (t : Tree) (r : Req) : Prop := ∃ w, LiveW t r.win w ∧ w.parent = some r.parent

theorem ReqOk.rel {t t' : Tree} {r : Req} (h : TRel t t') (hr : ReqOk t r) : ReqOk t' r := by
  obtain ⟨w, hl, hp⟩ := hr
  obtain ⟨w', hl', hrel⟩ := h.live hl
  exact ⟨w', hl', by rw [hrel.1]; exact hp⟩

/-- `_do_hierarchy_change` for the four restacking kinds. -/
theorem doHC_restack_ok {t : Tree} (inv : TInv t) {c : Change} {parent win : Nat} {ww : Win}
    (hc : isRestack c = true)
    (hw : LiveW t win ww) (hp : ww.parent = some parent) :
    ∃ t', doHC t c parent win = .ok t' ∧ TRel t t' ∧ t'.root = t.root ∧ SameRC t t' := by
  obtain ⟨_, pw, hpl, hmem⟩ := inv.parent_ok win ww hw parent hp
  have key : ∀ cs : List Nat, cs.Perm pw.children →
      ∃ t', (if ww.isVisible = true then (do
                exposeWalk (WinTree.set t parent { pw with children := cs })
                  (chainFuel (WinTree.set t parent { pw with children := cs })) parent (some ww.rect)
                pure (WinTree.set t parent { pw with children := cs }))
             else pure (WinTree.set t parent { pw with children := cs })) = Out.ok t' ∧ TRel t t' ∧ t'.root = t.root ∧ SameRC t t' := by
    intro cs hperm
    have hrel : TRel t (WinTree.set t parent { pw with children := cs }) := trel_set hpl.1 (wrel_children hperm)
    have inv' : TInv (WinTree.set t parent { pw with children := cs }) :=
      inv.of_rel hrel (fun r hr => hr) (fun s hs => hs)
    obtain ⟨pw', hpl', _⟩ := hrel.live hpl
    refine ⟨WinTree.set t parent { pw with children := cs }, ?_, hrel, rfl, SameRC.set hpl.1 rfl⟩
    split
    · rw [exposeWalk_ok inv' parent pw' hpl' _ (chainFuel_gt hpl')]; rfl
    · rfl
  unfold doHC
  simp only [get_live hpl, get_live hw, bind_ok]
  cases c <;> simp only [isRestack, Bool.false_eq_true] at hc
  · obtain ⟨cs, hcs, hperm⟩ := listRaise_ok pw.children win hmem
    simp only [hcs, ofRes, bind_ok, pure_ok]
    exact key cs hperm
  · simp only [listRemove_ok hmem, ofRes, bind_ok, pure_ok]
    exact key _ (List.perm_cons_erase hmem).symm
  · simp only [pure_ok, bind_ok]
    exact key _ (listLower_perm _ _)
  · simp only [listRemove_ok hmem, ofRes, bind_ok, pure_ok]
    refine key _ ?_
    exact (List.perm_append_comm.trans (List.perm_cons_erase hmem).symm)

/-- The request loop of `tickit_window_flush`. -/
theorem runRequests_ok : ∀ (reqs : List Req) {t : Tree}, TInv t → t.root.changes = [] →
    (∀ r ∈ reqs, ReqOk t r ∧ isRestack r.change = true) →
    ∃ t', runRequests t reqs = .ok t' ∧ TInv t' ∧ TRel t t' ∧ t'.root = t.root ∧ SameRC t t'
  | [], t, inv, _, _ => ⟨t, rfl, inv, TRel.refl t, rfl, SameRC.refl t⟩
  | r :: rest, t, inv, hch, hreq => by
    obtain ⟨⟨ww, hw, hp⟩, hkind⟩ := hreq r (by simp)
    obtain ⟨t1, h1, hrel1, hroot1, hrc1⟩ := doHC_restack_ok inv hkind hw hp
    have inv1 : TInv t1 := inv.of_rel hrel1 (by rw [hroot1]; intro r hr; exact hr) (by rw [hroot1]; intro s hs; exact hs)
    obtain ⟨t2, h2, inv2, hrel2, hroot2, hrc2⟩ := runRequests_ok rest inv1 (by rw [hroot1]; exact hch)
      (fun r' hr' => ⟨(hreq r' (by simp [hr'])).1.rel hrel1, (hreq r' (by simp [hr'])).2⟩)
    refine ⟨t2, ?_, inv2, hrel1.trans hrel2, hroot2.trans hroot1, SameRC.trans hrel1 hrc1 hrc2⟩
    unfold runRequests
    simp only [h1, bind_ok]
    exact h2

/-- `tickit_window_flush(root)`: every queued request is executed; the tree keeps its invariant. -/
theorem flushT_ok {t : Tree} (inv : TInv t) {r : Win} (hroot : LiveW t 0 r) :
    ∃ t', flushT t = .ok t' ∧ TInv t' ∧ TRel t t' ∧ t'.root.changes = [] ∧ t'.root.dragSource = t.root.dragSource ∧
      SameRC t t' := by
  have inv0 : TInv { t with root := { t.root with changes := [] } } :=
    inv.of_rel (t' := { t with root := { t.root with changes := [] } }) (TRel.refl t) (by intro r hr; simp at hr) (fun s hs => hs)
  obtain ⟨t', h, inv', hrel, hr, hrc⟩ := runRequests_ok t.root.changes inv0 rfl (by
    intro q hq
    obtain ⟨hk, w, hl, hp, _⟩ := inv.req_ok q hq
    exact ⟨⟨w, hl, hp⟩, hk⟩)
  refine ⟨t', ?_, inv', hrel, by rw [hr], by rw [hr], hrc⟩
  unfold flushT
  simp only [get_live hroot, bind_ok]
  exact h

/-! ## attachedness -/

theorem attached_reach {st : St} (inv : TInv st.tree) : ∀ (fuel : Nat) (w : Nat), attached st fuel w = true →
    (∃ ww, LiveW st.tree w ww) ∧ Reach st.tree w 0
  | 0, _, h => by simp [attached] at h
  | fuel + 1, w, h => by
    unfold attached at h
    cases hw : st.tree.wins[w]? with
    | none => simp [hw] at h
    | some x =>
      simp only [hw] at h
      by_cases hf : x.freed = true
      · simp [hf] at h
      · simp only [hf, Bool.false_eq_true, if_false] at h
        have hlive : LiveW st.tree w x := ⟨hw, by simpa using hf⟩
        by_cases hr : x.isRoot = true
        · have h0 := inv.only_root w x hw hr
          subst h0
          exact ⟨⟨x, hlive⟩, .refl 0⟩
        · simp only [hr, Bool.false_eq_true, if_false] at h
          cases hp : x.parent with
          | none => simp [hp] at h
          | some p =>
            simp only [hp] at h
            exact ⟨⟨x, hlive⟩, .step hw hp (attached_reach inv fuel p h).2⟩

theorem usableW_spec {st : St} (inv : TInv st.tree) {w : Nat} (h : usableW st w = true) :
    (∃ ww, LiveW st.tree w ww) ∧ Reach st.tree w 0 := by
  unfold usableW at h
  cases hw : st.tree.wins[w]? with
  | none => simp [hw] at h
  | some x =>
    simp only [hw, Bool.and_eq_true] at h
    exact attached_reach inv _ w h.2

theorem heldW_live {st : St} {w : Nat} (h : heldW st w = true) : ∃ ww, LiveW st.tree w ww := by
  unfold heldW at h
  cases hw : st.tree.wins[w]? with
  | none => simp [hw] at h
  | some x =>
    simp only [hw, Bool.and_eq_true, Bool.not_eq_true'] at h
    exact ⟨x, hw, h.1⟩

/-- `_request_hierarchy_change` on a window below the root. -/
theorem request_ok {t : Tree} (inv : TInv t) {c : Change} (hc : isRestack c = true) {win : Nat} {ww : Win}
    (hw : LiveW t win ww) (hr : Reach t win 0) :
    ∃ t', request t c win = .ok t' ∧ TInv t' ∧ t'.wins = t.wins := by
  unfold request
  simp only [get_live hw, bind_ok]
  cases hp : ww.parent with
  | none => exact ⟨t, rfl, inv, rfl⟩
  | some p =>
    simp only [getRootA_ok inv win ww hw hr _ (chainFuel_gt hw), bind_ok, pure_ok]
    refine ⟨_, rfl, ?_, rfl⟩
    refine inv.of_rel_gen (t' := { t with root := { t.root with changes := t.root.changes ++ [⟨c, p, win⟩] } })
      (TRel.refl t) ?_ (fun s hs => inv.drag_ok s hs)
    intro r hr'
    simp only [List.mem_append, List.mem_singleton] at hr'
    rcases hr' with h | rfl
    · exact inv.req_ok r h
    · exact ⟨hc, ww, hw, hp, hr⟩

end Tickit.Life
