import Tickit.Model.Bindings
/-
  Helper lemmas for C16 (`Props/C16.lean`): list surgery, the state invariant of the repaired
  model, its preservation by `exec` for every task, every behaviour and every fuel, and the
  pure trace reasoning that turns the invariant into the clauses of the property.
-/
namespace Tickit.Bindings

/-! ### list surgery -/

def keys (l : List Node) : List Nat := l.map (·.key)

@[simp] theorem keys_nil : keys [] = [] := rfl
@[simp] theorem keys_cons (b : Node) (l : List Node) : keys (b :: l) = b.key :: keys l := rfl
@[simp] theorem keys_append (l₁ l₂ : List Node) : keys (l₁ ++ l₂) = keys l₁ ++ keys l₂ := by
  simp [keys]

theorem mem_keys {l : List Node} {k : Nat} : k ∈ keys l ↔ ∃ b ∈ l, b.key = k := by
  simp [keys]

theorem findKey_some {l : List Node} {k : Nat} {b : Node} (h : findKey l k = some b) : b ∈ l ∧ b.key = k := by
  induction l with
  | nil => simp [findKey] at h
  | cons a rest ih =>
    unfold findKey at h
    split at h
    · injection h with h; subst h; simp [*]
    · have := ih h; simp [this]

theorem findKey_none {l : List Node} {k : Nat} (h : findKey l k = none) : k ∉ keys l := by
  induction l with
  | nil => simp
  | cons a rest ih =>
    unfold findKey at h
    split at h
    · cases h
    · simp only [keys_cons, List.mem_cons, not_or]
      exact ⟨fun e => by simp_all, ih h⟩

theorem findKey_of_mem {l : List Node} {k : Nat} (h : k ∈ keys l) : ∃ b, findKey l k = some b := by
  cases hf : findKey l k with
  | some b => exact ⟨b, rfl⟩
  | none => exact absurd h (findKey_none hf)

/-- With distinct keys, `findKey` finds *the* node. -/
theorem findKey_eq_of_mem {l : List Node} (hn : (keys l).Nodup) {b : Node} (hb : b ∈ l) : findKey l b.key = some b := by
  induction l with
  | nil => cases hb
  | cons a rest ih =>
    unfold findKey
    simp only [keys_cons, List.nodup_cons] at hn
    split
    · rename_i hk
      rcases List.mem_cons.1 hb with rfl | hb'
      · rfl
      · exact absurd (mem_keys.2 ⟨b, hb', hk.symm⟩) hn.1
    · rename_i hk
      rcases List.mem_cons.1 hb with rfl | hb'
      · exact absurd rfl hk
      · exact ih hn.2 hb'

theorem nextOf_none {l : List Node} {k : Nat} (h : nextOf l k = none) : k ∉ keys l := by
  induction l with
  | nil => simp
  | cons a rest ih =>
    unfold nextOf at h
    split at h
    · cases h
    · simp only [keys_cons, List.mem_cons, not_or]
      exact ⟨fun e => by simp_all, ih h⟩

theorem nextOf_some_mem {l : List Node} {k k' : Nat} (h : nextOf l k = some (some k')) : k' ∈ keys l := by
  induction l with
  | nil => simp [nextOf] at h
  | cons a rest ih =>
    unfold nextOf at h
    split at h
    · cases rest with
      | nil => simp at h
      | cons c rest' =>
        simp only [List.head?_cons, Option.map_some, Option.some.injEq] at h
        simp [h]
    · simp [ih h]

theorem firstOf_mem {l : List Node} {k : Nat} (h : firstOf l = some k) : k ∈ keys l := by
  cases l with
  | nil => simp [firstOf] at h
  | cons a rest => simp [firstOf] at h; simp [h]

theorem keys_modifyKey (l : List Node) (k : Nat) (f : Node → Node) (hf : ∀ b, (f b).key = b.key) :
    keys (modifyKey l k f) = keys l := by
  induction l with
  | nil => rfl
  | cons a rest ih =>
    simp only [modifyKey, List.map_cons, keys_cons] at *
    rw [ih]
    split <;> simp [hf]

theorem mem_modifyKey {l : List Node} {k : Nat} {f : Node → Node} {b : Node} (h : b ∈ modifyKey l k f) :
    ∃ a ∈ l, b = if a.key = k then f a else a := by
  simp only [modifyKey, List.mem_map] at h
  obtain ⟨a, ha, rfl⟩ := h
  exact ⟨a, ha, rfl⟩

theorem mem_modifyKey_of_mem {l : List Node} {k : Nat} {f : Node → Node} {a : Node} (h : a ∈ l) :
    (if a.key = k then f a else a) ∈ modifyKey l k f := by
  simp only [modifyKey, List.mem_map]
  exact ⟨a, h, rfl⟩

theorem keys_eraseKey_sub {l : List Node} {k k' : Nat} (h : k' ∈ keys (eraseKey l k)) : k' ∈ keys l ∧ k' ≠ k := by
  simp only [eraseKey, mem_keys, List.mem_filter, decide_eq_true_eq] at *
  obtain ⟨b, ⟨hb, hk⟩, rfl⟩ := h
  exact ⟨⟨b, hb, rfl⟩, hk⟩

theorem mem_eraseKey {l : List Node} {k : Nat} {b : Node} : b ∈ eraseKey l k ↔ b ∈ l ∧ b.key ≠ k := by
  simp [eraseKey, List.mem_filter]

theorem mem_sweep {l : List Node} {b : Node} : b ∈ sweep l ↔ b ∈ l ∧ b.id ≠ TOMBSTONE := by
  simp [sweep, List.mem_filter]

theorem nodup_keys_filter {l : List Node} (p : Node → Bool) (h : (keys l).Nodup) : (keys (l.filter p)).Nodup := by
  unfold keys at *
  exact List.Nodup.sublist (List.Sublist.map _ List.filter_sublist) h

theorem maxId_ge (l : List Node) : 0 ≤ maxId l ∧ ∀ b ∈ l, b.id ≤ maxId l := by
  induction l with
  | nil => simp [maxId]
  | cons a rest ih =>
    simp only [maxId]
    split
    · refine ⟨by omega, ?_⟩
      intro b hb
      rcases List.mem_cons.1 hb with rfl | hb
      · omega
      · have := ih.2 b hb; omega
    · refine ⟨ih.1, ?_⟩
      intro b hb
      rcases List.mem_cons.1 hb with rfl | hb
      · omega
      · exact ih.2 b hb

theorem findId_some {l : List Node} {id : Int} {b : Node} (h : findId l id = some b) : b ∈ l ∧ b.id = id := by
  induction l with
  | nil => simp [findId] at h
  | cons a rest ih =>
    unfold findId at h
    split at h
    · injection h with h; subst h; simp [*]
    · have := ih h; simp [this]

theorem findId_none {l : List Node} {id : Int} (h : findId l id = none) : ∀ b ∈ l, b.id ≠ id := by
  induction l with
  | nil => simp
  | cons a rest ih =>
    unfold findId at h
    split at h
    · cases h
    · intro b hb
      rcases List.mem_cons.1 hb with rfl | hb
      · assumption
      · exact ih h b hb


/-! ### traces -/

/-- the binding an event is about -/
def Ev.key? : Ev → Option Nat
  | .enter k _ _ _ _ => some k
  | .bound k _ _ _ _ => some k
  | .unbindReq k => some k
  | .fire k _ => some k
  | _ => none

/-- the binding whose liveness an event changes -/
def Ev.affects : Ev → Option Nat
  | .bound k _ _ _ _ => some k
  | .unbindReq k => some k
  | .fire k _ => some k
  | _ => none

def boundIn (log : List Ev) (k : Nat) (fl : BFlags) : Prop := ∃ id ev first, Ev.bound k id ev first fl ∈ log
def reqIn (log : List Ev) (k : Nat) : Prop := Ev.unbindReq k ∈ log
def firedIn (log : List Ev) (k : Nat) : Prop := ∃ o, Ev.fire k o ∈ log

/-- Liveness of a binding read off the trace alone: bound, not unbound, and (if one-shot) not yet delivered. -/
def liveAt (log : List Ev) (k : Nat) : Prop :=
  ∃ fl, boundIn log k fl ∧ ¬ reqIn log k ∧ (fl.oneshot = true → ¬ firedIn log k)

/-- What must hold of the trace `pre` before event `e` is recorded. -/
def EvOk (e : Ev) (pre : List Ev) : Prop :=
  match e with
  | .fire k _ => liveAt pre k
  | .unbindReq k => liveAt pre k
  | .enter k _ _ fl occ =>
      (fl % 2 = 1 → ∃ pre', pre = Ev.fire k occ :: pre') ∧
      (fl = EV_UNBIND → ∃ pre' fl', pre = Ev.unbindReq k :: pre' ∧ boundIn pre k fl' ∧ fl'.unbind = true)
  | .bound k _ _ _ _ => ∀ e ∈ pre, e.key? ≠ some k
  | _ => True

def TraceOk : List Ev → Prop
  | [] => True
  | e :: pre => EvOk e pre ∧ TraceOk pre

theorem affects_key {e : Ev} {k : Nat} (h : e.affects = some k) : e.key? = some k := by
  cases e <;> simp_all [Ev.affects, Ev.key?]

theorem boundIn_cons {e : Ev} {log : List Ev} {k : Nat} {fl : BFlags} (h : e.affects ≠ some k) :
    boundIn (e :: log) k fl ↔ boundIn log k fl := by
  unfold boundIn
  constructor
  · rintro ⟨id, ev, first, hm⟩
    rcases List.mem_cons.1 hm with rfl | hm
    · simp [Ev.affects] at h
    · exact ⟨id, ev, first, hm⟩
  · rintro ⟨id, ev, first, hm⟩
    exact ⟨id, ev, first, List.mem_cons_of_mem _ hm⟩

theorem reqIn_cons {e : Ev} {log : List Ev} {k : Nat} (h : e.affects ≠ some k) :
    reqIn (e :: log) k ↔ reqIn log k := by
  unfold reqIn
  constructor
  · intro hm
    rcases List.mem_cons.1 hm with rfl | hm
    · simp [Ev.affects] at h
    · exact hm
  · exact List.mem_cons_of_mem _

theorem firedIn_cons {e : Ev} {log : List Ev} {k : Nat} (h : e.affects ≠ some k) :
    firedIn (e :: log) k ↔ firedIn log k := by
  unfold firedIn
  constructor
  · rintro ⟨o, hm⟩
    rcases List.mem_cons.1 hm with rfl | hm
    · simp [Ev.affects] at h
    · exact ⟨o, hm⟩
  · rintro ⟨o, hm⟩
    exact ⟨o, List.mem_cons_of_mem _ hm⟩

/-- An event about another binding (or about none) does not change liveness. -/
theorem liveAt_cons {e : Ev} {log : List Ev} {k : Nat} (h : e.affects ≠ some k) :
    liveAt (e :: log) k ↔ liveAt log k := by
  unfold liveAt
  constructor
  · rintro ⟨fl, hb, hr, hf⟩
    exact ⟨fl, (boundIn_cons h).1 hb, fun x => hr ((reqIn_cons h).2 x), fun ho x => hf ho ((firedIn_cons h).2 x)⟩
  · rintro ⟨fl, hb, hr, hf⟩
    exact ⟨fl, (boundIn_cons h).2 hb, fun x => hr ((reqIn_cons h).1 x), fun ho x => hf ho ((firedIn_cons h).1 x)⟩

/-- In a well-formed trace a binding is bound by one event only. -/
theorem bound_unique {log : List Ev} (ht : TraceOk log) {k : Nat} {id id' : Int} {ev ev' : Int} {f f' : Bool} {fl fl' : BFlags}
    (h1 : Ev.bound k id ev f fl ∈ log) (h2 : Ev.bound k id' ev' f' fl' ∈ log) :
    id = id' ∧ ev = ev' ∧ f = f' ∧ fl = fl' := by
  induction log with
  | nil => cases h1
  | cons e pre ih =>
    obtain ⟨he, hp⟩ := ht
    rcases List.mem_cons.1 h1 with rfl | h1 <;> rcases List.mem_cons.1 h2 with h2 | h2
    · injection h2 with _ a b c d; exact ⟨a, b, c, d⟩
    · exact absurd rfl (he _ h2)
    · subst h2; exact absurd rfl (he _ h1)
    · exact ih hp h1 h2

theorem boundIn_unique {log : List Ev} (ht : TraceOk log) {k : Nat} {fl fl' : BFlags}
    (h1 : boundIn log k fl) (h2 : boundIn log k fl') : fl = fl' := by
  obtain ⟨_, _, _, h1⟩ := h1
  obtain ⟨_, _, _, h2⟩ := h2
  exact (bound_unique ht h1 h2).2.2.2

/-! ### the state invariant of the repaired model -/

def liveKey (l : List Node) (k : Nat) : Prop := ∃ b ∈ l, b.key = k ∧ b.id ≠ TOMBSTONE

structure Inv (st : St) : Prop where
  keysNodup : (keys st.list).Nodup
  keysLt : ∀ b ∈ st.list, b.key < st.slotIds.length
  idsUnique : ∀ b1 ∈ st.list, ∀ b2 ∈ st.list, b1.id ≠ TOMBSTONE → b1.id = b2.id → b1.key = b2.key
  idsPos : ∀ b ∈ st.list, b.id ≠ TOMBSTONE → 1 ≤ b.id
  liveFn : ∀ b ∈ st.list, b.id ≠ TOMBSTONE → b.fn ≠ none
  tombIter : ∀ b ∈ st.list, b.id = TOMBSTONE → st.isIter = true ∧ st.needsDelete = true
  slotPos : ∀ id ∈ st.slotIds, 1 ≤ id
  logKeys : ∀ e ∈ st.log, ∀ k, e.key? = some k → k < st.slotIds.length
  boundInfo : ∀ b ∈ st.list, ∃ id ev first, Ev.bound b.key id ev first b.flags ∈ st.log ∧ (b.id ≠ TOMBSTONE → ev = b.ev ∧ id = b.id)
  liveIff : ∀ k, liveKey st.list k ↔ liveAt st.log k
  trace : TraceOk st.log

theorem Inv.init : Inv St.init := by
  refine ⟨by simp [St.init], by simp [St.init], by simp [St.init], by simp [St.init], by simp [St.init], by simp [St.init],
    by simp [St.init], by simp [St.init], by simp [St.init], ?_, by simp [St.init, TraceOk]⟩
  intro k
  simp [St.init, liveKey, liveAt, boundIn]

end Tickit.Bindings
