import Tickit.Model.Bindings
/-
  Helper lemmas for C16 (`Props/C16.lean`): list surgery, the state invariant of the repaired
  model, its preservation by `exec` for every task, every behaviour and every fuel, and the
  pure trace reasoning that turns the invariant into the clauses of the property.
-/
namespace Tickit.Bindings

/-! ### list surgery -/

def keys (l : List Node) : List Nat := l.map (·.key)

@[simp] theorem keys_nil : keys [] = [] := rfl
@[simp] theorem keys_cons (b : Node) (l : List Node) : keys (b :: l) = b.key :: keys l := rfl
@[simp] theorem keys_append (l₁ l₂ : List Node) : keys (l₁ ++ l₂) = keys l₁ ++ keys l₂ := by
  simp [keys]

theorem mem_keys {l : List Node} {k : Nat} : k ∈ keys l ↔ ∃ b ∈ l, b.key = k := by
  simp [keys]

theorem findKey_some {l : List Node} {k : Nat} {b : Node} (h : findKey l k = some b) : b ∈ l ∧ b.key = k := by
  induction l with
  | nil => simp [findKey] at h
  | cons a rest ih =>
    unfold findKey at h
    split at h
    · injection h with h; subst h; simp [*]
    · have := ih h; simp [this]

theorem findKey_none {l : List Node} {k : Nat} (h : findKey l k = none) : k ∉ keys l := by
  induction l with
  | nil => simp
  | cons a rest ih =>
    unfold findKey at h
    split at h
    · cases h
    · simp only [keys_cons, List.mem_cons, not_or]
      exact ⟨fun e => by simp_all, ih h⟩

theorem findKey_of_mem {l : List Node} {k : Nat} (h : k ∈ keys l) : ∃ b, findKey l k = some b := by
  cases hf : findKey l k with
  | some b => exact ⟨b, rfl⟩
  | none => exact absurd h (findKey_none hf)

/-- With distinct keys, `findKey` finds *the* node. -/
theorem findKey_eq_of_mem {l : List Node} (hn : (keys l).Nodup) {b : Node} (hb : b ∈ l) : findKey l b.key = some b := by
  induction l with
  | nil => cases hb
  | cons a rest ih =>
    unfold findKey
    simp only [keys_cons, List.nodup_cons] at hn
    split
    · rename_i hk
      rcases List.mem_cons.1 hb with rfl | hb'
      · rfl
      · exact absurd (mem_keys.2 ⟨b, hb', hk.symm⟩) hn.1
    · rename_i hk
      rcases List.mem_cons.1 hb with rfl | hb'
      · exact absurd rfl hk
      · exact ih hn.2 hb'

theorem nextOf_none {l : List Node} {k : Nat} (h : nextOf l k = none) : k ∉ keys l := by
  induction l with
  | nil => simp
  | cons a rest ih =>
    unfold nextOf at h
    split at h
    · cases h
    · simp only [keys_cons, List.mem_cons, not_or]
      exact ⟨fun e => by simp_all, ih h⟩

theorem nextOf_some_mem {l : List Node} {k k' : Nat} (h : nextOf l k = some (some k')) : k' ∈ keys l := by
  induction l with
  | nil => simp [nextOf] at h
  | cons a rest ih =>
    unfold nextOf at h
    split at h
    · cases rest with
      | nil => simp at h
      | cons c rest' =>
        simp only [List.head?_cons, Option.map_some, Option.some.injEq] at h
        simp [h]
    · simp [ih h]

theorem firstOf_mem {l : List Node} {k : Nat} (h : firstOf l = some k) : k ∈ keys l := by
  cases l with
  | nil => simp [firstOf] at h
  | cons a rest => simp [firstOf] at h; simp [h]

theorem keys_modifyKey (l : List Node) (k : Nat) (f : Node → Node) (hf : ∀ b, (f b).key = b.key) :
    keys (modifyKey l k f) = keys l := by
  induction l with
  | nil => rfl
  | cons a rest ih =>
    simp only [modifyKey, List.map_cons, keys_cons] at *
    rw [ih]
    split <;> simp [hf]

theorem mem_modifyKey {l : List Node} {k : Nat} {f : Node → Node} {b : Node} (h : b ∈ modifyKey l k f) :
    ∃ a ∈ l, b = if a.key = k then f a else a := by
  simp only [modifyKey, List.mem_map] at h
  obtain ⟨a, ha, rfl⟩ := h
  exact ⟨a, ha, rfl⟩

theorem mem_modifyKey_of_mem {l : List Node} {k : Nat} {f : Node → Node} {a : Node} (h : a ∈ l) :
    (if a.key = k then f a else a) ∈ modifyKey l k f := by
  simp only [modifyKey, List.mem_map]
  exact ⟨a, h, rfl⟩

theorem keys_eraseKey_sub {l : List Node} {k k' : Nat} (h : k' ∈ keys (eraseKey l k)) : k' ∈ keys l ∧ k' ≠ k := by
  simp only [eraseKey, mem_keys, List.mem_filter, decide_eq_true_eq] at *
  obtain ⟨b, ⟨hb, hk⟩, rfl⟩ := h
  exact ⟨⟨b, hb, rfl⟩, hk⟩

theorem mem_eraseKey {l : List Node} {k : Nat} {b : Node} : b ∈ eraseKey l k ↔ b ∈ l ∧ b.key ≠ k := by
  simp [eraseKey, List.mem_filter]

theorem mem_sweep {l : List Node} {b : Node} : b ∈ sweep l ↔ b ∈ l ∧ b.id ≠ TOMBSTONE := by
  simp [sweep, List.mem_filter]

theorem nodup_keys_filter {l : List Node} (p : Node → Bool) (h : (keys l).Nodup) : (keys (l.filter p)).Nodup := by
  unfold keys at *
  exact List.Nodup.sublist (List.Sublist.map _ List.filter_sublist) h

theorem maxId_ge (l : List Node) : 0 ≤ maxId l ∧ ∀ b ∈ l, b.id ≤ maxId l := by
  induction l with
  | nil => simp [maxId]
  | cons a rest ih =>
    simp only [maxId]
    split
    · refine ⟨by omega, ?_⟩
      intro b hb
      rcases List.mem_cons.1 hb with rfl | hb
      · omega
      · have := ih.2 b hb; omega
    · refine ⟨ih.1, ?_⟩
      intro b hb
      rcases List.mem_cons.1 hb with rfl | hb
      · omega
      · exact ih.2 b hb

theorem findId_some {l : List Node} {id : Int} {b : Node} (h : findId l id = some b) : b ∈ l ∧ b.id = id := by
  induction l with
  | nil => simp [findId] at h
  | cons a rest ih =>
    unfold findId at h
    split at h
    · injection h with h; subst h; simp [*]
    · have := ih h; simp [this]

theorem findId_none {l : List Node} {id : Int} (h : findId l id = none) : ∀ b ∈ l, b.id ≠ id := by
  induction l with
  | nil => simp
  | cons a rest ih =>
    unfold findId at h
    split at h
    · cases h
    · intro b hb
      rcases List.mem_cons.1 hb with rfl | hb
      · assumption
      · exact ih h b hb


/-! ### traces -/

/-- the binding an event is about -/
def Ev.key? : Ev → Option Nat
  | .enter k _ _ _ _ => some k
  | .bound k _ _ _ _ => some k
  | .unbindReq k => some k
  | .fire k _ => some k
  | _ => none

/-- the binding whose liveness an event changes -/
def Ev.affects : Ev → Option Nat
  | .bound k _ _ _ _ => some k
  | .unbindReq k => some k
  | .fire k _ => some k
  | _ => none

def boundIn (log : List Ev) (k : Nat) (fl : BFlags) : Prop := ∃ id ev first, Ev.bound k id ev first fl ∈ log
def reqIn (log : List Ev) (k : Nat) : Prop := Ev.unbindReq k ∈ log
def firedIn (log : List Ev) (k : Nat) : Prop := ∃ o, Ev.fire k o ∈ log

/-- Liveness of a binding read off the trace alone: bound, not unbound, and (if one-shot) not yet delivered. -/
def liveAt (log : List Ev) (k : Nat) : Prop :=
  ∃ fl, boundIn log k fl ∧ ¬ reqIn log k ∧ (fl.oneshot = true → ¬ firedIn log k)

/-- What must hold of the trace `pre` before event `e` is recorded. -/
def EvOk (e : Ev) (pre : List Ev) : Prop :=
  match e with
  | .fire k _ => liveAt pre k
  | .unbindReq k => liveAt pre k
  | .enter k _ _ fl occ =>
      (fl % 2 = 1 → ∃ pre', pre = Ev.fire k occ :: pre') ∧
      (fl = EV_UNBIND → ∃ pre' fl', pre = Ev.unbindReq k :: pre' ∧ boundIn pre k fl' ∧ fl'.unbind = true)
  | .bound k id _ _ _ =>
      (∀ e ∈ pre, e.key? ≠ some k) ∧ 1 ≤ id ∧
      (∀ k' id' ev' f' fl', Ev.bound k' id' ev' f' fl' ∈ pre → liveAt pre k' → id' ≠ id)
  | _ => True

def TraceOk : List Ev → Prop
  | [] => True
  | e :: pre => EvOk e pre ∧ TraceOk pre

theorem affects_key {e : Ev} {k : Nat} (h : e.affects = some k) : e.key? = some k := by
  cases e <;> simp_all [Ev.affects, Ev.key?]

theorem boundIn_cons {e : Ev} {log : List Ev} {k : Nat} {fl : BFlags} (h : e.affects ≠ some k) :
    boundIn (e :: log) k fl ↔ boundIn log k fl := by
  unfold boundIn
  constructor
  · rintro ⟨id, ev, first, hm⟩
    rcases List.mem_cons.1 hm with rfl | hm
    · simp [Ev.affects] at h
    · exact ⟨id, ev, first, hm⟩
  · rintro ⟨id, ev, first, hm⟩
    exact ⟨id, ev, first, List.mem_cons_of_mem _ hm⟩

theorem reqIn_cons {e : Ev} {log : List Ev} {k : Nat} (h : e.affects ≠ some k) :
    reqIn (e :: log) k ↔ reqIn log k := by
  unfold reqIn
  constructor
  · intro hm
    rcases List.mem_cons.1 hm with rfl | hm
    · simp [Ev.affects] at h
    · exact hm
  · exact List.mem_cons_of_mem _

theorem firedIn_cons {e : Ev} {log : List Ev} {k : Nat} (h : e.affects ≠ some k) :
    firedIn (e :: log) k ↔ firedIn log k := by
  unfold firedIn
  constructor
  · rintro ⟨o, hm⟩
    rcases List.mem_cons.1 hm with rfl | hm
    · simp [Ev.affects] at h
    · exact ⟨o, hm⟩
  · rintro ⟨o, hm⟩
    exact ⟨o, List.mem_cons_of_mem _ hm⟩

/-- An event about another binding (or about none) does not change liveness. -/
theorem liveAt_cons {e : Ev} {log : List Ev} {k : Nat} (h : e.affects ≠ some k) :
    liveAt (e :: log) k ↔ liveAt log k := by
  unfold liveAt
  constructor
  · rintro ⟨fl, hb, hr, hf⟩
    exact ⟨fl, (boundIn_cons h).1 hb, fun x => hr ((reqIn_cons h).2 x), fun ho x => hf ho ((firedIn_cons h).2 x)⟩
  · rintro ⟨fl, hb, hr, hf⟩
    exact ⟨fl, (boundIn_cons h).2 hb, fun x => hr ((reqIn_cons h).1 x), fun ho x => hf ho ((firedIn_cons h).1 x)⟩

/-- In a well-formed trace a binding is bound by one event only. -/
theorem bound_unique {log : List Ev} (ht : TraceOk log) {k : Nat} {id id' : Int} {ev ev' : Int} {f f' : Bool} {fl fl' : BFlags}
    (h1 : Ev.bound k id ev f fl ∈ log) (h2 : Ev.bound k id' ev' f' fl' ∈ log) :
    id = id' ∧ ev = ev' ∧ f = f' ∧ fl = fl' := by
  induction log with
  | nil => cases h1
  | cons e pre ih =>
    obtain ⟨he, hp⟩ := ht
    rcases List.mem_cons.1 h1 with h1e | h1p <;> rcases List.mem_cons.1 h2 with h2e | h2p
    · rw [← h1e] at h2e; cases h2e; exact ⟨rfl, rfl, rfl, rfl⟩
    · subst h1e; exact (he.1 (Ev.bound k id' ev' f' fl') h2p rfl).elim
    · subst h2e; exact (he.1 (Ev.bound k id ev f fl) h1p rfl).elim
    · exact ih hp h1p h2p

theorem boundIn_unique {log : List Ev} (ht : TraceOk log) {k : Nat} {fl fl' : BFlags}
    (h1 : boundIn log k fl) (h2 : boundIn log k fl') : fl = fl' := by
  obtain ⟨_, _, _, h1⟩ := h1
  obtain ⟨_, _, _, h2⟩ := h2
  exact (bound_unique ht h1 h2).2.2.2

/-- Binding order read off the trace: a `FIRST` bind goes to the front, any other to the back. -/
def bindOrder : List Ev → List Nat
  | [] => []
  | .bound k _ _ first _ :: pre => if first then k :: bindOrder pre else bindOrder pre ++ [k]
  | _ :: pre => bindOrder pre

theorem bindOrder_cons_of_affects_none {e : Ev} (log : List Ev) (h : e.affects = none) :
    bindOrder (e :: log) = bindOrder log := by
  cases e <;> simp_all [bindOrder, Ev.affects]

/-! ### the state invariant of the repaired model -/

def liveKey (l : List Node) (k : Nat) : Prop := ∃ b ∈ l, b.key = k ∧ b.id ≠ TOMBSTONE

structure Inv (st : St) : Prop where
  keysNodup : (keys st.list).Nodup
  keysLt : ∀ b ∈ st.list, b.key < st.slotIds.length
  idsUnique : ∀ b1 ∈ st.list, ∀ b2 ∈ st.list, b1.id ≠ TOMBSTONE → b1.id = b2.id → b1.key = b2.key
  idsPos : ∀ b ∈ st.list, b.id ≠ TOMBSTONE → 1 ≤ b.id
  liveFn : ∀ b ∈ st.list, b.id ≠ TOMBSTONE → b.fn ≠ none
  tombIter : ∀ b ∈ st.list, b.id = TOMBSTONE → st.isIter = true ∧ st.needsDelete = true
  slotPos : ∀ id ∈ st.slotIds, 0 ≤ id
  logKeys : ∀ e ∈ st.log, ∀ k, e.key? = some k → k < st.slotIds.length
  boundInfo : ∀ b ∈ st.list, ∃ id ev first, Ev.bound b.key id ev first b.flags ∈ st.log ∧ (b.id ≠ TOMBSTONE → ev = b.ev ∧ id = b.id)
  liveIff : ∀ k, liveKey st.list k ↔ liveAt st.log k
  trace : TraceOk st.log
  /-- the chain is in binding order -/
  order : (keys st.list).Sublist (bindOrder st.log)
  /-- the owner is referenced and not destroyed -/
  alive : 1 ≤ st.refs ∧ st.dead = false

theorem Inv.init : Inv St.init := by
  refine ⟨by simp [St.init], by simp [St.init], by simp [St.init], by simp [St.init], by simp [St.init], by simp [St.init],
    by simp [St.init], by simp [St.init], by simp [St.init], ?_, by simp [St.init, TraceOk], by simp [St.init, bindOrder], by simp [St.init]⟩
  intro k
  simp [St.init, liveKey, liveAt, boundIn]


/-! ### the invariant is kept by every elementary state change of the repaired code -/

theorem evOk_of_key_none {e : Ev} (h : e.key? = none) (pre : List Ev) : EvOk e pre := by
  cases e <;> simp_all [Ev.key?, EvOk]

theorem affects_none_of_key_none {e : Ev} (h : e.key? = none) : e.affects = none := by
  cases e <;> simp_all [Ev.key?, Ev.affects]

/-- Changing the reference count (to something positive) changes nothing else. -/
theorem Inv.of_refs {st : St} (h : Inv st) (n : Nat) (hn : 1 ≤ n) : Inv { st with refs := n } :=
  ⟨h.keysNodup, h.keysLt, h.idsUnique, h.idsPos, h.liveFn, h.tombIter, h.slotPos, h.logKeys, h.boundInfo, h.liveIff, h.trace,
    h.order, hn, h.alive.2⟩

/-- Recording an event that changes no binding's liveness (handler entry/exit, action and occurrence brackets),
    together with changes of the iteration flags that keep `tombIter`. -/
theorem Inv.of_push {st st' : St} (h : Inv st) (hr : st'.refs = st.refs ∧ st'.dead = st.dead) (hl : st'.list = st.list) (hs : st'.slotIds = st.slotIds)
    {e : Ev} (hlog : st'.log = e :: st.log) (haff : e.affects = none)
    (hk : ∀ k, e.key? = some k → k < st.slotIds.length) (hok : EvOk e st.log)
    (ht : ∀ b ∈ st.list, b.id = TOMBSTONE → st'.isIter = true ∧ st'.needsDelete = true) : Inv st' := by
  refine ⟨by rw [hl]; exact h.keysNodup, by rw [hl, hs]; exact h.keysLt, by rw [hl]; exact h.idsUnique,
    by rw [hl]; exact h.idsPos, by rw [hl]; exact h.liveFn, by rw [hl]; exact ht, by rw [hs]; exact h.slotPos, ?_, ?_, ?_, ?_,
    by rw [hl, hlog, bindOrder_cons_of_affects_none _ haff]; exact h.order, by rw [hr.1, hr.2]; exact h.alive⟩
  · intro e' he' k hk'
    rw [hlog] at he'; rw [hs]
    rcases List.mem_cons.1 he' with rfl | he'
    · exact hk k hk'
    · exact h.logKeys e' he' k hk'
  · intro b hb
    rw [hl] at hb
    obtain ⟨id, ev, first, hm, hh⟩ := h.boundInfo b hb
    exact ⟨id, ev, first, by rw [hlog]; exact List.mem_cons_of_mem _ hm, hh⟩
  · intro k
    rw [hl, hlog, liveAt_cons (by rw [haff]; simp)]
    exact h.liveIff k
  · rw [hlog]; exact ⟨hok, h.trace⟩

theorem liveKey_modifyKey_ne {l : List Node} {k k' : Nat} {f : Node → Node} (hf : ∀ b, (f b).key = b.key) (hne : k' ≠ k) :
    liveKey (modifyKey l k f) k' ↔ liveKey l k' := by
  unfold liveKey
  constructor
  · rintro ⟨b, hb, hk, hlive⟩
    obtain ⟨a, ha, rfl⟩ := mem_modifyKey hb
    split at hk
    · rename_i hak; rw [hf] at hk; omega
    · rename_i hak
      refine ⟨a, ha, hk, ?_⟩
      simpa [hak] using hlive
  · rintro ⟨a, ha, hk, hlive⟩
    refine ⟨a, ?_, hk, hlive⟩
    have := mem_modifyKey_of_mem (k := k) (f := f) ha
    rwa [if_neg (by omega)] at this

theorem not_liveKey_modifyKey_tomb {l : List Node} {k : Nat} {f : Node → Node} (hn : (keys l).Nodup)
    (hf : ∀ b, (f b).key = b.key ∧ (f b).id = TOMBSTONE) : ¬ liveKey (modifyKey l k f) k := by
  rintro ⟨b, hb, hk, hlive⟩
  obtain ⟨a, ha, rfl⟩ := mem_modifyKey hb
  split at hk
  · exact hlive (by rename_i hak; simp [hak, (hf a).2])
  · rename_i hak; exact hak hk

theorem boundIn_mono {log : List Ev} {e : Ev} {k : Nat} {fl : BFlags} (h : boundIn log k fl) : boundIn (e :: log) k fl := by
  obtain ⟨id, ev, first, hm⟩ := h
  exact ⟨id, ev, first, List.mem_cons_of_mem _ hm⟩

/-- The flags of a node are the flags it was bound with. -/
theorem Inv.flags_of_boundIn {st : St} (h : Inv st) {b : Node} (hb : b ∈ st.list) {fl : BFlags}
    (hbi : boundIn st.log b.key fl) : fl = b.flags := by
  obtain ⟨id, ev, first, hm, _⟩ := h.boundInfo b hb
  exact boundIn_unique h.trace hbi ⟨id, ev, first, hm⟩

/-- Tombstoning a live node (`id := TOMBSTONE`, possibly clearing `evindex` and `fn`) together with recording the
    event `e` that kills it in the trace. -/
theorem Inv.of_kill {st st' : St} (h : Inv st) (hr : st'.refs = st.refs ∧ st'.dead = st.dead) {b : Node} (hb : b ∈ st.list) (hlive : b.id ≠ TOMBSTONE)
    {f : Node → Node} (hf : ∀ a, (f a).key = a.key ∧ (f a).id = TOMBSTONE ∧ (f a).flags = a.flags)
    (hl : st'.list = modifyKey st.list b.key f) (hs : st'.slotIds = st.slotIds)
    {e : Ev} (hlog : st'.log = e :: st.log) (hekey : e.key? = some b.key) (haff : e.affects = some b.key)
    (hdead : ¬ liveAt (e :: st.log) b.key) (hok : EvOk e st.log)
    (hit : st'.isIter = true) (hnd : st'.needsDelete = true)
    (hbo : bindOrder (e :: st.log) = bindOrder st.log) : Inv st' := by
  have hfk : ∀ a, (f a).key = a.key := fun a => (hf a).1
  have hmem : ∀ x ∈ st'.list, ∃ a ∈ st.list, (x = a ∧ a.key ≠ b.key) ∨ (x = f a ∧ a.key = b.key) := by
    intro x hx
    rw [hl] at hx
    obtain ⟨a, ha, rfl⟩ := mem_modifyKey hx
    by_cases hak : a.key = b.key
    · exact ⟨a, ha, Or.inr ⟨by simp [hak], hak⟩⟩
    · exact ⟨a, ha, Or.inl ⟨by simp [hak], hak⟩⟩
  refine ⟨by rw [hl, keys_modifyKey _ _ _ hfk]; exact h.keysNodup, ?_, ?_, ?_, ?_, ?_, by rw [hs]; exact h.slotPos, ?_, ?_, ?_, ?_,
    by rw [hl, hlog, hbo, keys_modifyKey _ _ _ hfk]; exact h.order, by rw [hr.1, hr.2]; exact h.alive⟩
  · intro x hx
    obtain ⟨a, ha, (⟨rfl, _⟩ | ⟨rfl, _⟩)⟩ := hmem x hx
    · rw [hs]; exact h.keysLt _ ha
    · rw [hs, hfk]; exact h.keysLt _ ha
  · intro x1 hx1 x2 hx2 hl1 heq
    obtain ⟨a1, ha1, (⟨rfl, _⟩ | ⟨rfl, _⟩)⟩ := hmem x1 hx1
    · obtain ⟨a2, ha2, (⟨rfl, _⟩ | ⟨rfl, _⟩)⟩ := hmem x2 hx2
      · exact h.idsUnique _ ha1 _ ha2 hl1 heq
      · rw [(hf a2).2.1] at heq; exact absurd heq hl1
    · exact absurd (hf a1).2.1 hl1
  · intro x hx hlx
    obtain ⟨a, ha, (⟨rfl, _⟩ | ⟨rfl, _⟩)⟩ := hmem x hx
    · exact h.idsPos _ ha hlx
    · exact absurd (hf a).2.1 hlx
  · intro x hx hlx
    obtain ⟨a, ha, (⟨rfl, _⟩ | ⟨rfl, _⟩)⟩ := hmem x hx
    · exact h.liveFn _ ha hlx
    · exact absurd (hf a).2.1 hlx
  · intro x _ _; exact ⟨hit, hnd⟩
  · intro e' he' k hk'
    rw [hlog] at he'; rw [hs]
    rcases List.mem_cons.1 he' with rfl | he'
    · rw [hekey] at hk'; injection hk' with hk'; subst hk'; exact h.keysLt _ hb
    · exact h.logKeys e' he' k hk'
  · intro x hx
    obtain ⟨a, ha, (⟨rfl, _⟩ | ⟨rfl, _⟩)⟩ := hmem x hx
    · obtain ⟨id, ev, first, hm, hh⟩ := h.boundInfo _ ha
      exact ⟨id, ev, first, by rw [hlog]; exact List.mem_cons_of_mem _ hm, hh⟩
    · obtain ⟨id, ev, first, hm, _⟩ := h.boundInfo _ ha
      refine ⟨id, ev, first, ?_, fun hx => absurd (hf a).2.1 hx⟩
      rw [hlog, hfk, (hf a).2.2]; exact List.mem_cons_of_mem _ hm
  · intro k
    by_cases hk : k = b.key
    · subst hk
      rw [hl, hlog]
      constructor
      · intro hlk
        exact absurd hlk (not_liveKey_modifyKey_tomb h.keysNodup (fun a => ⟨(hf a).1, (hf a).2.1⟩))
      · intro hla; exact absurd hla hdead
    · rw [hl, hlog, liveKey_modifyKey_ne hfk hk, liveAt_cons (by rw [haff]; simp; omega)]
      exact h.liveIff k
  · rw [hlog]; exact ⟨hok, h.trace⟩


theorem boundIn_cons_fire {log : List Ev} {k k' o : Nat} {fl : BFlags} :
    boundIn (Ev.fire k' o :: log) k fl ↔ boundIn log k fl := by
  unfold boundIn
  constructor
  · rintro ⟨id, ev, first, hm⟩
    rcases List.mem_cons.1 hm with hm | hm
    · cases hm
    · exact ⟨id, ev, first, hm⟩
  · rintro ⟨id, ev, first, hm⟩
    exact ⟨id, ev, first, List.mem_cons_of_mem _ hm⟩

theorem not_liveAt_req (log : List Ev) (k : Nat) : ¬ liveAt (Ev.unbindReq k :: log) k := by
  rintro ⟨fl, _, hr, _⟩
  exact hr (List.mem_cons_self ..)

theorem not_liveAt_fire_oneshot {log : List Ev} (ht : TraceOk log) {k o : Nat} {fl : BFlags}
    (hb : boundIn log k fl) (ho : fl.oneshot = true) : ¬ liveAt (Ev.fire k o :: log) k := by
  rintro ⟨fl', hb', _, hf⟩
  have : fl' = fl := boundIn_unique ht (boundIn_cons_fire.1 hb') hb
  subst this
  exact hf ho ⟨o, List.mem_cons_self ..⟩

/-- Delivering to a binding that is not one-shot: the list is unchanged, the ghost `fire` is recorded. -/
theorem Inv.of_fire_keep {st st' : St} (h : Inv st) (hr : st'.refs = st.refs ∧ st'.dead = st.dead) {b : Node} (hb : b ∈ st.list) (hlive : b.id ≠ TOMBSTONE)
    (hno : b.flags.oneshot = false) (hl : st'.list = st.list) (hs : st'.slotIds = st.slotIds) {occ : Nat}
    (hlog : st'.log = Ev.fire b.key occ :: st.log)
    (ht : ∀ b ∈ st.list, b.id = TOMBSTONE → st'.isIter = true ∧ st'.needsDelete = true) : Inv st' := by
  have hla : liveAt st.log b.key := (h.liveIff b.key).1 ⟨b, hb, rfl, hlive⟩
  refine ⟨by rw [hl]; exact h.keysNodup, by rw [hl, hs]; exact h.keysLt, by rw [hl]; exact h.idsUnique,
    by rw [hl]; exact h.idsPos, by rw [hl]; exact h.liveFn, by rw [hl]; exact ht, by rw [hs]; exact h.slotPos, ?_, ?_, ?_, ?_,
    by rw [hl, hlog]; exact h.order, by rw [hr.1, hr.2]; exact h.alive⟩
  · intro e' he' k hk'
    rw [hlog] at he'; rw [hs]
    rcases List.mem_cons.1 he' with rfl | he'
    · simp only [Ev.key?, Option.some.injEq] at hk'; subst hk'; exact h.keysLt _ hb
    · exact h.logKeys e' he' k hk'
  · intro x hx
    rw [hl] at hx
    obtain ⟨id, ev, first, hm, hh⟩ := h.boundInfo x hx
    exact ⟨id, ev, first, by rw [hlog]; exact List.mem_cons_of_mem _ hm, hh⟩
  · intro k
    rw [hl, hlog]
    by_cases hk : k = b.key
    · subst hk
      rw [h.liveIff]
      constructor
      · rintro ⟨fl, hbi, hr, hf⟩
        have hfl := h.flags_of_boundIn hb hbi
        refine ⟨fl, boundIn_mono hbi, ?_, fun ho => by rw [hfl, hno] at ho; cases ho⟩
        intro hr'; rcases List.mem_cons.1 hr' with hr' | hr'
        · cases hr'
        · exact hr hr'
      · intro _; exact hla
    · rw [liveAt_cons (by simp [Ev.affects]; omega)]
      exact h.liveIff k
  · rw [hlog]; exact ⟨hla, h.trace⟩

theorem liveKey_eraseKey_ne {l : List Node} {k k' : Nat} (hne : k' ≠ k) : liveKey (eraseKey l k) k' ↔ liveKey l k' := by
  unfold liveKey
  constructor
  · rintro ⟨b, hb, hk, hlive⟩
    exact ⟨b, (mem_eraseKey.1 hb).1, hk, hlive⟩
  · rintro ⟨b, hb, hk, hlive⟩
    exact ⟨b, mem_eraseKey.2 ⟨hb, by omega⟩, hk, hlive⟩

/-- Unbinding while no walker runs: the node is unlinked and freed at once. -/
theorem Inv.of_erase {st st' : St} (h : Inv st) (hr : st'.refs = st.refs ∧ st'.dead = st.dead) {b : Node} (hb : b ∈ st.list) (hlive : b.id ≠ TOMBSTONE)
    (hni : st.isIter = false) (hl : st'.list = eraseKey st.list b.key) (hs : st'.slotIds = st.slotIds)
    (hlog : st'.log = Ev.unbindReq b.key :: st.log) : Inv st' := by
  have hnt : ∀ x ∈ st.list, x.id ≠ TOMBSTONE := by
    intro x hx hxt
    have := (h.tombIter x hx hxt).1
    rw [hni] at this; cases this
  have hsub : ∀ x ∈ st'.list, x ∈ st.list := fun x hx => by rw [hl] at hx; exact (mem_eraseKey.1 hx).1
  refine ⟨by rw [hl]; exact nodup_keys_filter _ h.keysNodup, fun x hx => by rw [hs]; exact h.keysLt x (hsub x hx),
    fun x1 h1 x2 h2 => h.idsUnique x1 (hsub x1 h1) x2 (hsub x2 h2), fun x hx => h.idsPos x (hsub x hx),
    fun x hx => h.liveFn x (hsub x hx), fun x hx hxt => absurd hxt (hnt x (hsub x hx)), by rw [hs]; exact h.slotPos, ?_, ?_, ?_, ?_,
    by rw [hl, hlog]; exact (List.Sublist.map _ List.filter_sublist).trans h.order, by rw [hr.1, hr.2]; exact h.alive⟩
  · intro e' he' k hk'
    rw [hlog] at he'; rw [hs]
    rcases List.mem_cons.1 he' with rfl | he'
    · simp only [Ev.key?, Option.some.injEq] at hk'; subst hk'; exact h.keysLt _ hb
    · exact h.logKeys e' he' k hk'
  · intro x hx
    obtain ⟨id, ev, first, hm, hh⟩ := h.boundInfo x (hsub x hx)
    exact ⟨id, ev, first, by rw [hlog]; exact List.mem_cons_of_mem _ hm, hh⟩
  · intro k
    rw [hl, hlog]
    by_cases hk : k = b.key
    · subst hk
      constructor
      · rintro ⟨x, hx, hxk, _⟩
        exact absurd hxk (mem_eraseKey.1 hx).2
      · intro hla; exact absurd hla (not_liveAt_req _ _)
    · rw [liveKey_eraseKey_ne hk, liveAt_cons (by simp [Ev.affects]; omega)]
      exact h.liveIff k
  · rw [hlog]; exact ⟨(h.liveIff b.key).1 ⟨b, hb, rfl, hlive⟩, h.trace⟩

theorem liveKey_sweep {l : List Node} {k : Nat} : liveKey (sweep l) k ↔ liveKey l k := by
  unfold liveKey
  constructor
  · rintro ⟨b, hb, hk, hlive⟩
    exact ⟨b, (mem_sweep.1 hb).1, hk, hlive⟩
  · rintro ⟨b, hb, hk, hlive⟩
    exact ⟨b, mem_sweep.2 ⟨hb, hlive⟩, hk, hlive⟩

/-- `cleanup` at the end of the outermost iteration, with the `occEnd` bracket recorded. -/
theorem Inv.of_sweep {st st' : St} (h : Inv st) (hr : st'.refs = st.refs ∧ st'.dead = st.dead) (hl : st'.list = sweep st.list) (hs : st'.slotIds = st.slotIds)
    {e : Ev} (hlog : st'.log = e :: st.log) (he : e.key? = none) : Inv st' := by
  have hsub : ∀ x ∈ st'.list, x ∈ st.list ∧ x.id ≠ TOMBSTONE := fun x hx => by rw [hl] at hx; exact mem_sweep.1 hx
  refine ⟨by rw [hl]; exact nodup_keys_filter _ h.keysNodup, fun x hx => by rw [hs]; exact h.keysLt x (hsub x hx).1,
    fun x1 h1 x2 h2 => h.idsUnique x1 (hsub x1 h1).1 x2 (hsub x2 h2).1, fun x hx => h.idsPos x (hsub x hx).1,
    fun x hx => h.liveFn x (hsub x hx).1, fun x hx hxt => absurd hxt (hsub x hx).2, by rw [hs]; exact h.slotPos, ?_, ?_, ?_, ?_,
    by rw [hl, hlog, bindOrder_cons_of_affects_none _ (affects_none_of_key_none he)]; exact (List.Sublist.map _ List.filter_sublist).trans h.order, by rw [hr.1, hr.2]; exact h.alive⟩
  · intro e' he' k hk'
    rw [hlog] at he'; rw [hs]
    rcases List.mem_cons.1 he' with rfl | he'
    · rw [he] at hk'; cases hk'
    · exact h.logKeys e' he' k hk'
  · intro x hx
    obtain ⟨id, ev, first, hm, hh⟩ := h.boundInfo x (hsub x hx).1
    exact ⟨id, ev, first, by rw [hlog]; exact List.mem_cons_of_mem _ hm, hh⟩
  · intro k
    rw [hl, hlog, liveKey_sweep, liveAt_cons (by rw [affects_none_of_key_none he]; simp)]
    exact h.liveIff k
  · rw [hlog]; exact ⟨evOk_of_key_none he _, h.trace⟩

/-- `tickit_bindings_bind_event`. -/
theorem Inv.of_bind {st : St} (h : Inv st) (ev : Int) (first : Bool) (flags : BFlags) (hh : Nat) :
    Inv (bindEvent st ev first flags hh) := by
  have hmax := maxId_ge st.list
  have hfresh : ∀ x ∈ st.list, x.key ≠ st.slotIds.length := fun x hx => Nat.ne_of_lt (h.keysLt x hx)
  have hlogfresh : ∀ e ∈ st.log, e.key? ≠ some st.slotIds.length := by
    intro e he hk
    exact Nat.lt_irrefl _ (h.logKeys e he _ hk)
  let node : Node := ⟨st.slotIds.length, maxId st.list + 1, ev, flags, some hh⟩
  have hlist : ∀ x, x ∈ (bindEvent st ev first flags hh).list ↔ x = node ∨ x ∈ st.list := by
    intro x
    simp only [Tickit.Bindings.bindEvent]
    split <;> simp [node, or_comm]
  have hnodeLive : node.id ≠ TOMBSTONE := by simp [node, TOMBSTONE]; omega
  refine ⟨?_, ?_, ?_, ?_, ?_, ?_, ?_, ?_, ?_, ?_, ?_, ?_, h.alive⟩
  rotate_right
  · simp only [Tickit.Bindings.bindEvent, bindOrder]
    split
    · simp only [keys_cons]; exact h.order.cons_cons _
    · rw [keys_append]; exact List.Sublist.append h.order (List.Sublist.refl _)
  · simp only [Tickit.Bindings.bindEvent]
    split
    · simp only [keys_cons, List.nodup_cons]
      exact ⟨fun hm => by obtain ⟨x, hx, hk⟩ := mem_keys.1 hm; exact hfresh x hx hk, h.keysNodup⟩
    · rw [keys_append, List.nodup_append]
      refine ⟨h.keysNodup, by simp, ?_⟩
      intro a ha b hb
      simp at hb; subst hb
      obtain ⟨x, hx, hk⟩ := mem_keys.1 ha
      intro e; exact hfresh x hx (by omega)
  · intro x hx
    have hlen : (bindEvent st ev first flags hh).slotIds.length = st.slotIds.length + 1 := by
      simp [Tickit.Bindings.bindEvent]
    rw [hlen]
    rcases (hlist x).1 hx with rfl | hx
    · simp [node]
    · have := h.keysLt x hx; omega
  · intro x1 h1 x2 h2 hl1 heq
    rcases (hlist x1).1 h1 with rfl | h1 <;> rcases (hlist x2).1 h2 with rfl | h2
    · rfl
    · have := hmax.2 x2 h2; simp [node] at heq; omega
    · have := hmax.2 x1 h1; simp [node] at heq; omega
    · exact h.idsUnique x1 h1 x2 h2 hl1 heq
  · intro x hx hlx
    rcases (hlist x).1 hx with rfl | hx
    · simp [node]; omega
    · exact h.idsPos x hx hlx
  · intro x hx hlx
    rcases (hlist x).1 hx with rfl | hx
    · simp [node]
    · exact h.liveFn x hx hlx
  · intro x hx hxt
    rcases (hlist x).1 hx with rfl | hx
    · exact absurd hxt hnodeLive
    · exact h.tombIter x hx hxt
  · intro id hid
    simp only [Tickit.Bindings.bindEvent, List.mem_append, List.mem_singleton] at hid
    rcases hid with hid | rfl
    · exact h.slotPos id hid
    · omega
  · intro e he k hk
    simp only [Tickit.Bindings.bindEvent, List.mem_cons, List.length_append, List.length_singleton] at he ⊢
    rcases he with rfl | he
    · simp only [Ev.key?, Option.some.injEq] at hk; omega
    · have := h.logKeys e he k hk; omega
  · intro x hx
    rcases (hlist x).1 hx with rfl | hx
    · exact ⟨maxId st.list + 1, ev, first, by simp [Tickit.Bindings.bindEvent, node], fun _ => ⟨rfl, rfl⟩⟩
    · obtain ⟨id, ev', first', hm, hh'⟩ := h.boundInfo x hx
      exact ⟨id, ev', first', by simp only [Tickit.Bindings.bindEvent]; exact List.mem_cons_of_mem _ hm, hh'⟩
  · intro k
    have hlog : (bindEvent st ev first flags hh).log = Ev.bound st.slotIds.length (maxId st.list + 1) ev first flags :: st.log := by
      simp [Tickit.Bindings.bindEvent]
    rw [hlog]
    by_cases hk : k = st.slotIds.length
    · subst hk
      constructor
      · intro _
        refine ⟨flags, ⟨_, _, _, List.mem_cons_self ..⟩, ?_, ?_⟩
        · intro hr
          rcases List.mem_cons.1 hr with hr | hr
          · cases hr
          · exact hlogfresh _ hr rfl
        · rintro _ ⟨o, hf⟩
          rcases List.mem_cons.1 hf with hf | hf
          · cases hf
          · exact hlogfresh _ hf rfl
      · intro _
        exact ⟨node, (hlist node).2 (Or.inl rfl), rfl, hnodeLive⟩
    · rw [liveAt_cons (by simp [Ev.affects]; omega), ← h.liveIff k]
      unfold liveKey
      constructor
      · rintro ⟨x, hx, hxk, hxl⟩
        rcases (hlist x).1 hx with rfl | hx
        · exact absurd hxk.symm hk
        · exact ⟨x, hx, hxk, hxl⟩
      · rintro ⟨x, hx, hxk, hxl⟩
        exact ⟨x, (hlist x).2 (Or.inr hx), hxk, hxl⟩
  · have hlog : (bindEvent st ev first flags hh).log = Ev.bound st.slotIds.length (maxId st.list + 1) ev first flags :: st.log := by
      simp [Tickit.Bindings.bindEvent]
    rw [hlog]
    refine ⟨⟨fun e he => hlogfresh e he, by omega, ?_⟩, h.trace⟩
    intro k' id' ev' f' fl' hm hla
    obtain ⟨x, hx, hxk, hxl⟩ := (h.liveIff k').2 hla
    obtain ⟨id'', ev'', f'', hm', hh'⟩ := h.boundInfo x hx
    rw [hxk] at hm'
    have := (bound_unique h.trace hm hm').1
    have hid := (hh' hxl).2
    have := hmax.2 x hx
    omega


/-! ### destruction: the second loop of `unbind_and_destroy` -/

section
variable (own : Owner) (beh : Behaviour)

/-- A handler called with `TICKIT_EV_DESTROY` does nothing: the call records entry and exit only. -/
theorem exec_call_destroy {cfg : Cfg} {fuel : Nat} {key hh : Nat} {st st' : St} {r : Int}
    (h : exec cfg own beh fuel (.call key (some hh) (EV_UNBIND + EV_DESTROY) 0) st = .ok (st', r)) :
    st' = { st with inv := fun x => if x = hh then st.inv hh + 1 else st.inv x,
                    log := Ev.leave key 0 (beh hh (st.inv hh)).ret :: Ev.enter key hh (st.inv hh) (EV_UNBIND + EV_DESTROY) 0 :: st.log } := by
  cases fuel with
  | zero => simp [exec] at h
  | succ fuel =>
    cases fuel with
    | zero => simp [exec] at h
    | succ fuel =>
      simp only [exec, EV_UNBIND, EV_DESTROY] at h
      simp only [Nat.reduceAdd, if_true] at h
      injection h with h
      injection h with h _
      rw [← h]; rfl

theorem exec_call_destroy_noub {cfg : Cfg} {fuel : Nat} {key hh : Nat} {st : St} {w : String} :
    exec cfg own beh fuel (.call key (some hh) (EV_UNBIND + EV_DESTROY) 0) st ≠ .ub w := by
  cases fuel with
  | zero => simp [exec]
  | succ fuel =>
    cases fuel with
    | zero => simp [exec]
    | succ fuel =>
      simp only [exec, EV_UNBIND, EV_DESTROY]
      simp

/-- does the destroy loop call this node? (`evindex == 0 || flags & (UNBIND|DESTROY)`) -/
def asked (b : Node) : Bool := b.ev == 0 || b.flags.unbind || b.flags.destroy

/-- the handler entries of a trace segment, oldest first, as (binding, event flags) -/
def enters (seg : List Ev) : List (Nat × Nat) :=
  seg.reverse.filterMap fun e => match e with
    | .enter k _ _ fl _ => some (k, fl)
    | _ => none

theorem enters_cons_append (a b : List Ev) : enters (a ++ b) = enters b ++ enters a := by
  simp [enters, List.filterMap_append]

theorem destroyLoop_spec {cfg : Cfg} : ∀ (rev : List Node) (fuel : Nat) (st st' : St) (r : Int),
    (∀ b ∈ rev, b.fn ≠ none) →
    exec cfg own beh fuel (.destroyLoop rev) st = .ok (st', r) →
    st'.list = [] ∧ ∃ seg, st'.log = seg ++ st.log ∧
      enters seg = (rev.filter asked).map (fun b => (b.key, EV_UNBIND + EV_DESTROY)) ∧
      (∀ e ∈ seg, (∃ k hh n, e = Ev.enter k hh n (EV_UNBIND + EV_DESTROY) 0) ∨ ∃ k x, e = Ev.leave k 0 x) := by
  intro rev
  induction rev with
  | nil =>
    intro fuel st st' r _ h
    cases fuel with
    | zero => simp [exec] at h
    | succ fuel =>
      simp only [exec] at h
      injection h with h; injection h with h _
      subst h
      exact ⟨rfl, [], rfl, rfl, by simp⟩
  | cons b rest ih =>
    intro fuel st st' r hfn h
    cases fuel with
    | zero => simp [exec] at h
    | succ fuel =>
      simp only [exec] at h
      have hrest : ∀ x ∈ rest, x.fn ≠ none := fun x hx => hfn x (List.mem_cons_of_mem _ hx)
      by_cases hask : b.ev = 0 ∨ b.flags.unbind = true ∨ b.flags.destroy = true
      · have haskb : asked b = true := by simp only [asked, Bool.or_eq_true, beq_iff_eq]; rcases hask with h | h | h <;> simp [h]
        rw [if_pos hask] at h
        cases hfb : b.fn with
        | none => exact absurd hfb (hfn b (List.mem_cons_self ..))
        | some hh =>
          rw [hfb] at h
          cases hc : exec cfg own beh fuel (.call b.key (some hh) (EV_UNBIND + EV_DESTROY) 0) st with
          | outOfFuel => rw [hc] at h; simp at h
          | ub w => rw [hc] at h; simp at h
          | ok p =>
            obtain ⟨st1, r1⟩ := p
            rw [hc] at h
            simp only at h
            have hst1 := exec_call_destroy own beh hc
            obtain ⟨hl, seg, hseg, hent, hshape⟩ := ih fuel st1 st' r hrest h
            refine ⟨hl, seg ++ [Ev.leave b.key 0 (beh hh (st.inv hh)).ret, Ev.enter b.key hh (st.inv hh) (EV_UNBIND + EV_DESTROY) 0], ?_, ?_, ?_⟩
            · rw [hseg, hst1]; simp
            · rw [enters_cons_append, hent, List.filter_cons_of_pos haskb]
              simp [enters]
            · intro e he
              rcases List.mem_append.1 he with he | he
              · exact hshape e he
              · simp only [List.mem_cons, List.not_mem_nil, or_false] at he
                rcases he with rfl | rfl
                · exact Or.inr ⟨_, _, rfl⟩
                · exact Or.inl ⟨_, _, _, rfl⟩
      · have haskb : asked b = false := by
          simp only [not_or] at hask
          simp only [asked, Bool.or_eq_false_iff, beq_eq_false_iff_ne, ne_eq]
          exact ⟨⟨hask.1, by simpa using hask.2.1⟩, by simpa using hask.2.2⟩
        rw [if_neg hask] at h
        obtain ⟨hl, seg, hseg, hent, hshape⟩ := ih fuel st st' r hrest h
        refine ⟨hl, seg, hseg, ?_, hshape⟩
        rw [hent, List.filter_cons_of_neg (by simp [haskb])]

theorem destroyLoop_noub {cfg : Cfg} : ∀ (rev : List Node) (fuel : Nat) (st : St) (w : String),
    (∀ b ∈ rev, b.fn ≠ none) → exec cfg own beh fuel (.destroyLoop rev) st ≠ .ub w := by
  intro rev
  induction rev with
  | nil =>
    intro fuel st w _
    cases fuel <;> simp [exec]
  | cons b rest ih =>
    intro fuel st w hfn
    cases fuel with
    | zero => simp [exec]
    | succ fuel =>
      simp only [exec]
      have hrest : ∀ x ∈ rest, x.fn ≠ none := fun x hx => hfn x (List.mem_cons_of_mem _ hx)
      split
      · cases hfb : b.fn with
        | none => exact absurd hfb (hfn b (List.mem_cons_self ..))
        | some hh =>
          cases hc : exec cfg own beh fuel (.call b.key (some hh) (EV_UNBIND + EV_DESTROY) 0) st with
          | outOfFuel => simp
          | ub w' => exact absurd hc (exec_call_destroy_noub own beh)
          | ok p => obtain ⟨st1, r1⟩ := p; simp only; exact ih fuel st1 w hrest
      · exact ih fuel st w hrest

/-- Recording handler entries for destruction and exits keeps the trace well formed. -/
theorem TraceOk.append_destroy {seg log : List Ev} (h : TraceOk log)
    (hshape : ∀ e ∈ seg, (∃ k hh n, e = Ev.enter k hh n (EV_UNBIND + EV_DESTROY) 0) ∨ ∃ k x, e = Ev.leave k 0 x) :
    TraceOk (seg ++ log) := by
  induction seg with
  | nil => exact h
  | cons e seg ih =>
    refine ⟨?_, ih (fun x hx => hshape x (List.mem_cons_of_mem _ hx))⟩
    rcases hshape e (List.mem_cons_self ..) with ⟨k, hh, n, rfl⟩ | ⟨k, x, rfl⟩
    · exact ⟨fun ho => by simp [EV_UNBIND, EV_DESTROY] at ho, fun ho => by simp [EV_UNBIND, EV_DESTROY] at ho⟩
    · trivial

end

/-! ### what every completed task guarantees (repaired code) -/

@[simp] theorem repaired_skipTomb : Cfg.repaired.skipTomb = true := rfl
@[simp] theorem repaired_wfOneshot : Cfg.repaired.wfOneshot = true := rfl
@[simp] theorem repaired_notifyLast : Cfg.repaired.notifyLast = true := rfl

/-- Which occurrence numbers an event recorded during a task may carry: deliveries (`fire`) and handler returns
    (`leave`) belong to occurrences that start later (`next ≤ o'`), to notifications (`leave … 0 …`), or to the
    occurrence the task itself works for (`own.1` for deliveries, `own.2` for returns). -/
def EvOcc (own : Option Nat × Option Nat) (next : Nat) : Ev → Prop
  | .fire _ o' => next ≤ o' ∨ own.1 = some o'
  | .leave _ o' _ => o' = 0 ∨ next ≤ o' ∨ own.2 = some o'
  | _ => True

theorem EvOcc.mono {own : Option Nat × Option Nat} {n n' : Nat} {e : Ev} (h : EvOcc own n e) (hn : n' ≤ n) : EvOcc own n' e := by
  cases e with
  | fire k o' =>
    simp only [EvOcc] at *
    rcases h with h | h
    · exact Or.inl (by omega)
    · exact Or.inr h
  | leave k o' r =>
    simp only [EvOcc] at *
    rcases h with h | h | h
    · exact Or.inl h
    · exact Or.inr (Or.inl (by omega))
    · exact Or.inr (Or.inr h)
  | _ => trivial

theorem EvOcc.weaken {own own' : Option Nat × Option Nat} {n : Nat} {e : Ev} (h : EvOcc own n e)
    (h1 : ∀ o, own.1 = some o → own'.1 = some o) (h2 : ∀ o, own.2 = some o → o = 0 ∨ own'.2 = some o) : EvOcc own' n e := by
  cases e with
  | fire k o' =>
    simp only [EvOcc] at *
    rcases h with h | h
    · exact Or.inl h
    · exact Or.inr (h1 _ h)
  | leave k o' r =>
    simp only [EvOcc] at *
    rcases h with h | h | h
    · exact Or.inl h
    · exact Or.inr (Or.inl h)
    · rcases h2 _ h with h | h
      · exact Or.inl h
      · exact Or.inr (Or.inr h)
  | _ => trivial

/-- a Boolean as a number of references -/
def b2n (b : Bool) : Nat := if b then 1 else 0
@[simp] theorem b2n_true : b2n true = 1 := rfl
@[simp] theorem b2n_false : b2n false = 0 := rfl

/-- Reference accounting across a completed task that left the owner alive: the count is back where it was, less
    the handlers' own reference if that was dropped meanwhile (it is dropped at most once, never regained). -/
def Life (st st' : St) : Prop :=
  st'.dead = st.dead ∧ st'.refs + b2n (st.userRef && !st'.userRef) = st.refs ∧ (st'.userRef = true → st.userRef = true) ∧
  st'.pen.freeze = st.pen.freeze ∧ st'.frozenRefs = st.frozenRefs

theorem Life.same {st st' : St} (hr : st'.refs = st.refs) (hd : st'.dead = st.dead) (hu : st'.userRef = st.userRef)
    (hp : st'.pen.freeze = st.pen.freeze := by rfl) (hf : st'.frozenRefs = st.frozenRefs := by rfl) : Life st st' := by
  refine ⟨hd, ?_, fun h => by rw [← hu]; exact h, hp, hf⟩
  rw [hr, hu]; cases st.userRef <;> simp

theorem Life.refl (st : St) : Life st st := Life.same rfl rfl rfl

theorem Life.trans {a b c : St} (h1 : Life a b) (h2 : Life b c) : Life a c := by
  obtain ⟨d1, r1, u1, p1, f1⟩ := h1
  obtain ⟨d2, r2, u2, p2, f2⟩ := h2
  refine ⟨d2.trans d1, ?_, fun h => u1 (u2 h), p2.trans p1, f2.trans f1⟩
  cases ha : a.userRef <;> cases hb : b.userRef <;> cases hc : c.userRef <;> simp_all <;> omega

/-- Two-state facts about a completed task that left the owner alive.  `own` is the occurrence the task itself
    delivers for (a walker) and the occurrence whose handler it runs (a call), if any. -/
structure Step (own : Option Nat × Option Nat) (st st' : St) : Prop where
  /-- the iteration guard is restored -/
  iter : st'.isIter = st.isIter
  /-- while a walker runs nothing is unlinked: the chain only grows at its two ends -/
  keysIter : st.isIter = true → ∃ P A, keys st'.list = P ++ keys st.list ++ A
  /-- occurrence numbers are handed out in increasing order -/
  occMono : st.nextOcc ≤ st'.nextOcc
  /-- the trace only grows, and what is recorded meanwhile belongs to this task's occurrence or to later ones -/
  logExt : ∃ seg, st'.log = seg ++ st.log ∧ ∀ e ∈ seg, EvOcc own st.nextOcc e
  /-- the harness's slot table only grows -/
  slotsExt : ∃ ext, st'.slotIds = st.slotIds ++ ext
  /-- reference accounting -/
  life : Life st st'

theorem Step.mem_keys {own : Option Nat × Option Nat} {st st' : St} (s : Step own st st') (hi : st.isIter = true) {k : Nat}
    (hk : k ∈ keys st.list) : k ∈ keys st'.list := by
  obtain ⟨P, A, h⟩ := s.keysIter hi
  rw [h]; simp [hk]

theorem Step.refl (own : Option Nat × Option Nat) (st : St) : Step own st st :=
  ⟨rfl, fun _ => ⟨[], [], by simp⟩, Nat.le_refl _, ⟨[], rfl, by simp⟩, ⟨[], by simp⟩, Life.refl st⟩

theorem Step.trans {own : Option Nat × Option Nat} {a b c : St} (h1 : Step own a b) (h2 : Step own b c) : Step own a c := by
  obtain ⟨s1, hs1, hf1⟩ := h1.logExt
  obtain ⟨s2, hs2, hf2⟩ := h2.logExt
  obtain ⟨e1, he1⟩ := h1.slotsExt
  obtain ⟨e2, he2⟩ := h2.slotsExt
  refine ⟨h2.iter.trans h1.iter, fun hi => ?_, Nat.le_trans h1.occMono h2.occMono,
    ⟨s2 ++ s1, by rw [hs2, hs1, List.append_assoc], ?_⟩, ⟨e1 ++ e2, by rw [he2, he1, List.append_assoc]⟩,
    h1.life.trans h2.life⟩
  · obtain ⟨P1, A1, hk1⟩ := h1.keysIter hi
    obtain ⟨P2, A2, hk2⟩ := h2.keysIter (h1.iter.trans hi)
    exact ⟨P2 ++ P1, A1 ++ A2, by rw [hk2, hk1]; simp⟩
  · intro e hm
    rcases List.mem_append.1 hm with hm | hm
    · exact (hf2 e hm).mono h1.occMono
    · exact hf1 e hm

theorem Step.weaken {own own' : Option Nat × Option Nat} {a b : St} (h : Step own a b)
    (h1 : ∀ o, own.1 = some o → own'.1 = some o) (h2 : ∀ o, own.2 = some o → o = 0 ∨ own'.2 = some o) : Step own' a b := by
  obtain ⟨s, hs, hf⟩ := h.logExt
  exact ⟨h.iter, h.keysIter, h.occMono, ⟨s, hs, fun e hm => (hf e hm).weaken h1 h2⟩, h.slotsExt, h.life⟩

/-- a state change that keeps the keys and the slots and records one event -/
theorem Step.of_keys {own : Option Nat × Option Nat} {st st' : St} (hi : st'.isIter = st.isIter) (hk : keys st'.list = keys st.list)
    (ho : st.nextOcc ≤ st'.nextOcc) {e : Ev} (hlog : st'.log = e :: st.log)
    (he : EvOcc own st.nextOcc e) (hs : st'.slotIds = st.slotIds)
    (hlife : Life st st' := by exact Life.same rfl rfl rfl) : Step own st st' :=
  ⟨hi, fun _ => ⟨[], [], by simp [hk]⟩, ho, ⟨[e], by simp [hlog], fun e' hm => by
    simp only [List.mem_singleton] at hm; rw [hm]; exact he⟩, ⟨[], by simp [hs]⟩, hlife⟩

def NoDestroy (beh : Behaviour) : Prop := ∀ h n, Action.destroy ∉ (beh h n).acts

/-- Destroying the owner from inside its handlers is harmless when its emitters hold a reference while they run
    the handlers (`Owner.holdsRef`, the code since fix 4d40c98); otherwise the behaviours must not do it. -/
def Safe (own : Owner) (beh : Behaviour) : Prop := own.holdsRef = true ∨ NoDestroy beh

/-- Reference accounting: every open freeze region holds a reference (when the emitters hold references at all), and
    while a walker runs some emitter or closing region holds one more, besides the handlers' own. -/
def RefOk (own : Owner) (st : St) : Prop :=
  (st.frozenRefs = (if own.holdsRef then st.pen.freeze else 0) ∧
   -- a change is remembered only inside a frozen region: `thaw` clears the flag before it delivers the batched occurrence
   (st.pen.freeze = 0 → st.pen.changed = false)) ∧
  (own.holdsRef = true → b2n st.userRef + st.frozenRefs + b2n st.isIter ≤ st.refs)

/-- What a task needs of the state it starts in. -/
def TaskOk (own : Owner) (beh : Behaviour) (task : Task) (st : St) : Prop :=
  match task with
  | .emitter _ _ => True
  | .unref => False
  | .pen _ => True
  | .penRegion _ => True
  | .runEvent _ _ => own.holdsRef = true → b2n st.userRef + st.frozenRefs + 1 ≤ st.refs
  | .walk _ _ occ cur => st.isIter = true ∧ (∀ k, cur = some k → k ∈ keys st.list) ∧ occ < st.nextOcc
  | .unbindId id => id ≠ TOMBSTONE
  | .unbindLoopOrig _ _ => False
  | .call key fn fl occ => fn ≠ none ∧ key < st.slotIds.length ∧ ∀ h n, EvOk (Ev.enter key h n fl occ) st.log
  | .acts _ _ as => NoDestroy beh → ∀ a ∈ as, a ≠ Action.destroy
  | .destroyLoop _ => False

/-- the occurrence a task delivers for -/
def occOf : Task → Option Nat × Option Nat
  | .walk _ _ o _ => (some o, some o)
  | .call _ _ _ occ => (none, some occ)
  | _ => (none, none)

/-- tasks during which the owner may be destroyed (never under a walker) -/
def canDie : Task → Bool
  | .walk _ _ _ _ => false
  | .runEvent _ _ => false
  | _ => true

/-- What is known of a task that ended with the owner destroyed. -/
def DeadStep (st st' : St) : Prop := TraceOk st'.log ∧ ∃ seg, st'.log = seg ++ st.log

def Post (own : Owner) (task : Task) (st : St) : Res (St × Int) → Prop
  | .ok (st', _) =>
      (st'.dead = false ∧ Inv st' ∧ RefOk own st' ∧ Step (occOf task) st st') ∨
      (st'.dead = true ∧ canDie task = true ∧ st.isIter = false ∧ DeadStep st st')
  | .ub _ => False
  | .outOfFuel => True

theorem Post.alive {own : Owner} {task : Task} {st st' : St} {r : Int} (h : Post own task st (.ok (st', r)))
    (hi : st.isIter = true ∨ canDie task = false) : Inv st' ∧ RefOk own st' ∧ Step (occOf task) st st' := by
  rcases h with ⟨_, h1, h2, h3⟩ | ⟨_, hc, hni, _⟩
  · exact ⟨h1, h2, h3⟩
  · rcases hi with hi | hi
    · rw [hni] at hi; cases hi
    · rw [hc] at hi; cases hi

/-- `Inv` does not mention the handlers' reference flag. -/
theorem Inv.of_userRef {st : St} (h : Inv st) (u : Bool) : Inv { st with userRef := u } :=
  ⟨h.keysNodup, h.keysLt, h.idsUnique, h.idsPos, h.liveFn, h.tombIter, h.slotPos, h.logKeys, h.boundInfo, h.liveIff, h.trace,
    h.order, h.alive⟩

/-- RefOk only looks at the guard, the flag and the count. -/
theorem RefOk.of_eq {own : Owner} {st st' : St} (h : RefOk own st) (hi : st'.isIter = st.isIter) (hu : st'.userRef = st.userRef)
    (hr : st'.refs = st.refs) (hp : st'.pen.freeze = st.pen.freeze := by rfl) (hf : st'.frozenRefs = st.frozenRefs := by rfl)
    (hc : st'.pen.changed = st.pen.changed := by rfl) : RefOk own st' := by
  refine ⟨⟨by rw [hf, hp]; exact h.1.1, by rw [hp, hc]; exact h.1.2⟩, fun ho => ?_⟩
  rw [hu, hr, hi, hf]; exact h.2 ho

/-- `Inv` looks at the chain, the guard, the sweep flag, the slots and the trace only (and that the owner lives). -/
theorem Inv.of_same {st st' : St} (h : Inv st) (hl : st'.list = st.list) (hi : st'.isIter = st.isIter)
    (hn : st'.needsDelete = st.needsDelete) (hs : st'.slotIds = st.slotIds) (hlog : st'.log = st.log)
    (hr : 1 ≤ st'.refs) (hd : st'.dead = false) : Inv st' :=
  ⟨by rw [hl]; exact h.keysNodup, by rw [hl, hs]; exact h.keysLt, by rw [hl]; exact h.idsUnique, by rw [hl]; exact h.idsPos,
    by rw [hl]; exact h.liveFn, by rw [hl, hi, hn]; exact h.tombIter, by rw [hs]; exact h.slotPos, by rw [hlog, hs]; exact h.logKeys,
    by rw [hl, hlog]; exact h.boundInfo, by rw [hl, hlog]; exact h.liveIff, by rw [hlog]; exact h.trace,
    by rw [hl, hlog]; exact h.order, hr, hd⟩

/-- a state change that touches neither the chain nor the trace -/
theorem Step.of_same {own : Option Nat × Option Nat} {st st' : St} (hl : st'.list = st.list) (hi : st'.isIter = st.isIter)
    (hs : st'.slotIds = st.slotIds) (hlog : st'.log = st.log) (ho : st'.nextOcc = st.nextOcc) (hlife : Life st st') : Step own st st' :=
  ⟨hi, fun _ => ⟨[], [], by simp [hl]⟩, by rw [ho]; exact Nat.le_refl _, ⟨[], by simp [hlog], by simp⟩, ⟨[], by simp [hs]⟩, hlife⟩

section
variable (own : Owner) (beh : Behaviour)

/-- the handler interpreter takes no action on an owner that is gone -/
theorem exec_acts_dead {cfg : Cfg} {fuel : Nat} {self i : Nat} {as : List Action} {st : St} (hd : st.dead = true) :
    exec cfg own beh (fuel + 1) (.acts self i as) st = .ok (st, 0) := by
  cases as with
  | nil => simp [exec]
  | cons a rest => simp [exec, hd]

/-- induction hypothesis of the main theorem, for one amount of fuel -/
def Good (fuel : Nat) : Prop :=
  ∀ task st, Inv st → RefOk own st → TaskOk own beh task st → Post own task st (exec Cfg.repaired own beh fuel task st)

theorem good_runEvent {fuel : Nat} (ih : Good own beh fuel) (wf : Bool) (ev : Int) (st : St) (h : Inv st) (hro : RefOk own st)
    (hok : TaskOk own beh (.runEvent wf ev) st) :
    Post own (.runEvent wf ev) st (exec Cfg.repaired own beh (fuel + 1) (.runEvent wf ev) st) := by
  simp only [exec]
  have h1 : Inv { st with isIter := true, nextOcc := st.nextOcc + 1, log := Ev.occBegin st.nextOcc ev wf :: st.log } :=
    h.of_push ⟨rfl, rfl⟩ rfl rfl rfl rfl (by simp [Ev.key?]) (by simp [EvOk]) (fun b hb ht => ⟨rfl, (h.tombIter b hb ht).2⟩)
  have hro1 : RefOk own { st with isIter := true, nextOcc := st.nextOcc + 1, log := Ev.occBegin st.nextOcc ev wf :: st.log } :=
    ⟨hro.1, fun ho => by have := hok ho; simpa using this⟩
  have hw := ih (.walk wf ev st.nextOcc (firstOf st.list)) _ h1 hro1 ⟨rfl, fun k hk => firstOf_mem hk, Nat.lt_succ_self _⟩
  have hfires : ∀ (seg : List Ev), (∀ e ∈ seg, EvOcc (some st.nextOcc, some st.nextOcc) (st.nextOcc + 1) e) →
      ∀ e ∈ Ev.occEnd st.nextOcc :: (seg ++ [Ev.occBegin st.nextOcc ev wf]), EvOcc (none, none) st.nextOcc e := by
    intro seg hf e hm
    simp only [List.mem_cons, List.mem_append, List.not_mem_nil, or_false] at hm
    rcases hm with rfl | hm | rfl
    · trivial
    · have := hf e hm
      cases e with
      | fire k o' =>
        simp only [EvOcc] at *
        rcases this with h | h
        · exact Or.inl (by omega)
        · injection h with h; exact Or.inl (by omega)
      | leave k o' r =>
        simp only [EvOcc] at *
        rcases this with h | h | h
        · exact Or.inl h
        · exact Or.inr (Or.inl (by omega))
        · injection h with h; exact Or.inr (Or.inl (by omega))
      | _ => trivial
    · trivial
  cases hres : exec Cfg.repaired own beh fuel (.walk wf ev st.nextOcc (firstOf st.list))
      { st with isIter := true, nextOcc := st.nextOcc + 1, log := Ev.occBegin st.nextOcc ev wf :: st.log } with
  | outOfFuel => simp [Post]
  | ub w => rw [hres] at hw; exact hw.elim
  | ok p =>
    obtain ⟨st2, r⟩ := p
    rw [hres] at hw
    obtain ⟨h2, hro2, s2⟩ := hw.alive (Or.inl rfl)
    simp only
    rw [if_neg (show ¬ st2.dead = true by rw [h2.alive.2]; simp)]
    -- reference accounting for the state after the walk, with the guard restored
    have l2 : Life st st2 := s2.life
    have hlife : ∀ st3 : St, st3.refs = st2.refs → st3.dead = st2.dead → st3.userRef = st2.userRef →
        st3.pen.freeze = st2.pen.freeze → st3.frozenRefs = st2.frozenRefs → Life st st3 :=
      fun st3 e1 e2 e3 e4 e5 => l2.trans (Life.same e1 e2 e3 e4 e5)
    have hit2 : st2.isIter = true := s2.iter
    have hro3 : ∀ st3 : St, st3.refs = st2.refs → st3.userRef = st2.userRef →
        st3.pen = st2.pen → st3.frozenRefs = st2.frozenRefs → RefOk own st3 := by
      intro st3 e1 e3 e4 e5
      refine ⟨by rw [e5, e4]; exact hro2.1, fun ho => ?_⟩
      have := hro2.2 ho
      rw [hit2] at this
      rw [e1, e3, e5]
      cases st3.isIter <;> simp at this ⊢ <;> omega
    split
    · rename_i hc
      simp only [Bool.and_eq_true, Bool.not_eq_true'] at hc
      obtain ⟨seg, hseg, hfseg⟩ := s2.logExt
      refine Or.inl ⟨h2.alive.2, h2.of_sweep ⟨rfl, rfl⟩ rfl rfl rfl rfl, hro3 _ rfl rfl rfl rfl, rfl, fun hi => ?_,
        Nat.le_trans (Nat.le_succ _) s2.occMono,
        ⟨Ev.occEnd st.nextOcc :: (seg ++ [Ev.occBegin st.nextOcc ev wf]), by simp [hseg], hfires seg hfseg⟩, s2.slotsExt,
        hlife _ rfl rfl rfl rfl rfl⟩
      rw [hc.1] at hi; cases hi
    · rename_i hc
      simp only [Bool.and_eq_true, Bool.not_eq_true', not_and, Bool.not_eq_true] at hc
      obtain ⟨seg, hseg, hfseg⟩ := s2.logExt
      refine Or.inl ⟨h2.alive.2, h2.of_push ⟨rfl, rfl⟩ rfl rfl rfl rfl (by simp [Ev.key?]) (by simp [EvOk]) ?_, hro3 _ rfl rfl rfl rfl,
        rfl, fun _ => s2.keysIter rfl,
        Nat.le_trans (Nat.le_succ _) s2.occMono,
        ⟨Ev.occEnd st.nextOcc :: (seg ++ [Ev.occBegin st.nextOcc ev wf]), by simp [hseg], hfires seg hfseg⟩, s2.slotsExt,
        hlife _ rfl rfl rfl rfl rfl⟩
      intro b hb ht
      have hnd := (h2.tombIter b hb ht).2
      refine ⟨?_, hnd⟩
      cases hi : st.isIter with
      | true => rfl
      | false => rw [hc hi] at hnd; cases hnd

theorem good_call {fuel : Nat} (ih : Good own beh fuel) (key : Nat) (fn : Option Nat) (fl occ : Nat) (st : St)
    (h : Inv st) (hro : RefOk own st) (hok : TaskOk own beh (.call key fn fl occ) st) :
    Post own (.call key fn fl occ) st (exec Cfg.repaired own beh (fuel + 1) (.call key fn fl occ) st) := by
  obtain ⟨hfn, hkey, hev⟩ := hok
  cases fn with
  | none => exact absurd rfl hfn
  | some hh =>
    simp only [exec]
    have h1 : Inv { st with inv := fun x => if x = hh then st.inv hh + 1 else st.inv x,
                            log := Ev.enter key hh (st.inv hh) fl occ :: st.log } :=
      h.of_push ⟨rfl, rfl⟩ rfl rfl rfl rfl (by intro k hk; simp only [Ev.key?, Option.some.injEq] at hk; omega) (hev _ _)
        (fun b hb' ht => h.tombIter b hb' ht)
    have hro1 : RefOk own ({ st with inv := fun x => if x = hh then st.inv hh + 1 else st.inv x,
                                     log := Ev.enter key hh (st.inv hh) fl occ :: st.log } : St) := hro.of_eq rfl rfl rfl
    have hacts : TaskOk own beh (.acts key 0 (if fl / EV_DESTROY % 2 = 1 then [] else (beh hh (st.inv hh)).acts))
        { st with inv := fun x => if x = hh then st.inv hh + 1 else st.inv x,
                  log := Ev.enter key hh (st.inv hh) fl occ :: st.log } := by
      intro hb a ha
      split at ha
      · cases ha
      · intro e; subst e; exact hb _ _ ha
    have hw := ih _ _ h1 hro1 hacts
    cases hres : exec Cfg.repaired own beh fuel (.acts key 0 (if fl / EV_DESTROY % 2 = 1 then [] else (beh hh (st.inv hh)).acts))
        { st with inv := fun x => if x = hh then st.inv hh + 1 else st.inv x,
                  log := Ev.enter key hh (st.inv hh) fl occ :: st.log } with
    | outOfFuel => simp [Post]
    | ub w => rw [hres] at hw; exact hw.elim
    | ok p =>
      obtain ⟨st2, r⟩ := p
      rw [hres] at hw
      rcases hw with ⟨hd2, h2, hro2, s2⟩ | ⟨hd2, _, hni, htr, seg, hseg⟩
      · refine Or.inl ⟨hd2, h2.of_push ⟨rfl, rfl⟩ rfl rfl rfl rfl (by simp [Ev.key?]) (by simp [EvOk]) (fun b hb' ht => h2.tombIter b hb' ht),
          hro2.of_eq rfl rfl rfl, ?_⟩
        obtain ⟨seg, hseg, hfseg⟩ := s2.logExt
        refine ⟨s2.iter, s2.keysIter, s2.occMono,
          ⟨Ev.leave key occ (beh hh (st.inv hh)).ret :: (seg ++ [Ev.enter key hh (st.inv hh) fl occ]), by simp [St.push, hseg], ?_⟩,
          s2.slotsExt, s2.life.trans (Life.same rfl rfl rfl)⟩
        intro e hm
        simp only [List.mem_cons, List.mem_append, List.not_mem_nil, or_false] at hm
        rcases hm with rfl | hm | rfl
        · exact Or.inr (Or.inr rfl)
        · exact (hfseg e hm).weaken (fun o h => by cases h) (fun o h => by cases h)
        · trivial
      · -- the owner was destroyed while the handler ran: the return is recorded, nothing else happens
        refine Or.inr ⟨hd2, rfl, hni, ⟨trivial, htr⟩, Ev.leave key occ (beh hh (st.inv hh)).ret :: (seg ++ [Ev.enter key hh (st.inv hh) fl occ]), ?_⟩
        simp [St.push, hseg]

theorem good_walk {fuel : Nat} (ih : Good own beh fuel) (wf : Bool) (ev : Int) (occ : Nat) (cur : Option Nat) (st : St)
    (h : Inv st) (hro : RefOk own st) (hok : TaskOk own beh (.walk wf ev occ cur) st) :
    Post own (.walk wf ev occ cur) st (exec Cfg.repaired own beh (fuel + 1) (.walk wf ev occ cur) st) := by
  obtain ⟨hit, hcur, hocc⟩ := hok
  cases cur with
  | none => simp only [exec]; exact Or.inl ⟨h.alive.2, h, hro, Step.refl _ st⟩
  | some k =>
    have hk : k ∈ keys st.list := hcur k rfl
    obtain ⟨b, hfb⟩ := findKey_of_mem hk
    obtain ⟨hbm, hbk⟩ := findKey_some hfb
    subst hbk
    simp only [exec, hfb, repaired_skipTomb, repaired_wfOneshot, Bool.or_true, Bool.and_true, forall_const]
    split
    · rename_i hc
      obtain ⟨_, hlive⟩ := hc
      -- the state handed to the handler, and the invariant for it
      have h1 : Inv { st with
          list := if b.flags.oneshot = true then modifyKey st.list b.key (fun b => { b with id := TOMBSTONE }) else st.list,
          needsDelete := b.flags.oneshot || st.needsDelete, log := Ev.fire b.key occ :: st.log } := by
        cases ho : b.flags.oneshot with
        | true =>
          obtain ⟨id, ev', first, hm, _⟩ := h.boundInfo b hbm
          exact h.of_kill ⟨rfl, rfl⟩ hbm hlive (f := fun b => { b with id := TOMBSTONE }) (fun a => ⟨rfl, rfl, rfl⟩) (by simp) rfl rfl rfl rfl
            (not_liveAt_fire_oneshot h.trace ⟨id, ev', first, hm⟩ ho) ((h.liveIff b.key).1 ⟨b, hbm, rfl, hlive⟩) hit (by simp) rfl
        | false =>
          exact h.of_fire_keep ⟨rfl, rfl⟩ hbm hlive ho (by simp) rfl rfl (fun x hx hxt => ⟨hit, by simpa using (h.tombIter x hx hxt).2⟩)
      have hro1 : RefOk own { st with
          list := if b.flags.oneshot = true then modifyKey st.list b.key (fun b => { b with id := TOMBSTONE }) else st.list,
          needsDelete := b.flags.oneshot || st.needsDelete, log := Ev.fire b.key occ :: st.log } := hro.of_eq rfl rfl rfl
      have hkeys1 : keys (if b.flags.oneshot = true then modifyKey st.list b.key (fun b => { b with id := TOMBSTONE }) else st.list)
          = keys st.list := by
        split
        · exact keys_modifyKey _ _ _ (fun _ => rfl)
        · rfl
      have hcall : TaskOk own beh (.call b.key b.fn (if b.flags.oneshot = true then EV_FIRE + EV_UNBIND else EV_FIRE) occ)
          { st with
            list := if b.flags.oneshot = true then modifyKey st.list b.key (fun b => { b with id := TOMBSTONE }) else st.list,
            needsDelete := b.flags.oneshot || st.needsDelete, log := Ev.fire b.key occ :: st.log } := by
        refine ⟨h.liveFn b hbm hlive, h.keysLt b hbm, fun hh n => ⟨fun _ => ⟨_, rfl⟩, fun he => ?_⟩⟩
        split at he <;> simp [EV_FIRE, EV_UNBIND] at he
      have hw := ih _ _ h1 hro1 hcall
      cases hres : exec Cfg.repaired own beh fuel
          (.call b.key b.fn (if b.flags.oneshot = true then EV_FIRE + EV_UNBIND else EV_FIRE) occ)
          { st with
            list := if b.flags.oneshot = true then modifyKey st.list b.key (fun b => { b with id := TOMBSTONE }) else st.list,
            needsDelete := b.flags.oneshot || st.needsDelete, log := Ev.fire b.key occ :: st.log } with
      | outOfFuel => simp [Post]
      | ub w => rw [hres] at hw; exact hw.elim
      | ok p =>
        obtain ⟨st2, r⟩ := p
        rw [hres] at hw
        obtain ⟨h2, hro2, s2⟩ := hw.alive (Or.inl hit)
        have s02 : Step (some occ, some occ) st st2 := (Step.of_keys (st := st) (st' := { st with
            list := if b.flags.oneshot = true then modifyKey st.list b.key (fun b => { b with id := TOMBSTONE }) else st.list,
            needsDelete := b.flags.oneshot || st.needsDelete, log := Ev.fire b.key occ :: st.log }) rfl hkeys1
            (Nat.le_refl _) rfl (Or.inr rfl) rfl).trans (s2.weaken (fun o h => by cases h) (fun o h => Or.inr h))
        simp only
        split
        · exact Or.inl ⟨h2.alive.2, h2, hro2, s02⟩
        · have hk2 : b.key ∈ keys st2.list := s02.mem_keys hit hk
          cases hn : nextOf st2.list b.key with
          | none => exact absurd hk2 (nextOf_none hn)
          | some nx =>
            simp only
            have hw2 := ih (.walk wf ev occ nx) st2 h2 hro2 ⟨s02.iter.trans hit, fun k' hk' => nextOf_some_mem (hk' ▸ hn),
              Nat.lt_of_lt_of_le hocc s02.occMono⟩
            cases hres2 : exec Cfg.repaired own beh fuel (.walk wf ev occ nx) st2 with
            | outOfFuel => simp [Post]
            | ub w => rw [hres2] at hw2; exact hw2.elim
            | ok p2 =>
              obtain ⟨st3, r3⟩ := p2
              rw [hres2] at hw2
              obtain ⟨h3, hro3, s3⟩ := hw2.alive (Or.inr rfl)
              exact Or.inl ⟨h3.alive.2, h3, hro3, s02.trans s3⟩
    · cases hn : nextOf st.list b.key with
      | none => exact absurd hk (nextOf_none hn)
      | some nx =>
        simp only
        have hw2 := ih (.walk wf ev occ nx) st h hro ⟨hit, fun k' hk' => nextOf_some_mem (hk' ▸ hn), hocc⟩
        cases hres2 : exec Cfg.repaired own beh fuel (.walk wf ev occ nx) st with
        | outOfFuel => simp [Post]
        | ub w => rw [hres2] at hw2; exact hw2.elim
        | ok p2 =>
          obtain ⟨st3, r3⟩ := p2
          rw [hres2] at hw2
          obtain ⟨h3, hro3, s3⟩ := hw2.alive (Or.inr rfl)
          exact Or.inl ⟨h3.alive.2, h3, hro3, s3⟩

theorem good_unbindId {fuel : Nat} (ih : Good own beh fuel) (id : Int) (st : St) (h : Inv st) (hro : RefOk own st) (hid : id ≠ TOMBSTONE) :
    Post own (.unbindId id) st (exec Cfg.repaired own beh (fuel + 1) (.unbindId id) st) := by
  simp only [exec, repaired_notifyLast, if_true]
  cases hf : findId st.list id with
  | none => exact Or.inl ⟨h.alive.2, h, hro, Step.refl _ st⟩
  | some b =>
    obtain ⟨hbm, hbid⟩ := findId_some hf
    have hlive : b.id ≠ TOMBSTONE := by rw [hbid]; exact hid
    simp only
    have h1 : Inv { st with
        list := if (!st.isIter) = true then eraseKey st.list b.key
                else modifyKey st.list b.key (fun b => { b with id := TOMBSTONE, ev := -1, fn := none }),
        needsDelete := st.isIter || st.needsDelete, log := Ev.unbindReq b.key :: st.log } := by
      cases hi : st.isIter with
      | false => exact h.of_erase ⟨rfl, rfl⟩ hbm hlive hi (by simp) rfl rfl
      | true =>
        exact h.of_kill ⟨rfl, rfl⟩ hbm hlive (f := fun b => { b with id := TOMBSTONE, ev := -1, fn := none }) (fun a => ⟨rfl, rfl, rfl⟩)
          (by simp) rfl rfl rfl rfl (not_liveAt_req _ _) ((h.liveIff b.key).1 ⟨b, hbm, rfl, hlive⟩) rfl (by simp) rfl
    have hro1 : RefOk own { st with
        list := if (!st.isIter) = true then eraseKey st.list b.key
                else modifyKey st.list b.key (fun b => { b with id := TOMBSTONE, ev := -1, fn := none }),
        needsDelete := st.isIter || st.needsDelete, log := Ev.unbindReq b.key :: st.log } := hro.of_eq rfl rfl rfl
    have s1 : Step (none, none) st { st with
        list := if (!st.isIter) = true then eraseKey st.list b.key
                else modifyKey st.list b.key (fun b => { b with id := TOMBSTONE, ev := -1, fn := none }),
        needsDelete := st.isIter || st.needsDelete, log := Ev.unbindReq b.key :: st.log } := by
      refine ⟨rfl, fun hi => ⟨[], [], ?_⟩, Nat.le_refl _, ⟨[Ev.unbindReq b.key], rfl, by simp [EvOcc]⟩, ⟨[], by simp⟩, Life.same rfl rfl rfl⟩
      simp only [hi, Bool.not_true, Bool.false_eq_true, if_false]
      have hkk := keys_modifyKey st.list b.key (fun b : Node => { b with id := TOMBSTONE, ev := -1, fn := none }) (fun _ => rfl)
      rw [hkk]; simp
    cases hu : b.flags.unbind with
    | false => simp only [Bool.false_eq_true, if_false]; exact Or.inl ⟨h1.alive.2, h1, hro1, s1⟩
    | true =>
      simp only [if_true]
      cases hfn : b.fn with
      | none => simp only; exact Or.inl ⟨h1.alive.2, h1, hro1, s1⟩
      | some hh =>
        simp only
        have hcall : TaskOk own beh (.call b.key (some hh) EV_UNBIND 0) { st with
            list := if (!st.isIter) = true then eraseKey st.list b.key
                    else modifyKey st.list b.key (fun b => { b with id := TOMBSTONE, ev := -1, fn := none }),
            needsDelete := st.isIter || st.needsDelete, log := Ev.unbindReq b.key :: st.log } := by
          refine ⟨by simp, h.keysLt b hbm, fun _ _ => ⟨fun ho => by simp [EV_UNBIND] at ho, fun _ => ?_⟩⟩
          obtain ⟨id', ev', first, hm, _⟩ := h.boundInfo b hbm
          exact ⟨_, b.flags, rfl, ⟨id', ev', first, List.mem_cons_of_mem _ hm⟩, hu⟩
        have hw := ih _ _ h1 hro1 hcall
        cases hres : exec Cfg.repaired own beh fuel (.call b.key (some hh) EV_UNBIND 0) { st with
            list := if (!st.isIter) = true then eraseKey st.list b.key
                    else modifyKey st.list b.key (fun b => { b with id := TOMBSTONE, ev := -1, fn := none }),
            needsDelete := st.isIter || st.needsDelete, log := Ev.unbindReq b.key :: st.log } with
        | outOfFuel => simp [Post]
        | ub w => rw [hres] at hw; exact hw.elim
        | ok p =>
          obtain ⟨st2, r⟩ := p
          rw [hres] at hw
          rcases hw with ⟨hd2, h2, hro2, s2⟩ | ⟨hd2, _, hni, htr, seg, hseg⟩
          · exact Or.inl ⟨hd2, h2, hro2, s1.trans (s2.weaken (fun o h => h) (fun o h => by injection h with h; exact Or.inl h.symm))⟩
          · exact Or.inr ⟨hd2, rfl, hni, htr, seg ++ [Ev.unbindReq b.key], by simp [hseg]⟩

theorem slotIds_ne_tomb {st : St} (h : Inv st) {slot : Nat} {id : Int} (hs : st.slotIds[slot]? = some id) : id ≠ TOMBSTONE := by
  have := h.slotPos id (List.mem_of_getElem? hs)
  simp [TOMBSTONE]; omega

/-- `tickit_pen_unref` / `tickit_term_unref` when no walker runs (or when another reference remains). -/
theorem unref_post {fuel : Nat} (hs : Safe own beh) {st : St} (h : Inv st) (hro : RefOk own st)
    (hsafe : st.isIter = true → 2 ≤ st.refs) :
    match exec Cfg.repaired own beh (fuel + 1) .unref st with
    | .ok (st', _) =>
        (st'.dead = false ∧ 2 ≤ st.refs ∧ st' = { st with refs := st.refs - 1 }) ∨
        (st'.dead = true ∧ st.isIter = false ∧ TraceOk st'.log ∧ ∃ seg, st'.log = seg ++ st.log)
    | .ub _ => False
    | .outOfFuel => True := by
  have hd := h.alive.2
  have hr := h.alive.1
  simp only [exec]
  rw [if_neg (show ¬ ((st.dead || st.refs == 0) = true) by rw [hd]; simp; omega)]
  by_cases h1 : st.refs = 1
  · rw [if_pos (by simp [h1])]
    have hni : st.isIter = false := by
      cases hi : st.isIter with
      | false => rfl
      | true => have := hsafe hi; omega
    have hnt : ∀ b ∈ st.list, b.id ≠ TOMBSTONE := by
      intro b hb ht
      have := (h.tombIter b hb ht).1
      rw [hni] at this; cases this
    have hfn : ∀ b ∈ st.list.reverse, b.fn ≠ none := fun b hb => h.liveFn b (List.mem_reverse.1 hb) (hnt b (List.mem_reverse.1 hb))
    cases hc : exec Cfg.repaired own beh fuel (.destroyLoop st.list.reverse) st with
    | outOfFuel => trivial
    | ub w => exact absurd hc (destroyLoop_noub own beh _ _ _ _ hfn)
    | ok p =>
      obtain ⟨st1, r⟩ := p
      obtain ⟨_, seg, hseg, _, hshape⟩ := destroyLoop_spec own beh _ _ _ _ _ hfn hc
      exact Or.inr ⟨rfl, hni, by simp only; rw [hseg]; exact h.trace.append_destroy hshape, seg, hseg⟩
  · rw [if_neg (by simp [h1])]
    exact Or.inl ⟨hd, by omega, rfl⟩

theorem good_acts {fuel : Nat} (hs : Safe own beh) (ih : Good own beh fuel) (self i : Nat) (as : List Action) (st : St)
    (h : Inv st) (hro : RefOk own st) (hok : TaskOk own beh (.acts self i as) st) :
    Post own (.acts self i as) st (exec Cfg.repaired own beh (fuel + 1) (.acts self i as) st) := by
  cases as with
  | nil => simp only [exec]; exact Or.inl ⟨h.alive.2, h, hro, Step.refl _ st⟩
  | cons a rest =>
    have hrest : TaskOk own beh (.acts self (i + 1) rest) st := fun hb x hx => hok hb x (List.mem_cons_of_mem _ hx)
    have h1 : Inv (st.push (Ev.actBegin i)) :=
      h.of_push ⟨rfl, rfl⟩ rfl rfl rfl rfl (by simp [Ev.key?]) (by simp [EvOk]) (fun b hb ht => h.tombIter b hb ht)
    have hro1 : RefOk own (st.push (Ev.actBegin i)) := hro.of_eq rfl rfl rfl
    have s1 : Step (none, none) st (st.push (Ev.actBegin i)) :=
      Step.of_keys rfl rfl (Nat.le_refl _) rfl trivial rfl
    -- whatever the action does, it ends in a good state; then the rest of the list runs
    have hcont : ∀ st2, Inv st2 → RefOk own st2 → Step (none, none) st st2 →
        Post own (.acts self i (a :: rest)) st (exec Cfg.repaired own beh fuel (.acts self (i + 1) rest) (st2.push Ev.actEnd)) := by
      intro st2 h2 hro2 s2
      have h3 : Inv (st2.push Ev.actEnd) :=
        h2.of_push ⟨rfl, rfl⟩ rfl rfl rfl rfl (by simp [Ev.key?]) (by simp [EvOk]) (fun b hb ht => h2.tombIter b hb ht)
      have s3 : Step (none, none) st (st2.push Ev.actEnd) :=
        s2.trans (Step.of_keys rfl rfl (Nat.le_refl _) rfl trivial rfl)
      have hw := ih (.acts self (i + 1) rest) _ h3 (hro2.of_eq rfl rfl rfl) hrest
      cases hres : exec Cfg.repaired own beh fuel (.acts self (i + 1) rest) (st2.push Ev.actEnd) with
      | outOfFuel => simp [Post]
      | ub w => rw [hres] at hw; exact hw.elim
      | ok p =>
        obtain ⟨st4, r⟩ := p
        rw [hres] at hw
        rcases hw with ⟨hd4, h4, hro4, s4⟩ | ⟨hd4, _, hni, htr, seg, hseg⟩
        · exact Or.inl ⟨hd4, h4, hro4, s3.trans s4⟩
        · obtain ⟨seg3, hseg3, _⟩ := s3.logExt
          exact Or.inr ⟨hd4, rfl, by rw [← s3.iter]; exact hni, htr, seg ++ seg3, by rw [hseg, hseg3, List.append_assoc]⟩
    -- … or with the owner destroyed: the rest of the list is skipped
    have hdead : ∀ st2 : St, st2.dead = true → st.isIter = false → TraceOk st2.log → (∃ seg, st2.log = seg ++ st.log) →
        Post own (.acts self i (a :: rest)) st (exec Cfg.repaired own beh fuel (.acts self (i + 1) rest) (st2.push Ev.actEnd)) := by
      intro st2 hd2 hni htr hseg
      cases fuel with
      | zero => simp [exec, Post]
      | succ f =>
        rw [exec_acts_dead own beh (show (st2.push Ev.actEnd).dead = true from hd2)]
        obtain ⟨seg, hseg⟩ := hseg
        exact Or.inr ⟨hd2, rfl, hni, ⟨trivial, htr⟩, Ev.actEnd :: seg, by simp [St.push, hseg]⟩
    -- an action that is a task
    have htask : ∀ task, occOf task = (none, none) → TaskOk own beh task (st.push (Ev.actBegin i)) →
        Post own (.acts self i (a :: rest)) st (match exec Cfg.repaired own beh fuel task (st.push (Ev.actBegin i)) with
          | .ok (st2, _) => exec Cfg.repaired own beh fuel (.acts self (i + 1) rest) (st2.push Ev.actEnd)
          | e => e) := by
      intro task hocc htok
      have hw := ih task _ h1 hro1 htok
      cases hres : exec Cfg.repaired own beh fuel task (st.push (Ev.actBegin i)) with
      | outOfFuel => simp [Post]
      | ub w => rw [hres] at hw; exact hw.elim
      | ok p =>
        obtain ⟨st2, r⟩ := p
        rw [hres] at hw
        rcases hw with ⟨hd2, h2, hro2, s2⟩ | ⟨hd2, _, hni, htr, seg, hseg⟩
        · rw [hocc] at s2
          exact hcont st2 h2 hro2 (s1.trans s2)
        · exact hdead st2 hd2 hni htr ⟨seg ++ [Ev.actBegin i], by simp [hseg, St.push]⟩
    have hnd : st.dead = false := h.alive.2
    cases a with
    | bind ev first flags hh =>
      simp only [exec, hnd, Bool.false_eq_true, if_false]
      refine hcont _ (h1.of_bind ev first flags hh) (hro1.of_eq rfl rfl rfl)
        (s1.trans ⟨rfl, fun _ => ?_, Nat.le_refl _, ⟨[_], rfl, by simp [EvOcc]⟩, ⟨[_], rfl⟩, Life.same rfl rfl rfl⟩)
      simp only [bindEvent]
      split
      · exact ⟨[st.slotIds.length], [], by simp [St.push]⟩
      · exact ⟨[], [st.slotIds.length], by simp [St.push]⟩
    | unbind slot =>
      simp only [exec, hnd, Bool.false_eq_true, if_false]
      cases hsl : (st.push (Ev.actBegin i)).slotIds[slot]? with
      | none => simp only; exact hcont _ h1 hro1 s1
      | some id => simp only; exact htask (.unbindId id) rfl (slotIds_ne_tomb h1 hsl)
    | unbindSelf =>
      simp only [exec, hnd, Bool.false_eq_true, if_false]
      cases hsl : (st.push (Ev.actBegin i)).slotIds[self]? with
      | none => simp only; exact hcont _ h1 hro1 s1
      | some id => simp only; exact htask (.unbindId id) rfl (slotIds_ne_tomb h1 hsl)
    | emit ev =>
      simp only [exec, hnd, Bool.false_eq_true, if_false]
      by_cases hc : own.canEmit ev = true
      · simp only [hc, if_true]
        cases own.penEmitFg with
        | none => exact htask (.emitter (own.wf ev) ev) rfl trivial
        | some n => exact htask (.pen [.setCol n]) rfl trivial
      · simp only [hc]; exact hcont _ h1 hro1 s1
    | pen op =>
      simp only [exec, hnd, Bool.false_eq_true, if_false]
      cases op.isRegion with
      | true => simp only [if_true]; exact htask (.penRegion op.body) rfl trivial
      | false => simp only [Bool.false_eq_true, if_false]; exact htask (.pen op.body) rfl trivial
    | destroy =>
      -- the handlers drop their own reference (once)
      have hholds : own.holdsRef = true := by
        rcases hs with hs | hs
        · exact hs
        · exact absurd rfl (hok hs _ (List.mem_cons_self ..))
      simp only [exec, hnd, Bool.false_eq_true, if_false]
      cases hu : (st.push (Ev.actBegin i)).userRef with
      | false => simp only [Bool.false_eq_true, if_false]; exact hcont _ h1 hro1 s1
      | true =>
        simp only [if_true]
        have hu' : st.userRef = true := hu
        have h1' : Inv { st.push (Ev.actBegin i) with userRef := false } := h1.of_userRef false
        have hro1' : RefOk own { st.push (Ev.actBegin i) with userRef := false } := by
          refine ⟨hro.1, fun ho => ?_⟩
          have := hro.2 ho
          rw [hu'] at this
          show b2n false + st.frozenRefs + b2n st.isIter ≤ st.refs
          simp at this ⊢; omega
        cases fuel with
        | zero => simp [exec, Post]
        | succ f =>
          have hur := unref_post own beh (fuel := f) hs h1' hro1' (by
            intro hit
            have := hro.2 hholds
            rw [hu'] at this
            have hit' : st.isIter = true := hit
            rw [hit'] at this
            show 2 ≤ st.refs
            simp at this; omega)
          cases hres : exec Cfg.repaired own beh (f + 1) .unref { st.push (Ev.actBegin i) with userRef := false } with
          | outOfFuel => simp [Post]
          | ub w => rw [hres] at hur; exact hur.elim
          | ok p =>
            obtain ⟨st2, r⟩ := p
            rw [hres] at hur
            simp only
            rcases hur with ⟨hd2, hge, heq⟩ | ⟨hd2, hni, htr, hseg⟩
            · subst heq
              have hge' : 2 ≤ st.refs := hge
              refine hcont _ (h1'.of_refs _ (by simp only [St.push]; omega)) ?_ ?_
              · refine ⟨hro.1, fun ho => ?_⟩
                have := hro.2 ho
                rw [hu'] at this
                show b2n false + st.frozenRefs + b2n st.isIter ≤ st.refs - 1
                simp at this ⊢; omega
              · refine s1.trans (Step.of_same rfl rfl rfl rfl rfl ?_)
                refine ⟨rfl, ?_, (fun hx => by cases hx), rfl, rfl⟩
                show st.refs - 1 + b2n (st.userRef && !false) = st.refs
                rw [hu']; simp; omega
            · obtain ⟨seg, hseg⟩ := hseg
              exact hdead st2 hd2 hni htr ⟨seg ++ [Ev.actBegin i], by simp [hseg, St.push]⟩

theorem good_emitter {fuel : Nat} (hs : Safe own beh) (ih : Good own beh fuel) (wf : Bool) (ev : Int) (st : St) (h : Inv st) (hro : RefOk own st) :
    Post own (.emitter wf ev) st (exec Cfg.repaired own beh (fuel + 1) (.emitter wf ev) st) := by
  simp only [exec]
  cases hh : own.holdsRef with
  | false =>
    simp only [Bool.false_eq_true, if_false]
    have hw := ih (.runEvent wf ev) st h hro (fun ho => by rw [hh] at ho; cases ho)
    cases hres : exec Cfg.repaired own beh fuel (.runEvent wf ev) st with
    | outOfFuel => simp [Post]
    | ub w => rw [hres] at hw; exact hw.elim
    | ok p =>
      obtain ⟨st2, r⟩ := p; rw [hres] at hw
      obtain ⟨h2, hro2, s2⟩ := hw.alive (Or.inr rfl)
      exact Or.inl ⟨h2.alive.2, h2, hro2, s2⟩
  | true =>
    simp only [if_true]
    have hacc := hro.2 hh
    have h1 : Inv { st with refs := st.refs + 1 } := h.of_refs _ (by omega)
    have hro1 : RefOk own { st with refs := st.refs + 1 } := by
      refine ⟨hro.1, fun _ => ?_⟩
      show b2n st.userRef + st.frozenRefs + b2n st.isIter ≤ st.refs + 1
      omega
    have hok1 : TaskOk own beh (.runEvent wf ev) { st with refs := st.refs + 1 } := by
      intro _
      show b2n st.userRef + st.frozenRefs + 1 ≤ st.refs + 1
      omega
    have hw := ih (.runEvent wf ev) _ h1 hro1 hok1
    cases hres : exec Cfg.repaired own beh fuel (.runEvent wf ev) { st with refs := st.refs + 1 } with
    | outOfFuel => simp [Post]
    | ub w => rw [hres] at hw; exact hw.elim
    | ok p =>
      obtain ⟨st2, r⟩ := p
      rw [hres] at hw
      obtain ⟨h2, hro2, s2⟩ := hw.alive (Or.inr rfl)
      simp only
      obtain ⟨_, hrefs, hmono, hpf, hfr⟩ := s2.life
      simp only at hrefs hmono hpf hfr
      cases fuel with
      | zero => simp [exec] at hres
      | succ f =>
        -- the emitter drops its reference: the owner dies here iff the handlers dropped theirs and nothing else holds it
        have hur := unref_post own beh (fuel := f) hs h2 hro2 (by
          intro hit
          have hit0 : st.isIter = true := by rw [← s2.iter]; exact hit
          rw [hit0] at hacc
          have hrefs' : st2.refs + b2n (st.userRef && !st2.userRef) = st.refs + 1 := hrefs
          cases hu1 : st.userRef <;> cases hu2 : st2.userRef <;> simp [hu1, hu2] at hacc hrefs' hmono <;> omega)
        cases hres2 : exec Cfg.repaired own beh (f + 1) .unref st2 with
        | outOfFuel => simp [Post]
        | ub w => rw [hres2] at hur; exact hur.elim
        | ok p2 =>
          obtain ⟨st3, r3⟩ := p2
          rw [hres2] at hur
          simp only
          rcases hur with ⟨hd3, hge, heq⟩ | ⟨hd3, hni, htr, seg, hseg⟩
          · subst heq
            refine Or.inl ⟨h2.alive.2, h2.of_refs _ (by omega), ?_, s2.iter, s2.keysIter, s2.occMono, s2.logExt, s2.slotsExt, ?_⟩
            · refine ⟨hro2.1, fun _ => ?_⟩
              have hi2 : st2.isIter = st.isIter := s2.iter
              have hrefs' : st2.refs + b2n (st.userRef && !st2.userRef) = st.refs + 1 := hrefs
              have hfr' : st2.frozenRefs = st.frozenRefs := hfr
              show b2n st2.userRef + st2.frozenRefs + b2n st2.isIter ≤ st2.refs - 1
              rw [hi2, hfr']
              cases hu1 : st.userRef <;> cases hu2 : st2.userRef <;> simp [hu1, hu2] at hacc hrefs' hmono ⊢ <;> omega
            · refine ⟨s2.life.1, ?_, hmono, hpf, hfr⟩
              have hrefs' : st2.refs + b2n (st.userRef && !st2.userRef) = st.refs + 1 := hrefs
              show st2.refs - 1 + b2n (st.userRef && !st2.userRef) = st.refs
              omega
          · obtain ⟨seg2, hseg2, _⟩ := s2.logExt
            exact Or.inr ⟨hd3, rfl, by rw [← s2.iter]; exact hni, htr, seg ++ seg2, by rw [hseg, hseg2, List.append_assoc]⟩

theorem exec_pen_dead {cfg : Cfg} {fuel : Nat} {steps : List PenStep} {st : St} (hd : st.dead = true) :
    exec cfg own beh (fuel + 1) (.pen steps) st = .ok (st, 0) := by
  cases steps with
  | nil => simp [exec]
  | cons a rest => simp [exec, hd]

/-- A plain sequence of pen statements: each either emits at once (through an emitter), or is remembered, or opens a
    freeze..thaw region of its own. -/
theorem good_pen {fuel : Nat} (ih : Good own beh fuel) (steps : List PenStep) (st : St) (h : Inv st) (hro : RefOk own st) :
    Post own (.pen steps) st (exec Cfg.repaired own beh (fuel + 1) (.pen steps) st) := by
  cases steps with
  | nil => simp only [exec]; exact Or.inl ⟨h.alive.2, h, hro, Step.refl _ st⟩
  | cons step rest =>
    have hnd : st.dead = false := h.alive.2
    -- the rest of the sequence runs in whatever state the statement leaves
    have hcont : ∀ st2, Inv st2 → RefOk own st2 → Step (none, none) st st2 →
        Post own (.pen (step :: rest)) st (exec Cfg.repaired own beh fuel (.pen rest) st2) := by
      intro st2 h2 hro2 s2
      have hw := ih (.pen rest) st2 h2 hro2 trivial
      cases hres : exec Cfg.repaired own beh fuel (.pen rest) st2 with
      | outOfFuel => simp [Post]
      | ub w => rw [hres] at hw; exact hw.elim
      | ok p =>
        obtain ⟨st4, r⟩ := p
        rw [hres] at hw
        rcases hw with ⟨hd4, h4, hro4, s4⟩ | ⟨hd4, _, hni, htr, seg, hseg⟩
        · exact Or.inl ⟨hd4, h4, hro4, s2.trans s4⟩
        · obtain ⟨seg2, hseg2, _⟩ := s2.logExt
          exact Or.inr ⟨hd4, rfl, by rw [← s2.iter]; exact hni, htr, seg ++ seg2, by rw [hseg, hseg2, List.append_assoc]⟩
    have htask : ∀ (task : Task) (st1 : St), occOf task = (none, none) → Inv st1 → RefOk own st1 → Step (none, none) st st1 →
        TaskOk own beh task st1 →
        Post own (.pen (step :: rest)) st (match exec Cfg.repaired own beh fuel task st1 with
          | .ok (st2, _) => exec Cfg.repaired own beh fuel (.pen rest) st2
          | e => e) := by
      intro task st1 hocc h1 hro1 s1 htok
      have hw := ih task st1 h1 hro1 htok
      cases hres : exec Cfg.repaired own beh fuel task st1 with
      | outOfFuel => simp [Post]
      | ub w => rw [hres] at hw; exact hw.elim
      | ok p =>
        obtain ⟨st2, r⟩ := p
        rw [hres] at hw
        rcases hw with ⟨hd2, h2, hro2, s2⟩ | ⟨hd2, _, hni, htr, seg, hseg⟩
        · rw [hocc] at s2
          exact hcont st2 h2 hro2 (s1.trans s2)
        · simp only
          cases fuel with
          | zero => simp [exec, Post]
          | succ f =>
            rw [exec_pen_dead own beh hd2]
            obtain ⟨seg1, hseg1, _⟩ := s1.logExt
            exact Or.inr ⟨hd2, rfl, by rw [← s1.iter]; exact hni, htr, seg ++ seg1, by rw [hseg, hseg1, List.append_assoc]⟩
    -- a change of the pen's attributes only
    have hpen : ∀ p : PenSt, p.freeze = st.pen.freeze → (p.freeze = 0 → p.changed = false) →
        Inv { st with pen := p } ∧ RefOk own { st with pen := p } ∧ Step (none, none) st { st with pen := p } := by
      intro p hp hpc
      refine ⟨h.of_same rfl rfl rfl rfl rfl h.alive.1 h.alive.2, ⟨⟨?_, hpc⟩, hro.2⟩,
        Step.of_same rfl rfl rfl rfl rfl (Life.same rfl rfl rfl hp rfl)⟩
      show st.frozenRefs = if own.holdsRef = true then p.freeze else 0
      rw [hp]; exact hro.1.1
    -- `changed(pen)` after such a change
    have hchanged : ∀ p : PenSt, p.freeze = st.pen.freeze → p.changed = st.pen.changed →
        Post own (.pen (step :: rest)) st
          (match (if p.freeze = 0 then exec Cfg.repaired own beh fuel (.emitter false 1) { st with pen := p }
                  else .ok ({ st with pen := { p with changed := true } }, 0) : Res (St × Int)) with
           | .ok (st2, _) => exec Cfg.repaired own beh fuel (.pen rest) st2
           | e => e) := by
      intro p hp hpc
      by_cases hz : p.freeze = 0
      · rw [if_pos hz]
        obtain ⟨a, b, c⟩ := hpen p hp (fun hz' => by rw [hpc]; exact hro.1.2 (by rw [← hp]; exact hz'))
        exact htask (.emitter false 1) _ rfl a b c trivial
      · rw [if_neg hz]
        obtain ⟨a, b, c⟩ := hpen { p with changed := true } hp (fun hz' => absurd hz' hz)
        exact hcont _ a b c
    simp only [exec]
    rw [if_neg (show ¬ st.dead = true by rw [hnd]; simp)]
    cases step with
    | setBool v => exact hchanged { st.pen with bold := some v } rfl rfl
    | setCol n =>
      obtain ⟨a, b, c⟩ := hpen { st.pen with fg := some n, rgb := none } rfl hro.1.2
      exact htask (.emitter false 1) _ rfl a b c trivial
    | setRgb r =>
      simp only
      cases st.pen.fg.isSome with
      | true => simp only [if_true]; exact hchanged { st.pen with rgb := some r } rfl rfl
      | false => simp only [Bool.false_eq_true, if_false]; exact hcont st h hro (Step.refl _ st)
    | copyAttrFg t => exact htask (.penRegion (attrFgBody t)) st rfl h hro (Step.refl _ st) trivial
    | loopFg t ow =>
      simp only
      cases loopCopiesFg st.pen t ow with
      | true => simp only [if_true]; exact htask (.penRegion (attrFgBody t)) st rfl h hro (Step.refl _ st) trivial
      | false => simp only [Bool.false_eq_true, if_false]; exact hcont st h hro (Step.refl _ st)
    | loopBold t ow =>
      simp only
      cases loopCopiesBold st.pen t ow with
      | true => simp only [if_true]; exact hchanged { st.pen with bold := some (t.bold.getD false) } rfl rfl
      | false => simp only [Bool.false_eq_true, if_false]; exact hcont st h hro (Step.refl _ st)

/-- A freeze..thaw region: the reference `freeze` takes keeps the owner alive through the region's body; `thaw`
    delivers the batched occurrence (if a change was remembered and this is the outermost region) and drops the
    reference — which is where the owner may be destroyed, if the handlers dropped theirs meanwhile. -/
theorem good_penRegion {fuel : Nat} (hs : Safe own beh) (ih : Good own beh fuel) (body : List PenStep) (st : St) (h : Inv st)
    (hro : RefOk own st) :
    Post own (.penRegion body) st (exec Cfg.repaired own beh (fuel + 1) (.penRegion body) st) := by
  have hnd : st.dead = false := h.alive.2
  simp only [exec]
  rw [if_neg (show ¬ st.dead = true by rw [hnd]; simp)]
  have h1 : Inv { st with
      pen := { st.pen with freeze := st.pen.freeze + 1 },
      refs := if own.holdsRef then st.refs + 1 else st.refs,
      frozenRefs := if own.holdsRef then st.frozenRefs + 1 else st.frozenRefs } :=
    h.of_same rfl rfl rfl rfl rfl (by have := h.alive.1; simp only; split <;> omega) hnd
  have hro1 : RefOk own { st with
      pen := { st.pen with freeze := st.pen.freeze + 1 },
      refs := if own.holdsRef then st.refs + 1 else st.refs,
      frozenRefs := if own.holdsRef then st.frozenRefs + 1 else st.frozenRefs } := by
    have e := hro.1.1
    refine ⟨⟨?_, fun hz => by simp at hz⟩, fun ho => ?_⟩
    · show (if own.holdsRef = true then st.frozenRefs + 1 else st.frozenRefs) = if own.holdsRef = true then st.pen.freeze + 1 else 0
      cases hh : own.holdsRef <;> simp [hh] at e ⊢ <;> omega
    · have := hro.2 ho
      show b2n st.userRef + (if own.holdsRef = true then st.frozenRefs + 1 else st.frozenRefs) + b2n st.isIter
        ≤ if own.holdsRef = true then st.refs + 1 else st.refs
      simp only [ho, if_true]; omega
  have hw := ih (.pen body) _ h1 hro1 trivial
  cases hres : exec Cfg.repaired own beh fuel (.pen body) { st with
      pen := { st.pen with freeze := st.pen.freeze + 1 },
      refs := if own.holdsRef then st.refs + 1 else st.refs,
      frozenRefs := if own.holdsRef then st.frozenRefs + 1 else st.frozenRefs } with
  | outOfFuel => simp [Post]
  | ub w => rw [hres] at hw; exact hw.elim
  | ok p =>
    obtain ⟨st2, r2⟩ := p
    rw [hres] at hw
    simp only
    rcases hw with ⟨hd2, h2, hro2, s2⟩ | ⟨hd2, _, hni, htr, seg, hseg⟩
    · rw [if_neg (show ¬ st2.dead = true by rw [hd2]; simp)]
      obtain ⟨_, hr12, hu12, hp12, hf12⟩ := s2.life
      have hr12 : st2.refs + b2n (st.userRef && !st2.userRef) = if own.holdsRef = true then st.refs + 1 else st.refs := hr12
      have hu12 : st2.userRef = true → st.userRef = true := hu12
      have hp12 : st2.pen.freeze = st.pen.freeze + 1 := hp12
      have hf12 : st2.frozenRefs = if own.holdsRef = true then st.frozenRefs + 1 else st.frozenRefs := hf12
      have hi2 : st2.isIter = st.isIter := s2.iter
      -- the state `thaw` continues in, whether or not it delivers the batched occurrence
      have hthaw : ∀ (c : Bool) (st3 : St), (st2.pen.freeze = 1 → c = false) →
          st3 = ({ st2 with pen := { st2.pen with freeze := st2.pen.freeze - 1, changed := c }
                            frozenRefs := if own.holdsRef then st2.frozenRefs - 1 else st2.frozenRefs } : St) →
          Inv st3 ∧ RefOk own st3 ∧ TaskOk own beh (.runEvent false 1) st3 := by
        intro c st3 hcz he
        subst he
        refine ⟨h2.of_same rfl rfl rfl rfl rfl h2.alive.1 h2.alive.2, ⟨⟨?_, fun hz => hcz (by
          have hz' : st2.pen.freeze - 1 = 0 := hz
          omega)⟩, fun ho => ?_⟩, fun ho => ?_⟩
        · have e := hro2.1.1
          show (if own.holdsRef = true then st2.frozenRefs - 1 else st2.frozenRefs) = if own.holdsRef = true then st2.pen.freeze - 1 else 0
          cases hh : own.holdsRef <;> simp [hh] at e ⊢ <;> omega
        · have := hro2.2 ho
          show b2n st2.userRef + (if own.holdsRef = true then st2.frozenRefs - 1 else st2.frozenRefs) + b2n st2.isIter ≤ st2.refs
          simp only [ho, if_true] at hf12 ⊢; omega
        · have := hro2.2 ho
          show b2n st2.userRef + (if own.holdsRef = true then st2.frozenRefs - 1 else st2.frozenRefs) + 1 ≤ st2.refs
          simp only [ho, if_true] at hf12 ⊢
          have : b2n st2.isIter ≤ 1 := by cases st2.isIter <;> simp
          omega
      -- what remains after the (possible) occurrence: drop the region's reference
      have hfin : ∀ st4 : St, Inv st4 → RefOk own st4 → st4.isIter = st.isIter →
          (st.isIter = true → ∃ P A, keys st4.list = P ++ keys st.list ++ A) → st.nextOcc ≤ st4.nextOcc →
          (∃ seg, st4.log = seg ++ st.log ∧ ∀ e ∈ seg, EvOcc (none, none) st.nextOcc e) →
          (∃ ext, st4.slotIds = st.slotIds ++ ext) →
          st4.refs + b2n (st.userRef && !st4.userRef) = (if own.holdsRef = true then st.refs + 1 else st.refs) →
          (st4.userRef = true → st.userRef = true) → st4.pen.freeze = st.pen.freeze → st4.frozenRefs = st.frozenRefs →
          Post own (.penRegion body) st (if own.holdsRef = true then exec Cfg.repaired own beh fuel .unref st4 else .ok (st4, 0)) := by
        intro st4 h4 hro4 hi4 hk4 ho4 hl4 hs4 hr4 hu4 hp4 hf4
        cases hh : own.holdsRef with
        | false =>
          simp only [Bool.false_eq_true, if_false]
          simp only [hh, Bool.false_eq_true, if_false] at hr4
          exact Or.inl ⟨h4.alive.2, h4, hro4, hi4, hk4, ho4, hl4, hs4, h4.alive.2.trans hnd.symm, hr4, hu4, hp4, hf4⟩
        | true =>
          simp only [if_true]
          simp only [hh, if_true] at hr4
          have hacc := hro.2 hh
          cases fuel with
          | zero => simp [exec, Post]
          | succ f =>
            have hur := unref_post own beh (fuel := f) hs h4 hro4 (by
              intro hit
              have hit0 : st.isIter = true := by rw [← hi4]; exact hit
              rw [hit0] at hacc
              cases hu1 : st.userRef <;> cases hu2 : st4.userRef <;> simp [hu1, hu2] at hacc hr4 hu4 <;> omega)
            cases hres4 : exec Cfg.repaired own beh (f + 1) .unref st4 with
            | outOfFuel => simp [Post]
            | ub w => rw [hres4] at hur; exact hur.elim
            | ok p4 =>
              obtain ⟨st5, r5⟩ := p4
              rw [hres4] at hur
              rcases hur with ⟨hd5, hge, heq⟩ | ⟨hd5, hni5, htr5, seg5, hseg5⟩
              · subst heq
                refine Or.inl ⟨h4.alive.2, h4.of_refs _ (by omega), ⟨hro4.1, fun _ => ?_⟩, hi4, hk4, ho4, hl4, hs4,
                  h4.alive.2.trans hnd.symm, ?_, hu4, hp4, hf4⟩
                · show b2n st4.userRef + st4.frozenRefs + b2n st4.isIter ≤ st4.refs - 1
                  rw [hi4, hf4]
                  cases hu1 : st.userRef <;> cases hu2 : st4.userRef <;> simp [hu1, hu2] at hacc hr4 hu4 ⊢ <;> omega
                · show st4.refs - 1 + b2n (st.userRef && !st4.userRef) = st.refs
                  omega
              · obtain ⟨seg4, hseg4, _⟩ := hl4
                exact Or.inr ⟨hd5, rfl, by rw [← hi4]; exact hni5, htr5, seg5 ++ seg4, by rw [hseg5, hseg4, List.append_assoc]⟩
      -- does `thaw` deliver the batched occurrence?
      cases hem : (decide (st2.pen.freeze = 1) && st2.pen.changed) with
      | false =>
        simp only [Bool.false_eq_true, if_false]
        obtain ⟨h3, hro3, _⟩ := hthaw st2.pen.changed _ (fun h1 => by simpa [h1] using hem) rfl
        obtain ⟨seg2, hseg2, hf2⟩ := s2.logExt
        refine hfin _ h3 hro3 hi2 s2.keysIter s2.occMono ⟨seg2, hseg2, hf2⟩ s2.slotsExt hr12 hu12 ?_ ?_
        · show st2.pen.freeze - 1 = st.pen.freeze
          omega
        · show (if own.holdsRef = true then st2.frozenRefs - 1 else st2.frozenRefs) = st.frozenRefs
          cases hh : own.holdsRef <;> simp [hh] at hf12 ⊢ <;> omega
      | true =>
        simp only [if_true]
        obtain ⟨h3, hro3, hok3⟩ := hthaw false _ (fun _ => rfl) rfl
        have hw3 := ih (.runEvent false 1) _ h3 hro3 hok3
        cases hres3 : exec Cfg.repaired own beh fuel (.runEvent false 1)
            { st2 with pen := { st2.pen with freeze := st2.pen.freeze - 1, changed := false },
                       frozenRefs := if own.holdsRef then st2.frozenRefs - 1 else st2.frozenRefs } with
        | outOfFuel => simp [Post]
        | ub w => rw [hres3] at hw3; exact hw3.elim
        | ok p3 =>
          obtain ⟨st4, r4⟩ := p3
          rw [hres3] at hw3
          obtain ⟨h4, hro4, s4⟩ := hw3.alive (Or.inr rfl)
          simp only
          obtain ⟨_, hr34, hu34, hp34, hf34⟩ := s4.life
          have hr34 : st4.refs + b2n (st2.userRef && !st4.userRef) = st2.refs := hr34
          have hu34 : st4.userRef = true → st2.userRef = true := hu34
          have hp34 : st4.pen.freeze = st2.pen.freeze - 1 := hp34
          have hf34 : st4.frozenRefs = if own.holdsRef = true then st2.frozenRefs - 1 else st2.frozenRefs := hf34
          have hi4 : st4.isIter = st2.isIter := s4.iter
          obtain ⟨seg2, hseg2, hf2⟩ := s2.logExt
          obtain ⟨seg4, hseg4, hf4⟩ := s4.logExt
          obtain ⟨e2, he2⟩ := s2.slotsExt
          obtain ⟨e4, he4⟩ := s4.slotsExt
          refine hfin st4 h4 hro4 (hi4.trans hi2) (fun hit => ?_) (Nat.le_trans s2.occMono s4.occMono)
            ⟨seg4 ++ seg2, by rw [hseg4]; simp only; rw [hseg2, List.append_assoc], ?_⟩
            ⟨e2 ++ e4, by rw [he4]; simp only; rw [he2, List.append_assoc]⟩ ?_ (fun hx => hu12 (hu34 hx)) ?_ ?_
          · obtain ⟨P1, A1, hk1⟩ := s2.keysIter hit
            obtain ⟨P2, A2, hk2⟩ := s4.keysIter (hi2.trans hit)
            exact ⟨P2 ++ P1, A1 ++ A2, by rw [hk2]; simp only; rw [hk1]; simp⟩
          · intro e hm
            rcases List.mem_append.1 hm with hm | hm
            · exact (hf4 e hm).mono s2.occMono
            · exact hf2 e hm
          · cases hu1 : st.userRef <;> cases hu2 : st2.userRef <;> cases hu4 : st4.userRef <;>
              simp [hu1, hu2, hu4] at hr12 hr34 hu12 hu34 ⊢ <;> omega
          · omega
          · cases hh : own.holdsRef <;> simp [hh] at hf12 hf34 ⊢ <;> omega
    · rw [if_pos hd2]
      exact Or.inr ⟨hd2, rfl, hni, htr, seg, hseg⟩

/-- **Main lemma.**  For every owner and behaviour that are `Safe` — the behaviours never drop the owner's last
    reference from inside a handler, or the owner's emitters hold a reference while they run the handlers — every task,
    every fuel: the repaired code never dereferences freed memory or a NULL function, it keeps the invariant while the
    owner lives, and the owner is never destroyed under a walker. -/
theorem exec_good (hs : Safe own beh) : ∀ fuel, Good own beh fuel := by
  intro fuel
  induction fuel with
  | zero => intro task st _ _ _; simp [exec, Post]
  | succ fuel ih =>
    intro task st h hro hok
    cases task with
    | emitter wf ev => exact good_emitter own beh hs ih wf ev st h hro
    | unref => exact hok.elim
    | pen steps => exact good_pen own beh ih steps st h hro
    | penRegion body => exact good_penRegion own beh hs ih body st h hro
    | runEvent wf ev => exact good_runEvent own beh ih wf ev st h hro hok
    | walk wf ev occ cur => exact good_walk own beh ih wf ev occ cur st h hro hok
    | unbindId id => exact good_unbindId own beh ih id st h hro hok
    | unbindLoopOrig id loc => exact hok.elim
    | call key fn fl occ => exact good_call own beh ih key fn fl occ st h hro hok
    | acts self i as => exact good_acts own beh hs ih self i as st h hro hok
    | destroyLoop rev => exact hok.elim

end


/-! ### pure trace reasoning: the clauses of the property follow from `TraceOk` -/

theorem TraceOk.suffix {a b : List Ev} (h : TraceOk (a ++ b)) : TraceOk b := by
  induction a with
  | nil => exact h
  | cons e a ih => exact ih h.2

theorem TraceOk.at {post pre : List Ev} {e : Ev} (h : TraceOk (post ++ e :: pre)) : EvOk e pre :=
  (TraceOk.suffix h).1

/-- ghost delivery to binding `k` -/
def isFire (k : Nat) : Ev → Bool
  | .fire k' _ => k' == k
  | _ => false

/-- the handler of binding `k` is entered with `TICKIT_EV_FIRE` -/
def isEnterFire (k : Nat) : Ev → Bool
  | .enter k' _ _ fl _ => k' == k && fl % 2 == 1
  | _ => false

/-- the handler of binding `k` is entered with exactly `TICKIT_EV_UNBIND` -/
def isNotif (k : Nat) : Ev → Bool
  | .enter k' _ _ fl _ => k' == k && fl == EV_UNBIND
  | _ => false

def isReq (k : Nat) : Ev → Bool
  | .unbindReq k' => k' == k
  | _ => false

theorem countP_isFire_zero {log : List Ev} {k : Nat} (h : ¬ firedIn log k) : log.countP (isFire k) = 0 := by
  rw [List.countP_eq_zero]
  intro e he hf
  cases e <;> simp [isFire] at hf
  subst hf
  exact h ⟨_, he⟩

theorem countP_isReq_zero {log : List Ev} {k : Nat} (h : ¬ reqIn log k) : log.countP (isReq k) = 0 := by
  rw [List.countP_eq_zero]
  intro e he hf
  cases e <;> simp [isReq] at hf
  subst hf
  exact h he

theorem countP_zero_of_fresh {log : List Ev} {k : Nat} (p : Ev → Bool) (hp : ∀ e, p e = true → e.key? = some k)
    (h : ∀ e ∈ log, e.key? ≠ some k) : log.countP p = 0 := by
  rw [List.countP_eq_zero]
  intro e he hf
  exact h e he (hp e hf)

theorem isFire_key {k : Nat} (e : Ev) (h : isFire k e = true) : e.key? = some k := by
  cases e <;> simp_all [isFire, Ev.key?]

theorem isReq_key {k : Nat} (e : Ev) (h : isReq k e = true) : e.key? = some k := by
  cases e <;> simp_all [isReq, Ev.key?]

/-- **one-shot**: the walkers decide at most once to deliver to a one-shot binding. -/
theorem fire_le_one {log : List Ev} (ht : TraceOk log) {k : Nat} {fl : BFlags} (hb : boundIn log k fl)
    (ho : fl.oneshot = true) : log.countP (isFire k) ≤ 1 := by
  induction log with
  | nil => simp
  | cons e pre ih =>
    obtain ⟨he, hp⟩ := ht
    by_cases hf : isFire k e = true
    · -- the newest event is a delivery: the binding was live before it, hence not delivered before
      rw [List.countP_cons_of_pos hf]
      cases e <;> simp [isFire] at hf
      subst hf
      obtain ⟨fl', hb', _, hnf⟩ := he
      have hfl : fl' = fl := boundIn_unique hp hb' (boundIn_cons_fire.1 hb)
      subst hfl
      rw [countP_isFire_zero (hnf ho)]; omega
    · rw [List.countP_cons_of_neg hf]
      by_cases hbp : boundIn pre k fl
      · exact ih hp hbp
      · -- the newest event is the bind itself: nothing earlier mentions the binding
        obtain ⟨id, ev, first, hm⟩ := hb
        rcases List.mem_cons.1 hm with rfl | hm
        · rw [countP_zero_of_fresh (isFire k) isFire_key he.1]; omega
        · exact absurd ⟨id, ev, first, hm⟩ hbp

theorem isEnterFire_cons_fire {k k' o : Nat} : isEnterFire k (Ev.fire k' o) = false := rfl

/-- Every entry with `TICKIT_EV_FIRE` is the immediate consequence of a walker's decision. -/
theorem enterFire_le_fire_aux {log : List Ev} (ht : TraceOk log) (k : Nat) :
    log.countP (isEnterFire k) + (match log with | e :: _ => if isFire k e then 1 else 0 | [] => 0) ≤ log.countP (isFire k) := by
  induction log with
  | nil => simp
  | cons e pre ih =>
    obtain ⟨he, hp⟩ := ht
    have ih := ih hp
    by_cases hf : isFire k e = true
    · have hne : isEnterFire k e = false := by cases e <;> simp_all [isFire, isEnterFire]
      rw [List.countP_cons_of_pos hf, List.countP_cons_of_neg (by simp [hne])]
      simp only [hf, if_true]
      have : pre.countP (isEnterFire k) ≤ pre.countP (isFire k) := by
        cases pre with
        | nil => simp
        | cons x xs => simp only at ih; omega
      omega
    · rw [List.countP_cons_of_neg hf]
      simp only [hf, Bool.false_eq_true, if_false, Nat.add_zero]
      by_cases hef : isEnterFire k e = true
      · rw [List.countP_cons_of_pos hef]
        cases e <;> simp [isEnterFire] at hef
        obtain ⟨hk, hodd⟩ := hef
        subst hk
        obtain ⟨pre', hpre'⟩ := he.1 hodd
        subst hpre'
        simp only [isFire, beq_self_eq_true, if_true] at ih
        exact ih
      · rw [List.countP_cons_of_neg hef]
        cases pre with
        | nil => simp
        | cons x xs => simp only at ih; omega

theorem enterFire_le_fire {log : List Ev} (ht : TraceOk log) (k : Nat) :
    log.countP (isEnterFire k) ≤ log.countP (isFire k) := by
  have := enterFire_le_fire_aux ht k
  omega

/-- A request to unbind hits a live binding, so a binding is requested at most once. -/
theorem req_le_one {log : List Ev} (ht : TraceOk log) (k : Nat) : log.countP (isReq k) ≤ 1 := by
  induction log with
  | nil => simp
  | cons e pre ih =>
    obtain ⟨he, hp⟩ := ht
    by_cases hf : isReq k e = true
    · rw [List.countP_cons_of_pos hf]
      cases e <;> simp [isReq] at hf
      subst hf
      obtain ⟨_, _, hnr, _⟩ := he
      rw [countP_isReq_zero hnr]; omega
    · rw [List.countP_cons_of_neg hf]; exact ih hp

theorem notif_le_req_aux {log : List Ev} (ht : TraceOk log) (k : Nat) :
    log.countP (isNotif k) + (match log with | e :: _ => if isReq k e then 1 else 0 | [] => 0) ≤ log.countP (isReq k) := by
  induction log with
  | nil => simp
  | cons e pre ih =>
    obtain ⟨he, hp⟩ := ht
    have ih := ih hp
    by_cases hf : isReq k e = true
    · have hne : isNotif k e = false := by cases e <;> simp_all [isReq, isNotif]
      rw [List.countP_cons_of_pos hf, List.countP_cons_of_neg (by simp [hne])]
      simp only [hf, if_true]
      have : pre.countP (isNotif k) ≤ pre.countP (isReq k) := by
        cases pre with
        | nil => simp
        | cons x xs => simp only at ih; omega
      omega
    · rw [List.countP_cons_of_neg hf]
      simp only [hf, Bool.false_eq_true, if_false, Nat.add_zero]
      by_cases hef : isNotif k e = true
      · rw [List.countP_cons_of_pos hef]
        cases e <;> simp [isNotif] at hef
        obtain ⟨hk, hfl⟩ := hef
        subst hk
        obtain ⟨pre', _, hpre', _⟩ := he.2 hfl
        subst hpre'
        simp only [isReq, beq_self_eq_true, if_true] at ih
        exact ih
      · rw [List.countP_cons_of_neg hef]
        cases pre with
        | nil => simp
        | cons x xs => simp only at ih; omega

/-- Unbind notifications (`TICKIT_EV_UNBIND` alone) are never more than the unbind requests: at most one. -/
theorem notif_le_req {log : List Ev} (ht : TraceOk log) (k : Nat) : log.countP (isNotif k) ≤ log.countP (isReq k) := by
  have := notif_le_req_aux ht k
  omega

/-- … and only a binding that asked for it (`TICKIT_BIND_UNBIND`) gets one. -/
theorem notif_asked {log : List Ev} (ht : TraceOk log) {k h n occ : Nat} (hm : Ev.enter k h n EV_UNBIND occ ∈ log) :
    ∃ fl, boundIn log k fl ∧ fl.unbind = true := by
  induction log with
  | nil => cases hm
  | cons e pre ih =>
    obtain ⟨he, hp⟩ := ht
    rcases List.mem_cons.1 hm with rfl | hm
    · obtain ⟨_, fl, _, hb, hu⟩ := he.2 rfl
      exact ⟨fl, boundIn_mono hb, hu⟩
    · obtain ⟨fl, hb, hu⟩ := ih hp hm
      exact ⟨fl, boundIn_mono hb, hu⟩

/-- **never after unbind**: once binding `k` has been requested unbound, no walker delivers to it and its handler
    is never entered with `TICKIT_EV_FIRE` again. -/
theorem no_fire_after_req {post pre : List Ev} {k : Nat} (ht : TraceOk (post ++ Ev.unbindReq k :: pre)) :
    post.countP (isFire k) = 0 ∧ post.countP (isEnterFire k) = 0 := by
  have hfire : ∀ p1 p2 o, post = p1 ++ Ev.fire k o :: p2 → False := by
    intro p1 p2 o hsplit
    rw [hsplit, List.append_assoc] at ht
    have := TraceOk.at (post := p1) ht
    obtain ⟨_, _, hnr, _⟩ := this
    exact hnr (by simp [reqIn])
  have h1 : post.countP (isFire k) = 0 := by
    rw [List.countP_eq_zero]
    intro e he hf
    cases e <;> simp [isFire] at hf
    subst hf
    obtain ⟨p1, p2, hsplit⟩ := List.append_of_mem he
    exact hfire p1 p2 _ hsplit
  refine ⟨h1, ?_⟩
  rw [List.countP_eq_zero]
  intro e he hf
  cases e <;> simp [isEnterFire] at hf
  rename_i k' hh n fl occ
  obtain ⟨hk, hodd⟩ := hf
  subst hk
  obtain ⟨p1, p2, hsplit⟩ := List.append_of_mem he
  rw [hsplit, List.append_assoc] at ht
  obtain ⟨pre', hpre'⟩ := (TraceOk.at (post := p1) ht).1 hodd
  cases p2 with
  | nil =>
    change Ev.unbindReq k' :: pre = Ev.fire k' occ :: pre' at hpre'
    injection hpre' with h _; cases h
  | cons x xs =>
    have hx : x = Ev.fire k' occ := by
      change x :: (xs ++ Ev.unbindReq k' :: pre) = Ev.fire k' occ :: pre' at hpre'
      injection hpre'
    exact hfire (p1 ++ [Ev.enter k' hh n fl occ]) xs occ (by rw [hsplit, hx]; simp)


/-! ### the trace of a call and of an unbind -/

section
variable (own : Owner) (beh : Behaviour)

/-- The state `unbind_event_id` hands to the notification: unlinked (or tombstoned) and recorded. -/
theorem Inv.of_unbind {st : St} (h : Inv st) {b : Node} (hbm : b ∈ st.list) (hlive : b.id ≠ TOMBSTONE) :
    Inv { st with
      list := if (!st.isIter) = true then eraseKey st.list b.key
              else modifyKey st.list b.key (fun b => { b with id := TOMBSTONE, ev := -1, fn := none }),
      needsDelete := st.isIter || st.needsDelete, log := Ev.unbindReq b.key :: st.log } := by
  cases hi : st.isIter with
  | false => exact h.of_erase ⟨rfl, rfl⟩ hbm hlive hi (by simp) rfl rfl
  | true =>
    exact h.of_kill ⟨rfl, rfl⟩ hbm hlive (f := fun b => { b with id := TOMBSTONE, ev := -1, fn := none }) (fun a => ⟨rfl, rfl, rfl⟩)
      (by simp) rfl rfl rfl rfl (not_liveAt_req _ _) ((h.liveIff b.key).1 ⟨b, hbm, rfl, hlive⟩) rfl (by simp) rfl

/-- The trace of a completed call: entry, what the handler's actions did (as long as the owner lives, all of it
    belonging to later occurrences or to notifications), return. -/
theorem exec_call_shape (hs : Safe own beh) {fuel key hh fl occ : Nat} {st st' : St} {r : Int} (h : Inv st) (hro : RefOk own st)
    (hok : TaskOk own beh (.call key (some hh) fl occ) st)
    (hex : exec Cfg.repaired own beh fuel (.call key (some hh) fl occ) st = .ok (st', r)) :
    ∃ segA, st'.log = Ev.leave key occ r :: (segA ++ Ev.enter key hh (st.inv hh) fl occ :: st.log) ∧
      (st'.dead = false → ∀ e ∈ segA, EvOcc (none, none) st.nextOcc e) := by
  cases fuel with
  | zero => simp [exec] at hex
  | succ fuel =>
    obtain ⟨_, hkey, hev⟩ := hok
    simp only [exec] at hex
    have h1 : Inv { st with inv := fun x => if x = hh then st.inv hh + 1 else st.inv x,
                            log := Ev.enter key hh (st.inv hh) fl occ :: st.log } :=
      h.of_push ⟨rfl, rfl⟩ rfl rfl rfl rfl (by intro k hk; simp only [Ev.key?, Option.some.injEq] at hk; omega) (hev _ _)
        (fun b hb' ht => h.tombIter b hb' ht)
    have hro1 : RefOk own ({ st with inv := fun x => if x = hh then st.inv hh + 1 else st.inv x,
                                     log := Ev.enter key hh (st.inv hh) fl occ :: st.log } : St) := hro.of_eq rfl rfl rfl
    have hacts : TaskOk own beh (.acts key 0 (if fl / EV_DESTROY % 2 = 1 then [] else (beh hh (st.inv hh)).acts))
        { st with inv := fun x => if x = hh then st.inv hh + 1 else st.inv x,
                  log := Ev.enter key hh (st.inv hh) fl occ :: st.log } := by
      intro hb a ha
      split at ha
      · cases ha
      · intro e; subst e; exact hb _ _ ha
    have hw := exec_good own beh hs fuel _ _ h1 hro1 hacts
    cases hres : exec Cfg.repaired own beh fuel (.acts key 0 (if fl / EV_DESTROY % 2 = 1 then [] else (beh hh (st.inv hh)).acts))
        { st with inv := fun x => if x = hh then st.inv hh + 1 else st.inv x,
                  log := Ev.enter key hh (st.inv hh) fl occ :: st.log } with
    | outOfFuel => rw [hres] at hex; simp at hex
    | ub w => rw [hres] at hex; simp at hex
    | ok p =>
      obtain ⟨st2, r2⟩ := p
      rw [hres] at hex hw
      simp only at hex
      injection hex with hex; injection hex with e1 e2
      rcases hw with ⟨hd2, _, _, s2⟩ | ⟨hd2, _, _, _, seg, hseg⟩
      · obtain ⟨seg, hseg, hf⟩ := s2.logExt
        exact ⟨seg, by rw [← e1, ← e2]; simp [St.push, hseg], fun _ => hf⟩
      · refine ⟨seg, by rw [← e1, ← e2]; simp [St.push, hseg], fun hd => ?_⟩
        rw [← e1] at hd
        simp only [St.push] at hd
        rw [hd2] at hd; cases hd

/-- A completed call has recorded the entry first. -/
theorem exec_call_log (hs : Safe own beh) {fuel key hh fl occ : Nat} {st st' : St} {r : Int} (h : Inv st) (hro : RefOk own st)
    (hok : TaskOk own beh (.call key (some hh) fl occ) st)
    (hex : exec Cfg.repaired own beh fuel (.call key (some hh) fl occ) st = .ok (st', r)) :
    ∃ seg, st'.log = seg ++ Ev.enter key hh (st.inv hh) fl occ :: st.log := by
  obtain ⟨segA, h1, _⟩ := exec_call_shape own beh hs h hro hok hex
  exact ⟨Ev.leave key occ r :: segA, by rw [h1]; simp⟩

/-- A completed `unbind_event_id` that found the live binding `b`: the request is recorded; if `b` asked
    (`TICKIT_BIND_UNBIND`) its handler was entered with `TICKIT_EV_UNBIND` right after; otherwise nothing else happened. -/
theorem exec_unbindId_log (hs : Safe own beh) {fuel : Nat} {id : Int} {st st' : St} {r : Int} {b : Node} (h : Inv st) (hro : RefOk own st)
    (hid : id ≠ TOMBSTONE) (hf : findId st.list id = some b)
    (hex : exec Cfg.repaired own beh fuel (.unbindId id) st = .ok (st', r)) :
    (b.flags.unbind = true → ∃ hh n seg, st'.log = seg ++ Ev.enter b.key hh n EV_UNBIND 0 :: Ev.unbindReq b.key :: st.log) ∧
    (b.flags.unbind = false → st'.log = Ev.unbindReq b.key :: st.log) := by
  obtain ⟨hbm, hbid⟩ := findId_some hf
  have hlive : b.id ≠ TOMBSTONE := by rw [hbid]; exact hid
  cases fuel with
  | zero => simp [exec] at hex
  | succ fuel =>
    simp only [exec, repaired_notifyLast, if_true, hf] at hex
    constructor
    · intro hu
      simp only [hu, if_true] at hex
      cases hfn : b.fn with
      | none => exact absurd hfn (h.liveFn b hbm hlive)
      | some hh =>
        simp only [hfn] at hex
        have h1 := h.of_unbind hbm hlive
        have hcall : TaskOk own beh (.call b.key (some hh) EV_UNBIND 0) { st with
            list := if (!st.isIter) = true then eraseKey st.list b.key
                    else modifyKey st.list b.key (fun b => { b with id := TOMBSTONE, ev := -1, fn := none }),
            needsDelete := st.isIter || st.needsDelete, log := Ev.unbindReq b.key :: st.log } := by
          refine ⟨by simp, h.keysLt b hbm, fun _ _ => ⟨fun ho => by simp [EV_UNBIND] at ho, fun _ => ?_⟩⟩
          obtain ⟨id', ev', first, hm, _⟩ := h.boundInfo b hbm
          exact ⟨_, b.flags, rfl, ⟨id', ev', first, List.mem_cons_of_mem _ hm⟩, hu⟩
        cases hc : exec Cfg.repaired own beh fuel (.call b.key (some hh) EV_UNBIND 0) { st with
            list := if (!st.isIter) = true then eraseKey st.list b.key
                    else modifyKey st.list b.key (fun b => { b with id := TOMBSTONE, ev := -1, fn := none }),
            needsDelete := st.isIter || st.needsDelete, log := Ev.unbindReq b.key :: st.log } with
        | outOfFuel => rw [hc] at hex; simp at hex
        | ub w => rw [hc] at hex; simp at hex
        | ok p =>
          obtain ⟨st2, r2⟩ := p
          rw [hc] at hex
          simp only at hex
          injection hex with hex; injection hex with hex _
          obtain ⟨seg, hseg⟩ := exec_call_log own beh hs h1 (hro.of_eq rfl rfl rfl) hcall hc
          exact ⟨hh, st.inv hh, seg, by rw [← hex]; exact hseg⟩
    · intro hu
      simp only [hu, Bool.false_eq_true, if_false] at hex
      injection hex with hex; injection hex with hex _
      rw [← hex]

end

/-! ### destruction from inside a handler -/

section
variable (own : Owner) (beh : Behaviour)

/-- An `unref` that destroys the owner (no walker running): every binding of the chain is live, those that asked are
    notified in reverse chain order, each once, and the chain is freed. -/
theorem unref_destroys {fuel : Nat} {st st' : St} {r : Int} (h : Inv st) (hni : st.isIter = false)
    (hex : exec Cfg.repaired own beh fuel .unref st = .ok (st', r)) (hd : st'.dead = true) :
    (∀ b ∈ st.list, b.id ≠ TOMBSTONE) ∧ st'.list = [] ∧
    ∃ seg, st'.log = seg ++ st.log ∧ enters seg = (st.list.reverse.filter asked).map (fun b => (b.key, EV_UNBIND + EV_DESTROY)) := by
  have hnt : ∀ b ∈ st.list, b.id ≠ TOMBSTONE := by
    intro b hb ht
    have := (h.tombIter b hb ht).1
    rw [hni] at this; cases this
  have hfn : ∀ b ∈ st.list.reverse, b.fn ≠ none := fun b hb => h.liveFn b (List.mem_reverse.1 hb) (hnt b (List.mem_reverse.1 hb))
  cases fuel with
  | zero => simp [exec] at hex
  | succ fuel =>
    simp only [exec] at hex
    rw [if_neg (show ¬ ((st.dead || st.refs == 0) = true) by rw [h.alive.2]; have := h.alive.1; simp; omega)] at hex
    by_cases h1 : st.refs = 1
    · rw [if_pos (by simp [h1])] at hex
      cases hc : exec Cfg.repaired own beh fuel (.destroyLoop st.list.reverse) st with
      | outOfFuel => rw [hc] at hex; simp at hex
      | ub w => rw [hc] at hex; simp at hex
      | ok p =>
        obtain ⟨st1, r1⟩ := p
        rw [hc] at hex
        simp only at hex
        injection hex with hex; injection hex with e1 _
        obtain ⟨hl, seg, hseg, hent, _⟩ := destroyLoop_spec own beh _ _ _ _ _ hfn hc
        refine ⟨hnt, by rw [← e1]; exact hl, seg, by rw [← e1]; exact hseg, hent⟩
    · rw [if_neg (by simp [h1])] at hex
      injection hex with hex; injection hex with e1 _
      rw [← e1] at hd
      simp only at hd
      rw [h.alive.2] at hd; cases hd

/-- **Deferred destruction.**  An emission (no walker running around it) of an owner whose emitters hold a reference,
    that ends with the owner destroyed: the occurrence ran to completion first — its walker returned in a state `st2`
    in which the owner lives and the invariant holds, swept, with every binding of the chain live — and only then the
    remaining bindings that asked were notified, in reverse chain order, each once. -/
theorem emitter_destroys (hs : Safe own beh) (hh : own.holdsRef = true) {fuel : Nat} {wf : Bool} {ev : Int} {st st' : St} {r : Int}
    (h : Inv st) (hro : RefOk own st) (hni : st.isIter = false)
    (hex : exec Cfg.repaired own beh fuel (.emitter wf ev) st = .ok (st', r)) (hd : st'.dead = true) :
    ∃ st2 fuel', exec Cfg.repaired own beh fuel' (.runEvent wf ev) { st with refs := st.refs + 1 } = .ok (st2, r) ∧
      Inv st2 ∧ st2.isIter = false ∧ (∀ b ∈ st2.list, b.id ≠ TOMBSTONE) ∧ st'.list = [] ∧
      ∃ seg, st'.log = seg ++ st2.log ∧
        enters seg = (st2.list.reverse.filter asked).map (fun b => (b.key, EV_UNBIND + EV_DESTROY)) := by
  cases fuel with
  | zero => simp [exec] at hex
  | succ fuel =>
    simp only [exec, hh, if_true] at hex
    have h1 : Inv { st with refs := st.refs + 1 } := h.of_refs _ (by omega)
    have hacc := hro.2 hh
    have hro1 : RefOk own { st with refs := st.refs + 1 } := by
      refine ⟨hro.1, fun _ => ?_⟩
      show b2n st.userRef + st.frozenRefs + b2n st.isIter ≤ st.refs + 1
      omega
    have hok1 : TaskOk own beh (.runEvent wf ev) { st with refs := st.refs + 1 } := by
      intro _
      show b2n st.userRef + st.frozenRefs + 1 ≤ st.refs + 1
      omega
    have hw := exec_good own beh hs fuel (.runEvent wf ev) _ h1 hro1 hok1
    cases hres : exec Cfg.repaired own beh fuel (.runEvent wf ev) { st with refs := st.refs + 1 } with
    | outOfFuel => rw [hres] at hex; simp at hex
    | ub w => rw [hres] at hex; simp at hex
    | ok p =>
      obtain ⟨st2, r2⟩ := p
      rw [hres] at hex hw
      obtain ⟨h2, _, s2⟩ := hw.alive (Or.inr rfl)
      simp only at hex
      cases hres2 : exec Cfg.repaired own beh fuel .unref st2 with
      | outOfFuel => rw [hres2] at hex; simp at hex
      | ub w => rw [hres2] at hex; simp at hex
      | ok p2 =>
        obtain ⟨st3, r3⟩ := p2
        rw [hres2] at hex
        simp only at hex
        injection hex with hex; injection hex with e1 e2
        subst e1; subst e2
        have hni2 : st2.isIter = false := s2.iter.trans hni
        obtain ⟨hnt, hl, seg, hseg, hent⟩ := unref_destroys own beh h2 hni2 hres2 hd
        exact ⟨st2, fuel, hres, h2, hni2, hnt, hl, seg, hseg, hent⟩

end

/-! ### a pen operation that changes nothing is not an occurrence -/

section
variable (own : Owner) (beh : Behaviour)

theorem exec_pen_nil {cfg : Cfg} {fuel : Nat} {st st2 : St} {r : Int}
    (hex : exec cfg own beh fuel (.pen []) st = .ok (st2, r)) : st2 = st := by
  cases fuel with
  | zero => simp [exec] at hex
  | succ f => simp only [exec] at hex; injection hex with hex; injection hex with e _; exact e.symm

theorem exec_pen_loopBold_skip {cfg : Cfg} {fuel : Nat} {st st2 : St} {r : Int} {t : Tmpl} {ow : Bool}
    (hbd : loopCopiesBold st.pen t ow = false)
    (hex : exec cfg own beh fuel (.pen [.loopBold t ow]) st = .ok (st2, r)) : st2 = st := by
  cases fuel with
  | zero => simp [exec] at hex
  | succ f =>
    simp only [exec] at hex
    split at hex
    · injection hex with hex; injection hex with e _; exact e.symm
    · rw [hbd] at hex
      simp only [Bool.false_eq_true, if_false] at hex
      exact exec_pen_nil own beh hex

theorem exec_pen_loops_skip {cfg : Cfg} {fuel : Nat} {st st2 : St} {r : Int} {t : Tmpl} {ow : Bool}
    (hfg : loopCopiesFg st.pen t ow = false) (hbd : loopCopiesBold st.pen t ow = false)
    (hex : exec cfg own beh fuel (.pen [.loopFg t ow, .loopBold t ow]) st = .ok (st2, r)) : st2 = st := by
  cases fuel with
  | zero => simp [exec] at hex
  | succ f =>
    simp only [exec] at hex
    split at hex
    · injection hex with hex; injection hex with e _; exact e.symm
    · rw [hfg] at hex
      simp only [Bool.false_eq_true, if_false] at hex
      exact exec_pen_loopBold_skip own beh hbd hex

theorem exec_unref_alive {cfg : Cfg} {fuel : Nat} {st st2 : St} {r : Int} (hd : st.dead = false) (hr : 2 ≤ st.refs)
    (hex : exec cfg own beh fuel .unref st = .ok (st2, r)) : st2 = { st with refs := st.refs - 1 } := by
  cases fuel with
  | zero => simp [exec] at hex
  | succ f =>
    simp only [exec] at hex
    rw [if_neg (by rw [hd]; simp; omega), if_neg (by simp; omega)] at hex
    injection hex with hex; injection hex with e _; exact e.symm

/-- `tickit_pen_copy(pen, t, overwrite)` when the pen already satisfies the template (nothing to copy): no handler is
    called and nothing is recorded — at top level, inside a handler, inside the batched occurrence of an enclosing
    region alike — because a change is only remembered inside a frozen region and `thaw` clears the flag *before* it
    delivers (`RefOk`'s third clause).  The owner lives on and its chain is untouched. -/
theorem region_nothing_to_copy {fuel : Nat} {st st' : St} {r : Int} {t : Tmpl} {ow : Bool} (h : Inv st) (hro : RefOk own st)
    (hfg : loopCopiesFg st.pen t ow = false) (hbd : loopCopiesBold st.pen t ow = false)
    (hex : exec Cfg.repaired own beh fuel (.penRegion [.loopFg t ow, .loopBold t ow]) st = .ok (st', r)) :
    st'.log = st.log ∧ st'.dead = false ∧ st'.list = st.list ∧ st'.pen = st.pen ∧ st'.refs = st.refs := by
  have hnd := h.alive.2
  have hr := h.alive.1
  have hpc := hro.1.2
  cases fuel with
  | zero => simp [exec] at hex
  | succ fuel =>
    simp only [exec] at hex
    rw [if_neg (by rw [hnd]; simp)] at hex
    cases hres : exec Cfg.repaired own beh fuel (.pen [.loopFg t ow, .loopBold t ow]) { st with
        pen := { st.pen with freeze := st.pen.freeze + 1 },
        refs := if own.holdsRef then st.refs + 1 else st.refs,
        frozenRefs := if own.holdsRef then st.frozenRefs + 1 else st.frozenRefs } with
    | outOfFuel => rw [hres] at hex; simp at hex
    | ub w => rw [hres] at hex; simp at hex
    | ok p =>
      obtain ⟨st2, r2⟩ := p
      rw [hres] at hex
      have e2 := exec_pen_loops_skip own beh (st := { st with
        pen := { st.pen with freeze := st.pen.freeze + 1 },
        refs := if own.holdsRef then st.refs + 1 else st.refs,
        frozenRefs := if own.holdsRef then st.frozenRefs + 1 else st.frozenRefs }) hfg hbd hres
      subst e2
      simp only at hex
      rw [if_neg (by rw [hnd]; simp)] at hex
      have hem : (decide (st.pen.freeze + 1 = 1) && st.pen.changed) = false := by
        by_cases hz : st.pen.freeze = 0
        · simp [hz, hpc hz]
        · simp [hz]
      rw [hem] at hex
      simp only [Bool.false_eq_true, if_false] at hex
      cases hh : own.holdsRef with
      | false =>
        simp only [hh, Bool.false_eq_true, if_false] at hex
        injection hex with hex; injection hex with e1 _
        rw [← e1]; simp [hnd]
      | true =>
        simp only [hh, if_true] at hex
        have e3 := exec_unref_alive own beh (by exact hnd) (by show 2 ≤ st.refs + 1; omega) hex
        rw [e3]; simp [hnd]

end

/-! ### top level: operations and histories -/

/-- Between operations no walker runs (hence there are no tombstones: `Inv.tombIter`). -/
def Top (st : St) : Prop := Inv st ∧ st.isIter = false

theorem Top.init : Top St.init := ⟨Inv.init, rfl⟩

theorem Top.no_tombstones {st : St} (h : Top st) : ∀ b ∈ st.list, b.id ≠ TOMBSTONE := by
  intro b hb ht
  have := (h.1.tombIter b hb ht).1
  rw [h.2] at this; cases this

theorem RefOk.init (own : Owner) : RefOk own St.init := by
  refine ⟨⟨by simp [St.init], by simp [St.init]⟩, fun _ => by simp [St.init]⟩

/-- identifiers handed to `unbind` are identifiers, not the tombstone mark -/
def OpOk : Op → Prop
  | .unbindId id => id ≠ TOMBSTONE
  | _ => True

/-- After an operation: the owner lives and the invariant holds, or a handler dropped the last reference and the
    owner has been destroyed (the trace stays well formed). -/
def PostOp (own : Owner) (st : St) : Res St → Prop
  | .ok st' => (st'.dead = false ∧ Top st' ∧ RefOk own st' ∧ Step (none, none) st st') ∨ (st'.dead = true ∧ DeadStep st st')
  | .ub _ => False
  | .outOfFuel => True

section
variable (own : Owner) (beh : Behaviour)

theorem postOp_of_post {task : Task} (hocc : occOf task = (none, none)) {st : St} (hi : st.isIter = false) {r : Res (St × Int)}
    (h : Post own task st r) : PostOp own st r.dropRet := by
  cases r with
  | ok p =>
    obtain ⟨st', x⟩ := p
    rcases h with ⟨hd, h1, hr1, s⟩ | ⟨hd, _, _, ds⟩
    · rw [hocc] at s
      exact Or.inl ⟨hd, ⟨h1, s.iter.trans hi⟩, hr1, s⟩
    · exact Or.inr ⟨hd, ds⟩
  | ub w => exact h
  | outOfFuel => trivial

theorem execOp_good (hs : Safe own beh) (fuel : Nat) (op : Op) (hop : OpOk op) (hne : op ≠ .destroy) (st : St) (h : Top st)
    (hro : RefOk own st) : PostOp own st (execOp Cfg.repaired own beh fuel op st) := by
  have good := exec_good own beh hs fuel
  cases op with
  | bind ev first flags hh =>
    simp only [execOp, PostOp]
    exact Or.inl ⟨(h.1.of_bind ev first flags hh).alive.2, ⟨h.1.of_bind ev first flags hh, h.2⟩, hro.of_eq rfl rfl rfl,
      ⟨rfl, fun hi => (by rw [h.2] at hi; cases hi), Nat.le_refl _, ⟨[_], rfl, by simp [EvOcc]⟩, ⟨[_], rfl⟩, Life.same rfl rfl rfl⟩⟩
  | unbind slot =>
    simp only [execOp]
    cases hsl : st.slotIds[slot]? with
    | none => exact Or.inl ⟨h.1.alive.2, h, hro, Step.refl _ st⟩
    | some id => exact postOp_of_post own rfl h.2 (good (.unbindId id) st h.1 hro (slotIds_ne_tomb h.1 hsl))
  | unbindId id => exact postOp_of_post own rfl h.2 (good (.unbindId id) st h.1 hro hop)
  | emit ev =>
    simp only [execOp]
    by_cases hc : own.canEmit ev = true
    · simp only [hc, if_true]
      cases own.penEmitFg with
      | none => exact postOp_of_post own rfl h.2 (good (.emitter (own.wf ev) ev) st h.1 hro trivial)
      | some n => exact postOp_of_post own rfl h.2 (good (.pen [.setCol n]) st h.1 hro trivial)
    · simp only [hc]; exact Or.inl ⟨h.1.alive.2, h, hro, Step.refl _ st⟩
  | pen op =>
    simp only [execOp]
    cases op.isRegion with
    | true => simp only [if_true]; exact postOp_of_post own rfl h.2 (good (.penRegion op.body) st h.1 hro trivial)
    | false => simp only [Bool.false_eq_true, if_false]; exact postOp_of_post own rfl h.2 (good (.pen op.body) st h.1 hro trivial)
  | destroy => exact absurd rfl hne

/-- What a whole history guarantees. -/
def PostOps (own : Owner) (st : St) (ops : List Op) : Res St → Prop
  | .ok st' => TraceOk st'.log ∧ (Op.destroy ∉ ops → st'.dead = false → Top st' ∧ st.nextOcc ≤ st'.nextOcc ∧ RefOk own st')
  | .ub _ => False
  | .outOfFuel => True

theorem execOps_good (hs : Safe own beh) (fuel : Nat) : ∀ (ops : List Op) (st : St), (∀ op ∈ ops, OpOk op) → Top st →
    RefOk own st → PostOps own st ops (execOps Cfg.repaired own beh fuel ops st) := by
  intro ops
  induction ops with
  | nil => intro st _ h hro; exact ⟨h.1.trace, fun _ _ => ⟨h, Nat.le_refl _, hro⟩⟩
  | cons op rest ih =>
    intro st hops h hro
    simp only [execOps]
    by_cases hd : op = .destroy
    · subst hd
      simp only [execOp]
      have hfn : ∀ b ∈ st.list.reverse, b.fn ≠ none := fun b hb =>
        h.1.liveFn b (List.mem_reverse.1 hb) (h.no_tombstones b (List.mem_reverse.1 hb))
      cases hc : exec Cfg.repaired own beh fuel (.destroyLoop st.list.reverse) st with
      | outOfFuel => trivial
      | ub w => exact absurd hc (destroyLoop_noub own beh _ _ _ _ hfn)
      | ok p =>
        obtain ⟨st', r⟩ := p
        simp only [Res.dropRet, decide_true, Bool.true_or, if_true]
        obtain ⟨_, seg, hseg, _, hshape⟩ := destroyLoop_spec own beh _ _ _ _ _ hfn hc
        refine ⟨by rw [hseg]; exact h.1.trace.append_destroy hshape, fun hn => absurd (List.mem_cons_self ..) hn⟩
    · have hpo := execOp_good own beh hs fuel op (hops op (List.mem_cons_self ..)) hd st h hro
      cases hc : execOp Cfg.repaired own beh fuel op st with
      | outOfFuel => trivial
      | ub w => rw [hc] at hpo; exact hpo.elim
      | ok st' =>
        rw [hc] at hpo
        simp only [hd, decide_false, Bool.false_or]
        rcases hpo with ⟨hd', htop, hro', s⟩ | ⟨hd', htr, _⟩
        · rw [hd']
          simp only [Bool.false_eq_true, if_false]
          have hr := ih st' (fun o ho => hops o (List.mem_cons_of_mem _ ho)) htop hro'
          cases hc2 : execOps Cfg.repaired own beh fuel rest st' with
          | outOfFuel => trivial
          | ub w => rw [hc2] at hr; exact hr.elim
          | ok st'' =>
            rw [hc2] at hr
            refine ⟨hr.1, fun hn hal => ?_⟩
            have := hr.2 (fun hm => hn (List.mem_cons_of_mem _ hm)) hal
            exact ⟨this.1, Nat.le_trans s.occMono this.2.1, this.2.2⟩
        · rw [hd']
          simp only [if_true]
          exact ⟨htr, fun _ hal => by rw [hd'] at hal; cases hal⟩

end


/-! ### fire_order: what one occurrence delivers, and in which order -/

/-- the keys after `k` in a chain -/
def afterK (k : Nat) : List Nat → List Nat
  | [] => []
  | x :: xs => if x = k then xs else afterK k xs

/-- the part of the chain a walker standing at `cur` still has to look at -/
def chainFrom (cur : Option Nat) (ks : List Nat) : List Nat :=
  match cur with
  | none => []
  | some k => k :: afterK k ks

theorem afterK_sub {k : Nat} {ks : List Nat} : ∀ x ∈ afterK k ks, x ∈ ks := by
  induction ks with
  | nil => simp [afterK]
  | cons a t ih =>
    intro x hx
    simp only [afterK] at hx
    split at hx
    · exact List.mem_cons_of_mem _ hx
    · exact List.mem_cons_of_mem _ (ih x hx)

theorem afterK_nodup {k : Nat} {ks : List Nat} (hn : ks.Nodup) : (afterK k ks).Nodup ∧ k ∉ afterK k ks := by
  induction ks with
  | nil => simp [afterK]
  | cons a t ih =>
    simp only [List.nodup_cons] at hn
    simp only [afterK]
    split
    · rename_i hak; subst hak; exact ⟨hn.2, hn.1⟩
    · exact ih hn.2

theorem afterK_append_of_mem {k : Nat} {ks A : List Nat} (hk : k ∈ ks) : afterK k (ks ++ A) = afterK k ks ++ A := by
  induction ks with
  | nil => cases hk
  | cons a t ih =>
    simp only [List.cons_append, afterK]
    split
    · rfl
    · rename_i hak
      rcases List.mem_cons.1 hk with rfl | hk
      · exact absurd rfl hak
      · exact ih hk

theorem afterK_append_of_not_mem {k : Nat} {P ks : List Nat} (hk : k ∉ P) : afterK k (P ++ ks) = afterK k ks := by
  induction P with
  | nil => rfl
  | cons a t ih =>
    simp only [List.mem_cons, not_or] at hk
    simp only [List.cons_append, afterK]
    rw [if_neg (fun e => hk.1 e.symm)]
    exact ih hk.2

theorem afterK_infix {k : Nat} {P ks A : List Nat} (hn : (P ++ ks ++ A).Nodup) (hk : k ∈ ks) :
    afterK k (P ++ ks ++ A) = afterK k ks ++ A := by
  have hkP : k ∉ P := by
    intro hp
    rw [List.append_assoc] at hn
    exact (List.nodup_append.1 hn).2.2 k hp k (List.mem_append_left _ hk) rfl
  rw [List.append_assoc, afterK_append_of_not_mem hkP, afterK_append_of_mem hk]

theorem afterK_of_afterK_cons {k k2 : Nat} {ks t : List Nat} (hn : ks.Nodup) (h : afterK k ks = k2 :: t) : afterK k2 ks = t := by
  induction ks with
  | nil => simp [afterK] at h
  | cons a rest ih =>
    simp only [List.nodup_cons] at hn
    simp only [afterK] at h
    split at h
    · -- a = k, rest = k2 :: t
      subst h
      have : a ≠ k2 := fun e => hn.1 (by simp [e])
      simp only [afterK, if_neg this, if_true]
    · have hk2 : k2 ∈ rest := afterK_sub k2 (by rw [h]; simp)
      have : a ≠ k2 := fun e => hn.1 (e ▸ hk2)
      simp only [afterK, if_neg this]
      exact ih hn.2 h

theorem nextOf_eq {l : List Node} {k : Nat} (hk : k ∈ keys l) : nextOf l k = some ((afterK k (keys l)).head?) := by
  induction l with
  | nil => cases hk
  | cons a rest ih =>
    simp only [nextOf, keys_cons, afterK]
    split
    · cases rest <;> simp [keys]
    · rename_i hak
      simp only [keys_cons, List.mem_cons] at hk
      rcases hk with rfl | hk
      · exact absurd rfl hak
      · exact ih hk

theorem firstOf_eq (l : List Node) : firstOf l = (keys l).head? := by
  cases l <;> simp [firstOf, keys]

theorem chainFrom_head (ks : List Nat) : chainFrom ks.head? ks = ks := by
  cases ks with
  | nil => rfl
  | cons a t => simp [chainFrom, afterK]

/-- One step of the walker along a chain that meanwhile grew at its ends. -/
theorem chain_step {k : Nat} {P ks A : List Nat} (hn : (P ++ ks ++ A).Nodup) (hk : k ∈ ks)
    (hlast : afterK k ks = [] → A = []) :
    afterK k (P ++ ks ++ A) = chainFrom (afterK k ks).head? (P ++ ks ++ A) := by
  rw [afterK_infix hn hk]
  cases hak : afterK k ks with
  | nil => simp [chainFrom, hlast hak]
  | cons k2 t =>
    have hks : ks.Nodup := by
      have := (List.nodup_append.1 hn).1
      exact (List.nodup_append.1 this).2.1
    have hk2 : k2 ∈ ks := afterK_sub k2 (by rw [hak]; simp)
    simp only [List.head?_cons, chainFrom, List.cons_append]
    rw [afterK_infix hn hk2, afterK_of_afterK_cons hks hak]

theorem split_append_single {α : Type} {A : List α} {x c : α} {s2 s1 : List α} (h : A ++ [x] = s2 ++ c :: s1) :
    (s1 = [] ∧ c = x ∧ s2 = A) ∨ (∃ s1', A = s2 ++ c :: s1' ∧ s1 = s1' ++ [x]) := by
  induction A generalizing s2 with
  | nil =>
    cases s2 with
    | nil => simp at h; exact Or.inl ⟨h.2, h.1.symm, rfl⟩
    | cons b s2' =>
      simp at h
  | cons a A' ih =>
    cases s2 with
    | nil =>
      simp at h
      exact Or.inr ⟨A', by simp [h.1], h.2.symm⟩
    | cons b s2' =>
      simp at h
      rcases ih h.2 with ⟨h1, h2, h3⟩ | ⟨s1', h1, h2⟩
      · exact Or.inl ⟨h1, h2, by rw [h.1, h3]⟩
      · exact Or.inr ⟨s1', by rw [h.1, h1]; simp, h2⟩

theorem split_append_of_not_mem {α : Type} {A B : List α} {c : α} {s2 s1 : List α} (h : A ++ B = s2 ++ c :: s1) (hc : c ∉ B) :
    ∃ s1', A = s2 ++ c :: s1' ∧ s1 = s1' ++ B := by
  induction A generalizing s2 with
  | nil =>
    simp at h
    exact absurd (by rw [h]; simp) hc
  | cons a A' ih =>
    cases s2 with
    | nil =>
      simp at h
      exact ⟨A', by simp [h.1], h.2.symm⟩
    | cons b s2' =>
      simp at h
      obtain ⟨s1', h1, h2⟩ := ih h.2
      exact ⟨s1', by rw [h.1, h1]; simp, h2⟩

/-- the bindings occurrence `o` decided to deliver to, oldest first -/
def firesOf (o : Nat) (seg : List Ev) : List Nat :=
  seg.reverse.filterMap fun e => match e with
    | .fire k o' => if o' = o then some k else none
    | _ => none

theorem firesOf_append (o : Nat) (a b : List Ev) : firesOf o (a ++ b) = firesOf o b ++ firesOf o a := by
  simp [firesOf, List.filterMap_append]

theorem mem_firesOf {o k : Nat} {seg : List Ev} : k ∈ firesOf o seg ↔ Ev.fire k o ∈ seg := by
  simp only [firesOf, List.mem_filterMap, List.mem_reverse]
  constructor
  · rintro ⟨e, he, hm⟩
    cases e <;> simp at hm
    obtain ⟨rfl, rfl⟩ := hm
    exact he
  · intro h
    exact ⟨_, h, by simp⟩

theorem firesOf_eq_nil {o : Nat} {seg : List Ev} (h : ∀ k, Ev.fire k o ∉ seg) : firesOf o seg = [] := by
  apply List.eq_nil_iff_forall_not_mem.2
  intro k hk
  exact h k (mem_firesOf.1 hk)

/-- live and bound to event `ev`, read off the trace -/
def evLive (ev : Int) (log : List Ev) (k : Nat) : Prop :=
  liveAt log k ∧ ∃ id first fl, Ev.bound k id ev first fl ∈ log

/-- A binding already bound does not come back to life, nor change its event. -/
theorem evLive_mono {ev : Int} {s log : List Ev} {k : Nat} (ht : TraceOk (s ++ log)) (hb : ∃ fl, boundIn log k fl)
    (h : evLive ev (s ++ log) k) : evLive ev log k := by
  obtain ⟨fl0, id0, ev0, f0, hm0⟩ := hb
  obtain ⟨⟨fl, hbi, hnr, hnf⟩, id, first, fl', hm⟩ := h
  have hm0' : Ev.bound k id0 ev0 f0 fl0 ∈ s ++ log := List.mem_append_right _ hm0
  obtain ⟨id1, ev1, f1, hm1⟩ := hbi
  have e1 := bound_unique ht hm1 hm0'
  have e2 := bound_unique ht hm hm0'
  refine ⟨⟨fl0, ⟨id0, ev0, f0, hm0⟩, fun hr => hnr (List.mem_append_right _ hr), fun ho => ?_⟩, id0, f0, fl0, ?_⟩
  · rintro ⟨o, hf⟩
    exact hnf (by rw [e1.2.2.2]; exact ho) ⟨o, List.mem_append_right _ hf⟩
  · rw [e2.2.1]; exact hm0


theorem split_append_cases {α : Type} {A B : List α} {x : α} {s2 s1 : List α} (h : A ++ B = s2 ++ x :: s1) :
    (∃ s1', A = s2 ++ x :: s1' ∧ s1 = s1' ++ B) ∨ (∃ s2', s2 = A ++ s2' ∧ B = s2' ++ x :: s1) := by
  induction A generalizing s2 with
  | nil => exact Or.inr ⟨s2, by simp, by simpa using h⟩
  | cons a A' ih =>
    cases s2 with
    | nil =>
      simp at h
      exact Or.inl ⟨A', by simp [h.1], h.2.symm⟩
    | cons b s2' =>
      simp at h
      rcases ih h.2 with ⟨s1', h1, h2⟩ | ⟨s2'', h1, h2⟩
      · exact Or.inl ⟨s1', by rw [h.1, h1]; simp, h2⟩
      · exact Or.inr ⟨s2'', by rw [h.1, h1]; simp, h2⟩

/-- What a completed walk from `cur` has done, in terms of the trace:
    * the deliveries of this occurrence went, in chain order and at most once each, to bindings of the chain from
      `cur` on (as the chain is at the end: bindings appended meanwhile included);
    * each went to a binding that was live and bound to the event at that moment;
    * a binding of the chain that got no delivery was not live-and-bound-to-the-event at the moment any binding
      after it got one, nor — unless a handler claimed the event — at the end. -/
def WalkPost (wf : Bool) (ev : Int) (o : Nat) (cur : Option Nat) (st st' : St) (r : Int) : Prop :=
  ∃ seg, st'.log = seg ++ st.log ∧
    (firesOf o seg).Sublist (chainFrom cur (keys st'.list)) ∧
    (∀ c s1 s2, seg = s2 ++ Ev.fire c o :: s1 → evLive ev (s1 ++ st.log) c) ∧
    (∀ b ∈ chainFrom cur (keys st'.list), b ∉ firesOf o seg →
        (∀ c s1 s2, seg = s2 ++ Ev.fire c o :: s1 → c ∈ afterK b (chainFrom cur (keys st'.list)) →
            ¬ evLive ev (s1 ++ st.log) b) ∧
        (¬ (wf = true ∧ r ≠ 0) → ¬ evLive ev st'.log b)) ∧
    -- the stop-at-first-claim walker: a handler of this occurrence returning non-zero ends the walk with that value
    (∀ s2 s1 c r', seg = s2 ++ Ev.leave c o r' :: s1 → wf = true → r' ≠ 0 → s2 = [] ∧ r = r') ∧
    (r ≠ 0 → wf = true ∧ ∃ c s1, seg = Ev.leave c o r :: s1)

section
variable (own : Owner) (beh : Behaviour)

theorem walk_spec (hs : Safe own beh) : ∀ (fuel : Nat) (wf : Bool) (ev : Int) (o : Nat) (cur : Option Nat) (st st' : St) (r : Int),
    Inv st → RefOk own st → TaskOk own beh (.walk wf ev o cur) st → 0 < o →
    exec Cfg.repaired own beh fuel (.walk wf ev o cur) st = .ok (st', r) →
    WalkPost wf ev o cur st st' r := by
  intro fuel
  induction fuel with
  | zero => intro wf ev o cur st st' r _ _ _ _ hex; simp [exec] at hex
  | succ fuel ih =>
    intro wf ev o cur st st' r h hro hok hopos hex
    have hgood := exec_good own beh hs fuel
    have hwhole := exec_good own beh hs (fuel + 1) (.walk wf ev o cur) st h hro hok
    rw [hex] at hwhole
    obtain ⟨hinv', _, hstep'⟩ := hwhole.alive (Or.inr rfl)
    obtain ⟨hit, hcur, hocc⟩ := hok
    cases cur with
    | none =>
      simp only [exec] at hex
      injection hex with hex; injection hex with h1 h2; subst h1
      exact ⟨[], rfl, by simp [chainFrom, firesOf], by intro c s1 s2 hs; simp at hs, by intro b hb'; simp [chainFrom] at hb',
        by intro s2 s1 c r' hs; simp at hs, by intro hr; exact absurd h2.symm hr⟩
    | some k =>
      have hk : k ∈ keys st.list := hcur k rfl
      obtain ⟨b, hfb⟩ := findKey_of_mem hk
      obtain ⟨hbm, hbk⟩ := findKey_some hfb
      subst hbk
      obtain ⟨P, A, hinfix⟩ := hstep'.keysIter hit
      have hnodup' : (P ++ keys st.list ++ A).Nodup := by rw [← hinfix]; exact hinv'.keysNodup
      have hkchain : b.key ∉ afterK b.key (keys st'.list) := (afterK_nodup hinv'.keysNodup).2
      obtain ⟨idb, evb, firstb, hmb, hinfo⟩ := h.boundInfo b hbm
      have hbound : ∃ fl, boundIn st.log b.key fl := ⟨b.flags, idb, evb, firstb, hmb⟩
      simp only [exec, hfb, repaired_skipTomb, repaired_wfOneshot, Bool.or_true, Bool.and_true, forall_const] at hex
      split at hex
      · -- delivered
        rename_i hc
        obtain ⟨hbev, hlive⟩ := hc
        have hlive0 : evLive ev st.log b.key := by
          refine ⟨(h.liveIff b.key).1 ⟨b, hbm, rfl, hlive⟩, idb, firstb, b.flags, ?_⟩
          have := (hinfo hlive).1
          rw [← hbev, ← this]; exact hmb
        have h1 : Inv { st with
            list := if b.flags.oneshot = true then modifyKey st.list b.key (fun b => { b with id := TOMBSTONE }) else st.list,
            needsDelete := b.flags.oneshot || st.needsDelete, log := Ev.fire b.key o :: st.log } := by
          cases ho : b.flags.oneshot with
          | true =>
            exact h.of_kill ⟨rfl, rfl⟩ hbm hlive (f := fun b => { b with id := TOMBSTONE }) (fun a => ⟨rfl, rfl, rfl⟩) (by simp) rfl rfl rfl rfl
              (not_liveAt_fire_oneshot h.trace ⟨idb, evb, firstb, hmb⟩ ho) ((h.liveIff b.key).1 ⟨b, hbm, rfl, hlive⟩) hit (by simp) rfl
          | false =>
            exact h.of_fire_keep ⟨rfl, rfl⟩ hbm hlive ho (by simp) rfl rfl (fun x hx hxt => ⟨hit, by simpa using (h.tombIter x hx hxt).2⟩)
        have hkeys1 : keys (if b.flags.oneshot = true then modifyKey st.list b.key (fun b => { b with id := TOMBSTONE }) else st.list)
            = keys st.list := by
          split
          · exact keys_modifyKey _ _ _ (fun _ => rfl)
          · rfl
        have hro1 : RefOk own { st with
            list := if b.flags.oneshot = true then modifyKey st.list b.key (fun b => { b with id := TOMBSTONE }) else st.list,
            needsDelete := b.flags.oneshot || st.needsDelete, log := Ev.fire b.key o :: st.log } := hro.of_eq rfl rfl rfl
        have hcall : TaskOk own beh (.call b.key b.fn (if b.flags.oneshot = true then EV_FIRE + EV_UNBIND else EV_FIRE) o)
            { st with
              list := if b.flags.oneshot = true then modifyKey st.list b.key (fun b => { b with id := TOMBSTONE }) else st.list,
              needsDelete := b.flags.oneshot || st.needsDelete, log := Ev.fire b.key o :: st.log } := by
          refine ⟨h.liveFn b hbm hlive, h.keysLt b hbm, fun hh n => ⟨fun _ => ⟨_, rfl⟩, fun he => ?_⟩⟩
          split at he <;> simp [EV_FIRE, EV_UNBIND] at he
        have hw := hgood _ _ h1 hro1 hcall
        cases hres : exec Cfg.repaired own beh fuel
            (.call b.key b.fn (if b.flags.oneshot = true then EV_FIRE + EV_UNBIND else EV_FIRE) o)
            { st with
              list := if b.flags.oneshot = true then modifyKey st.list b.key (fun b => { b with id := TOMBSTONE }) else st.list,
              needsDelete := b.flags.oneshot || st.needsDelete, log := Ev.fire b.key o :: st.log } with
        | outOfFuel => rw [hres] at hex; simp at hex
        | ub w => rw [hres] at hex; simp at hex
        | ok p =>
          obtain ⟨st2, r2⟩ := p
          rw [hres] at hex hw
          obtain ⟨h2, hro2, s2⟩ := hw.alive (Or.inl hit)
          simp only at hex
          obtain ⟨segc, hsegc, hfc⟩ := s2.logExt
          simp only at hsegc hfc
          -- the handler's own activity contains no delivery of this occurrence
          have hnoc : ∀ c, Ev.fire c o ∉ segc := by
            intro c hm
            rcases hfc _ hm with hle | he
            · omega
            · cases he
          have hk2 : b.key ∈ keys st2.list := by
            have := s2.mem_keys (k := b.key) hit (by simp only; rw [hkeys1]; exact hk)
            exact this
          have hiter2 : st2.isIter = true := s2.iter.trans hit
          -- the shape of what the call recorded: entry, the handler's own activity, return
          obtain ⟨hh, hfn⟩ : ∃ hh, b.fn = some hh := by
            cases hf : b.fn with
            | none => exact absurd hf (h.liveFn b hbm hlive)
            | some x => exact ⟨x, rfl⟩
          have hres' := hres
          rw [hfn] at hres'
          have hcall' := hcall
          rw [hfn] at hcall'
          obtain ⟨segA, hshape, hfA⟩ := exec_call_shape own beh hs h1 hro1 hcall' hres'
          have hfA := hfA h2.alive.2
          simp only at hshape hfA
          have hsegc_shape : segc = Ev.leave b.key o r2 ::
              (segA ++ [Ev.enter b.key hh (st.inv hh) (if b.flags.oneshot = true then EV_FIRE + EV_UNBIND else EV_FIRE) o]) :=
            List.append_cancel_right (bs := Ev.fire b.key o :: st.log) (by rw [← hsegc, hshape]; simp)
          have hnol : ∀ c r', Ev.leave c o r' ∉ segA := by
            intro c r' hm
            rcases hfA _ hm with h0 | hle | he
            · omega
            · omega
            · cases he
          have hleave_tail : ∀ (t s1 : List Ev) c r',
              segA ++ [Ev.enter b.key hh (st.inv hh) (if b.flags.oneshot = true then EV_FIRE + EV_UNBIND else EV_FIRE) o] ++ [Ev.fire b.key o]
                = t ++ Ev.leave c o r' :: s1 → False := by
            intro t s1 c r' he
            have hm : Ev.leave c o r' ∈ segA ++ [Ev.enter b.key hh (st.inv hh) (if b.flags.oneshot = true then EV_FIRE + EV_UNBIND else EV_FIRE) o] ++ [Ev.fire b.key o] := by
              rw [he]; simp
            simp only [List.mem_append, List.mem_singleton, reduceCtorEq, or_false] at hm
            exact hnol c r' hm
          split at hex
          · -- a handler claimed the event: the walk stops
            rename_i hclaim
            injection hex with hex; injection hex with e1 e2; subst e1; subst e2
            simp only [Bool.and_eq_true, bne_iff_ne, ne_eq] at hclaim
            refine ⟨segc ++ [Ev.fire b.key o], by rw [hsegc]; simp, ?_, ?_, ?_, ?_, ?_⟩
            rotate_left 3
            · intro s2' s1 c r' hs _ _
              rw [hsegc_shape] at hs
              cases s2' with
              | nil =>
                simp only [List.nil_append, List.cons_append, List.cons.injEq] at hs
                injection hs.1 with _ _ he
                exact ⟨rfl, he⟩
              | cons x t =>
                simp only [List.cons_append, List.cons.injEq] at hs
                exact (hleave_tail t s1 c r' (by rw [← hs.2]; try simp)).elim
            · intro _
              exact ⟨hclaim.1, b.key,
                (segA ++ [Ev.enter b.key hh (st.inv hh) (if b.flags.oneshot = true then EV_FIRE + EV_UNBIND else EV_FIRE) o]) ++ [Ev.fire b.key o],
                by rw [hsegc_shape]; rfl⟩
            · rw [firesOf_append, firesOf_eq_nil hnoc]
              simp [firesOf, chainFrom]
            · intro c s1 s2' hs
              rcases split_append_single hs with ⟨hs1, hce, _⟩ | ⟨s1', hs1', _⟩
              · injection hce with hce _; subst hce; subst hs1; exact hlive0
              · exact absurd (by rw [hs1']; simp) (hnoc c)
            · intro b' hb' hnf
              refine ⟨?_, fun hncl => absurd ⟨hclaim.1, hclaim.2⟩ hncl⟩
              intro c s1 s2' hs hafter
              rcases split_append_single hs with ⟨_, hce, _⟩ | ⟨s1', hs1', _⟩
              · injection hce with hce _
                -- `c = b.key` would have to come after `b'` in a chain that starts with `b.key`
                exfalso
                rw [hce] at hafter
                simp only [chainFrom] at hafter hb'
                have hne : b' ≠ b.key := by
                  intro e; apply hnf; rw [firesOf_append, firesOf_eq_nil hnoc, e]; simp [firesOf]
                simp only [afterK, if_neg (Ne.symm hne)] at hafter
                exact hkchain (afterK_sub _ hafter)
              · exact absurd (by rw [hs1']; simp) (hnoc c)
          · -- the walk goes on from the next binding of the chain as it is now
            rename_i hnclaim
            cases hn : nextOf st2.list b.key with
            | none => exact absurd hk2 (nextOf_none hn)
            | some nx =>
              rw [hn] at hex
              simp only at hex
              have hocc2 : o < st2.nextOcc := Nat.lt_of_lt_of_le hocc s2.occMono
              have hok2 : TaskOk own beh (.walk wf ev o nx) st2 := ⟨hiter2, fun k' hk' => nextOf_some_mem (hk' ▸ hn), hocc2⟩
              obtain ⟨segr, hsegr, hsub, hsound, hcomp, hcl5, hcl6⟩ := ih wf ev o nx st2 st' r h2 hro2 hok2 hopos hex
              -- the chain from `b.key`, at the end, is `b.key` followed by the chain from `nx`
              have hstep2 := hgood (.walk wf ev o nx) st2 h2 hro2 hok2
              rw [hex] at hstep2
              obtain ⟨P2, A2, hinfix2⟩ := (hstep2.alive (Or.inr rfl)).2.2.keysIter hiter2
              have hnx : nx = (afterK b.key (keys st2.list)).head? := by
                have := nextOf_eq hk2; rw [hn] at this; injection this
              have hchain : afterK b.key (keys st'.list) = chainFrom nx (keys st'.list) := by
                rw [hnx, hinfix2]
                apply chain_step (by rw [← hinfix2]; exact hinv'.keysNodup) hk2
                intro hlast
                -- the walker was at the last binding: the rest of the walk did nothing
                rw [hlast] at hnx
                simp only [List.head?_nil] at hnx
                subst hnx
                cases fuel with
                | zero => simp [exec] at hex
                | succ f =>
                  simp only [exec] at hex
                  injection hex with hex; injection hex with e1 _
                  rw [← e1] at hinfix2
                  have hl := congrArg List.length hinfix2
                  simp only [List.length_append] at hl
                  have : A2.length = 0 := by omega
                  exact List.eq_nil_of_length_eq_zero this
              have hlog' : st'.log = (segr ++ segc ++ [Ev.fire b.key o]) ++ st.log := by rw [hsegr, hsegc]; simp
              have hfires : firesOf o (segr ++ segc ++ [Ev.fire b.key o]) = b.key :: firesOf o segr := by
                rw [firesOf_append, firesOf_append, firesOf_eq_nil hnoc]; simp [firesOf]
              -- where a delivery of this occurrence can sit in the new part of the trace
              have hsplit : ∀ c s1 s2', segr ++ segc ++ [Ev.fire b.key o] = s2' ++ Ev.fire c o :: s1 →
                  (s1 = [] ∧ c = b.key) ∨ (∃ s1', segr = s2' ++ Ev.fire c o :: s1' ∧ s1 ++ st.log = s1' ++ st2.log) := by
                intro c s1 s2' hs
                rcases split_append_single hs with ⟨hs1, hce, _⟩ | ⟨s1', hs1', hs1⟩
                · injection hce with hce _; exact Or.inl ⟨hs1, hce⟩
                · obtain ⟨s1'', h1', h2'⟩ := split_append_of_not_mem hs1' (hnoc c)
                  exact Or.inr ⟨s1'', h1', by rw [hs1, h2', hsegc]; simp⟩
              refine ⟨segr ++ segc ++ [Ev.fire b.key o], hlog', ?_, ?_, ?_, ?_, ?_⟩
              rotate_left 3
              · intro s2' s1 c r' hs hwf hr'
                have hs' : segr ++ (segc ++ [Ev.fire b.key o]) = s2' ++ Ev.leave c o r' :: s1 := by rw [← hs]; simp
                rcases split_append_cases hs' with ⟨s1', h1', _⟩ | ⟨s2'', _, h2'⟩
                · exact hcl5 s2' s1' c r' h1' hwf hr'
                · exfalso
                  rw [hsegc_shape] at h2'
                  cases s2'' with
                  | nil =>
                    simp only [List.nil_append, List.cons_append, List.cons.injEq] at h2'
                    injection h2'.1 with _ _ he
                    apply hnclaim
                    simp [hwf, he, hr']
                  | cons x t =>
                    simp only [List.cons_append, List.cons.injEq] at h2'
                    exact hleave_tail t s1 c r' (by rw [← h2'.2]; try simp)
              · intro hr
                obtain ⟨hwf, c, s1, hs⟩ := hcl6 hr
                exact ⟨hwf, c, s1 ++ segc ++ [Ev.fire b.key o], by rw [hs]; simp⟩
              · rw [hfires]; simp only [chainFrom]; rw [hchain]; exact hsub.cons_cons _
              · intro c s1 s2' hs
                rcases hsplit c s1 s2' hs with ⟨hs1, hce⟩ | ⟨s1', hs1', hlogeq⟩
                · subst hs1; subst hce; exact hlive0
                · rw [hlogeq]; exact hsound c s1' s2' hs1'
              · intro b' hb' hnf
                rw [hfires] at hnf
                simp only [List.mem_cons, not_or] at hnf
                simp only [chainFrom, List.mem_cons] at hb'
                have hb2 : b' ∈ chainFrom nx (keys st'.list) := by
                  rcases hb' with e | hb'
                  · exact absurd e hnf.1
                  · rw [← hchain]; exact hb'
                obtain ⟨hca, hcb⟩ := hcomp b' hb2 hnf.2
                refine ⟨?_, hcb⟩
                intro c s1 s2' hs hafter
                simp only [chainFrom, afterK, if_neg (Ne.symm hnf.1)] at hafter
                rw [hchain] at hafter
                rcases hsplit c s1 s2' hs with ⟨_, hce⟩ | ⟨s1', hs1', hlogeq⟩
                · subst hce
                  exact absurd (by rw [hchain]; exact afterK_sub _ hafter) hkchain
                · rw [hlogeq]; exact hca c s1' s2' hs1' hafter
      · -- not for this event, or a tombstone: skipped
        rename_i hc
        have hdead0 : ¬ evLive ev st.log b.key := by
          rintro ⟨hla, id', first', fl', hm'⟩
          have hlk := (h.liveIff b.key).2 hla
          obtain ⟨x, hx, hxk, hxl⟩ := hlk
          have hxb : x = b := by
            have f1 := findKey_eq_of_mem h.keysNodup hx
            rw [hxk, hfb] at f1; injection f1 with f1; exact f1.symm
          subst hxb
          have := (hinfo hxl).1
          have e2 := (bound_unique h.trace hm' hmb).2.1
          exact hc ⟨by rw [← this, ← e2], hxl⟩
        cases hn : nextOf st.list b.key with
        | none => exact absurd hk (nextOf_none hn)
        | some nx =>
          rw [hn] at hex
          simp only at hex
          have hok2 : TaskOk own beh (.walk wf ev o nx) st := ⟨hit, fun k' hk' => nextOf_some_mem (hk' ▸ hn), hocc⟩
          obtain ⟨segr, hsegr, hsub, hsound, hcomp, hcl5, hcl6⟩ := ih wf ev o nx st st' r h hro hok2 hopos hex
          have hnx : nx = (afterK b.key (keys st.list)).head? := by
            have := nextOf_eq hk; rw [hn] at this; injection this
          have hchain : afterK b.key (keys st'.list) = chainFrom nx (keys st'.list) := by
            rw [hnx, hinfix]
            apply chain_step hnodup' hk
            intro hlast
            rw [hlast] at hnx
            simp only [List.head?_nil] at hnx
            subst hnx
            cases fuel with
            | zero => simp [exec] at hex
            | succ f =>
              simp only [exec] at hex
              injection hex with hex; injection hex with e1 _
              rw [← e1] at hinfix
              have hl := congrArg List.length hinfix
              simp only [List.length_append] at hl
              have : A.length = 0 := by omega
              exact List.eq_nil_of_length_eq_zero this
          have htr' : TraceOk (segr ++ st.log) := by rw [← hsegr]; exact hinv'.trace
          refine ⟨segr, hsegr, ?_, hsound, ?_, hcl5, hcl6⟩
          · simp only [chainFrom]; rw [hchain]; exact hsub.cons _
          · intro b' hb' hnf
            simp only [chainFrom, List.mem_cons] at hb'
            by_cases hbk : b' = b.key
            · subst hbk
              refine ⟨fun c s1 s2' hs _ hl => hdead0 (evLive_mono ?_ hbound hl), fun _ hl => hdead0 (evLive_mono ?_ hbound (by rw [← hsegr]; exact hl))⟩
              · rw [hs, List.append_assoc] at htr'
                exact (TraceOk.suffix htr').2
              · exact htr'
            · have hb2 : b' ∈ chainFrom nx (keys st'.list) := by
                rcases hb' with e | hb'
                · exact absurd e hbk
                · rw [← hchain]; exact hb'
              obtain ⟨hca, hcb⟩ := hcomp b' hb2 hnf
              refine ⟨?_, hcb⟩
              intro c s1 s2' hs hafter
              simp only [chainFrom, afterK, if_neg (Ne.symm hbk)] at hafter
              rw [hchain] at hafter
              exact hca c s1 s2' hs hafter

end


section
variable (own : Owner) (beh : Behaviour)

/-- **One occurrence** (`tickit_bindings_run_event` / `…_whilefalse` called in any state satisfying the invariant,
    i.e. at any nesting depth).  `A` are the bindings appended to the chain while it was being delivered. -/
theorem runEvent_spec (hs : Safe own beh) {fuel : Nat} {wf : Bool} {ev : Int} {st st' : St} {r : Int} (h : Inv st)
    (hro : RefOk own st) (hokr : TaskOk own beh (.runEvent wf ev) st) (hocc1 : 1 ≤ st.nextOcc)
    (hex : exec Cfg.repaired own beh fuel (.runEvent wf ev) st = .ok (st', r)) :
    ∃ seg A, st'.log = Ev.occEnd st.nextOcc :: (seg ++ Ev.occBegin st.nextOcc ev wf :: st.log) ∧
      (keys st.list ++ A).Nodup ∧
      (firesOf st.nextOcc seg).Sublist (keys st.list ++ A) ∧
      (∀ c s1 s2, seg = s2 ++ Ev.fire c st.nextOcc :: s1 → evLive ev (s1 ++ Ev.occBegin st.nextOcc ev wf :: st.log) c) ∧
      (∀ b ∈ keys st.list ++ A, b ∉ firesOf st.nextOcc seg →
        (∀ c s1 s2, seg = s2 ++ Ev.fire c st.nextOcc :: s1 → c ∈ afterK b (keys st.list ++ A) →
            ¬ evLive ev (s1 ++ Ev.occBegin st.nextOcc ev wf :: st.log) b) ∧
        (¬ (wf = true ∧ r ≠ 0) → ¬ evLive ev (seg ++ Ev.occBegin st.nextOcc ev wf :: st.log) b)) ∧
      (∀ s2 s1 c r', seg = s2 ++ Ev.leave c st.nextOcc r' :: s1 → wf = true → r' ≠ 0 → s2 = [] ∧ r = r') ∧
      (r ≠ 0 → wf = true ∧ ∃ c s1, seg = Ev.leave c st.nextOcc r :: s1) := by
  cases fuel with
  | zero => simp [exec] at hex
  | succ fuel =>
    simp only [exec] at hex
    have h1 : Inv { st with isIter := true, nextOcc := st.nextOcc + 1, log := Ev.occBegin st.nextOcc ev wf :: st.log } :=
      h.of_push ⟨rfl, rfl⟩ rfl rfl rfl rfl (by simp [Ev.key?]) (by simp [EvOk]) (fun b hb' ht => ⟨rfl, (h.tombIter b hb' ht).2⟩)
    have hro1 : RefOk own { st with isIter := true, nextOcc := st.nextOcc + 1, log := Ev.occBegin st.nextOcc ev wf :: st.log } :=
      ⟨hro.1, fun ho => by have := hokr ho; simpa using this⟩
    have hok : TaskOk own beh (.walk wf ev st.nextOcc (firstOf st.list))
        { st with isIter := true, nextOcc := st.nextOcc + 1, log := Ev.occBegin st.nextOcc ev wf :: st.log } :=
      ⟨rfl, fun k hk => firstOf_mem hk, Nat.lt_succ_self _⟩
    cases hres : exec Cfg.repaired own beh fuel (.walk wf ev st.nextOcc (firstOf st.list))
        { st with isIter := true, nextOcc := st.nextOcc + 1, log := Ev.occBegin st.nextOcc ev wf :: st.log } with
    | outOfFuel => rw [hres] at hex; simp at hex
    | ub w => rw [hres] at hex; simp at hex
    | ok p =>
      obtain ⟨st2, r2⟩ := p
      rw [hres] at hex
      simp only at hex
      have hgood := exec_good own beh hs fuel _ _ h1 hro1 hok
      rw [hres] at hgood
      obtain ⟨h2, _, s2⟩ := hgood.alive (Or.inr rfl)
      obtain ⟨P, A, hinfix⟩ := s2.keysIter rfl
      simp only at hinfix
      obtain ⟨seg, hseg, hsub, hsound, hcomp, hcl5, hcl6⟩ :=
        walk_spec own beh hs fuel wf ev st.nextOcc (firstOf st.list) _ st2 r2 h1 hro1 hok (by omega) hres
      simp only at hseg hsound hcomp
      -- the chain the walker went through is the chain at the start plus what was appended
      have hchain : chainFrom (firstOf st.list) (keys st2.list) = keys st.list ++ A := by
        rw [firstOf_eq]
        cases hks : keys st.list with
        | nil =>
          -- nothing to walk: the walk returned at once
          have hnone : firstOf st.list = none := by rw [firstOf_eq, hks]; rfl
          rw [hnone] at hres
          cases fuel with
          | zero => simp [exec] at hres
          | succ f =>
            simp only [exec] at hres
            injection hres with hres; injection hres with e1 _
            rw [← e1] at hinfix
            have hl := congrArg List.length hinfix
            simp only [hks, List.length_append, List.length_nil] at hl
            have : A = [] := List.eq_nil_of_length_eq_zero (by omega)
            simp [chainFrom, this]
        | cons k0 t =>
          have hn2 : (P ++ (k0 :: t) ++ A).Nodup := by rw [← hks, ← hinfix]; exact h2.keysNodup
          simp only [List.head?_cons, chainFrom]
          rw [hinfix, hks, afterK_infix hn2 (by simp)]
          simp [afterK]
      have hnd : (keys st.list ++ A).Nodup := by
        have : (P ++ keys st.list ++ A).Nodup := by rw [← hinfix]; exact h2.keysNodup
        rw [List.append_assoc] at this
        exact (List.nodup_append.1 this).2.1
      rw [hchain] at hsub hcomp
      have hr : r = r2 ∧ st'.log = Ev.occEnd st.nextOcc :: st2.log := by
        rw [if_neg (show ¬ st2.dead = true by rw [h2.alive.2]; simp)] at hex
        split at hex <;> (injection hex with hex; injection hex with e1 e2; subst e1; exact ⟨e2.symm, rfl⟩)
      refine ⟨seg, A, by rw [hr.2, hseg], hnd, hsub, hsound, ?_, by rw [hr.1]; exact hcl5, by rw [hr.1]; exact hcl6⟩
      intro b hb' hnf
      obtain ⟨ha, hb2⟩ := hcomp b hb' hnf
      refine ⟨ha, ?_⟩
      rw [hr.1, ← hseg]
      exact hb2

end

/-- The binding order read off a well-formed trace has no repetition. -/
theorem bindOrder_nodup {log : List Ev} (ht : TraceOk log) :
    (bindOrder log).Nodup ∧ ∀ k ∈ bindOrder log, ∃ e ∈ log, e.key? = some k := by
  induction log with
  | nil => simp [bindOrder]
  | cons e pre ih =>
    obtain ⟨he, hp⟩ := ht
    obtain ⟨ihn, ihm⟩ := ih hp
    cases e with
    | bound k id ev first fl =>
      have hfresh : k ∉ bindOrder pre := by
        intro hk
        obtain ⟨e', he', hk'⟩ := ihm k hk
        exact he.1 e' he' hk'
      simp only [bindOrder]
      split
      · refine ⟨List.nodup_cons.2 ⟨hfresh, ihn⟩, ?_⟩
        intro k' hk'
        rcases List.mem_cons.1 hk' with rfl | hk'
        · exact ⟨_, List.mem_cons_self .., rfl⟩
        · obtain ⟨e', he', hk''⟩ := ihm k' hk'
          exact ⟨e', List.mem_cons_of_mem _ he', hk''⟩
      · refine ⟨?_, ?_⟩
        · rw [List.nodup_append]
          exact ⟨ihn, by simp, fun a ha b hb' => by simp at hb'; subst hb'; exact fun e => hfresh (e ▸ ha)⟩
        · intro k' hk'
          rcases List.mem_append.1 hk' with hk' | hk'
          · obtain ⟨e', he', hk''⟩ := ihm k' hk'
            exact ⟨e', List.mem_cons_of_mem _ he', hk''⟩
          · simp at hk'; subst hk'
            exact ⟨_, List.mem_cons_self .., rfl⟩
    | _ =>
      simp only [bindOrder]
      exact ⟨ihn, fun k hk => by obtain ⟨e', he', hk'⟩ := ihm k hk; exact ⟨e', List.mem_cons_of_mem _ he', hk'⟩⟩


/-! ### helpers for the concrete histories of `Props/C16.lean` (counterexamples, non-vacuity) -/

def logOf : Res St → List Ev
  | .ok st => st.log
  | _ => []

def chainOf : Res St → List Nat
  | .ok st => keys st.list
  | _ => []

def deadOf : Res St → Bool
  | .ok st => st.dead
  | _ => false

def isOk : Res St → Bool
  | .ok _ => true
  | _ => false

def isUb : Res St → Bool
  | .ub _ => true
  | _ => false

theorem runs_of_isOk {cfg : Cfg} {own : Owner} {beh : Behaviour} {fuel : Nat} {ops : List Op}
    (h : isOk (execOps cfg own beh fuel ops St.init) = true) :
    ∃ st, execOps cfg own beh fuel ops St.init = .ok st ∧ st.log = logOf (execOps cfg own beh fuel ops St.init) ∧
      keys st.list = chainOf (execOps cfg own beh fuel ops St.init) ∧ st.dead = deadOf (execOps cfg own beh fuel ops St.init) := by
  cases hc : execOps cfg own beh fuel ops St.init with
  | ok st => exact ⟨st, rfl, rfl, rfl, rfl⟩
  | ub w => rw [hc] at h; cases h
  | outOfFuel => rw [hc] at h; cases h

def plain : BFlags := ⟨false, false, false⟩
def oneshot : BFlags := ⟨false, false, true⟩
def wantsUnbind : BFlags := ⟨true, false, false⟩

/-- handler 0 emits event 1 again at its first invocation -/
def behReemit : Behaviour := fun h n => if h = 0 ∧ n = 0 then ⟨[.emit 1], 0⟩ else ⟨[], 0⟩
/-- handler 0 unbinds its own binding at its first two invocations -/
def behSelfTwice : Behaviour := fun h n => if h = 0 ∧ n ≤ 1 then ⟨[.unbindSelf], 0⟩ else ⟨[], 0⟩
/-- handler 0 binds handler 1 `FIRST` at its first invocation -/
def behBindFirst : Behaviour := fun h n => if h = 0 ∧ n = 0 then ⟨[.bind 1 true plain 1], 0⟩ else ⟨[], 0⟩
def behNone : Behaviour := fun _ _ => ⟨[], 0⟩

/-- handler 0 drops the handlers' reference to the owner at its first invocation, then emits again -/
def behDropRef : Behaviour := fun h n => if h = 0 ∧ n = 0 then ⟨[.destroy, .emit 1], 0⟩ else ⟨[], 0⟩
/-- a pen as it is since fix 4d40c98: its emitters hold a reference while they run the handlers -/
def penHoldingRef : Owner := { Owner.pen with holdsRef := true }

theorem noDestroy_behReemit : NoDestroy behReemit := by intro h n; unfold behReemit; split <;> simp
theorem noDestroy_behSelfTwice : NoDestroy behSelfTwice := by intro h n; unfold behSelfTwice; split <;> simp
theorem noDestroy_behBindFirst : NoDestroy behBindFirst := by intro h n; unfold behBindFirst; split <;> simp
theorem noDestroy_behNone : NoDestroy behNone := by intro h n; simp [behNone]

/-- handler 0, when first run, unbinds slot 1 and binds handler 3 at the back -/
def behMutate : Behaviour := fun h n => if h = 0 ∧ n = 0 then ⟨[.unbind 1, .bind 1 false plain 3], 0⟩ else ⟨[], 0⟩

theorem noDestroy_behMutate : NoDestroy behMutate := by intro h n; unfold behMutate; split <;> simp

/-- three bindings of event 1: slots 0 and 1 at the back, slot 2 `FIRST` -/
def stThree : St := bindEvent (bindEvent (bindEvent St.init 1 false plain 0) 1 false plain 1) 1 true plain 2

theorem inv_stThree : Inv stThree := ((Inv.init.of_bind _ _ _ _).of_bind _ _ _ _).of_bind _ _ _ _

theorem evLive_cons_occBegin {ev : Int} {log : List Ev} {k o : Nat} {ev' : Int} {wf : Bool} :
    evLive ev (Ev.occBegin o ev' wf :: log) k ↔ evLive ev log k := by
  unfold evLive
  rw [liveAt_cons (by simp [Ev.affects])]
  simp


end Tickit.Bindings
