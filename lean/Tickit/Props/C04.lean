import Tickit.Proof.RBFlushTextRun
import Tickit.Proof.RBFlushReach
import Tickit.Proof.RBFlushX
import Tickit.Proof.RBFlushSuspend
import Tickit.Proof.RBFlushSim
/-
  C04 — flushing a render buffer reproduces its content on the terminal exactly once.

  The model (Model/RBFlush.lean) mirrors the code *with* the two repairs fixes/C04_flush_wide_cut.patch and
  fixes/C04_linechars_fallback.patch; the code before them is kept (`textReqsOld`, `linemaskToCharOld`) for the
  counterexample theorems.  Two known findings remain: a CHAR cell holding a code point that is not one column wide
  (`flush_spec` carries the hypothesis `CharOK` that excludes exactly that) and content of the buffer beyond the
  terminal's size, which the flush does not clip (`flush_spec_screen`: any buffer size, any screen size, under the
  hypothesis that the content lies within the screen; `FlushSpec` is the special case of a terminal at least as wide as
  the buffer on a plane unbounded downwards).
-/
namespace Tickit.Props.C04
open Tickit Tickit.RB Tickit.RBFlush

/-! ## Line cells: the glyph has the arms of the mask -/

/-- The statement about a glyph table: for every mask 1 … 255 the glyph is a box-drawing character with an arm in
    exactly the directions in which the mask has a style, and it is *the* character with exactly the mask's four
    styles whenever Unicode has such a character. -/
def GlyphArms (table : Array Nat) : Prop :=
  ∀ mask, 1 ≤ mask → mask < 256 →
    ∃ a : Arms, armsOf (table.getD mask 0) = some a ∧
      ((a.1 ≠ 0 ↔ (maskArms mask).1 ≠ 0) ∧ (a.2.1 ≠ 0 ↔ (maskArms mask).2.1 ≠ 0) ∧
       (a.2.2.1 ≠ 0 ↔ (maskArms mask).2.2.1 ≠ 0) ∧ (a.2.2.2 ≠ 0 ↔ (maskArms mask).2.2.2 ≠ 0)) ∧
      (∀ cp, armsOf cp = some (maskArms mask) → table.getD mask 0 = cp)

/-- The boolean form decided over the whole table implies the statement. -/
theorem glyphArms_of_glyphOK (table : Array Nat)
    (h : ∀ m, m < 256 → 1 ≤ m → glyphOK m (table.getD m 0) = true) : GlyphArms table := by
  intro mask h1 h2
  have hk := h mask h2 h1
  unfold glyphOK at hk
  split at hk
  · cases hk
  · rename_i a ha
    rw [Bool.and_eq_true] at hk
    obtain ⟨hd, hex⟩ := hk
    refine ⟨a, ha, ?_, ?_⟩
    · unfold sameDirs at hd
      simp only [Bool.and_eq_true, beq_iff_eq, bne_iff_ne, ne_eq] at hd
      obtain ⟨⟨⟨d1, d2⟩, d3⟩, d4⟩ := hd
      refine ⟨?_, ?_, ?_, ?_⟩
      · by_cases x : a.1 = 0 <;> by_cases y : (maskArms mask).1 = 0 <;> simp_all
      · by_cases x : a.2.1 = 0 <;> by_cases y : (maskArms mask).2.1 = 0 <;> simp_all
      · by_cases x : a.2.2.1 = 0 <;> by_cases y : (maskArms mask).2.2.1 = 0 <;> simp_all
      · by_cases x : a.2.2.2 = 0 <;> by_cases y : (maskArms mask).2.2.2 = 0 <;> simp_all
    · intro cp hcp
      have he := hasExact_of_armsOf hcp
      rw [he] at hex
      simp only [Bool.not_true, Bool.false_or, beq_iff_eq] at hex
      exact armsOf_inj (by rw [ha, hex]) hcp

/-- **glyph_arms**: the table of the working tree (`src/linechars.inc`, regenerated into `Gen.LineChars` on every
    run) satisfies the statement — decided by the kernel over all 255 masks. -/
theorem glyph_arms : GlyphArms Tickit.Gen.LineChars.linemaskToChar :=
  glyphArms_of_glyphOK _ (by decide +kernel)

/-- Non-vacuity: mask 0x12 (north double, south single) has no exact character; the table gives U+2502 (both arms). -/
example : Tickit.Gen.LineChars.linemaskToChar.getD 0x12 0 = 0x2502 ∧ maskArms 0x12 = (2, 0, 1, 0) ∧
    armsOf 0x2502 = some (1, 0, 1, 0) := by decide +kernel

/-- `src/linechars.inc` before the repair of `linechars.inc.PL` (fallback `$mask & 0xAA`). -/
def linemaskToCharOld : Array Nat := #[
  0x0000, 0x2575, 0x2575, 0x2579, 0x2576, 0x2514, 0x2559, 0x2516, 0x2576, 0x2558, 0x255a, 0x255a, 0x257a, 0x2515, 0x255a, 0x2517,
  0x2577, 0x2502, 0x2575, 0x257f, 0x250c, 0x251c, 0x2575, 0x251e, 0x2552, 0x255e, 0x255a, 0x255a, 0x250d, 0x251d, 0x255a, 0x2521,
  0x2577, 0x2577, 0x2551, 0x2551, 0x2553, 0x2577, 0x255f, 0x2551, 0x2554, 0x2554, 0x2560, 0x2560, 0x2554, 0x2554, 0x2560, 0x2560,
  0x257b, 0x257d, 0x2551, 0x2503, 0x250e, 0x251f, 0x2551, 0x2520, 0x2554, 0x2554, 0x2560, 0x2560, 0x250f, 0x2522, 0x2560, 0x2523,
  0x2574, 0x2518, 0x255c, 0x251a, 0x2500, 0x2534, 0x2568, 0x2538, 0x2576, 0x2576, 0x255a, 0x255a, 0x257c, 0x2536, 0x255a, 0x253a,
  0x2510, 0x2524, 0x2575, 0x2526, 0x252c, 0x253c, 0x2575, 0x2540, 0x2576, 0x2576, 0x255a, 0x255a, 0x252e, 0x253e, 0x255a, 0x2544,
  0x2556, 0x2577, 0x2562, 0x2551, 0x2565, 0x2577, 0x256b, 0x2551, 0x2554, 0x2554, 0x2560, 0x2560, 0x2554, 0x2554, 0x2560, 0x2560,
  0x2512, 0x2527, 0x2551, 0x2528, 0x2530, 0x2541, 0x2551, 0x2542, 0x2554, 0x2554, 0x2560, 0x2560, 0x2532, 0x2546, 0x2560, 0x254a,
  0x2574, 0x255b, 0x255d, 0x255d, 0x2574, 0x2574, 0x255d, 0x255d, 0x2550, 0x2567, 0x2569, 0x2569, 0x2550, 0x2550, 0x2569, 0x2569,
  0x2555, 0x2561, 0x255d, 0x255d, 0x2574, 0x2574, 0x255d, 0x255d, 0x2564, 0x256a, 0x2569, 0x2569, 0x2550, 0x2550, 0x2569, 0x2569,
  0x2557, 0x2557, 0x2563, 0x2563, 0x2557, 0x2557, 0x2563, 0x2563, 0x2566, 0x2566, 0x256c, 0x256c, 0x2566, 0x2566, 0x256c, 0x256c,
  0x2557, 0x2557, 0x2563, 0x2563, 0x2557, 0x2557, 0x2563, 0x2563, 0x2566, 0x2566, 0x256c, 0x256c, 0x2566, 0x2566, 0x256c, 0x256c,
  0x2578, 0x2519, 0x255d, 0x251b, 0x257e, 0x2535, 0x255d, 0x2539, 0x2550, 0x2550, 0x2569, 0x2569, 0x2501, 0x2537, 0x2569, 0x253b,
  0x2511, 0x2525, 0x255d, 0x2529, 0x252d, 0x253d, 0x255d, 0x2543, 0x2550, 0x2550, 0x2569, 0x2569, 0x252f, 0x253f, 0x2569, 0x2547,
  0x2557, 0x2557, 0x2563, 0x2563, 0x2557, 0x2557, 0x2563, 0x2563, 0x2566, 0x2566, 0x256c, 0x256c, 0x2566, 0x2566, 0x256c, 0x256c,
  0x2513, 0x252a, 0x2563, 0x252b, 0x2531, 0x2545, 0x2563, 0x2549, 0x2566, 0x2566, 0x256c, 0x256c, 0x2533, 0x2548, 0x256c, 0x254b
]

/-- Counterexample (before the repair): mask 0x12 was drawn as U+2575 "light up": the south arm is lost. -/
theorem glyph_arms_old_counterexample : ¬ GlyphArms linemaskToCharOld := by
  intro h
  obtain ⟨a, ha, ⟨_, _, hs, _⟩, _⟩ := h 0x12 (by omega) (by omega)
  have h1 : armsOf (linemaskToCharOld.getD 0x12 0) = some (1, 0, 0, 0) := by decide +kernel
  rw [h1] at ha
  cases ha
  exact absurd (hs.mpr (by decide +kernel)) (by decide)

/-- 92 of the 255 entries were wrong before the repair. -/
theorem glyph_arms_old_bad_count :
    ((List.range 256).filter fun m => decide (1 ≤ m) && !glyphOK m (linemaskToCharOld.getD m 0)).length = 92 := by
  decide +kernel

/-! ## After the flush the buffer is empty and all auxiliary state is reset -/

/-- **flush_resets**: whenever the flush completes, the buffer afterwards has its size, every line is a single SKIP
    run without mask (so nothing is pending: the specification asks nothing of any terminal cell), the virtual cursor
    is unset, translation zero, clip the whole buffer, pen empty, the save stack empty, and the depth 0 (for a buffer
    whose depth counts its stack frames). -/
theorem flush_resets (rb : RB) (h : (flushToTerm rb).out = .ok) :
    let rb' := (flushToTerm rb).rb
    rb'.lines = rb.lines ∧ rb'.cols = rb.cols ∧ IsEmpty rb' ∧ (∀ l c, want rb' l c = .keep) ∧
    rb'.vcSet = false ∧ rb'.xlLine = 0 ∧ rb'.xlCol = 0 ∧ rb'.clip = ⟨0, 0, rb.lines, rb.cols⟩ ∧
    rb'.pen = Pen.empty ∧ rb'.stack = [] ∧ (rb.depth = rb.stack.length → rb'.depth = 0) := by
  have hr : (flushToTerm rb).rb = reset rb := flushWith_rb_of_ok _ rb h
  simp only [hr]
  refine ⟨rfl, rfl, reset_isEmpty rb, want_of_isEmpty _ (reset_isEmpty rb), rfl, rfl, rfl, rfl, rfl, rfl, ?_⟩
  intro hd
  simp only [reset]
  cases hs : rb.stack with
  | nil => simp [hs] at hd ⊢; exact hd
  | cons f fs => simp

/-- "Exactly once", second half: flushing again right away sends nothing to the terminal. -/
theorem flush_again_silent (rb : RB) (h : (flushToTerm rb).out = .ok) :
    (flushToTerm (flushToTerm rb).rb).reqs = [] ∧ (flushToTerm (flushToTerm rb).rb).out = .ok := by
  have hr : (flushToTerm rb).rb = reset rb := flushWith_rb_of_ok _ rb h
  rw [hr]
  have : flushLines textReqs (reset rb) (reset rb).lines.toNat 0 = ([], .ok) := by
    by_cases hl : 0 ≤ (reset rb).lines
    · exact flushLines_empty textReqs (reset rb) (reset_isEmpty rb) (reset rb).lines.toNat 0 (by omega) (by omega)
    · have : (reset rb).lines.toNat = 0 := by omega
      rw [this]; rfl
  unfold flushToTerm flushWith
  simp only [this, and_self]

/-- Non-vacuity: a 1×3 buffer holding the text "ab" at column 1 flushes (`out = ok`) with four requests. -/
example :
    let rb := textAt (RB.new 1 3 0 0) 0 1 [0x61, 0x62]
    (flushToTerm rb).out = .ok ∧ (flushToTerm rb).reqs = [.goto 0 1, .setpen Pen.empty, .print [0x61, 0x62] 0 2] := by
  decide +kernel

/-! ## The flush reproduces the buffer on the terminal, exactly once -/

/-- The statement of `flush_spec` for a buffer `rb`: the flush completes and, whatever the terminal showed before
    (`t`: any grid, any cursor position *including the pending-wrap state* `col = cols`, pen, cursor oracle, print path),
    provided the terminal is at least as wide as the buffer — the one assumption about the right edge: `GridTerm` has the
    VT behaviour there (printing into the last column leaves pending wrap, the next character would wrap, `erasech` in
    that state acts on the last column, cursor movements clamp and end it), and the theorem shows the flush never relies
    on it: every line starts with a goto and nothing is printed past the buffer's width —
    every terminal cell afterwards satisfies `cellOK` against
    the content of the buffer: skipped cells and cells outside the buffer are untouched (glyph, pen and write count),
    erase cells are blank, char cells show their code point, line cells a box-drawing glyph with the arms of the mask,
    text cells the grapheme of their column (a half of a cut double-width character: blank), each with a rendition
    equivalent to its pen and written exactly once. -/
def FlushSpec (rb : RB) : Prop :=
  ∀ t : GridTerm, rb.cols ≤ t.cols →
    (flushToTerm rb).out = .ok ∧
    ∀ l c, cellOK (want rb l c) (t.cells l c) ((t.run (flushToTerm rb).reqs).cells l c) = true

/-- **flush_spec**: `FlushSpec` for every well-formed buffer (`FlushWF`: every line is tiled by runs, LINE and CHAR runs
    have one column, line masks are 1 … 255, every TEXT run lies inside a text the width counter accepts, and — the one
    hypothesis that excludes a known finding — every CHAR cell holds a code point that is one column wide).  Texts may
    mix single-width, double-width and zero-width characters and a run may begin or end at *any* column of its text,
    including the middle of a double-width character (its visible half is blanked).  Every prior grid, cursor
    position, terminal pen, oracle for the cursor after `erasech(…, MAYBE)` and print path. -/
theorem flush_spec (rb : RB) (hwf : FlushWF rb) : FlushSpec rb :=
  fun t hcw => flush_spec_of_text hwf (fun _ _ h1 h2 h3 hr hs => text_run ⟨h1, h2⟩ h3 hr hs) t hcw

/-- **flush_spec_reachable**: `FlushSpec` for the buffer any drawing program (the operations of C03, engine `rb`)
    leaves behind on a fresh buffer, given that what it drew is presentable (`ContentOK`: line styles 1 … 3 so that masks
    are 1 … 255, CHAR code points one column wide, texts accepted by the width counter).  The run structure is C03's
    invariant `WF` (`run_wf`); `ContentOK` is not tracked by that invariant and stays a hypothesis. -/
theorem flush_spec_reachable (lines cols g1 g2 : Int) (hl : 0 ≤ lines) (hc : 0 < cols) (prog : List Op)
    (hcont : ContentOK (RB.run (RB.new lines cols g1 g2) prog)) :
    FlushSpec (RB.run (RB.new lines cols g1 g2) prog) :=
  flush_spec _ (flushWF_of_WF (run_wf prog (new_refines lines cols g1 g2 hl hc).1) hcont)

/-- **flush_spec_program**: the quantifier of the property — "every buffer content reachable by drawing programs".
    For every program over the operations of C03 (texts accepted or rejected, cursor-relative and absolute drawing,
    erase, skip, lines, rectangles, clips, masks, translations, pens, save/savepen/restore, reset, in any order) run on
    a fresh buffer, provided it draws only one-column CHAR code points (the known finding otherwise) and line styles
    single/double/thick: the flush of the resulting buffer satisfies `FlushSpec`.  The run structure comes from C03's
    invariant and refinement (`run_refines`), the presentability of the content (`ContentOK`) is proved here at the level
    of C03's cell-wise specification, and the acceptance test of `put_string` (`tickit_utf8_ncount` with the length) is
    shown to imply the NUL-terminated decoding the flush relies on (`decode_of_stringColumns`). -/
theorem flush_spec_program (lines cols g1 g2 : Int) (hl : 0 ≤ lines) (hc : 0 < cols) (prog : List Op)
    (hok : ∀ o ∈ prog, OpOK o) : FlushSpec (RB.run (RB.new lines cols g1 g2) prog) :=
  flush_spec _ (flushWF_of_program lines cols g1 g2 hl hc prog hok)

/-- Non-vacuity: a program with a clip, a translation, a mask under `save`, a text cut inside double-width characters, a
    line across it and a `restore`. -/
example : FlushSpec (RB.run (RB.new 2 8 7 7)
    [.clip ⟨0, 1, 2, 6⟩, .translate 0 1, .save, .mask ⟨0, 3, 1, 1⟩,
     .textAt 0 (-1) [0x78, 0xef, 0xbc, 0xa1, 0x79, 0xe4, 0xb8, 0x80, 0x7a], .vlineAt 0 1 2 2 3, .charAt 1 0 0x51,
     .restore, .eraseAt 1 4 9]) :=
  flush_spec_program 2 8 7 7 (by decide) (by decide) _ (by
    intro o ho
    simp only [List.mem_cons, List.mem_nil_iff, or_false] at ho
    rcases ho with rfl | rfl | rfl | rfl | rfl | rfl | rfl | rfl | rfl
    all_goals first
      | exact trivial
      | exact (by decide : (1 : Nat) ≤ 2 ∧ 2 ≤ 3)
      | exact (by unfold CharOK; decide +kernel : CharOK 0x51))

/-- A terminal with blank cells, cursor at the origin. -/
def blankTerm : GridTerm := { cells := fun _ _ => {}, line := 0, col := 0, cols := 80 }

/-! ## Every buffer and terminal size: a screen of `L` lines and `t.cols` columns

  `FlushSpec` speaks of a terminal at least as wide as the buffer, on a plane unbounded downwards.  The statement below
  drops both: the terminal is a screen of `L` lines (`GridTerm.runL`: a cursor movement below the last line is clamped,
  the deferred wrap on the last line scrolls) and `t.cols` columns, of *any* size, and the buffer may be larger than the
  screen in either direction as long as what it holds lies within the screen — said with the specification itself: no
  cell outside the screen is owed anything. -/

/-- The flush of `rb` on a screen of `L` lines and `t.cols` columns that contains the content of the buffer: it
    completes; it never has a cursor movement clamped and never wraps or scrolls (the screen does exactly what the
    unbounded plane does); and every cell satisfies `cellOK` against the content of the buffer. -/
def FlushSpecScreen (rb : RB) : Prop :=
  ∀ (t : GridTerm) (L : Int), (∀ l c, L ≤ l ∨ t.cols ≤ c → want rb l c = .keep) →
    (flushToTerm rb).out = .ok ∧
    t.runL L (flushToTerm rb).reqs = t.run (flushToTerm rb).reqs ∧
    ∀ l c, cellOK (want rb l c) (t.cells l c) ((t.runL L (flushToTerm rb).reqs).cells l c) = true

/-- **flush_spec_screen**: `FlushSpecScreen` for every well-formed buffer (same hypotheses as `flush_spec`). -/
theorem flush_spec_screen (rb : RB) (hwf : FlushWF rb) : FlushSpecScreen rb := by
  intro t L hout
  obtain ⟨h1, h2, h3⟩ := flush_spec_of_text_within (W := t.cols) (L := L) hwf (within_of_want hout)
    (fun _ _ h1 h2 h3 hr hs => text_run ⟨h1, h2⟩ h3 hr hs) t (Int.le_refl _)
  have he := GridTerm.runL_eq_of_calm L _ t h3
  exact ⟨h1, he, by rw [he]; exact h2⟩

/-- `FlushSpec` (the plane, a terminal at least as wide as the buffer) is the special case `L = rb.lines`. -/
theorem flushSpec_of_screen (rb : RB) (h : FlushSpecScreen rb) : FlushSpec rb := by
  intro t hcw
  obtain ⟨h1, h2, h3⟩ := h t rb.lines (want_keep_outside rb t.cols rb.lines (Int.le_refl _) hcw)
  exact ⟨h1, by rw [h2] at h3; exact h3⟩

/-- **flush_spec_screen_program**: the same for the buffer any drawing program leaves behind (`flush_spec_program`). -/
theorem flush_spec_screen_program (lines cols g1 g2 : Int) (hl : 0 ≤ lines) (hc : 0 < cols) (prog : List Op)
    (hok : ∀ o ∈ prog, OpOK o) : FlushSpecScreen (RB.run (RB.new lines cols g1 g2) prog) :=
  flush_spec_screen _ (flushWF_of_program lines cols g1 g2 hl hc prog hok)

/-- A 3×6 buffer holding `ab` at (0,0) and `c` at (1,1): its content lies within 2 lines and 2 columns. -/
def smallContentRB : RB := textAt (textAt (RB.new 3 6 0 0) 0 0 [0x61, 0x62]) 1 1 [0x63]

/-- Non-vacuity: the buffer is larger than the 2×2 screen in both directions, its content is not, and the hypothesis of
    `FlushSpecScreen` holds of it. -/
example : ∀ l c, (2 : Int) ≤ l ∨ ({ cells := fun _ _ => {}, line := 0, col := 0, cols := 2 } : GridTerm).cols ≤ c →
    want smallContentRB l c = .keep := by
  intro l c h
  have hc : (2 : Int) ≤ l ∨ 2 ≤ c := h
  unfold want
  by_cases hg : smallContentRB.inGrid l c
  · rw [if_neg (fun hn => hn hg)]
    have hsz : smallContentRB.lines = 3 ∧ smallContentRB.cols = 6 := by decide +kernel
    unfold RB.inGrid at hg
    rw [hsz.1, hsz.2] at hg
    have hl : l = 0 ∨ l = 1 ∨ l = 2 := by omega
    have hcc : c = 0 ∨ c = 1 ∨ c = 2 ∨ c = 3 ∨ c = 4 ∨ c = 5 := by omega
    rcases hl with rfl | rfl | rfl <;> rcases hcc with rfl | rfl | rfl | rfl | rfl | rfl <;>
      first
        | (exfalso; omega)
        | decide +kernel
  · rw [if_pos hg]

example : FlushSpecScreen smallContentRB := flush_spec_screen _ (flushWF_of_flushWFb (by decide +kernel))

/-- The statement without the hypothesis "the content lies within the screen": whatever the sizes, the cells of the
    screen show what the buffer holds there. -/
def C04_anysize : Prop :=
  ∀ rb : RB, FlushWF rb → ∀ (t : GridTerm) (L : Int),
    ∀ l c, 0 ≤ l → l < L → 0 ≤ c → c < t.cols →
      cellOK (want rb l c) (t.cells l c) ((t.runL L (flushToTerm rb).reqs).cells l c) = true

/-- `abcd` on the first line of a 2×4 buffer. -/
def wideRB : RB := textAt (RB.new 2 4 0 0) 0 0 [0x61, 0x62, 0x63, 0x64]

/-- Counterexample (width): on a screen of 3 columns the `d` wraps to column 0 of the second line, a cell the buffer
    skips.  `tickit_renderbuffer_flush_to_term` does not clip to the terminal's size: the hypothesis of
    `FlushSpecScreen` (equivalently `rb.cols ≤ t.cols` in `FlushSpec`) cannot be dropped. -/
theorem C04_anysize_counterexample_width : ¬ C04_anysize := by
  intro h
  have := h wideRB (flushWF_of_flushWFb (by decide +kernel))
    { cells := fun _ _ => {}, line := 0, col := 0, cols := 3 } 2 1 0 (by omega) (by omega) (by omega) (by decide)
  revert this
  decide +kernel

/-- `a` at (0,0) and `b` at (1,0) of a 2×2 buffer. -/
def tallRB : RB := textAt (textAt (RB.new 2 2 0 0) 0 0 [0x61]) 1 0 [0x62]

/-- Counterexample (height): on a screen of one line the cursor movement to the second line is clamped and `b`
    overwrites `a`. -/
theorem C04_anysize_counterexample_height : ¬ C04_anysize := by
  intro h
  have := h tallRB (flushWF_of_flushWFb (by decide +kernel))
    { cells := fun _ _ => {}, line := 0, col := 0, cols := 80 } 1 0 0 (by omega) (by omega) (by omega) (by decide)
  revert this
  decide +kernel

/-! ## Line styles outside `TickitLineStyle`

  `flush_spec_program` asks of `hline_at`/`vline_at` a style among `TICKIT_LINE_SINGLE/DOUBLE/THICK` (1 … 3), the values
  of the enumeration the parameter is declared with.  The condition is sharp at both ends: style 0 makes LINE cells with
  mask 0, for which the glyph table holds U+0000, and style 4 shifted to the west arm leaves the 256-entry table. -/

/-- Style 0: `hline_at(0, 0, 1, 0, CAP_BOTH)` on a 1×2 buffer makes LINE cells with mask 0; the flush prints the table's
    entry 0, the NUL character, which is no picture of a line segment. -/
theorem line_style_zero_counterexample :
    ((RB.run (RB.new 1 2 0 0) [.hlineAt 0 0 1 0 3]).cell 0 0).lmask = 0 ∧
    ¬ FlushSpec (RB.run (RB.new 1 2 0 0) [.hlineAt 0 0 1 0 3]) := by
  refine ⟨by decide +kernel, ?_⟩
  intro h
  have := (h blankTerm (by decide +kernel)).2 0 0
  revert this
  decide +kernel

/-- Style 4: the west arm `4 << WEST_SHIFT` is 256: the mask indexes past the end of `linemask_to_char`. -/
theorem line_style_four_mask_out_of_table :
    ((RB.run (RB.new 1 2 0 0) [.hlineAt 0 0 1 4 3]).cell 0 1).lmask = 272 ∧
    Tickit.Gen.LineChars.linemaskToChar.size = 256 := by
  decide +kernel

/-- Everything to the right of a text lands in its own column: after the requests of a TEXT run the terminal cursor
    has advanced by exactly the run's columns, whatever part of the text the run shows (when the run ends at the
    terminal's last column the cursor is on that column, pending wrap or not, and the line is finished). -/
theorem text_run_advances (rb : RB) (line col : Int) (hl : 0 ≤ line ∧ line < rb.lines) (h0 : 0 ≤ col)
    (hr : RunAt rb line col) (hs : (rb.cell line col).state = .text) (t : GridTerm) (hcw : rb.cols ≤ t.cols)
    (ht : t.line = line ∧ t.col = col) (hroom : col + (rb.cell line col).cols < t.cols) :
    (t.run (textReqs (rb.cell line col))).col = col + (rb.cell line col).cols :=
  (text_run hl h0 hr hs t (by have := hr.fits; omega) ht).2 hroom

/-! ### Non-vacuity: a buffer with a text cut inside a double-width character on both sides -/

/-- `"x" U+FF21 "yz" U+4E00` at column 0 of a 1×8 buffer, then `Q` over column 1 (left half of U+FF21) and an erase over
    columns 6-7 (right half of U+4E00 and beyond): runs `T1 H1 T4 E2`, the text run at columns 2-5 starts inside a
    double-width character and ends inside another. -/
def exampleRB : RB :=
  eraseAt (charAt (textAt (RB.new 1 8 0 0) 0 0 [0x78, 0xef, 0xbc, 0xa1, 0x79, 0x7a, 0xe4, 0xb8, 0x80]) 0 1 0x51) 0 6 2

theorem exampleRB_requests :
    (flushToTerm exampleRB).reqs =
      [.goto 0 0, .setpen Pen.empty, .print [0x78, 0xef, 0xbc, 0xa1, 0x79, 0x7a, 0xe4, 0xb8, 0x80] 0 1,
       .setpen Pen.empty, .print [0x51] 0 1,
       .setpen Pen.empty, .erasech 1 .yes, .print [0x78, 0xef, 0xbc, 0xa1, 0x79, 0x7a, 0xe4, 0xb8, 0x80] 4 2,
       .erasech 1 .yes,
       .setpen Pen.empty, .erasech 2 .maybe] := by
  decide +kernel

/-- The hypotheses of `flush_spec` hold of the example (decided by `flushWFb`). -/
theorem exampleRB_wf : FlushWF exampleRB := flushWF_of_flushWFb (by decide +kernel)

/-- … so `flush_spec` applies to it: a text cut inside double-width characters on both sides is flushed correctly. -/
example : FlushSpec exampleRB := flush_spec exampleRB exampleRB_wf

/-- A second instance: erase followed by content (`moveend = YES`), an erase before a skip (`MAYBE`, any oracle), a
    one-column char and a batch of line cells. -/
example : FlushSpec (hlineAt (eraseAt (eraseAt (charAt (RB.new 2 6 0 0) 0 2 0x41) 0 0 2) 0 3 1) 1 1 4 1 3) :=
  flush_spec _ (flushWF_of_flushWFb (by decide +kernel))

/-! ## The columns of a text -/

/-- **text_columns**: for every text the width counter accepts (`decode s = some cs`: its characters, each with the
    library's `tickit_utf8_wcwidth` as width), the library's own counting (`tickit_utf8_count` without limit) finds
    `Σ width` columns, and the terminal advances by exactly as many when the text is printed with room for it on the
    line (zero-width characters do not move it, double-width ones move it by two; `col = cols` afterwards is the
    pending-wrap state).  The columns a *run* of the text advances the terminal by are
    the run's columns: `text_run_advances`. -/
theorem text_columns (s : List UInt8) (cs : List Ch) (hdec : decode s = some cs) (t : GridTerm) :
    (RB.Utf8.ncountmore s none {} (some ⟨-1, -1, -1, -1⟩)).pos.columns = chCols cs ∧
    (∀ c ∈ cs, c.width = RB.Utf8.wcwidth c.cp) ∧
    (t.col + chCols cs ≤ t.cols → (t.printBytes (s.take (bytesLen cs))).col = t.col + chCols cs) := by
  have hp := decodeFrom_props s cs _ 0 hdec
  refine ⟨?_, fun c hc => (hp c hc).2.1, fun hroom => ?_⟩
  · have := ncountmore_spec s cs hdec ⟨-1, -1, -1, -1⟩ rfl rfl 0 (by omega)
      (by unfold Within; exact ⟨Or.inl rfl, Or.inl rfl⟩)
    simp only [List.take_zero, advance, List.drop_zero, prefixLen_nolimit, List.take_length] at this
    rw [this, advance_columns]
    simp
  · have hb := decodeFrom_bytes s cs.length cs _ 0 hdec
    rw [List.take_length, List.drop_zero] at hb
    rw [hb, printBytes_chars cs hp, putChs_col cs (fun c hc => by have := (hp c hc).2.2; omega) t hroom]

/-- The same for the number `put_string` goes by (`tickit_utf8_ncount` over the whole string, the columns the text
    occupies in the buffer and the virtual cursor advances by — C03 `cursor_advances`): it is the sum of the widths, and
    the terminal advances by exactly that number. -/
theorem text_columns_put_string (s : List UInt8) (n : Int) (h : RB.Utf8.stringColumns s = some n) (t : GridTerm)
    (hroom : t.col + n ≤ t.cols) :
    ∃ cs, decode s = some cs ∧ chCols cs = n ∧ (t.printBytes (s.take (bytesLen cs))).col = t.col + n := by
  obtain ⟨cs, hcs, hn⟩ := decode_of_stringColumns s n h
  exact ⟨cs, hcs, hn, by rw [(text_columns s cs hcs t).2.2 (by rw [hn]; exact hroom), hn]⟩

/-- Non-vacuity: `a`, U+0301 (zero-width), U+FF21 (double-width), `b` occupy 1 + 0 + 2 + 1 = 4 columns. -/
example : (decode [0x61, 0xcc, 0x81, 0xef, 0xbc, 0xa1, 0x62]).map (fun cs => (cs.length, chCols cs, bytesLen cs)) =
    some (4, 4, 7) := by decide +kernel

/-! ## The known finding: a CHAR cell that is not one column wide -/

/-- The full statement of C04: `FlushSpec` for every well-formed buffer, *whatever* code point a CHAR cell holds.
    `flush_spec` is this statement under the hypothesis (`CharOK` in `FlushWF`) that excludes exactly the trigger of
    the known finding `char_not_one_column`. -/
def C04_full : Prop := ∀ rb : RB, FlushWFP (fun _ => True) rb → FlushSpec rb

/-- `tickit_renderbuffer_char_at(rb, 0, 1, 0xFF21)` on an empty 1×4 buffer. -/
def charWideRB : RB := charAt (RB.new 1 4 0 0) 0 1 0xff21

/-- Counterexample (known finding): the double-width U+FF21 in a CHAR cell spills into column 2, a skipped cell. -/
theorem C04_full_counterexample : ¬ C04_full := by
  intro h
  have hwf : FlushWFP (fun _ => True) charWideRB :=
    flushWFP_of_flushWFPb (okb := fun _ => true) (fun _ _ => trivial) (by decide +kernel)
  have := (h charWideRB hwf blankTerm (by decide +kernel)).2 0 2
  revert this
  decide +kernel

/-- … and the hypothesis of `flush_spec` is what rules it out. -/
theorem charWide_not_charOK : ¬ CharOK 0xff21 := by
  unfold CharOK; decide +kernel

/-! ## The code before the repair of the TEXT case (fixes/C04_flush_wide_cut.patch) -/

/-- `FlushSpec` of the flush as it was before the repair. -/
def FlushSpecOld (rb : RB) : Prop :=
  ∀ t : GridTerm, rb.cols ≤ t.cols →
    (flushToTermOld rb).out = .ok ∧
    ∀ l c, cellOK (want rb l c) (t.cells l c) ((t.run (flushToTermOld rb).reqs).cells l c) = true

/-- `"x" U+FF21 "yz"` at column 0, then `Q` over column 2 (the right half of U+FF21). -/
def cutRB : RB := charAt (textAt (RB.new 1 6 0 0) 0 0 [0x78, 0xef, 0xbc, 0xa1, 0x79, 0x7a]) 0 2 0x51

/-- Before the repair the three runs were printed back to back without a goto: `x`, `Q`, `yz` — the terminal shows
    `xQyz` in columns 0-3 although `Q` belongs in column 2 and `yz` in columns 3-4. -/
theorem flush_old_requests :
    (flushToTermOld cutRB).reqs =
      [.goto 0 0, .setpen Pen.empty, .print [0x78, 0xef, 0xbc, 0xa1, 0x79, 0x7a] 0 1,
       .setpen Pen.empty, .print [0x51] 0 1,
       .setpen Pen.empty, .print [0x78, 0xef, 0xbc, 0xa1, 0x79, 0x7a] 4 2] := by
  decide +kernel

/-- Counterexample (repaired): a well-formed buffer on which the old flush violates the specification (column 2 shows
    `y`, not `Q`). -/
theorem flush_old_wide_cut_counterexample : FlushWF cutRB ∧ ¬ FlushSpecOld cutRB := by
  refine ⟨flushWF_of_flushWFb (by decide +kernel), ?_⟩
  intro h
  have := (h blankTerm (by decide +kernel)).2 0 2
  revert this
  decide +kernel

/-- The repaired flush is correct on it (an instance of `flush_spec`). -/
example : FlushSpec cutRB := flush_spec cutRB flush_old_wide_cut_counterexample.1

/-- U+231A `z` at column 4 of a 1×5 buffer: only the left half of the double-width character is inside. -/
def edgeRB : RB := textAt (RB.new 1 5 0 0) 0 4 [0xe2, 0x8c, 0x9a, 0x7a]

/-- Counterexample (repaired): before the repair the slice was empty and was printed all the same — a request of length
    0, which `write_str` takes as "use strlen": through that path the terminal receives the whole rest of the string and
    column 5, outside the buffer, is overwritten. -/
theorem flush_old_zero_length_counterexample :
    (flushToTermOld edgeRB).reqs = [.goto 0 4, .setpen Pen.empty, .print [0xe2, 0x8c, 0x9a, 0x7a] 0 0] ∧
    (({ blankTerm with viaWriteStr := true }).run (flushToTermOld edgeRB).reqs).cells 0 5 ≠ blankTerm.cells 0 5 := by
  decide +kernel

/-! ## Below the render buffer: the UTF-8 encoder, the xterm driver, the output buffer (third configuration)

  The flush hands its requests to a terminal object.  With the library's real xterm driver each request becomes
  `write_str` calls (`RBFlushX.reqCalls`: goto / SGR / the text / ECH + CUF or spaces), which pass through the output
  buffer of src/term.c to the output function.  The statements below are about those layers; the differential check
  drives them with the real code (harness configuration `termx`) and evaluates `xcellOK` - the property's words - on the
  screen a VT shows after reading the bytes. -/

open Tickit.RBFlushX in
/-- **utf8_seqlen_source**: the model's `tickit_utf8_seqlen` is the function of the working tree (`Gen.Width`, translated
    from src/utf8.c on every run). -/
theorem utf8_seqlen_source (cp : Int) :
    ((Tickit.RB.Utf8.seqlen cp : Nat) : Int) = Tickit.Gen.Width.tickit_utf8_seqlen cp := seqlen_src cp

open Tickit.RBFlushX in
/-- **char_encoding**: for every code point `1 … 0x1FFFFF` (every one- to four-byte form, the edges U+7F/U+80,
    U+7FF/U+800, U+FFFF/U+10000 included) `tickit_utf8_put` writes the UTF-8 form of the Unicode Standard, and the
    library's own decoder reads it back as that code point, all bytes consumed. -/
theorem char_encoding (cp : Nat) (h0 : 0 < cp) (h : cp < 0x200000) :
    Tickit.RB.Utf8.put cp = stdUtf8 cp ∧
    Tickit.RB.Utf8.nextUtf8 (Tickit.RB.Utf8.put cp) 0 (some (Tickit.RB.Utf8.put cp).length) =
      some ⟨(Tickit.RB.Utf8.put cp).length, cp⟩ := by
  rw [put_eq_stdUtf8 cp h]
  exact ⟨rfl, nextUtf8_stdUtf8 cp h0 h⟩

/-- Non-vacuity, at the boundary between the three- and the four-byte form. -/
example : Tickit.RB.Utf8.put 0xFFFF = [0xEF, 0xBF, 0xBF] ∧ Tickit.RB.Utf8.put 0x10000 = [0xF0, 0x90, 0x80, 0x80] ∧
    Tickit.RBFlushX.stdUtf8 0x10000 = [0xF0, 0x90, 0x80, 0x80] := by decide

/-- **charOK_iff_width**: the hypothesis `CharOK` of `flush_spec` is exactly "the library's width of the code point is
    1" - the encoding half holds for every code point. -/
theorem charOK_iff_width (cp : Int) (h0 : 0 < cp) (h : cp < 0x200000) :
    CharOK cp ↔ Tickit.RB.Utf8.wcwidth cp.toNat = 1 := by
  constructor
  · exact fun hc => hc.2
  · exact fun hw => ⟨(char_encoding cp.toNat (by omega) (by omega)).2, hw⟩

open Tickit.RBFlushX in
/-- **char_cell_requests**: what the flush does at a CHAR cell: (a goto unless the cursor is there,) the cell's pen, and
    one print request whose bytes are the UTF-8 form of the cell's code point. -/
theorem char_cell_requests (txt : Cell → List Req) (rb : RB) (line col phycol : Int) (fuel : Nat)
    (hc : col < rb.cols) (hs : (rb.cell line col).state = .char) (hcp : (rb.cell line col).cp.toNat < 0x200000) :
    flushCols txt rb line (fuel + 1) col phycol =
      andThen (gotoIf phycol line col ++
          [.setpen (rb.cell line col).pen,
           .print (stdUtf8 (rb.cell line col).cp.toNat) 0 (stdUtf8 (rb.cell line col).cp.toNat).length])
        (flushCols txt rb line fuel (col + (rb.cell line col).cols) (col + (rb.cell line col).cols)) := by
  have hn : ¬ ¬ col < rb.cols := fun h => h hc
  simp only [flushCols, if_neg hn, hs, put_eq_stdUtf8 _ hcp]

open Tickit.RBFlushX in
/-- **char_cell_on_vt**: that print request reaches the xterm driver's `write_str` as exactly those bytes, and a VT
    in its ground state that reads them prints the code point (`putCp`: at the cursor, in the current rendition, one or
    two columns by the width tables) - "every character cell appears … as that character". -/
theorem char_cell_on_vt (caps : TermPen.Caps) (cache : Pen) (cp : Nat) (hp : Printable cp) (s : XScreen)
    (hg : s.ps = .ground) :
    reqCalls caps cache (.print (Tickit.RB.Utf8.put cp) 0 (Tickit.RB.Utf8.put cp).length) = [stdUtf8 cp] ∧
    s.interp (stdUtf8 cp) = s.putCp cp := by
  refine ⟨?_, XScreen.interp_stdUtf8 s hg cp hp⟩
  rw [put_eq_stdUtf8 cp (by unfold Printable at hp; omega)]
  have hl : (stdUtf8 cp).length ≠ 0 := stdUtf8_length_ne cp
  have hne : (stdUtf8 cp).isEmpty = false := by
    cases h : stdUtf8 cp with
    | nil => rw [h] at hl; simp at hl
    | cons a r => rfl
  simp only [reqCalls, if_neg hl, List.drop_zero, List.take_length, call, hne]
  rfl

/-- Non-vacuity: U+10000 is printable; the screen shows it in one column. -/
example : Tickit.RBFlushX.Printable 0x10000 ∧ Tickit.RB.Utf8.wcwidth 0x10000 = 1 := by decide +kernel

open Tickit.RBFlushX in
/-- **goto_on_vt**: the bytes the xterm driver writes for a goto request of the flush are read by the VT as "cursor to
    that line and column" (clamped to the screen, ending a pending wrap) and nothing else. -/
theorem goto_on_vt (caps : TermPen.Caps) (cache : Pen) (s : XScreen) (hg : s.ps = .ground) (line col : Int)
    (hl : 0 ≤ line) (hc : 0 ≤ col) :
    s.interp (reqCalls caps cache (.goto line col)).flatten = s.moveTo line col := by
  simp only [reqCalls, call_flatten]
  exact XScreen.interp_gotoAbs s hg line col hl hc

open Tickit.RBFlushX in
/-- **erase_on_vt**: outside reverse video an erase request of `n ≥ 1` cells is read as ECH - `n` cells from the
    cursor blank in the current background, cursor and pending wrap untouched - followed by "cursor right by `n`"
    exactly when the flush asked for the cursor to move (`TICKIT_YES`); with `TICKIT_MAYBE` the cursor stays, which is
    the outcome the flush allows for by sending a goto before the next run. -/
theorem erase_on_vt (caps : TermPen.Caps) (cache : Pen) (hrv : Pen.getBool cache.reverse = false) (s : XScreen)
    (hg : s.ps = .ground) (n : Int) (hn : 1 ≤ n) (m : MaybeBool) :
    s.interp (reqCalls caps cache (.erasech n m)).flatten =
      if m = .yes then (s.ech n).moveTo s.row (s.col + n) else s.ech n := by
  simp only [reqCalls, hrv]
  exact interp_erase s hg n hn m

open Tickit.RBFlushX in
/-- **text_on_vt**: a print request whose bytes are well-formed UTF-8 of printable code points is read as those code
    points printed one after the other (`putCp`: one or two columns by the width tables, zero-width characters joining
    the previous one): the columns the terminal advances by are the widths the library counted. -/
theorem text_on_vt (caps : TermPen.Caps) (cache : Pen) (cps : List Nat) (hp : ∀ cp ∈ cps, Printable cp) (s : XScreen)
    (hg : s.ps = .ground) :
    s.interp (reqCalls caps cache (.print (cps.flatMap stdUtf8) 0 (cps.flatMap stdUtf8).length)).flatten =
      cps.foldl XScreen.putCp s := by
  rw [← XScreen.interp_text cps hp s hg]
  simp only [reqCalls, List.drop_zero, List.take_length]
  split
  · rename_i h0
    have : cps.flatMap stdUtf8 = [] := List.length_eq_zero_iff.1 h0
    simp [this]
  · rw [call_flatten]

/-- Non-vacuity: goto (2, 5) on a 4 x 10 screen; an erase of three cells with the cursor moving on. -/
example : ((Tickit.RBFlushX.XScreen.fresh 4 10).interp
      (Tickit.RBFlushX.reqCalls ⟨false, false⟩ {} (.goto 2 5)).flatten).row = 2 ∧
    ((Tickit.RBFlushX.XScreen.fresh 4 10).interp
      (Tickit.RBFlushX.reqCalls ⟨false, false⟩ {} (.erasech 3 .yes)).flatten).col = 3 := by decide +kernel

open Tickit.RBFlushX in
/-- **flush_stream_any_buffer**: with the real xterm driver, the bytes the output function receives from a flush
    followed by `tickit_term_flush` - through an output buffer of *any* size `n` (`0`: none), starting with nothing
    pending - are the driver's writes in the order the flush made them: the output buffer neither drops, repeats nor
    reorders a byte (in particular a run longer than the whole buffer comes after the goto and the SGR sequence written
    before it), and the model of `write_str` never leaves the buffer's bounds (`ok`). -/
theorem flush_stream_any_buffer (caps : TermPen.Caps) (n : Nat) (cache : Pen) (rb : RB) :
    (xflush caps n cache (flushToTerm rb).reqs).ok = true ∧
    (xflush caps n cache (flushToTerm rb).reqs).stream = (reqsCalls caps cache (flushToTerm rb).reqs).flatten :=
  xflush_stream caps n cache _

open Tickit.RBFlushX in
/-- **flush_stream_buffer_independent**: what the terminal receives does not depend on the size of the output buffer. -/
theorem flush_stream_buffer_independent (caps : TermPen.Caps) (n m : Nat) (cache : Pen) (rb : RB) :
    (xflush caps n cache (flushToTerm rb).reqs).stream = (xflush caps m cache (flushToTerm rb).reqs).stream := by
  rw [(xflush_stream caps n cache _).2, (xflush_stream caps m cache _).2]

open Tickit.RBFlushX in
/-- Non-vacuity: `exampleRB` through a 4-byte output buffer - seven full chunks during the flush, the rest on
    `tickit_term_flush` - and without a buffer: the same bytes. -/
example :
    ((xflush ⟨false, false⟩ 4 {} (flushToTerm exampleRB).reqs).during.all (·.length == 4)) = true ∧
    (xflush ⟨false, false⟩ 4 {} (flushToTerm exampleRB).reqs).stream =
      (xflush ⟨false, false⟩ 0 {} (flushToTerm exampleRB).reqs).stream ∧
    (xflush ⟨false, false⟩ 4 {} (flushToTerm exampleRB).reqs).stream.length > 4 := by decide +kernel

open Tickit.RBFlushX in
/-- The statement about the end result in the third configuration (**open**, evaluated by the differential check on
    every flush of the `termx` configuration): for a well-formed buffer whose content lies within the screen, whose pens
    the driver can say in SGR, whose texts are well-formed UTF-8 and whose CHAR cells are printable, flushed through an
    output buffer of any size to a VT whose rendition is in step with `tt->pen`, every screen cell satisfies the
    obligation of the buffer's content (`xcellOK`: glyph, all rendering attributes, written exactly once; untouched
    where the buffer skips).  Proved: the output-buffer layer (`flush_stream_any_buffer`), the encoder and the
    terminal's reading of a character cell (`char_encoding`, `char_cell_on_vt`), the terminal's reading of the driver's
    goto, erase (outside reverse video) and text bytes as the cursor movement, ECH (+ CUF) and printed code points they
    stand for (`goto_on_vt`, `erase_on_vt`, `text_on_vt`), and, on the grid terminal, the whole statement
    (`flush_spec_screen`); the reading of the SGR bytes as the pen (`sgr_on_vt`, `setpen_on_vt`), the simulation between
    the grid terminal and the VT screen request by request (`request_on_vt_is_grid_step`) and over a whole request list,
    and the statement itself under two extra hypotheses about the request list and the erase cells
    (`C04_xterm_screen_partial` below, which also says what is still missing). -/
def C04_xterm_screen : Prop :=
  ∀ (caps : TermPen.Caps) (n : Nat) (rb : RB) (s : XScreen) (cache : Pen),
    FlushWF rb → (∀ l c, s.lines ≤ l ∨ s.cols ≤ c → want rb l c = .keep) →
    (∀ l c, PenEncodable caps (rb.cell l c).pen) → TextsStrict rb → CharsPrintable rb →
    s.ps = .ground → PenTotal cache → PenEncodable caps cache → s.attrs = expectAttrs caps cache →
    ∀ l c, 0 ≤ l → l < s.lines → 0 ≤ c → c < s.cols →
      xcellOK caps (want rb l c) (s.cells l c)
        ((s.interp (xflush caps n cache (flushToTerm rb).reqs).stream).cells l c) = true

/-! ### The chain below `C04_xterm_screen`: SGR reading, one request on the VT = the grid terminal's step, whole flush -/

open Tickit.RBFlushX in
/-- **sgr_on_vt**: the VT screen's tokenizer reads `ESC [ params m` as the xterm driver's `chpen` renders it (either
    separator) as one SGR control sequence with exactly the parameter groups C10's parser sees; only the rendition
    changes, by C10's SGR interpreter applied to those groups. -/
theorem sgr_on_vt (colon : Bool) (ps : List TermPen.Param) (s : XScreen) (hg : s.ps = .ground) :
    s.interp (toBytes (TermPen.renderSgr colon ps)) =
      { s with attrs := Sgr.sgrApply (Tickit.Proof.Sgr.groupsFlat colon ps [] []) s.attrs } :=
  XScreen.interp_renderSgr colon ps s hg

open Tickit.RBFlushX in
/-- **setpen_on_vt**: a setpen request of the flush reaches the VT as the delta of `tickit_term_setpen` against
    `tt->pen`, rendered by the driver's `chpen`; a VT screen whose rendition is in step with `tt->pen` reads it as
    "rendition := what `tt->pen` asks for afterwards" and nothing else - every cached pen and requested pen the driver
    can say in SGR, both separators, with and without RGB (C10's `step_inv` carried over to the VT screen). -/
theorem setpen_on_vt (caps : TermPen.Caps) (cache p : Pen) (s : XScreen) (hg : s.ps = .ground)
    (ha : s.attrs = expectAttrs caps cache) (hc : PenEncodable caps cache) (hp : PenEncodable caps p) :
    s.interp (reqCalls caps cache (.setpen p)).flatten = { s with attrs := expectAttrs caps (termSetpen cache p) } ∧
    PenEncodable caps (termSetpen cache p) ∧ PenTotal (termSetpen cache p) :=
  ⟨interp_setpen caps cache p s hg ha hc hp, penEncodable_termSetpen caps cache p hc hp, penTotal_termSetpen cache p⟩

/-- Non-vacuity: bold red requested of a terminal whose `tt->pen` is still empty: every attribute is sent, and the VT
    screen renders bold red afterwards. -/
example :
    (Tickit.RBFlushX.reqCalls ⟨false, false⟩ {} (.setpen { fg := some ⟨1, none⟩, bold := some true })).flatten.length > 7 ∧
    ((Tickit.RBFlushX.XScreen.fresh 2 4).interp
      (Tickit.RBFlushX.reqCalls ⟨false, false⟩ {} (.setpen { fg := some ⟨1, none⟩, bold := some true })).flatten).attrs =
      { fg := .idx 1, bold := true } := by decide +kernel

open Tickit.RBFlushX in
/-- **request_on_vt_is_grid_step**: one request of the flush that the simulation covers (`ReqOK`: a goto, a setpen
    with a pen the driver can say, an erase outside reverse video, a print of well-formed UTF-8 of printable characters
    of two, one or no columns that fit on the line - CHAR cells, TEXT runs, LINE batches), read by the VT screen as
    the bytes the xterm driver writes for it, does what the request does on the grid terminal of `flush_spec_screen`:
    the two terminals stay in step (`Sim`: same glyphs, same write counts, each written VT cell in the rendition its
    grid cell's pen asks for, VT rendition = `tt->pen`), the cursors agree once a goto has been seen (`Cur`). -/
theorem request_on_vt_is_grid_step {caps : TermPen.Caps} {t0 t : GridTerm} {s0 s : XScreen} (h : Sim caps t0 s0 t s)
    (moved : Bool) (hcur : moved = true → Cur t0 t s) (r : Req) (hr : ReqOK caps moved t r) :
    Sim caps t0 s0 (t.stepL s.lines r) (s.interp (reqCalls caps t.pen r).flatten) ∧
    (movedAfter moved r = true → Cur t0 (t.stepL s.lines r) (s.interp (reqCalls caps t.pen r).flatten)) :=
  ⟨(req_sim h moved hcur r hr).1, (req_sim h moved hcur r hr).2.1⟩

open Tickit.RBFlushX in
/-- **xterm_screen_of_runOK**: `C04_xterm_screen` under two extra hypotheses - the requests of the flush are ones
    the simulation covers (`RunOK`, evaluated along the grid terminal's run: gotos at non-negative positions, pens the
    driver can say, erases outside reverse video, print requests whose bytes are well-formed UTF-8 of printable
    characters that fit on the line)
    and no erase cell asks for reverse video.  Then, through an output buffer of any size, every cell of the VT screen
    (inside and outside the buffer's area) meets the obligation of the buffer's content: glyph, the rendition its own
    pen asks for, written exactly once; untouched where the buffer skips.  The composition: `flush_stream_any_buffer`
    (the bytes are the driver's writes in order), `reqs_sim` (the VT screen stays in step with the grid terminal),
    `flush_spec_screen` (the grid terminal meets `cellOK`), `sim_xcellOK`. -/
theorem xterm_screen_of_runOK (caps : TermPen.Caps) (n : Nat) (rb : RB) (s : XScreen) (cache : Pen)
    (hwf : FlushWF rb) (hin : ∀ l c, s.lines ≤ l ∨ s.cols ≤ c → want rb l c = .keep)
    (hl : 0 < s.lines) (hc : 0 < s.cols) (hg : s.ps = .ground) (he : PenEncodable caps cache)
    (ha : s.attrs = expectAttrs caps cache)
    (hrun : RunOK caps s.lines false (gridOf s cache) (flushToTerm rb).reqs)
    (hrv : ∀ l c p, want rb l c = .glyph .blank p → Pen.getBool p.reverse = false) :
    ∀ l c, xcellOK caps (want rb l c) (s.cells l c)
      ((s.interp (xflush caps n cache (flushToTerm rb).reqs).stream).cells l c) = true := by
  intro l c
  rw [(flush_stream_any_buffer caps n cache rb).2]
  have h0 := sim_init caps s cache hl hc hg ha he
  have hs : Sim caps (gridOf s cache) s ((gridOf s cache).runL s.lines (flushToTerm rb).reqs)
      (s.interp (reqsCalls caps cache (flushToTerm rb).reqs).flatten) :=
    reqs_sim (flushToTerm rb).reqs (gridOf s cache) s false h0 (by intro h; cases h) hrun
  obtain ⟨_, _, hcell⟩ := flush_spec_screen rb hwf (gridOf s cache) s.lines hin
  exact sim_xcellOK hs l c _ rfl (hrv l c) (hcell l c)

open Tickit.RBFlushX in
/-- **C04_xterm_screen_partial**: `C04_xterm_screen` under two extra hypotheses, both about the buffer's requests and
    content alone: `StaticOK` of the flush's request list (every erase and print comes after a goto; erases have at
    least one cell, are not `TICKIT_NO` and come when the last pen set has no reverse video; the bytes of every print
    request are well-formed UTF-8 of printable code points that have a width; pens the driver can say; columns not
    negative) and no erase cell asking for reverse video.  That the requests fit the screen (no wrap, no clamped
    movement) is not assumed: it follows from "the content lies within the screen" (`Calm`, the by-product of
    `flush_spec_screen`'s proof; `runOK_of_calm`).  Conclusion as in `C04_xterm_screen`, for every cell of the screen
    (`xterm_screen_of_runOK`: also for the cells outside it): through an
    output buffer of any size the VT screen shows the buffer's content over the prior screen, each cell in the rendition
    its own pen asks for, written exactly once.  Still missing for `C04_xterm_screen` itself: `StaticOK` from `FlushWF`,
    `TextsStrict`, `CharsPrintable` and the pens of the cells (an induction over `flushCols`: the slices of TEXT runs, the
    glyphs of LINE batches), and erases under reverse video (the driver prints spaces: the VT cell then holds a space in
    full rendition, and the cursors part until the next goto - `Sim`/`Cur` would have to be weakened to `glyphSame`). -/
theorem C04_xterm_screen_partial (caps : TermPen.Caps) (n : Nat) (rb : RB) (s : XScreen) (cache : Pen)
    (hwf : FlushWF rb) (hin : ∀ l c, s.lines ≤ l ∨ s.cols ≤ c → want rb l c = .keep)
    (hg : s.ps = .ground) (he : PenEncodable caps cache) (ha : s.attrs = expectAttrs caps cache)
    (hst : StaticOK caps false (Pen.getBool cache.reverse) (flushToTerm rb).reqs)
    (hrv : ∀ l c p, want rb l c = .glyph .blank p → Pen.getBool p.reverse = false) :
    ∀ l c, 0 ≤ l → l < s.lines → 0 ≤ c → c < s.cols →
      xcellOK caps (want rb l c) (s.cells l c)
        ((s.interp (xflush caps n cache (flushToTerm rb).reqs).stream).cells l c) = true := by
  intro l c hl0 hl1 hc0 hc1
  have hl : 0 < s.lines := by omega
  have hc : 0 < s.cols := by omega
  obtain ⟨_, _, hcalm⟩ := flush_spec_of_text_within (W := (gridOf s cache).cols) (L := s.lines) hwf (within_of_want hin)
    (fun _ _ h1 h2 h3 hr hs => text_run ⟨h1, h2⟩ h3 hr hs) (gridOf s cache) (Int.le_refl _)
  exact xterm_screen_of_runOK caps n rb s cache hwf hin hl hc hg he ha
    (runOK_of_calm caps s.lines _ (gridOf s cache) false hcalm hst) hrv l c

/-- U+00E9 in a CHAR cell at (0,1) and an erase run of three cells on line 1 of a 2×4 buffer. -/
def simXRB : RB := eraseAt (charAt (RB.new 2 4 0 0) 0 1 0xe9) 1 0 3

theorem simXRB_requests :
    (flushToTerm simXRB).reqs =
      [.goto 0 1, .setpen Pen.empty, .print [0xc3, 0xa9] 0 2, .goto 1 0, .setpen Pen.empty, .erasech 3 .maybe] := by
  decide +kernel

open Tickit.RBFlushX in
/-- Non-vacuity: the hypotheses of `C04_xterm_screen_partial` hold of `simXRB` on a fresh 2×4 screen, and the VT screen
    shows `é` at (0,1) after reading the bytes that came through a 3-byte output buffer. -/
example : RunOK ⟨false, false⟩ (XScreen.fresh 2 4).lines false (gridOf (XScreen.fresh 2 4) {}) (flushToTerm simXRB).reqs := by
  rw [simXRB_requests]
  refine ⟨⟨by decide, by decide⟩, by unfold ReqOK PenEncodable; decide,
    ⟨rfl, by decide, [0xe9], by
      intro cp hcp
      simp only [List.mem_singleton] at hcp
      subst hcp
      exact ⟨by decide, by decide +kernel⟩, by decide, by simp only [Fits]; decide +kernel⟩,
    ⟨by decide, by decide⟩, by unfold ReqOK PenEncodable; decide,
    ⟨rfl, by decide, by decide, by decide +kernel⟩, trivial⟩

open Tickit.RBFlushX in
/-- Non-vacuity of `C04_xterm_screen_partial`: its hypothesis about the requests holds of `simXRB`. -/
example : StaticOK ⟨false, false⟩ false (Pen.getBool ({} : Pen).reverse) (flushToTerm simXRB).reqs := by
  rw [simXRB_requests]
  refine ⟨by decide, by unfold PenEncodable; decide,
    ⟨rfl, by decide, [0xe9], by
      intro cp hcp
      simp only [List.mem_singleton] at hcp
      subst hcp
      exact ⟨by decide, by decide +kernel⟩, by decide⟩,
    by decide, by unfold PenEncodable; decide, ⟨rfl, by decide, by decide, by decide⟩, trivial⟩

example :
    (((Tickit.RBFlushX.XScreen.fresh 2 4).interp
      (Tickit.RBFlushX.xflush ⟨false, false⟩ 3 {} (flushToTerm simXRB).reqs).stream).cells 0 1).glyph =
      .chars [0xc3, 0xa9] := by decide +kernel

/-! ### Pause and resume between two flushes ("for every prior terminal pen") -/

open Tickit.RBFlushX in
/-- `tickit_term_pause` + `tickit_term_resume` keep the terminal's rendition in step with `tt->pen` - the hypothesis
    `s.attrs = expectAttrs caps cache` under which `C04_xterm_screen` gives every cell of the next flush its own pen:
    whatever the terminal rendered with before (`a`), after the `CSI m` of the pause and the bytes `bs` of the
    `chpen(driver, tt->pen, tt->pen)` that ends `tickit_term_resume` it renders with what the cached pen asks for, for
    every cached pen the driver can say in SGR and either separator.  (`junk` counts SGR parameters unknown to the
    terminal; the driver sends none.) -/
theorem suspend_keeps_rendition_in_step (caps : TermPen.Caps) (cache : Pen) (bs : List Nat)
    (hok : Tickit.Proof.Sgr.DeltaOk caps (toTP cache))
    (h : TermPen.xtermChpen caps Tickit.Gen.Sgr.paramsCap (toTP cache) (toTP cache) = .bytes bs)
    (a : Sgr.Attrs) (hj : a.junk = 0) :
    resumePenCalls true caps cache = call (bs.map UInt8.ofNat) ∧
    Sgr.run (TermPen.renderSgr caps.colon [] ++ bs) ⟨.ground, a⟩ = ⟨.ground, TermPen.expectAttrs caps (toTP cache)⟩ := by
  refine ⟨by simp [resumePenCalls, drvChpenCalls, h], ?_⟩
  exact Tickit.Proof.RBFlushSuspend.resume_restores_pen caps _ (toTP cache) bs hok h a hj

/-- The pen reset of the pause as the working tree has it (regenerated literal) is the `CSI m` of the statement. -/
theorem pause_reset_source (colon : Bool) :
    Tickit.Gen.TermBuf.teardown_pen_reset = (TermPen.renderSgr colon []).map UInt8.ofNat := by
  cases colon <;> decide

open Tickit.RBFlushX in
/-- Non-vacuity: a bold green pen is sent again in full; and the last statement of `tickit_term_resume` is needed -
    without it (`resumePenCalls false`) nothing follows the reset, and the terminal renders a bold green pen's cells
    with the default attributes. -/
example :
    TermPen.xtermChpen ⟨false, false⟩ Tickit.Gen.Sgr.paramsCap (toTP { fg := some ⟨2, none⟩, bold := some true })
      (toTP { fg := some ⟨2, none⟩, bold := some true }) = .bytes [27, 91, 51, 50, 59, 49, 109] ∧
    resumePenCalls false ⟨false, false⟩ { fg := some ⟨2, none⟩, bold := some true } = [] ∧
    Sgr.run (TermPen.renderSgr false [])
        ⟨.ground, TermPen.expectAttrs ⟨false, false⟩ (toTP { fg := some ⟨2, none⟩, bold := some true })⟩ ≠
      ⟨.ground, TermPen.expectAttrs ⟨false, false⟩ (toTP { fg := some ⟨2, none⟩, bold := some true })⟩ := by
  decide +kernel

end Tickit.Props.C04
