import Tickit.Model.RBFlush
/-
  C04 — flushing a render buffer reproduces its content on the terminal exactly once.
  (theorems follow)
-/
namespace Tickit.Props.C04
end Tickit.Props.C04
