import Tickit.Model.LifeOps
import Tickit.Proof.LifeCopy
import Tickit.Gen.Life
/-
  Property C08 — no API history touches freed or foreign memory, and everything is released.

  What a Lean theorem can carry of this property is its logic: who holds which reference, when an object is
  freed, which pointers are followed afterwards, and the index arithmetic of the copy-out calls
  (DESIGN.md §7 C08).  The theorems are about the model `Tickit.Life` (Model/Life*.lean), which the `life`
  engine runs against the real library under ASan/UBSan/LSan on every check; that the C code's loads and stores
  agree with the model is observed there, not proved.
-/
namespace Tickit.Props.C08
open Tickit Tickit.Life

/-! ## bounded_copy — copy-out calls never write beyond the length given -/

/-- `tickit_renderbuffer_get_cell_text` / `tickit_renderbuffer_get_span` (through `get_span_text`, after the
    repair of the exact-fit store): for every span, offset, mode, buffer and length, every store into the
    caller's buffer is at an index `< len`. -/
theorem bounded_copy (span : Cell) (offset : Int) (oneGrapheme hasBuf : Bool) (len : Nat) (c : CopyOut)
    (h : getSpanText true span offset oneGrapheme hasBuf len = some c) :
    ∀ p ∈ c.stores, p.1 < len :=
  bounded_getSpanText h

/-- The source tree the check runs on contains the repair (regenerated from `get_span_text` on every run). -/
theorem bounded_copy_applies : Gen.Life.spanExactFit = true := by decide

/-- `tickit_utf8_put(buffer, len, codepoint)` stores only below `len`. -/
theorem bounded_copy_utf8_put (hasBuf : Bool) (len cp : Nat) :
    ∀ p ∈ (utf8Put hasBuf len cp).stores, p.1 < len :=
  bounded_utf8Put hasBuf len cp

/-- Non-vacuity: a TEXT span "hello", one grapheme at column 1, buffer of exactly one byte: one store, index 0. -/
example : getSpanText true { state := .text, cols := 5, text := [0x68, 0x65, 0x6c, 0x6c, 0x6f] } 1 true true 1
    = some ⟨1, [(0, 0x65)]⟩ := by decide

/-- Before the repair the same call stored the terminator at index `len`: the exact-fit overrun. -/
theorem span_text_exact_fit_counterexample :
    ¬ (∀ (span : Cell) (offset : Int) (og hasBuf : Bool) (len : Nat) (c : CopyOut),
        getSpanText false span offset og hasBuf len = some c → ∀ p ∈ c.stores, p.1 < len) := by
  intro h
  have := h { state := .text, cols := 5, text := [0x68, 0x65, 0x6c, 0x6c, 0x6f] } 1 true true 1
    ⟨1, [(0, 0x65), (1, 0)]⟩ (by decide) (1, 0) (by decide)
  exact absurd this (by decide)

/-- Full statement for `tickit_mockterm_get_display_text` (false: known finding `mockterm_display_text`). -/
def bounded_copy_display_full : Prop :=
  ∀ (hasBuf : Bool) (len : Nat) (cells : List (List UInt8)),
    ∀ p ∈ (displayText hasBuf len cells).stores, p.1 < len

theorem bounded_copy_display_counterexample : ¬ bounded_copy_display_full := by
  intro h
  have := h true 1 [[0x20]] (1, 0) (by decide)
  exact absurd this (by decide)

/-- What does hold: it never goes further than one byte past the length given (the terminator of a cell that
    fits exactly) — the convention the library's own tests rely on (`malloc(len + 1)`, pass `len`). -/
theorem bounded_copy_display_partial (hasBuf : Bool) (len : Nat) (cells : List (List UInt8)) :
    ∀ p ∈ (displayText hasBuf len cells).stores, p.1 ≤ len :=
  displayText_le hasBuf len cells

example : (displayText true 3 [[0x41], [0x42]]).stores = [(0, 0x41), (1, 0), (1, 0x42), (2, 0)] := by decide

end Tickit.Props.C08
