import Tickit.Model.LifeOps
import Tickit.Model.LifeTop
import Tickit.Proof.LifeCopy
import Tickit.Proof.LifeStep
import Tickit.Proof.LifePens
import Tickit.Proof.LifeKeys
import Tickit.Proof.LifeMouse
import Tickit.Proof.LifeTopSw
import Tickit.Proof.LifeTop
import Tickit.Proof.LifeTopEnd
import Tickit.Proof.LifeFrames
import Tickit.Proof.LifeOut
import Tickit.Model.LifeKids
import Tickit.Model.LifeProc
import Tickit.Model.LifeTmp
import Tickit.Proof.LifeTmp
import Tickit.Gen.Life
/-
  Property C08 — no API history touches freed or foreign memory, and everything is released.

  What a Lean theorem can carry of this property is its logic: who holds which reference, when an object is
  freed, which pointers are followed afterwards, and the index arithmetic of the copy-out calls
  (DESIGN.md §7 C08).  The theorems are about the model `Tickit.Life` (Model/Life*.lean), which the `life`
  engine runs against the real library under ASan/UBSan/LSan on every check, in the configuration extracted
  from the source tree (`Gen.Life`); that the C code's loads and stores agree with the model is observed there,
  not proved.
-/
namespace Tickit.Props.C08
open Tickit Tickit.Life

/-- The configuration of the model that mirrors the source tree (regenerated from `src/window.c` and
    `src/renderbuffer.c` on every run). -/
def extracted : Cfg :=
  ⟨Gen.Life.closePurges, Gen.Life.destroyClosesChildren, Gen.Life.spanExactFit, Gen.Life.mouseKeepsRoot,
   Gen.Life.lastPressInit, Gen.Life.dragForgottenOnClose, Gen.Life.snapshotRouting, Gen.Life.penCopyKeepsSrc⟩

/-- The source tree contains the repairs the theorems below need (close purges the queue and forgets the drag
    source, destroy closes a child before dropping its reference, `get_span_text` terminates only with room).
    A tree that loses one of them breaks this obligation at build time. -/
theorem extracted_repaired : Repaired extracted := ⟨by decide, by decide, by decide, by decide, by decide, by decide, by decide⟩

/-! ## bounded_copy — copy-out calls never write beyond the length given -/

/-- `tickit_renderbuffer_get_cell_text` / `tickit_renderbuffer_get_span` (through `get_span_text`, after the
    repair of the exact-fit store): for every span, offset, mode, buffer and length, every store into the
    caller's buffer is at an index `< len`. -/
theorem bounded_copy (span : Cell) (offset : Int) (oneGrapheme hasBuf : Bool) (len : Nat) (c : CopyOut)
    (h : getSpanText extracted.spanExactFit span offset oneGrapheme hasBuf len = some c) :
    ∀ p ∈ c.stores, p.1 < len := by
  rw [extracted_repaired.spanExactFit] at h
  exact bounded_getSpanText h

/-- `tickit_utf8_put(buffer, len, codepoint)` stores only below `len`. -/
theorem bounded_copy_utf8_put (hasBuf : Bool) (len cp : Nat) :
    ∀ p ∈ (utf8Put hasBuf len cp).stores, p.1 < len :=
  bounded_utf8Put hasBuf len cp

/-- Non-vacuity: a TEXT span "hello", one grapheme at column 1, buffer of exactly one byte: one store, index 0. -/
example : getSpanText true { state := .text, cols := 5, text := [0x68, 0x65, 0x6c, 0x6c, 0x6f] } 1 true true 1
    = some ⟨1, [(0, 0x65)]⟩ := by decide

/-- Before the repair the same call stored the terminator at index `len`: the exact-fit overrun. -/
theorem span_text_exact_fit_counterexample :
    ¬ (∀ (span : Cell) (offset : Int) (og hasBuf : Bool) (len : Nat) (c : CopyOut),
        getSpanText false span offset og hasBuf len = some c → ∀ p ∈ c.stores, p.1 < len) := by
  intro h
  have := h { state := .text, cols := 5, text := [0x68, 0x65, 0x6c, 0x6c, 0x6f] } 1 true true 1
    ⟨1, [(0, 0x65), (1, 0)]⟩ (by decide) (1, 0) (by decide)
  exact absurd this (by decide)

/-- Full statement for `tickit_mockterm_get_display_text` (false: known finding `mockterm_display_text`). -/
def bounded_copy_display_full : Prop :=
  ∀ (hasBuf : Bool) (len : Nat) (cells : List (List UInt8)),
    ∀ p ∈ (displayText hasBuf len cells).stores, p.1 < len

theorem bounded_copy_display_counterexample : ¬ bounded_copy_display_full := by
  intro h
  have := h true 1 [[0x20]] (1, 0) (by decide)
  exact absurd this (by decide)

/-- What does hold: it never goes further than one byte past the length given (the terminator of a cell that
    fits exactly) — the convention the library's own tests rely on (`malloc(len + 1)`, pass `len`). -/
theorem bounded_copy_display_partial (hasBuf : Bool) (len : Nat) (cells : List (List UInt8)) :
    ∀ p ∈ (displayText hasBuf len cells).stores, p.1 ≤ len :=
  displayText_le hasBuf len cells

example : (displayText true 3 [[0x41], [0x42]]).stores = [(0, 0x41), (1, 0), (1, 0x42), (2, 0)] := by decide

/-! ## no_ub — no history touches freed memory, dereferences NULL or aborts -/

/-- A history of operations that deliver no key or mouse event, possibly finished by `end`: the handler-free
    operations, and the pen operations whose `TICKIT_PEN_ON_CHANGE` handlers take and drop references to pens
    (`Op.penEvent`: set_colour_attr, set_colour_attr_desc, copy, copy_attr, bind, unbind). -/
def PlainHistory (ops : List Op) : Prop := ∀ op ∈ ops, op.plain = true ∨ op.penEvent = true ∨ op = .«end»

/-- **no_ub** (after the repairs): for every state satisfying the invariant and every history of window /
    pen / string / buffer / terminal operations in any order — references taken and dropped, windows closed or
    destroyed parents-first or children-first, restacking requests pending across close, unref and flush,
    copy-out calls with any buffer length — the model never touches a freed object, never dereferences NULL,
    never calls `abort()` and never runs out of its recursion budget; the invariant holds again at the end.
    (The application only passes handles it holds, and issues nothing but ref/unref/close on a window that is
    closed or lies below a closed one — `tickit_window_close(3)`; that is what `step` skips.) -/
theorem no_ub : ∀ (ops : List Op) (st : St), SInv .none st → PlainHistory ops →
    ∃ st', runOps extracted st ops = .ok st' ∧ SInv .none st'
  | [], st, inv, _ => ⟨st, rfl, inv⟩
  | op :: rest, st, inv, h => by
    have hrest : PlainHistory rest := fun o ho => h o (by simp [ho])
    rcases h op (by simp) with hp | hpe | he
    · obtain ⟨st1, r, hs, inv1⟩ := step_plain_ok extracted_repaired inv op hp (fun _ _ _ _ => ⟨rfl, rfl⟩)
      obtain ⟨st2, hr, inv2⟩ := no_ub rest st1 inv1 hrest
      exact ⟨st2, by unfold runOps; rw [hs]; exact hr, inv2⟩
    · obtain ⟨st1, r, hs, inv1, _⟩ := step_pen_ok extracted_repaired inv op hpe
      obtain ⟨st2, hr, inv2⟩ := no_ub rest st1 inv1 hrest
      exact ⟨st2, by unfold runOps; rw [hs]; exact hr, inv2⟩
    · subst he
      obtain ⟨st1, hd, inv1, _⟩ := dropAll_ok extracted_repaired inv
      obtain ⟨st2, hr, inv2⟩ := no_ub rest st1 inv1 hrest
      refine ⟨st2, ?_, inv2⟩
      unfold runOps step
      simp only [hd, bind_ok, pure_ok]
      exact hr

/-- The same, from the very beginning: a terminal and its root window. -/
theorem no_ub_from_start (lines cols : Int) (mock : Bool) (ops : List Op) (h : PlainHistory ops) :
    ∃ st', runOps extracted {} (.newTerm lines cols mock :: ops) = .ok st' ∧ SInv .none st' := by
  obtain ⟨st', hr, inv'⟩ := no_ub ops _ (SInv.init lines cols rfl rfl) h
  refine ⟨st', ?_, inv'⟩
  unfold runOps step
  exact hr

/-- Non-vacuity: the histories that crashed the library before the repairs are plain histories, and they now run
    to the end: parent destroyed while holding the child's last reference; `raise; close; flush`; close parent,
    unref child; a grandchild's request pending while its grandparent is closed and the grandchild dropped. -/
example : PlainHistory [.win 0 ⟨1, 1, 5, 10⟩ 0, .win 1 ⟨1, 1, 2, 3⟩ 0, .act (.unref 1), .«end»] := by
  intro op hop; simp at hop; rcases hop with rfl | rfl | rfl | rfl <;> simp [Op.plain]

example : (runOps extracted {} [.newTerm 10 20 false, .win 0 ⟨1, 1, 5, 10⟩ 0, .win 1 ⟨1, 1, 2, 3⟩ 0, .act (.unref 1), .«end»]).isOk
    = true := by decide +kernel

example : (runOps extracted {} [.newTerm 10 20 false, .win 0 ⟨1, 1, 5, 10⟩ 0, .act (.restack .raise 1), .act (.close 1),
    .act .flush, .«end»]).isOk = true := by decide +kernel

example : (runOps extracted {} [.newTerm 10 20 false, .win 0 ⟨1, 1, 5, 10⟩ 0, .win 1 ⟨1, 1, 2, 3⟩ 0, .win 2 ⟨0, 0, 1, 1⟩ 0,
    .act (.restack .raise 3), .act (.close 1), .act (.unref 3), .act .flush, .act (.unref 2), .act (.unref 1), .«end»]).isOk
    = true := by decide +kernel

/-- Non-vacuity for the pen operations: a change handler that drops the application's only reference to the pen
    while the pen is being set (the pen lives until `emit_change` lets go of it), a description that is applied inside
    freeze/thaw, a copy whose destination's handler drops the source. -/
example : PlainHistory [.pen, .pbind 0 [.unref 0], .pset 0 3, .«end»] := by
  intro op hop; simp at hop; rcases hop with rfl | rfl | rfl | rfl <;> simp [Op.plain, Op.penEvent]

example : (runOps extracted {} [.newTerm 6 12 false, .pen, .pbind 0 [.unref 0], .pset 0 3, .«end»]).isOk = true := by decide +kernel

example : (runOps extracted {} [.newTerm 6 12 false, .pen, .pen, .pset 1 3, .pbind 0 [.unref 1], .pcopy 0 1 true, .«end»]).isOk
    = true := by decide +kernel

/-! ### the defects, as theorems about the model of the unrepaired tree -/

/-- (0) `tickit_pen_copy` went on reading the source after the destination's change handlers had run: a handler that
    drops the last reference to the source frees it under the loop. -/
theorem pen_copy_src_dropped_counterexample :
    (runOps { Cfg.fixed with penCopyKeepsSrc := false } {}
      [.newTerm 6 12 false, .pen, .pen, .pset 1 3, .pbind 0 [.unref 1], .pcopy 0 1 true]).isOk = false := by
  decide +kernel


/-- (1) `tickit_window_destroy` wrote `child->parent = NULL` into the child its own unref had just freed:
    root > 1 > 2, `unref 1`. -/
theorem destroy_parent_first_counterexample :
    (runOps Cfg.orig {} [.newTerm 10 20 false, .win 0 ⟨1, 1, 5, 10⟩ 0, .win 1 ⟨1, 1, 2, 3⟩ 0, .act (.unref 1)]).isOk = false := by
  decide +kernel

/-- (2) `tickit_window_close` left the queued restack request behind: `raise 1; close 1; flush` dereferences NULL
    in `_do_hierarchy_raise`. -/
theorem raise_close_flush_counterexample :
    (runOps Cfg.orig {} [.newTerm 10 20 false, .win 0 ⟨1, 1, 5, 10⟩ 0, .act (.restack .raise 1), .act (.close 1),
      .act .flush]).isOk = false := by
  decide +kernel

/-- (2b) after closing a parent, dropping the child `abort()`ed in `_get_root` ("orphaned window"). -/
theorem close_parent_unref_child_counterexample :
    (runOps Cfg.orig {} [.newTerm 10 20 false, .win 0 ⟨1, 1, 5, 10⟩ 0, .win 1 ⟨1, 1, 2, 3⟩ 0, .act (.close 1),
      .act (.unref 2)]).isOk = false := by
  decide +kernel

/-- With only the children loop of destroy repaired, a request queued for a grandchild still dangles: both
    repairs are needed. -/
theorem both_repairs_needed :
    (runOps { Cfg.fixed with closePurges := false, dragForgottenOnClose := false } {}
      [.newTerm 10 20 false, .win 0 ⟨1, 1, 5, 10⟩ 0, .win 1 ⟨1, 1, 2, 3⟩ 0, .win 2 ⟨0, 0, 1, 1⟩ 0,
       .act (.restack .raise 3), .act (.unref 1), .act .flush]).isOk = false := by
  decide +kernel

theorem runOps_append (cfg : Cfg) : ∀ (ops1 ops2 : List Op) (s0 s1 : St), runOps cfg s0 ops1 = .ok s1 →
    runOps cfg s0 (ops1 ++ ops2) = runOps cfg s1 ops2
  | [], ops2, s0, s1, h => by simp only [runOps, Out.ok.injEq] at h; subst h; rfl
  | o :: rest, ops2, s0, s1, h => by
    rw [List.cons_append, runOps]
    rw [runOps] at h
    cases hs : step cfg s0 o with
    | ok p =>
      simp only [hs] at h ⊢
      exact runOps_append cfg rest ops2 p.1 s1 h
    | ub k w => simp only [hs] at h; cases h
    | fuel => simp only [hs] at h; cases h

/-- The statement of `no_ub` for histories with event handlers: key and mouse events delivered to windows whose
    handlers call back into the library (the operation `bind` carries the handler's behaviour).  Not proved:
    see `handlers_counterexample` for why it is false as it stands, and `engines.d/C08.json` for what is open. -/
def no_ub_handlers_full : Prop :=
  ∀ (ops : List Op) (st : St), SInv .none st → (∀ op ∈ ops, op.plain = true ∨ op = .key ∨ (∃ m, op = .mouse m) ∨ op = .«end») →
    (runOps extracted st ops).isOk = true

/-- Known finding `cascade_steals_claim`: a mouse handler that drops its own window and its parent and claims the
    event; the dying parent takes the reference `_handle_mouse` returns for the claim.  The model of the current
    tree reproduces it. -/
theorem handlers_counterexample : ¬ no_ub_handlers_full := by
  intro h
  have h1 := no_ub_from_start 10 20 false
    [.win 0 ⟨0, 0, 4, 4⟩ 0, .win 1 ⟨0, 0, 2, 2⟩ 0, .bind 2 .mouse true [.unref 2, .unref 1]] (by
      intro op hop; simp at hop; rcases hop with rfl | rfl | rfl <;> simp [Op.plain])
  obtain ⟨st, hr, inv⟩ := h1
  have h2 := h [.mouse ⟨2, 1, 0, 0⟩] st inv (by intro op hop; simp at hop; subst hop; exact .inr (.inr (.inl ⟨_, rfl⟩)))
  have h3 : (runOps extracted {} [.newTerm 10 20 false, .win 0 ⟨0, 0, 4, 4⟩ 0, .win 1 ⟨0, 0, 2, 2⟩ 0,
      .bind 2 .mouse true [.unref 2, .unref 1], .mouse ⟨2, 1, 0, 0⟩]).isOk = false := by decide +kernel
  -- the five-operation history is the four-operation prefix followed by the mouse event
  have := runOps_append extracted _ [.mouse ⟨2, 1, 0, 0⟩] _ _ hr
  simp only [List.cons_append, List.nil_append] at this
  rw [this] at h3
  rw [h3] at h2
  cases h2

/-! ### handlers that drop references: what is true, what is proved, what is open

  `no_ub_handlers_full` is false only through the known finding `cascade_steals_claim`: a dying parent takes one
  reference from every child still linked to it, also when the application has already dropped that child's creation
  reference and the child lives on a reference the library itself holds.  The references the library holds across a
  handler are those of the frames of `_handle_key` / `_handle_mouse` (the window itself and the counted snapshot of
  its children), the counted reference `_handle_mouse` returns for the window that claimed the event, and the frame
  `on_term_mouse` opens directly on the drag source.  The frames of a walk from the root window obey a stack discipline
  - whenever a frame holds a child, a frame holds its parent, so a window that dies has no child the frames hold -; the
  returned claim does not (it outlives the frame of the claiming window's parent), nor does the frame on the drag
  source (nobody holds its parent).  Hence the strongest statements that are true of the code as it stands:

  * handlers bound on the **terminal** (they run between the frames, under the entry point's reference to the terminal
    only) may drop anything, `tickit_window_unref` of any window and `tickit_term_unref` included: **proved**,
    `top_no_ub` below;
  * **key** events may be delivered to window handlers with any actions: **proved**, `no_ub_key_handlers_unref`
    (Proof/LifeFrames.lean);
  * **mouse** events may be delivered to window handlers with any actions as long as no mouse handler claims an event
    (then no claim is returned and no drag source is ever set): `no_ub_mouse_handlers_unref` (statement, open); with
    claims and handlers that free nothing it is **proved** (`no_ub_handlers_keeping`); a claiming mouse handler together
    with handlers that drop the claiming window and its parent is the known finding (`handlers_counterexample`).

  What the open statement needs beyond what is proved: the lemmas of Proof/LifeFrames.lean (`FK`: exact counts, held
  windows alive, stack discipline; `unrefW_FK`: a cascade never reaches a held window; `FK.refI` / `FK.unrefI`) redone
  for `_handle_mouse` and `on_term_mouse` (Proof/LifeMouse.lean: `mouseLoop`, `handleMouseBody`, `mousePrepare`,
  `mouseDeliver`), and the invariant "no drag source is set" through every operation of a history in which nothing
  claims a mouse event. -/

/-- **no_ub with key handlers that drop references**: for every history of operations that deliver no event, `bind` of
    key handlers with **any** actions - `tickit_window_unref` of their own window, of ancestors, of the root window, of
    any other window included - and key events, nothing is touched after it has been freed and the invariant holds
    again afterwards.  The proof (Proof/LifeFrames.lean) carries the references the frames of `_handle_key` hold as
    part of what the library holds: every live window's count is exactly the application's tally plus the frames'
    references, a window a frame holds is alive, and a frame that holds a child holds its parent (the stack
    discipline); a destroy cascade a handler starts begins at a window no frame holds, and whatever it frees or drops
    lies below that window (`Casc.reach`), hence is held by no frame: every dropped child is held by the application,
    the tally follows the count, and every frame finds its windows alive when it gives its references back - the last
    of which may destroy the window, no child of it being held then. -/
theorem no_ub_key_handlers_unref : ∀ (ops : List Op) (st : St), SInv .none st →
    (∀ op ∈ ops, op.plain = true ∨ op.penEvent = true ∨ op = .key) →
    ∃ st', runOps extracted st ops = .ok st' ∧ SInv .none st'
  | [], st, inv, _ => ⟨st, rfl, inv⟩
  | op :: rest, st, inv, h => by
    have hrest : ∀ o ∈ rest, o.plain = true ∨ o.penEvent = true ∨ o = .key := fun o ho => h o (by simp [ho])
    rcases h op (by simp) with hp | hpe | hk
    · obtain ⟨st1, r, hs, inv1⟩ := step_plain_ok extracted_repaired inv op hp (fun _ _ _ _ => ⟨rfl, rfl⟩)
      obtain ⟨st2, hr, inv2⟩ := no_ub_key_handlers_unref rest st1 inv1 hrest
      exact ⟨st2, by unfold runOps; rw [hs]; exact hr, inv2⟩
    · obtain ⟨st1, r, hs, inv1, _⟩ := step_pen_ok extracted_repaired inv op hpe
      obtain ⟨st2, hr, inv2⟩ := no_ub_key_handlers_unref rest st1 inv1 hrest
      exact ⟨st2, by unfold runOps; rw [hs]; exact hr, inv2⟩
    · subst hk
      obtain ⟨st1, r, hs, inv1⟩ := step_key_any extracted_repaired inv Ghost.none_covers
      obtain ⟨st2, hr, inv2⟩ := no_ub_key_handlers_unref rest st1 inv1 hrest
      exact ⟨st2, by unfold runOps; rw [hs]; exact hr, inv2⟩

/-- OPEN (statement only): key and mouse events delivered to window handlers with any actions, provided that no mouse
    handler claims an event and no drag source is set (the case in which handlers claim and all handlers free nothing
    is `no_ub_handlers_keeping`; claiming together with dropping contains the known finding).  Proved of it:
    `handle_mouse_any_actions_no_claim` below (the recursion of `_handle_mouse` itself).  Missing: (a) "no drag source
    is set" through `_handle_mouse` (`Shr` of Proof/LifeFrames.lean needs a field for it as it has for "nothing claims";
    `Casc.drag_sub` is proved in Proof/LifeDestroy.lean but not exported by `unrefT_ok` / `unrefW_ok`, and the lemmas for
    hide / show / restack do not speak of the root's fields); (b) the wrappers of `on_term_mouse` (`FK` under `setRoot`,
    `mousePrepare` / `mouseDeliver` with no drag source: every `unrefOpt` is on `none`, `dragStop` / `dragOutside` do
    nothing); (c) both invariants through the operations that deliver no event (the analogue of `step_plain_keeps`). -/
def no_ub_mouse_handlers_unref : Prop :=
  ∀ (ops : List Op) (st : St), SInv .none st → st.tree.root.dragSource = none →
    (∀ i b, b ∈ (getX st i).binds → b.ev = some .mouse → b.ret = false) →
    (∀ op ∈ ops, (op.plain = true ∨ op.penEvent = true ∨ op = .key ∨ ∃ m, op = .mouse m) ∧
      (∀ w ret acts, op = .bind w .mouse ret acts → ret = false)) →
    ∃ st', runOps extracted st ops = .ok st' ∧ SInv .none st'

/-- **`_handle_mouse` with handlers of any actions, nothing claiming**: in every state between two operations in which
    no mouse handler returns true, `_handle_mouse(root, info)` - the whole recursion over the counted snapshots of the
    children, with handlers that drop their own window, its ancestors, the root window, anything - runs to its end,
    returns no window, gives back every reference it took (the invariant of `no_ub` holds again: every count is the
    application's tally) and still nothing claims.  Proof/LifeFrames.lean (`handleMouse_FK`): as no window is returned,
    the references in flight are the frames' own and their snapshots', which obey the stack discipline of `_handle_key`. -/
theorem handle_mouse_any_actions_no_claim (st : St) (info : Mouse) (inv : SInv .none st)
    (hnc : ∀ i b, b ∈ (getX st i).binds → b.ev = some .mouse → b.ret = false) (r : WinTree.Win) (hr : LiveW st.tree 0 r) :
    ∃ st', handleMouse extracted (routeFuel st) st 0 info = .ok (st', none) ∧ SInv .none st' ∧
      (∀ i b, b ∈ (getX st' i).binds → b.ev = some .mouse → b.ret = false) := by
  obtain ⟨r0, hr0, _, hrp⟩ := inv.tinv.root_ex
  have : r0 = r := by rw [hr.1] at hr0; exact (Option.some.inj hr0).symm
  subst this
  obtain ⟨st', h, K', S'⟩ := handleMouse_FK extracted_repaired (routeFuel st) info (FK.of_inv inv Ghost.none_covers) hnc hr
    (fun p hp => by rw [hrp] at hp; cases hp) (belowFree_root inv.tinv Ghost.none_covers) (by simp only [routeFuel]; omega)
  exact ⟨st', h, K'.inv, S'.nc hnc⟩

/-- Non-vacuity: a mouse handler on a grandchild that drops its own window, its parent and the root window without
    claiming; `_handle_mouse` on the root returns no window. -/
example : (match runOps extracted {} [.newTerm 6 12 false, .win 0 ⟨0, 0, 4, 8⟩ 0, .win 1 ⟨0, 0, 2, 4⟩ 0,
      .bind 2 .mouse false [.unref 2, .unref 1, .unref 0]] with
    | .ok st => (match handleMouse extracted (routeFuel st) st 0 ⟨1, 1, 1, 1⟩ with | .ok (st', none) => st'.log.length | _ => 99)
    | _ => 98) = 1 := by decide +kernel

/-- Instances the kernel can evaluate: a key handler that drops its own window, its parent and the root window
    (`no_ub_key_handlers_unref`); a mouse handler that does the same without claiming the event (the open statement). -/
example : (runOps extracted {} [.newTerm 6 12 false, .win 0 ⟨0, 0, 4, 8⟩ 0, .win 1 ⟨0, 0, 2, 4⟩ 0,
    .bind 2 .key false [.unref 2, .unref 1, .unref 0], .key, .key, .«end»]).isOk = true := by decide +kernel

example : (runOps extracted {} [.newTerm 6 12 false, .win 0 ⟨0, 0, 4, 8⟩ 0, .win 1 ⟨0, 0, 2, 4⟩ 0,
    .bind 2 .mouse false [.unref 2, .unref 1, .unref 0], .mouse ⟨1, 1, 1, 1⟩, .mouse ⟨3, 1, 1, 1⟩, .«end»]).isOk = true := by decide +kernel

/-! ### key and mouse events delivered to handlers that free nothing -/

/-- A history with events: operations that deliver no event, `bind` of handlers (on key or mouse events) whose
    actions are anything but `tickit_window_unref` — close, take a reference, restack, hide, show, flush, unbind
    themselves — key events (`tickit_term_emit_key`) and mouse events (`tickit_term_emit_mouse`: press, drag with
    DRAG_START / DRAG_OUTSIDE, release with DRAG_DROP / DRAG_STOP, wheel). -/
def EventHistory (ops : List Op) : Prop :=
  ∀ op ∈ ops, (op.plain = true ∨ op.penEvent = true ∨ op = .key ∨ ∃ m, op = .mouse m) ∧
    (∀ w ev ret acts, op = .bind w ev ret acts → ∀ a ∈ acts, a.keeps = true)

/-- **no_ub with handlers (partial)**: for every history in which handlers free nothing, key and mouse events run to
    the end — `_handle_key`, `_handle_mouse` and `on_term_mouse` find every window they follow alive (the children of
    the snapshot, the focused child, the drag source), every frame gives back the references it took (its own window,
    the counted snapshot of the children, the counted return of `_handle_mouse`, the root window held by
    `on_term_mouse`), and the invariant of `no_ub` holds again afterwards.  The proof carries the account
    `1 + int i ≤ refcount i ≤ appRefs i + int i` through the recursion, `int i` being the references the frames hold
    on window `i` (Proof/LifeKeys.lean, Proof/LifeMouse.lean). -/
theorem no_ub_handlers_keeping : ∀ (ops : List Op) (st : St), SInv .none st → KeepingHandlers st → EventHistory ops →
    ∃ st', runOps extracted st ops = .ok st' ∧ SInv .none st' ∧ KeepingHandlers st'
  | [], st, inv, H, _ => ⟨st, rfl, inv, H⟩
  | op :: rest, st, inv, H, h => by
    have hrest : EventHistory rest := fun o ho => h o (by simp [ho])
    obtain ⟨hkind, hbind⟩ := h op (by simp)
    rcases hkind with hp | hpe | hk | ⟨m, hm⟩
    · obtain ⟨st1, r, hs, inv1⟩ := step_plain_ok extracted_repaired inv op hp (fun _ _ _ _ => ⟨rfl, rfl⟩)
      have H1 := step_plain_keeps hp H hbind hs
      obtain ⟨st2, hr, inv2, H2⟩ := no_ub_handlers_keeping rest st1 inv1 H1 hrest
      exact ⟨st2, by unfold runOps; rw [hs]; exact hr, inv2, H2⟩
    · obtain ⟨st1, r, hs, inv1, hwx⟩ := step_pen_ok extracted_repaired inv op hpe
      obtain ⟨st2, hr, inv2, H2⟩ := no_ub_handlers_keeping rest st1 inv1 (H.of_wx hwx) hrest
      exact ⟨st2, by unfold runOps; rw [hs]; exact hr, inv2, H2⟩
    · subst hk
      obtain ⟨st1, r, hs, inv1, H1⟩ := step_key_ok extracted_repaired inv H
      obtain ⟨st2, hr, inv2, H2⟩ := no_ub_handlers_keeping rest st1 inv1 H1 hrest
      exact ⟨st2, by unfold runOps; rw [hs]; exact hr, inv2, H2⟩
    · subst hm
      obtain ⟨st1, r, hs, inv1, H1⟩ := step_mouse_ok extracted_repaired inv H m
      obtain ⟨st2, hr, inv2, H2⟩ := no_ub_handlers_keeping rest st1 inv1 H1 hrest
      exact ⟨st2, by unfold runOps; rw [hs]; exact hr, inv2, H2⟩

theorem keepingHandlers_init (lines cols : Int) : KeepingHandlers
    ({ tree := { wins := #[({ rect := ⟨0, 0, lines, cols⟩, isRoot := true } : WinTree.Win)], root := {} }, wx := #[{}],
       term := { refcount := 2 } } : St) := by
  intro i b hb
  unfold getX at hb
  by_cases hi : i = 0
  · subst hi; simp at hb
  · have : (#[({} : WinX)])[i]? = none := by apply Array.getElem?_eq_none; simp; omega
    simp only [this, Option.getD_none] at hb
    simp at hb

/-- Non-vacuity: a key handler on a grandchild that closes its parent, takes a reference to the root, queues a
    restacking request and unbinds itself, a second handler on the root that flushes; a mouse handler that claims the
    event and closes its window (the drag source of the drag that follows); key events, press, drag, drag, release. -/
example : EventHistory [.win 0 ⟨0, 0, 4, 8⟩ 0, .win 1 ⟨0, 0, 2, 4⟩ 0, .bind 2 .key false [.close 1, .ref 0, .restack .raise 2, .unbindSelf],
    .bind 0 .key true [.flush], .key, .key, .win 0 ⟨0, 0, 3, 3⟩ 0, .bind 3 .mouse true [.close 3], .mouse ⟨1, 1, 1, 1⟩,
    .mouse ⟨2, 1, 1, 2⟩, .mouse ⟨2, 1, 5, 5⟩, .mouse ⟨3, 1, 1, 1⟩] := by
  intro op hop
  simp at hop
  rcases hop with rfl | rfl | rfl | rfl | rfl | rfl | rfl | rfl | rfl | rfl | rfl | rfl <;> simp [Op.plain, Op.penEvent, Act.keeps]

example : (runOps extracted {} [.newTerm 6 12 false, .win 0 ⟨0, 0, 4, 8⟩ 0, .win 1 ⟨0, 0, 2, 4⟩ 0,
    .bind 2 .key false [.close 1, .ref 0, .restack .raise 2, .unbindSelf], .bind 0 .key true [.flush], .key, .key,
    .win 0 ⟨0, 0, 3, 3⟩ 0, .bind 3 .mouse true [.close 3], .mouse ⟨1, 1, 1, 1⟩, .mouse ⟨2, 1, 1, 2⟩, .mouse ⟨2, 1, 5, 5⟩,
    .mouse ⟨3, 1, 1, 1⟩, .«end»]).isOk = true := by decide +kernel

/-! ## refcount_inv — a count is the number of holders -/

/-- **refcount_inv**: after every plain history from the start, (a) every live pen's count is the application's
    references plus the number of windows holding the pen (and a freed pen is held by no window), (b) the
    terminal's count is the application's references plus one for a live root window, (c) every live window and
    every live render buffer holds at least one reference, (d) a freed window holds no pen, (e) no live window
    holds more references than the application has taken, (f) a live buffer's or string's count is the
    application's tally, (g) every live window holds exactly the references the application has taken (its own tally:
    create +1, ref +1, unref -1, and -1 when a destroyed parent takes the creation reference of a child still linked to
    it - the converse of `DropOk`, `ConvOk` in Proof/LifeDestroy.lean, shows that nobody else loses a reference in a
    cascade). -/
theorem refcount_inv (lines cols : Int) (mock : Bool) (ops : List Op) (h : PlainHistory ops) :
    ∃ st, runOps extracted {} (.newTerm lines cols mock :: ops) = .ok st ∧
      (∀ (k : Nat) (p : Obj), st.pens[k]? = some p →
        (p.freed = false → p.refcount = (p.appRefs : Int) + (holders st k : Int)) ∧ (p.freed = true → holders st k = 0)) ∧
      (st.term.freed = false → (∃ r, LiveW st.tree 0 r) → st.term.refcount = (st.term.appRefs : Int) + 1) ∧
      (st.term.freed = false → (¬ ∃ r, LiveW st.tree 0 r) → st.term.refcount = (st.term.appRefs : Int)) ∧
      (∀ (i : Nat) (w : WinTree.Win), LiveW st.tree i w → 1 ≤ w.refcount) ∧
      (∀ (k : Nat) (b : RBObj), st.rbs[k]? = some b → b.freed = false → 1 ≤ b.refcount) ∧
      (∀ (i : Nat) (w : WinTree.Win), st.tree.wins[i]? = some w → w.freed = true → (getX st i).pen = .null) ∧
      (∀ (i : Nat) (w : WinTree.Win), LiveW st.tree i w → w.refcount ≤ ((getX st i).appRefs : Int)) ∧
      (∀ (k : Nat) (b : RBObj), st.rbs[k]? = some b → b.freed = false → b.refcount = (b.appRefs : Int)) ∧
      (∀ (k : Nat) (s : StrObj), st.strs[k]? = some s → s.freed = false → 1 ≤ s.refcount ∧ s.refcount = (s.appRefs : Int)) ∧
      (∀ (i : Nat) (w : WinTree.Win), LiveW st.tree i w → w.refcount = ((getX st i).appRefs : Int)) := by
  obtain ⟨st, hr, inv⟩ := no_ub_from_start lines cols mock ops h
  refine ⟨st, hr, inv.pens.rc, fun hf hl => inv.term_held hf (.inl hl), fun hf hl => (inv.term_free hf ?_).1, inv.rc,
    inv.rb_rc, fun i w hw hf => inv.dead_pen i w hw hf (by simp), fun i w hl => by have := (inv.wref i w hl).1; simpa using this,
    fun k b hb hf => (inv.simple.1 k b hb hf).2, inv.simple.2, fun i w hl => by
      have h1 := (inv.wref i w hl).1
      have h2 := (inv.wref i w hl).2 (Ghost.none_covers i)
      simp only [Ghost.none_win] at h1 h2
      omega⟩
  rintro (h' | h')
  · exact hl h'
  · simp at h'

/-- Non-vacuity: a pen shared by two windows and the application; one window is destroyed, the other sets another
    pen: the counts follow. -/
example : (runOps extracted {} [.newTerm 6 12 false, .win 0 ⟨0, 0, 2, 2⟩ 0, .win 0 ⟨2, 0, 2, 2⟩ 0, .pen, .setpen 1 (some 0),
    .setpen 2 (some 0), .act (.unref 1), .setpen 2 none, .punref 0, .«end»]).isOk = true := by decide +kernel

/-! ## all_released — once the application's references are dropped nothing remains -/

/-- Dropping every reference the application holds (`end`: windows from the highest handle down to the root,
    then pens, strings, buffers, the terminal) never fails, whatever the history before, and leaves nothing
    allocated: every window, pen, string, buffer and the terminal is freed and no restacking request is queued. -/
theorem drop_all_never_fails (st : St) (inv : SInv .none st) :
    ∃ st', dropAll extracted st = .ok st' ∧ SInv .none st' ∧ anythingLeft st' = false := by
  obtain ⟨st', h, inv', H⟩ := dropAll_ok extracted_repaired inv
  exact ⟨st', h, inv', nothing_left inv' H rfl (fun _ => rfl)⟩

/-- **all_released**: after any history of operations without event handlers (windows created, referenced, closed,
    restacked, destroyed parents-first or children-first, pens shared between windows and the application,
    strings, render buffers, terminal references), once the application has dropped every reference it holds,
    every window, pen, string, buffer and the terminal is freed and no queued request is left.  The proof carries
    the exact account of references through every operation: a live window never holds more references than the
    application has taken (`SInvG.wref`; a dying parent takes one reference of each child still linked to it and
    the application's tally follows, `consume`), a pen's count is the application's references plus the windows
    holding it, a string's or buffer's count is the application's tally, the terminal's is the application's plus
    one for a live root window. -/
theorem all_released (lines cols : Int) (mock : Bool) (ops : List Op) (h : PlainHistory ops) :
    ∃ st, runOps extracted {} (.newTerm lines cols mock :: ops ++ [.«end»]) = .ok st ∧ anythingLeft st = false := by
  obtain ⟨st1, hr, inv1⟩ := no_ub_from_start lines cols mock ops h
  obtain ⟨st2, hd, _, hleft⟩ := drop_all_never_fails st1 inv1
  refine ⟨st2, ?_, hleft⟩
  have := runOps_append extracted (.newTerm lines cols mock :: ops) [.«end»] {} st1 hr
  rw [this]
  unfold runOps step
  simp only [hd, bind_ok, pure_ok]
  rfl

/-- The same from the very beginning, and with the final release of everything: nothing remains allocated. -/
theorem all_released_handlers_keeping (lines cols : Int) (mock : Bool) (ops : List Op) (h : EventHistory ops) :
    ∃ st, runOps extracted {} (.newTerm lines cols mock :: ops ++ [.«end»]) = .ok st ∧ anythingLeft st = false := by
  obtain ⟨st1, hr, inv1, _⟩ := no_ub_handlers_keeping ops _ (SInv.init lines cols rfl rfl) (keepingHandlers_init lines cols) h
  obtain ⟨st2, hd, _, hleft⟩ := drop_all_never_fails st1 inv1
  refine ⟨st2, ?_, hleft⟩
  have h0 : runOps extracted {} (.newTerm lines cols mock :: ops) = .ok st1 := by
    unfold runOps step
    exact hr
  rw [show (Op.newTerm lines cols mock :: ops ++ [.«end»]) = (Op.newTerm lines cols mock :: ops) ++ [.«end»] from rfl]
  rw [runOps_append extracted (.newTerm lines cols mock :: ops) [.«end»] {} st1 h0]
  unfold runOps step
  simp only [hd, bind_ok, pure_ok]
  rfl

/-- **the drag source is a window of the tree**: `root->drag_source_window` is an uncounted pointer; after every history
    with key and mouse events (press, drag, release; handlers that close, hide, restack or take references to their own
    window, a window above it or any other window, claiming the event or not) the window it names is alive and its parent
    chain reaches the root window.  `on_term_mouse` keeps the window that took DRAG_START only if the walk up its parents
    arrives at the root window (`dragSourceSet` / `reachesTop`: a handler that closed a window *above* the source has cut
    that walk short although the source itself is not closed), and `tickit_window_close` forgets a drag source that lies in
    the subtree it unlinks - so the pointer never outlives the window, and DRAG_OUTSIDE / DRAG_STOP are never sent to
    freed memory. -/
theorem drag_source_linked (lines cols : Int) (mock : Bool) (ops : List Op) (h : EventHistory ops) :
    ∃ st, runOps extracted {} (.newTerm lines cols mock :: ops) = .ok st ∧
      ∀ s, st.tree.root.dragSource = some s → ∃ w, LiveW st.tree s w ∧ Reach st.tree s 0 := by
  obtain ⟨st1, hr, inv1, _⟩ := no_ub_handlers_keeping ops _ (SInv.init lines cols rfl rfl) (keepingHandlers_init lines cols) h
  refine ⟨st1, ?_, inv1.tinv.drag_ok⟩
  unfold runOps step
  exact hr

/-- Non-vacuity, and the history of the corpus probe `drag_source_ancestor_closed`: root > panel > handle; the handle's
    handler, bound after the press, closes the panel when DRAG_START arrives and claims it: the handle does not become
    the drag source (it is no longer below the root window), the panel is dropped with the handle, the drag goes on. -/
example : EventHistory [.win 0 ⟨2, 2, 6, 12⟩ 0, .win 1 ⟨1, 1, 3, 8⟩ 0, .mouse ⟨1, 1, 4, 5⟩, .bind 2 .mouse true [.close 1],
    .mouse ⟨2, 1, 4, 6⟩, .act (.unref 1), .mouse ⟨2, 1, 5, 7⟩, .mouse ⟨3, 1, 8, 15⟩] := by
  intro op hop
  simp at hop
  rcases hop with rfl | rfl | rfl | rfl | rfl | rfl | rfl | rfl <;> simp [Op.plain, Op.penEvent, Act.keeps]

example : (match runOps extracted {} [.newTerm 10 20 false, .win 0 ⟨2, 2, 6, 12⟩ 0, .win 1 ⟨1, 1, 3, 8⟩ 0, .mouse ⟨1, 1, 4, 5⟩,
    .bind 2 .mouse true [.close 1], .mouse ⟨2, 1, 4, 6⟩] with
    | .ok st => (st.tree.root.dragSource, st.tree.root.mouseDragging) | _ => (some 99, false)) = (none, true) := by decide +kernel

example : (runOps extracted {} [.newTerm 10 20 false, .win 0 ⟨2, 2, 6, 12⟩ 0, .win 1 ⟨1, 1, 3, 8⟩ 0, .mouse ⟨1, 1, 4, 5⟩,
    .bind 2 .mouse true [.close 1], .mouse ⟨2, 1, 4, 6⟩, .act (.unref 1), .mouse ⟨2, 1, 5, 7⟩, .mouse ⟨3, 1, 8, 15⟩, .«end»]).isOk = true := by
  decide +kernel

/-- Known finding `cascade_steals_drag_frame` (the second reference outside the stack discipline, see above): the drag
    source has claimed DRAG_START; its later, non-claiming handler drops the source and then its parent when
    `on_term_mouse` sends it DRAG_OUTSIDE straight away - nobody holds the parent, which dies and takes the reference
    `_handle_mouse` holds on the source.  The model of the current tree reproduces it. -/
theorem drag_frame_counterexample :
    (runOps extracted {} [.newTerm 10 20 false, .win 0 ⟨0, 0, 5, 10⟩ 0, .win 1 ⟨0, 0, 2, 2⟩ 0, .bind 2 .mouse true [],
      .mouse ⟨1, 1, 0, 0⟩, .mouse ⟨2, 1, 0, 1⟩, .unbind 2 1, .bind 2 .mouse false [.unref 2, .unref 1], .mouse ⟨2, 1, 8, 15⟩]).isOk = false := by
  decide +kernel

/-- Key handlers with any actions (`no_ub_key_handlers_unref`): once the application has dropped every reference nothing
    is left. -/
theorem all_released_key_handlers_unref (lines cols : Int) (mock : Bool) (ops : List Op)
    (h : ∀ op ∈ ops, op.plain = true ∨ op.penEvent = true ∨ op = .key) :
    ∃ st, runOps extracted {} (.newTerm lines cols mock :: ops ++ [.«end»]) = .ok st ∧ anythingLeft st = false := by
  obtain ⟨st1, hr, inv1⟩ := no_ub_key_handlers_unref ops _ (SInv.init lines cols rfl rfl) h
  obtain ⟨st2, hd, _, hleft⟩ := drop_all_never_fails st1 inv1
  refine ⟨st2, ?_, hleft⟩
  have h0 : runOps extracted {} (.newTerm lines cols mock :: ops) = .ok st1 := by
    unfold runOps step
    exact hr
  rw [show (Op.newTerm lines cols mock :: ops ++ [.«end»]) = (Op.newTerm lines cols mock :: ops) ++ [.«end»] from rfl]
  rw [runOps_append extracted (.newTerm lines cols mock :: ops) [.«end»] {} st1 h0]
  unfold runOps step
  simp only [hd, bind_ok, pure_ok]
  rfl

/-- Does a history end with something still allocated? -/
def leftAfter (cfg : Cfg) (ops : List Op) : Bool :=
  match runOps cfg {} ops with
  | .ok st => anythingLeft st
  | _ => false

/-- Before the repair, a root window destroyed with restacking requests still queued leaked them. -/
theorem root_destroy_leaks_requests_counterexample :
    leftAfter { Cfg.fixed with closePurges := false, dragForgottenOnClose := false }
      [.newTerm 10 20 false, .win 0 ⟨1, 1, 5, 10⟩ 0, .act (.ref 1), .act (.restack .raise 1), .act (.unref 0), .«end»] = true := by
  decide +kernel

/-- After it, the same history releases everything. -/
example : leftAfter extracted
    [.newTerm 10 20 false, .win 0 ⟨1, 1, 5, 10⟩ 0, .act (.ref 1), .act (.restack .raise 1), .act (.unref 0), .«end»] = false := by
  decide +kernel


/-! ## the process-wide list of SIGWINCH observers (`tickit_term_observe_sigwinch`, src/term.c) and
  `tickit_term_set_input_fd` — model layer `Model/LifeTop.lean`

  The list is modelled with its pointers.  Proved here: the two kernel-checked counterexamples of the code before the
  repair (a2a7841 in /repo: the unlinked terminal's link is reset), that the same histories are harmless after it, the
  case the seeded regression `while -> if` breaks (a terminal that stands third in the list is really unlinked), and
  the general statement `sigwinch_list_safe`. -/

/-- The configuration of the layer `Model/LifeTop.lean` that mirrors the source tree (the driver runs the same). -/
def extractedTop : TCfg :=
  { base := extracted, rootForgetsTickit := Gen.Life.rootForgetsTickit, sigwinchClearsNext := Gen.Life.sigwinchClearsNext,
    setInputFdClearsTermkey := Gen.Life.setInputFdClearsTermkey }

/-- The source tree contains the repairs of this layer (a tree that loses one breaks this at build time): the unlinked
    terminal's link is reset, `tickit_term_set_input_fd` forgets the TermKey it destroys, a root window that outlives
    its toplevel instance forgets it. -/
theorem extractedTop_repaired : extractedTop.sigwinchClearsNext = true ∧ extractedTop.setInputFdClearsTermkey = true ∧
    extractedTop.rootForgetsTickit = true := ⟨by decide, by decide, by decide⟩

/-- Three terminals: the main one (0) and two further ones (1, 2), nobody observing. -/
def sw0 : Top := { xterms := #[{}, {}], sw := #[{}, {}, {}] }

def tcOld : TCfg := { base := extracted, sigwinchClearsNext := false }
def tcNew : TCfg := { base := extracted, sigwinchClearsNext := true }

/-- `xobs 0 1; xobs 1 1; xobs 0 0; xunref 1; xobs 0 1; winch`: the first terminal observes again with its stale link
    to the second one, which has been freed meanwhile. -/
def swHistoryFreed (tc : TCfg) : Top :=
  swSignal (swObserve (xUnref tc (swUnobserve tc (swObserve (swObserve sw0 1) 2) 1) 1) 1)

/-- `tobs 1; xobs 0 1; tobs 0; tobs 1; winch`: the main terminal observes again while the terminal its stale link
    names is still listed — the list is a cycle. -/
def swHistoryCycle (tc : TCfg) : Top :=
  swSignal (swObserve (swUnobserve tc (swObserve (swObserve sw0 0) 1) 0) 0)

/-- Unrepaired: the signal handler writes into a freed terminal. -/
theorem sigwinch_stale_next_freed_counterexample : (swHistoryFreed tcOld).fail = some failMem := by decide +kernel

/-- Unrepaired: the signal handler never returns. -/
theorem sigwinch_stale_next_cycle_counterexample : (swHistoryCycle tcOld).fail = some failHang := by decide +kernel

/-- With the link reset when a terminal leaves the list, both histories are harmless and the list is what it should be. -/
theorem sigwinch_stale_next_repaired :
    (swHistoryFreed tcNew).fail = none ∧ (swHistoryFreed tcNew).swFirst = some 1 ∧ ((swHistoryFreed tcNew).sw.map (·.next)) = #[none, none, none] ∧
    (swHistoryCycle tcNew).fail = none ∧ (swHistoryCycle tcNew).swFirst = some 1 ∧ ((swHistoryCycle tcNew).sw.map (·.next)) = #[none, some 0, none] := by
  decide +kernel

/-- The third observer leaves: the list keeps the first two, the handler stays installed, the terminal that left is
    not reachable (in both configurations). -/
theorem sigwinch_third_observer_unlinked (clears : Bool) :
    let t := xUnref { base := extracted, sigwinchClearsNext := clears } (swObserve (swObserve (swObserve sw0 0) 1) 2) 1
    t.fail = none ∧ t.swFirst = some 0 ∧ (swNode t 0).next = some 1 ∧ (swNode t 1).next = none ∧ t.swHandler = true ∧
    (swSignal t).fail = none := by
  cases clears <;> decide +kernel

/-- **sigwinch_list_safe**: with the unlinked terminal's link reset (the repaired `tickit_term_observe_sigwinch`), every
    history of creating further terminals, taking and dropping references to them (the last one destroys the
    terminal, which stops its observation first), observing and no longer observing SIGWINCH on any of them and on the
    main terminal, and SIGWINCH itself, over any number of terminals and in any order, runs to the end with no walk of
    the observer list failing (`fail = none`: no link of a freed terminal is read, no NULL is followed, every walk
    ends), and the list stays what it should be (`SwOk`, Proof/LifeSigwinch.lean): the links from
    `first_sigwinch_observer` are a chain without repetition of exactly the terminals whose `observe_winch` is set,
    all of them alive; every other terminal's link is NULL; the handler is installed exactly while the chain is not
    empty.  The application passes only handles it holds (`xstep` skips the others, as the harness does) - the earlier
    statement of this name lacked that guard and was false for a handle that does not exist.  The destruction of the
    main terminal while it observes is part of `top_no_ub` below. -/
theorem sigwinch_list_safe (ops : List XOp) (hops : ∀ op ∈ ops, op.isSw = true) (top : Top) (h : SwOk top) :
    ∃ top', xrunOps extractedTop top ops = .ok top' ∧ SwOk top' ∧ top'.fail = none := by
  obtain ⟨top', hr, ok, _⟩ := xrun_sw extractedTop_repaired.1 ops top h hops
  exact ⟨top', hr, ok, ok.1⟩

/-- What `SwOk` says, spelled out on the state: along the links from `first_sigwinch_observer` lie exactly the
    terminals that observe, once each, none of them freed. -/
theorem swOk_spelled_out {top : Top} (h : SwOk top) : top.fail = none ∧ ∃ l : List Nat,
    ChainF (fun c => (swNode top c).next) top.swFirst l ∧ l.Nodup ∧ (∀ c, c ∈ l ↔ (swNode top c).obs = true) ∧
    (∀ c ∈ l, swFreed top c = false) ∧ (∀ c, c ∉ l → (swNode top c).next = none) ∧ top.swHandler = top.swFirst.isSome := by
  obtain ⟨hf, l, inv, h0⟩ := h
  refine ⟨hf, l, inv.chain, inv.nodup, ?_, inv.allLive h0, fun c hc => (inv.out c hc).1, inv.handler⟩
  intro c
  constructor
  · exact fun hc => (inv.mem c hc).2
  · intro ho
    apply Classical.byContradiction
    intro hn
    have := (inv.out c hn).2
    unfold swObs at this
    rw [this] at ho; cases ho

/-- The state every history starts from satisfies it. -/
example : SwOk ({} : Top) := swOk_init

/-- Non-vacuity: the two histories of the repaired defect `sigwinch_stale_next` (and a third observer leaving) are
    histories of this kind, and in the repaired configuration they run to the end. -/
example : ∀ op ∈ [XOp.xnew, .xnew, .xobs 0 true, .xobs 1 true, .xobs 0 false, .xunref 1, .xobs 0 true, .winch,
    .tobs true, .tobs false, .tobs true, .winch, .xref 0, .xunref 0, .xunref 0, .winch], op.isSw = true := by
  intro op hop; simp at hop
  rcases hop with rfl | rfl | rfl | rfl | rfl | rfl | rfl | rfl | rfl | rfl | rfl | rfl | rfl | rfl | rfl | rfl <;> rfl

example : (match xrunOps extractedTop {} [.xnew, .xnew, .xobs 0 true, .xobs 1 true, .xobs 0 false, .xunref 1, .xobs 0 true, .winch,
    .tobs true, .tobs false, .tobs true, .winch, .xref 0, .xunref 0, .xunref 0, .winch] with
    | .ok t => (t.fail, t.swFirst, t.sw.map (·.next), t.swHandler) | _ => (none, none, #[], false))
    = (none, some 0, #[none, none, none], true) := by decide +kernel

/-- `tickit_term_set_input_fd` on a terminal that has its TermKey: the unrepaired code uses the TermKey it has
    destroyed (the defect repaired by f040fc7 in /repo), whatever the state. -/
theorem set_input_fd_uses_destroyed_termkey (tc : TCfg) (top : Top) (h : tc.setInputFdClearsTermkey = false)
    (ht : heldT top.st = true) (hf : top.hasFd = true) :
    ∃ what, xstepCore tc top .tsetin = .ub .mem what := by
  refine ⟨"tickit_term_set_input_fd: get_termkey() uses the TermKey that has just been destroyed", ?_⟩
  unfold xstepCore
  simp [ht, hf, h]

/-- After the repair (the pointer is cleared) the call succeeds, whatever the state. -/
theorem set_input_fd_repaired (tc : TCfg) (top : Top) (h : tc.setInputFdClearsTermkey = true) :
    ∃ t r, xstepCore tc top .tsetin = .ok (t, r) := by
  unfold xstepCore
  by_cases hs : (!heldT top.st || !top.hasFd) = true
  · exact ⟨top, "skip", by simp only [hs]; rfl⟩
  · exact ⟨_, _, by simp only [hs, h]; rfl⟩

/-! ## `tickit_mockterm_resize` keeps what lies inside both sizes and blanks the rest -/

theorem mock_resize_cells (t : RBFlush.MockTerm) (lines cols l c : Int) :
    (mockResize t lines cols).lines = lines ∧ (mockResize t lines cols).cols = cols ∧
    (mockResize t lines cols).cells l c =
      (if 0 ≤ l ∧ l < t.lines ∧ l < lines ∧ 0 ≤ c ∧ c < t.cols ∧ c < cols then t.cells l c else {}) := by
  simp [mockResize]

example : ((mockResize ((RBFlush.MockTerm.new 6 10).goto 5 0 |>.print [0x61, 0x62]) 3 20).cells 2 0).str = some [0x20] := by
  decide +kernel

/-! ## the terminal's bindings and input entry points, the toplevel instance (`Model/LifeTop.lean`)

  The references the library itself holds in this layer are a parameter (`Ghost`) of the invariant of the lower layers:
  the toplevel instance holds one reference to the terminal and one to the root window as long as it lives
  (`instGhost`), an input entry point one more reference to the terminal while it works.  `TopInv` (Proof/LifeTop.lean)
  is the invariant between two operations: the lower layers' invariant under what the instance holds (so the
  terminal's count is the application's references + the instance's + the root window's, and no window holds more
  than the application's and the instance's references), window handlers that free nothing, the terminal's binding
  list (distinct ids, the root window's three handlers present only while it lives), the instance's own count (= the
  application's references; no watch left once destroyed), the SIGWINCH chain (`SwOk`), and a root window that has
  outlived its instance does not point to it any more. -/

theorem extractedTop_trepaired : TRepaired extractedTop :=
  ⟨extracted_repaired, extractedTop_repaired.1, extractedTop_repaired.2.1, extractedTop_repaired.2.2⟩

/-- A history of this layer: every operation `no_ub` covers in the lower layers (with window handlers that free
    nothing), key and mouse events, and the operations this layer adds - handlers bound on the terminal whose actions
    are any API calls on windows (`tickit_window_unref` of any window included), `tickit_term_ref` and
    `tickit_term_unref`; `tickit_term_input_push_bytes` / `_readable` / `_wait_*` / `_check_timeout_msec` with any
    decodable input; the clock; `tickit_build` for a terminal, `tickit_ref` / `tickit_unref`, `tickit_watch_later` /
    `_timer_after_msec` / `_cancel` with watches of any actions, `tickit_tick`; further terminals and SIGWINCH
    observers; `tickit_term_set_input_fd`; printing on and resizing the mock terminal (`XOp.covered`). -/
def TopHistory (ops : List XOp) : Prop := ∀ op ∈ ops, op.covered

/-- **no_ub for the layer of the terminal's input and the toplevel instance**: from any state satisfying the invariant,
    every history of covered operations in any order runs to the end - no freed object is touched, no NULL is
    dereferenced, `abort()` is not called, no walk of the SIGWINCH list fails - and the invariant holds again.  In
    particular `run_events_whilefalse` on the terminal finds the root window alive whenever it runs one of its three
    handlers (a handler of the application that destroyed the root window has made them tombstones), the entry points
    keep the terminal alive through handlers that drop the application's last reference to it, `tickit_destroy` gives
    back exactly the two references the instance held, and a watch that fires during `tickit_tick` may drop any window
    or the terminal's application references without the instance losing its terminal. -/
theorem top_no_ub (ops : List XOp) (top : Top) (T : TopInv top) (h : TopHistory ops) :
    ∃ top', xrunOps extractedTop top ops = .ok top' ∧ TopInv top' :=
  xrun_top_ok extractedTop_trepaired ops top T h

/-- The same from the very beginning: `new` / `newin` / `newtop`, then any covered history. -/
theorem top_no_ub_from_start (start : XOp) (hstart : start.isNew = true) (ops : List XOp) (h : TopHistory ops) :
    ∃ top', xrunOps extractedTop {} (start :: ops) = .ok top' ∧ TopInv top' :=
  xrun_from_start extractedTop_trepaired start hstart ops h

/-- **lifetime invariant of the layer**, spelled out on the state: (a) the terminal's binding list holds the root
    window's handlers only while the root window lives; (b) while the toplevel instance lives the terminal and the root
    window it refers to are alive (the root window's count is exactly the application's references plus the
    instance's: no operation and no handler can take the instance's reference away), and the instance's count is the
    number of references the application holds; (c) a destroyed instance
    has no watch left and nobody refers to it; (d) a terminal the application still refers to has not been freed;
    (e) the lower layers' invariant holds with the instance's two references accounted for: the terminal's count is
    the application's references plus the instance's plus one for a live root window, and every live window's count
    is the application's references plus - for the root window - the instance's. -/
theorem top_lifetime_inv (start : XOp) (hstart : start.isNew = true) (ops : List XOp) (h : TopHistory ops) :
    ∃ top, xrunOps extractedTop {} (start :: ops) = .ok top ∧
      (∀ b ∈ top.tbinds, b.isApp = false → rootAlive top.st = true) ∧
      (∀ i, top.inst = some i → i.freed = false → top.st.term.freed = false ∧ 1 ≤ top.st.term.refcount ∧
        rootAlive top.st = true ∧ 1 ≤ i.refcount ∧ i.refcount = (i.appRefs : Int)) ∧
      (∀ i, top.inst = some i → i.freed = true → i.laters = [] ∧ i.timers = [] ∧ i.appRefs = 0) ∧
      (top.st.term.freed = true → top.st.term.appRefs = 0) ∧
      (top.st.term.freed = false → (∃ r, LiveW top.st.tree 0 r) →
        top.st.term.refcount = (top.st.term.appRefs : Int) + (top.ghost.term : Int) + 1) ∧
      (∀ (i : Nat) (w : WinTree.Win), LiveW top.st.tree i w →
        w.refcount = ((getX top.st i).appRefs : Int) + (top.ghost.win i : Int)) ∧
      SwOk top := by
  obtain ⟨top, hr, T⟩ := top_no_ub_from_start start hstart ops h
  obtain ⟨f1, f2, f3, f4⟩ := T.facts
  exact ⟨top, hr, f1, f2, f3, f4, fun hf hl => T.f.inv.term_held hf (.inl hl), T.exact, T.sw⟩

/-- **all_released for the toplevel**: after any history of this layer, once the application has dropped every reference
    it holds (`end`: windows from the highest handle down to the root window, pens, strings, buffers, the terminal; then
    its references to the toplevel instance, the last of which runs `tickit_destroy`; then the further terminals),
    nothing is left (`Top.anythingLeft`): every window, pen, string, buffer and the main terminal is freed and no
    restacking request is queued, the toplevel instance is freed with all its watches, every further terminal is
    freed, nobody stands in the list of SIGWINCH observers and the handler is no longer installed; and no walk of that
    list has failed on the way. -/
theorem top_all_released (start : XOp) (hstart : start.isNew = true) (ops : List XOp) (h : TopHistory ops) :
    ∃ top, xrunOps extractedTop {} (start :: ops ++ [.base .«end»]) = .ok top ∧ top.anythingLeft = false ∧ top.fail = none :=
  xrun_end extractedTop_trepaired start hstart ops h

example : (xrunOps extractedTop {} [.base (.newTerm 6 10 true), .mprint 5 0 [0x61, 0x62], .mresize 3 20, .mresize 8 4, .base (.act .flush),
    .base .«end»]).isOk = true := by decide +kernel

example : (match xrunOps extractedTop {} [.newtop 6 12, .base (.win 0 ⟨0, 0, 2, 2⟩ 0), .base .pen, .base (.setpen 1 (some 0)), .xnew, .xobs 0 true,
    .tobs true, .ilater [.tunref], .itimer 5 [.win (.unref 1)], .iref, .base .«end»] with
    | .ok t => (t.anythingLeft, t.fail) | _ => (true, none)) = (false, none) := by decide +kernel

/-- Non-vacuity: a terminal reading from a pipe whose key handler drops the root window, the application's reference
    to the terminal and claims the event; a lone ESC that the timeout turns into a key; an instance whose deferred call
    drops the root window and whose timer drops the terminal's application reference, `tickit_tick`, `tickit_unref`. -/
example : TopHistory [.tbind .key true [.win (.unref 0), .tunref], .tpush [.chr], .tpush [.esc], .tick 60, .tcheck] := by
  intro op hop; simp at hop
  rcases hop with rfl | rfl | rfl | rfl | rfl <;> trivial

example : (xrunOps extractedTop {} [.newin 6 12, .tbind .key true [.win (.unref 0), .tunref], .tpush [.chr], .tpush [.esc], .tick 60,
    .tcheck]).isOk = true := by decide +kernel

example : TopHistory [.base (.act (.ref 0)), .base .tref, .ilater [.win (.unref 0)], .itimer 5 [.tunref], .tick 10, .itick [.chr],
    .iref, .iunref, .iunref] := by
  intro op hop; simp at hop
  rcases hop with rfl | rfl | rfl | rfl | rfl | rfl | rfl | rfl | rfl <;>
    first | trivial | exact .inl ⟨.inl rfl, rfl, fun _ _ _ _ h => by cases h⟩

example : (xrunOps extractedTop {} [.newtop 6 12, .base (.act (.ref 0)), .base .tref, .ilater [.win (.unref 0)], .itimer 5 [.tunref],
    .tick 10, .itick [.chr], .iref, .iunref, .iunref]).isOk = true := by decide +kernel

/-! ## timers and deferred calls registered from callbacks

  A watch (and a handler bound on the terminal) may call `tickit_watch_timer_at_tv` and `tickit_watch_later` while it
  runs (`TAct.timerAt`, `TAct.later`): `TopHistory` covers watches and handlers with such actions, so `top_no_ub`,
  `top_lifetime_inv` and `top_all_released` speak about them - in particular a timer a timer callback registers for an
  instant that has passed: it stands in front of the queue the loop of `tickit_evloop_invoke_timers` is working on
  (`insertTimer`), the loop finds it there because it has unlinked the running timer *before* invoking it, and whatever
  is still queued when the instance goes is released with it (`instDestroy`). -/

/-- **the timer loop comes to an end, and leaves nothing that is due**: from a state satisfying the invariant (the
    instance alive), the loop of `tickit_evloop_invoke_timers` - which looks at the head of the queue again after every
    callback - runs to its end within the bound `Top.pot` (the timers that are due plus the registrations the harness's
    table still takes: every turn unlinks a due timer, what its callback registers uses up a registration), touches
    nothing that is freed, keeps the invariant, and when it ends the head of the queue is not due: a timer registered
    by a callback for an instant that has passed has been run by the same call, not skipped and not lost. -/
theorem timer_loop_runs_what_is_due {gh : Ghost} (hg : 1 ≤ gh.term) {top : Top} (F : FInv gh top)
    (hlive : ∀ i, top.inst = some i → i.freed = false) :
    ∃ top', invokeTimers extracted (top.pot + 1) top = .ok top' ∧ FInv gh top' ∧ Rest top top' ∧
      ∀ e rest, (top'.inst.getD {}).timers = e :: rest → e.1 > top'.now := by
  obtain ⟨top', h, F', R'⟩ := invokeTimers_ok extracted_repaired hg (top.pot + 1) F hlive (Nat.lt_succ_self _)
  exact ⟨top', h, F', R', invokeTimers_head extracted _ top top' h⟩

/-- `tickit_watch_timer_at_tv` keeps every entry of the queue and adds exactly the new one (whatever its instant). -/
theorem timer_insert_keeps (l : List (Int × WItem)) (at_ : Int) (w : WItem) (q : Int × WItem → Bool) :
    ((insertTimer l at_ w).filter q).length = (l.filter q).length + (if q (at_, w) = true then 1 else 0) :=
  filter_insertTimer_length l at_ w q

/-- Non-vacuity: a timer whose callback registers a timer for the instant 0 of the harness's clock (long past), one for the
    present and a deferred call, a deferred call that registers a past timer, a key handler on the terminal that does
    the same; `tickit_tick` twice; the instance dropped.  The history is covered, runs, fires the watches registered from
    callbacks in the same `tickit_tick` (log: M0 then M1 - the past one, which stands first - then M2), and ends with
    nothing left. -/
example : TopHistory [.base (.act (.ref 0)), .tbind .key false [.timerAt 0, .later], .itimer 0 [.timerAt 0, .timerAt 5, .later],
    .ilater [.timerAt 0], .tick 5, .itick [], .itick [.chr], .itimerat 0 [.tunref], .iunref] := by
  intro op hop; simp at hop
  rcases hop with rfl | rfl | rfl | rfl | rfl | rfl | rfl | rfl | rfl <;>
    first | trivial | exact .inl ⟨.inl rfl, rfl, fun _ _ _ _ h => by cases h⟩

example : (match xrunOps extractedTop {} [.newtop 6 12, .itimer 0 [.timerAt 0, .timerAt 5, .later], .tick 5] with
    | .ok t => (match xstep extractedTop t (.itick []) with
      | .ok (t', _) => (t'.st.log, (t'.inst.getD {}).timers.length, (t'.inst.getD {}).laters.length)
      | _ => ([], 99, 99))
    | _ => ([], 99, 99)) = (["M0", "M1", "M2"], 0, 1) := by decide +kernel

example : (match xrunOps extractedTop {} [.newtop 6 12, .base (.act (.ref 0)), .tbind .key false [.timerAt 0, .later],
    .itimer 0 [.timerAt 0, .timerAt 5, .later], .ilater [.timerAt 0], .tick 5, .itick [], .itick [.chr], .itimerat 0 [.tunref],
    .base .«end»] with
    | .ok t => (t.anythingLeft, t.fail) | _ => (true, none)) = (false, none) := by decide +kernel

/-! ## the output side of the main terminal (`Model/LifeOut.lean`): output buffer, printing, `tickit_term_setpen` through
  the xterm driver

  `OInv` (Proof/LifeOut.lean) = `TopInv` of the layers below together with `TermBuf.WF` of the output buffer (engine
  `termbuf`'s well-formedness: nothing pending without a buffer, fewer bytes pending than the buffer holds). -/

/-- The array `int params[N]` of the xterm driver's `chpen`, as the source tree declares it, has room for the 19 SGR
    parameters a pen can need (5 for each of two RGB8 colours, 2 for a styled underline, 7 single attributes). -/
theorem chpen_params_room : 19 ≤ Gen.Sgr.paramsCap := by decide

/-- A history of the output layer: what `TopHistory` covers below, and any of `tickit_term_set_output_buffer` (any
    length, at any moment: with output pending, smaller than what is pending, 0), `tickit_term_printn` of any non-empty
    text, `tickit_term_goto`, `tickit_term_flush`, the capability report (DECRQSS reply / `xterm.cap_rgb8`),
    `tickit_term_setpen` / `tickit_term_chpen` with any pen. -/
def OutHistory (ops : List YOp) : Prop := ∀ op ∈ ops, op.covered

/-- **no_ub for the output side**: from any state satisfying the invariant, every history of covered operations in any
    order runs to the end and the invariant holds again: no `memcpy` of `write_str` leaves the output buffer (the model
    makes a fill level above the buffer's length an explicit failure, `TermBuf.writeLoop`), whatever length
    `tickit_term_set_output_buffer` is given while output is pending, and the xterm driver's `chpen` never writes past
    its array `params[]`, whatever the pen and the capabilities. -/
theorem out_no_ub (ops : List YOp) (o : OTop) (I : OInv o) (h : OutHistory ops) :
    ∃ o', yrunOps extractedTop o ops = .ok o' ∧ OInv o' :=
  yrun_ok extractedTop_trepaired chpen_params_room ops o I h

theorem out_no_ub_from_start (start : XOp) (hstart : start.isNew = true) (ops : List YOp) (h : OutHistory ops) :
    ∃ o', yrunOps extractedTop {} (.x start :: ops) = .ok o' ∧ OInv o' :=
  yrun_from_start extractedTop_trepaired chpen_params_room start hstart ops h

/-- **the pending output lies inside the buffer**, spelled out on the state reached by any history from the start:
    without a buffer nothing is pending, with a buffer of `n` bytes fewer than `n` bytes are - in particular after
    `tickit_term_set_output_buffer` has replaced a buffer that held pending output by a smaller one. -/
theorem outbuf_in_bounds (start : XOp) (hstart : start.isNew = true) (ops : List YOp) (h : OutHistory ops) :
    ∃ o', yrunOps extractedTop {} (.x start :: ops) = .ok o' ∧
      (o'.o.tb.bufLen = 0 → o'.o.tb.buf = []) ∧ (0 < o'.o.tb.bufLen → o'.o.tb.buf.length < o'.o.tb.bufLen) := by
  obtain ⟨o', hr, I⟩ := out_no_ub_from_start start hstart ops h
  exact ⟨o', hr, I.wf.1, I.wf.2⟩

/-- `tickit_term_set_output_buffer`, whatever is pending: the new length is in force and nothing is pending
    (`tt->outbuffer_cur = 0`) - the old buffer's content is not carried into a block it may not fit. -/
theorem set_output_buffer_resets (tb : TermBuf.State) (n : Nat) :
    (TermBuf.setOutputBuffer tb n).bufLen = n ∧ (TermBuf.setOutputBuffer tb n).buf = [] := ⟨rfl, rfl⟩

/-- Why the fill level matters: with more pending than the buffer holds, the next `write_str` computes a wrapped-around
    `space` and overruns the buffer (the model's explicit failure). -/
theorem pending_beyond_buffer_overruns (fuel : Nat) (st : TermBuf.State) (str : List UInt8) (hs : str ≠ [])
    (h : st.bufLen < st.buf.length) : ∃ why, TermBuf.writeLoop (fuel + 1) st str = .ub why := by
  have : ¬ str.length = 0 := fun e => hs (List.length_eq_zero_iff.1 e)
  unfold TermBuf.writeLoop
  rw [if_neg this, if_pos h]
  exact ⟨_, rfl⟩

/-- **the xterm driver's `chpen` stays inside `params[]`** for every capability setting, every delta and every final pen,
    with the array the source tree declares. -/
theorem chpen_params_fit (caps : TermPen.Caps) (delta final : TermPen.Pen) :
    ∃ bs, TermPen.xtermChpen caps Gen.Sgr.paramsCap delta final = .bytes bs := by
  have hlen := Tickit.Proof.Sgr.length_flatten_comps caps delta
  have hc := chpen_params_room
  unfold TermPen.xtermChpen
  simp only
  rw [if_neg (by omega)]
  split
  · exact ⟨_, rfl⟩
  · split <;> exact ⟨_, rfl⟩

/-- The pen of `/verif/seeded`-style histories: both colours with RGB8 secondaries, a styled underline and the seven
    single attributes need all 19 parameters on a terminal with both capabilities. -/
def richPen : TermPen.Pen :=
  { fg := some ⟨200, some ⟨200, 10, 20⟩⟩, bg := some ⟨100, some ⟨1, 2, 250⟩⟩, bold := some true, under := some 3, italic := some true,
    reverse := some true, strike := some true, altfont := some 2, blink := some true, sizepos := some 2 }

example : (TermPen.flatten (TermPen.comps ⟨true, true⟩ (TermPen.termDelta true xtermColors {} richPen))).length = 19 := by decide +kernel

/-- **all_released with the output side**: after any history of this layer and `end` nothing is left (a buffer with
    output pending is the terminal's: it goes with it). -/
theorem out_all_released (start : XOp) (hstart : start.isNew = true) (ops : List YOp) (h : OutHistory ops) :
    ∃ o', yrunOps extractedTop {} (.x start :: ops ++ [.x (.base .«end»)]) = .ok o' ∧ o'.top.anythingLeft = false ∧ o'.top.fail = none :=
  yrun_end extractedTop_trepaired chpen_params_room start hstart ops h

/-- Non-vacuity: a buffer of 64 bytes, 26 bytes printed into it, the buffer replaced by one of 8 bytes, printing on, the
    capabilities reported, the 19-parameter pen set, the buffer removed, a window made and dropped in between. -/
example : OutHistory [.tbuf 64, .tprint (List.replicate 26 0x61), .tbuf 8, .tprint (List.replicate 10 0x62), .tcaps true true false,
    .x (.base (.win 0 ⟨0, 0, 2, 2⟩ 0)), .tsetpen true richPen, .tbuf 0, .x (.base (.act (.unref 1))), .tsetpen false {}, .tflush] := by
  intro op hop; simp at hop
  rcases hop with rfl | rfl | rfl | rfl | rfl | rfl | rfl | rfl | rfl | rfl | rfl <;>
    first | trivial | (intro e; cases e) | exact .inl ⟨.inl rfl, rfl, fun _ _ _ _ h => by cases h⟩

example : (match yrunOps extractedTop {} [.x (.base (.newTerm 6 12 false)), .tbuf 64, .tprint (List.replicate 26 0x61), .tbuf 8] with
    | .ok o => (o.o.tb.bufLen, o.o.tb.buf.length) | _ => (99, 99)) = (8, 0) := by decide +kernel

example : (yrunOps extractedTop {} [.x (.base (.newTerm 6 12 false)), .tbuf 64, .tprint (List.replicate 26 0x61), .tbuf 8,
    .tprint (List.replicate 10 0x62), .tcaps true true false, .x (.base (.win 0 ⟨0, 0, 2, 2⟩ 0)), .tsetpen true richPen, .tbuf 0,
    .x (.base (.act (.unref 1))), .tsetpen false {}, .tflush, .x (.base .«end»)]).isOk = true := by decide +kernel

/-! ## I/O watches of the toplevel instance: the slot tables of the default event loop -/

/-- **io_dispatch_in_bounds**: after `poll`, the dispatch loop of `evloop_run` — whatever the callbacks it invokes
    register (growing the tables with `realloc` as often as it takes), cancel or re-register — reads every `pollfds[idx]`
    from the block `evdata->pollfds` points to at that moment and inside it, ends, and leaves the tables well-formed. -/
theorem io_dispatch_in_bounds (io : IoSt) (I : IoInv io) :
    ∃ io', IoSt.dispatch ioFuel 0 io.poll = .ok io' ∧ IoInv io' :=
  dispatch_ok ioFuel 0 (poll_inv I) (by unfold ioFuel; omega) (by omega)

/-- What a callback may do keeps the tables well-formed (`evloop_io` doubles them before they overflow). -/
theorem io_callback_keeps_tables (io : IoSt) (I : IoInv io) (self : Nat) (acts : List IAct) :
    IoInv (acts.foldl (fun io a => io.act self a) io) := acts_inv self acts I

/-- The model tells the blocks apart: a read through a pointer taken before a `realloc` moved the table is a failure. -/
example : (match ({ gen := 1, alloc := 8 } : IoSt).rd 0 1 with | .ub .mem _ => true | _ => false) = true := by decide

/-- Non-vacuity: four watches registered from the callback of the first of two ready descriptors: the tables grow from 4
    to 8 slots while the loop is in its second round, and it goes on to invoke the second and the new ones' neighbours. -/
example : (match IoSt.dispatch ioFuel 0 ((({} : IoSt).watch { ready := true, acts := [.reg true, .reg true, .reg true, .reg true] }).watch { ready := true }).poll with
    | .ok io => (io.alloc, io.gen, io.slots.size, io.log) | _ => (0, 0, 0, [])) = (8, 1, 7, ["I0", "I1"]) := by decide +kernel

/-! ## the scratch block of a render buffer (runs of LINE cells in `tickit_renderbuffer_flush_to_term`) -/

/-- **linerun_sends_what_was_written**: whatever the block holds and however long the run, the terminal is sent exactly
    the UTF-8 of the run's characters — every byte read had been written, none lies beyond the block (`Tmp.read` fails on
    either).  The premise `6 ≤ t.size` is what makes one doubling enough for any sequence (the library allocates 256). -/
theorem linerun_sends_what_was_written :
    ∀ (t : Tmp) (cps : List Nat), 6 ≤ t.size → ∃ t', t.lineRun cps = .ok (t', cps.flatMap utf8Bytes) :=
  fun t cps h => let ⟨t', h', _⟩ := Tmp.lineRun_ok t cps h; ⟨t', h'⟩

/-- **tmp_cat_keeps_block**: one `tmp_cat_utf8` on a block that holds `bs` in `tmp[0 .. tmplen)` with `tmplen ≤ tmpsize`:
    afterwards it holds `bs` followed by the character's bytes (a `realloc` on the way keeps what was written),
    `tmplen ≤ tmpsize` again, and the block has not shrunk. -/
theorem tmp_cat_keeps_block (t : Tmp) (bs : List UInt8) (cp : Nat) (h : t.Holds bs) :
    (t.catUtf8 cp).Holds (bs ++ utf8Bytes cp) ∧ t.size ≤ (t.catUtf8 cp).size := h.cat cp

/-- **linerun_block_inv**: after a run of any length `tmplen ≤ tmpsize`, the bytes below `tmplen` are exactly the ones
    sent, and the block is at least as large as before. -/
theorem linerun_block_inv (t : Tmp) (cps : List Nat) (h : 6 ≤ t.size) :
    ∃ t', t.lineRun cps = .ok (t', cps.flatMap utf8Bytes) ∧ t'.len ≤ t'.size ∧
      t'.mem.take t'.len = (cps.flatMap utf8Bytes).map some ∧ t.size ≤ t'.size :=
  let ⟨t', h', inv, hs⟩ := Tmp.lineRun_ok t cps h; ⟨t', h', inv.fits, inv.written, hs⟩

/-- **flush_lineruns_send_what_was_written**: all LINE runs of a buffer, row after row through the one scratch block as
    `tickit_renderbuffer_flush_to_term` uses it: every run is sent as the UTF-8 of its glyphs, whatever `linemask_to_char[]`
    is and however wide the buffer. -/
theorem flush_lineruns_send_what_was_written (glyph : Int → Nat) (b : RBObj) (t : Tmp) (h : 6 ≤ t.size) :
    ∃ t', flushLineRuns glyph b t = .ok (t', (b.cells.toList.flatMap (fun row => lineRunsOfRow row.toList)).flatMap
      (fun run => (run.map glyph).flatMap utf8Bytes)) := by
  obtain ⟨t', h', _⟩ := lineRuns_ok ((b.cells.toList.flatMap (fun row => lineRunsOfRow row.toList)).map (List.map glyph)) t [] h
  refine ⟨t', ?_⟩
  unfold flushLineRuns
  rw [List.foldlM_map] at h'
  rw [h']
  simp [List.flatMap_map]

/-- The hypotheses are satisfiable and the statement bites: the block a buffer starts with, a run that needs two doublings. -/
example : 6 ≤ ({} : Tmp).size := by decide +kernel
example : ({} : Tmp).Holds [] := ⟨by decide +kernel, by decide +kernel, by decide +kernel⟩
example : ∃ t', ({} : Tmp).lineRun (List.replicate 200 0x2500) = .ok (t', (List.replicate 200 0x2500).flatMap utf8Bytes) ∧ 256 < t'.size := by
  obtain ⟨t', h, inv, _⟩ := Tmp.lineRun_ok {} (List.replicate 200 0x2500) (by decide +kernel)
  refine ⟨t', h, ?_⟩
  have h1 := inv.fits
  have h2 : t'.len = 600 := by
    have := congrArg List.length inv.written
    rw [List.length_take, List.length_map] at this
    have h3 : ((List.replicate 200 0x2500).flatMap utf8Bytes).length = 600 := by decide +kernel
    unfold Tmp.size at h1; omega
  omega
/-- The premise cannot be dropped: a 2-byte block doubled once has no room for a 6-byte sequence (the library's is 256). -/
example : (match ({ mem := [none, none] } : Tmp).lineRun [0x4000000] with | .ub .mem _ => true | _ => false) = true := by decide +kernel

/-- Instances: runs of 85, 86 and 200 box-drawing characters through the 256-byte block the buffer starts with (86 is
    the first length at which `tmp_cat_utf8` has to grow it). -/
example : (match ({} : Tmp).lineRun (List.replicate 85 0x2500) with | .ok r => (r.1.size, r.2.length) | _ => (0, 0)) = (256, 255) := by decide +kernel
example : (match ({} : Tmp).lineRun (List.replicate 86 0x2500) with | .ok r => (r.1.size, r.2 == (List.replicate 86 0x2500).flatMap utf8Bytes) | _ => (0, false)) = (512, true) := by decide +kernel
example : (match ({} : Tmp).lineRun (List.replicate 200 0x2500) with | .ok r => (r.1.size, r.2 == (List.replicate 200 0x2500).flatMap utf8Bytes) | _ => (0, false)) = (1024, true) := by decide +kernel

/-- The model tells written bytes from fresh ones: a block grown *without* keeping its contents is refused by `Tmp.read`. -/
example : (match ({ mem := List.replicate 512 none ++ [], len := 255 } : Tmp).read with | .ub .mem _ => true | _ => false) = true := by decide +kernel

/-! ## `tickit_window_get_children`: "calls that copy out to a caller's buffer never write beyond the length given" -/

/-- The loop of `tickit_window_get_children` on an array of `n` slots never stores behind it, whatever the list of children
    and wherever it starts, and reports no more than `n`. -/
theorem get_children_loop_in_bounds (n : Nat) : ∀ (cs : List WinTree.Id) (buf : List (Option WinTree.Id)) (ret : Nat),
    buf.length = n → ∃ buf' ret', getChildrenLoop n cs buf ret = .ok (buf', ret') ∧ buf'.length = n ∧ (ret ≤ n → ret' ≤ n) := by
  intro cs
  induction cs with
  | nil => intro buf ret h; exact ⟨buf, ret, rfl, h, id⟩
  | cons c rest ih =>
    intro buf ret h
    by_cases hr : ret < n
    · have hs : kidsStore buf ret c = .ok (buf.set ret (some c)) := by
        unfold kidsStore; rw [if_pos (by omega)]
      obtain ⟨b', r', e, hl, hle⟩ := ih (buf.set ret (some c)) (ret + 1) (by simp [h])
      refine ⟨b', r', ?_, hl, fun _ => hle (by omega)⟩
      simp only [getChildrenLoop, if_pos hr, hs]; exact e
    · refine ⟨buf, ret, ?_, h, id⟩
      simp only [getChildrenLoop, if_neg hr]

/-- `tickit_window_get_children(win, children, n)` on a live window, for every `n` (0 included) and every number of
    children: no store behind the `n` slots, and the value returned is at most `n`. -/
theorem get_children_never_writes_beyond (st : St) (w n : Nat) (x : WinTree.Win) (hx : st.tree.wins[w]? = some x)
    (hf : x.freed = false) : ∃ buf ret, getChildren st w n = .ok (buf, ret) ∧ buf.length = n ∧ ret ≤ n := by
  obtain ⟨b, r, e, hl, hle⟩ := get_children_loop_in_bounds n x.children (List.replicate n none) 0 (by simp)
  refine ⟨b, r, ?_, hl, hle (Nat.zero_le n)⟩
  unfold getChildren; rw [hx]; simp only [hf]; exact e

/-- Non-vacuity: three children into one slot: the first is stored, 1 is returned; a store at index `n` is a failure. -/
example : (match getChildrenLoop 1 [5, 6, 7] [none] 0 with | .ok (b, r) => b == [some 5] && r == 1 | _ => false) = true := by decide
example : (match kidsStore [none] 1 9 with | .ub .mem _ => true | _ => false) = true := by decide

/-! ## process watches of the default loop: the deferred delivery of a child that had exited already -/

/-- Every deferred delivery still queued points at a process watch that has not been freed. -/
def ProcInv (p : ProcSt) : Prop :=
  ∀ (l : Nat) (n : NoteRec), p.notes[l]? = some n → n.pending = true →
    ∃ r : ProcRec, p.recs[n.target]? = some r ∧ r.freed = false ∧ r.notify = some l

/-- OPEN (full statement): watching, cancelling (with the cancellation of the pending delivery) and loop turns keep
    `ProcInv`, and a loop turn under `ProcInv` never touches a freed watch. -/
def process_notify_never_touches_freed : Prop :=
  (∀ p e, ProcInv p → ProcInv (p.watch e)) ∧ (∀ p k, ProcInv p → ProcInv (p.cancel true k)) ∧
  (∀ p, ProcInv p → ∃ p', p.tick = .ok p' ∧ ProcInv p')

/-- Instances: watch an exited child, cancel, turn: nothing runs; without the cancellation of the pending delivery the
    turn stores into the freed watch; left alone, the watch fires once. -/
example : (match ((({} : ProcSt).watch true).cancel true 0).tick with | .ok p => p.log.isEmpty | _ => false) = true := by decide
example : (match ((({} : ProcSt).watch true).cancel false 0).tick with | .ub .mem _ => true | _ => false) = true := by decide
example : (match (({} : ProcSt).watch true).tick with | .ok p => p.log == ["C0"] && !p.pending 0 | _ => false) = true := by decide

end Tickit.Props.C08
