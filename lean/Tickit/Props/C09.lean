import Tickit.Proof.XTermDrv
/-
  C09 — xterm driver output has exactly the requested effect on a VT-conformant screen.

  `VT.run bytes vt` is the VT reference interpreter (Model/VT.lean, DESIGN.md Appendix C) applied to a byte string;
  `XTermDrv.*` is the byte-exact model of the driver's requests (Model/XTermDrv.lean).  Every theorem is quantified
  over all screens `vt` satisfying `Spec.WF` (tokenizer in the ground state, cursor on the screen, no margins set),
  hence over every terminal size and content, over all in-range arguments, over the capability bits and over the
  reverse-video state.
-/
namespace Tickit.Props.C09
open Tickit Tickit.VT Tickit.XTermDrv

/-! ### `%d` round trip -/

/-- What the driver prints with `%d` is read back as the same number. -/
theorem readInt_showInt (i : Int) : readInt (showInt i) = some i := by
  unfold showInt
  by_cases h : i < 0
  · simp only [h, if_true, readInt, readNat_showNat]
    congr 1; simp only [Int.ofNat_eq_natCast]; omega
  · simp only [h, if_false]
    cases hs : showNat i.toNat with
    | nil => exact absurd hs (showNat_ne_nil _)
    | cons b rest =>
      have hb := showNat_head_ne_minus i.toNat b rest hs
      simp only [readInt, hb, if_false]
      rw [← hs, readNat_showNat]
      simp only [Int.ofNat_eq_natCast, Int.toNat_of_nonneg (Int.not_lt.mp h)]

example : readInt (showInt (-1048576)) = some (-1048576) := readInt_showInt _

/-! ### Cursor positioning and relative movement -/

/-- `goto`: the cursor is exactly where requested (`-1` keeps a coordinate), the screen is untouched. -/
theorem goto_effect (vt : VTState) (hw : Spec.WF vt) (line col : Int)
    (hl : line = -1 ∨ (0 ≤ line ∧ line < vt.lines)) (hc : col = -1 ∨ (0 ≤ col ∧ col < vt.cols)) :
    run (gotoAbs line col) vt = Spec.goto line col vt := by
  have hg := hw.ground
  have hrow : 0 ≤ vt.row ∧ vt.row < vt.lines := ⟨hw.row_lo, hw.row_hi⟩
  have hcol : 0 ≤ vt.col ∧ vt.col < vt.cols := ⟨hw.col_lo, hw.col_hi⟩
  by_cases h1 : line = -1
  · subst h1
    by_cases h2 : col = -1
    · subst h2; simp [gotoAbs, Spec.goto]
    · have hc' : 0 ≤ col ∧ col < vt.cols := by omega
      unfold gotoAbs Spec.goto
      by_cases h3 : col > 0
      · simp only [h2, h3, ne_eq, not_true_eq_false, false_and, and_false, if_true, if_false]
        rw [run_csi_n vt hg (col + 1) (by omega) 0x47 fin_G, dispatch_cha, cnt_toNat0 _ (by omega),
          moveTo_in vt _ _ hrow (by omega)]
        congr 1; omega
      · have h4 : col = 0 := by omega
        subst h4
        simp only [ne_eq, not_true_eq_false, false_and, and_false, if_false, gt_iff_lt, Int.lt_irrefl,
          not_false_eq_true, if_true, (by decide : ¬ ((0 : Int) = -1))]
        rw [run_csi_0 vt hg 0x47 fin_G, dispatch_cha, cnt_none0, moveTo_in vt _ _ hrow (by omega)]
        rfl
  · have hl' : 0 ≤ line ∧ line < vt.lines := by omega
    by_cases h2 : col = -1
    · subst h2
      unfold gotoAbs Spec.goto
      simp only [h1, ne_eq, not_false_eq_true, true_and, false_and, if_false, if_true, gt_iff_lt,
        (by decide : ¬ ((0 : Int) < -1)), (by decide : ¬ ((-1 : Int) = 0))]
      rw [run_csi_n vt hg (line + 1) (by omega) 0x64 fin_d, dispatch_vpa, cnt_toNat0 _ (by omega),
        moveTo_in vt _ _ (by omega) hcol]
      congr 1; omega
    · have hc' : 0 ≤ col ∧ col < vt.cols := by omega
      rw [run_gotoAbs_pos vt hg line col hl'.1 hc'.1, moveTo_in vt _ _ hl' hc']
      simp [Spec.goto, h1, h2]

example : Spec.WF (VTState.init 24 80 (fun _ _ => default)) := by
  constructor <;> simp [VTState.init]

/-- `move`: the cursor moves by exactly the requested offsets, the screen is untouched. -/
theorem move_effect (vt : VTState) (hw : Spec.WF vt) (downward rightward : Int)
    (hr : 0 ≤ vt.row + downward ∧ vt.row + downward < vt.lines)
    (hc : 0 ≤ vt.col + rightward ∧ vt.col + rightward < vt.cols) :
    run (moveRel downward rightward) vt = Spec.move downward rightward vt := by
  have hg := hw.ground
  unfold moveRel Spec.move
  rw [run_append, run_signedSeq_vmove vt hg]
  by_cases hd : downward = 0
  · subst hd
    simp only [if_true, true_and]
    rw [run_signedSeq_hmove vt hg]
    by_cases hr0 : rightward = 0
    · simp [hr0]
    · simp only [hr0, if_false]
      rw [moveTo_in vt _ _ ⟨hw.row_lo, hw.row_hi⟩ hc]
      simp
  · simp only [hd, if_false, false_and]
    rw [moveTo_in vt _ _ hr ⟨hw.col_lo, hw.col_hi⟩, run_signedSeq_hmove]
    · by_cases hr0 : rightward = 0
      · simp [hr0]
      · simp only [hr0, if_false]
        rw [moveTo_in _ _ _ (by simpa using hr) (by simpa using hc)]
    · exact hg

end Tickit.Props.C09
