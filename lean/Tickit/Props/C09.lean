import Tickit.Model.XTermDrv
namespace Tickit.Props.C09
end Tickit.Props.C09
