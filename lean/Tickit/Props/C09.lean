import Tickit.Proof.XTermDrv
import Tickit.Proof.XTermOut
import Tickit.Model.XTermPenRgb
import Tickit.Gen.XTermFacts
import Tickit.Gen.TermBuf
/-
  C09 — xterm driver output has exactly the requested effect on a VT-conformant screen.

  `VT.run bytes vt` is the VT reference interpreter (Model/VT.lean, DESIGN.md Appendix C) applied to a byte string;
  `XTermDrv.*` is the byte-exact model of the driver's requests (Model/XTermDrv.lean).  Every theorem is quantified
  over all screens `vt` satisfying `Spec.WF` (tokenizer in the ground state, cursor on the screen, no margins set),
  hence over every terminal size and content, over all in-range arguments, over the capability bits and over the
  reverse-video state.
-/
namespace Tickit.Props.C09
open Tickit Tickit.VT Tickit.XTermDrv

/-! ### `%d` round trip -/

/-- What the driver prints with `%d` is read back as the same number. -/
theorem readInt_showInt (i : Int) : readInt (showInt i) = some i := by
  unfold showInt
  by_cases h : i < 0
  · simp only [h, if_true, readInt, readNat_showNat]
    congr 1; simp only [Int.ofNat_eq_natCast]; omega
  · simp only [h, if_false]
    cases hs : showNat i.toNat with
    | nil => exact absurd hs (showNat_ne_nil _)
    | cons b rest =>
      have hb := showNat_head_ne_minus i.toNat b rest hs
      simp only [readInt, hb, if_false]
      rw [← hs, readNat_showNat]
      simp only [Int.ofNat_eq_natCast, Int.toNat_of_nonneg (Int.not_lt.mp h)]

example : readInt (showInt (-1048576)) = some (-1048576) := readInt_showInt _

/-! ### Cursor positioning and relative movement -/

/-- `goto`: the cursor is exactly where requested (`-1` keeps a coordinate), the screen is untouched. -/
theorem goto_effect (vt : VTState) (hw : Spec.WF vt) (line col : Int)
    (hl : line = -1 ∨ (0 ≤ line ∧ line < vt.lines)) (hc : col = -1 ∨ (0 ≤ col ∧ col < vt.cols)) :
    run (gotoAbs line col) vt = Spec.goto line col vt := by
  have hg := hw.ground
  have hrow : 0 ≤ vt.row ∧ vt.row < vt.lines := ⟨hw.row_lo, hw.row_hi⟩
  have hcol : 0 ≤ vt.col ∧ vt.col < vt.cols := ⟨hw.col_lo, hw.col_hi⟩
  by_cases h1 : line = -1
  · subst h1
    by_cases h2 : col = -1
    · subst h2; simp [gotoAbs, Spec.goto]
    · have hc' : 0 ≤ col ∧ col < vt.cols := by omega
      unfold gotoAbs Spec.goto
      by_cases h3 : col > 0
      · simp only [h2, h3, ne_eq, not_true_eq_false, false_and, and_false, if_true, if_false]
        rw [run_csi_n vt hg (col + 1) (by omega) 0x47 fin_G, dispatch_cha, cnt_toNat0 _ (by omega),
          moveTo_in vt _ _ hrow (by omega)]
        congr 1; omega
      · have h4 : col = 0 := by omega
        subst h4
        simp only [ne_eq, not_true_eq_false, false_and, and_false, if_false, gt_iff_lt, Int.lt_irrefl,
          not_false_eq_true, if_true, (by decide : ¬ ((0 : Int) = -1))]
        rw [run_csi_0 vt hg 0x47 fin_G, dispatch_cha, cnt_none0, moveTo_in vt _ _ hrow (by omega)]
        rfl
  · have hl' : 0 ≤ line ∧ line < vt.lines := by omega
    by_cases h2 : col = -1
    · subst h2
      unfold gotoAbs Spec.goto
      simp only [h1, ne_eq, not_false_eq_true, true_and, false_and, if_false, if_true, gt_iff_lt,
        (by decide : ¬ ((0 : Int) < -1)), (by decide : ¬ ((-1 : Int) = 0))]
      rw [run_csi_n vt hg (line + 1) (by omega) 0x64 fin_d, dispatch_vpa, cnt_toNat0 _ (by omega),
        moveTo_in vt _ _ (by omega) hcol]
      congr 1; omega
    · have hc' : 0 ≤ col ∧ col < vt.cols := by omega
      rw [run_gotoAbs_pos vt hg line col hl'.1 hc'.1, moveTo_in vt _ _ hl' hc']
      simp [Spec.goto, h1, h2]

example := goto_effect exScreen exScreen_wf 3 (-1) (by decide) (by decide)
example := goto_effect exScreen exScreen_wf 0 5 (by decide) (by decide)

/-- `move`: the cursor moves by exactly the requested offsets, the screen is untouched. -/
theorem move_effect (vt : VTState) (hw : Spec.WF vt) (downward rightward : Int)
    (hr : 0 ≤ vt.row + downward ∧ vt.row + downward < vt.lines)
    (hc : 0 ≤ vt.col + rightward ∧ vt.col + rightward < vt.cols) :
    run (moveRel downward rightward) vt = Spec.move downward rightward vt := by
  have hg := hw.ground
  unfold moveRel Spec.move
  rw [run_append, run_signedSeq_vmove vt hg]
  by_cases hd : downward = 0
  · subst hd
    simp only [if_true, true_and]
    rw [run_signedSeq_hmove vt hg]
    by_cases hr0 : rightward = 0
    · simp [hr0]
    · simp only [hr0, if_false]
      rw [moveTo_in vt _ _ ⟨hw.row_lo, hw.row_hi⟩ hc]
      simp
  · simp only [hd, if_false, false_and]
    rw [moveTo_in vt _ _ hr ⟨hw.col_lo, hw.col_hi⟩, run_signedSeq_hmove]
    · by_cases hr0 : rightward = 0
      · simp [hr0]
      · simp only [hr0, if_false]
        rw [moveTo_in _ _ _ (by simpa using hr) (by simpa using hc)]
    · exact hg

example := move_effect exScreen exScreen_wf (-1) 3 (by decide) (by decide)

/-! ### Print -/

/-- `print` of printable ASCII text that fits in the row: exactly the cells under the text change, to the text's
    glyphs with the current attributes; the cursor ends after the text (on the last column with the wrap pending if
    the text ends exactly at the right edge). -/
theorem print_effect (fx : Fixes) (vt : VTState) (hw : Spec.WF vt) (hpw : vt.pendingWrap = false) (text : List UInt8)
    (hp : ∀ b ∈ text, 0x20 ≤ b ∧ b < 0x7f) (hne : text ≠ []) (hfit : vt.col + text.length ≤ vt.cols) :
    run (print fx text text.length) vt =
    { vt with
      grid := Spec.printGrid (text.map UInt8.toNat) vt,
      col := if vt.col + text.length < vt.cols then vt.col + text.length else vt.cols - 1,
      pendingWrap := decide (vt.col + text.length = vt.cols) } := by
  have hlen : text.length ≠ 0 := by
    cases text with
    | nil => exact absurd rfl hne
    | cons _ _ => simp
  have : print fx text text.length = text := by simp [print, hlen]
  rw [this, run_ascii text hp hne vt hw.ground hpw hfit]
  apply VTState.ext <;> try rfl
  funext l c
  simp only [textGrid, Spec.printGrid, List.length_map, getD_map_toNat]

/-- four characters from column 2 of 6: the text ends exactly at the right edge -/
example := print_effect Fixes.none exScreen exScreen_wf rfl [0x68, 0x65, 0x79, 0x21] (by decide) (by decide) (by decide)

/-- The cells a printable character occupies are as many as the library's width counter says
    (`tickit_utf8_wcwidth`, and `tickit_utf8_count` of its encoding: C07 `put_count_roundtrip`). -/
theorem cells_are_library_width (cp : Nat) (hp : Spec.Printable cp) (fuel : Nat) :
    ((Spec.cellsOf cp).length : Int) = Width.wcwidth cp ∧
    Utf8.count (Utf8.memOfBytes (Utf8.putBytes cp)) (fuel + 2) none =
      .ret (Utf8.seqlen cp) ⟨Utf8.seqlen cp, 1, if Width.wcwidth cp > 0 then 1 else 0, Width.wcwidth cp⟩
        (Utf8.seqlen cp + 1) := by
  obtain ⟨p1, p2, p3⟩ := hp
  refine ⟨?_, Utf8.count_putBytes cp p1 p2 (by omega) fuel⟩
  have hnn : 0 ≤ Width.wcwidth cp := by
    rcases Utf8.wcwidth_cases cp with h | h
    · exact absurd h (Utf8.wcwidth_ne_neg_one cp (by omega) (by omega))
    · exact h
  rcases cellsOf_cases cp with ⟨hw, hc⟩ | ⟨hw, hc⟩ | ⟨hw, hc⟩ <;>
    (rw [hc]; unfold width at hw; simp only [List.length_cons, List.length_nil]; omega)

/-- `print` of any printable UTF-8 text — multi-byte, double-width and combining characters included — that fits
    in the row: exactly the cells under the text change, each character taking as many cells as the library's
    width counter gives it (glyph, glyph + continuation cell, or none for a combining character), with the current
    attributes; the cursor advances by the sum of the widths, or stays on the last column with the wrap pending
    when the text ends exactly at the right edge.  The text is given by its code points; the bytes are the
    library's own encoding of them. -/
theorem print_utf8_effect (fx : Fixes) (vt : VTState) (hw : Spec.WF vt) (hpw : vt.pendingWrap = false)
    (cps : List Nat) (hp : ∀ cp ∈ cps, Spec.Printable cp)
    (hfit : vt.col + (Spec.textCells cps).length ≤ vt.cols) :
    run (print fx (Spec.utf8 cps) (Spec.utf8 cps).length) vt = Spec.placeCells (Spec.textCells cps) vt := by
  have : print fx (Spec.utf8 cps) (Spec.utf8 cps).length = Spec.utf8 cps := by
    unfold print
    by_cases h : (Spec.utf8 cps).length = 0
    · have : Spec.utf8 cps = [] := List.eq_nil_of_length_eq_zero h
      rw [this]; simp
    · simp [h]
  rw [this, run_utf8 cps hp vt hw.ground, foldl_putGlyph cps vt hpw hw.col_hi hfit]

/-- "é", "一" (double width), "e" + combining acute, "€": 1 + 2 + 1 + 0 + 1 = 5 cells from column 1 of 6 -/
example := print_utf8_effect Fixes.none { exScreen with col := 1 } (by constructor <;> decide) rfl
  [0xe9, 0x4e00, 0x65, 0x301, 0x20ac] (by decide) (by decide +kernel)

/-- `printn(str, len)` sends exactly the first `len` bytes (the full clause for the byte count). -/
def C09_print_len (fx : Fixes) : Prop :=
  ∀ (str : List UInt8) (len : Nat), len ≤ str.length → print fx str len = str.take len

/-- … which holds for every non-zero length. -/
theorem print_len_partial (fx : Fixes) (str : List UInt8) (len : Nat) (h : len ≠ 0) :
    print fx str len = str.take len := by
  simp [print, h]

/-- DEFECT (unchanged tree): `tickit_term_printn(tt, "abc", 0)` sends `abc`: `write_str` takes `len == 0` for
    "use `strlen`". -/
theorem print_zero_len_counterexample : ¬ C09_print_len Fixes.none := by
  intro h
  have h1 := h [0x61, 0x62, 0x63] 0 (by decide)
  revert h1
  decide

/-- With the guard of `fixes/C09_printn_zero_len.patch` the clause holds in full. -/
theorem print_len_of_guard (fx : Fixes) (hfx : fx.printnGuard = true) : C09_print_len fx := by
  intro str len _
  by_cases h : len = 0
  · subst h; simp [print, hfx]
  · exact print_len_partial fx str len h

/-! ### Clear -/

/-- `clear`: every cell of the screen is blank with the current background; cursor and everything else unchanged. -/
theorem clear_effect (vt : VTState) (hw : Spec.WF vt) :
    run clear vt = { vt with grid := Spec.clearGrid vt } := by
  have e : clear = csi (showInt 2 ++ [0x4a]) := by decide
  rw [e, run_csi_n vt hw.ground 2 (by decide) 0x4a fin_J, dispatch_ed]
  apply VTState.ext <;> try rfl
  funext l c
  simp [VTState.ed, Spec.clearGrid, param, VTState.blank]

example := clear_effect exScreen exScreen_wf

/-! ### Erase characters -/

/-- A request with `count < 1` emits nothing. -/
theorem erasech_noop (fx : Fixes) (rv : Bool) (count : Int) (me : MoveEnd) (h : count < 1) :
    erasech fx rv count me = [] := by
  simp [erasech, h]

/-- `erasech`, both strategies (ECH when the pen is not reverse video, spaces when it is), every `moveend`:
    exactly `count` cells from the cursor become blank with the current background (and the current reverse state),
    nothing else changes, and the cursor ends where `moveend` demands.
    `rv` is the reverse attribute of the driver's current pen, assumed equal to the terminal's.
    Hypotheses `h64` and `hlast` exclude exactly the two defects `erase_over_64_counterexample` and
    `erase_last_col_counterexample` below. -/
theorem erasech_effect (fx : Fixes) (vt : VTState) (hw : Spec.WF vt) (hpw : vt.pendingWrap = false)
    (rv : Bool) (hrv : vt.rv = rv)
    (count : Int) (me : MoveEnd) (h1 : 1 ≤ count) (hfit : vt.col + count ≤ vt.cols)
    (h64 : fx.eraseKeepsCount = false → rv = true → me = .no → count ≤ 64)
    (hlast : rv = true → me = .no → vt.col + count = vt.cols → vt.col = 0) :
    Spec.EraseOK count me vt (run (erasech fx rv count me) vt) := by
  have hg := hw.ground
  have hrow : 0 ≤ vt.row ∧ vt.row < vt.lines := ⟨hw.row_lo, hw.row_hi⟩
  have hcol := hw.col_lo
  have hn1 : ¬ count < 1 := by omega
  cases rv with
  | false =>
    -- ECH
    have hech : run (if count = 1 then csi [0x58] else csi (showInt count ++ [0x58])) vt = vt.ech count := by
      by_cases hc1 : count = 1
      · subst hc1
        simp only [if_true]
        rw [run_csi_0 vt hg 0x58 fin_X, dispatch_ech, cnt_none0]
      · simp only [hc1, if_false]
        rw [run_csi_n vt hg count (by omega) 0x58 fin_X, dispatch_ech, cnt_toNat0 _ h1]
    have hgrid : (vt.ech count).grid = Spec.eraseGrid count vt := by
      funext l c
      simp only [VTState.ech, Spec.eraseGrid, VTState.blank, Cell.blank, hrv]
      cells_omega
    simp only [erasech, hn1, if_false, Bool.not_false, if_true]
    rw [run_append, hech]
    cases me with
    | no =>
      simp only [reduceCtorEq, if_false, run_nil]
      exact ⟨⟨rfl, rfl, rfl, rfl, rfl, rfl, rfl, rfl, rfl, rfl⟩, hgrid, rfl, fun _ => ⟨rfl, hpw⟩, (fun h => by cases h),
        hw.col_lo, hw.col_hi⟩
    | maybe =>
      simp only [reduceCtorEq, if_false, run_nil]
      exact ⟨⟨rfl, rfl, rfl, rfl, rfl, rfl, rfl, rfl, rfl, rfl⟩, hgrid, rfl, (fun h => by cases h), (fun h => by cases h),
        hw.col_lo, hw.col_hi⟩
    | yes =>
      simp only [if_true, moveRel]
      rw [run_append, run_signedSeq_vmove _ (by simpa using hg)]
      simp only [if_true]
      rw [run_signedSeq_hmove _ (by simpa using hg)]
      have hc0 : count ≠ 0 := by omega
      simp only [hc0, if_false]
      refine ⟨⟨rfl, rfl, rfl, rfl, rfl, rfl, rfl, rfl, rfl, rfl⟩, hgrid, ?_, (fun h => by cases h), fun _ => ⟨?_, ?_⟩, ?_⟩
      · simp only [VTState.moveTo, VTState.clampRow, VTState.ech]; omega
      · intro hlt
        refine ⟨?_, rfl⟩
        simp only [VTState.moveTo, VTState.clampCol, VTState.ech]; omega
      · intro heq
        simp only [VTState.moveTo, VTState.clampCol, VTState.ech]; omega
      · simp only [VTState.moveTo, VTState.clampCol, VTState.ech]; omega
  | true =>
    -- spaces
    have hlenI : ((List.replicate count.toNat (0x20 : UInt8)).length : Int) = count := by
      simp only [List.length_replicate]; omega
    have hsp := run_ascii (List.replicate count.toNat 0x20)
      (by intro b hb; rw [List.eq_of_mem_replicate hb]; decide)
      (by intro h; have := congrArg List.length h; simp only [List.length_replicate, List.length_nil] at this; omega)
      vt hg hpw (by rw [hlenI]; exact hfit)
    rw [hlenI] at hsp
    have hgrid : textGrid (List.replicate count.toNat 0x20) vt = Spec.eraseGrid count vt := by
      funext l c
      simp only [textGrid, Spec.eraseGrid, hlenI, getD_replicate_space]
      rfl
    simp only [erasech, hn1, if_false, Bool.not_true, Bool.false_eq_true]
    rw [run_append, hsp, hgrid]
    cases me with
    | yes =>
      simp only [reduceCtorEq, if_false, run_nil]
      refine ⟨⟨rfl, rfl, rfl, rfl, rfl, rfl, rfl, rfl, rfl, rfl⟩, rfl, rfl, (fun h => by cases h), fun _ => ⟨?_, ?_⟩, ?_⟩
      · intro hlt
        simp only [hlt, if_true, true_and]
        apply decide_eq_false; omega
      · intro heq
        simp only []
        rw [if_neg (by omega)]
      · simp only []; split <;> omega
    | maybe =>
      simp only [reduceCtorEq, if_false, run_nil]
      refine ⟨⟨rfl, rfl, rfl, rfl, rfl, rfl, rfl, rfl, rfl, rfl⟩, rfl, rfl, (fun h => by cases h), (fun h => by cases h), ?_⟩
      simp only []; split <;> omega
    | no =>
      have hrem : (if fx.eraseKeepsCount = true then count else eraseRemainder count) = count := by
        cases hk : fx.eraseKeepsCount with
        | true => simp
        | false =>
          have hc64 : count ≤ 64 := h64 hk rfl rfl
          simp only [Bool.false_eq_true, if_false]; unfold eraseRemainder; omega
      simp only [if_true, moveRel, hrem]
      rw [run_append, run_signedSeq_vmove _ (by simpa using hg)]
      simp only [if_true]
      rw [run_signedSeq_hmove _ (by simpa using hg)]
      have hc0 : ¬ (-count = 0) := by omega
      simp only [hc0, if_false]
      refine ⟨⟨rfl, rfl, rfl, rfl, rfl, rfl, rfl, rfl, rfl, rfl⟩, rfl, ?_, fun _ => ⟨?_, rfl⟩, (fun h => by cases h), ?_⟩
      · simp only [VTState.moveTo, VTState.clampRow]; omega
      · by_cases hlt : vt.col + count < vt.cols
        · simp only [VTState.moveTo, VTState.clampCol, hlt, if_true]; omega
        · have heq : vt.col + count = vt.cols := by omega
          have h0 := hlast rfl rfl heq
          simp only [VTState.moveTo, VTState.clampCol, hlt, if_false]; omega
      · simp only [VTState.moveTo, VTState.clampCol]; split <;> omega

/-- reverse video (spaces), `YES`, ending exactly at the last column; and `NO` in the middle of the row -/
example := erasech_effect Fixes.none exScreen exScreen_wf rfl true rfl 4 .yes (by decide) (by decide) (by intro _ _ h; cases h)
  (by intro _ h; cases h)
example := erasech_effect Fixes.none exScreen exScreen_wf rfl true rfl 2 .no (by decide) (by decide) (by intro _ _ _; decide)
  (by intro _ _ h; revert h; decide)
/-- ECH strategy -/
example := erasech_effect Fixes.none { exScreen with rv := false } (by constructor <;> decide) rfl false rfl 4 .yes
  (by decide) (by decide) (by intro _ h; cases h) (by intro h; cases h)

/-! ### Scroll rectangle -/

/-- A scroll that reports failure emits nothing. -/
theorem scroll_failure_silent (fx : Fixes) (caps : Caps) (termCols : Int) (rect : Rect) (downward rightward : Int)
    (h : (scrollrect fx caps termCols rect downward rightward).1 = false) :
    (scrollrect fx caps termCols rect downward rightward).2 = [] := by
  unfold scrollrect at h ⊢
  by_cases h0 : downward = 0 ∧ rightward = 0
  · rw [if_pos h0]
  · rw [if_neg h0] at h ⊢
    simp only [] at h ⊢
    by_cases h1 : ((caps.slrm = true ∧ rect.lines = 1) ∨ rect.right = termCols) ∧ downward = 0
    · rw [if_pos h1] at h ⊢
      by_cases hc : fx.scrollCellGuard = true ∧ rect.right < termCols ∧ rect.right < 2
      · rw [if_pos hc]
      · rw [if_neg hc] at h; cases h
    · rw [if_neg h1] at h ⊢
      by_cases h2 : caps.slrm = true ∨ (rect.left = 0 ∧ rect.cols = termCols ∧ rightward = 0)
      · rw [if_pos h2] at h ⊢
        by_cases h3 : fx.scrollGuard = true ∧
            (rect.lines < 2 ∨ ((rect.left > 0 ∨ rect.right < termCols) ∧ rect.cols < 2))
        · rw [if_pos h3]
        · rw [if_neg h3] at h; cases h
      · rw [if_neg h2]

example : (scrollrect Fixes.none ⟨false, false, false⟩ 80 ⟨3, 10, 5, 60⟩ 1 0) = (false, []) := by decide

/-- The scroll clause for a non-empty rectangle on the screen and offsets of ANY size, for either version of each of
    the two guards of `scrollrect`: a bound on an offset is needed only where the corresponding guard is missing from
    the source (`|downward| < lines` without the margin guard, `|rightward| < cols` without the margin guard or without
    the one-cell guard).  A scroll that reports success moves exactly the cells of the rectangle by the given offsets,
    blanks the vacated cells (all of them when an offset is at least the size), touches nothing outside and leaves no
    margins set. -/
theorem scroll_effect_general (fx : Fixes) (vt : VTState) (hw : Spec.WF vt) (caps : Caps) (hcaps : Spec.CapsOK caps vt)
    (rect : Rect) (downward rightward : Int)
    (hl1 : 1 ≤ rect.lines) (hc1 : 1 ≤ rect.cols) (htop : 0 ≤ rect.top) (hbot : rect.bottom ≤ vt.lines)
    (hleft : 0 ≤ rect.left) (hright : rect.right ≤ vt.cols)
    (hd : fx.scrollGuard = false → -rect.lines < downward ∧ downward < rect.lines)
    (hr : fx.scrollGuard = false ∨ fx.scrollCellGuard = false → -rect.cols < rightward ∧ rightward < rect.cols)
    (hone : fx.scrollGuard = false → ¬ OneColumnTrigger caps vt.cols rect downward)
    (hret : (scrollrect fx caps vt.cols rect downward rightward).1 = true) :
    Spec.ScrollOK rect downward rightward vt (run (scrollrect fx caps vt.cols rect downward rightward).2 vt) := by
  have hg := hw.ground
  have hb : rect.bottom = rect.top + rect.lines := rfl
  have hrt : rect.right = rect.left + rect.cols := rfl
  have mt := hw.mtop; have mb := hw.mbot; have ml := hw.mleft; have mr := hw.mright
  by_cases h0 : downward = 0 ∧ rightward = 0
  · -- nothing to do
    obtain ⟨rfl, rfl⟩ := h0
    have e : scrollrect fx caps vt.cols rect 0 0 = (true, []) := by simp [scrollrect]
    rw [e, run_nil]
    refine ⟨⟨rfl, rfl, rfl, rfl, rfl, rfl, rfl, rfl, rfl, rfl⟩, ?_, hw.row_lo, hw.row_hi, hw.col_lo, hw.col_hi⟩
    funext l c
    simp only [Spec.scrollGrid, Int.add_zero]
    cells_omega
  · by_cases hB1 : ((caps.slrm = true ∧ rect.lines = 1) ∨ rect.right = vt.cols) ∧ downward = 0
    · -- ICH / DCH strategy
      obtain ⟨hwhich, rfl⟩ := hB1
      have hr0 : rightward ≠ 0 := by intro h; exact h0 ⟨rfl, h⟩
      by_cases hlt : rect.right < vt.cols
      · -- one line between DECSLRM margins
        have hs : caps.slrm = true ∧ rect.lines = 1 := by
          cases hwhich with
          | inl h => exact h
          | inr h => omega
        have hdecl : vt.declrmm = true := hcaps hs.1
        -- the right margin is a margin: by the one-cell guard, or (without it) by the bound on the offset
        have hcg : ¬ (fx.scrollCellGuard = true ∧ rect.right < vt.cols ∧ rect.right < 2) := by
          intro hcg
          unfold scrollrect at hret
          rw [if_neg (by intro h; exact hr0 h.2)] at hret
          simp only [] at hret
          rw [if_pos ⟨Or.inl hs, trivial⟩, if_pos hcg] at hret
          cases hret
        have h2r : 2 ≤ rect.right := by
          cases hcgv : fx.scrollCellGuard with
          | true =>
            have : ¬ rect.right < 2 := fun h => hcg ⟨hcgv, hlt, h⟩
            omega
          | false =>
            have := hr (Or.inr hcgv)
            omega
        rw [scrollrect_ichdch_margin fx caps vt.cols rect rightward hr0 hs hlt hcg]
        simp only []
        rw [run_append, run_append, run_csi_0n vt hg rect.right (by omega) 0x73 fin_s, dispatch_decslrm, hdecl]
        simp only [if_true, param_0n0, param_0n1]
        rw [decslrm_right vt rect.right (by omega) hright, run_scrollLine]
        · rw [run_csi_0 (f := 0x73), dispatch_decslrm]
          · simp only [hdecl, if_true, param_00, param_01]
            rw [decslrm_reset]
            refine ⟨⟨rfl, rfl, rfl, rfl, ?_, ?_, hdecl.symm, rfl, rfl, rfl⟩, ?_, ?_, ?_, ?_, ?_⟩
            · simp only []; omega
            · simp only []; omega
            · funext l c
              simp only [Spec.scrollGrid, VTState.blank, Int.add_zero]
              cells_omega
            · simp only []; omega
            · simp only []; omega
            · simp only []; omega
            · simp only []; omega
          · exact hg
          · exact fin_s
        · exact hg
        · simp only []; omega
        · simp only []; omega
        · simp only []; omega
      · -- the rectangle reaches the right edge: one ICH/DCH per line, no margins
        have hre : rect.right = vt.cols := by omega
        rw [scrollrect_ichdch_full fx caps vt.cols rect rightward hr0 hre]
        simp only []
        obtain ⟨k, hk⟩ : ∃ k : Nat, rect.lines.toNat = k + 1 := ⟨rect.lines.toNat - 1, by omega⟩
        rw [hk, run_scrollLines vt hg rect rightward (by omega) (by omega) k (by omega)]
        refine ⟨⟨rfl, rfl, rfl, rfl, rfl, rfl, rfl, rfl, rfl, rfl⟩, ?_, ?_, ?_, ?_, ?_⟩
        · funext l c
          simp only [Spec.scrollGrid, VTState.blank, Int.add_zero]
          cells_omega
        · simp only []; omega
        · simp only []; omega
        · simp only []; omega
        · simp only []; omega
    · by_cases hB2 : caps.slrm = true ∨ (rect.left = 0 ∧ rect.cols = vt.cols ∧ rightward = 0)
      · -- DECSTBM (+ DECSLRM) margins, IL/DL, DECIC/DECDC
        by_cases hgd : fx.scrollGuard = true ∧
            (rect.lines < 2 ∨ ((rect.left > 0 ∨ rect.right < vt.cols) ∧ rect.cols < 2))
        · exfalso
          unfold scrollrect at hret
          rw [if_neg h0] at hret
          simp only [] at hret
          rw [if_neg hB1, if_pos hB2, if_pos hgd] at hret
          cases hret
        -- DECSTBM needs two lines: by the margin guard, or (without it) from the bound on the offset
        have hl2 : 2 ≤ rect.lines := by
          cases hsg : fx.scrollGuard with
          | true =>
            have : ¬ rect.lines < 2 := fun h => hgd ⟨hsg, Or.inl h⟩
            omega
          | false =>
            have hd := hd hsg
            by_cases h1 : rect.lines = 1
            · exfalso
              have hd0 : downward = 0 := by omega
              have hns : ¬ (caps.slrm = true) := fun hs => hB1 ⟨Or.inl ⟨hs, h1⟩, hd0⟩
              cases hB2 with
              | inl hs => exact hns hs
              | inr h => exact h0 ⟨hd0, h.2.2⟩
            · omega
        by_cases hneed : rect.left > 0 ∨ rect.right < vt.cols
        · -- with left/right margins
          have hs : caps.slrm = true := by
            cases hB2 with
            | inl hs => exact hs
            | inr h => omega
          have hdecl : vt.declrmm = true := hcaps hs
          have hc2 : 2 ≤ rect.cols := by
            cases hsg : fx.scrollGuard with
            | true =>
              have : ¬ rect.cols < 2 := fun h => hgd ⟨hsg, Or.inr ⟨hneed, h⟩⟩
              omega
            | false =>
              have hr := hr (Or.inl hsg)
              by_cases h1 : rect.cols = 1
              · exfalso
                have hr0 : rightward = 0 := by omega
                have hd0 : downward ≠ 0 := fun h => h0 ⟨h, hr0⟩
                exact hone hsg ⟨hs, h1, hd0, hneed⟩
              · omega
          rw [scrollrect_margins_lr fx caps vt.cols rect downward rightward h0 hB1 hB2 hgd hneed]
          simp only []
          rw [run_append, run_csi_nn vt hg (rect.top + 1) rect.bottom (by omega) (by omega) 0x72 fin_r,
            dispatch_decstbm, param_nn0, param_nn1, decstbm_valid vt rect.top rect.bottom htop (by omega) hbot,
            run_append, run_csi_nn]
          · rw [dispatch_decslrm]
            simp only [hdecl, if_true, param_nn0, param_nn1]
            rw [decslrm_valid _ rect.left rect.right hleft (by omega) (by simpa using hright), run_append,
              run_scrollCore]
            · rw [run_append, run_csi_0 (f := 0x72), dispatch_decstbm]
              · simp only [param_00, param_01]
                rw [decstbm_reset, run_csi_0 (f := 0x73), dispatch_decslrm]
                · simp only [hdecl, if_true, param_00, param_01]
                  rw [decslrm_reset]
                  refine ⟨⟨rfl, rfl, ?_, ?_, ?_, ?_, hdecl.symm, rfl, rfl, rfl⟩, rfl, ?_, ?_, ?_, ?_⟩ <;> simp only [] <;> omega
                · exact hg
                · exact fin_s
              · exact hg
              · exact fin_r
            · exact hg
            · simp only []; omega
            · simp only []; omega
            · exact ⟨hl1, hc1⟩
            · exact ⟨rfl, rfl, rfl, rfl⟩
          · exact hg
          · omega
          · omega
          · exact fin_s
        · -- full width: no left/right margins needed
          have hfull : rect.left = 0 ∧ rect.right = vt.cols := by omega
          rw [scrollrect_margins_tb fx caps vt.cols rect downward rightward h0 hB1 hB2 hgd hneed]
          simp only []
          rw [run_append, run_csi_nn vt hg (rect.top + 1) rect.bottom (by omega) (by omega) 0x72 fin_r,
            dispatch_decstbm, param_nn0, param_nn1, decstbm_valid vt rect.top rect.bottom htop (by omega) hbot,
            run_append, run_scrollCore]
          · rw [run_csi_0 (f := 0x72), dispatch_decstbm]
            · simp only [param_00, param_01]
              rw [decstbm_reset]
              refine ⟨⟨rfl, rfl, ?_, ?_, rfl, rfl, rfl, rfl, rfl, rfl⟩, rfl, ?_, ?_, ?_, ?_⟩ <;> simp only [] <;> omega
            · exact hg
            · exact fin_r
          · exact hg
          · simp only []; omega
          · simp only []; omega
          · exact ⟨hl1, hc1⟩
          · refine ⟨rfl, rfl, ?_, ?_⟩ <;> simp only [] <;> omega
      · exfalso
        unfold scrollrect at hret
        rw [if_neg h0] at hret
        simp only [] at hret
        rw [if_neg hB1, if_neg hB2] at hret
        cases hret

/-- A scroll that reports success moves exactly the cells of the rectangle by the given offsets, blanks the vacated
    cells (current background), touches nothing outside and leaves no margins set — for every screen, every in-range
    rectangle and offsets, both values of the DECSLRM capability, whichever of the strategies the driver picks. -/
theorem scroll_success_effect (fx : Fixes) (vt : VTState) (hw : Spec.WF vt) (caps : Caps) (hcaps : Spec.CapsOK caps vt)
    (rect : Rect) (downward rightward : Int) (hin : ScrollInRange vt rect downward rightward)
    (hone : fx.scrollGuard = false → ¬ OneColumnTrigger caps vt.cols rect downward)
    (hret : (scrollrect fx caps vt.cols rect downward rightward).1 = true) :
    Spec.ScrollOK rect downward rightward vt (run (scrollrect fx caps vt.cols rect downward rightward).2 vt) := by
  obtain ⟨hl1, hc1, htop, hbot, hleft, hright, hd, hr⟩ := hin
  exact scroll_effect_general fx vt hw caps hcaps rect downward rightward hl1 hc1 htop hbot hleft hright
    (fun _ => hd) (fun _ => hr) hone hret

/-- margins on all four sides, both offsets non-zero -/
example := scroll_success_effect Fixes.none exScreen exScreen_wf ⟨true, false, false⟩ (fun _ => rfl) ⟨1, 1, 2, 3⟩ 1 (-1)
  (by constructor <;> decide) (by intro _ h; revert h; decide) (by decide)
/-- ICH/DCH on three lines reaching the right edge, no DECSLRM capability -/
example := scroll_success_effect Fixes.none exScreen exScreen_wf ⟨false, true, true⟩ (by intro h; cases h) ⟨0, 2, 3, 4⟩ 0 2
  (by constructor <;> decide) (by intro _ h; revert h; decide) (by decide)
/-- one line between DECSLRM margins -/
example := scroll_success_effect Fixes.none exScreen exScreen_wf ⟨true, true, false⟩ (fun _ => rfl) ⟨2, 1, 1, 4⟩ 0 (-3)
  (by constructor <;> decide) (by intro _ h; revert h; decide) (by decide)

/-! ### Sequences of requests -/

/-- The contract of a scroll request follows from the classical in-range contract (offsets smaller than the
    rectangle) for every version of the source … -/
theorem inContract_scroll_of_inRange (fx : Fixes) (d : Drv) (vt : VTState) (r : Rect) (dn rt : Int)
    (hin : ScrollInRange vt r dn rt) (hone : fx.scrollGuard = false → ¬ OneColumnTrigger d.caps vt.cols r dn) :
    InContract fx d vt (.scroll r dn rt) :=
  ⟨⟨hin.lines_pos, hin.cols_pos, hin.top, hin.bottom, hin.left, hin.right⟩, fun h => ⟨hin.down, hone h⟩, fun _ => hin.rightw⟩

/-- … and, for the repaired source, from the rectangle being on the screen alone: offsets of ANY size are in range. -/
theorem inContract_scroll_any_offset (fx : Fixes) (hfx : fx.scrollGuard = true) (hcell : fx.scrollCellGuard = true)
    (d : Drv) (vt : VTState) (r : Rect) (dn rt : Int) (hon : RectOnScreen vt r) :
    InContract fx d vt (.scroll r dn rt) :=
  ⟨hon, fun h => absurd (hfx.symm.trans h) (by decide),
    fun h => h.elim (fun h => absurd (hfx.symm.trans h) (by decide)) (fun h => absurd (hcell.symm.trans h) (by decide))⟩

/-- One request, in range on a well-formed screen, has exactly its effect and leaves a well-formed screen on which
    the assumptions about the driver-side state still hold. -/
theorem request_effect (fx : Fixes) (d : Drv) (vt : VTState) (hw : Spec.WF vt) (hcaps : Spec.CapsOK d.caps vt)
    (hcols : d.cols = vt.cols) (hrv : vt.rv = d.pen.reverse) (q : Request) (hq : InContract fx d vt q) :
    StepOK fx d vt (run (request fx d q).2 vt) q ∧ Spec.WF (run (request fx d q).2 vt) ∧
    Spec.CapsOK d.caps (run (request fx d q).2 vt) ∧ d.cols = (run (request fx d q).2 vt).cols ∧
    (run (request fx d q).2 vt).rv = d.pen.reverse ∧ (run (request fx d q).2 vt).bg = vt.bg := by
  have hw' := hw
  obtain ⟨g, r1, r2, c1, c2, m1, m2, m3, m4⟩ := hw'
  cases q with
  | goto line col =>
    obtain ⟨hl, hc⟩ := hq
    simp only [request, StepOK]
    rw [goto_effect vt hw line col hl hc]
    refine ⟨rfl, ?_, ?_, ?_, ?_, ?_⟩
    · unfold Spec.goto; split
      · exact hw
      · constructor <;> simp only [] <;> first | assumption | (split <;> omega)
    · unfold Spec.goto; split <;> exact hcaps
    · unfold Spec.goto; split <;> exact hcols
    · unfold Spec.goto; split <;> exact hrv
    · unfold Spec.goto; split <;> rfl
  | move dn rt =>
    obtain ⟨hr, hc⟩ := hq
    simp only [request, StepOK]
    rw [move_effect vt hw dn rt hr hc]
    refine ⟨rfl, ?_, ?_, ?_, ?_, ?_⟩
    · unfold Spec.move; split
      · exact hw
      · constructor <;> simp only [] <;> first | assumption | omega
    · unfold Spec.move; split <;> exact hcaps
    · unfold Spec.move; split <;> exact hcols
    · unfold Spec.move; split <;> exact hrv
    · unfold Spec.move; split <;> rfl
  | print s n =>
    obtain ⟨hpw, hn, cps, hs, hp, hfit⟩ := hq
    subst hn
    simp only [request, StepOK]
    refine ⟨?_, ?_, ?_, ?_, ?_, ?_⟩
    · intro cps' hs' hp' hfit'
      rw [hs', print_utf8_effect fx vt hw hpw cps' hp' hfit']
    all_goals rw [hs, print_utf8_effect fx vt hw hpw cps hp hfit]
    · constructor <;> simp only [Spec.placeCells] <;> first | assumption | (split <;> omega)
    · exact hcaps
    · exact hcols
    · exact hrv
    · rfl
  | erasech n me =>
    obtain ⟨hpw, h1, hfit, h64, hlast⟩ := hq
    simp only [request, StepOK]
    have he := erasech_effect fx vt hw hpw d.pen.reverse hrv n me h1 hfit h64 hlast
    obtain ⟨⟨e1, e2, e3, e4, e5, e6, e7, e8, e9, e10⟩, _, erow, _, _, ecol⟩ := he
    refine ⟨erasech_effect fx vt hw hpw d.pen.reverse hrv n me h1 hfit h64 hlast, ?_, ?_, ?_, ?_, e8⟩
    · exact ⟨e10.trans g, by omega, by omega, by omega, by omega, by omega, by omega, by omega, by omega⟩
    · intro h; rw [e7]; exact hcaps h
    · rw [e2]; exact hcols
    · rw [e9]; exact hrv
  | clear =>
    simp only [request, StepOK]
    rw [clear_effect vt hw]
    exact ⟨rfl, ⟨g, r1, r2, c1, c2, m1, m2, m3, m4⟩, hcaps, hcols, hrv, rfl⟩
  | scroll r dn rt =>
    obtain ⟨⟨hl1, hc1, htop, hbot, hleft, hright⟩, hdn, hrt⟩ := hq
    simp only [request, StepOK]
    rw [hcols]
    cases hret : (scrollrect fx d.caps vt.cols r dn rt).1 with
    | false =>
      rw [scroll_failure_silent fx d.caps vt.cols r dn rt hret, run_nil]
      simp only [Bool.false_eq_true, if_false]
      exact ⟨trivial, hw, hcaps, trivial, hrv, trivial⟩
    | true =>
      have hs := scroll_effect_general fx vt hw d.caps hcaps r dn rt hl1 hc1 htop hbot hleft hright
        (fun h => (hdn h).1) hrt (fun h => (hdn h).2) hret
      have hs' := hs
      obtain ⟨⟨e1, e2, e3, e4, e5, e6, e7, e8, e9, e10⟩, _, s1, s2, s3, s4⟩ := hs
      simp only [if_true]
      refine ⟨hs', ?_, ?_, ?_, ?_, e8⟩
      · exact ⟨e10.trans g, by omega, by omega, by omega, by omega, by omega, by omega, by omega, by omega⟩
      · intro h; rw [e7]; exact hcaps h
      · exact e2.symm
      · rw [e9]; exact hrv

/-- THE PROPERTY, for sequences: starting from any well-formed screen of any size and content, with any capability
    combination and either state of reverse video, every request of a sequence of drawing requests that are in range
    when their turn comes has exactly the requested effect on the VT-conformant screen, and the screen stays well
    formed (no margins left set, tokenizer in the ground state, cursor on the screen). -/
theorem sequence_effect (fx : Fixes) (d : Drv) (qs : List Request) (vt : VTState) (hw : Spec.WF vt)
    (hcaps : Spec.CapsOK d.caps vt) (hcols : d.cols = vt.cols) (hrv : vt.rv = d.pen.reverse)
    (hq : AllInContract fx d vt qs) :
    AllStepsOK fx d vt qs ∧ Spec.WF (runRequests fx d vt qs) := by
  induction qs generalizing vt with
  | nil => exact ⟨trivial, hw⟩
  | cons q rest ih =>
    obtain ⟨hq1, hq2⟩ := hq
    obtain ⟨a, b, c, e, f, _⟩ := request_effect fx d vt hw hcaps hcols hrv q hq1
    have := ih _ b c e f hq2
    exact ⟨⟨a, this.1⟩, this.2⟩

/-- a goto, a print up to the right edge, a column-only goto back and a reverse-video erase, on `exScreen` -/
example : AllInContract Fixes.none ⟨⟨true, false, false⟩, 4, 6, ⟨true, some 3, some true⟩⟩ exScreen
    [.goto 2 3, .print [0x61, 0x62, 0x63] 3, .goto (-1) 1, .erasech 4 .no] :=
  ⟨⟨by decide, by decide⟩, ⟨by decide +kernel, rfl, [0x61, 0x62, 0x63], by decide, by decide, by decide +kernel⟩,
   ⟨by decide, by decide +kernel⟩,
   ⟨by decide +kernel, by decide, by decide +kernel, by decide, by decide +kernel⟩, trivial⟩

/-! ### Pen changes: the SGR bytes keep the terminal's reverse video and background equal to the cached pen -/

theorem with_bg_rv_self (vt : VTState) : { vt with bg := vt.bg, rv := vt.rv } = vt := by cases vt; rfl

/-- `setpen` (pens carrying a background index and/or reverse video): the emitted SGR bytes change nothing but the
    rendering attributes, and afterwards the terminal's reverse video and background are the cached pen's — this
    is what `erasech_effect` assumes as `hrv`. -/
theorem setpen_effect (caps : Caps) (cache : PenCache) (pen : PenReq) (vt : VTState) (hw : Spec.WF vt)
    (hinv : Spec.PenInv cache vt) (hok : Spec.PenOK pen) :
    ∃ bg' rv', run (setpen caps cache pen).2 vt = { vt with bg := bg', rv := rv' } ∧
      Spec.PenInv (setpen caps cache pen).1 { vt with bg := bg', rv := rv' } := by
  obtain ⟨hrv, hbg⟩ := hinv
  have hr : -1 ≤ pen.bg.getD (-1) ∧ pen.bg.getD (-1) ≤ 255 := by
    cases hb : pen.bg with
    | none => simp
    | some v => simpa using hok v hb
  simp only [setpen]
  generalize pen.bg.getD (-1) = bgv at hr ⊢
  generalize pen.rv.getD false = rvv
  rw [run_chpenBytes vt hw.ground caps.colon _ _ _ _ _ hr.1 hr.2]
  have hcbF : decide (cache.bg ≠ some bgv) = false → cache.bg = some bgv := by intro h; simpa using h
  have hcrF : decide (cache.rv ≠ some rvv) = false → cache.rv = some rvv := by intro h; simpa using h
  generalize decide (cache.bg ≠ some bgv) = cb at hcbF ⊢
  generalize decide (cache.rv ≠ some rvv) = cr at hcrF ⊢
  generalize (!cache.others) = o
  have inv_same : cb = false → cr = false → Spec.PenInv ⟨true, some bgv, some rvv⟩ vt := by
    intro h1 h2
    have hcb := hcbF h1; have hcr := hcrF h2
    exact ⟨by rw [hrv]; simp [PenCache.reverse, hcr], fun v hv => by
      simp only [Option.some.injEq] at hv; rw [← hv]; exact hbg _ hcb⟩
  by_cases hnil : o = false ∧ cb = false ∧ cr = false
  · rw [if_pos hnil]
    refine ⟨vt.bg, vt.rv, (with_bg_rv_self vt).symm, ?_⟩
    rw [with_bg_rv_self vt]
    exact inv_same hnil.2.1 hnil.2.2
  · rw [if_neg hnil]
    cases hnd : (PenCache.mk true (some bgv) (some rvv)).nondefault
    · rw [if_pos rfl]
      obtain ⟨n1, n2⟩ := nondefault_false _ _ _ hnd
      exact ⟨-1, false, rfl, by simpa [PenCache.reverse] using n2.symm, fun v hv => by
        simp only [Option.some.injEq] at hv; rw [← hv]; exact (n1 _ rfl).symm⟩
    · rw [if_neg (by simp)]
      refine ⟨_, _, rfl, ?_, ?_⟩
      · simp only [PenCache.reverse, Option.getD_some]
        cases cr with
        | true => rfl
        | false =>
          simp only [Bool.false_eq_true, if_false]
          rw [hrv]; simp [PenCache.reverse, hcrF rfl]
      · intro v hv
        simp only [Option.some.injEq] at hv
        simp only []
        cases cb with
        | true => simpa using hv
        | false =>
          simp only [Bool.false_eq_true, if_false]
          rw [← hv]; exact hbg _ (hcbF rfl)

/-- `chpen`: likewise; attributes the pen does not mention keep their cached values. -/
theorem chpen_effect (caps : Caps) (cache : PenCache) (pen : PenReq) (vt : VTState) (hw : Spec.WF vt)
    (hinv : Spec.PenInv cache vt) (hok : Spec.PenOK pen) :
    ∃ bg' rv', run (chpen caps cache pen).2 vt = { vt with bg := bg', rv := rv' } ∧
      Spec.PenInv (chpen caps cache pen).1 { vt with bg := bg', rv := rv' } := by
  obtain ⟨hrv, hbg⟩ := hinv
  have hr : -1 ≤ pen.bg.getD (-1) ∧ pen.bg.getD (-1) ≤ 255 := by
    cases hb : pen.bg with
    | none => simp
    | some v => simpa using hok v hb
  simp only [chpen]
  have hcb1 : changedBy cache.bg pen.bg = true → pen.bg = some (pen.bg.getD (-1)) := by
    cases hb : pen.bg with
    | none => simp [changedBy]
    | some v => simp
  have hcr1 : changedBy cache.rv pen.rv = true → pen.rv = some (pen.rv.getD false) := by
    cases hb : pen.rv with
    | none => simp [changedBy]
    | some v => simp
  generalize changedBy cache.bg pen.bg = cb at hcb1 ⊢
  generalize changedBy cache.rv pen.rv = cr at hcr1 ⊢
  generalize pen.bg.getD (-1) = bgv at hr hcb1 ⊢
  generalize pen.rv.getD false = rvv at hcr1 ⊢
  rw [run_chpenBytes vt hw.ground caps.colon false cb cr bgv rvv hr.1 hr.2]
  by_cases hnil : false = false ∧ cb = false ∧ cr = false
  · rw [if_pos hnil]
    obtain ⟨_, h2, h3⟩ := hnil
    subst h2; subst h3
    refine ⟨vt.bg, vt.rv, (with_bg_rv_self vt).symm, ?_⟩
    rw [with_bg_rv_self vt]
    simp only [Bool.false_eq_true, if_false]
    exact ⟨hrv, hbg⟩
  · rw [if_neg hnil]
    cases hnd : (PenCache.mk cache.others (if cb = true then pen.bg else cache.bg)
        (if cr = true then pen.rv else cache.rv)).nondefault
    · rw [if_pos rfl]
      obtain ⟨n1, n2⟩ := nondefault_false _ _ _ hnd
      exact ⟨-1, false, rfl, by simpa [PenCache.reverse] using n2.symm, fun v hv => (n1 v hv).symm⟩
    · rw [if_neg (by simp)]
      refine ⟨_, _, rfl, ?_, ?_⟩
      · simp only [PenCache.reverse]
        cases cr with
        | false => simp only [Bool.false_eq_true, if_false]; exact hrv
        | true => simp only [if_true]; rw [hcr1 rfl]; rfl
      · intro v hv
        simp only [] at hv ⊢
        cases cb with
        | false => simp only [Bool.false_eq_true, if_false] at hv ⊢; exact hbg v hv
        | true =>
          simp only [if_true] at hv ⊢
          rw [hcb1 rfl] at hv
          simpa using hv

/-! ### Histories of requests and pen changes -/

/-- A window resize (`VTState.resize`) leaves a well-formed screen well formed: the cursor is clamped into the new
    screen, the margins are those of the new screen, the tokenizer is untouched. -/
theorem resize_wf (vt : VTState) (hw : Spec.WF vt) (l c : Int) (fresh : Int → Int → Cell) (hl : 1 ≤ l) (hc : 1 ≤ c) :
    Spec.WF (vt.resize l c fresh) := by
  obtain ⟨g, r1, r2, c1, c2, m1, m2, m3, m4⟩ := hw
  refine ⟨g, ?_, ?_, ?_, ?_, rfl, rfl, rfl, rfl⟩ <;> simp only [VTState.resize] <;> omega

/-- A resize changes only the cells that were not on the old screen; everything the requests' specifications depend
    on besides size, cursor and margins (DECLRMM, rendering attributes) is kept. -/
theorem resize_keeps (vt : VTState) (l c : Int) (fresh : Int → Int → Cell) :
    (vt.resize l c fresh).lines = l ∧ (vt.resize l c fresh).cols = c ∧
    (vt.resize l c fresh).declrmm = vt.declrmm ∧ (vt.resize l c fresh).bg = vt.bg ∧ (vt.resize l c fresh).rv = vt.rv ∧
    ∀ l' c', l' < vt.lines → c' < vt.cols → (vt.resize l c fresh).grid l' c' = vt.grid l' c' := by
  refine ⟨rfl, rfl, rfl, rfl, rfl, ?_⟩
  intro l' c' h1 h2
  simp only [VTState.resize, h1, h2, and_self, if_true]

example := resize_wf exScreen exScreen_wf 2 9 (freshGrid 9) (by decide) (by decide)

/-- THE PROPERTY for whole histories, with the pen assumption discharged: starting from a well-formed screen whose
    reverse video and background agree with the driver's cached pen (as after start-up: `CSI m`, empty cache), every
    drawing request of a history of requests and pen changes, each in range at its turn, has exactly the requested
    effect; pen changes touch nothing but the rendering attributes; the screen stays well formed and the pen
    agreement is maintained — so the erase strategy is always chosen for the terminal's actual reverse state. -/
theorem ops_effect (fx : Fixes) (ops : List Op) (d : Drv) (vt : VTState) (hw : Spec.WF vt)
    (hcaps : Spec.CapsOK d.caps vt) (hcols : d.cols = vt.cols) (hpen : Spec.PenInv d.pen vt)
    (hc : AllOpsInContract fx (d, vt) ops) :
    AllOpsOK fx (d, vt) ops ∧ Spec.WF (runOps fx (d, vt) ops).2 ∧
    Spec.PenInv (runOps fx (d, vt) ops).1.pen (runOps fx (d, vt) ops).2 := by
  induction ops generalizing d vt with
  | nil => exact ⟨trivial, hw, hpen⟩
  | cons o rest ih =>
    obtain ⟨hc1, hc2⟩ := hc
    cases o with
    | req q =>
      obtain ⟨a, b, c, e, f, gbg⟩ := request_effect fx d vt hw hcaps hcols hpen.1 q hc1
      have hp' : Spec.PenInv d.pen (run (request fx d q).2 vt) :=
        ⟨f, fun v hv => by rw [gbg]; exact hpen.2 v hv⟩
      have := ih d _ b c e hp' hc2
      exact ⟨⟨a, this.1⟩, this.2⟩
    | setpen p =>
      obtain ⟨bg', rv', hrun, hinv'⟩ := setpen_effect d.caps d.pen p vt hw hpen hc1
      have hwf : Spec.WF (run (setpen d.caps d.pen p).2 vt) := by
        rw [hrun]; obtain ⟨g, r1, r2, c1, c2, m1, m2, m3, m4⟩ := hw; exact ⟨g, r1, r2, c1, c2, m1, m2, m3, m4⟩
      have := ih { d with pen := (setpen d.caps d.pen p).1 } (run (setpen d.caps d.pen p).2 vt) hwf
        (by rw [hrun]; exact hcaps) (by rw [hrun]; exact hcols) (by rw [hrun]; exact hinv') hc2
      refine ⟨⟨?_, this.1⟩, this.2⟩
      have e : (stepOp fx (d, vt) (Op.setpen p)).2 = run (setpen d.caps d.pen p).2 vt := rfl
      show (stepOp fx (d, vt) (Op.setpen p)).2 =
        { vt with bg := (stepOp fx (d, vt) (Op.setpen p)).2.bg, rv := (stepOp fx (d, vt) (Op.setpen p)).2.rv }
      rw [e, hrun]
    | chpen p =>
      obtain ⟨bg', rv', hrun, hinv'⟩ := chpen_effect d.caps d.pen p vt hw hpen hc1
      have hwf : Spec.WF (run (chpen d.caps d.pen p).2 vt) := by
        rw [hrun]; obtain ⟨g, r1, r2, c1, c2, m1, m2, m3, m4⟩ := hw; exact ⟨g, r1, r2, c1, c2, m1, m2, m3, m4⟩
      have := ih { d with pen := (chpen d.caps d.pen p).1 } (run (chpen d.caps d.pen p).2 vt) hwf
        (by rw [hrun]; exact hcaps) (by rw [hrun]; exact hcols) (by rw [hrun]; exact hinv') hc2
      refine ⟨⟨?_, this.1⟩, this.2⟩
      have e : (stepOp fx (d, vt) (Op.chpen p)).2 = run (chpen d.caps d.pen p).2 vt := rfl
      show (stepOp fx (d, vt) (Op.chpen p)).2 =
        { vt with bg := (stepOp fx (d, vt) (Op.chpen p)).2.bg, rv := (stepOp fx (d, vt) (Op.chpen p)).2.rv }
      rw [e, hrun]
    | resize l c =>
      obtain ⟨hl, hcc⟩ := hc1
      have hwf : Spec.WF (vt.resize l c (freshGrid c)) := resize_wf vt hw l c (freshGrid c) hl hcc
      have := ih { d with lines := l, cols := c } (vt.resize l c (freshGrid c)) hwf
        (fun h => hcaps h) rfl hpen hc2
      exact ⟨⟨⟨rfl, rfl, rfl, rfl, rfl⟩, this.1⟩, this.2⟩
    | suspend =>
      obtain ⟨hfx, hok⟩ := hc1
      obtain ⟨bg', rv', hrun, hinv'⟩ := run_suspendBytes fx hfx d.caps d.pen hok vt hw.ground
      have hwf : Spec.WF (run (suspendBytes fx d.caps d.pen) vt) := by
        rw [hrun]; obtain ⟨g, r1, r2, c1, c2, m1, m2, m3, m4⟩ := hw; exact ⟨g, r1, r2, c1, c2, m1, m2, m3, m4⟩
      have := ih d (run (suspendBytes fx d.caps d.pen) vt) hwf
        (by rw [hrun]; exact hcaps) (by rw [hrun]; exact hcols) (by rw [hrun]; exact hinv') hc2
      refine ⟨⟨⟨?_, rfl⟩, this.1⟩, this.2⟩
      have e : (stepOp fx (d, vt) Op.suspend).2 = run (suspendBytes fx d.caps d.pen) vt := rfl
      show (stepOp fx (d, vt) Op.suspend).2 =
        { vt with bg := (stepOp fx (d, vt) Op.suspend).2.bg, rv := (stepOp fx (d, vt) Op.suspend).2.rv }
      rw [e, hrun]

/-- non-vacuity of the resize step of `ops_effect`: a scroll on the left half, the window grows from 6 to 9 columns,
    and the same rectangle (whose right edge is where the screen used to end) is scrolled again -/
example : AllOpsInContract Fixes.none (⟨⟨false, false, false⟩, 4, 6, PenCache.empty⟩, cexScreen 4 6)
    [.req (.scroll ⟨0, 0, 4, 6⟩ 1 0), .resize 4 9, .req (.scroll ⟨0, 0, 4, 6⟩ 1 0)] :=
  ⟨inContract_scroll_of_inRange _ _ _ _ _ _
     ⟨by decide, by decide, by decide, by decide, by decide, by decide, by decide, by decide⟩ (fun _ h => absurd h.1 (by decide)),
   ⟨by decide, by decide⟩,
   inContract_scroll_of_inRange _ _ _ _ _ _
     ⟨by decide, by decide, by decide, by decide +kernel, by decide, by decide +kernel, by decide, by decide⟩
     (fun _ h => absurd h.1 (by decide)), trivial⟩

/-- non-vacuity of `ops_effect` / `buffered_history_effect` for the repaired source, where offsets of ANY size are in
    contract: a rectangle with margins on all four sides scrolled by more than its size in both directions (blanked),
    the single cell at the origin scrolled horizontally (refused: nothing sent), a one-line rectangle scrolled
    vertically (refused) -/
example : AllOpsInContract ⟨true, true, true, true, true⟩
    (⟨⟨true, false, false⟩, 4, 6, PenCache.empty⟩, { cexScreen 4 6 with declrmm := true })
    [.req (.scroll ⟨1, 1, 2, 3⟩ 5 (-3)), .req (.scroll ⟨0, 0, 1, 1⟩ 0 2), .req (.scroll ⟨2, 0, 1, 6⟩ 3 0)] :=
  ⟨inContract_scroll_any_offset _ rfl rfl _ _ _ _ _ ⟨by decide, by decide, by decide, by decide, by decide, by decide⟩,
   inContract_scroll_any_offset _ rfl rfl _ _ _ _ _
     ⟨by decide, by decide, by decide, by decide +kernel, by decide, by decide +kernel⟩,
   inContract_scroll_any_offset _ rfl rfl _ _ _ _ _
     ⟨by decide, by decide, by decide, by decide +kernel, by decide, by decide +kernel⟩, trivial⟩

/-- after start-up: `CSI m` has been sent and the cache is empty -/
example : Spec.PenInv PenCache.empty (cexScreen 4 6) := ⟨rfl, fun _ h => by cases h⟩

/-! ### Pause and resume: the terminal comes back as the driver takes it for -/

/-- `tickit_term_pause` resets the rendition and touches nothing else: no cell, not the cursor, not the margins —
    and not DECLRMM, the mode `start()` switched on and every `CSI Pl ; Pr s` of `scrollrect` relies on. -/
theorem pause_effect (vt : VTState) (hw : Spec.WF vt) :
    run pauseBytes vt = { vt with bg := -1, rv := false } := run_pauseBytes vt hw.ground

/-- `tickit_term_pause` followed by `tickit_term_resume` — for every screen, every capability combination and every
    cached pen: nothing but the rendering attributes is touched, they are the cached pen's again afterwards
    (`Spec.PenInv`, what selects the erase strategy), the screen is still well formed and the probed DECSLRM
    capability is still truthful (`Spec.CapsOK`: DECLRMM is as it was). -/
theorem suspend_effect (fx : Fixes) (hfx : fx.resumeResendsPen = true) (caps : Caps) (cache : PenCache)
    (hok : CacheOK cache) (vt : VTState) (hw : Spec.WF vt) (hcaps : Spec.CapsOK caps vt) :
    (∃ bg' rv', run (suspendBytes fx caps cache) vt = { vt with bg := bg', rv := rv' }) ∧
    Spec.PenInv cache (run (suspendBytes fx caps cache) vt) ∧ Spec.WF (run (suspendBytes fx caps cache) vt) ∧
    Spec.CapsOK caps (run (suspendBytes fx caps cache) vt) ∧
    (run (suspendBytes fx caps cache) vt).declrmm = vt.declrmm := by
  obtain ⟨bg', rv', hrun, hinv⟩ := run_suspendBytes fx hfx caps cache hok vt hw.ground
  rw [hrun]
  obtain ⟨g, r1, r2, c1, c2, m1, m2, m3, m4⟩ := hw
  exact ⟨⟨bg', rv', rfl⟩, hinv, ⟨g, r1, r2, c1, c2, m1, m2, m3, m4⟩, hcaps, rfl⟩

/-- cached pen: background 3 + reverse video; the screen of the examples has DECLRMM set -/
example := suspend_effect ⟨false, false, false, true, false⟩ rfl ⟨true, false, false⟩ ⟨true, some 3, some true⟩
  (by intro v h; cases h; decide) exScreen exScreen_wf (fun _ => rfl)

/-- THE CLAUSE about scrolling, after a pause and a resume: a scroll that reports success still moves exactly the
    cells of the rectangle, blanks the vacated cells and touches nothing outside — the left/right margins it sets are
    still margins, because the pause did not switch DECLRMM off behind the driver's back. -/
theorem scroll_after_suspend (fx : Fixes) (hfx : fx.resumeResendsPen = true) (caps : Caps) (cache : PenCache)
    (hok : CacheOK cache) (vt : VTState) (hw : Spec.WF vt) (hcaps : Spec.CapsOK caps vt)
    (rect : Rect) (downward rightward : Int) (hin : ScrollInRange vt rect downward rightward)
    (hone : fx.scrollGuard = false → ¬ OneColumnTrigger caps vt.cols rect downward)
    (hret : (scrollrect fx caps vt.cols rect downward rightward).1 = true) :
    Spec.ScrollOK rect downward rightward (run (suspendBytes fx caps cache) vt)
      (run (scrollrect fx caps vt.cols rect downward rightward).2 (run (suspendBytes fx caps cache) vt)) := by
  obtain ⟨⟨bg', rv', hrun⟩, _, hwf, hc, _⟩ := suspend_effect fx hfx caps cache hok vt hw hcaps
  have hcols : (run (suspendBytes fx caps cache) vt).cols = vt.cols := by rw [hrun]
  have hlines : (run (suspendBytes fx caps cache) vt).lines = vt.lines := by rw [hrun]
  have := scroll_success_effect fx (run (suspendBytes fx caps cache) vt) hwf caps hc rect downward rightward
    (by obtain ⟨a, b, c, d, e, f, g, h⟩ := hin; exact ⟨a, b, c, by rw [hlines]; exact d, e, by rw [hcols]; exact f, g, h⟩)
    (by rw [hcols]; exact hone) (by rw [hcols]; exact hret)
  rwa [hcols] at this

/-- a partial-width rectangle (columns 1..3 of 6) scrolled down and left with DECSLRM, right after pause + resume -/
example := scroll_after_suspend ⟨false, false, false, true, false⟩ rfl ⟨true, false, false⟩ ⟨true, some 3, some true⟩
  (by intro v h; cases h; decide) exScreen exScreen_wf (fun _ => rfl) ⟨1, 1, 2, 3⟩ 1 (-1)
  ⟨by decide, by decide, by decide, by decide, by decide, by decide, by decide, by decide⟩
  (fun _ h => absurd h.2.1 (by decide)) (by decide)

/-- Why the repair of `tickit_term_resume` (found by C12) is a hypothesis: in a tree without it the pen reset of the
    pause is not undone, and the terminal's reverse video no longer agrees with the cached pen that `erasech` reads. -/
theorem suspend_without_resend_counterexample :
    ¬ ∀ (caps : Caps) (cache : PenCache) (vt : VTState), CacheOK cache → Spec.WF vt → Spec.PenInv cache vt →
      Spec.PenInv cache (run (suspendBytes Fixes.none caps cache) vt) := by
  intro h
  have := (h ⟨true, false, false⟩ ⟨true, some 3, some true⟩ exScreen (by intro v h; cases h; decide) exScreen_wf
    ⟨rfl, fun v hv => by cases hv; rfl⟩).1
  revert this
  decide +kernel

/-- The cache of every history of in-range pens has an in-range background (the contract of `Op.suspend`). -/
theorem cache_stays_ok (caps : Caps) (cache : PenCache) (pen : PenReq) (hc : CacheOK cache) (hok : Spec.PenOK pen) :
    CacheOK (setpen caps cache pen).1 ∧ CacheOK (chpen caps cache pen).1 ∧ CacheOK PenCache.empty :=
  ⟨cacheOK_setpen caps cache pen hok, cacheOK_chpen caps cache pen hc hok, cacheOK_empty⟩

/-- non-vacuity of the `suspend` step of `ops_effect`: reverse-video pen, a partial-width scroll, pause + resume, the
    same scroll again, then an erase under the re-sent pen -/
example : AllOpsInContract ⟨false, false, false, true, false⟩ (⟨⟨true, false, false⟩, 4, 6, PenCache.empty⟩, { cexScreen 4 6 with declrmm := true })
    [.setpen ⟨some 3, some true⟩, .req (.scroll ⟨1, 1, 2, 3⟩ 1 0), .suspend, .req (.scroll ⟨1, 1, 2, 3⟩ 1 0),
     .req (.goto 0 0), .req (.erasech 2 .no)] := by
  refine ⟨by intro v h; cases h; decide, inContract_scroll_of_inRange _ _ _ _ _ _
    ⟨by decide, by decide, by decide, by decide, by decide, by decide, by decide, by decide⟩
    (fun _ h => absurd h.2.1 (by decide)), ⟨rfl, by intro v h; cases h; decide⟩, ?_⟩
  refine ⟨inContract_scroll_of_inRange _ _ _ _ _ _
    ⟨by decide, by decide, by decide, by decide +kernel, by decide, by decide +kernel, by decide, by decide⟩
    (fun _ h => absurd h.2.1 (by decide)), ⟨Or.inr ⟨by decide, by decide +kernel⟩, Or.inr ⟨by decide, by decide +kernel⟩⟩, ?_⟩
  exact ⟨⟨by decide +kernel, by decide, by decide +kernel, fun _ _ _ => by decide, fun _ _ h => absurd h (by decide +kernel)⟩, trivial⟩

/-! ### Formatted output: `tickit_term_printf` / `tickit_term_vprintf` -/

open Tickit.XTermOut in
/-- `tickit_term_printf` hands the driver exactly the formatted result — whatever its length (0, 63, 64, 65, … bytes:
    the two formatting passes of `tickit_term_vprintf` are sized by the first) and whatever the output buffer holds:
    delivered ++ pending grows by exactly those bytes, and the call always returns. -/
theorem printf_delivers (o : OutState) (hwf : TermBuf.WF o) (s : List UInt8) :
    ∃ o', XTermOut.printf o s = .ok o' ∧ TermBuf.Ext o o' s := by
  obtain ⟨o', h⟩ := TermBuf.termVprintf_total s hwf
  exact ⟨o', h, TermBuf.termVprintf_ext hwf h⟩

open Tickit.XTermOut in
/-- `tickit_term_printf` of any printable UTF-8 text that fits in the row, of any length in bytes: the terminal
    receives exactly the text (unbuffered terminal: at once), and the text has the effect of `print`: exactly the
    cells under it change, the cursor ends after it (`print_utf8_effect`). -/
theorem printf_effect (vt : VTState) (hw : Spec.WF vt) (hpw : vt.pendingWrap = false)
    (cps : List Nat) (hp : ∀ cp ∈ cps, Spec.Printable cp) (hfit : vt.col + (Spec.textCells cps).length ≤ vt.cols) :
    ∃ o', XTermOut.printf (fresh 0) (Spec.utf8 cps) = .ok o' ∧ delivered o' = Spec.utf8 cps ∧ o'.buf = [] ∧
      run (delivered o') vt = Spec.placeCells (Spec.textCells cps) vt := by
  have hwf : TermBuf.WF (fresh 0) := ⟨fun _ => rfl, fun h => absurd h (by decide)⟩
  obtain ⟨o', h, e⟩ := printf_delivers (fresh 0) hwf (Spec.utf8 cps)
  have hb : o'.buf = [] := e.wf.1 (by rw [e.bufLen]; rfl)
  have hd : delivered o' = Spec.utf8 cps := by
    have := e.eqn (Or.inl rfl)
    rw [hb] at this
    rw [delivered_eq]
    simpa [fresh] using this
  refine ⟨o', h, hd, hb, ?_⟩
  rw [hd, run_utf8 cps hp vt hw.ground, foldl_putGlyph cps vt hpw hw.col_hi hfit]

/-- a formatted result of exactly 64 bytes (the size of `write_vstrf`'s stack buffer) on an 80-column row: all 64
    cells are written and the cursor ends on column 64 -/
example := printf_effect (cexScreen 2 80) (by constructor <;> decide) rfl (List.replicate 64 0x41)
  (by intro cp h; rw [List.eq_of_mem_replicate h]; decide) (by decide +kernel)

/-! ### The output buffer: the terminal sees the driver's bytes in the order they were written -/

open Tickit.XTermOut in
/-- THE PROPERTY behind an output buffer of any size `n` (0 = none), for whole histories of drawing requests,
    formatted prints, pen changes, pause + resume and flushes at any points, once the history ends with a flush:
    the byte stream the OUTPUT FUNCTION has received — `write_str` copies every string into the buffer piecewise and
    flushes it whenever it is full, a string longer than the whole buffer included — is, byte for byte and in order,
    what the driver wrote; interpreted by the reference terminal it therefore gives every request of the history
    exactly its requested effect (`ops_effect`), whatever was still pending in the buffer when a long text followed.
    (A resize while requested output may still be buffered is outside the contract: flush first.) -/
theorem buffered_history_effect (fx : Fixes) (n : Nat) (ts : List TOp) (hnr : ∀ t ∈ ts, ¬ IsResize t)
    (d : Drv) (vt : VTState) (hw : Spec.WF vt) (hcaps : Spec.CapsOK d.caps vt) (hcols : d.cols = vt.cols)
    (hpen : Spec.PenInv d.pen vt) (hc : AllOpsInContract fx (d, vt) (ts.flatMap plain)) :
    ∃ s', runT fx ⟨d, fresh n⟩ (ts ++ [.flush]) = some s' ∧ s'.o.buf = [] ∧
      delivered s'.o = tWritten fx d ts ∧
      run (delivered s'.o) vt = (runOps fx (d, vt) (ts.flatMap plain)).2 ∧
      AllOpsOK fx (d, vt) (ts.flatMap plain) ∧ Spec.WF (run (delivered s'.o) vt) := by
  have hwf : TermBuf.WF (fresh n) := ⟨fun _ => rfl, fun h => h⟩
  have hm : ModeOK (fresh n) := ⟨rfl, rfl⟩
  obtain ⟨s1, h1⟩ := runT_total fx ts ⟨d, fresh n⟩ hwf hm
  obtain ⟨e1, _⟩ := runT_ext fx ts ⟨d, fresh n⟩ s1 hwf hm h1
  have hrun : runT fx ⟨d, fresh n⟩ (ts ++ [.flush]) = some { s1 with o := TermBuf.flush s1.o } := by
    have happ : ∀ (ts : List TOp) (s s1 : TS), runT fx s ts = some s1 →
        runT fx s (ts ++ [.flush]) = some { s1 with o := TermBuf.flush s1.o } := by
      intro ts
      induction ts with
      | nil => intro s s1 h; injection h with h; subst h; rfl
      | cons t ts ih =>
        intro s s1 h
        simp only [runT, List.cons_append] at h ⊢
        split at h
        · rename_i s2 h2; exact ih s2 s1 h
        · cases h
    exact happ ts _ s1 h1
  have e2 := TermBuf.flush_ext_wf e1.wf
  have e := TermBuf.Ext.trans e1 e2
  have hb : (TermBuf.flush s1.o).buf = [] := TermBuf.flush_buf s1.o
  have hd : delivered (TermBuf.flush s1.o) = tWritten fx d ts := by
    have := e.eqn (Or.inl rfl)
    rw [hb] at this
    rw [delivered_eq]
    simpa [fresh] using this
  have hops := ops_effect fx (ts.flatMap plain) d vt hw hcaps hcols hpen hc
  have hscreen := runOps_written fx ts d vt hnr
  refine ⟨_, hrun, hb, hd, ?_, hops.1, ?_⟩
  · rw [hd, hscreen]
  · rw [hd, ← hscreen]; exact hops.2.1

/-! ### The start-up probe: where the hypothesis `Spec.CapsOK` of the scroll theorems comes from -/

/-- The probe clause: whatever DECRPM value the terminal reports for mode 69, a claimed DECSLRM capability means that
    DECLRMM is set (`accept` = the values `on_modereport` takes for support). -/
def C09_probe_truthful (accept : List Nat) : Prop := ∀ v : Nat, ProbeTruthful accept v

/-- Exactly the accept lists made of "set" (1) and "permanently set" (3) are truthful. -/
theorem probe_truthful_iff (accept : List Nat) : C09_probe_truthful accept ↔ ∀ v ∈ accept, v = 1 ∨ v = 3 := by
  constructor
  · intro h v hv
    have := h v (by simpa [slrmCap] using hv)
    simpa [declrmmOfReply] using this
  · intro h v hv
    have hm : v ∈ accept := by simpa [slrmCap] using hv
    simpa [declrmmOfReply] using h v hm

/-- The unchanged tree (`value == 1 || value == 2`) claims DECSLRM for the reply "reset" (known finding
    slrm_probe_reset). -/
theorem probe_reset_counterexample : ¬ C09_probe_truthful [1, 2] := by
  intro h
  exact absurd (h 2 (by decide)) (by decide)

/-- With `fixes/C09_slrm_probe_reset.patch` (`value == 1 || value == 3`) the probe is truthful. -/
theorem probe_truthful_of_fix : C09_probe_truthful [1, 3] :=
  (probe_truthful_iff [1, 3]).2 (by intro v hv; simp at hv; omega)

/-- Accepting "permanently reset" (4) as well is not. -/
example : ¬ C09_probe_truthful [1, 2, 3, 4] := fun h => absurd (h 4 (by decide)) (by decide)

/-- A truthful probe gives `Spec.CapsOK` on the screen the reply describes, for the capabilities the driver then
    works with. -/
theorem probe_capsOK (accept : List Nat) (v : Nat) (colon rgb : Bool) (vt : VTState)
    (hvt : vt.declrmm = declrmmOfReply v) (h : ProbeTruthful accept v) :
    Spec.CapsOK ⟨slrmCap accept v, colon, rgb⟩ vt := by
  intro hs
  rw [hvt]
  exact h hs

example := probe_capsOK [1, 3] 1 false false { exScreen with declrmm := true } rfl (probe_truthful_of_fix 1)

/-! ### The full clauses, and the defects that refute them on the unchanged tree -/

/-- The scroll clause with no side condition beyond the in-range contract. -/
def C09_scroll_full (fx : Fixes) : Prop :=
  ∀ (vt : VTState), Spec.WF vt → ∀ (caps : Caps), Spec.CapsOK caps vt →
    ∀ (rect : Rect) (downward rightward : Int), ScrollInRange vt rect downward rightward →
      (scrollrect fx caps vt.cols rect downward rightward).1 = true →
      Spec.ScrollOK rect downward rightward vt (run (scrollrect fx caps vt.cols rect downward rightward).2 vt)

/-- The erase clause with no side condition beyond the in-range contract. -/
def C09_erase_full (fx : Fixes) : Prop :=
  ∀ (vt : VTState), Spec.WF vt → vt.pendingWrap = false → ∀ (rv : Bool), vt.rv = rv →
    ∀ (count : Int) (me : MoveEnd), 1 ≤ count → vt.col + count ≤ vt.cols →
      Spec.EraseOK count me vt (run (erasech fx rv count me) vt)

/-- The erase clause except for a reverse-video erase with `moveend = NO` ending exactly at the last column. -/
def C09_erase_upto_last_col (fx : Fixes) : Prop :=
  ∀ (vt : VTState), Spec.WF vt → vt.pendingWrap = false → ∀ (rv : Bool), vt.rv = rv →
    ∀ (count : Int) (me : MoveEnd), 1 ≤ count → vt.col + count ≤ vt.cols →
      (rv = true → me = .no → vt.col + count = vt.cols → vt.col = 0) →
      Spec.EraseOK count me vt (run (erasech fx rv count me) vt)

/-- DEFECT (unchanged tree): on a 5x4 terminal with DECSLRM available, `scrollrect((3,0) 2x1, +1, 0)` reports success
    but sends `CSI 4;5 r  CSI 1;1 s  CSI 4 H  CSI M  CSI r  CSI s`; a conformant terminal ignores the degenerate
    `CSI 1;1 s`, so `CSI M` deletes the whole of row 3 and cell (3,1), outside the rectangle, changes. -/
theorem scroll_one_column_counterexample : ¬ C09_scroll_full Fixes.none := by
  intro h
  have h1 := h { cexScreen 5 4 with declrmm := true } (by constructor <;> decide) ⟨true, false, false⟩ (fun _ => rfl)
    ⟨3, 0, 2, 1⟩ 1 0 (by constructor <;> decide) (by decide)
  have h2 := congrFun (congrFun h1.2.1 3) 1
  revert h2
  decide +kernel

/-- With the guard of `fixes/C09_scroll_one_column.patch` the scroll clause holds in full. -/
theorem scroll_full_of_guard (fx : Fixes) (hfx : fx.scrollGuard = true) : C09_scroll_full fx := by
  intro vt hw caps hcaps rect d r hin hret
  exact scroll_success_effect fx vt hw caps hcaps rect d r hin (fun h => by rw [hfx] at h; cases h) hret

/-- DEFECT (unchanged tree): under reverse video `erasech(65, NO)` at column 0 of an 80-column terminal prints 65
    spaces and then `CSI D` (one column back): the chunk loop has reduced `count` to 1.  The cursor ends on column 64
    instead of 0. -/
theorem erase_over_64_counterexample : ¬ C09_erase_upto_last_col Fixes.none := by
  intro h
  have h1 := h { cexScreen 1 80 with rv := true } (by constructor <;> decide) rfl true rfl 65 .no (by decide) (by decide)
    (by decide)
  have h2 := (h1.2.2.2.1 rfl).1
  revert h2
  decide +kernel

/-- With `fixes/C09_rv_erase_over_64.patch` only the last-column case remains excluded. -/
theorem erase_upto_last_col_of_fix (fx : Fixes) (hfx : fx.eraseKeepsCount = true) : C09_erase_upto_last_col fx := by
  intro vt hw hpw rv hrv count me h1 hfit hlast
  exact erasech_effect fx vt hw hpw rv hrv count me h1 hfit (fun h => by rw [hfx] at h; cases h) hlast

/-- DEFECT (with or without the proposed repairs): under reverse video `erasech(1, NO)` on the last column of a
    2-column terminal prints a space — the cursor stays on the last column with the wrap pending — and then `CSI D`,
    which lands on column 0: one cell left of the requested position. -/
theorem erase_last_col_counterexample (fx : Fixes) : ¬ C09_erase_full fx := by
  intro h
  have h1 := h { cexScreen 1 2 with rv := true, col := 1 } (by constructor <;> decide) rfl true rfl 1 .no (by decide)
    (by decide)
  have h2 := (h1.2.2.2.1 rfl).1
  revert h2
  rcases fx with ⟨a, b, c, d, e⟩
  cases a <;> cases b <;> cases c <;> cases d <;> cases e <;> decide +kernel

/-! ### Offsets as large as the rectangle -/

/-- The scroll clause for a rectangle on the screen and offsets of ANY size: a cell whose source falls outside the
    rectangle is vacated, so an offset as large as the rectangle (in particular any vertical offset of a one-line
    rectangle) must leave all of it blank - or the scroll must be refused. -/
def C09_scroll_any_offset (fx : Fixes) : Prop :=
  ∀ (vt : VTState), Spec.WF vt → ∀ (caps : Caps), Spec.CapsOK caps vt →
    ∀ (rect : Rect) (downward rightward : Int),
      1 ≤ rect.lines → 1 ≤ rect.cols → 0 ≤ rect.top → rect.bottom ≤ vt.lines → 0 ≤ rect.left → rect.right ≤ vt.cols →
      (scrollrect fx caps vt.cols rect downward rightward).1 = true →
      Spec.ScrollOK rect downward rightward vt (run (scrollrect fx caps vt.cols rect downward rightward).2 vt)

/-- A one-line rectangle cannot be scrolled vertically by insert/delete line (DECSTBM needs two lines): the driver
    refuses, with or without DECSLRM, whatever the horizontal offset - it reports failure and sends nothing. -/
theorem scroll_oneline_vertical_refused (fx : Fixes) (hfx : fx.scrollGuard = true) (caps : Caps) (termCols : Int)
    (rect : Rect) (downward rightward : Int) (h1 : rect.lines = 1) (hd : downward ≠ 0) :
    scrollrect fx caps termCols rect downward rightward = (false, []) := by
  unfold scrollrect
  have h0 : ¬ (downward = 0 ∧ rightward = 0) := fun h => hd h.1
  rw [if_neg h0]
  simp only []
  have hB : ¬ (((caps.slrm = true ∧ rect.lines = 1) ∨ rect.right = termCols) ∧ downward = 0) := fun h => hd h.2
  rw [if_neg hB]
  by_cases h2 : caps.slrm = true ∨ (rect.left = 0 ∧ rect.cols = termCols ∧ rightward = 0)
  · rw [if_pos h2]
    have h3 : fx.scrollGuard = true ∧
        (rect.lines < 2 ∨ ((rect.left > 0 ∨ rect.right < termCols) ∧ rect.cols < 2)) := ⟨hfx, Or.inl (by omega)⟩
    rw [if_pos h3]
  · rw [if_neg h2]

/-- Hence the any-offset clause holds for every one-line rectangle scrolled vertically (alone or diagonally): success
    is never reported for it, so nothing is claimed that the bytes do not do. -/
theorem scroll_oneline_vertical_partial (fx : Fixes) (hfx : fx.scrollGuard = true) (vt : VTState) (caps : Caps)
    (rect : Rect) (downward rightward : Int) (h1 : rect.lines = 1) (hd : downward ≠ 0) :
    (scrollrect fx caps vt.cols rect downward rightward).1 = false ∧
    run (scrollrect fx caps vt.cols rect downward rightward).2 vt = vt := by
  rw [scroll_oneline_vertical_refused fx hfx caps vt.cols rect downward rightward h1 hd]
  exact ⟨rfl, rfl⟩

example : scrollrect ⟨true, true, true, true, true⟩ ⟨true, false, false⟩ 6 ⟨2, 1, 1, 3⟩ (-1) 0 = (false, []) :=
  scroll_oneline_vertical_refused _ rfl _ _ _ _ _ rfl (by decide)
example : scrollrect ⟨true, true, true, true, true⟩ ⟨true, false, false⟩ 6 ⟨2, 1, 1, 3⟩ 1 2 = (false, []) := by decide
-- the same rectangle scrolled horizontally only is accepted (ICH/DCH between DECSLRM margins)
example : (scrollrect ⟨true, true, true, true, true⟩ ⟨true, false, false⟩ 6 ⟨2, 1, 1, 3⟩ 0 2).1 = true := by decide

/-- What the clause demands of a success that the one-line path would report for a vertical offset: had the bytes of
    the horizontal-only strategy (`scrollrect … 0 r`) been sent for `(d, r)` with `d ≠ 0`, the rectangle would have had
    to end up blank.  On a 3x6 screen the cell (1,2) keeps a glyph: such a success would violate the clause. -/
theorem oneline_horizontal_bytes_do_not_scroll_vertically :
    ¬ Spec.ScrollOK ⟨1, 1, 1, 3⟩ 1 1 { cexScreen 3 6 with declrmm := true }
        (run (scrollrect ⟨true, true, true, true, true⟩ ⟨true, false, false⟩ 6 ⟨1, 1, 1, 3⟩ 0 1).2 { cexScreen 3 6 with declrmm := true }) := by
  intro h
  have h2 := congrFun (congrFun h.2.1 1) 1
  revert h2
  decide +kernel

/-- DEFECT (the tree before `fixes/C09_scroll_one_cell.patch`, with every other repair or none): on a 2x5 terminal with
    DECSLRM available, `scrollrect((1,0) 1x1, 0, -1)` reports success and sends `CSI ;1 s  CSI 2 H  CSI @  CSI s`;
    `CSI ;1 s` asks for left = right margin and is ignored, so ICH shifts the whole of row 1 and cell (1,1), outside
    the rectangle, changes. -/
theorem scroll_one_cell_counterexample (fx : Fixes) (hfx : fx.scrollCellGuard = false) : ¬ C09_scroll_any_offset fx := by
  intro h
  rcases fx with ⟨a, b, c, d, e⟩
  simp only at hfx
  subst hfx
  have h1 := h { cexScreen 2 5 with declrmm := true } (by constructor <;> decide) ⟨true, false, false⟩ (fun _ => rfl)
    ⟨1, 0, 1, 1⟩ 0 (-1) (by decide) (by decide) (by decide) (by decide) (by decide) (by decide)
    (by cases a <;> cases b <;> cases c <;> cases d <;> decide)
  have h2 := congrFun (congrFun h1.2.1 1) 1
  revert h2
  cases a <;> cases b <;> cases c <;> cases d <;> decide +kernel

/-- The unrepaired flag value is the unchanged tree's. -/
example : ¬ C09_scroll_any_offset Fixes.none := scroll_one_cell_counterexample _ rfl

/-- With the one-cell guard the same request is refused: nothing is sent. -/
example : scrollrect ⟨true, true, true, true, true⟩ ⟨true, false, false⟩ 5 ⟨1, 0, 1, 1⟩ 0 (-1) = (false, []) := by decide

/-- The margin guard alone does not suffice either: without it a vertical offset as large as a one-line rectangle is
    sent as DECSTBM `CSI 2;2 r` (ignored) + DL on the whole screen. -/
theorem scroll_any_offset_needs_margin_guard (fx : Fixes) (hfx : fx.scrollGuard = false) : ¬ C09_scroll_any_offset fx := by
  intro h
  rcases fx with ⟨a, b, c, d, e⟩
  simp only at hfx
  subst hfx
  have h1 := h (cexScreen 3 2) (by constructor <;> decide) ⟨false, false, false⟩ (fun h => by cases h)
    ⟨1, 0, 1, 2⟩ 1 0 (by decide) (by decide) (by decide) (by decide) (by decide) (by decide)
    (by cases b <;> cases c <;> cases d <;> cases e <;> decide)
  have h2 := congrFun (congrFun h1.2.1 2) 0
  revert h2
  cases b <;> cases c <;> cases d <;> cases e <;> decide +kernel

/-- THE CLAUSE for the repaired source (both guards of `scrollrect` present: `fixes/C09_scroll_one_column.patch` and
    `fixes/C09_scroll_one_cell.patch`): for every screen, every non-empty rectangle on it, EVERY offset pair (also
    `|downward| ≥ lines` or `|rightward| ≥ cols`), both values of the DECSLRM capability and whichever strategy the
    driver picks, a scroll that reports success moves exactly the cells of the rectangle by the offsets, blanks the
    vacated cells (all of them when an offset is at least the size), touches nothing outside and leaves no margins
    set. -/
theorem scroll_any_offset_of_guards (fx : Fixes) (hfx : fx.scrollGuard = true) (hcell : fx.scrollCellGuard = true) :
    C09_scroll_any_offset fx := by
  intro vt hw caps hcaps rect d r hl1 hc1 htop hbot hleft hright hret
  exact scroll_effect_general fx vt hw caps hcaps rect d r hl1 hc1 htop hbot hleft hright
    (fun h => by rw [hfx] at h; cases h) (fun h => by rcases h with h | h <;> simp_all)
    (fun h => by rw [hfx] at h; cases h) hret

/-- … and a scroll that reports failure emits nothing (`scroll_failure_silent`, for every offset pair): together the
    two halves of the clause. -/
theorem scroll_any_offset_both (fx : Fixes) (hfx : fx.scrollGuard = true) (hcell : fx.scrollCellGuard = true)
    (vt : VTState) (hw : Spec.WF vt) (caps : Caps) (hcaps : Spec.CapsOK caps vt) (rect : Rect) (downward rightward : Int)
    (hl1 : 1 ≤ rect.lines) (hc1 : 1 ≤ rect.cols) (htop : 0 ≤ rect.top) (hbot : rect.bottom ≤ vt.lines)
    (hleft : 0 ≤ rect.left) (hright : rect.right ≤ vt.cols) :
    if (scrollrect fx caps vt.cols rect downward rightward).1 = true
    then Spec.ScrollOK rect downward rightward vt (run (scrollrect fx caps vt.cols rect downward rightward).2 vt)
    else (scrollrect fx caps vt.cols rect downward rightward).2 = [] ∧
      run (scrollrect fx caps vt.cols rect downward rightward).2 vt = vt := by
  cases hret : (scrollrect fx caps vt.cols rect downward rightward).1 with
  | true =>
    simp only [if_true]
    exact scroll_any_offset_of_guards fx hfx hcell vt hw caps hcaps rect downward rightward hl1 hc1 htop hbot hleft hright hret
  | false =>
    simp only [Bool.false_eq_true, if_false]
    rw [scroll_failure_silent fx caps vt.cols rect downward rightward hret]
    exact ⟨rfl, rfl⟩

/-- non-vacuity: a 2x3 rectangle inside `exScreen` (4x6) with margins on all four sides, scrolled down by 5 (more than
    its 2 lines) and left by 3 (its width): success is reported and the whole rectangle ends up blank -/
example : (scrollrect ⟨true, true, true, true, true⟩ ⟨true, false, false⟩ exScreen.cols ⟨1, 1, 2, 3⟩ 5 (-3)).1 = true := by
  decide
example := scroll_any_offset_of_guards ⟨true, true, true, true, true⟩ rfl rfl exScreen exScreen_wf ⟨true, false, false⟩
  (fun _ => rfl) ⟨1, 1, 2, 3⟩ 5 (-3) (by decide) (by decide) (by decide) (by decide) (by decide) (by decide) (by decide)
example : (run (scrollrect ⟨true, true, true, true, true⟩ ⟨true, false, false⟩ 6 ⟨1, 1, 2, 3⟩ 5 (-3)).2 exScreen).grid 2 3 =
    Cell.blank 3 := by decide +kernel
/-- ICH/DCH on full-width lines without DECSLRM, offset larger than the width: three blank lines -/
example := scroll_any_offset_of_guards ⟨true, true, true, true, true⟩ rfl rfl exScreen exScreen_wf ⟨false, false, false⟩
  (by intro h; cases h) ⟨0, 2, 3, 4⟩ 0 7 (by decide) (by decide) (by decide) (by decide) (by decide) (by decide) (by decide)
/-- one line between DECSLRM margins, offset far larger than the width -/
example := scroll_any_offset_of_guards ⟨true, true, true, true, true⟩ rfl rfl exScreen exScreen_wf ⟨true, false, false⟩
  (fun _ => rfl) ⟨2, 1, 1, 4⟩ 0 (-1000) (by decide) (by decide) (by decide) (by decide) (by decide) (by decide) (by decide)

/-! ### Tie to the source: constants and format strings regenerated from `termdriver-xterm.c` on every run -/

open Tickit.Gen.XTermFacts in
/-- The chunk size `h64` of `erasech_effect` speaks about is the one in the source. -/
theorem erase_chunk_is_64 : eraseChunk = 64 := by decide

open Tickit.Gen.XTermFacts in
/-- `goto_abs` is `printf` of the source's format strings. -/
theorem gotoAbs_printf (line col : Int) :
    gotoAbs line col =
      if line ≠ -1 ∧ col > 0 then fmt (goto_abs_formats.getD 0 []) [line + 1, col + 1]
      else if line ≠ -1 ∧ col = 0 then fmt (goto_abs_formats.getD 1 []) [line + 1]
      else if line ≠ -1 then fmt (goto_abs_formats.getD 2 []) [line + 1]
      else if col > 0 then fmt (goto_abs_formats.getD 3 []) [col + 1]
      else if col ≠ -1 then fmt (goto_abs_formats.getD 4 []) []
      else [] := by
  simp [gotoAbs, goto_abs_formats, fmt, csi]

/-- The `n / 1 / -1 / -n` ladder as `printf` of four format strings. -/
def ladder (n : Int) (f : List (List UInt8)) (i : Nat) : List UInt8 :=
  if n > 1 then fmt (f.getD i []) [n]
  else if n = 1 then fmt (f.getD (i + 1) []) []
  else if n = -1 then fmt (f.getD (i + 2) []) []
  else if n < -1 then fmt (f.getD (i + 3) []) [-n]
  else []

open Tickit.Gen.XTermFacts in
theorem moveRel_printf (downward rightward : Int) :
    moveRel downward rightward = ladder downward move_rel_formats 0 ++ ladder rightward move_rel_formats 4 := by
  simp [moveRel, signedSeq, ladder, move_rel_formats, fmt, csi]

open Tickit.Gen.XTermFacts in
theorem scrollrect_printf :
    (∀ r, signedSeq r [] 0x50 0x40 = ladder r scrollrect_formats 1) ∧
    (∀ d, signedSeq d [] 0x4d 0x4c = ladder d scrollrect_formats 8) ∧
    (∀ r, signedSeq r [0x27] 0x7e 0x7d = ladder r scrollrect_formats 12) ∧
    (∀ right, csi ([0x3b] ++ showInt right ++ [0x73]) = fmt (scrollrect_formats.getD 0 []) [right]) ∧
    (∀ t b, csi (showInt t ++ [0x3b] ++ showInt b ++ [0x72]) = fmt (scrollrect_formats.getD 6 []) [t, b]) ∧
    (∀ l r, csi (showInt l ++ [0x3b] ++ showInt r ++ [0x73]) = fmt (scrollrect_formats.getD 7 []) [l, r]) ∧
    csi [0x73] = fmt (scrollrect_formats.getD 5 []) [] ∧
    csi [0x72] = fmt (scrollrect_formats.getD 16 []) [] ∧
    csi [0x73] = fmt (scrollrect_formats.getD 17 []) [] := by
  simp [signedSeq, ladder, scrollrect_formats, fmt, csi]

open Tickit.Gen.XTermFacts in
theorem erasech_clear_printf :
    csi [0x58] = fmt (erasech_formats.getD 0 []) [] ∧
    (∀ n, csi (showInt n ++ [0x58]) = fmt (erasech_formats.getD 1 []) [n]) ∧
    clear = fmt (clear_formats.getD 0 []) [] := by
  simp [erasech_formats, clear_formats, clear, fmt, csi]

open Tickit.Gen.TermBuf in
/-- The bytes of a pause are the ones in the source: `teardown()` (which is both `.stop` and `.pause` of the driver's
    vtable) ends with the pen-reset literal the extractor of the C11 engine reads from `termdriver-xterm.c`, and
    `tickit_term_pause` ends with a flush; nothing in `teardown()` / `resume()` mentions DECLRMM. -/
theorem pauseBytes_from_source :
    pauseBytes = teardown_pen_reset ∧ pause_is_teardown = true ∧ stop_is_teardown = true ∧ term_pause_flushes = true := by
  decide

/-! ### Backgrounds with an RGB8 secondary value (`Model/XTermPenRgb.lean`) -/

theorem bgParamsX_none (cap : Bool) (v : Int) : bgParamsX cap v none = bgParams v := by
  unfold bgParamsX bgParams
  by_cases h : v < 0 <;> simp [h]

theorem setpenParamsX_eq (o cb cr : Bool) (v : Int) (rvv : Bool) :
    setpenParamsX o cb cr (bgParams v) rvv = setpenParams o cb cr v rvv := rfl

/-- Without RGB8 values the extended pen model is the proved one. -/
theorem setpenX_plain (caps : Caps) (cache : PenCache) (pen : PenReq) :
    setpenX caps ⟨cache, none⟩ ⟨pen, none⟩ = (⟨(setpen caps cache pen).1, none⟩, (setpen caps cache pen).2) := by
  cases hb : pen.bg <;>
    simp [setpenX, setpen, PenReqX.rgb, hb, bgParamsX_none, setpenParamsX_eq]

theorem chpenX_plain (caps : Caps) (cache : PenCache) (pen : PenReq) :
    chpenX caps ⟨cache, none⟩ ⟨pen, none⟩ = (⟨(chpen caps cache pen).1, none⟩, (chpen caps cache pen).2) := by
  cases hb : pen.bg <;>
    simp [chpenX, chpen, PenReqX.rgb, hb, bgParamsX_none, setpenParamsX_eq, changedBy]

/-- The five SGR parameters of an RGB8 background, interpreted (colon and semicolon form). -/
theorem rgb_params_fold (colon : Bool) (c : RGB8) (bg : Int) (rv : Bool) :
    pfinish (([⟨48, true⟩, ⟨2, true⟩, ⟨c.r, true⟩, ⟨c.g, true⟩, ⟨c.b, false⟩] : List SgrParam).foldl (pstep colon)
      (⟨bg, rv, .none⟩, [])) = ⟨rgbColour c.r c.g c.b, rv, .none⟩ := by
  cases colon <;> simp [pstep, pfinish, sgrStep, sgrExtBgColon]

/-- The clause "… using the current background" for RGB8 backgrounds: on a terminal that shows RGB8 colours, a `chpen`
    asking for index `v` + RGB8 value `c` - whatever the cache holds, unless it holds exactly that (in particular when
    it holds the same index `v` without an RGB8 value, or with another one: the index+RGB8, plain index, index+RGB8
    sequence) - sends bytes after which the terminal's background IS that RGB8 colour; nothing else on the screen
    changes, and the cached pen asks for the same colour.  Every later `erasech` / `clear` / `print` blanks with
    `vt.bg` (`erasech_effect`, `clear_effect`, `print_effect`). -/
theorem chpen_rgb_effect (caps : Caps) (hcap : caps.rgb8 = true) (cache : PenCacheX) (v : Int) (c : RGB8)
    (h0 : 0 ≤ v) (hdiff : ¬ (cache.base.bg = some v ∧ cache.bgRgb = some c)) (vt : VTState) (hg : vt.ps = .ground) :
    run (chpenX caps cache ⟨⟨some v, none⟩, some c⟩).2 vt = { vt with bg := rgbColour c.r c.g c.b } ∧
    (chpenX caps cache ⟨⟨some v, none⟩, some c⟩).1.wantBg caps = some (rgbColour c.r c.g c.b) ∧
    (chpenX caps cache ⟨⟨some v, none⟩, some c⟩).1.base.rv = cache.base.rv := by
  have hv : ¬ v < 0 := by omega
  have hnd : (PenCache.mk cache.base.others (some v) cache.base.rv).nondefault = true := by
    have : v ≠ -1 := by omega
    simp [PenCache.nondefault, this]
  have hps : setpenParamsX false true false (bgParamsX caps.rgb8 v (some c)) false =
      [⟨48, true⟩, ⟨2, true⟩, ⟨c.r, true⟩, ⟨c.g, true⟩, ⟨c.b, false⟩] := by
    simp [setpenParamsX, bgParamsX, hcap, hv]
  refine ⟨?_, ?_, ?_⟩
  · simp only [chpenX, PenReqX.rgb, Option.isSome_some, if_true, hdiff, not_false_eq_true, decide_true, changedBy,
      Option.getD_some, Option.getD_none, hps, Bool.false_eq_true, if_false]
    unfold chpenBytes
    rw [if_neg (by simp), hnd]
    simp only [Bool.not_true, Bool.false_eq_true, if_false]
    rw [run_renderSgr vt hg caps.colon _ (by simp) (by
      intro p hp
      simp only [List.mem_cons, List.mem_nil_iff, or_false] at hp
      rcases hp with h | h | h | h | h <;> subst h <;> simp), rgb_params_fold]
  · simp [chpenX, PenReqX.rgb, hdiff, PenCacheX.wantBg, hv, hcap]
  · simp [chpenX, PenReqX.rgb, hdiff, changedBy]

/-- The middle step of the sequence: a `chpen` asking for the plain index `v` on a cache that holds `v` WITH an RGB8
    value is not a no-op - the index form is sent, the terminal's background becomes palette colour `v`, and the
    cache forgets the RGB8 value (`tickit_pen_copy_attr` sets the index, which drops the destination's RGB8). -/
theorem chpen_plain_after_rgb (caps : Caps) (cache : PenCacheX) (v : Int) (c : RGB8) (h0 : 0 ≤ v) (h1 : v ≤ 255)
    (hb : cache.base.bg = some v) (hc : cache.bgRgb = some c) (vt : VTState) (hg : vt.ps = .ground) :
    run (chpenX caps cache ⟨⟨some v, none⟩, none⟩).2 vt = { vt with bg := v } ∧
    (chpenX caps cache ⟨⟨some v, none⟩, none⟩).1 = ⟨cache.base, none⟩ := by
  have hnd : (PenCache.mk cache.base.others (some v) cache.base.rv).nondefault = true := by
    have : v ≠ -1 := by omega
    simp [PenCache.nondefault, this]
  refine ⟨?_, ?_⟩
  · simp only [chpenX, PenReqX.rgb, Option.isSome_some, if_true, hb, hc, changedBy, Option.getD_some, Option.getD_none,
      bgParamsX_none, setpenParamsX_eq]
    simp only [reduceCtorEq, and_false, not_false_eq_true, decide_true, if_true]
    rw [run_chpenBytes vt hg caps.colon false true false v false (by omega) h1]
    simp [hnd]
  · cases hcb : cache.base with
    | mk o b r =>
      rw [hcb] at hb; simp only at hb
      simp [chpenX, PenReqX.rgb, hcb, hb, hc, changedBy]

/-- Non-vacuity, the reviewers' sequence: bg=3 + RGB8 (10,20,30), then plain bg=3, then bg=3 + RGB8 again on a
    terminal with the RGB8 capability - the third request sends `CSI 48:2:10:20:30 m`. -/
example :
    let caps : Caps := ⟨false, true, true⟩
    let c1 := (chpenX caps PenCacheX.empty ⟨⟨some 3, none⟩, some ⟨10, 20, 30⟩⟩).1
    let c2 := (chpenX caps c1 ⟨⟨some 3, none⟩, none⟩).1
    (chpenX caps c2 ⟨⟨some 3, none⟩, some ⟨10, 20, 30⟩⟩).2 = csi "48:2:10:20:30m".toUTF8.toList ∧
    (chpenX caps c1 ⟨⟨some 3, none⟩, none⟩).2 = csi "43m".toUTF8.toList := by
  decide +kernel

def rgbParams (c : RGB8) : List SgrParam := [⟨48, true⟩, ⟨2, true⟩, ⟨c.r, true⟩, ⟨c.g, true⟩, ⟨c.b, false⟩]

theorem piece_rgb (colon : Bool) (c : RGB8) (bg : Int) (rv : Bool) :
    (rgbParams c).foldl (pstep colon) (⟨bg, rv, .none⟩, []) = (⟨rgbColour c.r c.g c.b, rv, .none⟩, []) := by
  cases colon <;> simp [rgbParams, pstep, sgrStep, sgrExtBgColon]

theorem setpenParamsX_nonneg (o cb cr : Bool) (ps : List SgrParam) (rvv : Bool) (hps : ∀ p ∈ ps, 0 ≤ p.val) :
    ∀ p ∈ setpenParamsX o cb cr ps rvv, 0 ≤ p.val := by
  intro p hp
  unfold setpenParamsX at hp
  simp only [List.mem_append] at hp
  rcases hp with (((hp | hp) | hp) | hp) | hp
  · cases o <;> simp at hp; subst hp; decide
  · cases cb <;> simp at hp; exact hps p hp
  · cases o <;> simp at hp; rcases hp with hp | hp | hp <;> subst hp <;> decide
  · cases cr <;> simp at hp; subst hp; cases rvv <;> decide
  · cases o <;> simp at hp; rcases hp with hp | hp | hp | hp <;> subst hp <;> decide

theorem setpenParamsX_fold (colon o cb cr : Bool) (ps : List SgrParam) (nb : Int) (rvv : Bool)
    (hpiece : ∀ bg rv, ps.foldl (pstep colon) (⟨bg, rv, .none⟩, []) = (⟨nb, rv, .none⟩, [])) (bg : Int) (rv : Bool) :
    (setpenParamsX o cb cr ps rvv).foldl (pstep colon) (⟨bg, rv, .none⟩, []) =
      (⟨if cb = true then nb else bg, if cr = true then rvv else rv, .none⟩, []) := by
  unfold setpenParamsX
  simp only [List.foldl_append, fold_ite, piece_fg, piece_bui, piece_tail, ite_self]
  cases cb
  · cases cr
    · simp only [Bool.false_eq_true, if_false, piece_bui, piece_tail, ite_self]
    · simp only [Bool.false_eq_true, if_false, if_true, piece_bui, piece_rv, piece_tail, ite_self]
  · cases cr
    · simp only [Bool.false_eq_true, if_false, if_true, hpiece, piece_bui, piece_tail, ite_self]
    · simp only [if_true, hpiece, piece_bui, piece_rv, piece_tail, ite_self]

theorem rgbParams_nonneg (c : RGB8) : ∀ p ∈ rgbParams c, 0 ≤ p.val := by
  intro p hp
  simp only [rgbParams, List.mem_cons, List.mem_nil_iff, or_false] at hp
  rcases hp with h | h | h | h | h <;> subst h <;> simp

/-- `setpen` with an RGB8 background on a terminal that shows RGB8 colours: unless the cache holds exactly that index
    and RGB8 value, the bytes sent make the terminal's background that RGB8 colour (and set reverse video as asked,
    if it differs from the cached value); nothing else on the screen changes. -/
theorem setpen_rgb_effect (caps : Caps) (hcap : caps.rgb8 = true) (cache : PenCacheX) (v : Int) (c : RGB8)
    (rvq : Option Bool) (h0 : 0 ≤ v) (hdiff : ¬ (cache.base.bg = some v ∧ cache.bgRgb = some c))
    (vt : VTState) (hg : vt.ps = .ground) :
    run (setpenX caps cache ⟨⟨some v, rvq⟩, some c⟩).2 vt =
      { vt with bg := rgbColour c.r c.g c.b,
                rv := if cache.base.rv ≠ some (rvq.getD false) then rvq.getD false else vt.rv } ∧
    (setpenX caps cache ⟨⟨some v, rvq⟩, some c⟩).1.wantBg caps = some (rgbColour c.r c.g c.b) := by
  have hv : ¬ v < 0 := by omega
  have hbp : bgParamsX caps.rgb8 v (some c) = rgbParams c := by simp [bgParamsX, hcap, hv, rgbParams]
  have hnd : (PenCache.mk true (some v) (some (rvq.getD false))).nondefault = true := by
    have : v ≠ -1 := by omega
    simp [PenCache.nondefault, this]
  refine ⟨?_, ?_⟩
  · simp only [setpenX, PenReqX.rgb, Option.isSome_some, if_true, hdiff, not_false_eq_true, decide_true,
      Option.getD_some, hbp]
    unfold chpenBytes
    have hne : setpenParamsX (!cache.base.others) true (decide (cache.base.rv ≠ some (rvq.getD false))) (rgbParams c)
        (rvq.getD false) ≠ [] := by
      simp [setpenParamsX, rgbParams]
    rw [if_neg hne, hnd]
    simp only [Bool.not_true, Bool.false_eq_true, if_false]
    rw [run_renderSgr vt hg caps.colon _ hne (setpenParamsX_nonneg _ _ _ _ _ (rgbParams_nonneg c)),
      setpenParamsX_fold caps.colon _ _ _ _ _ _ (piece_rgb caps.colon c)]
    simp [pfinish]
  · simp [setpenX, PenReqX.rgb, PenCacheX.wantBg, hv, hcap]

/-- After a `chpen` asking for index `v` + RGB8 `c` the cache holds exactly that. -/
theorem chpenX_rgb_cache (caps : Caps) (cache : PenCacheX) (v : Int) (c : RGB8) :
    (chpenX caps cache ⟨⟨some v, none⟩, some c⟩).1.base.bg = some v ∧
    (chpenX caps cache ⟨⟨some v, none⟩, some c⟩).1.bgRgb = some c := by
  by_cases h : cache.base.bg = some v ∧ cache.bgRgb = some c
  · simp [chpenX, PenReqX.rgb, h]
  · simp [chpenX, PenReqX.rgb, h]

/-- The whole sequence the property's clause is about, for every palette index, RGB8 value, starting cache and
    screen: index+RGB8, plain index, index+RGB8 again (three `chpen`s on a terminal with the RGB8 capability).  The
    second request leaves the terminal's background at palette colour `v`, the third brings the RGB8 colour back -
    it is never taken for a no-op - so the blanks of a following `erasech` / `clear` / `print` (which use `vt.bg`)
    have the background asked for. -/
theorem rgb_plain_rgb_sequence (caps : Caps) (hcap : caps.rgb8 = true) (cache : PenCacheX) (v : Int) (c : RGB8)
    (h0 : 0 ≤ v) (h1 : v ≤ 255) (vt : VTState) (hg : vt.ps = .ground) :
    let rgb : PenReqX := ⟨⟨some v, none⟩, some c⟩
    let plain : PenReqX := ⟨⟨some v, none⟩, none⟩
    let c1 := (chpenX caps cache rgb).1
    let c2 := (chpenX caps c1 plain).1
    run (chpenX caps c1 plain).2 vt = { vt with bg := v } ∧
    run (chpenX caps c2 rgb).2 { vt with bg := v } = { vt with bg := rgbColour c.r c.g c.b } ∧
    (chpenX caps c2 rgb).1.wantBg caps = some (rgbColour c.r c.g c.b) := by
  intro rgb plain c1 c2
  obtain ⟨hb1, hr1⟩ := chpenX_rgb_cache caps cache v c
  obtain ⟨hrun2, hc2⟩ := chpen_plain_after_rgb caps c1 v c h0 h1 hb1 hr1 vt hg
  have hdiff : ¬ (c2.base.bg = some v ∧ c2.bgRgb = some c) := by
    show ¬ ((chpenX caps c1 plain).1.base.bg = some v ∧ (chpenX caps c1 plain).1.bgRgb = some c)
    rw [hc2]; simp
  obtain ⟨hrun3, hw3, _⟩ := chpen_rgb_effect caps hcap c2 v c h0 hdiff { vt with bg := v } hg
  exact ⟨hrun2, hrun3, hw3⟩

end Tickit.Props.C09
