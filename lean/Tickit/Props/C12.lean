import Tickit.Proof.Modes
import Tickit.Proof.ModesW
import Tickit.Gen.ModeLayout
/-
  C12 — Every terminal mode switched on is switched off again by pause/teardown.

  A *history* is a list of `Modes.Op` (control settings, pens, text, the terminal's replies, pause,
  resume, teardown, the toplevel instance's tick) performed on a freshly built terminal, directly
  (`toplevel = false`) or owned by a toplevel instance.  `validFrom .running ops = some ph` says that the
  history keeps the documented contract (`Modes.phaseNext`, `Modes.opOk`) and ends in phase `ph`.
  The terminal is the byte-level VT mode-state interpreter `Modes.VT`, started in any mode state `m0`
  in which the four listed modes are off (`VModes.standard`; blink, shape, DECLRMM are arbitrary); the last
  section takes the hand-over state as a parameter (`VModes.handover`: the cursor may be hidden).

  The model is parameterised by `Modes.Cfg`: which of the three repair sites the working tree has
  (read from the source on every run into `Gen.ModeLayout`).  Every theorem is stated for every `Cfg`
  with the hypotheses it needs; the counterexample theorems show that the hypotheses are necessary.
-/
namespace Tickit.Props.C12
open Tickit Tickit.Modes Tickit.Gen

/-! ### facts read from the C source (obligations that break when the source changes) -/

theorem mode_for_mouse_agrees (k : Int) :
    modeForMouse k = (ModeLayout.mode_for_mouse_cases.lookup k).getD ModeLayout.mode_for_mouse_default := by
  unfold modeForMouse
  simp only [ModeLayout.mode_for_mouse_cases, ModeLayout.mode_for_mouse_default, List.lookup]
  by_cases h1 : k = 1
  · subst h1; rfl
  · by_cases h2 : k = 2
    · subst h2; rfl
    · by_cases h3 : k = 3
      · subst h3; rfl
      · have e1 : (k == 1) = false := by simpa using h1
        have e2 : (k == 2) = false := by simpa using h2
        have e3 : (k == 3) = false := by simpa using h3
        simp [h1, h2, h3, e1, e2, e3]

theorem sgr_onoff_agrees :
    ModeLayout.sgr_on = [0, 30, 40, 1, 4, 3, 7, 9, 10, 5, 70] ∧
    ModeLayout.sgr_off = [0, 39, 49, 22, 24, 23, 27, 29, 10, 25, 75] := by decide

theorem pen_attr_order :
    [ModeLayout.pen_fg, ModeLayout.pen_bg, ModeLayout.pen_bold, ModeLayout.pen_under, ModeLayout.pen_italic,
     ModeLayout.pen_reverse, ModeLayout.pen_strike, ModeLayout.pen_altfont, ModeLayout.pen_blink,
     ModeLayout.pen_sizepos, ModeLayout.n_pen_attrs] = [1, 2, 3, 4, 5, 6, 7, 8, 9, 10, 11] ∧
    [ModeLayout.sizepos_normal, ModeLayout.sizepos_superscript, ModeLayout.sizepos_subscript] = [0, 2, 3] ∧
    [ModeLayout.under_none, ModeLayout.under_single, ModeLayout.under_double] = [0, 1, 2] := by decide

theorem mouse_enum :
    [ModeLayout.mouse_off, ModeLayout.mouse_click, ModeLayout.mouse_drag, ModeLayout.mouse_move] = [0, 1, 2, 3] := by decide

theorem ctl_numbers_distinct :
    [ModeLayout.ctl_altscreen, ModeLayout.ctl_cursorvis, ModeLayout.ctl_mouse, ModeLayout.ctl_cursorblink,
     ModeLayout.ctl_cursorshape, ModeLayout.ctl_icon_text, ModeLayout.ctl_title_text, ModeLayout.ctl_icontitle_text,
     ModeLayout.ctl_keypad_app, ModeLayout.ctl_colors, ModeLayout.ctl_cap_cursorshape, ModeLayout.ctl_cap_slrm,
     ModeLayout.ctl_cap_csi_sub_colon, ModeLayout.ctl_cap_rgb8].Nodup := by decide

/-- The shadow's bit-fields are wide enough for the values the documented API admits. -/
theorem shadow_widths :
    1 ≤ ModeLayout.w_mode_altscreen ∧ 1 ≤ ModeLayout.w_mode_cursorvis ∧ 1 ≤ ModeLayout.w_mode_cursorblink ∧
    2 ≤ ModeLayout.w_mode_cursorshape ∧ 2 ≤ ModeLayout.w_mode_mouse ∧ 1 ≤ ModeLayout.w_mode_keypad := by decide

/-! ### `shadow_inv`, `resume_reestablishes` -/

/-- **shadow_inv** (full statement). While the terminal is running (in particular after every resume), the
    terminal's alternate-screen, cursor-visibility, mouse-reporting (with its SGR encoding) and keypad modes
    are exactly the values last set through the control interface. -/
def ShadowInv (cfg : Cfg) : Prop :=
  ∀ (toplevel : Bool) (m0 : VModes) (ops : List Op), m0.standard = true →
    validFrom .running ops = some .running →
    modesShown (vtAfter cfg toplevel m0 ops).modes (ghostAfter cfg toplevel ops) = true

theorem shadow_inv_partial (cfg : Cfg) (toplevel : Bool) (m0 : VModes) (ops : List Op)
    (hm0 : m0.standard = true) (hv : validFrom .running ops = some .running) (hnt : TriggerFree cfg toplevel ops) :
    modesShown (vtAfter cfg toplevel m0 ops).modes (ghostAfter cfg toplevel ops) = true := by
  have h := after_inv cfg toplevel m0 ops .running hm0 hv hnt
  exact modesShown_of cfg _ _ _ (h.shown rfl) h.ghost

theorem shadow_inv (cfg : Cfg) (hk : cfg.keypadRecorded = true) (hr : cfg.repliesGuarded = true) (hq : cfg.rgb8Guarded = true) : ShadowInv cfg :=
  fun toplevel m0 ops hm0 hv =>
    shadow_inv_partial cfg toplevel m0 ops hm0 hv (triggerFree_of_repaired cfg hk hr hq toplevel ops)

/-- **resume_reestablishes.** A pause/resume cycle appended to a history that left the terminal running
    ends with the terminal's modes equal to the values last set before the pause: resume re-establishes
    exactly the logical modes. -/
def ResumeReestablishes (cfg : Cfg) : Prop :=
  ∀ (toplevel : Bool) (m0 : VModes) (ops : List Op), m0.standard = true →
    validFrom .running ops = some .running →
    modesShown (vtAfter cfg toplevel m0 (ops ++ [.pause, .resume])).modes (ghostAfter cfg toplevel ops) = true

theorem resume_reestablishes_partial (cfg : Cfg) (toplevel : Bool) (m0 : VModes) (ops : List Op)
    (hm0 : m0.standard = true) (hv : validFrom .running ops = some .running)
    (hnt : TriggerFree cfg toplevel ops) :
    modesShown (vtAfter cfg toplevel m0 (ops ++ [.pause, .resume])).modes (ghostAfter cfg toplevel ops) = true := by
  have hv' : validFrom .running (ops ++ [.pause, .resume]) = some .running := by
    rw [validFrom_append, hv]; rfl
  have hnt' : TriggerFree cfg toplevel (ops ++ [.pause, .resume]) := noTrigger_append_pause_resume cfg ops _ _ hnt
  have h := shadow_inv_partial cfg toplevel m0 _ hm0 hv' hnt'
  have hg : ghostAfter cfg toplevel (ops ++ [.pause, .resume]) = ghostAfter cfg toplevel ops := by
    unfold ghostAfter; rw [ghostRun_append]; rfl
  rwa [hg] at h

theorem resume_reestablishes (cfg : Cfg) (hk : cfg.keypadRecorded = true) (hr : cfg.repliesGuarded = true) (hq : cfg.rgb8Guarded = true) :
    ResumeReestablishes cfg :=
  fun toplevel m0 ops hm0 hv =>
    resume_reestablishes_partial cfg toplevel m0 ops hm0 hv (triggerFree_of_repaired cfg hk hr hq toplevel ops)

/-! ### `teardown_restores` -/

/-- **teardown_restores** (full statement). For every history inside the contract: if it ends paused or
    torn down the terminal is back in the modes it started in, with the default rendition; and
    destruction (from any phase) leaves it so. -/
def TeardownRestores (cfg : Cfg) : Prop :=
  ∀ (toplevel : Bool) (m0 : VModes) (ops : List Op) (ph : Phase), m0.standard = true →
    validFrom .running ops = some ph →
    (ph ≠ .running → restoredOk (vtAfter cfg toplevel m0 ops) m0 = true) ∧
    restoredOk (VT.feed (vtAfter cfg toplevel m0 ops) (sysAfter cfg toplevel ops).destroy) m0 = true

theorem teardown_restores_partial (cfg : Cfg) (toplevel : Bool) (m0 : VModes) (ops : List Op) (ph : Phase)
    (hm0 : m0.standard = true) (hv : validFrom .running ops = some ph) (hnt : TriggerFree cfg toplevel ops) :
    (ph ≠ .running → restoredOk (vtAfter cfg toplevel m0 ops) m0 = true) ∧
    restoredOk (VT.feed (vtAfter cfg toplevel m0 ops) (sysAfter cfg toplevel ops).destroy) m0 = true := by
  have h := after_inv cfg toplevel m0 ops ph hm0 hv hnt
  have h0 := off_of_standard m0 hm0
  constructor
  · intro hne
    obtain ⟨ho, ha⟩ := h.off hne
    exact restoredOk_of _ m0 h0 ho ha
  · obtain ⟨ho, ha⟩ := destroy_off cfg _ _ ph _ h
    exact restoredOk_of _ m0 h0 ho ha

theorem teardown_restores (cfg : Cfg) (hk : cfg.keypadRecorded = true) (hr : cfg.repliesGuarded = true) (hq : cfg.rgb8Guarded = true) :
    TeardownRestores cfg :=
  fun toplevel m0 ops ph hm0 hv =>
    teardown_restores_partial cfg toplevel m0 ops ph hm0 hv (triggerFree_of_repaired cfg hk hr hq toplevel ops)

/-! ### `getctl_last_set` -/

/-- **getctl_last_set** (full statement). After every history inside the contract, every control reads
    back the value last successfully set (booleans as 0/1). -/
def GetctlLastSet (cfg : Cfg) : Prop :=
  ∀ (toplevel : Bool) (ops : List Op) (ph : Phase), validFrom .running ops = some ph →
    getctlOk (sysAfter cfg toplevel ops).term.drv (ghostAfter cfg toplevel ops) = true

theorem getctl_last_set_partial (cfg : Cfg) (toplevel : Bool) (ops : List Op) (ph : Phase)
    (hv : validFrom .running ops = some ph) (hnt : TriggerFree cfg toplevel ops) :
    getctlOk (sysAfter cfg toplevel ops).term.drv (ghostAfter cfg toplevel ops) = true :=
  getctlOk_of cfg _ _ (after_inv cfg toplevel {} ops ph rfl hv hnt).ghost

theorem getctl_last_set (cfg : Cfg) (hk : cfg.keypadRecorded = true) (hr : cfg.repliesGuarded = true) (hq : cfg.rgb8Guarded = true) :
    GetctlLastSet cfg :=
  fun toplevel ops ph hv => getctl_last_set_partial cfg toplevel ops ph hv (triggerFree_of_repaired cfg hk hr hq toplevel ops)

/-! ### the unrepaired tree: counterexamples (the hypotheses above are necessary) -/

/-- Keypad application mode not recorded (the working tree as found; repair pinned away by
    `t/60tickit-setup.c`): `ctl keypad_app 1; unref` leaves the terminal in application-keypad mode. -/
def keypadHistory : List Op := [.ctl (some .keypadApp) 1]

set_option maxRecDepth 8000 in
theorem teardown_restores_counterexample_keypad (p u r q : Bool) : ¬ TeardownRestores ⟨false, p, u, r, q⟩ := by
  intro h
  have h1 := (h false {} keypadHistory .running rfl rfl).2
  revert h1
  cases p <;> cases u <;> cases r <;> cases q <;> decide

set_option maxRecDepth 8000 in
/-- … and through the toplevel instance: `tick; unref` (what `t/60tickit-setup.c` pins). -/
theorem teardown_restores_counterexample_setup (p u r q : Bool) : ¬ TeardownRestores ⟨false, p, u, r, q⟩ := by
  intro h
  have h1 := (h true {} [.tick false] .running rfl rfl).2
  revert h1
  cases p <;> cases u <;> cases r <;> cases q <;> decide

set_option maxRecDepth 8000 in
theorem getctl_last_set_counterexample_keypad (p u r q : Bool) : ¬ GetctlLastSet ⟨false, p, u, r, q⟩ := by
  intro h
  have h1 := h false keypadHistory .running rfl
  revert h1
  cases p <;> cases u <;> cases r <;> cases q <;> decide

/-- Replies not guarded: `ctl cursorvis 0; <DECRPM ?25;1$y arrives>; unref` leaves the cursor hidden,
    and the control reads 1 after 0 was set. -/
def lateReplyHistory : List Op := [.ctl (some .cursorvis) 0, .replyMode 25 1]

set_option maxRecDepth 8000 in
theorem teardown_restores_counterexample_late_reply (k p u q : Bool) : ¬ TeardownRestores ⟨k, p, u, false, q⟩ := by
  intro h
  have h1 := (h false {} lateReplyHistory .running rfl rfl).2
  revert h1
  cases k <;> cases p <;> cases u <;> cases q <;> decide

set_option maxRecDepth 8000 in
/-- After the late reply the shadow says "visible" while the terminal's cursor is hidden: the next
    `ctl cursorvis 1` is taken for redundant and writes nothing, so the terminal and the value last set differ
    while running. -/
theorem shadow_inv_counterexample_late_reply (k p u q : Bool) : ¬ ShadowInv ⟨k, p, u, false, q⟩ := by
  intro h
  have h1 := h false {} (lateReplyHistory ++ [.ctl (some .cursorvis) 1]) rfl rfl
  revert h1
  cases k <;> cases p <;> cases u <;> cases q <;> decide

set_option maxRecDepth 8000 in
theorem getctl_last_set_counterexample_late_reply (k p u q : Bool) : ¬ GetctlLastSet ⟨k, p, u, false, q⟩ := by
  intro h
  have h1 := h false lateReplyHistory .running rfl
  revert h1
  cases k <;> cases p <;> cases u <;> cases q <;> decide

/-- Forced RGB8 capability not guarded (the working tree as found): the program switches 24-bit colours off
    through `xterm.cap_rgb8` ("the calling program has a better idea than our probing"), then the terminal's
    answer to the start-up SGR query arrives and switches them on again; the control reads 1 after 0 was set. -/
def forcedRgb8History : List Op := [.ctl (some .capRgb8) 0, .replySgr false true]

set_option maxRecDepth 8000 in
theorem getctl_last_set_counterexample_forced_rgb8 (k p u r : Bool) : ¬ GetctlLastSet ⟨k, p, u, r, false⟩ := by
  intro h
  have h1 := h false forcedRgb8History .running rfl
  revert h1
  cases k <;> cases p <;> cases u <;> cases r <;> decide

example : validFrom .running forcedRgb8History = some .running ∧
    ¬ TriggerFree ⟨true, true, true, true, false⟩ false forcedRgb8History ∧
    TriggerFree ⟨true, true, true, true, true⟩ false forcedRgb8History := by decide

/-- **forced_rgb8_survives_late_reply.** With the guard, whatever the driver's state: the capability the
    program has forced is what the control reads after the terminal's SGR report has arrived. -/
theorem forced_rgb8_survives_late_reply (cfg : Cfg) (hq : cfg.rgb8Guarded = true) (d : XDrv) (v : Int) (colon rgb : Bool) :
    getctlInt (onDecrqssSgr cfg (setctlInt cfg d (some .capRgb8) v).1 colon rgb) (some .capRgb8) = some (bool01 v) := by
  have hw : ((wrapU ModeLayout.w_cap_rgb8 (bool01 v) : Nat) : Int) = bool01 v := wrapU1_bool_int v
  simp [setctlInt, onDecrqssSgr, getctlInt, hq, hw]

/-- The triggers are exactly what the partial theorems exclude: both counterexample histories are
    inside the contract and are *not* trigger-free for the unrepaired variants. -/
example : validFrom .running keypadHistory = some .running ∧ ¬ TriggerFree ⟨false, true, true, true, true⟩ false keypadHistory := by
  decide
example : validFrom .running lateReplyHistory = some .running ∧ ¬ TriggerFree ⟨true, true, true, false, true⟩ false lateReplyHistory := by
  decide

/-! ### non-vacuity: a non-trivial history inside the contract, for both kinds of terminal -/

/-- Replies, every listed control, a pen, text, two pause/resume cycles, redundant settings. -/
def sampleHistory : List Op :=
  [.replyMode 25 1, .replyMode 12 2, .replyShape 2, .await 50, .ctl (some .altscreen) 1, .ctl (some .cursorvis) 0,
   .ctl (some .mouse) 2, .ctl (some .mouse) 2, .ctl (some .keypadApp) 1, .ctl (some .cursorshape) 3,
   .setpen (fun a => if a = .bold then some 1 else if a = .fg then some 200 else none), .print [104, 105],
   .pause, .resume, .ctl (some .mouse) 3, .setstr (some .titleText) [116], .pause, .resume, .ctl (some .altscreen) 0]

example : validFrom .running sampleHistory = some .running := by decide
example : validFrom .running (sampleHistory ++ [.pause]) = some .paused := by decide
example : validFrom .running ([.tick false, .usealt 0] ++ sampleHistory ++ [.teardown]) = some .stopped := by decide

set_option maxRecDepth 8000 in
/-- The history really switches modes on (so the theorems are not about an idle terminal) … -/
example : (vtAfter Cfg.repaired false {} sampleHistory).modes.mouse = 1003 ∧
    (vtAfter Cfg.repaired false {} sampleHistory).modes.keypadApp = true ∧
    (vtAfter Cfg.repaired false {} sampleHistory).modes.cursorVisible = false := by decide

/-- … and the theorems apply to it. -/
example : modesShown (vtAfter Cfg.repaired false {} sampleHistory).modes (ghostAfter Cfg.repaired false sampleHistory) = true :=
  shadow_inv Cfg.repaired rfl rfl rfl false {} sampleHistory rfl (by decide)
example : restoredOk (VT.feed (vtAfter Cfg.repaired true {} sampleHistory) (sysAfter Cfg.repaired true sampleHistory).destroy) {} = true :=
  (teardown_restores Cfg.repaired rfl rfl rfl true {} sampleHistory .running rfl (by decide)).2
example : getctlOk (sysAfter Cfg.repaired false sampleHistory).term.drv (ghostAfter Cfg.repaired false sampleHistory) = true :=
  getctl_last_set Cfg.repaired rfl rfl rfl false sampleHistory .running (by decide)
/-- The partial theorems are not vacuous on the tree as found: a history with mouse, cursor and
    alternate screen but no keypad and prompt replies is trigger-free. -/
example : TriggerFree ⟨false, false, false, false, false⟩ false
    [.replyMode 25 1, .ctl (some .altscreen) 1, .ctl (some .cursorvis) 0, .ctl (some .mouse) 1, .pause, .resume] := by decide

/-! ### `pen_survives_pause` -/

/-- **pen_survives_pause** (full statement). After every history inside the contract that leaves the
    terminal running - whatever pause/resume cycles it contains - the terminal renders with the pen the
    program asked for: every attribute named by `setpen`/`chpen` since the terminal was built has, on the
    terminal, the value last asked for (`Modes.logicalPen`), so that is what later drawing is rendered with.
    Colours may carry RGB8 refinements: on a terminal whose RGB8 capability is on (probed or forced) the
    terminal renders the 24-bit colour, otherwise the palette index (`Modes.sem`).  `CapKept`: the capability
    is not changed while the pen holds a colour that depends on it. -/
def PenSurvivesPause (cfg : Cfg) : Prop :=
  ∀ (toplevel : Bool) (m0 : VModes) (ops : List Op), validFrom .running ops = some .running →
    CapKept cfg toplevel ops →
    penShown (sysAfter cfg toplevel ops).term.drv.rgbOn (vtAfter cfg toplevel m0 ops).attrs (ghostAfter cfg toplevel ops).pen = true

theorem pen_survives_pause_partial (cfg : Cfg) (toplevel : Bool) (m0 : VModes) (ops : List Op)
    (hv : validFrom .running ops = some .running) (hck : CapKept cfg toplevel ops) (hnt : PenTriggerFree cfg toplevel ops) :
    penShown (sysAfter cfg toplevel ops).term.drv.rgbOn (vtAfter cfg toplevel m0 ops).attrs (ghostAfter cfg toplevel ops).pen = true :=
  penShown_of _ _ _ (prun_inv cfg ops _ _ .running .running {} (build_pinv toplevel m0) (build_tk toplevel) hv hnt hck)

theorem pen_survives_pause (cfg : Cfg) (hr : cfg.resumeResendsPen = true) : PenSurvivesPause cfg :=
  fun toplevel m0 ops hv hck =>
    pen_survives_pause_partial cfg toplevel m0 ops hv hck (noPenTrigger_of_repaired cfg hr ops _)

/-- The cached pen *is* the logical pen, RGB8 refinements included (so "rendered with the cached pen" - what
    `tickit_term_resume` sends again - and "rendered with the pen asked for" are the same statement). -/
theorem cached_pen_is_logical (cfg : Cfg) (toplevel : Bool) (m0 : VModes) (ops : List Op) (ph : Phase)
    (hv : validFrom .running ops = some ph) (hck : CapKept cfg toplevel ops) (hnt : PenTriggerFree cfg toplevel ops) :
    (sysAfter cfg toplevel ops).term.pen = (ghostAfter cfg toplevel ops).pen :=
  (prun_inv cfg ops _ _ .running ph {} (build_pinv toplevel m0) (build_tk toplevel) hv hnt hck).pen

/-- `setpen bold; pause; resume`: the terminal renders plain, the pen asked for (and cached) is bold; a
    following `setpen bold` writes nothing. -/
def pausePenHistory : List Op := [.setpen (fun a => if a = .bold then some 1 else none), .pause, .resume]

set_option maxRecDepth 8000 in
theorem pen_survives_pause_counterexample (k u r q : Bool) : ¬ PenSurvivesPause ⟨k, false, u, r, q⟩ := by
  intro h
  have h1 := h false {} pausePenHistory rfl (by cases k <;> cases u <;> cases r <;> cases q <;> decide)
  revert h1
  cases k <;> cases u <;> cases r <;> cases q <;> decide

set_option maxRecDepth 8000 in
/-- … and the next `setpen bold` indeed emits no byte on the unrepaired variant. -/
theorem pause_pen_next_setpen_silent :
    ((sysAfter ⟨true, false, true, true, true⟩ false pausePenHistory).step ⟨true, false, true, true, true⟩
      (.setpen (fun a => if a = .bold then some 1 else none))).out = [] := by decide

example : validFrom .running pausePenHistory = some .running ∧ ¬ PenTriggerFree ⟨true, false, true, true, true⟩ false pausePenHistory := by
  decide

set_option maxRecDepth 8000 in
example : penShown (sysAfter Cfg.repaired true sampleHistory).term.drv.rgbOn (vtAfter Cfg.repaired true {} sampleHistory).attrs
    (ghostAfter Cfg.repaired true sampleHistory).pen = true :=
  pen_survives_pause Cfg.repaired rfl true {} sampleHistory (by decide) (by decide)

set_option maxRecDepth 8000 in
/-- The sample history's pen is visible on the terminal after two pause/resume cycles (bold, palette 200). -/
example : (vtAfter Cfg.repaired false {} sampleHistory).attrs .bold = 1 ∧
    (vtAfter Cfg.repaired false {} sampleHistory).attrs .fg = 200 := by decide

/-- The partial theorem is not vacuous on the tree as found: pens with pause/resume are fine as long as the
    pen cached at resume is a default one. -/
example : PenTriggerFree ⟨false, false, false, false, false⟩ false
    [.setpen (fun a => if a = .bold then some 1 else none), .setpen PenMap.empty, .pause, .resume,
     .setpen (fun a => if a = .bold then some 1 else none)] := by decide

/-! ### RGB8 colours across pause/resume -/

/-- **resume_reestablishes_pen.** A pause/resume cycle appended to a history that left the terminal running
    ends with the terminal rendering the pen asked for before the pause - RGB8 refinements included: resume
    re-establishes the logical pen, and that is what later drawing is rendered with. -/
theorem resume_reestablishes_pen (cfg : Cfg) (hr : cfg.resumeResendsPen = true) (toplevel : Bool) (m0 : VModes)
    (ops : List Op) (hv : validFrom .running ops = some .running) (hck : CapKept cfg toplevel ops) :
    penShown (sysAfter cfg toplevel (ops ++ [.pause, .resume])).term.drv.rgbOn
      (vtAfter cfg toplevel m0 (ops ++ [.pause, .resume])).attrs (ghostAfter cfg toplevel ops).pen = true := by
  have hv' : validFrom .running (ops ++ [.pause, .resume]) = some .running := by
    rw [validFrom_append, hv]; rfl
  have h := pen_survives_pause cfg hr toplevel m0 _ hv' (capKeptRun_append_pause_resume cfg ops _ hck)
  have hg : ghostAfter cfg toplevel (ops ++ [.pause, .resume]) = ghostAfter cfg toplevel ops := by
    unfold ghostAfter; rw [ghostRun_append]; rfl
  rwa [hg] at h

def fgPen (v : Int) : PenMap := fun a => if a = .fg then some v else none

/-- The terminal reports 24-bit colours; the program draws with palette colour 5 refined to `#112233`, pauses
    and resumes. -/
def rgbHistory : List Op :=
  [.replySgr true true, .setpen (fgPen (rgbEnc 5 0x11 0x22 0x33)), .print [104], .pause, .resume]

/-- … then replaces the colour by the plain palette colour 5, and pauses and resumes again. -/
def rgbDroppedHistory : List Op := rgbHistory ++ [.setpen (fgPen 5), .pause, .resume]

set_option maxRecDepth 20000 in
example : validFrom .running rgbDroppedHistory = some .running ∧ CapKept Cfg.repaired false rgbDroppedHistory := by decide

set_option maxRecDepth 20000 in
/-- The theorem is about something: after the first cycle the terminal renders the 24-bit colour, after the
    second the palette colour that replaced it (not the stale 24-bit one). -/
example : (vtAfter Cfg.repaired false {} rgbHistory).attrs .fg = rgbCode 0x11 0x22 0x33 ∧
    (vtAfter Cfg.repaired false {} rgbDroppedHistory).attrs .fg = 5 := by decide

set_option maxRecDepth 20000 in
example : penShown (sysAfter Cfg.repaired false rgbDroppedHistory).term.drv.rgbOn
    (vtAfter Cfg.repaired false {} rgbDroppedHistory).attrs (ghostAfter Cfg.repaired false rgbDroppedHistory).pen = true :=
  pen_survives_pause Cfg.repaired rfl false {} rgbDroppedHistory (by decide) (by decide)

set_option maxRecDepth 20000 in
/-- Without the capability the same pen is rendered with its palette index, before and after the cycle. -/
example : (vtAfter Cfg.repaired false {} (rgbHistory.drop 1)).attrs .fg = 5 := by decide

set_option maxRecDepth 20000 in
/-- `CapKept` excludes exactly this: the capability is forced on while an RGB8 colour is in use; the terminal
    goes on rendering the palette index the colour was sent as. -/
example : ¬ CapKept Cfg.repaired false [.setpen (fgPen (rgbEnc 5 0x11 0x22 0x33)), .ctl (some .capRgb8) 1] ∧
    CapKept Cfg.repaired false [.ctl (some .capRgb8) 1, .setpen (fgPen (rgbEnc 5 0x11 0x22 0x33)), .ctl (some .capRgb8) 1] := by
  decide

/-! ### the output buffer: pause, teardown and destruction leave nothing pending -/

/-- The bytes that have reached the output function after building a terminal with an output buffer of `cap`
    bytes (`0`: none) and performing `ops` (the start-up queries are written before the buffer exists). -/
def deliveredAfter (cfg : Cfg) (toplevel : Bool) (cap : Nat) (ops : List Op) : Out :=
  (Sys.build toplevel).2 ++ (Sys.runB cfg (Sys.build toplevel).1 { cap := cap } ops).2.2

/-- **nothing_pending_after_pause.** Whatever the size of the output buffer: when the last call of a history
    inside the contract that ends paused or torn down returns, the buffer is empty and every byte written so
    far has reached the output function. -/
theorem nothing_pending_after_pause (cfg : Cfg) (toplevel : Bool) (cap : Nat) (ops : List Op) (ph : Phase)
    (hv : validFrom .running ops = some ph) (hne : ph ≠ .running) :
    (Sys.runB cfg (Sys.build toplevel).1 { cap := cap } ops).2.1.pend = [] ∧
    deliveredAfter cfg toplevel cap ops = (Sys.build toplevel).2 ++ (Sys.run cfg (Sys.build toplevel).1 ops).2 := by
  obtain ⟨h1, h2⟩ := runB_nothing_pending cfg ops ph (Sys.build toplevel).1 cap hv hne
  exact ⟨h1, by unfold deliveredAfter; rw [h2]⟩

/-- **teardown_restores_buffered.** … so the terminal, reading only what has been delivered at that moment, is
    back in the modes it started in with the default rendition. -/
theorem teardown_restores_buffered (cfg : Cfg) (hk : cfg.keypadRecorded = true) (hr : cfg.repliesGuarded = true) (hq : cfg.rgb8Guarded = true)
    (toplevel : Bool) (m0 : VModes) (cap : Nat) (ops : List Op) (ph : Phase) (hm0 : m0.standard = true)
    (hv : validFrom .running ops = some ph) (hne : ph ≠ .running) :
    restoredOk (VT.feed ⟨.ground, m0, Attrs.default⟩ (deliveredAfter cfg toplevel cap ops)) m0 = true := by
  rw [(nothing_pending_after_pause cfg toplevel cap ops ph hv hne).2, feed_append]
  exact (teardown_restores cfg hk hr hq toplevel m0 ops ph hm0 hv).1 hne

theorem teardown_restores_buffered_partial (cfg : Cfg) (toplevel : Bool) (m0 : VModes) (cap : Nat) (ops : List Op) (ph : Phase)
    (hm0 : m0.standard = true) (hv : validFrom .running ops = some ph) (hne : ph ≠ .running)
    (hnt : TriggerFree cfg toplevel ops) :
    restoredOk (VT.feed ⟨.ground, m0, Attrs.default⟩ (deliveredAfter cfg toplevel cap ops)) m0 = true := by
  rw [(nothing_pending_after_pause cfg toplevel cap ops ph hv hne).2, feed_append]
  exact (teardown_restores_partial cfg toplevel m0 ops ph hm0 hv hnt).1 hne

/-- Destruction (of the terminal, or of the toplevel instance while `extra` other holders keep the terminal)
    ends with a flush: nothing stays in the buffer, whatever it held. -/
theorem destruction_leaves_nothing_pending (b : OBuf) (s : Sys) (extra : Nat) :
    (b.call (s.dropOwner extra).2 true).1.pend = [] ∧ (b.call (s.dropOwner extra).2 true).2 = b.pend ++ (s.dropOwner extra).2 :=
  (OBuf.call_stream b _ true).2.2 rfl

/-- Non-vacuity: with a buffer of 8 bytes, a mode setting stays in the buffer; pause delivers it together with
    the resets. -/
example : (Sys.runB Cfg.repaired (Sys.build false).1 { cap := 8 } [.ctl (some .cursorvis) 0]).2.1.pend = visOff ∧
    (Sys.runB Cfg.repaired (Sys.build false).1 { cap := 8 } [.ctl (some .cursorvis) 0, .pause]).2.2 = visOff ++ visOn ++ sgrReset ∧
    (Sys.runB Cfg.repaired (Sys.build false).1 { cap := 8 } [.ctl (some .cursorvis) 0, .pause]).2.1.pend = [] := by decide

/-! ### a terminal shared between the toplevel instance and another holder -/

/-- **destroy_shared_restores.** Destroying the toplevel instance restores the terminal whether or not the
    terminal object survives it (`extra` references held by others): the bytes are those of the exclusive case. -/
theorem destroy_shared_restores_partial (cfg : Cfg) (m0 : VModes) (ops : List Op) (ph : Phase) (extra : Nat)
    (hm0 : m0.standard = true) (hv : validFrom .running ops = some ph) (hnt : TriggerFree cfg true ops) :
    restoredOk (VT.feed (vtAfter cfg true m0 ops) ((sysAfter cfg true ops).dropOwner extra).2) m0 = true := by
  have ht : (sysAfter cfg true ops).top.isSome = true := by
    unfold sysAfter; rw [run_top]; rfl
  rw [dropOwner_top _ extra ht]
  exact (teardown_restores_partial cfg true m0 ops ph hm0 hv hnt).2

theorem destroy_shared_restores (cfg : Cfg) (hk : cfg.keypadRecorded = true) (hr : cfg.repliesGuarded = true) (hq : cfg.rgb8Guarded = true)
    (m0 : VModes) (ops : List Op) (ph : Phase) (extra : Nat) (hm0 : m0.standard = true)
    (hv : validFrom .running ops = some ph) :
    restoredOk (VT.feed (vtAfter cfg true m0 ops) ((sysAfter cfg true ops).dropOwner extra).2) m0 = true :=
  destroy_shared_restores_partial cfg m0 ops ph extra hm0 hv (triggerFree_of_repaired cfg hk hr hq true ops)

/-- The terminal that survives is torn down; dropping its last reference later writes nothing more. -/
theorem shared_terminal_left_torn_down (cfg : Cfg) (ops : List Op) (extra : Nat) (left : Sys)
    (h : ((sysAfter cfg true ops).dropOwner extra).1 = some left) :
    left.term.state = .unstarted ∧ left.destroy = [] ∧ left.top = none :=
  dropOwner_left _ extra (by unfold sysAfter; rw [run_top]; rfl) left h

set_option maxRecDepth 8000 in
/-- Non-vacuity: after the setup the shared terminal is in the alternate screen with mouse reporting, and
    destroying the instance while one other reference exists leaves a terminal object (torn down). -/
example : (vtAfter Cfg.repaired true {} [.tick false]).modes.altscreen = true ∧
    (vtAfter Cfg.repaired true {} [.tick false]).modes.mouse = 1002 ∧
    (((sysAfter Cfg.repaired true [.tick false]).dropOwner 1).1.map fun l => l.term.state) = some .unstarted ∧
    ((sysAfter Cfg.repaired true [.tick false]).dropOwner 0).1.isNone = true := by decide

/-! ### a control set before the terminal's reply to the start-up query arrives -/

/-- **shape_survives_late_reply.** Whatever the driver knows about the terminal so far (in particular before
    it has learnt that the terminal has DECSCUSR at all): a cursor shape the program sets is what the control
    reads after the terminal's DECSCUSR report has arrived. -/
theorem shape_survives_late_reply (cfg : Cfg) (hr : cfg.repliesGuarded = true) (d : XDrv) (v r : Int)
    (hv : 0 ≤ v ∧ v ≤ 3) :
    getctlInt (onDecrqssShape cfg (setctlInt cfg d (some .cursorshape) v).1 r) (some .cursorshape) = some v := by
  have hw : ModeLayout.w_mode_cursorshape = 2 ∧ ModeLayout.w_initialised_cursorshape = 2 := by decide
  have h1 : wrapU 2 1 = 1 := by decide
  have h2 : ((wrapU 2 v : Nat) : Int) = v := by
    rcases (by omega : v = 0 ∨ v = 1 ∨ v = 2 ∨ v = 3) with rfl | rfl | rfl | rfl <;> decide
  unfold setctlInt
  simp only [hr, hw.1, hw.2, if_true]
  split
  · rename_i hc
    simp [getctlInt, onDecrqssShape, hr, hc.1, hc.2]
  · simp [getctlInt, onDecrqssShape, hr, h1, h2]

/-- Non-vacuity, as a history: shape 2 is set before any reply, then the terminal reports shape 1 (and that it
    blinks); the control still reads 2. -/
example : getctlInt (sysAfter Cfg.repaired false [.ctl (some .cursorshape) 2, .replyShape 1, .replyMode 12 1]).term.drv
    (some .cursorshape) = some 2 ∧
    validFrom .running [.ctl (some .cursorshape) 2, .replyShape 1, .replyMode 12 1] = some .running := by decide

/-! ### the mode state at hand-over as a parameter: a terminal handed over with its cursor hidden -/

/-- **handover_restores** (full statement; proved at the end of this file: `handover_restores`,
    `handover_restores_history_partial`; `handover_restores_partial` is the earlier per-ending form).  The mode
    state the terminal is handed over in is a parameter of the history, not a constant: for every such state
    (`VModes.handover`: cursor visible or hidden), every history inside the contract whose replies are those of
    that terminal and which leaves cursor visibility alone when the cursor was handed over hidden
    (`handoverOk`), the terminal reading the whole stream is back in *that* state after pause / teardown, and
    after destruction. -/
def HandoverRestores (cfg : Cfg) : Prop :=
  ∀ (toplevel : Bool) (m0 : VModes) (ops : List Op) (ph : Phase), m0.handover = true →
    validFrom .running ops = some ph → ops.all (handoverOk m0) = true →
    (ph ≠ .running → restoredOk (vtAfter cfg toplevel m0 ops) m0 = true) ∧
    restoredOk (VT.feed (vtAfter cfg toplevel m0 ops) (sysAfter cfg toplevel ops).destroy) m0 = true

/-- A DECRPM reply for mode 25 other than "set" leaves the driver's shadow alone. -/
theorem modereport_reset_keeps_shadow (cfg : Cfg) (d : XDrv) (v : Int) (hv : v ≠ 1) :
    (onModereport cfg d 25 v).mode = d.mode := by
  simp [onModereport, hv]

/-- What the driver's shadow says while the program leaves cursor visibility alone. -/
structure VisUntouched (d : XDrv) : Prop where
  vis : d.mode.cursorvis = 1
  mouse : d.mode.mouse ≤ 3

theorem wrapU_mouse_le (v : Int) : wrapU ModeLayout.w_mode_mouse v ≤ 3 := by
  have hw : ModeLayout.w_mode_mouse = 2 := by decide
  unfold wrapU
  rw [hw]
  have h1 := Int.emod_lt_of_pos v (show (0 : Int) < 2 ^ 2 by decide)
  have h2 := Int.emod_nonneg v (show ((2 : Int) ^ 2) ≠ 0 by decide)
  omega

theorem applyReply_untouched (cfg : Cfg) (d : XDrv) (r : Reply) (h : VisUntouched d) : VisUntouched (applyReply cfg d r) := by
  obtain ⟨hv, hm⟩ := h
  cases r with
  | mode m v =>
    simp only [applyReply, onModereport]
    have hw : wrapU ModeLayout.w_mode_cursorvis 1 = 1 := by decide
    split
    · constructor <;> (simp only []; split <;> simp_all)
    · split
      · constructor <;> (simp only []; split <;> simp_all)
      · split
        · exact ⟨hv, hm⟩
        · exact ⟨hv, hm⟩
  | shape v => exact ⟨hv, hm⟩
  | sgr c r => exact ⟨hv, hm⟩

theorem foldl_untouched (cfg : Cfg) : ∀ (rs : List Reply) (d : XDrv), VisUntouched d → VisUntouched (rs.foldl (applyReply cfg) d)
  | [], _, h => h
  | r :: rs, d, h => foldl_untouched cfg rs _ (applyReply_untouched cfg d r h)

theorem setctl_untouched (cfg : Cfg) (d : XDrv) (c : Option Ctl) (v : Int) (hc : c ≠ some .cursorvis)
    (h : VisUntouched d) : VisUntouched (setctlInt cfg d c v).1 := by
  obtain ⟨hv, hm⟩ := h
  have hmw := wrapU_mouse_le v
  cases c with
  | none => exact ⟨hv, hm⟩
  | some c =>
    cases c <;> simp only [setctlInt] <;> first
      | exact absurd rfl hc
      | exact ⟨hv, hm⟩
      | (split <;> first | exact ⟨hv, hm⟩ | (constructor <;> (split <;> simp_all)) | (constructor <;> simp_all))
      | (constructor <;> simp_all)

theorem step_untouched (cfg : Cfg) (s : Sys) (op : Op) (ht : touchesVis op = false) (h : VisUntouched s.term.drv) :
    VisUntouched (s.step cfg op).sys.term.drv := by
  cases op with
  | ctl c v =>
    have hc : c ≠ some .cursorvis := by intro e; subst e; simp [touchesVis] at ht
    exact setctl_untouched cfg _ c v hc h
  | replyMode m v =>
    simp only [Sys.step, Term.reply]; split
    · exact foldl_untouched cfg _ _ h
    · exact h
  | replyShape v =>
    simp only [Sys.step, Term.reply]; split
    · exact foldl_untouched cfg _ _ h
    · exact h
  | replySgr c r =>
    simp only [Sys.step, Term.reply]; split
    · exact foldl_untouched cfg _ _ h
    · exact h
  | setpen p => exact h
  | chpen p => exact h
  | setstr c p => exact h
  | print b => exact h
  | clear => exact h
  | flush => exact h
  | await m => simp only [Sys.step, Term.await]; split <;> exact h
  | pause => exact h
  | resume => exact h
  | teardown => simp only [Sys.step, Term.teardown]; split <;> exact h
  | tick nosetup =>
    have hn : nosetup = true := by simpa [touchesVis] using ht
    subst hn
    simp only [Sys.step]; split
    · exact h
    · simp; exact h
  | usealt v => simp only [Sys.step]; split <;> exact h

/-- **the shadow is not the hand-over state.**  As long as the program leaves cursor visibility alone, the
    driver's shadow keeps saying "visible", whatever the terminal replies. -/
theorem run_untouched (cfg : Cfg) : ∀ (ops : List Op) (s : Sys), ops.all (fun op => !touchesVis op) = true →
    VisUntouched s.term.drv → VisUntouched (Sys.run cfg s ops).1.term.drv
  | [], _, _, h => h
  | op :: rest, s, ht, h => by
    simp only [List.all_cons, Bool.and_eq_true, Bool.not_eq_true'] at ht
    exact run_untouched cfg rest _ ht.2 (step_untouched cfg s op ht.1 h)

theorem build_untouched (toplevel : Bool) : VisUntouched (Sys.build toplevel).1.term.drv := ⟨rfl, by cases toplevel <;> decide⟩

/-- On a terminal handed over with a hidden cursor, the contract makes every operation leave visibility alone. -/
theorem handoverOk_hidden (m0 : VModes) (h0 : m0.cursorVisible = false) (ops : List Op)
    (h : ops.all (handoverOk m0) = true) : ops.all (fun op => !touchesVis op) = true := by
  rw [List.all_eq_true] at h ⊢
  intro op hop
  have := h op hop
  simp [handoverOk, h0] at this
  simp [this.2]

/-- **handover_restores_partial.**  A terminal handed over with its cursor hidden, any history inside the hand-over
    contract (any replies, at any time): the bytes of pause, of teardown, of destruction and of the driver's resume
    leave the cursor visibility of a terminal that reads them as it is - "only modes the library switched on are
    switched back". -/
theorem handover_restores_partial (cfg : Cfg) (toplevel : Bool) (m0 : VModes) (ops : List Op)
    (h0 : m0.cursorVisible = false) (hok : ops.all (handoverOk m0) = true) (m : VModes) (A : Attrs) :
    let s := sysAfter cfg toplevel ops
    (VT.feed ⟨.ground, m, A⟩ (Term.pause s.term).2).modes.cursorVisible = m.cursorVisible ∧
    (VT.feed ⟨.ground, m, A⟩ (Term.teardown s.term).2).modes.cursorVisible = m.cursorVisible ∧
    (VT.feed ⟨.ground, m, A⟩ s.destroy).modes.cursorVisible = m.cursorVisible ∧
    (VT.feed ⟨.ground, m, A⟩ (drvResume (Term.pause s.term).1.drv)).modes.cursorVisible = m.cursorVisible := by
  intro s
  have hu : VisUntouched s.term.drv :=
    run_untouched cfg ops _ (handoverOk_hidden m0 h0 ops hok) (build_untouched toplevel)
  obtain ⟨hv, hm⟩ := hu
  have hT : ∀ m A, (VT.feed ⟨.ground, m, A⟩ (drvTeardown s.term.drv)).modes.cursorVisible = m.cursorVisible := by
    intro m A; rw [feed_drvTeardown _ _ _ hm]; simp [hv]
  have hTd : (VT.feed ⟨.ground, m, A⟩ (Term.teardown s.term).2).modes.cursorVisible = m.cursorVisible := by
    simp only [Term.teardown]; split
    · exact hT m A
    · rfl
  refine ⟨hT m A, hTd, ?_, ?_⟩
  · show (VT.feed ⟨.ground, m, A⟩ ((Term.teardown s.term).2 ++ (Term.teardown (Term.teardown s.term).1).2)).modes.cursorVisible = _
    rw [(Term.teardown_twice s.term).1, List.append_nil]; exact hTd
  · show (VT.feed ⟨.ground, m, A⟩ (drvResume s.term.drv)).modes.cursorVisible = _
    rw [feed_drvResume _ _ _ hm]; simp [hv]

/-- A terminal handed over with its cursor hidden (blink, shape arbitrary). -/
def hiddenM0 : VModes := { cursorVisible := false }

/-- The terminal says so, the program switches other modes on, pauses, resumes, tears down, is destroyed. -/
def hiddenHistory : List Op :=
  [.replyMode 25 2, .ctl (some .altscreen) 1, .ctl (some .mouse) 2, .pause, .resume, .teardown]

set_option maxRecDepth 8000 in
/-- Non-vacuity, and the whole statement on a concrete history of the working tree: inside the contract, and the
    terminal that reads the whole stream ends hidden, as it started - after the pause, after the teardown and
    after destruction. -/
theorem handover_restores_example :
    hiddenM0.handover = true ∧ validFrom .running hiddenHistory = some .stopped ∧
    hiddenHistory.all (handoverOk hiddenM0) = true ∧
    restoredOk (vtAfter Cfg.tree false hiddenM0 (hiddenHistory.take 4)) hiddenM0 = true ∧
    restoredOk (vtAfter Cfg.tree false hiddenM0 hiddenHistory) hiddenM0 = true ∧
    restoredOk (VT.feed (vtAfter Cfg.tree false hiddenM0 hiddenHistory) (sysAfter Cfg.tree false hiddenHistory).destroy) hiddenM0 = true := by
  decide

set_option maxRecDepth 8000 in
/-- The contract clause is necessary: the shadow has one bit and no record of the hand-over state, so a program
    that hides the (already hidden) cursor through the control gets it shown by destruction - whatever the
    repairs. -/
theorem handover_hide_not_restored (k p u r q : Bool) :
    restoredOk (VT.feed (vtAfter ⟨k, p, u, r, q⟩ false hiddenM0 [.ctl (some .cursorvis) 0])
      (sysAfter ⟨k, p, u, r, q⟩ false [.ctl (some .cursorvis) 0]).destroy) hiddenM0 = false := by
  cases k <;> cases p <;> cases u <;> cases r <;> cases q <;> decide

set_option maxRecDepth 8000 in
/-- … and one that asks for a visible cursor gets none: the driver takes the setting for redundant. -/
theorem handover_show_not_shown (k p u r q : Bool) :
    (vtAfter ⟨k, p, u, r, q⟩ false hiddenM0 [.ctl (some .cursorvis) 1]).modes.cursorVisible = false := by
  cases k <;> cases p <;> cases u <;> cases r <;> cases q <;> decide

/-! ## Operations between pause and resume (wide protocol `phaseNextW`)

  The property quantifies over control settings, pen changes and pause/resume cycles in any order: a program may go on
  setting controls and pens while the terminal is paused, and end without a resume.  What it switched on then is on
  the terminal; teardown / destruction has to switch it back, resume has to re-establish the values last set. -/

/-- Whatever listed mode is on at the terminal is recorded as on in the driver's shadow (so that `stop` / `pause`
    will switch it off).  Holds while running (`Shown`), after pause (`Off`) and - unlike those - also while the
    program goes on setting controls between pause and resume. -/
structure Covered (sh : Shadow) (m : VModes) : Prop where
  alt : m.altscreen = true → sh.altscreen ≠ 0
  vis : m.cursorVisible = false → sh.cursorvis = 0
  mouse : (m.mouse ≠ 0 ∨ m.sgrMouse = true) → sh.mouse ≠ 0
  keypad : m.keypadApp = true → sh.keypad ≠ 0

theorem covered_of_off (sh : Shadow) (m : VModes) (h : Off m) : Covered sh m := by
  obtain ⟨h1, h2, h3, h4, h5⟩ := h
  constructor <;> simp_all

theorem covered_of_shown (sh : Shadow) (m : VModes) (h : Shown sh m) : Covered sh m := by
  obtain ⟨h1, h2, h3, h4, h5⟩ := h
  constructor
  · intro h; simp_all
  · intro h; simp_all
  · intro h hz
    rw [hz] at h3 h4
    simp [modeForMouse] at h3
    rcases h with h | h
    · exact h h3
    · simp [h] at h4
  · intro h; simp_all

/-- `stop` / `pause` read by a terminal whose modes are covered by the shadow: every listed mode is off and the
    rendition is the default one - whatever was set, in whatever order, since the last pause. -/
theorem teardown_off_covered (d : XDrv) (m : VModes) (A : Attrs) (hm : d.mode.mouse ≤ 3) (h : Covered d.mode m) :
    ∃ m', VT.feed ⟨.ground, m, A⟩ (drvTeardown d) = ⟨.ground, m', Attrs.default⟩ ∧ Off m' := by
  refine ⟨_, feed_drvTeardown d m A hm, ?_⟩
  obtain ⟨h1, h2, h3, h4⟩ := h
  constructor
  · simp only; split
    · rfl
    · rename_i hz
      cases hb : m.altscreen
      · rfl
      · exact absurd (h1 hb) hz
  · simp only; split
    · rfl
    · rename_i hz
      cases hb : m.cursorVisible
      · exact absurd (h2 hb) hz
      · rfl
  · simp only; split
    · rfl
    · rename_i hz
      apply Classical.byContradiction
      intro hne
      exact hz (h3 (Or.inl hne))
  · simp only; split
    · rfl
    · rename_i hz
      cases hb : m.sgrMouse
      · rfl
      · exact absurd (h3 (Or.inr hb)) hz
  · simp only; split
    · rfl
    · rename_i hz
      cases hb : m.keypadApp
      · rfl
      · exact absurd (h4 hb) hz

/-- `resume` read by such a terminal: the listed modes show what the shadow holds. -/
theorem resume_shown_covered (d : XDrv) (m : VModes) (A : Attrs) (hm : d.mode.mouse ≤ 3) (h : Covered d.mode m) :
    ∃ m', VT.feed ⟨.ground, m, A⟩ (drvResume d) = ⟨.ground, m', A⟩ ∧ Shown d.mode m' := by
  refine ⟨_, feed_drvResume d m A hm, ?_⟩
  obtain ⟨h1, h2, h3, h4⟩ := h
  constructor
  · simp only; split
    · rename_i hz; simp [hz]
    · rename_i hz
      cases hb : m.altscreen
      · simp at hz; simp [hz]
      · exact absurd (h1 hb) hz
  · simp only; split
    · rename_i hz; simp [hz]
    · rename_i hz
      cases hb : m.cursorVisible
      · exact absurd (h2 hb) hz
      · simp [hz]
  · simp only; split
    · exact modeForMouse_toNat _
    · rename_i hz
      have hz' : d.mode.mouse = 0 := by omega
      have : m.mouse = 0 := by
        apply Classical.byContradiction
        intro hne
        exact hz (h3 (Or.inl hne))
      rw [hz', this]; simp [modeForMouse]
  · simp only; split
    · rename_i hz; simp [hz]
    · rename_i hz
      cases hb : m.sgrMouse
      · simp at hz; simp [hz]
      · exact absurd (h3 (Or.inr hb)) hz
  · simp only; split
    · rename_i hz; simp [hz]
    · rename_i hz
      cases hb : m.keypadApp
      · simp at hz; simp [hz]
      · exact absurd (h4 hb) hz

/-- `setctl_int` keeps the terminal covered by the shadow - in any phase, in particular between pause and resume. -/
theorem setctl_covered (cfg : Cfg) (d : XDrv) (c : Option Ctl) (v : Int) (m : VModes) (A : Attrs)
    (hc : Covered d.mode m) (hm : d.mode.mouse ≤ 3)
    (hkz : cfg.keypadRecorded = false → d.mode.keypad = 0)
    (hmouse : c = some .mouse → 0 ≤ v ∧ v ≤ 3)
    (hkp : c = some .keypadApp → cfg.keypadRecorded = true ∨ v = 0) :
    ∃ m', VT.feed ⟨.ground, m, A⟩ (setctlInt cfg d c v).2.1 = ⟨.ground, m', A⟩ ∧
      Covered (setctlInt cfg d c v).1.mode m' ∧ (setctlInt cfg d c v).1.mode.mouse ≤ 3 ∧
      (cfg.keypadRecorded = false → (setctlInt cfg d c v).1.mode.keypad = 0) := by
  obtain ⟨halt, hvis, hmo, hkey⟩ := hc
  have same : ∃ m', VT.feed ⟨.ground, m, A⟩ ([] : List Nat) = ⟨.ground, m', A⟩ ∧ Covered d.mode m' ∧ d.mode.mouse ≤ 3 ∧
      (cfg.keypadRecorded = false → d.mode.keypad = 0) := ⟨m, rfl, ⟨halt, hvis, hmo, hkey⟩, hm, hkz⟩
  cases c with
  | none => exact same
  | some c =>
    cases c
    case altscreen =>
      unfold setctlInt
      simp only
      split
      · exact same
      · by_cases hv : v = 0
        · subst hv
          refine ⟨{ m with altscreen := false }, ?_, ?_, hm, hkz⟩
          · simp [feed_altOff]
          · exact ⟨by simp, hvis, hmo, hkey⟩
        · refine ⟨{ m with altscreen := true }, ?_, ?_, hm, hkz⟩
          · simp [hv, feed_altOn]
          · exact ⟨by simp [ModeLayout.w_mode_altscreen, wrapU1_bool, hv], hvis, hmo, hkey⟩
    case cursorvis =>
      unfold setctlInt
      simp only
      split
      · exact same
      · by_cases hv : v = 0
        · subst hv
          refine ⟨{ m with cursorVisible := false }, ?_, ?_, hm, hkz⟩
          · simp [feed_visOff]
          · exact ⟨halt, by simp [ModeLayout.w_mode_cursorvis, wrapU1_bool], hmo, hkey⟩
        · refine ⟨{ m with cursorVisible := true }, ?_, ?_, hm, hkz⟩
          · simp [hv, feed_visOn]
          · exact ⟨halt, by simp, hmo, hkey⟩
    case cursorblink =>
      unfold setctlInt
      simp only
      split
      · exact same
      · by_cases hv : v = 0
        · subst hv
          exact ⟨{ m with cursorBlink := false }, by simp [feed_blinkOff], ⟨halt, hvis, hmo, hkey⟩, hm, hkz⟩
        · exact ⟨{ m with cursorBlink := true }, by simp [hv, feed_blinkOn], ⟨halt, hvis, hmo, hkey⟩, hm, hkz⟩
    case mouse =>
      have hv := hmouse rfl
      unfold setctlInt
      simp only
      split
      · exact same
      · rename_i hne
        by_cases hv0 : v = 0
        · subst hv0
          have hk : 1 ≤ d.mode.mouse ∧ d.mode.mouse ≤ 3 := by omega
          refine ⟨{ m with mouse := 0, sgrMouse := false }, ?_, ?_, ?_, hkz⟩
          · simp [feed_mouseOff _ _ _ hk]
          · exact ⟨halt, hvis, by simp, hkey⟩
          · simp [ModeLayout.w_mode_mouse, wrapU]
        · obtain ⟨k, rfl⟩ : ∃ k : Nat, v = k := ⟨v.toNat, by omega⟩
          have hk : 1 ≤ k ∧ k ≤ 3 := by omega
          have hw : wrapU ModeLayout.w_mode_mouse (k : Int) = k := by
            rw [show ModeLayout.w_mode_mouse = 2 from rfl, wrapU2_small _ (by omega)]; simp
          refine ⟨{ m with mouse := (modeForMouse k).toNat, sgrMouse := true }, ?_, ?_, ?_, hkz⟩
          · have hk0 : k ≠ 0 := by omega
            simp [hk0, feed_mouseOn _ _ _ hk]
          · refine ⟨halt, hvis, ?_, hkey⟩
            intro _
            simp only [hw]; omega
          · simp only [hw]; omega
    case cursorshape =>
      unfold setctlInt
      simp only
      split
      · exact same
      · by_cases hc : d.cap.cursorshape ≠ 0
        · obtain ⟨sh, bl, hf⟩ := feed_shapeSeq m A (v * 2 + (if d.mode.cursorblink ≠ 0 then -1 else 0))
          exact ⟨{ m with cursorShape := sh, cursorBlink := bl }, by simp only [if_pos hc]; exact hf, ⟨halt, hvis, hmo, hkey⟩, hm, hkz⟩
        · exact ⟨m, by simp only [if_neg hc]; rfl, ⟨halt, hvis, hmo, hkey⟩, hm, hkz⟩
    case keypadApp =>
      unfold setctlInt
      simp only
      split
      · exact same
      · rename_i hne
        by_cases hrec : cfg.keypadRecorded = true
        · simp only [hrec, if_true]
          by_cases hv : v = 0
          · subst hv
            refine ⟨{ m with keypadApp := false }, ?_, ?_, hm, by simp⟩
            · simp [feed_keypadOff]
            · exact ⟨halt, hvis, hmo, by simp⟩
          · refine ⟨{ m with keypadApp := true }, ?_, ?_, hm, by simp⟩
            · simp [hv, feed_keypadOn]
            · exact ⟨halt, hvis, hmo, by simp [ModeLayout.w_mode_keypad, wrapU1_bool, hv]⟩
        · have hrf : cfg.keypadRecorded = false := by simpa using hrec
          have hz := hkz hrf
          rcases hkp rfl with h | hv0
          · simp [hrf] at h
          · subst hv0
            simp [hz] at hne
    all_goals exact same

/-- The clause for settings made while paused: the terminal has been paused (its listed modes are off), the program
    sets any control to any admissible value, and the terminal is torn down / destroyed without a resume: every
    listed mode is off again and the rendition is the default one. -/
theorem paused_setctl_teardown_restores (cfg : Cfg) (hk : cfg.keypadRecorded = true) (d : XDrv) (c : Option Ctl) (v : Int)
    (m : VModes) (A : Attrs) (hoff : Off m) (hm : d.mode.mouse ≤ 3) (hmouse : c = some .mouse → 0 ≤ v ∧ v ≤ 3) :
    ∃ m', VT.feed ⟨.ground, m, A⟩ ((setctlInt cfg d c v).2.1 ++ drvTeardown (setctlInt cfg d c v).1) = ⟨.ground, m', Attrs.default⟩ ∧ Off m' := by
  obtain ⟨m1, hf, hc, hm1, _⟩ := setctl_covered cfg d c v m A (covered_of_off d.mode m hoff) hm (by simp [hk]) hmouse (fun _ => Or.inl hk)
  obtain ⟨m2, hf2, ho⟩ := teardown_off_covered _ m1 A hm1 hc
  exact ⟨m2, by rw [feed_append, hf, hf2], ho⟩


/-- Any number of control settings, one after the other (what a program does between pause and the end). -/
def setctls (cfg : Cfg) (d : XDrv) : List (Option Ctl × Int) → XDrv × Out
  | [] => (d, [])
  | cv :: rest => ((setctls cfg (setctlInt cfg d cv.1 cv.2).1 rest).1,
                   (setctlInt cfg d cv.1 cv.2).2.1 ++ (setctls cfg (setctlInt cfg d cv.1 cv.2).1 rest).2)

theorem setctls_covered (cfg : Cfg) (hk : cfg.keypadRecorded = true) : ∀ (cs : List (Option Ctl × Int)) (d : XDrv) (m : VModes) (A : Attrs),
    Covered d.mode m → d.mode.mouse ≤ 3 → (∀ cv ∈ cs, cv.1 = some .mouse → 0 ≤ cv.2 ∧ cv.2 ≤ 3) →
    ∃ m', VT.feed ⟨.ground, m, A⟩ (setctls cfg d cs).2 = ⟨.ground, m', A⟩ ∧
      Covered (setctls cfg d cs).1.mode m' ∧ (setctls cfg d cs).1.mode.mouse ≤ 3
  | [], d, m, A, hc, hm, _ => ⟨m, rfl, hc, hm⟩
  | cv :: rest, d, m, A, hc, hm, hv => by
    obtain ⟨m1, hf, hc1, hm1, _⟩ := setctl_covered cfg d cv.1 cv.2 m A hc hm (by simp [hk]) (hv cv (by simp)) (fun _ => Or.inl hk)
    obtain ⟨m2, hf2, hc2, hm2⟩ := setctls_covered cfg hk rest _ m1 A hc1 hm1 (fun x hx => hv x (by simp [hx]))
    exact ⟨m2, by simp only [setctls]; rw [feed_append, hf, hf2], hc2, hm2⟩

/-- The clause the property states for settings made while paused, over all such histories: the terminal is
    paused (its listed modes are off; any rendition), the program sets any controls to any admissible values in any
    order, any number of times, and the terminal is then stopped (teardown / destruction) without a resume: the
    terminal reading all those bytes has every listed mode off and renders with the default rendition. -/
theorem paused_settings_teardown_restores (cfg : Cfg) (hk : cfg.keypadRecorded = true) (cs : List (Option Ctl × Int))
    (d : XDrv) (m : VModes) (A : Attrs) (hoff : Off m) (hm : d.mode.mouse ≤ 3)
    (hv : ∀ cv ∈ cs, cv.1 = some .mouse → 0 ≤ cv.2 ∧ cv.2 ≤ 3) :
    ∃ m', VT.feed ⟨.ground, m, A⟩ ((setctls cfg d cs).2 ++ drvTeardown (setctls cfg d cs).1) = ⟨.ground, m', Attrs.default⟩ ∧ Off m' := by
  obtain ⟨m1, hf, hc, hm1⟩ := setctls_covered cfg hk cs d m A (covered_of_off d.mode m hoff) hm hv
  obtain ⟨m2, hf2, ho⟩ := teardown_off_covered _ m1 A hm1 hc
  exact ⟨m2, by rw [feed_append, hf, hf2], ho⟩

/-- ... and resumed instead, the terminal shows exactly what the shadow (the values last set) holds. -/
theorem paused_settings_resume_shows (cfg : Cfg) (hk : cfg.keypadRecorded = true) (cs : List (Option Ctl × Int))
    (d : XDrv) (m : VModes) (A : Attrs) (hoff : Off m) (hm : d.mode.mouse ≤ 3)
    (hv : ∀ cv ∈ cs, cv.1 = some .mouse → 0 ≤ cv.2 ∧ cv.2 ≤ 3) :
    ∃ m', VT.feed ⟨.ground, m, A⟩ ((setctls cfg d cs).2 ++ drvResume (setctls cfg d cs).1) = ⟨.ground, m', A⟩ ∧
      Shown (setctls cfg d cs).1.mode m' := by
  obtain ⟨m1, hf, hc, hm1⟩ := setctls_covered cfg hk cs d m A (covered_of_off d.mode m hoff) hm hv
  obtain ⟨m2, hf2, ho⟩ := resume_shown_covered _ m1 A hm1 hc
  exact ⟨m2, by rw [feed_append, hf, hf2], ho⟩

-- non-vacuity: the settings do switch a mode on at the terminal before the stop
example : (VT.feed ⟨.ground, {}, Attrs.default⟩ (setctls Cfg.repaired {} [(some .mouse, 1), (some .altscreen, 1)]).2).modes.mouse = 1000 ∧
    (setctls Cfg.repaired {} [(some .mouse, 1), (some .altscreen, 1)]).1.mode.altscreen = 1 := by decide

/-- The wide protocol extends the documented one. -/
theorem phaseNextW_extends (ph ph' : Phase) (op : Op) (h : phaseNext ph op = some ph') :
    phaseNextW (PhaseW.ofPhase ph) op = some (PhaseW.ofPhase ph') := by
  cases ph <;> cases op <;> simp [phaseNext] at h <;> subst h <;> rfl

theorem validFromW_extends : ∀ (ops : List Op) (ph ph' : Phase), validFrom ph ops = some ph' →
    validFromW (PhaseW.ofPhase ph) ops = some (PhaseW.ofPhase ph')
  | [], ph, ph', h => by simp only [validFrom, Option.some.injEq] at h; subst h; rfl
  | op :: rest, ph, ph', h => by
    simp only [validFrom] at h
    simp only [validFromW]
    split at h
    · rename_i hok
      rw [if_pos hok]
      cases hp : phaseNext ph op with
      | none => simp [hp] at h
      | some p1 =>
        rw [hp] at h
        rw [phaseNextW_extends ph p1 op hp]
        exact validFromW_extends rest p1 ph' h
    · cases h

/-- The full clause over the wide protocol (operations between pause and resume admitted); proved below:
    `teardown_restores_w`, `teardown_restores_w_partial`. -/
def TeardownRestoresW (cfg : Cfg) : Prop :=
  ∀ (toplevel : Bool) (m0 : VModes) (ops : List Op) (ph : PhaseW), m0.standard = true →
    validFromW .running ops = some ph →
    ((ph = .paused ∨ ph = .stopped) → restoredOk (vtAfter cfg toplevel m0 ops) m0 = true) ∧
    restoredOk (VT.feed (vtAfter cfg toplevel m0 ops) (sysAfter cfg toplevel ops).destroy) m0 = true

/-- The demonstration histories: a control switched on / a pen changed and text drawn while paused, no resume. -/
def pausedMouseHistory : List Op := [.ctl (some .altscreen) 1, .ctl (some .cursorvis) 0, .pause, .ctl (some .mouse) 1]
def pausedPenHistory : List Op :=
  [.ctl (some .mouse) 2, .pause, .resume, .pause,
   .setpen (fun a => if a = .bold then some 1 else if a = .bg then some 4 else none), .print [91, 115, 93]]

example : validFrom .running pausedMouseHistory = none ∧ validFromW .running pausedMouseHistory = some .pausedOps := by decide
example : validFromW .running (pausedPenHistory ++ [.teardown]) = some .stopped := by decide
-- the mode is on / the pen in force before the ending ...
set_option maxRecDepth 16000 in
example : (vtAfter Cfg.repaired false {} pausedMouseHistory).modes.mouse = 1000 ∧
    (vtAfter Cfg.repaired false {} pausedPenHistory).attrs .bold = 1 ∧
    (vtAfter Cfg.repaired false {} pausedPenHistory).attrs .bg = 4 := by decide
-- ... and switched back by destruction / teardown
set_option maxRecDepth 16000 in
theorem paused_ops_restored_example :
    restoredOk (VT.feed (vtAfter Cfg.repaired false {} pausedMouseHistory) (sysAfter Cfg.repaired false pausedMouseHistory).destroy) {} = true ∧
    restoredOk (vtAfter Cfg.repaired false {} (pausedPenHistory ++ [.teardown])) {} = true ∧
    restoredOk (vtAfter Cfg.tree false {} (pausedPenHistory ++ [.teardown])) {} = true := by decide
-- resume after settings made while paused shows the values last set
set_option maxRecDepth 16000 in
example : modesShown (vtAfter Cfg.repaired false {} (pausedMouseHistory ++ [.ctl (some .altscreen) 0, .resume])).modes
    (ghostAfter Cfg.repaired false (pausedMouseHistory ++ [.ctl (some .altscreen) 0, .resume])) = true := by decide

/-! ## The two history-level statements, closed (`Proof/ModesW.lean`)

  `MInv` ("shown while running, off otherwise") does not survive operations between pause and resume, and its `Shown` /
  `Off` assume a visible start.  The invariant that does (`WInv`) carries `CovH v0`: every listed mode that is on at the
  terminal is on in the shadow, relative to the hand-over cursor visibility `v0` - kept by every operation in every
  phase of the wide protocol, by replies whenever libtermkey hands them on (also those buffered while it was stopped),
  and by the toplevel instance's setup run while paused. -/

theorem handover_of_standard (m0 : VModes) (h : m0.standard = true) : m0.handover = true ∧ m0.cursorVisible = true := by
  simp only [VModes.standard, Bool.and_eq_true, Bool.not_eq_true', beq_iff_eq] at h
  simp only [VModes.handover, Bool.and_eq_true, Bool.not_eq_true', beq_iff_eq]
  exact ⟨⟨⟨⟨h.1.1.1.1, h.1.1.2⟩, h.1.2⟩, h.2⟩, h.1.1.1.2⟩

/-- **teardown_restores_w_partial.**  `TeardownRestoresW` for every history that does not switch the application keypad
    on where the tree does not record it (`KeypadTriggerFree`; the RGB8 guard is not needed for restoration). -/
theorem teardown_restores_w_partial (cfg : Cfg) (hr : cfg.repliesGuarded = true) (toplevel : Bool) (m0 : VModes)
    (ops : List Op) (ph : PhaseW) (hm0 : m0.standard = true) (hv : validFromW .running ops = some ph)
    (hnt : KeypadTriggerFree cfg toplevel ops) :
    ((ph = .paused ∨ ph = .stopped) → restoredOk (vtAfter cfg toplevel m0 ops) m0 = true) ∧
    restoredOk (VT.feed (vtAfter cfg toplevel m0 ops) (sysAfter cfg toplevel ops).destroy) m0 = true := by
  obtain ⟨h1, h2⟩ := handover_of_standard m0 hm0
  exact restoresW cfg toplevel m0 ops ph h1 (fun _ => hr) hv hnt (fun hc => by rw [h2] at hc; cases hc)

/-- **teardown_restores_w** (the full statement): whatever the program does between pause and resume, or between pause
    and an ending without resume, pause / teardown / destruction leave the terminal in the modes it started in. -/
theorem teardown_restores_w (cfg : Cfg) (hk : cfg.keypadRecorded = true) (hr : cfg.repliesGuarded = true) :
    TeardownRestoresW cfg :=
  fun toplevel m0 ops ph hm0 hv =>
    teardown_restores_w_partial cfg hr toplevel m0 ops ph hm0 hv (noKeypadTrigger_of_recorded cfg hk ops _)

/-- The hand-over statement over the wide protocol: both generalisations at once. -/
def HandoverRestoresW (cfg : Cfg) : Prop :=
  ∀ (toplevel : Bool) (m0 : VModes) (ops : List Op) (ph : PhaseW), m0.handover = true →
    validFromW .running ops = some ph → ops.all (handoverOk m0) = true →
    ((ph = .paused ∨ ph = .stopped) → restoredOk (vtAfter cfg toplevel m0 ops) m0 = true) ∧
    restoredOk (VT.feed (vtAfter cfg toplevel m0 ops) (sysAfter cfg toplevel ops).destroy) m0 = true

theorem handover_restores_w_partial (cfg : Cfg) (hr : cfg.repliesGuarded = true) (toplevel : Bool) (m0 : VModes)
    (ops : List Op) (ph : PhaseW) (hm0 : m0.handover = true) (hv : validFromW .running ops = some ph)
    (hok : ops.all (handoverOk m0) = true) (hnt : KeypadTriggerFree cfg toplevel ops) :
    ((ph = .paused ∨ ph = .stopped) → restoredOk (vtAfter cfg toplevel m0 ops) m0 = true) ∧
    restoredOk (VT.feed (vtAfter cfg toplevel m0 ops) (sysAfter cfg toplevel ops).destroy) m0 = true :=
  restoresW cfg toplevel m0 ops ph hm0 (fun _ => hr) hv hnt (fun h0 => handoverOk_hidden m0 h0 ops hok)

theorem handover_restores_w (cfg : Cfg) (hk : cfg.keypadRecorded = true) (hr : cfg.repliesGuarded = true) :
    HandoverRestoresW cfg :=
  fun toplevel m0 ops ph hm0 hv hok =>
    handover_restores_w_partial cfg hr toplevel m0 ops ph hm0 hv hok (noKeypadTrigger_of_recorded cfg hk ops _)

/-- On a terminal handed over with its cursor hidden the reply guard is not needed either: whatever the terminal
    replies, the shadow keeps saying "visible". -/
theorem handover_hidden_restores_w (cfg : Cfg) (toplevel : Bool) (m0 : VModes) (ops : List Op) (ph : PhaseW)
    (hm0 : m0.handover = true) (h0 : m0.cursorVisible = false) (hv : validFromW .running ops = some ph)
    (hok : ops.all (handoverOk m0) = true) (hnt : KeypadTriggerFree cfg toplevel ops) :
    ((ph = .paused ∨ ph = .stopped) → restoredOk (vtAfter cfg toplevel m0 ops) m0 = true) ∧
    restoredOk (VT.feed (vtAfter cfg toplevel m0 ops) (sysAfter cfg toplevel ops).destroy) m0 = true :=
  restoresW cfg toplevel m0 ops ph hm0 (fun hc => by rw [h0] at hc; cases hc) hv hnt
    (fun h0 => handoverOk_hidden m0 h0 ops hok)

theorem phaseW_of_not_running (ph : Phase) (h : ph ≠ .running) : PhaseW.ofPhase ph = .paused ∨ PhaseW.ofPhase ph = .stopped := by
  cases ph
  · exact absurd rfl h
  · exact Or.inl rfl
  · exact Or.inr rfl

/-- **handover_restores_history_partial.**  `HandoverRestores` (history level, documented protocol) for every history
    that does not switch the application keypad on where the tree does not record it. -/
theorem handover_restores_history_partial (cfg : Cfg) (hr : cfg.repliesGuarded = true) (toplevel : Bool) (m0 : VModes)
    (ops : List Op) (ph : Phase) (hm0 : m0.handover = true) (hv : validFrom .running ops = some ph)
    (hok : ops.all (handoverOk m0) = true) (hnt : KeypadTriggerFree cfg toplevel ops) :
    (ph ≠ .running → restoredOk (vtAfter cfg toplevel m0 ops) m0 = true) ∧
    restoredOk (VT.feed (vtAfter cfg toplevel m0 ops) (sysAfter cfg toplevel ops).destroy) m0 = true := by
  have h := handover_restores_w_partial cfg hr toplevel m0 ops (PhaseW.ofPhase ph) hm0
    (validFromW_extends ops .running ph hv) hok hnt
  exact ⟨fun hne => h.1 (phaseW_of_not_running ph hne), h.2⟩

/-- **handover_restores** (the full statement): for every hand-over state - cursor visible or hidden -, every history
    inside the contract, the terminal reading the whole stream is back in *that* state after pause / teardown, and
    after destruction. -/
theorem handover_restores (cfg : Cfg) (hk : cfg.keypadRecorded = true) (hr : cfg.repliesGuarded = true) :
    HandoverRestores cfg :=
  fun toplevel m0 ops ph hm0 hv hok =>
    handover_restores_history_partial cfg hr toplevel m0 ops ph hm0 hv hok (noKeypadTrigger_of_recorded cfg hk ops _)

/-! #### the hypotheses are necessary -/

set_option maxRecDepth 8000 in
theorem teardown_restores_w_counterexample_keypad (p u r q : Bool) : ¬ TeardownRestoresW ⟨false, p, u, r, q⟩ := by
  intro h
  have h1 := (h false {} keypadHistory .running rfl rfl).2
  revert h1
  cases p <;> cases u <;> cases r <;> cases q <;> decide

set_option maxRecDepth 8000 in
theorem teardown_restores_w_counterexample_late_reply (k p u q : Bool) : ¬ TeardownRestoresW ⟨k, p, u, false, q⟩ := by
  intro h
  have h1 := (h false {} lateReplyHistory .running rfl rfl).2
  revert h1
  cases k <;> cases p <;> cases u <;> cases q <;> decide

set_option maxRecDepth 8000 in
theorem handover_restores_counterexample_keypad (p u r q : Bool) : ¬ HandoverRestores ⟨false, p, u, r, q⟩ := by
  intro h
  have h1 := (h false {} keypadHistory .running rfl rfl (by decide)).2
  revert h1
  cases p <;> cases u <;> cases r <;> cases q <;> decide

set_option maxRecDepth 8000 in
/-- The late reply is one a terminal handed over visible does send (`replyConsistent`). -/
theorem handover_restores_counterexample_late_reply (k p u q : Bool) : ¬ HandoverRestores ⟨k, p, u, false, q⟩ := by
  intro h
  have h1 := (h false {} lateReplyHistory .running rfl rfl (by decide)).2
  revert h1
  cases k <;> cases p <;> cases u <;> cases q <;> decide

/-! #### non-vacuity -/

/-- Hidden at hand-over; replies (one while paused, read later), modes switched on while running and while paused, a
    pen and text while paused, the toplevel's tick without setup, resume, more settings, pause, and no resume. -/
def hiddenPausedHistory : List Op :=
  [.replyMode 25 2, .ctl (some .altscreen) 1, .pause, .ctl (some .mouse) 3, .replyMode 12 1,
   .setpen (fun a => if a = .bold then some 1 else none), .print [104], .tick true, .resume, .replyShape 2,
   .ctl (some .altscreen) 0, .pause, .ctl (some .altscreen) 1, .ctl (some .mouse) 1,
   .chpen (fun a => if a = .italic then some 1 else none)]

set_option maxRecDepth 16000 in
example : hiddenM0.handover = true ∧ validFrom .running hiddenPausedHistory = none ∧
    validFromW .running hiddenPausedHistory = some .pausedOps ∧
    hiddenPausedHistory.all (handoverOk hiddenM0) = true ∧ KeypadTriggerFree Cfg.tree true hiddenPausedHistory ∧
    (vtAfter Cfg.tree true hiddenM0 hiddenPausedHistory).modes.altscreen = true ∧
    (vtAfter Cfg.tree true hiddenM0 hiddenPausedHistory).modes.mouse = 1000 ∧
    (vtAfter Cfg.tree true hiddenM0 hiddenPausedHistory).attrs .italic = 1 ∧
    (vtAfter Cfg.tree true hiddenM0 hiddenPausedHistory).modes.cursorVisible = false := by decide

/-- The theorem applies to it on the working tree: destruction leaves the terminal on the primary screen, without
    mouse reporting, in the default rendition - and with the cursor hidden, as it was handed over. -/
example : restoredOk (VT.feed (vtAfter Cfg.tree true hiddenM0 hiddenPausedHistory)
    (sysAfter Cfg.tree true hiddenPausedHistory).destroy) hiddenM0 = true :=
  (handover_hidden_restores_w Cfg.tree true hiddenM0 hiddenPausedHistory .pausedOps rfl rfl (by decide) (by decide) (by decide)).2

example : restoredOk (VT.feed (vtAfter Cfg.repaired false {} pausedMouseHistory) (sysAfter Cfg.repaired false pausedMouseHistory).destroy) {} = true :=
  (teardown_restores_w Cfg.repaired rfl rfl false {} pausedMouseHistory .pausedOps rfl (by decide)).2

example : restoredOk (vtAfter Cfg.repaired false {} (pausedPenHistory ++ [.teardown])) {} = true := by
  have hv : validFromW .running (pausedPenHistory ++ [.teardown]) = some .stopped := by decide
  exact (teardown_restores_w Cfg.repaired rfl rfl false {} _ .stopped rfl hv).1 (Or.inr rfl)

/-- … on the working tree (keypad not recorded) through the partial theorem: the history leaves the keypad alone. -/
example : restoredOk (vtAfter Cfg.tree false {} (pausedPenHistory ++ [.teardown])) {} = true := by
  have hv : validFromW .running (pausedPenHistory ++ [.teardown]) = some .stopped := by decide
  have hk : KeypadTriggerFree Cfg.tree false (pausedPenHistory ++ [.teardown]) := by decide
  exact (teardown_restores_w_partial Cfg.tree (by decide) false {} _ .stopped rfl hv hk).1 (Or.inr rfl)

example : restoredOk (vtAfter Cfg.tree false hiddenM0 hiddenHistory) hiddenM0 = true :=
  (handover_restores_history_partial Cfg.tree (by decide) false hiddenM0 hiddenHistory .stopped rfl (by decide) (by decide) (by decide)).1 (by decide)

example : restoredOk (VT.feed (vtAfter Cfg.repaired true hiddenM0 hiddenHistory) (sysAfter Cfg.repaired true hiddenHistory).destroy) hiddenM0 = true :=
  (handover_restores Cfg.repaired rfl rfl true hiddenM0 hiddenHistory .stopped rfl (by decide) (by decide)).2

/-- `KeypadTriggerFree` excludes exactly the keypad counterexamples. -/
example : ¬ KeypadTriggerFree ⟨false, true, true, true, true⟩ false keypadHistory ∧
    ¬ KeypadTriggerFree ⟨false, true, true, true, true⟩ true [.pause, .tick false] ∧
    KeypadTriggerFree ⟨false, true, true, true, true⟩ true [.pause, .tick true, .ctl (some .keypadApp) 0] := by decide

end Tickit.Props.C12
