import Tickit.Proof.Modes
import Tickit.Gen.ModeLayout
/-
  C12 — Every terminal mode switched on is switched off again by pause/teardown.

  A *history* is a list of `Modes.Op` (control settings, pens, text, the terminal's replies, pause,
  resume, teardown, the toplevel instance's tick) performed on a freshly built terminal, directly
  (`toplevel = false`) or owned by a toplevel instance.  `validFrom .running ops = some ph` says that the
  history keeps the documented contract (`Modes.phaseNext`, `Modes.opOk`) and ends in phase `ph`.
  The terminal is the byte-level VT mode-state interpreter `Modes.VT`, started in any mode state `m0`
  in which the four listed modes are off (`VModes.standard`; blink, shape, DECLRMM are arbitrary).

  The model is parameterised by `Modes.Cfg`: which of the three repair sites the working tree has
  (read from the source on every run into `Gen.ModeLayout`).  Every theorem is stated for every `Cfg`
  with the hypotheses it needs; the counterexample theorems show that the hypotheses are necessary.
-/
namespace Tickit.Props.C12
open Tickit Tickit.Modes Tickit.Gen

/-! ### facts read from the C source (obligations that break when the source changes) -/

theorem mode_for_mouse_agrees (k : Int) :
    modeForMouse k = (ModeLayout.mode_for_mouse_cases.lookup k).getD ModeLayout.mode_for_mouse_default := by
  unfold modeForMouse
  simp only [ModeLayout.mode_for_mouse_cases, ModeLayout.mode_for_mouse_default, List.lookup]
  by_cases h1 : k = 1
  · subst h1; rfl
  · by_cases h2 : k = 2
    · subst h2; rfl
    · by_cases h3 : k = 3
      · subst h3; rfl
      · have e1 : (k == 1) = false := by simpa using h1
        have e2 : (k == 2) = false := by simpa using h2
        have e3 : (k == 3) = false := by simpa using h3
        simp [h1, h2, h3, e1, e2, e3]

theorem sgr_onoff_agrees :
    ModeLayout.sgr_on = [0, 30, 40, 1, 4, 3, 7, 9, 10, 5, 70] ∧
    ModeLayout.sgr_off = [0, 39, 49, 22, 24, 23, 27, 29, 10, 25, 75] := by decide

theorem pen_attr_order :
    [ModeLayout.pen_fg, ModeLayout.pen_bg, ModeLayout.pen_bold, ModeLayout.pen_under, ModeLayout.pen_italic,
     ModeLayout.pen_reverse, ModeLayout.pen_strike, ModeLayout.pen_altfont, ModeLayout.pen_blink,
     ModeLayout.pen_sizepos, ModeLayout.n_pen_attrs] = [1, 2, 3, 4, 5, 6, 7, 8, 9, 10, 11] ∧
    [ModeLayout.sizepos_normal, ModeLayout.sizepos_superscript, ModeLayout.sizepos_subscript] = [0, 2, 3] ∧
    [ModeLayout.under_none, ModeLayout.under_single] = [0, 1] := by decide

theorem mouse_enum :
    [ModeLayout.mouse_off, ModeLayout.mouse_click, ModeLayout.mouse_drag, ModeLayout.mouse_move] = [0, 1, 2, 3] := by decide

theorem ctl_numbers_distinct :
    [ModeLayout.ctl_altscreen, ModeLayout.ctl_cursorvis, ModeLayout.ctl_mouse, ModeLayout.ctl_cursorblink,
     ModeLayout.ctl_cursorshape, ModeLayout.ctl_icon_text, ModeLayout.ctl_title_text, ModeLayout.ctl_icontitle_text,
     ModeLayout.ctl_keypad_app, ModeLayout.ctl_colors, ModeLayout.ctl_cap_cursorshape, ModeLayout.ctl_cap_slrm,
     ModeLayout.ctl_cap_csi_sub_colon, ModeLayout.ctl_cap_rgb8].Nodup := by decide

/-- The shadow's bit-fields are wide enough for the values the documented API admits. -/
theorem shadow_widths :
    1 ≤ ModeLayout.w_mode_altscreen ∧ 1 ≤ ModeLayout.w_mode_cursorvis ∧ 1 ≤ ModeLayout.w_mode_cursorblink ∧
    2 ≤ ModeLayout.w_mode_cursorshape ∧ 2 ≤ ModeLayout.w_mode_mouse ∧ 1 ≤ ModeLayout.w_mode_keypad := by decide

/-! ### the terminal after a history -/

/-- The system after building and performing `ops`. -/
def sysAfter (cfg : Cfg) (toplevel : Bool) (ops : List Op) : Sys := (Sys.run cfg (Sys.build toplevel).1 ops).1

/-- The terminal (started in modes `m0`, default rendition) having read every byte written by building
    and by `ops`. -/
def vtAfter (cfg : Cfg) (toplevel : Bool) (m0 : VModes) (ops : List Op) : VT :=
  VT.feed (VT.feed ⟨.ground, m0, Attrs.default⟩ (Sys.build toplevel).2) (Sys.run cfg (Sys.build toplevel).1 ops).2

/-- What the program last set successfully, and the pen it asked for. -/
def ghostAfter (cfg : Cfg) (toplevel : Bool) (ops : List Op) : Ghost := ghostRun cfg (Sys.build toplevel).1 {} ops

/-- No operation of the history triggers one of the recorded defects of an unrepaired `cfg`. -/
def TriggerFree (cfg : Cfg) (toplevel : Bool) (ops : List Op) : Prop := noTrigger cfg (Sys.build toplevel).1 {} ops = true

instance (cfg : Cfg) (toplevel : Bool) (ops : List Op) : Decidable (TriggerFree cfg toplevel ops) := by
  unfold TriggerFree; infer_instance

theorem after_inv (cfg : Cfg) (toplevel : Bool) (m0 : VModes) (ops : List Op) (ph : Phase)
    (hm0 : m0.standard = true) (hv : validFrom .running ops = some ph) (hnt : TriggerFree cfg toplevel ops) :
    MInv cfg (sysAfter cfg toplevel ops) (vtAfter cfg toplevel m0 ops) ph (ghostAfter cfg toplevel ops) :=
  run_inv cfg ops _ _ .running ph {} (build_inv cfg toplevel m0 hm0) hv hnt

/-- With the keypad recorded and the replies guarded nothing is a trigger. -/
theorem triggerFree_of_repaired (cfg : Cfg) (hk : cfg.keypadRecorded = true) (hr : cfg.repliesGuarded = true)
    (toplevel : Bool) (ops : List Op) : TriggerFree cfg toplevel ops := by
  unfold TriggerFree
  generalize (Sys.build toplevel).1 = s
  generalize ({} : Ghost) = g
  induction ops generalizing s g with
  | nil => rfl
  | cons op rest ih =>
    simp only [noTrigger, Bool.and_eq_true, Bool.not_eq_true']
    refine ⟨?_, ih _ _⟩
    cases op <;> simp [trigger, hk, hr]
    rename_i c v
    cases c with
    | none => rfl
    | some c => cases c <;> simp [trigger, hk]

/-! ### `shadow_inv`, `resume_reestablishes` -/

/-- **shadow_inv.** While the terminal is running (in particular after every resume), the terminal's
    alternate-screen, cursor-visibility, mouse-reporting and keypad modes are exactly the values last
    set through the control interface. -/
theorem shadow_inv_partial (cfg : Cfg) (toplevel : Bool) (m0 : VModes) (ops : List Op)
    (hm0 : m0.standard = true) (hv : validFrom .running ops = some .running) (hnt : TriggerFree cfg toplevel ops) :
    modesShown (vtAfter cfg toplevel m0 ops).modes (ghostAfter cfg toplevel ops) = true := by
  have h := after_inv cfg toplevel m0 ops .running hm0 hv hnt
  exact modesShown_of cfg _ _ _ (h.shown rfl) h.ghost

theorem shadow_inv (cfg : Cfg) (hk : cfg.keypadRecorded = true) (hr : cfg.repliesGuarded = true)
    (toplevel : Bool) (m0 : VModes) (ops : List Op)
    (hm0 : m0.standard = true) (hv : validFrom .running ops = some .running) :
    modesShown (vtAfter cfg toplevel m0 ops).modes (ghostAfter cfg toplevel ops) = true :=
  shadow_inv_partial cfg toplevel m0 ops hm0 hv (triggerFree_of_repaired cfg hk hr toplevel ops)

theorem ghostRun_append (cfg : Cfg) (a b : List Op) : ∀ (s : Sys) (g : Ghost),
    ghostRun cfg s g (a ++ b) = ghostRun cfg (Sys.run cfg s a).1 (ghostRun cfg s g a) b := by
  induction a with
  | nil => intro s g; rfl
  | cons op rest ih => intro s g; simp only [List.cons_append, ghostRun, Sys.run]; exact ih _ _

theorem validFrom_append (a b : List Op) : ∀ (ph : Phase),
    validFrom ph (a ++ b) = (validFrom ph a).bind (validFrom · b) := by
  induction a with
  | nil => intro ph; rfl
  | cons op rest ih =>
    intro ph
    simp only [List.cons_append, validFrom]
    split
    · cases phaseNext ph op with
      | none => rfl
      | some p => simp only [Option.bind_some]; exact ih p
    · rfl

theorem noTrigger_append_pause_resume (cfg : Cfg) (ops : List Op) : ∀ (s : Sys) (g : Ghost),
    noTrigger cfg s g ops = true → noTrigger cfg s g (ops ++ [.pause, .resume]) = true := by
  induction ops with
  | nil => intro s g _; rfl
  | cons op rest ih =>
    intro s g h
    simp only [List.cons_append, noTrigger, Bool.and_eq_true] at h ⊢
    exact ⟨h.1, ih _ _ h.2⟩

/-- **resume_reestablishes.** A pause/resume cycle appended to a history that left the terminal running
    ends with the terminal's modes equal to the values last set before the pause: resume re-establishes
    exactly the logical modes. -/
def ResumeReestablishes (cfg : Cfg) : Prop :=
  ∀ (toplevel : Bool) (m0 : VModes) (ops : List Op), m0.standard = true →
    validFrom .running ops = some .running →
    modesShown (vtAfter cfg toplevel m0 (ops ++ [.pause, .resume])).modes (ghostAfter cfg toplevel ops) = true

theorem resume_reestablishes_partial (cfg : Cfg) (toplevel : Bool) (m0 : VModes) (ops : List Op)
    (hm0 : m0.standard = true) (hv : validFrom .running ops = some .running)
    (hnt : TriggerFree cfg toplevel ops) :
    modesShown (vtAfter cfg toplevel m0 (ops ++ [.pause, .resume])).modes (ghostAfter cfg toplevel ops) = true := by
  have hv' : validFrom .running (ops ++ [.pause, .resume]) = some .running := by
    rw [validFrom_append, hv]; rfl
  have hnt' : TriggerFree cfg toplevel (ops ++ [.pause, .resume]) := noTrigger_append_pause_resume cfg ops _ _ hnt
  have h := shadow_inv_partial cfg toplevel m0 _ hm0 hv' hnt'
  have hg : ghostAfter cfg toplevel (ops ++ [.pause, .resume]) = ghostAfter cfg toplevel ops := by
    unfold ghostAfter; rw [ghostRun_append]; rfl
  rwa [hg] at h

theorem resume_reestablishes (cfg : Cfg) (hk : cfg.keypadRecorded = true) (hr : cfg.repliesGuarded = true) :
    ResumeReestablishes cfg :=
  fun toplevel m0 ops hm0 hv =>
    resume_reestablishes_partial cfg toplevel m0 ops hm0 hv (triggerFree_of_repaired cfg hk hr toplevel ops)

/-! ### `teardown_restores` -/

/-- **teardown_restores** (full statement). For every history inside the contract: if it ends paused or
    torn down the terminal is back in the modes it started in, with the default rendition; and
    destruction (from any phase) leaves it so. -/
def TeardownRestores (cfg : Cfg) : Prop :=
  ∀ (toplevel : Bool) (m0 : VModes) (ops : List Op) (ph : Phase), m0.standard = true →
    validFrom .running ops = some ph →
    (ph ≠ .running → restoredOk (vtAfter cfg toplevel m0 ops) m0 = true) ∧
    restoredOk (VT.feed (vtAfter cfg toplevel m0 ops) (sysAfter cfg toplevel ops).destroy) m0 = true

theorem teardown_restores_partial (cfg : Cfg) (toplevel : Bool) (m0 : VModes) (ops : List Op) (ph : Phase)
    (hm0 : m0.standard = true) (hv : validFrom .running ops = some ph) (hnt : TriggerFree cfg toplevel ops) :
    (ph ≠ .running → restoredOk (vtAfter cfg toplevel m0 ops) m0 = true) ∧
    restoredOk (VT.feed (vtAfter cfg toplevel m0 ops) (sysAfter cfg toplevel ops).destroy) m0 = true := by
  have h := after_inv cfg toplevel m0 ops ph hm0 hv hnt
  have h0 := off_of_standard m0 hm0
  constructor
  · intro hne
    obtain ⟨ho, ha⟩ := h.off hne
    exact restoredOk_of _ m0 h0 ho ha
  · obtain ⟨ho, ha⟩ := destroy_off cfg _ _ ph _ h
    exact restoredOk_of _ m0 h0 ho ha

theorem teardown_restores (cfg : Cfg) (hk : cfg.keypadRecorded = true) (hr : cfg.repliesGuarded = true) :
    TeardownRestores cfg :=
  fun toplevel m0 ops ph hm0 hv =>
    teardown_restores_partial cfg toplevel m0 ops ph hm0 hv (triggerFree_of_repaired cfg hk hr toplevel ops)

/-! ### `getctl_last_set` -/

/-- **getctl_last_set** (full statement). After every history inside the contract, every control reads
    back the value last successfully set (booleans as 0/1). -/
def GetctlLastSet (cfg : Cfg) : Prop :=
  ∀ (toplevel : Bool) (ops : List Op) (ph : Phase), validFrom .running ops = some ph →
    getctlOk (sysAfter cfg toplevel ops).term.drv (ghostAfter cfg toplevel ops) = true

theorem getctl_last_set_partial (cfg : Cfg) (toplevel : Bool) (ops : List Op) (ph : Phase)
    (hv : validFrom .running ops = some ph) (hnt : TriggerFree cfg toplevel ops) :
    getctlOk (sysAfter cfg toplevel ops).term.drv (ghostAfter cfg toplevel ops) = true :=
  getctlOk_of cfg _ _ (after_inv cfg toplevel {} ops ph rfl hv hnt).ghost

theorem getctl_last_set (cfg : Cfg) (hk : cfg.keypadRecorded = true) (hr : cfg.repliesGuarded = true) :
    GetctlLastSet cfg :=
  fun toplevel ops ph hv => getctl_last_set_partial cfg toplevel ops ph hv (triggerFree_of_repaired cfg hk hr toplevel ops)

/-! ### the unrepaired tree: counterexamples (the hypotheses above are necessary) -/

/-- Keypad application mode not recorded (the working tree as found; repair pinned away by
    `t/60tickit-setup.c`): `ctl keypad_app 1; unref` leaves the terminal in application-keypad mode. -/
def keypadHistory : List Op := [.ctl (some .keypadApp) 1]

set_option maxRecDepth 8000 in
theorem teardown_restores_counterexample_keypad (p r : Bool) : ¬ TeardownRestores ⟨false, p, r⟩ := by
  intro h
  have h1 := (h false {} keypadHistory .running rfl rfl).2
  revert h1
  cases p <;> cases r <;> decide

set_option maxRecDepth 8000 in
/-- … and through the toplevel instance: `tick; unref` (what `t/60tickit-setup.c` pins). -/
theorem teardown_restores_counterexample_setup (p r : Bool) : ¬ TeardownRestores ⟨false, p, r⟩ := by
  intro h
  have h1 := (h true {} [.tick false] .running rfl rfl).2
  revert h1
  cases p <;> cases r <;> decide

set_option maxRecDepth 8000 in
theorem getctl_last_set_counterexample_keypad (p r : Bool) : ¬ GetctlLastSet ⟨false, p, r⟩ := by
  intro h
  have h1 := h false keypadHistory .running rfl
  revert h1
  cases p <;> cases r <;> decide

/-- Replies not guarded: `ctl cursorvis 0; <DECRPM ?25;1$y arrives>; unref` leaves the cursor hidden,
    and the control reads 1 after 0 was set. -/
def lateReplyHistory : List Op := [.ctl (some .cursorvis) 0, .replyMode 25 1]

set_option maxRecDepth 8000 in
theorem teardown_restores_counterexample_late_reply (k p : Bool) : ¬ TeardownRestores ⟨k, p, false⟩ := by
  intro h
  have h1 := (h false {} lateReplyHistory .running rfl rfl).2
  revert h1
  cases k <;> cases p <;> decide

set_option maxRecDepth 8000 in
theorem getctl_last_set_counterexample_late_reply (k p : Bool) : ¬ GetctlLastSet ⟨k, p, false⟩ := by
  intro h
  have h1 := h false lateReplyHistory .running rfl
  revert h1
  cases k <;> cases p <;> decide

/-- The triggers are exactly what the partial theorems exclude: both counterexample histories are
    inside the contract and are *not* trigger-free for the unrepaired variants. -/
example : validFrom .running keypadHistory = some .running ∧ ¬ TriggerFree ⟨false, true, true⟩ false keypadHistory := by
  decide
example : validFrom .running lateReplyHistory = some .running ∧ ¬ TriggerFree ⟨true, true, false⟩ false lateReplyHistory := by
  decide

/-! ### non-vacuity: a non-trivial history inside the contract, for both kinds of terminal -/

/-- Replies, every listed control, a pen, text, two pause/resume cycles, redundant settings. -/
def sampleHistory : List Op :=
  [.replyMode 25 1, .replyMode 12 2, .replyShape 2, .ctl (some .altscreen) 1, .ctl (some .cursorvis) 0,
   .ctl (some .mouse) 2, .ctl (some .mouse) 2, .ctl (some .keypadApp) 1, .ctl (some .cursorshape) 3,
   .setpen (fun a => if a = .bold then some 1 else if a = .fg then some 200 else none), .print [104, 105],
   .pause, .resume, .ctl (some .mouse) 3, .setstr (some .titleText) [116], .pause, .resume, .ctl (some .altscreen) 0]

example : validFrom .running sampleHistory = some .running := by decide
example : validFrom .running (sampleHistory ++ [.pause]) = some .paused := by decide
example : validFrom .running ([.tick false, .usealt 0] ++ sampleHistory ++ [.teardown]) = some .stopped := by decide

set_option maxRecDepth 8000 in
/-- The history really switches modes on (so the theorems are not about an idle terminal) … -/
example : (vtAfter Cfg.repaired false {} sampleHistory).modes.mouse = 1003 ∧
    (vtAfter Cfg.repaired false {} sampleHistory).modes.keypadApp = true ∧
    (vtAfter Cfg.repaired false {} sampleHistory).modes.cursorVisible = false := by decide

/-- … and the theorems apply to it. -/
example : modesShown (vtAfter Cfg.repaired false {} sampleHistory).modes (ghostAfter Cfg.repaired false sampleHistory) = true :=
  shadow_inv Cfg.repaired rfl rfl false {} sampleHistory rfl (by decide)
example : restoredOk (VT.feed (vtAfter Cfg.repaired true {} sampleHistory) (sysAfter Cfg.repaired true sampleHistory).destroy) {} = true :=
  (teardown_restores Cfg.repaired rfl rfl true {} sampleHistory .running rfl (by decide)).2
example : getctlOk (sysAfter Cfg.repaired false sampleHistory).term.drv (ghostAfter Cfg.repaired false sampleHistory) = true :=
  getctl_last_set Cfg.repaired rfl rfl false sampleHistory .running (by decide)
/-- The partial theorems are not vacuous on the tree as found: a history with mouse, cursor and
    alternate screen but no keypad and prompt replies is trigger-free. -/
example : TriggerFree ⟨false, false, false⟩ false
    [.replyMode 25 1, .ctl (some .altscreen) 1, .ctl (some .cursorvis) 0, .ctl (some .mouse) 1, .pause, .resume] := by decide

end Tickit.Props.C12
