import Tickit.Model.Modes
namespace Tickit.Props.C12
end Tickit.Props.C12
