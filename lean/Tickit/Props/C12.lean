import Tickit.Proof.Modes
import Tickit.Gen.ModeLayout
/-
  C12 — Every terminal mode switched on is switched off again by pause/teardown.

  A *history* is a list of `Modes.Op` (control settings, pens, text, the terminal's replies, pause,
  resume, teardown, the toplevel instance's tick) performed on a freshly built terminal, directly
  (`toplevel = false`) or owned by a toplevel instance.  `validFrom .running ops = some ph` says that the
  history keeps the documented contract (`Modes.phaseNext`, `Modes.opOk`) and ends in phase `ph`.
  The terminal is the byte-level VT mode-state interpreter `Modes.VT`, started in any mode state `m0`
  in which the four listed modes are off (`VModes.standard`; blink, shape, DECLRMM are arbitrary).

  The model is parameterised by `Modes.Cfg`: which of the three repair sites the working tree has
  (read from the source on every run into `Gen.ModeLayout`).  Every theorem is stated for every `Cfg`
  with the hypotheses it needs; the counterexample theorems show that the hypotheses are necessary.
-/
namespace Tickit.Props.C12
open Tickit Tickit.Modes Tickit.Gen

/-! ### facts read from the C source (obligations that break when the source changes) -/

theorem mode_for_mouse_agrees (k : Int) :
    modeForMouse k = (ModeLayout.mode_for_mouse_cases.lookup k).getD ModeLayout.mode_for_mouse_default := by
  unfold modeForMouse
  simp only [ModeLayout.mode_for_mouse_cases, ModeLayout.mode_for_mouse_default, List.lookup]
  by_cases h1 : k = 1
  · subst h1; rfl
  · by_cases h2 : k = 2
    · subst h2; rfl
    · by_cases h3 : k = 3
      · subst h3; rfl
      · have e1 : (k == 1) = false := by simpa using h1
        have e2 : (k == 2) = false := by simpa using h2
        have e3 : (k == 3) = false := by simpa using h3
        simp [h1, h2, h3, e1, e2, e3]

theorem sgr_onoff_agrees :
    ModeLayout.sgr_on = [0, 30, 40, 1, 4, 3, 7, 9, 10, 5, 70] ∧
    ModeLayout.sgr_off = [0, 39, 49, 22, 24, 23, 27, 29, 10, 25, 75] := by decide

theorem pen_attr_order :
    [ModeLayout.pen_fg, ModeLayout.pen_bg, ModeLayout.pen_bold, ModeLayout.pen_under, ModeLayout.pen_italic,
     ModeLayout.pen_reverse, ModeLayout.pen_strike, ModeLayout.pen_altfont, ModeLayout.pen_blink,
     ModeLayout.pen_sizepos, ModeLayout.n_pen_attrs] = [1, 2, 3, 4, 5, 6, 7, 8, 9, 10, 11] ∧
    [ModeLayout.sizepos_normal, ModeLayout.sizepos_superscript, ModeLayout.sizepos_subscript] = [0, 2, 3] ∧
    [ModeLayout.under_none, ModeLayout.under_single, ModeLayout.under_double] = [0, 1, 2] := by decide

theorem mouse_enum :
    [ModeLayout.mouse_off, ModeLayout.mouse_click, ModeLayout.mouse_drag, ModeLayout.mouse_move] = [0, 1, 2, 3] := by decide

theorem ctl_numbers_distinct :
    [ModeLayout.ctl_altscreen, ModeLayout.ctl_cursorvis, ModeLayout.ctl_mouse, ModeLayout.ctl_cursorblink,
     ModeLayout.ctl_cursorshape, ModeLayout.ctl_icon_text, ModeLayout.ctl_title_text, ModeLayout.ctl_icontitle_text,
     ModeLayout.ctl_keypad_app, ModeLayout.ctl_colors, ModeLayout.ctl_cap_cursorshape, ModeLayout.ctl_cap_slrm,
     ModeLayout.ctl_cap_csi_sub_colon, ModeLayout.ctl_cap_rgb8].Nodup := by decide

/-- The shadow's bit-fields are wide enough for the values the documented API admits. -/
theorem shadow_widths :
    1 ≤ ModeLayout.w_mode_altscreen ∧ 1 ≤ ModeLayout.w_mode_cursorvis ∧ 1 ≤ ModeLayout.w_mode_cursorblink ∧
    2 ≤ ModeLayout.w_mode_cursorshape ∧ 2 ≤ ModeLayout.w_mode_mouse ∧ 1 ≤ ModeLayout.w_mode_keypad := by decide

/-! ### `shadow_inv`, `resume_reestablishes` -/

/-- **shadow_inv** (full statement). While the terminal is running (in particular after every resume), the
    terminal's alternate-screen, cursor-visibility, mouse-reporting (with its SGR encoding) and keypad modes
    are exactly the values last set through the control interface. -/
def ShadowInv (cfg : Cfg) : Prop :=
  ∀ (toplevel : Bool) (m0 : VModes) (ops : List Op), m0.standard = true →
    validFrom .running ops = some .running →
    modesShown (vtAfter cfg toplevel m0 ops).modes (ghostAfter cfg toplevel ops) = true

theorem shadow_inv_partial (cfg : Cfg) (toplevel : Bool) (m0 : VModes) (ops : List Op)
    (hm0 : m0.standard = true) (hv : validFrom .running ops = some .running) (hnt : TriggerFree cfg toplevel ops) :
    modesShown (vtAfter cfg toplevel m0 ops).modes (ghostAfter cfg toplevel ops) = true := by
  have h := after_inv cfg toplevel m0 ops .running hm0 hv hnt
  exact modesShown_of cfg _ _ _ (h.shown rfl) h.ghost

theorem shadow_inv (cfg : Cfg) (hk : cfg.keypadRecorded = true) (hr : cfg.repliesGuarded = true) : ShadowInv cfg :=
  fun toplevel m0 ops hm0 hv =>
    shadow_inv_partial cfg toplevel m0 ops hm0 hv (triggerFree_of_repaired cfg hk hr toplevel ops)

/-- **resume_reestablishes.** A pause/resume cycle appended to a history that left the terminal running
    ends with the terminal's modes equal to the values last set before the pause: resume re-establishes
    exactly the logical modes. -/
def ResumeReestablishes (cfg : Cfg) : Prop :=
  ∀ (toplevel : Bool) (m0 : VModes) (ops : List Op), m0.standard = true →
    validFrom .running ops = some .running →
    modesShown (vtAfter cfg toplevel m0 (ops ++ [.pause, .resume])).modes (ghostAfter cfg toplevel ops) = true

theorem resume_reestablishes_partial (cfg : Cfg) (toplevel : Bool) (m0 : VModes) (ops : List Op)
    (hm0 : m0.standard = true) (hv : validFrom .running ops = some .running)
    (hnt : TriggerFree cfg toplevel ops) :
    modesShown (vtAfter cfg toplevel m0 (ops ++ [.pause, .resume])).modes (ghostAfter cfg toplevel ops) = true := by
  have hv' : validFrom .running (ops ++ [.pause, .resume]) = some .running := by
    rw [validFrom_append, hv]; rfl
  have hnt' : TriggerFree cfg toplevel (ops ++ [.pause, .resume]) := noTrigger_append_pause_resume cfg ops _ _ hnt
  have h := shadow_inv_partial cfg toplevel m0 _ hm0 hv' hnt'
  have hg : ghostAfter cfg toplevel (ops ++ [.pause, .resume]) = ghostAfter cfg toplevel ops := by
    unfold ghostAfter; rw [ghostRun_append]; rfl
  rwa [hg] at h

theorem resume_reestablishes (cfg : Cfg) (hk : cfg.keypadRecorded = true) (hr : cfg.repliesGuarded = true) :
    ResumeReestablishes cfg :=
  fun toplevel m0 ops hm0 hv =>
    resume_reestablishes_partial cfg toplevel m0 ops hm0 hv (triggerFree_of_repaired cfg hk hr toplevel ops)

/-! ### `teardown_restores` -/

/-- **teardown_restores** (full statement). For every history inside the contract: if it ends paused or
    torn down the terminal is back in the modes it started in, with the default rendition; and
    destruction (from any phase) leaves it so. -/
def TeardownRestores (cfg : Cfg) : Prop :=
  ∀ (toplevel : Bool) (m0 : VModes) (ops : List Op) (ph : Phase), m0.standard = true →
    validFrom .running ops = some ph →
    (ph ≠ .running → restoredOk (vtAfter cfg toplevel m0 ops) m0 = true) ∧
    restoredOk (VT.feed (vtAfter cfg toplevel m0 ops) (sysAfter cfg toplevel ops).destroy) m0 = true

theorem teardown_restores_partial (cfg : Cfg) (toplevel : Bool) (m0 : VModes) (ops : List Op) (ph : Phase)
    (hm0 : m0.standard = true) (hv : validFrom .running ops = some ph) (hnt : TriggerFree cfg toplevel ops) :
    (ph ≠ .running → restoredOk (vtAfter cfg toplevel m0 ops) m0 = true) ∧
    restoredOk (VT.feed (vtAfter cfg toplevel m0 ops) (sysAfter cfg toplevel ops).destroy) m0 = true := by
  have h := after_inv cfg toplevel m0 ops ph hm0 hv hnt
  have h0 := off_of_standard m0 hm0
  constructor
  · intro hne
    obtain ⟨ho, ha⟩ := h.off hne
    exact restoredOk_of _ m0 h0 ho ha
  · obtain ⟨ho, ha⟩ := destroy_off cfg _ _ ph _ h
    exact restoredOk_of _ m0 h0 ho ha

theorem teardown_restores (cfg : Cfg) (hk : cfg.keypadRecorded = true) (hr : cfg.repliesGuarded = true) :
    TeardownRestores cfg :=
  fun toplevel m0 ops ph hm0 hv =>
    teardown_restores_partial cfg toplevel m0 ops ph hm0 hv (triggerFree_of_repaired cfg hk hr toplevel ops)

/-! ### `getctl_last_set` -/

/-- **getctl_last_set** (full statement). After every history inside the contract, every control reads
    back the value last successfully set (booleans as 0/1). -/
def GetctlLastSet (cfg : Cfg) : Prop :=
  ∀ (toplevel : Bool) (ops : List Op) (ph : Phase), validFrom .running ops = some ph →
    getctlOk (sysAfter cfg toplevel ops).term.drv (ghostAfter cfg toplevel ops) = true

theorem getctl_last_set_partial (cfg : Cfg) (toplevel : Bool) (ops : List Op) (ph : Phase)
    (hv : validFrom .running ops = some ph) (hnt : TriggerFree cfg toplevel ops) :
    getctlOk (sysAfter cfg toplevel ops).term.drv (ghostAfter cfg toplevel ops) = true :=
  getctlOk_of cfg _ _ (after_inv cfg toplevel {} ops ph rfl hv hnt).ghost

theorem getctl_last_set (cfg : Cfg) (hk : cfg.keypadRecorded = true) (hr : cfg.repliesGuarded = true) :
    GetctlLastSet cfg :=
  fun toplevel ops ph hv => getctl_last_set_partial cfg toplevel ops ph hv (triggerFree_of_repaired cfg hk hr toplevel ops)

/-! ### the unrepaired tree: counterexamples (the hypotheses above are necessary) -/

/-- Keypad application mode not recorded (the working tree as found; repair pinned away by
    `t/60tickit-setup.c`): `ctl keypad_app 1; unref` leaves the terminal in application-keypad mode. -/
def keypadHistory : List Op := [.ctl (some .keypadApp) 1]

set_option maxRecDepth 8000 in
theorem teardown_restores_counterexample_keypad (p u r : Bool) : ¬ TeardownRestores ⟨false, p, u, r⟩ := by
  intro h
  have h1 := (h false {} keypadHistory .running rfl rfl).2
  revert h1
  cases p <;> cases u <;> cases r <;> decide

set_option maxRecDepth 8000 in
/-- … and through the toplevel instance: `tick; unref` (what `t/60tickit-setup.c` pins). -/
theorem teardown_restores_counterexample_setup (p u r : Bool) : ¬ TeardownRestores ⟨false, p, u, r⟩ := by
  intro h
  have h1 := (h true {} [.tick false] .running rfl rfl).2
  revert h1
  cases p <;> cases u <;> cases r <;> decide

set_option maxRecDepth 8000 in
theorem getctl_last_set_counterexample_keypad (p u r : Bool) : ¬ GetctlLastSet ⟨false, p, u, r⟩ := by
  intro h
  have h1 := h false keypadHistory .running rfl
  revert h1
  cases p <;> cases u <;> cases r <;> decide

/-- Replies not guarded: `ctl cursorvis 0; <DECRPM ?25;1$y arrives>; unref` leaves the cursor hidden,
    and the control reads 1 after 0 was set. -/
def lateReplyHistory : List Op := [.ctl (some .cursorvis) 0, .replyMode 25 1]

set_option maxRecDepth 8000 in
theorem teardown_restores_counterexample_late_reply (k p u : Bool) : ¬ TeardownRestores ⟨k, p, u, false⟩ := by
  intro h
  have h1 := (h false {} lateReplyHistory .running rfl rfl).2
  revert h1
  cases k <;> cases p <;> cases u <;> decide

set_option maxRecDepth 8000 in
/-- After the late reply the shadow says "visible" while the terminal's cursor is hidden: the next
    `ctl cursorvis 1` is taken for redundant and writes nothing, so the terminal and the value last set differ
    while running. -/
theorem shadow_inv_counterexample_late_reply (k p u : Bool) : ¬ ShadowInv ⟨k, p, u, false⟩ := by
  intro h
  have h1 := h false {} (lateReplyHistory ++ [.ctl (some .cursorvis) 1]) rfl rfl
  revert h1
  cases k <;> cases p <;> cases u <;> decide

set_option maxRecDepth 8000 in
theorem getctl_last_set_counterexample_late_reply (k p u : Bool) : ¬ GetctlLastSet ⟨k, p, u, false⟩ := by
  intro h
  have h1 := h false lateReplyHistory .running rfl
  revert h1
  cases k <;> cases p <;> cases u <;> decide

/-- The triggers are exactly what the partial theorems exclude: both counterexample histories are
    inside the contract and are *not* trigger-free for the unrepaired variants. -/
example : validFrom .running keypadHistory = some .running ∧ ¬ TriggerFree ⟨false, true, true, true⟩ false keypadHistory := by
  decide
example : validFrom .running lateReplyHistory = some .running ∧ ¬ TriggerFree ⟨true, true, true, false⟩ false lateReplyHistory := by
  decide

/-! ### non-vacuity: a non-trivial history inside the contract, for both kinds of terminal -/

/-- Replies, every listed control, a pen, text, two pause/resume cycles, redundant settings. -/
def sampleHistory : List Op :=
  [.replyMode 25 1, .replyMode 12 2, .replyShape 2, .await 50, .ctl (some .altscreen) 1, .ctl (some .cursorvis) 0,
   .ctl (some .mouse) 2, .ctl (some .mouse) 2, .ctl (some .keypadApp) 1, .ctl (some .cursorshape) 3,
   .setpen (fun a => if a = .bold then some 1 else if a = .fg then some 200 else none), .print [104, 105],
   .pause, .resume, .ctl (some .mouse) 3, .setstr (some .titleText) [116], .pause, .resume, .ctl (some .altscreen) 0]

example : validFrom .running sampleHistory = some .running := by decide
example : validFrom .running (sampleHistory ++ [.pause]) = some .paused := by decide
example : validFrom .running ([.tick false, .usealt 0] ++ sampleHistory ++ [.teardown]) = some .stopped := by decide

set_option maxRecDepth 8000 in
/-- The history really switches modes on (so the theorems are not about an idle terminal) … -/
example : (vtAfter Cfg.repaired false {} sampleHistory).modes.mouse = 1003 ∧
    (vtAfter Cfg.repaired false {} sampleHistory).modes.keypadApp = true ∧
    (vtAfter Cfg.repaired false {} sampleHistory).modes.cursorVisible = false := by decide

/-- … and the theorems apply to it. -/
example : modesShown (vtAfter Cfg.repaired false {} sampleHistory).modes (ghostAfter Cfg.repaired false sampleHistory) = true :=
  shadow_inv Cfg.repaired rfl rfl false {} sampleHistory rfl (by decide)
example : restoredOk (VT.feed (vtAfter Cfg.repaired true {} sampleHistory) (sysAfter Cfg.repaired true sampleHistory).destroy) {} = true :=
  (teardown_restores Cfg.repaired rfl rfl true {} sampleHistory .running rfl (by decide)).2
example : getctlOk (sysAfter Cfg.repaired false sampleHistory).term.drv (ghostAfter Cfg.repaired false sampleHistory) = true :=
  getctl_last_set Cfg.repaired rfl rfl false sampleHistory .running (by decide)
/-- The partial theorems are not vacuous on the tree as found: a history with mouse, cursor and
    alternate screen but no keypad and prompt replies is trigger-free. -/
example : TriggerFree ⟨false, false, false, false⟩ false
    [.replyMode 25 1, .ctl (some .altscreen) 1, .ctl (some .cursorvis) 0, .ctl (some .mouse) 1, .pause, .resume] := by decide

/-! ### `pen_survives_pause` -/

/-- **pen_survives_pause** (full statement). After every history inside the contract that leaves the
    terminal running - whatever pause/resume cycles it contains - the terminal renders with the pen the
    program asked for: every attribute named by `setpen`/`chpen` since the terminal was built has, on the
    terminal, the value last asked for (`Modes.logicalPen`), so that is what later drawing is rendered with. -/
def PenSurvivesPause (cfg : Cfg) : Prop :=
  ∀ (toplevel : Bool) (m0 : VModes) (ops : List Op), validFrom .running ops = some .running →
    penShown (vtAfter cfg toplevel m0 ops).attrs (ghostAfter cfg toplevel ops).pen = true

theorem pen_survives_pause_partial (cfg : Cfg) (toplevel : Bool) (m0 : VModes) (ops : List Op)
    (hv : validFrom .running ops = some .running) (hnt : PenTriggerFree cfg toplevel ops) :
    penShown (vtAfter cfg toplevel m0 ops).attrs (ghostAfter cfg toplevel ops).pen = true :=
  penShown_of _ _ _ (prun_inv cfg ops _ _ .running .running {} (build_pinv toplevel m0) (build_tk toplevel) hv hnt)

theorem pen_survives_pause (cfg : Cfg) (hr : cfg.resumeResendsPen = true) : PenSurvivesPause cfg :=
  fun toplevel m0 ops hv =>
    pen_survives_pause_partial cfg toplevel m0 ops hv (noPenTrigger_of_repaired cfg hr ops _)

/-- The cached pen *is* the logical pen (so "rendered with the cached pen" and "rendered with the pen asked
    for" are the same statement). -/
theorem cached_pen_is_logical (cfg : Cfg) (toplevel : Bool) (m0 : VModes) (ops : List Op) (ph : Phase)
    (hv : validFrom .running ops = some ph) (hnt : PenTriggerFree cfg toplevel ops) :
    (sysAfter cfg toplevel ops).term.pen = (ghostAfter cfg toplevel ops).pen :=
  (prun_inv cfg ops _ _ .running ph {} (build_pinv toplevel m0) (build_tk toplevel) hv hnt).pen

/-- `setpen bold; pause; resume`: the terminal renders plain, the pen asked for (and cached) is bold; a
    following `setpen bold` writes nothing. -/
def pausePenHistory : List Op := [.setpen (fun a => if a = .bold then some 1 else none), .pause, .resume]

set_option maxRecDepth 8000 in
theorem pen_survives_pause_counterexample (k u r : Bool) : ¬ PenSurvivesPause ⟨k, false, u, r⟩ := by
  intro h
  have h1 := h false {} pausePenHistory rfl
  revert h1
  cases k <;> cases u <;> cases r <;> decide

set_option maxRecDepth 8000 in
/-- … and the next `setpen bold` indeed emits no byte on the unrepaired variant. -/
theorem pause_pen_next_setpen_silent :
    ((sysAfter ⟨true, false, true, true⟩ false pausePenHistory).step ⟨true, false, true, true⟩
      (.setpen (fun a => if a = .bold then some 1 else none))).out = [] := by decide

example : validFrom .running pausePenHistory = some .running ∧ ¬ PenTriggerFree ⟨true, false, true, true⟩ false pausePenHistory := by
  decide

example : penShown (vtAfter Cfg.repaired true {} sampleHistory).attrs (ghostAfter Cfg.repaired true sampleHistory).pen = true :=
  pen_survives_pause Cfg.repaired rfl true {} sampleHistory (by decide)

set_option maxRecDepth 8000 in
/-- The sample history's pen is visible on the terminal after two pause/resume cycles (bold, palette 200). -/
example : (vtAfter Cfg.repaired false {} sampleHistory).attrs .bold = 1 ∧
    (vtAfter Cfg.repaired false {} sampleHistory).attrs .fg = 200 := by decide

/-- The partial theorem is not vacuous on the tree as found: pens with pause/resume are fine as long as the
    pen cached at resume is a default one. -/
example : PenTriggerFree ⟨false, false, false, false⟩ false
    [.setpen (fun a => if a = .bold then some 1 else none), .setpen PenMap.empty, .pause, .resume,
     .setpen (fun a => if a = .bold then some 1 else none)] := by decide

end Tickit.Props.C12
