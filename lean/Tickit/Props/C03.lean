import Tickit.Model.RB
/-
  C03 — render-buffer cells follow last-writer-wins under clip, mask and translation.
  (theorems follow; stage 1 = the concrete model agreeing with the code)
-/
namespace Tickit.Props.C03
end Tickit.Props.C03
