import Tickit.Proof.RB
/-
  C03 — render-buffer cells follow last-writer-wins under clip, mask and translation.

  The concrete model `Tickit.RB` (Model/RB.lean) is a statement-by-statement transcription of
  src/renderbuffer.c; the specification is `Tickit.RBAbs` (Model/RBAbs.lean).  Every theorem is universally
  quantified over buffers, coordinates (all of `Int`), texts and pens.
-/
namespace Tickit.Props.C03
open Tickit Tickit.RB Tickit.RBAbs

/-! ### cursor-relative operations advance the cursor by the columns requested, visible or not -/

/-- `skip n`, `erase n`: the cursor moves right by exactly `n` columns, on the same line, whatever the clip,
    the masks and the translation are (there is no hypothesis about them), and stays set. -/
theorem cursor_advances_skip (rb : RB) (n : Int) (h : rb.vcSet = true) :
    (RB.skip rb n).vcSet = true ∧ (RB.skip rb n).vcLine = rb.vcLine ∧ (RB.skip rb n).vcCol = rb.vcCol + n := by
  unfold RB.skip
  simp only [h, Bool.not_true, Bool.false_eq_true, if_false]
  exact ⟨(congrArg Aux.vcSet (skipRun_aux rb rb.vcLine rb.vcCol n)).trans h,
         congrArg Aux.vcLine (skipRun_aux rb rb.vcLine rb.vcCol n), trivial⟩

theorem cursor_advances_erase (rb : RB) (n : Int) (h : rb.vcSet = true) :
    (RB.erase rb n).vcSet = true ∧ (RB.erase rb n).vcLine = rb.vcLine ∧ (RB.erase rb n).vcCol = rb.vcCol + n := by
  unfold RB.erase
  simp only [h, Bool.not_true, Bool.false_eq_true, if_false]
  exact ⟨(congrArg Aux.vcSet (eraseRun_aux rb rb.vcLine rb.vcCol n)).trans h,
         congrArg Aux.vcLine (eraseRun_aux rb rb.vcLine rb.vcCol n), trivial⟩

/-- `skip_to c`, `erase_to c`: the cursor ends at column `c` (also when `c` is to the left: nothing is drawn). -/
theorem cursor_advances_skipTo (rb : RB) (c : Int) (h : rb.vcSet = true) :
    (RB.skipTo rb c).vcSet = true ∧ (RB.skipTo rb c).vcLine = rb.vcLine ∧ (RB.skipTo rb c).vcCol = c := by
  unfold RB.skipTo
  simp only [h, Bool.not_true, Bool.false_eq_true, if_false]
  split
  · exact ⟨(congrArg Aux.vcSet (skipRun_aux rb rb.vcLine rb.vcCol _)).trans h,
           congrArg Aux.vcLine (skipRun_aux rb rb.vcLine rb.vcCol _), trivial⟩
  · exact ⟨h, rfl, trivial⟩

theorem cursor_advances_eraseTo (rb : RB) (c : Int) (h : rb.vcSet = true) :
    (RB.eraseTo rb c).vcSet = true ∧ (RB.eraseTo rb c).vcLine = rb.vcLine ∧ (RB.eraseTo rb c).vcCol = c := by
  unfold RB.eraseTo
  simp only [h, Bool.not_true, Bool.false_eq_true, if_false]
  split
  · exact ⟨(congrArg Aux.vcSet (eraseRun_aux rb rb.vcLine rb.vcCol _)).trans h,
           congrArg Aux.vcLine (eraseRun_aux rb rb.vcLine rb.vcCol _), trivial⟩
  · exact ⟨h, rfl, trivial⟩

/-- `char`: one column (the code's own TODO: also for a double-width code point). -/
theorem cursor_advances_char (rb : RB) (cp : Int) (h : rb.vcSet = true) :
    (RB.char rb cp).vcSet = true ∧ (RB.char rb cp).vcLine = rb.vcLine ∧ (RB.char rb cp).vcCol = rb.vcCol + 1 := by
  unfold RB.char
  simp only [h, Bool.not_true, Bool.false_eq_true, if_false]
  exact ⟨(congrArg Aux.vcSet (putChar_aux rb rb.vcLine rb.vcCol cp)).trans h,
         congrArg Aux.vcLine (putChar_aux rb rb.vcLine rb.vcCol cp), trivial⟩

/-- `text s` for a text the width counter accepts with `n` columns: the cursor advances by `n` and `n` is
    returned, however much of the text is clipped or masked away. -/
theorem cursor_advances_text (rb : RB) (s : List UInt8) (n : Int) (h : rb.vcSet = true)
    (hs : Utf8.stringColumns s = some n) :
    (RB.text rb s).vcSet = true ∧ (RB.text rb s).vcLine = rb.vcLine ∧ (RB.text rb s).vcCol = rb.vcCol + n ∧
    RB.textRet rb s = n := by
  unfold RB.text RB.textRet putStringRet
  simp only [h, hs, Bool.not_true, Bool.false_eq_true, if_false]
  exact ⟨(congrArg Aux.vcSet (putString_aux rb rb.vcLine rb.vcCol s)).trans h,
         congrArg Aux.vcLine (putString_aux rb rb.vcLine rb.vcCol s), trivial, trivial⟩

/-- Without a cursor position the cursor-relative operations do nothing at all. -/
theorem cursor_unset_noop (rb : RB) (n : Int) (s : List UInt8) (h : rb.vcSet = false) :
    RB.skip rb n = rb ∧ RB.erase rb n = rb ∧ RB.skipTo rb n = rb ∧ RB.eraseTo rb n = rb ∧ RB.char rb n = rb ∧
    RB.text rb s = rb ∧ RB.textRet rb s = -1 := by
  unfold RB.skip RB.erase RB.skipTo RB.eraseTo RB.char RB.text RB.textRet
  simp [h]

/-- Non-vacuity: a 1×1 buffer with everything clipped away still advances the cursor by 5. -/
example : (RB.skip (RB.goto (RB.clip (RB.new 1 1 0 0) ⟨0, 0, 0, 0⟩) 0 0) 5).vcCol = 5 := by decide

end Tickit.Props.C03
