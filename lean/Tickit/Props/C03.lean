import Tickit.Proof.RBSpec
import Tickit.Proof.RBUtf8
import Tickit.Proof.RBSpan
/-
  C03 — render-buffer cells follow last-writer-wins under clip, mask and translation.

  The concrete model `Tickit.RB` (Model/RB.lean) is a statement-by-statement transcription of
  src/renderbuffer.c; the specification is `Tickit.RBAbs` (Model/RBAbs.lean).  Every theorem is universally
  quantified over buffers, coordinates (all of `Int`), texts and pens.
-/
namespace Tickit.Props.C03
open Tickit Tickit.RB Tickit.RBAbs

/-! ### cursor-relative operations advance the cursor by the columns requested, visible or not -/

/-- `skip n`, `erase n`: the cursor moves right by exactly `n` columns, on the same line, whatever the clip,
    the masks and the translation are (there is no hypothesis about them), and stays set. -/
theorem cursor_advances_skip (rb : RB) (n : Int) (h : rb.vcSet = true) :
    (RB.skip rb n).vcSet = true ∧ (RB.skip rb n).vcLine = rb.vcLine ∧ (RB.skip rb n).vcCol = rb.vcCol + n := by
  unfold RB.skip
  simp only [h, Bool.not_true, Bool.false_eq_true, if_false]
  exact ⟨(congrArg Aux.vcSet (skipRun_aux rb rb.vcLine rb.vcCol n)).trans h,
         congrArg Aux.vcLine (skipRun_aux rb rb.vcLine rb.vcCol n), trivial⟩

theorem cursor_advances_erase (rb : RB) (n : Int) (h : rb.vcSet = true) :
    (RB.erase rb n).vcSet = true ∧ (RB.erase rb n).vcLine = rb.vcLine ∧ (RB.erase rb n).vcCol = rb.vcCol + n := by
  unfold RB.erase
  simp only [h, Bool.not_true, Bool.false_eq_true, if_false]
  exact ⟨(congrArg Aux.vcSet (eraseRun_aux rb rb.vcLine rb.vcCol n)).trans h,
         congrArg Aux.vcLine (eraseRun_aux rb rb.vcLine rb.vcCol n), trivial⟩

/-- `skip_to c`, `erase_to c`: the cursor ends at column `c` (also when `c` is to the left: nothing is drawn). -/
theorem cursor_advances_skipTo (rb : RB) (c : Int) (h : rb.vcSet = true) :
    (RB.skipTo rb c).vcSet = true ∧ (RB.skipTo rb c).vcLine = rb.vcLine ∧ (RB.skipTo rb c).vcCol = c := by
  unfold RB.skipTo
  simp only [h, Bool.not_true, Bool.false_eq_true, if_false]
  split
  · exact ⟨(congrArg Aux.vcSet (skipRun_aux rb rb.vcLine rb.vcCol _)).trans h,
           congrArg Aux.vcLine (skipRun_aux rb rb.vcLine rb.vcCol _), trivial⟩
  · exact ⟨h, rfl, trivial⟩

theorem cursor_advances_eraseTo (rb : RB) (c : Int) (h : rb.vcSet = true) :
    (RB.eraseTo rb c).vcSet = true ∧ (RB.eraseTo rb c).vcLine = rb.vcLine ∧ (RB.eraseTo rb c).vcCol = c := by
  unfold RB.eraseTo
  simp only [h, Bool.not_true, Bool.false_eq_true, if_false]
  split
  · exact ⟨(congrArg Aux.vcSet (eraseRun_aux rb rb.vcLine rb.vcCol _)).trans h,
           congrArg Aux.vcLine (eraseRun_aux rb rb.vcLine rb.vcCol _), trivial⟩
  · exact ⟨h, rfl, trivial⟩

/-- `char`: one column (the code's own TODO: also for a double-width code point). -/
theorem cursor_advances_char (rb : RB) (cp : Int) (h : rb.vcSet = true) :
    (RB.char rb cp).vcSet = true ∧ (RB.char rb cp).vcLine = rb.vcLine ∧ (RB.char rb cp).vcCol = rb.vcCol + 1 := by
  unfold RB.char
  simp only [h, Bool.not_true, Bool.false_eq_true, if_false]
  exact ⟨(congrArg Aux.vcSet (putChar_aux rb rb.vcLine rb.vcCol cp)).trans h,
         congrArg Aux.vcLine (putChar_aux rb rb.vcLine rb.vcCol cp), trivial⟩

/-- `text s` for a text the width counter accepts with `n` columns: the cursor advances by `n` and `n` is
    returned, however much of the text is clipped or masked away. -/
theorem cursor_advances_text (rb : RB) (s : List UInt8) (n : Int) (h : rb.vcSet = true)
    (hs : Utf8.stringColumns s = some n) :
    (RB.text rb s).vcSet = true ∧ (RB.text rb s).vcLine = rb.vcLine ∧ (RB.text rb s).vcCol = rb.vcCol + n ∧
    RB.textRet rb s = n := by
  unfold RB.text RB.textRet putStringRet
  simp only [h, hs, Bool.not_true, Bool.false_eq_true, if_false]
  exact ⟨(congrArg Aux.vcSet (putString_aux rb rb.vcLine rb.vcCol s)).trans h,
         congrArg Aux.vcLine (putString_aux rb rb.vcLine rb.vcCol s), trivial, trivial⟩

/-- Without a cursor position the cursor-relative operations do nothing at all. -/
theorem cursor_unset_noop (rb : RB) (n : Int) (s : List UInt8) (h : rb.vcSet = false) :
    RB.skip rb n = rb ∧ RB.erase rb n = rb ∧ RB.skipTo rb n = rb ∧ RB.eraseTo rb n = rb ∧ RB.char rb n = rb ∧
    RB.text rb s = rb ∧ RB.textRet rb s = -1 := by
  unfold RB.skip RB.erase RB.skipTo RB.eraseTo RB.char RB.text RB.textRet
  simp [h]

/-- Non-vacuity: a 1×1 buffer with everything clipped away still advances the cursor by 5. -/
example : (RB.skip (RB.goto (RB.clip (RB.new 1 1 0 0) ⟨0, 0, 0, 0⟩) 0 0) 5).vcCol = 5 := by decide

/-! ### clipping can only shrink -/

/-- `clip` intersects: a cell inside the clipping region afterwards was inside before, and is inside the
    (translated) rectangle asked for — exactly. -/
theorem clip_shrinks (rb : RB) (wf : WF rb) (r : Rect) (L C : Int) :
    absClipRect (RB.clip rb r).clip L C = (absClipRect rb.clip L C && r.memb (L - rb.xlLine) (C - rb.xlCol)) := by
  have R := (clip_refines wf (refines_absOf rb) r).2
  have := R.clip L C
  exact this.symm

theorem clip_only_shrinks (rb : RB) (wf : WF rb) (r : Rect) (L C : Int)
    (h : absClipRect (RB.clip rb r).clip L C = true) : absClipRect rb.clip L C = true := by
  rw [clip_shrinks rb wf r L C, Bool.and_eq_true] at h; exact h.1

/-- No drawing operation, no cursor movement, translation, mask, pen change or `save` touches the clipping
    rectangle (only `clip` shrinks it; `restore` brings a saved one back; `reset` starts over). -/
theorem clip_untouched (rb : RB) (o : Op) (h : RBAbs.stackKind o = .keep ∨ RBAbs.stackKind o = .push) (hc : ∀ r, o ≠ .clip r) :
    (RB.step rb o).clip = rb.clip := by
  cases o with
  | textAt l c s => exact congrArg Aux.clip (putString_aux rb l c s)
  | text s =>
    show (RB.text rb s).clip = _; unfold RB.text; split
    · rfl
    · exact congrArg Aux.clip (putString_aux rb _ _ s)
  | eraseAt l c n => exact congrArg Aux.clip (eraseRun_aux rb l c n)
  | erase n =>
    show (RB.erase rb n).clip = _; unfold RB.erase; split
    · rfl
    · exact congrArg Aux.clip (eraseRun_aux rb _ _ n)
  | eraseTo c =>
    show (RB.eraseTo rb c).clip = _; unfold RB.eraseTo; split
    · rfl
    · show (if _ then _ else _ : RB).clip = _; split
      · exact congrArg Aux.clip (eraseRun_aux rb _ _ _)
      · rfl
  | skipAt l c n => exact congrArg Aux.clip (skipRun_aux rb l c n)
  | skip n =>
    show (RB.skip rb n).clip = _; unfold RB.skip; split
    · rfl
    · exact congrArg Aux.clip (skipRun_aux rb _ _ n)
  | skipTo c =>
    show (RB.skipTo rb c).clip = _; unfold RB.skipTo; split
    · rfl
    · show (if _ then _ else _ : RB).clip = _; split
      · exact congrArg Aux.clip (skipRun_aux rb _ _ _)
      · rfl
  | charAt l c cp => exact congrArg Aux.clip (putChar_aux rb l c cp)
  | char cp =>
    show (RB.char rb cp).clip = _; unfold RB.char; split
    · rfl
    · exact congrArg Aux.clip (putChar_aux rb _ _ cp)
  | hlineAt l c1 c2 st caps => exact congrArg Aux.clip (hlineAt_aux rb l c1 c2 st caps)
  | vlineAt l1 l2 c st caps => exact congrArg Aux.clip (vlineAt_aux rb l1 l2 c st caps)
  | clear => exact congrArg Aux.clip (clear_aux rb)
  | eraserect r => exact congrArg Aux.clip (eraserect_aux rb r)
  | skiprect r => exact congrArg Aux.clip (skiprect_aux rb r)
  | goto l c => rfl
  | ungoto => rfl
  | translate d r => rfl
  | clip r => exact absurd rfl (hc r)
  | mask r => rfl
  | setpen p => rfl
  | save => rfl
  | savepen => rfl
  | restore => rcases h with h | h <;> simp [RBAbs.stackKind] at h
  | reset => rcases h with h | h <;> simp [RBAbs.stackKind] at h

/-! ### `WF` is an invariant -/

/-- A new buffer (at least one column) is well-formed, whatever the uninitialised cursor fields hold. -/
theorem wf_new (lines cols g1 g2 : Int) (hl : 0 ≤ lines) (hc : 0 < cols) : WF (RB.new lines cols g1 g2) :=
  (new_refines lines cols g1 g2 hl hc).1

/-- Every operation preserves well-formedness: runs tile every line, CONT cells point at their start, LINE and
    CHAR cells are one column wide, mask depths lie in `[-1, depth]`, the clip stays inside the buffer, and
    neither `abort()` nor the fuel limit of the model is ever reached. -/
theorem wf_step (rb : RB) (wf : WF rb) (o : Op) : WF (RB.step rb o) := step_wf wf o

theorem wf_run (rb : RB) (wf : WF rb) (prog : List Op) : WF (RB.run rb prog) := run_wf prog wf

/-- In particular no program reaches `abort()` in `make_span`. -/
theorem never_aborts (lines cols g1 g2 : Int) (hl : 0 ≤ lines) (hc : 0 < cols) (prog : List Op) :
    (RB.run (RB.new lines cols g1 g2) prog).aborted = false ∧ (RB.run (RB.new lines cols g1 g2) prog).fuelOut = false :=
  ⟨(run_wf prog (wf_new lines cols g1 g2 hl hc)).aborted, (run_wf prog (wf_new lines cols g1 g2 hl hc)).fuelOut⟩

example : WF (RB.run (RB.new 2 5 7 7) [.textAt 0 1 [65, 66, 67], .mask ⟨0, 2, 1, 1⟩, .eraseAt 0 0 5]) :=
  wf_run _ (wf_new 2 5 7 7 (by decide) (by decide)) _

/-! ### `make_span` -/

/-- **`make_span_spec`**: on a well-formed line, `make_span(col, cols)` followed by the caller's assignment of
    a non-CONT state to the returned cell (a) leaves the line well-formed, (b) resets the mask depth of exactly
    the cells of the span, (c) changes the content of exactly the cells of the span: they show the new cell's
    content, every other column shows what it showed before — including the columns of a run that was cut at
    either end (the text of a cut TEXT run keeps its column alignment). -/
theorem make_span_spec (n : Int) (row : Row) (col cols : Int) (v : Cell) (h : RowWF n row) (h0 : 0 ≤ col)
    (hc : 0 < cols) (he : col + cols ≤ n) (hv1 : v.state ≠ .cont) (hv2 : v.cols = cols)
    (hv3 : (v.state = .line ∨ v.state = .char) → cols = 1) :
    RowWF n (spanRow n row col cols v) ∧
    (∀ k, k ≠ col → ((spanRow n row col cols v).get k).maskdepth = if col ≤ k ∧ k < col + cols then -1 else (row.get k).maskdepth) ∧
    (∀ k, 0 ≤ k → k < n → rowContent (spanRow n row col cols v) k =
      if col ≤ k ∧ k < col + cols then cellContent v (k - col) else rowContent row k) ∧
    makeSpanAborts n row col cols = false := by
  refine ⟨spanRow_wf v h h0 hc he hv1 hv2 hv3, ?_, fun k a b => spanRow_content v h h0 hc he hv1 k a b,
    makeSpanAborts_false h h0 hc he⟩
  intro k hk
  unfold spanRow
  rw [rowSet_get, if_neg hk, makeSpanRow_maskdepth _ _ _ _ _ hc]

/-! ### the refinement -/

/-- **Refinement, one operation**: on a well-formed buffer `rb` implementing the abstract state `a`, every
    operation yields a well-formed buffer implementing what the cell-wise specification says. -/
theorem refinement_step (rb : RB) (a : AState) (wf : WF rb) (R : Refines rb a) (o : Op) :
    WF (RB.step rb o) ∧ Refines (RB.step rb o) (RBAbs.step a o) := step_refines wf R o

/-- **Refinement, programs.** -/
theorem refinement_run (rb : RB) (a : AState) (wf : WF rb) (R : Refines rb a) (prog : List Op) :
    WF (RB.run rb prog) ∧ Refines (RB.run rb prog) (RBAbs.run a prog) := run_refines prog wf R

/-- From a fresh buffer. -/
theorem refinement_new (lines cols g1 g2 : Int) (hl : 0 ≤ lines) (hc : 0 < cols) (prog : List Op) :
    Refines (RB.run (RB.new lines cols g1 g2) prog) (RBAbs.run (AState.new lines cols) prog) :=
  (run_refines prog (new_refines lines cols g1 g2 hl hc).1 (new_refines lines cols g1 g2 hl hc).2).2

/-! ### last writer wins, confinement -/

/-- **Last writer wins.**  After any program the content of *every* cell `(L, C) ∈ Int × Int` of the buffer is
    what the cell-wise specification computes: there, each drawing operation overwrites exactly the cells it
    covers — in coordinates shifted by the translation in force at that moment — that are inside the clipping
    region and unmasked at that moment, with its own content and the pen of that moment (`RBAbs.paint`), line
    segments OR into line cells (`mergeLine`), and nothing else ever changes a cell; so a cell shows what the
    last such operation put there, and a cell never so covered still shows `skip`. -/
theorem last_writer_wins (lines cols g1 g2 : Int) (hl : 0 ≤ lines) (hc : 0 < cols) (prog : List Op) (L C : Int) :
    absContent (RB.run (RB.new lines cols g1 g2) prog) L C = (RBAbs.run (AState.new lines cols) prog).content L C :=
  ((refinement_new lines cols g1 g2 hl hc prog).content L C).symm

/-- **Last writer wins, as a statement about histories.**  Split any program as `pre ++ o :: post`.  If no
    operation of `post` writes the cell `(L, C)` — i.e. covers it, in the coordinates shifted by the translation
    then in force, while it is inside the clip and unmasked (`Writes`, `opCovers`) — then after the whole program
    the real buffer's cell holds exactly what `o` left in it (by `erase_cellwise`, `text_cellwise`, `paint`:
    `o`'s own content with the pen of that moment if `o` wrote it). -/
theorem last_writer_wins_trace (lines cols g1 g2 : Int) (hl : 0 ≤ lines) (hc : 0 < cols) (pre post : List Op) (o : Op)
    (L C : Int)
    (hnw : NeverWritten (RBAbs.step (RBAbs.run (AState.new lines cols) pre) o) post L C) :
    absContent (RB.run (RB.new lines cols g1 g2) (pre ++ o :: post)) L C =
      (RBAbs.step (RBAbs.run (AState.new lines cols) pre) o).content L C := by
  rw [last_writer_wins lines cols g1 g2 hl hc _ L C, absrun_append]
  exact neverWritten_unchanged post _ L C hnw

/-- **Cells never covered stay skipped**: if no operation of a program writes the cell, the real buffer's cell
    is still `skip` (in particular every cell outside the buffer, outside every clip, or always masked). -/
theorem never_written_stays_skip (lines cols g1 g2 : Int) (hl : 0 ≤ lines) (hc : 0 < cols) (prog : List Op)
    (L C : Int) (hnw : NeverWritten (AState.new lines cols) prog L C) :
    absContent (RB.run (RB.new lines cols g1 g2) prog) L C = .skip := by
  rw [last_writer_wins lines cols g1 g2 hl hc _ L C]
  exact neverWritten_unchanged prog _ L C hnw

/-- An operation changes no cell it does not write (specification level; with `last_writer_wins` this is a
    fact about the real cells). -/
theorem unwritten_unchanged (a : AState) (o : Op) (L C : Int) (h : ¬ Writes a o L C) :
    (RBAbs.step a o).content L C = a.content L C := not_writes_unchanged a o L C h

/-- Non-vacuity: a text cut in the middle by an erase — the right-hand remainder still shows *its* column
    of the string (`D` is column 3), the cut cells show the erase, and a cell never covered is `skip`. -/
example :
    let rb := RB.run (RB.new 1 6 0 0) [.textAt 0 0 [65, 66, 67, 68], .eraseAt 0 1 2]
    absContent rb 0 3 = .text Pen.empty [65, 66, 67, 68] 3 ∧ absContent rb 0 1 = .erase Pen.empty ∧
    absContent rb 0 0 = .text Pen.empty [65, 66, 67, 68] 0 ∧ absContent rb 0 5 = .skip := by
  decide +kernel

/-- The single-step form, from any well-formed buffer: an absolute erase writes exactly the covered, clipped,
    unmasked cells and leaves the rest of the grid as it was. -/
theorem erase_cellwise (rb : RB) (wf : WF rb) (l c n : Int) (L C : Int) :
    absContent (RB.eraseAt rb l c n) L C =
      if (L = l + rb.xlLine ∧ c + rb.xlCol ≤ C ∧ C < c + rb.xlCol + n) ∧ absClipRect rb.clip L C = true ∧ absMasked rb L C = false
      then .erase rb.pen else absContent rb L C := by
  have R := (eraseAt_refines wf (refines_absOf rb) l c n).2
  rw [← R.content L C]
  show (if inRun l c n (L - rb.xlLine) (C - rb.xlCol) && (absClipRect rb.clip L C && !absMasked rb L C) then _ else _) = _
  by_cases p : (L = l + rb.xlLine ∧ c + rb.xlCol ≤ C ∧ C < c + rb.xlCol + n) ∧ absClipRect rb.clip L C = true ∧ absMasked rb L C = false
  · rw [if_pos p, if_pos]
    · rfl
    · simp only [Bool.and_eq_true, inRun_iff, Bool.not_eq_true']
      exact ⟨by omega, p.2.1, p.2.2⟩
  · rw [if_neg p, if_neg]
    · rfl
    · intro x
      simp only [Bool.and_eq_true, inRun_iff, Bool.not_eq_true'] at x
      exact p ⟨by omega, x.2.1, x.2.2⟩

/-- The same for text: column `C` shows column `C − (c + xlCol)` of the string, wherever the run boundaries,
    the clip edge and the mask edges fall (also inside a double-width character). -/
theorem text_cellwise (rb : RB) (wf : WF rb) (l c : Int) (s : List UInt8) (n : Int) (hs : Utf8.stringColumns s = some n)
    (L C : Int) :
    absContent (RB.textAt rb l c s) L C =
      if (L = l + rb.xlLine ∧ c + rb.xlCol ≤ C ∧ C < c + rb.xlCol + n) ∧ absClipRect rb.clip L C = true ∧ absMasked rb L C = false
      then .text rb.pen s (C - (c + rb.xlCol)) else absContent rb L C := by
  have R := (textAt_refines wf (refines_absOf rb) l c s).2
  rw [← R.content L C]
  unfold RBAbs.textAt
  rw [hs]
  show (if inRun l c n (L - rb.xlLine) (C - rb.xlCol) && (absClipRect rb.clip L C && !absMasked rb L C) then _ else _) = _
  by_cases p : (L = l + rb.xlLine ∧ c + rb.xlCol ≤ C ∧ C < c + rb.xlCol + n) ∧ absClipRect rb.clip L C = true ∧ absMasked rb L C = false
  · rw [if_pos p, if_pos]
    · show Content.text _ _ _ = Content.text _ _ _
      have e : (absOf rb).xlCol = rb.xlCol := rfl
      congr 1; omega
    · simp only [Bool.and_eq_true, inRun_iff, Bool.not_eq_true']
      exact ⟨by omega, p.2.1, p.2.2⟩
  · rw [if_neg p, if_neg]
    · rfl
    · intro x
      simp only [Bool.and_eq_true, inRun_iff, Bool.not_eq_true'] at x
      exact p ⟨by omega, x.2.1, x.2.2⟩

/-- Line segments accumulate: drawing a segment ORs its bits into the cell's mask, so two segments leave the
    same mask in either order; the cell's pen is the current pen up to the library's pen equivalence. -/
theorem line_accumulates (p1 p2 : Pen) (b1 b2 : Nat) (old : Content) :
    lineMaskOf (mergeLine p1 b1 old) = lineMaskOf old ||| b1 ∧
    lineMaskOf (mergeLine p2 b2 (mergeLine p1 b1 old)) = lineMaskOf (mergeLine p1 b1 (mergeLine p2 b2 old)) :=
  ⟨mergeLine_lineMask p1 b1 old, mergeLine_comm_mask p1 p2 b1 b2 old⟩

/-- **Confinement.**  No drawing operation changes a cell that is outside the clipping region or under a mask
    (stated for the concrete buffer; `RBAbs.draw_step` is the same fact about the specification). -/
theorem confined (rb : RB) (wf : WF rb) (o : Op) (hd : isDraw o = true) (L C : Int)
    (h : (absClipRect rb.clip L C && !absMasked rb L C) = false) :
    absContent (RB.step rb o) L C = absContent rb L C := by
  have R := (step_refines wf (refines_absOf rb) o).2
  rw [← R.content L C]
  exact (draw_step (absOf rb) o hd).confined L C h

/-- ... and none of them touches the translation, the clip, the pen, the masks or the stack. -/
theorem draw_keeps_aux (rb : RB) (wf : WF rb) (o : Op) (hd : isDraw o = true) :
    (RB.step rb o).xlLine = rb.xlLine ∧ (RB.step rb o).xlCol = rb.xlCol ∧ (RB.step rb o).pen = rb.pen ∧
    (∀ L C, absMasked (RB.step rb o) L C = absMasked rb L C) ∧
    (∀ L C, absClipRect (RB.step rb o).clip L C = absClipRect rb.clip L C) := by
  have R := (step_refines wf (refines_absOf rb) o).2
  have F := (draw_step (absOf rb) o hd).frame
  refine ⟨R.xlLine.symm.trans F.xlLine, R.xlCol.symm.trans F.xlCol, R.pen.symm.trans F.pen, fun L C => ?_, fun L C => ?_⟩
  · rw [← R.masked L C, F.masked]; rfl
  · rw [← R.clip L C, F.clip]; rfl

/-! ### save / restore -/

/-- **Save/restore** (the full clause of C03; it was refuted on the code before the repair 85271b4 — `save` did
    not record whether the virtual cursor was set — and holds for the repaired code): for every well-formed
    buffer and every balanced program `p` (restores exactly what it saves, no `reset`) between `save` and
    `restore`, translation, clip, pen, masks and the virtual cursor — set or unset, and where — are back at their
    saved values, and the stored content is what `p` left. -/
def SaveRestoreFull : Prop :=
  ∀ (rb : RB) (p : List Op), WF rb → Balanced p →
    (RB.restore (RB.run (RB.save rb) p)).xlLine = rb.xlLine ∧ (RB.restore (RB.run (RB.save rb) p)).xlCol = rb.xlCol ∧
    (∀ L C, absClipRect (RB.restore (RB.run (RB.save rb) p)).clip L C = absClipRect rb.clip L C) ∧
    (RB.restore (RB.run (RB.save rb) p)).pen = rb.pen ∧
    (∀ L C, absMasked (RB.restore (RB.run (RB.save rb) p)) L C = absMasked rb L C) ∧
    getCursor (RB.restore (RB.run (RB.save rb) p)) = getCursor rb ∧
    (∀ L C, absContent (RB.restore (RB.run (RB.save rb) p)) L C = absContent (RB.run (RB.save rb) p) L C)

theorem save_restore : SaveRestoreFull := by
  intro rb p wf hb
  have e1 : RB.run rb (.save :: p ++ [.restore]) = RB.restore (RB.run (RB.save rb) p) := by
    show RB.run (RB.save rb) (p ++ [.restore]) = _
    rw [run_append]; rfl
  have e2 : RBAbs.run (absOf rb) (.save :: p ++ [.restore]) = RBAbs.restore (RBAbs.run (RBAbs.save (absOf rb)) p) := by
    show RBAbs.run (RBAbs.save (absOf rb)) (p ++ [.restore]) = _
    rw [absrun_append]; rfl
  have R := (run_refines (.save :: p ++ [.restore]) wf (refines_absOf rb)).2
  rw [e1, e2] at R
  have R1 := (run_refines (.save :: p) wf (refines_absOf rb)).2
  have e3 : RB.run rb (.save :: p) = RB.run (RB.save rb) p := rfl
  have e4 : RBAbs.run (absOf rb) (.save :: p) = RBAbs.run (RBAbs.save (absOf rb)) p := rfl
  rw [e3, e4] at R1
  obtain ⟨s1, s2, s3, s4, s5, s6, _, s8, _, _⟩ := save_restore_abs (absOf rb) p hb
  refine ⟨R.xlLine.symm.trans s1, R.xlCol.symm.trans s2, fun L C => ?_, R.pen.symm.trans s4, fun L C => ?_, ?_, fun L C => ?_⟩
  · rw [← R.clip L C, s3]; rfl
  · rw [← R.masked L C, s5]; rfl
  · rw [← R.vc, s6]; rfl
  · rw [← R.content L C, s8, R1.content L C]

/-- Regression for the repaired defect (known finding `vc_pos_set_not_saved`, fixed by 85271b4):
    `save; goto 0 0; restore` on a fresh buffer leaves the cursor unset again, and `goto; save; ungoto; restore`
    brings it back. -/
theorem save_goto_restore_cursor :
    getCursor (RB.restore (RB.goto (RB.save (RB.new 1 1 0 0)) 0 0)) = none ∧
    getCursor (RB.restore (RB.ungoto (RB.save (RB.goto (RB.new 1 1 7 7) 0 3)))) = some (0, 3) := by
  decide

/-- Non-vacuity: a balanced program with a nested pair, cursor moved and unset in between. -/
example : Balanced [.goto 1 1, .save, .ungoto, .translate 1 1, .restore, .mask ⟨0, 0, 1, 1⟩, .eraseAt 0 0 3] := rfl

/-! ### the text widths are C07's -/

/-- The width function the render-buffer model uses is the verified one of C07 (`Width.wcwidth`), hence equal
    to the search-free reading of the tables (`Props.C07.wcwidth_eq_spec`). -/
theorem width_is_c07 (cp : Nat) : RB.Utf8.wcwidth cp = Width.wcwidth cp ∧ RB.Utf8.wcwidth cp = Width.wcwidthSpec cp :=
  ⟨RB.Utf8.wcwidth_eq cp, (RB.Utf8.wcwidth_eq cp).trans (Props.C07.wcwidth_eq_spec cp)⟩

/-- **The columns of `text_cellwise` and `cursor_advances_text` are C07's columns.**  The string can be scanned
    into characters `cs` in the sense of C07 (`Props.C07.Scans`; by `Props.C07.scans_sound` each `c ∈ cs` is what
    the decoder finds at its offset, with `c.w = wcwidth c.cp ≥ 0`); the render buffer accepts the text exactly if
    that scan reaches the end of the string, and then `n` in `Utf8.stringColumns s = some n` is the sum of the
    widths of its characters. -/
theorem text_columns_are_c07 (s : List UInt8) :
    ∃ cs t, Props.C07.Scans (RB.Utf8.memOf s) (s.length + 1) (some s.length) Tickit.Utf8.Pos.zero cs t ∧
      RB.Utf8.stringColumns s = (if t = .eof then some ((cs.map (·.w)).sum) else none) :=
  RB.Utf8.stringColumns_c07 s

/-! ### the public text query -/

/-- **`get_cell_text` answers from the abstract content.**  On a well-formed buffer
    `tickit_renderbuffer_get_cell_text(rb, l, c, buffer, len)` returns `-1` exactly for cells outside the clipping
    region (after translation), and otherwise what `contentText` says about the abstract content of the cell
    `(l + xlLine, c + xlCol)` — independent of how the runs around it were split, shortened or re-pointed. -/
theorem get_cell_text_spec (rb : RB) (wf : WF rb) (l c : Int) (len : Nat) :
    getCellText rb l c len =
      if absClipRect rb.clip (l + rb.xlLine) (c + rb.xlCol) = true
      then contentText (absContent rb (l + rb.xlLine) (c + rb.xlCol)) len else (-1, []) :=
  getCellText_abs wf l c len

/-- Skipped and erased cells have no text; a CHAR cell yields the UTF-8 encoding of its code point and a LINE cell
    that of its glyph (`-1` if the buffer is too short). -/
theorem cell_text_simple (p : Pen) (m : Nat) (cp : Int) (len : Nat) :
    contentText .skip len = (0, []) ∧ contentText (.erase p) len = (0, []) ∧
    contentText (.char p cp) len =
      (if len < (RB.Utf8.put cp.toNat).length then ((-1 : Int), []) else (((RB.Utf8.put cp.toNat).length : Int), RB.Utf8.put cp.toNat)) ∧
    contentText (.line p m) len =
      (if len < (RB.Utf8.put (Gen.RBWidth.linemaskToChar.getD m 0)).length then ((-1 : Int), [])
       else (((RB.Utf8.put (Gen.RBWidth.linemaskToChar.getD m 0)).length : Int), RB.Utf8.put (Gen.RBWidth.linemaskToChar.getD m 0))) :=
  ⟨rfl, rfl, rfl, rfl⟩

/-- **The text of a text cell is a grapheme of its string, in C07's terms**: for a cell showing column `k` of
    `s`, with `st` = where C07's specification (`specRun`) stops counting whole graphemes of `s` under the limit
    "`k` columns" and `en` = one grapheme further, the query returns the bytes `s[st.bytes, en.bytes)`. -/
theorem cell_text_of_text (p : Pen) (s : List UInt8) (k : Int) (len : Nat) :
    ∃ cs1 t1 cs2 t2 st en,
      Props.C07.Scans (RB.Utf8.memOf s) (s.length + 1) none Tickit.Utf8.Pos.zero cs1 t1 ∧
      st = (Tickit.Utf8.specRun (some ⟨none, -1, -1, k⟩) (Props.C07.graphemes cs1) t1 Tickit.Utf8.Pos.zero).pos ∧
      Props.C07.Scans (RB.Utf8.memOf s) (s.length + 1) none st cs2 t2 ∧
      en = (Tickit.Utf8.specRun (some ⟨none, -1, st.graphemes + 1, -1⟩) (Props.C07.graphemes cs2) t2 st).pos ∧
      contentText (.text p s k) len =
        (if (len : Int) < (en.bytes : Int) - st.bytes then (-1, [])
         else ((en.bytes : Int) - st.bytes, (s.drop st.bytes).take (en.bytes - st.bytes))) :=
  cellText_text_c07 p s k len

/-- Non-vacuity: `a`, combining acute, fullwidth `A`, `b` drawn at column 0; the cell at column 0 yields
    `a` + the combining mark (3 bytes), column 1 the wide character, column 3 `b`; a cell outside the clip `-1`. -/
example :
    let rb := RB.run (RB.new 1 6 0 0) [.textAt 0 0 [0x61, 0xcc, 0x81, 0xef, 0xbc, 0xa1, 0x62]]
    getCellText rb 0 0 255 = (3, [0x61, 0xcc, 0x81]) ∧ getCellText rb 0 1 255 = (3, [0xef, 0xbc, 0xa1]) ∧
    getCellText rb 0 3 255 = (1, [0x62]) ∧ getCellText rb 0 9 255 = (-1, []) := by
  decide +kernel

/-- The single-cell query with any buffer (`getcell` of the harness: also a NULL buffer, and the terminator)
    returns the value and the bytes of `get_cell_text_spec`'s `getCellText`. -/
theorem get_cell_text_query (rb : RB) (l c : Int) (len : Nat) :
    (getCellTextQ rb l c (some len)).ret = (getCellText rb l c len).1 ∧
    (getCellTextQ rb l c (some len)).bytes = (getCellText rb l c len).2 := getCellTextQ_eq rb l c len

/-! ### the formatted text functions -/

/-- **`textf`, `textf_at`, `vtextf`, `vtextf_at` draw exactly the formatted result, whatever its length.**
    `put_vtextf` of the working tree (stack buffer, `tmp_alloc`, second `vsnprintf` into the scratch area; constants
    regenerated from the source) hands the complete result `s` of the formatting to `put_text` — nothing is lost to the
    terminator at 64 bytes or at the size of the scratch area (256, 512, …) —, never reads past the area, and the
    area only grows (so its size stays positive, from `tickit_renderbuffer_new` on).  Hence these functions are
    `text`/`text_at` on `s`, and every theorem above about `Op.textAt`/`Op.text` applies to them. -/
theorem textf_formats_exactly (tmpsize : Nat) (h : 0 < tmpsize) (s : List UInt8) :
    (∃ size, vtextf tmpsize s = some (s, size) ∧ tmpsize ≤ size) ∧ 0 < Gen.RBSpan.c_TMPSIZE_INIT :=
  ⟨vtextfWith_exact _ (by decide) tmpsize h s, by decide⟩

/-- Non-vacuity (and the boundary the seeded regression `tmp_alloc(rb, len)` breaks): a result exactly as long as
    the scratch area is passed on whole, and the area doubles; without the extra byte it would lose its last
    character. -/
example : vtextf 4 (List.replicate 300 65) = some (List.replicate 300 65, 512) ∧
    vtextfWith ⟨2, 0⟩ 4 [65, 66, 67, 68] = some ([65, 66, 67, 0], 4) := by decide +kernel

/-! ### the span query

  `tickit_renderbuffer_get_span` is an observation API that no clause of C03 speaks about: the statements below are a
  record of how its answer relates to the abstract content (they are not part of the property, the check gives no
  SPEC verdict on the answers, and the repair is a note that is not applied). -/

/-- The specification of `tickit_renderbuffer_get_span` for a reading `cfg` of its two critical statements: on a
    well-formed buffer the query for user coordinates `(l, c)` fails (`-1`, nothing stored) exactly for cells outside
    the clipping region (after translation); otherwise it reports a piece of `n ≥ 1` columns, inside the buffer, that
    is homogeneous in the abstract content (`homogeneous`: every cell of it shows the continuation of the first
    one's content; a line or character cell is a piece of its own) — however the runs were split, shortened or
    re-pointed — and answers what `specSpanOut` says about the content of the cell and that `n`: inactive and empty
    for a skipped piece; otherwise active, with the content's pen, the text of the `n` columns (`specSpanBytes`),
    NUL-terminated if there is room, its length in `info->len` and as the return value, `-1` if it does not fit. -/
def GetSpanSpec (cfg : SpanCfg) : Prop :=
  ∀ (rb : RB), WF rb → ∀ (l c : Int) (info infoPen buf : Bool) (len : Nat),
    if absClipRect rb.clip (l + rb.xlLine) (c + rb.xlCol) = true then
      ∃ n, homogeneous (absOf rb) (l + rb.xlLine) (c + rb.xlCol) n = true ∧
        getSpanQ cfg rb l c info infoPen buf len =
          specSpanOut (absContent rb (l + rb.xlLine) (c + rb.xlCol)) n info infoPen buf len
    else getSpanQ cfg rb l c info infoPen buf len = { ret := -1 }

/-- **`get_span` answers from the abstract content** — for the repaired text (fixes/C03_get_span.patch:
    `return retlen;`, column limit `offs + cols`; a note, not applied). -/
theorem get_span_spec : GetSpanSpec ⟨true, true⟩ :=
  fun _ wf l c info infoPen buf len => getSpanQ_abs wf l c info infoPen buf len

/-- The model of the working tree is the repaired one exactly when the extractor reads both repaired statements;
    then the specification holds of it. -/
theorem get_span_spec_tree (h : spanCfg = ⟨true, true⟩) : GetSpanSpec spanCfg := h ▸ get_span_spec

/-- A text run after an overwrite: `abcdef`, then `A` over column 2. -/
def spanExample : RB := RB.run (RB.new 1 6 0 0) [.textAt 0 0 [0x61, 0x62, 0x63, 0x64, 0x65, 0x66], .charAt 0 2 0x41]

/-- **The text as found does not satisfy that statement** (recorded, not acted upon; correspondence regressions
    corpus/C03/get_span_returns_buflen.ops, get_span_text_limit.ops): with `return len;` the query at column 0 of `ab│A│def` with a 16-byte buffer returns 16,
    not the 2 bytes of `ab`; with the column limit `span->cols` the piece `def` (3 columns from column 3 of its
    string) yields an empty text.  Either statement alone breaks it. -/
theorem get_span_found_counterexample :
    ¬ GetSpanSpec ⟨false, false⟩ ∧ ¬ GetSpanSpec ⟨false, true⟩ ∧ ¬ GetSpanSpec ⟨true, false⟩ := by
  -- a query that reports `n0` columns but does not answer what the specification says about `n0` columns refutes it
  have aux : ∀ (cfg : SpanCfg) (rb : RB), WF rb → ∀ (l c : Int) (len : Nat) (n0 : Int),
      absClipRect rb.clip (l + rb.xlLine) (c + rb.xlCol) = true →
      (getSpanQ cfg rb l c true true true len).nColumns = some n0 →
      getSpanQ cfg rb l c true true true len ≠ specSpanOut (absContent rb (l + rb.xlLine) (c + rb.xlCol)) n0 true true true len →
      ¬ GetSpanSpec cfg := by
    intro cfg rb wf l c len n0 hclip hn hne h
    have := h rb wf l c true true true len
    rw [if_pos hclip] at this
    obtain ⟨n, _, e⟩ := this
    have e2 : some n0 = some n := by
      rw [← hn, e]; simp [specSpanOut]; split <;> rfl
    cases e2
    exact hne e
  have spanExample_wf : WF spanExample := wf_run _ (wf_new 1 6 0 0 (by decide) (by decide)) _
  refine ⟨?_, ?_, ?_⟩
  · exact aux _ spanExample spanExample_wf 0 0 16 2 (by decide +kernel) (by decide +kernel) (by decide +kernel)
  · exact aux _ spanExample spanExample_wf 0 0 16 2 (by decide +kernel) (by decide +kernel) (by decide +kernel)
  · exact aux _ spanExample spanExample_wf 0 3 16 3 (by decide +kernel) (by decide +kernel) (by decide +kernel)

/-- Non-vacuity of `get_span_spec`: the three pieces of `ab│A│def` as the repaired query reports them — length,
    activity, pen, text and terminator; a buffer that is too short; a NULL buffer; a cell outside the clip. -/
example :
    getSpanQ ⟨true, true⟩ spanExample 0 3 true true true 16 =
      { ret := 3, nColumns := some 3, isActive := some true, pen := some Pen.empty, len := some 3, textSet := true,
        bytes := [0x64, 0x65, 0x66], term := true } ∧
    getSpanQ ⟨true, true⟩ spanExample 0 4 true false true 2 =
      { ret := 2, nColumns := some 2, isActive := some true, len := some 2, textSet := true, bytes := [0x65, 0x66] } ∧
    (getSpanQ ⟨true, true⟩ spanExample 0 2 true false true 8).bytes = [0x41] ∧
    (getSpanQ ⟨true, true⟩ spanExample 0 0 true false true 1).ret = -1 ∧
    (getSpanQ ⟨true, true⟩ spanExample 0 0 false false false 0).ret = 2 ∧
    getSpanQ ⟨true, true⟩ spanExample 0 6 true true true 16 = { ret := -1 } ∧
    homogeneous (absOf spanExample) 0 3 3 = true := by
  decide +kernel

/-- **The text of a piece of a text run, in C07's terms**: for `n` columns of the string `s` from column `k` on, with
    `st` = where C07's specification (`specRun`) stops counting whole graphemes of `s` under the limit "`k` columns"
    and `en` = where it stops, continuing from `st`, under the limit "`k + n` columns", the text is the bytes
    `s[st.bytes, en.bytes)` and its length `en.bytes − st.bytes`. -/
theorem span_text_of_text (p : Pen) (s : List UInt8) (k n : Int) :
    ∃ cs1 t1 cs2 t2 st en,
      Props.C07.Scans (RB.Utf8.memOf s) (s.length + 1) none Tickit.Utf8.Pos.zero cs1 t1 ∧
      st = (Tickit.Utf8.specRun (some ⟨none, -1, -1, k⟩) (Props.C07.graphemes cs1) t1 Tickit.Utf8.Pos.zero).pos ∧
      Props.C07.Scans (RB.Utf8.memOf s) (s.length + 1) none st cs2 t2 ∧
      en = (Tickit.Utf8.specRun (some ⟨none, -1, -1, k + n⟩) (Props.C07.graphemes cs2) t2 st).pos ∧
      specSpanBytes (.text p s k) n = (s.drop st.bytes).take (en.bytes - st.bytes) ∧
      specSpanLen (.text p s k) n = (en.bytes : Int) - st.bytes :=
  spanText_text_c07 p s k n

/-- **… which is what lies between two counts from the start of the string.**  For `0 ≤ k`, `0 ≤ n`, scanning the
    characters of `s` once: the text of the `n` columns from column `k` on is `s[st.bytes, en.bytes)` with `st` /
    `en` the positions where C07's specification stops counting whole graphemes under the limits "`k` columns" /
    "`k + n` columns" (the code resumes the second count at `st`; `Props.C07.count_resumable` makes that the same). -/
theorem span_text_between_counts (p : Pen) (s : List UInt8) (k n : Int) (hk : 0 ≤ k) (hn : 0 ≤ n) :
    ∃ cs t st en,
      Props.C07.Scans (RB.Utf8.memOf s) (s.length + 1) none Tickit.Utf8.Pos.zero cs t ∧
      st = (Tickit.Utf8.specRun (some ⟨none, -1, -1, k⟩) (Props.C07.graphemes cs) t Tickit.Utf8.Pos.zero).pos ∧
      en = (Tickit.Utf8.specRun (some ⟨none, -1, -1, k + n⟩) (Props.C07.graphemes cs) t Tickit.Utf8.Pos.zero).pos ∧
      st.bytes ≤ en.bytes ∧
      specSpanBytes (.text p s k) n = (s.drop st.bytes).take (en.bytes - st.bytes) ∧
      specSpanLen (.text p s k) n = (en.bytes : Int) - st.bytes :=
  spanText_between_counts p s k n hk hn

/-- Non-vacuity: `a`, combining acute, fullwidth `A`, `b`: the two columns from column 1 on are the wide character
    (3 bytes); one column from column 1 on ends inside it and is empty; one column from column 2 on begins inside it
    and takes it whole together with nothing else. -/
example :
    specSpanBytes (.text Pen.empty [0x61, 0xcc, 0x81, 0xef, 0xbc, 0xa1, 0x62] 1) 2 = [0xef, 0xbc, 0xa1] ∧
    specSpanBytes (.text Pen.empty [0x61, 0xcc, 0x81, 0xef, 0xbc, 0xa1, 0x62] 1) 1 = [] ∧
    specSpanBytes (.text Pen.empty [0x61, 0xcc, 0x81, 0xef, 0xbc, 0xa1, 0x62] 2) 1 = [0xef, 0xbc, 0xa1] ∧
    specSpanLen (.text Pen.empty [0x61, 0xcc, 0x81, 0xef, 0xbc, 0xa1, 0x62] 0) 4 = 7 := by
  decide +kernel

/-- The other contents: nothing for skipped and erased pieces, the glyph of a line cell, the character of a
    character cell. -/
theorem span_text_simple (p : Pen) (m : Nat) (cp n : Int) :
    specSpanBytes .skip n = [] ∧ specSpanBytes (.erase p) n = [] ∧
    specSpanBytes (.line p m) n = RB.Utf8.put (Gen.RBWidth.linemaskToChar.getD m 0) ∧
    specSpanBytes (.char p cp) n = RB.Utf8.put cp.toNat := ⟨rfl, rfl, rfl, rfl⟩

/-! ### facts regenerated from the C source on every run (`bin/extract.d/25_rbwidth.py` → `Gen/RBWidth.lean`) -/

open Tickit.Gen.RBWidth in
/-- The model's cell states carry the values of `enum TickitRenderBufferCellState`. -/
theorem gen_cell_states :
    CState.toNat .skip = c_SKIP ∧ CState.toNat .text = c_TEXT ∧ CState.toNat .erase = c_ERASE ∧
    CState.toNat .cont = c_CONT ∧ CState.toNat .line = c_LINE ∧ CState.toNat .char = c_CHAR := by decide

open Tickit.Gen.RBWidth in
/-- The four directions of a line mask are disjoint two-bit fields inside one byte (so OR-accumulation of one
    direction never disturbs another), the line styles fit in two bits, and the caps are two distinct bits. -/
theorem gen_linemask_layout :
    [c_NORTH_SHIFT, c_EAST_SHIFT, c_SOUTH_SHIFT, c_WEST_SHIFT].Pairwise (fun x y => x + 2 ≤ y ∨ y + 2 ≤ x) ∧
    (∀ s ∈ [c_NORTH_SHIFT, c_EAST_SHIFT, c_SOUTH_SHIFT, c_WEST_SHIFT], s + 2 ≤ 8) ∧
    c_TICKIT_LINE_SINGLE < 4 ∧ c_TICKIT_LINE_DOUBLE < 4 ∧ c_TICKIT_LINE_THICK < 4 ∧
    c_TICKIT_LINECAP_START &&& c_TICKIT_LINECAP_END = 0 ∧ c_TICKIT_LINECAP_START ≠ 0 ∧ c_TICKIT_LINECAP_END ≠ 0 ∧
    linemaskToChar.size = 256 := by decide +kernel

/-- A table `bisearch` may be used on: intervals well-formed, strictly increasing, not touching. -/
def sortedIntervals (t : Array (Nat × Nat)) : Bool :=
  (List.range t.size).all fun i =>
    decide ((t.getD i (0, 0)).1 ≤ (t.getD i (0, 0)).2) &&
    (decide (i + 1 ≥ t.size) || decide ((t.getD i (0, 0)).2 < (t.getD (i + 1) (0, 0)).1))

open Tickit.Gen.RBWidth in
/-- The two width tables of the working tree are sorted and non-overlapping (the precondition of the binary
    search the width lookup uses), and not empty. -/
theorem gen_width_tables_sorted :
    sortedIntervals combining = true ∧ sortedIntervals fullwidth = true ∧ 0 < combining.size ∧ 0 < fullwidth.size := by
  decide +kernel

/-- Widths of the characters the generator uses most: ASCII 1, combining acute 0, fullwidth A 2, CJK 2,
    an emoji from `fullwidth.inc` 2 (a test of the tables above, not a theorem about all of Unicode). -/
example : Utf8.wcwidth 0x41 = 1 ∧ Utf8.wcwidth 0x301 = 0 ∧ Utf8.wcwidth 0xff21 = 2 ∧ Utf8.wcwidth 0x4e00 = 2 ∧
    Utf8.wcwidth 0x1f600 = 2 := by decide +kernel

end Tickit.Props.C03
