import Tickit.Proof.Sgr
import Tickit.Proof.SgrFrame
import Tickit.Proof.SgrSuspend
import Tickit.Proof.SgrStrict
import Tickit.Proof.SgrBuf
import Tickit.Model.Modes
import Tickit.Gen.TermBuf
/-
  C10 — Terminal rendering attributes always equal the logical pen after setpen/chpen.

  Vocabulary (all from `Model/TermPen.lean`, `Model/Sgr.lean`):
    `runOps cfg ops {}`      the modelled library (term.c's cached pen and delta, the xterm driver's SGR encoder) applied to a
                             history of requests on a fresh terminal, *together with* the reference VT that reads every byte it emits;
                             `none` = the encoder wrote past `int params[cfg.cap]`
    `logical ops`            the logical pen: `setpen p` makes it `total p` (p, everything else default), `chpen p` overlays p
    `expected cfg l`         the rendering attributes the logical pen `l` asks for on a terminal with `cfg.colors` colours and the
                             capabilities `cfg.caps` (palette approximation, RGB only with `rgb8`); `faint` off, nothing not understood
    `st.vt.attrs`            the rendering attributes in force, as determined by the SGR bytes emitted so far

  The xterm driver's `start` leaves the terminal in ground state with default attributes (`start_resets`), which is where
  `runOps … {}` starts.

  History.  Four defects were found on the original tree.  Three are repaired in /repo and the model mirrors the repaired
  code: `int params[16]` (now 20; `params_fit` is stated for every capacity), underline style 2 without `:` sub-parameters
  sent as `4;2` = underline + faint (now SGR 21), a colour beyond the palette compared unconverted and therefore sent again
  by every request (now compared after conversion: `noop_silent` has no palette hypothesis any more).  Their probes stay in
  `corpus/C10/` as regressions.  Two things remain false of the code and of the model, are kept as the full statement
  `sgr_inv_full`, refuted by kernel-checked witnesses, and excluded from `sgr_inv` by `PenOk`:
    * an underline style ≥ 3 (curly) on a terminal without `:` sub-parameters has no encoding and is drawn single (`PenOk.under`);
    * `TICKIT_PEN_SIZEPOS_SMALL` has no encoding (`PenOk.sizepos`).
  What remains true when such values ARE requested is stated without `PenOk` (section "without PenOk" below): every other
  rendering attribute still equals the logical pen after every history (`sgr_inv_unrestricted`), an unencodable request
  disturbs nothing else (`chpen_frame`, `unencodable_change_is_silent`), and the size/position is right again as soon as the
  logical pen asks for a value that has a parameter.
-/
namespace Tickit.Props.C10
open Tickit Tickit.TermPen Tickit.Sgr Tickit.Proof.Sgr

/-- What a pen must satisfy for the xterm encoding to say what the pen says (`Proof.Sgr.DeltaOk`): underline style ≥ 3 only
    with `:` sub-parameters, size/position one of normal, superscript, subscript. -/
abbrev PenOk := DeltaOk

/-- "any values in range": colour −1…255 with 8-bit RGB, underline 0…3, altfont −1…9, size/position 0…3 (tickit.h lists
    `TICKIT_PEN_SIZEPOS_SMALL` among the values). -/
def PenInRange (p : Pen) : Prop :=
  (∀ c, (p.fg = some c ∨ p.bg = some c) → -1 ≤ c.idx ∧ c.idx ≤ 255 ∧ ∀ x, c.rgb = some x → x.r < 256 ∧ x.g < 256 ∧ x.b < 256) ∧
  (∀ v, p.under = some v → 0 ≤ v ∧ v ≤ 3) ∧ (∀ v, p.altfont = some v → -1 ≤ v ∧ v ≤ 9) ∧
  (∀ v, p.sizepos = some v → 0 ≤ v ∧ v ≤ 3)

/-- `PenOk` excludes exactly the two triggers: a pen with values in range is `PenOk` unless it asks for an underline
    style ≥ 3 on a terminal without `:` sub-parameters or for `TICKIT_PEN_SIZEPOS_SMALL`. -/
theorem penOk_of_inRange (caps : Caps) (p : Pen) (hr : PenInRange p)
    (hu : caps.colon = true ∨ ∀ v, p.under = some v → v ≤ 2)
    (hs : p.sizepos ≠ some Tickit.Gen.Sgr.sizeposSmall) : PenOk caps p := by
  obtain ⟨_, hunder, _, hsize⟩ := hr
  constructor
  · intro v hv
    refine ⟨(hunder v hv).1, ?_⟩
    rcases hu with hu | hu
    · exact Or.inl hu
    · exact Or.inr (hu v hv)
  · intro v hv
    have h03 := hsize v hv
    have hne : v ≠ 1 := by
      intro h1
      apply hs
      rw [hv, h1]
      rfl
    simp only [Tickit.Gen.Sgr.sizeposSuperscript, Tickit.Gen.Sgr.sizeposSubscript]
    omega

/-! ### the terminal after `start` -/

/-- After the bytes the xterm driver writes when it starts, the terminal is in ground state with default rendering
    attributes: the state every history below starts from. -/
theorem start_resets : run xtermStart {} = {} := by decide +kernel

/-! ### palette -/

/-- Every entry of the table generated from `src/xterm-palette.inc` lies inside the palette it approximates into, and the
    approximation is the identity on the colours that palette already has. -/
theorem palette_table :
    Tickit.Gen.Palette.as16.size = 256 ∧ Tickit.Gen.Palette.as8.size = 256 ∧
    (∀ i : Fin 256, Tickit.Gen.Palette.as16.getD i.val 0 < 16 ∧ Tickit.Gen.Palette.as8.getD i.val 0 < 8) ∧
    (∀ i : Fin 16, Tickit.Gen.Palette.as16.getD i.val 0 = i.val) ∧ (∀ i : Fin 8, Tickit.Gen.Palette.as8.getD i.val 0 = i.val) := by
  decide +kernel

/-- The hand model of `convert_colour` equals the translation of the function's source text (regenerated on every run);
    nothing is claimed when the extractor could not translate it. -/
theorem convertColour_leaf_agrees :
    Tickit.Gen.Sgr.convertColourLeafOk = true → Tickit.Gen.Sgr.convertColourLeaf = convertColour := by
  intro h
  first
    | (funext i c; rfl)
    | exact absurd h (by decide)

/-- "Colours beyond the terminal's palette are replaced by their 8/16-colour approximation": the colour the cached pen
    holds is inside the palette; an index ≥ `colors` became the generated `as16` entry (`colors ≥ 16`) or `as8` entry
    (otherwise) without RGB, anything else is kept as it is. -/
theorem palette_conv (colors : Int) (h8 : 8 ≤ colors) (c : Colour) :
    (convColour colors c).idx < colors ∧
    (c.idx < colors → convColour colors c = c) ∧
    (colors ≤ c.idx → convColour colors c =
        ⟨if colors ≥ 16 then (Tickit.Gen.Palette.as16.getD c.idx.toNat 0 : Nat) else (Tickit.Gen.Palette.as8.getD c.idx.toNat 0 : Nat), none⟩) := by
  refine ⟨convColour_lt colors c h8, convColour_of_lt colors c, ?_⟩
  intro h
  unfold convColour convertColour
  rw [if_pos (by omega)]

example : convColour 8 ⟨200, some ⟨1, 2, 3⟩⟩ = ⟨5, none⟩ ∧ convColour 16 ⟨200, none⟩ = ⟨13, none⟩ ∧
    convColour 256 ⟨200, some ⟨1, 2, 3⟩⟩ = ⟨200, some ⟨1, 2, 3⟩⟩ := by decide +kernel

/-! ### the invariant -/

/-- **sgr_inv.** After any history of set-pen and change-pen requests (that does not overflow `params[]`), on a terminal
    with at least 8 colours, every pen satisfying `PenOk`: the terminal is between control sequences, the cached pen is the
    palette-converted logical pen, and the rendering attributes in force — as determined by the bytes emitted so far — are
    exactly what the logical pen asks for, every attribute the logical pen does not mention being default. -/
theorem sgr_inv (cfg : Cfg) (ops : List Op) (st : TState) (h8 : 8 ≤ cfg.colors)
    (hok : ∀ op ∈ ops, PenOk cfg.caps op.pen) (h : runOps cfg ops {} = some st) :
    st.vt.st = .ground ∧ st.cache = convPen cfg.colors (logical ops) ∧ st.vt.attrs = expected cfg (logical ops) := by
  have hinv := runOps_inv cfg ops {} st hok (inv_init cfg.caps) h
  have hc := runOps_cache cfg h8 ops {} st {} rfl h
  refine ⟨hinv.1, hc, ?_⟩
  rw [hinv.2, hc]
  rfl

def cfgEx : Cfg := { colors := 256, caps := ⟨true, true⟩, cap := 16 }
def opsEx : List Op :=
  [.set { fg := some ⟨200, some ⟨10, 0, 255⟩⟩, bold := some true, under := some 2 },
   .ch { bg := some ⟨12, none⟩, bold := some false, altfont := some 3 },
   .ch { fg := some ⟨-1, none⟩, sizepos := some 2 }]

/-- non-vacuity: a three-request history with RGB, double underline and the 90–97 range runs, and ends where the theorem says -/
example : ∃ st, runOps cfgEx opsEx {} = some st ∧ (∀ op ∈ opsEx, PenOk cfgEx.caps op.pen) ∧
    st.vt.attrs = { bg := .idx 12, under := 2, font := 3, sizepos := .super } := by
  refine ⟨_, rfl, ?_, by decide +kernel⟩
  intro op hop
  simp only [opsEx, List.mem_cons, List.not_mem_nil, or_false] at hop
  rcases hop with h | h | h <;> subst h <;> constructor <;> intro v hv <;> cases hv <;> decide

/-- The full statement of the invariant: every pen with values in range. -/
def sgr_inv_full : Prop :=
  ∀ (cfg : Cfg) (ops : List Op) (st : TState), 8 ≤ cfg.colors → (∀ op ∈ ops, PenInRange op.pen) →
    runOps cfg ops {} = some st → st.vt.attrs = expected cfg (logical ops)

/-- Curly underline on a terminal without `:` sub-parameters: there is no way to say it, the driver sends `CSI 4 m` and the
    terminal underlines once. -/
theorem sgr_inv_counterexample_under : ¬ sgr_inv_full := by
  intro h
  have := h { colors := 256, caps := ⟨false, false⟩, cap := 20 } [.ch { under := some 3 }]
    { cache := { under := some 3 }, vt := { attrs := { under := 1 } } } (by decide)
    (by
      intro op hop
      simp only [List.mem_cons, List.not_mem_nil, or_false] at hop
      subst hop
      refine ⟨?_, ?_, ?_, ?_⟩
      · intro c hc; rcases hc with hc | hc <;> cases hc
      · intro v hv; cases hv; decide
      · intro v hv; cases hv
      · intro v hv; cases hv)
    (by decide +kernel)
  exact absurd this (by decide +kernel)

/-- Regression for the repaired `4;2`: double underline without `:` sub-parameters is sent as `CSI 21 m` and read back as
    double, nothing else switched on. -/
theorem under_double_without_colon :
    ∃ st, runOps { colors := 256, caps := ⟨false, false⟩, cap := 20 } [.ch { under := some 2 }] {} = some st ∧
      st.vt.attrs = { under := 2 } :=
  ⟨{ cache := { under := some 2 }, vt := { attrs := { under := 2 } } }, by decide +kernel, by decide +kernel⟩

/-- `TICKIT_PEN_SIZEPOS_SMALL` after superscript: nothing is sent, the terminal stays in superscript. -/
theorem sgr_inv_counterexample_small : ¬ sgr_inv_full := by
  intro h
  have := h { colors := 256, caps := ⟨true, true⟩, cap := 16 } [.ch { sizepos := some 2 }, .ch { sizepos := some 1 }]
    { cache := { sizepos := some 1 }, vt := { attrs := { sizepos := .super } } } (by decide)
    (by
      intro op hop
      simp only [List.mem_cons, List.not_mem_nil, or_false] at hop
      rcases hop with hop | hop <;> subst hop <;> refine ⟨?_, ?_, ?_, ?_⟩
      all_goals first
        | (intro c hc; rcases hc with hc | hc <;> cases hc)
        | (intro v hv; cases hv; decide)
        | (intro v hv; cases hv))
    (by decide +kernel)
  exact absurd this (by decide +kernel)

/-! ### set-pen -/

def AllPresent (p : Pen) : Prop :=
  p.fg.isSome ∧ p.bg.isSome ∧ p.bold.isSome ∧ p.under.isSome ∧ p.italic.isSome ∧ p.reverse.isSome ∧ p.strike.isSome ∧
  p.altfont.isSome ∧ p.blink.isSome ∧ p.sizepos.isSome

/-- **setpen_total.** After `setpen p`, whatever came before: every attribute is present in the cached pen, the cached pen
    is the palette-converted `p` with everything else default, and the terminal renders exactly that. -/
theorem setpen_total (cfg : Cfg) (ops : List Op) (p : Pen) (st st' : TState) (h8 : 8 ≤ cfg.colors)
    (hok : ∀ op ∈ ops, PenOk cfg.caps op.pen) (hp : PenOk cfg.caps p)
    (h : runOps cfg ops {} = some st) (h' : step cfg st (.set p) = some st') :
    AllPresent st'.cache ∧ st'.cache = convPen cfg.colors (total p) ∧ st'.vt.attrs = expected cfg (total p) := by
  have hrun : runOps cfg (ops ++ [.set p]) {} = some st' := by
    rw [runOps_append, h]
    simp [runOps, h']
  have := sgr_inv cfg (ops ++ [.set p]) st' h8 (by
    intro op hop
    rcases List.mem_append.1 hop with hop | hop
    · exact hok op hop
    · simp at hop; subst hop; exact hp) hrun
  rw [logical_snoc] at this
  refine ⟨?_, this.2.1, this.2.2⟩
  rw [this.2.1]
  simp [AllPresent, logicalStep, total, convPen]

example : ∃ st', step cfgEx { cache := { bold := some true, fg := some ⟨3, none⟩ } } (.set { italic := some true }) = some st' ∧
    st'.cache = total { italic := some true } := ⟨_, rfl, by decide +kernel⟩

/-! ### change-pen -/

/-- **chpen_overlay.** `chpen p` overlays only the attributes present in `p`: in the cached pen, and on the terminal —
    `ovAttrs caps q a` is `a` with exactly the attributes present in `q` replaced by what `q` asks for. -/
theorem chpen_overlay (cfg : Cfg) (ops : List Op) (p : Pen) (st st' : TState) (h8 : 8 ≤ cfg.colors)
    (hok : ∀ op ∈ ops, PenOk cfg.caps op.pen) (hp : PenOk cfg.caps p)
    (h : runOps cfg ops {} = some st) (h' : step cfg st (.ch p) = some st') :
    st'.cache = overlay st.cache (convPen cfg.colors p) ∧
    st'.vt.attrs = ovAttrs cfg.caps (convPen cfg.colors p) st.vt.attrs := by
  have hrun : runOps cfg (ops ++ [.ch p]) {} = some st' := by
    rw [runOps_append, h]
    simp [runOps, h']
  have h1 := sgr_inv cfg ops st h8 hok h
  have h2 := sgr_inv cfg (ops ++ [.ch p]) st' h8 (by
    intro op hop
    rcases List.mem_append.1 hop with hop | hop
    · exact hok op hop
    · simp at hop; subst hop; exact hp) hrun
  rw [logical_snoc] at h2
  simp only [logicalStep] at h2
  refine ⟨?_, ?_⟩
  · rw [h2.2.1, h1.2.1, convPen_overlay]
  · rw [h2.2.2, h1.2.2]
    simp only [expected]
    rw [convPen_overlay, expect_overlay]

/-- what `ovAttrs` says, attribute by attribute: absent ⇒ unchanged -/
theorem ovAttrs_absent (caps : Caps) (q : Pen) (a : Attrs) :
    (q.fg = none → (ovAttrs caps q a).fg = a.fg) ∧ (q.bg = none → (ovAttrs caps q a).bg = a.bg) ∧
    (q.bold = none → (ovAttrs caps q a).bold = a.bold) ∧ (q.under = none → (ovAttrs caps q a).under = a.under) ∧
    (q.italic = none → (ovAttrs caps q a).italic = a.italic) ∧ (q.reverse = none → (ovAttrs caps q a).reverse = a.reverse) ∧
    (q.strike = none → (ovAttrs caps q a).strike = a.strike) ∧ (q.altfont = none → (ovAttrs caps q a).font = a.font) ∧
    (q.blink = none → (ovAttrs caps q a).blink = a.blink) ∧ (q.sizepos = none → (ovAttrs caps q a).sizepos = a.sizepos) ∧
    (ovAttrs caps q a).faint = a.faint ∧ (ovAttrs caps q a).junk = a.junk := by
  refine ⟨?_, ?_, ?_, ?_, ?_, ?_, ?_, ?_, ?_, ?_, rfl, rfl⟩ <;> intro h <;> simp [ovAttrs, ovColour, h]

example : ∃ st', step cfgEx { cache := { bold := some true }, vt := { attrs := { bold := true } } } (.ch { italic := some true }) = some st' ∧
    st'.vt.attrs = { bold := true, italic := true } := ⟨_, rfl, by decide +kernel⟩

/-! ### without PenOk: every history, every value in range -/

/-- Underline style and size/position not negative (part of "values in range"; implied by `PenInRange`). -/
abbrev PenNonneg := Tickit.Proof.Sgr.PenNonneg

theorem penNonneg_of_inRange (p : Pen) (h : PenInRange p) : PenNonneg p :=
  ⟨fun v hv => (h.2.1 v hv).1, fun v hv => (h.2.2.2 v hv).1⟩

/-- **sgr_inv_unrestricted.** After ANY history of set-pen and change-pen requests — including requests for a curly underline
    on a terminal without `:` sub-parameters and for `TICKIT_PEN_SIZEPOS_SMALL`, which `sgr_inv` excludes —: the terminal is
    between control sequences, the cached pen is the palette-converted logical pen, and every rendering attribute other than
    underline and size/position is exactly what the logical pen asks for (nothing faint, nothing not understood); the
    underline style is the logical one as far as the terminal can be told (`encUnder`: above double without `:` ⇒ single);
    the size/position is the logical one whenever that has an SGR parameter (normal, superscript, subscript).  So the two
    unencodable values are the ONLY way in which the terminal can differ from the logical pen, and only in their own attribute. -/
theorem sgr_inv_unrestricted (cfg : Cfg) (ops : List Op) (st : TState) (h8 : 8 ≤ cfg.colors)
    (hok : ∀ op ∈ ops, PenNonneg op.pen) (h : runOps cfg ops {} = some st) :
    st.vt.st = .ground ∧ st.cache = convPen cfg.colors (logical ops) ∧
    st.vt.attrs.fg = (expected cfg (logical ops)).fg ∧ st.vt.attrs.bg = (expected cfg (logical ops)).bg ∧
    st.vt.attrs.bold = (expected cfg (logical ops)).bold ∧ st.vt.attrs.faint = false ∧
    st.vt.attrs.italic = (expected cfg (logical ops)).italic ∧ st.vt.attrs.blink = (expected cfg (logical ops)).blink ∧
    st.vt.attrs.reverse = (expected cfg (logical ops)).reverse ∧ st.vt.attrs.strike = (expected cfg (logical ops)).strike ∧
    st.vt.attrs.font = (expected cfg (logical ops)).font ∧ st.vt.attrs.junk = 0 ∧
    st.vt.attrs.under = encUnder cfg.caps.colon (getInt (logical ops).under) ∧
    (sizeEnc (getInt (logical ops).sizepos) → st.vt.attrs.sizepos = (expected cfg (logical ops)).sizepos) := by
  have hinv := runOps_rinv cfg ops {} st hok (rinv_init cfg.caps) h
  have hc := runOps_cache cfg h8 ops {} st {} rfl h
  have hc' : st.cache = convPen cfg.colors (logical ops) := hc
  obtain ⟨f, g, b, t, i, k, r, s, n, j⟩ := mask_eq_fields hinv.others
  have hu := hinv.under
  have hs := hinv.sizepos
  rw [hc'] at f g b t i k r s n j hu hs
  exact ⟨hinv.ground, hc', f, g, b, t, i, k, r, s, n, j, hu, hs⟩

/-- … and the underline style is exact whenever it can be said: with `:` sub-parameters, or up to double. -/
theorem under_exact (colon : Bool) (v : Int) (h0 : 0 ≤ v) (h : colon = true ∨ v ≤ 2) : encUnder colon v = v.toNat :=
  encUnder_ok colon v h0 h

/-- the history of the demonstration: bold and a colour, then italic, then only size/position = small -/
def opsSmall : List Op :=
  [.set { bold := some true, fg := some ⟨2, none⟩ }, .ch { italic := some true }, .ch { sizepos := some Tickit.Gen.Sgr.sizeposSmall }]

/-- non-vacuity, and the concrete case: after `setpen bold,fg=2; chpen italic; chpen sizepos=small` the terminal still has
    bold, italic and colour 2 (only the size/position is not what the logical pen says), and the last request sent nothing. -/
example : ∃ st, runOps cfgEx opsSmall {} = some st ∧ (∀ op ∈ opsSmall, PenNonneg op.pen) ∧
    st.vt.attrs = { bold := true, italic := true, fg := .idx 2 } ∧ (logical opsSmall).sizepos = some 1 ∧
    ¬ sizeEnc (getInt (logical opsSmall).sizepos) := by
  refine ⟨_, rfl, ?_, by decide +kernel, by decide +kernel, by decide +kernel⟩
  intro op hop
  simp only [opsSmall, List.mem_cons, List.not_mem_nil, or_false] at hop
  rcases hop with h | h | h <;> subst h <;> constructor <;> intro v hv <;> cases hv <;> decide

/-- **chpen_frame.** "change-pen overlays ONLY the attributes present in its argument", for every history and every request
    with values in range — no `PenOk`: the bytes of `chpen p` leave every rendering attribute whose pen attribute is absent
    from `p` exactly as it was on the terminal (also the ones the terminal could not be told about earlier), never switch
    `faint` on and contain nothing the reference interpreter does not understand. -/
theorem chpen_frame (cfg : Cfg) (ops : List Op) (p : Pen) (st st' : TState)
    (hok : ∀ op ∈ ops, PenNonneg op.pen) (hp : PenNonneg p)
    (h : runOps cfg ops {} = some st) (h' : step cfg st (.ch p) = some st') :
    (p.fg = none → st'.vt.attrs.fg = st.vt.attrs.fg) ∧ (p.bg = none → st'.vt.attrs.bg = st.vt.attrs.bg) ∧
    (p.bold = none → st'.vt.attrs.bold = st.vt.attrs.bold) ∧ (p.under = none → st'.vt.attrs.under = st.vt.attrs.under) ∧
    (p.italic = none → st'.vt.attrs.italic = st.vt.attrs.italic) ∧
    (p.reverse = none → st'.vt.attrs.reverse = st.vt.attrs.reverse) ∧
    (p.strike = none → st'.vt.attrs.strike = st.vt.attrs.strike) ∧ (p.altfont = none → st'.vt.attrs.font = st.vt.attrs.font) ∧
    (p.blink = none → st'.vt.attrs.blink = st.vt.attrs.blink) ∧
    (p.sizepos = none → st'.vt.attrs.sizepos = st.vt.attrs.sizepos) ∧
    st'.vt.attrs.faint = st.vt.attrs.faint ∧ st'.vt.attrs.junk = st.vt.attrs.junk :=
  step_frame cfg st st' p hp (runOps_rinv cfg ops {} st hok (rinv_init cfg.caps) h) h'

example : ∃ st st', runOps cfgEx (opsSmall.take 2) {} = some st ∧ step cfgEx st (.ch { sizepos := some 1 }) = some st' ∧
    st'.vt.attrs = st.vt.attrs ∧ st.vt.attrs.bold = true :=
  ⟨_, _, rfl, rfl, by decide +kernel, by decide +kernel⟩

/-- **unencodable_change_is_silent.** A request whose delta produces no SGR parameter — after any history with values in range
    that is: nothing changes, or only the size/position changes, to a value without a parameter (`SMALL`) — emits no byte at
    all; in particular not the empty SGR, which would reset every other attribute. -/
theorem unencodable_change_is_silent (cfg : Cfg) (cache : Pen) (op : Op)
    (h : comps cfg.caps (termDelta op.isSet cfg.colors cache op.pen) = []) : emit cfg cache op = .bytes [] := by
  unfold emit xtermChpen
  simp [h, flatten]

/-- the delta of `chpen sizepos=small` on a terminal with other attributes in force has exactly this shape -/
example : comps cfgEx.caps (termDelta false 256 (total { bold := some true }) { sizepos := some 1 }) = [] ∧
    termDelta false 256 (total { bold := some true }) { sizepos := some 1 } ≠ {} := by decide +kernel

/-- **setpen_total_unrestricted.** The same for set-pen: after `setpen p`, whatever came before and whatever `p` asks for in range,
    every rendering attribute other than underline and size/position is what `p` says, everything `p` does not mention
    default. -/
theorem setpen_total_unrestricted (cfg : Cfg) (ops : List Op) (p : Pen) (st st' : TState) (h8 : 8 ≤ cfg.colors)
    (hok : ∀ op ∈ ops, PenNonneg op.pen) (hp : PenNonneg p)
    (h : runOps cfg ops {} = some st) (h' : step cfg st (.set p) = some st') :
    st'.cache = convPen cfg.colors (total p) ∧
    st'.vt.attrs.fg = (expected cfg (total p)).fg ∧ st'.vt.attrs.bg = (expected cfg (total p)).bg ∧
    st'.vt.attrs.bold = getBool p.bold ∧ st'.vt.attrs.faint = false ∧ st'.vt.attrs.italic = getBool p.italic ∧
    st'.vt.attrs.blink = getBool p.blink ∧ st'.vt.attrs.reverse = getBool p.reverse ∧
    st'.vt.attrs.strike = getBool p.strike ∧ st'.vt.attrs.font = expectFont (getInt p.altfont) ∧ st'.vt.attrs.junk = 0 ∧
    st'.vt.attrs.under = encUnder cfg.caps.colon (getInt p.under) ∧
    (sizeEnc (getInt p.sizepos) → st'.vt.attrs.sizepos = expectSizepos (getInt p.sizepos)) := by
  have hrun : runOps cfg (ops ++ [.set p]) {} = some st' := by
    rw [runOps_append, h]
    simp [runOps, h']
  have := sgr_inv_unrestricted cfg (ops ++ [.set p]) st' h8 (by
    intro op hop
    rcases List.mem_append.1 hop with hop | hop
    · exact hok op hop
    · simp at hop; subst hop; exact hp) hrun
  rw [logical_snoc] at this
  simpa [logicalStep, total, expected, expectAttrs, convPen, getBool, getInt] using this.2

/-! ### no-op -/

/-- **noop_silent.** A request that leaves the logical pen unchanged emits no byte — whatever the palette. -/
theorem noop_silent (cfg : Cfg) (ops : List Op) (op : Op) (st : TState) (h8 : 8 ≤ cfg.colors)
    (h : runOps cfg ops {} = some st)
    (hnoop : logicalStep (logical ops) op = logical ops) : emit cfg st.cache op = .bytes [] := by
  have hc := runOps_cache cfg h8 ops {} st {} rfl h
  have hl : st.cache = convPen cfg.colors (logical ops) := hc
  unfold emit
  rw [hl, termDelta_noop cfg.colors h8 (logical ops) op hnoop]
  exact xtermChpen_empty _ _ _

example : logicalStep (logical opsEx) (.ch { bg := some ⟨12, none⟩, sizepos := some 2 }) = logical opsEx := by decide +kernel

/-- Regression for the repaired re-emission: on an 8-colour terminal `setpen fg=200` twice — the second request is silent. -/
theorem noop_beyond_palette :
    ∃ st, runOps { colors := 8, caps := ⟨false, false⟩, cap := 20 } [.set { fg := some ⟨200, none⟩ }] {} = some st ∧
      st.cache.fg = some ⟨5, none⟩ ∧
      emit { colors := 8, caps := ⟨false, false⟩, cap := 20 } st.cache (.set { fg := some ⟨200, none⟩ }) = .bytes [] :=
  ⟨{ cache := total { fg := some ⟨5, none⟩ }, vt := { attrs := { fg := .idx 5 } } },
    by decide +kernel, by decide +kernel, by decide +kernel⟩

/-! ### RGB only when supported -/

/-- "RGB is used only when the terminal supports it": without `rgb8` the terminal never ends up with an RGB colour. -/
theorem rgb_only_when_supported (cfg : Cfg) (ops : List Op) (st : TState) (h8 : 8 ≤ cfg.colors)
    (hok : ∀ op ∈ ops, PenOk cfg.caps op.pen) (h : runOps cfg ops {} = some st) (hr : cfg.caps.rgb8 = false) :
    (∀ r g b, st.vt.attrs.fg ≠ .rgb r g b) ∧ (∀ r g b, st.vt.attrs.bg ≠ .rgb r g b) := by
  have hinv := sgr_inv cfg ops st h8 hok h
  rw [hinv.2.2]
  have key : ∀ o r g b, expectColour false o ≠ .rgb r g b := by
    intro o r g b
    unfold expectColour
    cases o with
    | none => simp
    | some c => simp only; split <;> simp
  constructor <;> intro r g b <;> simp only [expected, expectAttrs, hr] <;> exact key _ r g b

/-! ### the parameter array -/

/-- The pen that needs the most: both colours RGB, curly underline, everything else present. -/
def witnessPen : Pen :=
  { fg := some ⟨200, some ⟨1, 2, 3⟩⟩, bg := some ⟨100, some ⟨4, 5, 6⟩⟩, bold := some true, under := some 3, italic := some true,
    reverse := some true, strike := some true, altfont := some 3, blink := some true, sizepos := some 2 }

/-- `maxParams = 19`: no delta needs more than 19 elements of `params[]`, and `witnessPen` needs all 19. -/
theorem params_max : (∀ caps d, (flatten (comps caps d)).length ≤ 19) ∧
    (flatten (comps ⟨true, true⟩ witnessPen)).length = 19 :=
  ⟨length_flatten_comps, by decide⟩

/-- **params_fit.** The encoder stays inside `int params[cap]` for every delta exactly when `cap ≥ 19`. -/
theorem params_fit (cap : Nat) :
    (∀ caps delta final n, xtermChpen caps cap delta final ≠ .overflow n) ↔ 19 ≤ cap := by
  constructor
  · intro h
    by_cases hc : 19 ≤ cap
    · exact hc
    · exfalso
      apply h ⟨true, true⟩ witnessPen witnessPen 19
      unfold xtermChpen
      have : (flatten (comps ⟨true, true⟩ witnessPen)).length = 19 := by decide
      simp only [this]
      rw [if_pos (by omega)]
  · intro hc caps delta final n
    unfold xtermChpen
    have := length_flatten_comps caps delta
    simp only
    rw [if_neg (by omega)]
    repeat' split
    all_goals simp

/-- The verdict for the capacity found in the working tree (`Gen.Sgr.paramsCap`, regenerated from
    `src/termdriver-xterm.c` on every run): true of a tree with `params[19]` or more, false of `params[16]`. -/
theorem params_fit_tree :
    (∀ caps delta final n, xtermChpen caps Tickit.Gen.Sgr.paramsCap delta final ≠ .overflow n) ↔ 19 ≤ Tickit.Gen.Sgr.paramsCap :=
  params_fit _

/-- **requests_total.** With room for 19 parameters no request is undefined: every history runs to the end. -/
theorem requests_total (cfg : Cfg) (hcap : 19 ≤ cfg.cap) (ops : List Op) (st : TState) : runOps cfg ops st ≠ none := by
  induction ops generalizing st with
  | nil => simp [runOps]
  | cons op ops ih =>
    have hne : ∀ n, emit cfg st.cache op ≠ .overflow n := fun n => (params_fit cfg.cap).2 hcap _ _ _ n
    cases hs : step cfg st op with
    | none =>
      exfalso
      unfold step at hs
      split at hs
      · rename_i n hn
        exact hne n hn
      · cases hs
    | some st1 =>
      simp only [runOps, hs]
      exact ih st1

/-- With the capacity of the working tree: a fresh RGB-capable terminal and `setpen witnessPen` is an overflow if the array
    is shorter than 19, and fine otherwise (this holds of both the unchanged and the repaired tree). -/
theorem params_witness :
    (Tickit.Gen.Sgr.paramsCap < 19 →
      runOps { colors := 256, caps := ⟨true, true⟩, cap := Tickit.Gen.Sgr.paramsCap } [.set witnessPen] {} = none) ∧
    (19 ≤ Tickit.Gen.Sgr.paramsCap →
      runOps { colors := 256, caps := ⟨true, true⟩, cap := Tickit.Gen.Sgr.paramsCap } [.set witnessPen] {} ≠ none) := by
  have hlen : (flatten (comps ⟨true, true⟩ (termDelta true 256 {} witnessPen))).length = 19 := by decide +kernel
  constructor
  · intro h
    simp only [runOps, step, emit, xtermChpen, Op.isSet, Op.pen, hlen]
    rw [if_pos (by omega)]
  · intro h
    exact requests_total _ h _ _

/-! ### pause + resume (`Model/TermSuspend.lean`)

  `tickit_term_pause` lets the xterm driver write its teardown bytes, which end with `ESC [ m`: the terminal's rendering
  attributes are default from then on, while the cached (and the logical) pen are what they were.  `tickit_term_resume`
  therefore has to send the cached pen again; `resend` says whether it does (`src_resume_resends`: the tree does). -/

/-- **suspend_restores.** If the terminal renders with what the cached pen says, it does so again after the program was stopped
    and continued — every attribute, not only those a later request happens to mention — and the cached pen is untouched. -/
theorem suspend_restores (cfg : Cfg) (st st' : TState) (hok : PenOk cfg.caps st.cache)
    (hg : st.vt.st = .ground) (ha : st.vt.attrs = expectAttrs cfg.caps st.cache)
    (h : suspendStep cfg true st = some st') :
    st'.vt.st = .ground ∧ st'.vt.attrs = st.vt.attrs ∧ st'.cache = st.cache := by
  have := suspend_inv cfg st st' ⟨hg, ha⟩ hok h
  exact ⟨this.1.1, by rw [this.1.2, this.2, ha], this.2⟩

/-- **sgr_inv_suspend.** `sgr_inv` over histories in which the program is also stopped and continued (any number of times,
    anywhere): the rendering attributes in force, as determined by ALL bytes emitted so far — those of pause and resume
    included —, equal the logical pen; a suspension does not change the logical pen. -/
theorem sgr_inv_suspend (cfg : Cfg) (es : List Ev) (st : TState) (h8 : 8 ≤ cfg.colors)
    (hok : ∀ op, Ev.req op ∈ es → PenOk cfg.caps op.pen) (h : runEvs cfg true es {} = some st) :
    st.vt.st = .ground ∧ st.cache = convPen cfg.colors (logicalEvs es) ∧ st.vt.attrs = expected cfg (logicalEvs es) := by
  have hok' : ∀ e ∈ es, EvOk cfg.caps e := by
    intro e he
    cases e with
    | req op => exact hok op he
    | suspend => trivial
  have hinv := runEvs_sinv cfg es {} st hok' (sinv_init cfg.caps) h
  have hc := runEvs_cache cfg h8 es {} st {} hok' (sinv_init cfg.caps) rfl h
  refine ⟨hinv.1.1, hc, ?_⟩
  rw [hinv.1.2, hc]
  rfl

/-- **noop_after_suspend.** What the seeded scenario asks: after a suspension, a request that leaves the logical pen unchanged
    is still silent — so nothing but the bytes of resume can have restored the attributes. -/
theorem noop_after_suspend (cfg : Cfg) (es : List Ev) (op : Op) (st : TState) (h8 : 8 ≤ cfg.colors)
    (hok : ∀ op, Ev.req op ∈ es → PenOk cfg.caps op.pen) (h : runEvs cfg true es {} = some st)
    (hnoop : logicalStep (logicalEvs es) op = logicalEvs es) : emit cfg st.cache op = .bytes [] := by
  have hl := (sgr_inv_suspend cfg es st h8 hok h).2.1
  unfold emit
  rw [hl, termDelta_noop cfg.colors h8 (logicalEvs es) op hnoop]
  exact xtermChpen_empty _ _ _

/-- **suspend_total.** Re-sending the whole cached pen fits `params[]` exactly when a request does (19). -/
theorem suspend_total (cfg : Cfg) (resend : Bool) (hcap : 19 ≤ cfg.cap) (st : TState) : suspendStep cfg resend st ≠ none := by
  unfold suspendStep resumeChpen
  cases resend with
  | false => simp
  | true =>
    simp only [if_true]
    unfold xtermChpen
    simp only
    have := length_flatten_comps cfg.caps st.cache
    rw [if_neg (by omega)]
    by_cases h0 : (flatten (comps cfg.caps st.cache)).length = 0
    · simp [h0]
    · by_cases hnd : (!isNondefault st.cache) = true
      · simp [h0, hnd]
      · simp [h0, hnd]

/-- **suspend_without_resend.** Were the cached pen NOT sent again, the terminal would be left with default attributes whatever
    the logical pen says: the clause fails for every pen that asks for anything non-default … -/
theorem suspend_without_resend (cfg : Cfg) (st : TState) (hg : st.vt.st = .ground) (ha : st.vt.attrs = expectAttrs cfg.caps st.cache)
    (hnd : expectAttrs cfg.caps st.cache ≠ {}) :
    ∃ st', suspendStep cfg false st = some st' ∧ st'.cache = st.cache ∧ st'.vt.attrs ≠ expectAttrs cfg.caps st'.cache := by
  refine ⟨_, suspend_no_resend cfg st hg, rfl, ?_⟩
  simp only
  rw [ha, reset_of_junk0 _ (by rfl)]
  exact fun h => hnd h.symm

def evsEx : List Ev :=
  [.req (.set { bold := some true, fg := some ⟨3, none⟩ }), .req (.ch { italic := some true }), .suspend,
   .req (.ch { italic := some true }), .req (.ch { under := some 1 })]

/-- … and a later request for what the pen already has does not repair it (the scenario of the demonstration: bold, yellow,
    italic in force; pause; resume; `chpen {i}`; `chpen {u}`): with the pen re-sent the terminal ends with all four attributes,
    without it only with the underline. -/
theorem suspend_resend_needed :
    (∃ st, runEvs cfgEx true evsEx {} = some st ∧
      st.vt.attrs = { fg := .idx 3, bold := true, italic := true, under := 1 } ∧ st.vt.attrs = expected cfgEx (logicalEvs evsEx)) ∧
    (∃ st, runEvs cfgEx false evsEx {} = some st ∧
      st.vt.attrs = { under := 1 } ∧ st.vt.attrs ≠ expected cfgEx (logicalEvs evsEx)) := by
  refine ⟨⟨_, rfl, by decide +kernel, by decide +kernel⟩, ⟨_, rfl, by decide +kernel, by decide +kernel⟩⟩

/-- non-vacuity of `sgr_inv_suspend`: the history above satisfies its hypotheses -/
example : ∀ op, Ev.req op ∈ evsEx → PenOk cfgEx.caps op.pen := by
  intro op hop
  simp only [evsEx, List.mem_cons, List.not_mem_nil, or_false, Ev.req.injEq, reduceCtorEq, false_or, or_false] at hop
  rcases hop with h | h | h | h <;> subst h <;> constructor <;> intro v hv <;> cases hv <;> decide

/-- The working tree re-sends the cached pen through the driver (`bin/extract.d/20_termbuf.py` reads `tickit_term_resume`). -/
theorem src_resume_resends : Tickit.Gen.TermBuf.term_resume_resends_pen = true := rfl

/-- The bytes of pause and resume used here are what C12's model of the xterm driver (`Model/Modes.lean`: `teardown`, `resume`,
    every mode) writes when no mode has been changed since construction, and the reset is the literal the extractor reads from
    `teardown`. -/
theorem suspend_bytes_tie :
    (∀ d : Tickit.Modes.XDrv, d.mode = {} → Tickit.Modes.drvTeardown d = xtermPauseBytes ∧ Tickit.Modes.drvResume d = xtermResumeBytes) ∧
    Tickit.Gen.TermBuf.teardown_pen_reset.map (·.toNat) = xtermPauseBytes := by
  refine ⟨?_, by decide⟩
  intro d hd
  simp [Tickit.Modes.drvTeardown, Tickit.Modes.drvResume, hd, xtermPauseBytes, xtermResumeBytes, Tickit.Modes.sgrReset]

/-! ### nothing but SGR sequences

  "The rendering state of the terminal is determined by the SGR bytes emitted for setpen/chpen": a pen request puts SGR sequences on
  the terminal and nothing else (`Model/SgrStrict.lean`) — no byte outside a control sequence (the terminal would print it at the
  cursor or execute it as a control: the pen request would have drawn something), no sequence other than an unmarked `CSI … m`,
  and the last sequence is complete.  The correspondence harness judges the same predicate on the bytes of the implementation. -/

/-- Every request emits SGR sequences only, from every cached pen and to every terminal in ground state, for every capability
    combination, colour count and capacity of `params[]` (no hypothesis on the values). -/
theorem pen_request_sgr_only (cfg : Cfg) (st : TState) (op : Op) (bs : List Byte) (hg : st.vt.st = .ground)
    (h : emit cfg st.cache op = .bytes bs) : SgrOnly bs st.vt :=
  Tickit.Proof.SgrStrict.xtermChpen_sgrOnly _ _ _ _ bs st.vt h hg

/-- Everything a history of requests puts on the terminal, request after request. -/
def historyBytes (cfg : Cfg) : List Op → Pen → List Byte
  | [], _ => []
  | op :: ops, cache =>
    (match emit cfg cache op with
      | .bytes bs => bs
      | .overflow _ => []) ++ historyBytes cfg ops (termCache op.isSet cfg.colors cache op.pen)

/-- … and so does every history of requests. -/
theorem history_sgr_only (cfg : Cfg) (ops : List Op) (cache : Pen) (vt : VT) (hg : vt.st = .ground) :
    SgrOnly (historyBytes cfg ops cache) vt := by
  induction ops generalizing cache vt with
  | nil => exact sgrOnly_nil vt hg
  | cons op ops ih =>
    simp only [historyBytes]
    cases he : emit cfg cache op with
    | overflow n => simpa using ih _ vt hg
    | bytes bs =>
      have h1 : SgrOnly bs vt := Tickit.Proof.SgrStrict.xtermChpen_sgrOnly _ _ _ _ bs vt he hg
      exact sgrOnly_append _ _ _ h1 (ih _ _ h1.2.2)

/-- Pause + resume (every mode at its construction value) puts SGR sequences only on the terminal as well. -/
theorem suspend_sgr_only (cfg : Cfg) (resend : Bool) (st : TState) (bs : List Byte) (hg : st.vt.st = .ground)
    (h : resumeChpen cfg.caps cfg.cap resend st.cache = .bytes bs) :
    SgrOnly (xtermPauseBytes ++ xtermResumeBytes ++ bs) st.vt := by
  have hp : ∀ vt : VT, vt.st = .ground → SgrOnly (xtermPauseBytes ++ xtermResumeBytes) vt := by
    intro vt hv
    cases vt with | mk s a =>
    simp only at hv
    subst hv
    exact ⟨by simp [xtermPauseBytes, xtermResumeBytes, strays, isStray, feed],
           by simp [xtermPauseBytes, xtermResumeBytes, foreign, isForeign, feed],
           by simp [xtermPauseBytes, xtermResumeBytes, run, feed]⟩
  have hp := hp st.vt hg
  refine sgrOnly_append _ _ _ hp ?_
  unfold resumeChpen at h
  split at h
  · exact Tickit.Proof.SgrStrict.xtermChpen_sgrOnly _ _ _ _ bs _ h hp.2.2
  · cases h; exact sgrOnly_nil _ hp.2.2

/-- non-vacuity: a 256-colour foreground on a fresh terminal is `ESC [ 3 8 : 5 : 2 0 0 m` (`cfgEx` has `:` sub-parameters) … -/
example : emit cfgEx {} (.ch { fg := some ⟨200, none⟩ }) = .bytes [27, 91, 51, 56, 58, 53, 58, 50, 48, 48, 109] := by decide +kernel

/-- … and the predicate is not vacuous: the same sequence followed by its NUL terminator and left-overs of a scratch buffer
    (the text `ab`) is rejected — three bytes reach the terminal outside any sequence, two of them are drawn; so is a pen request
    that sends a cursor movement. -/
theorem sgr_only_rejects :
    strays [27, 91, 51, 56, 58, 53, 58, 50, 48, 48, 109, 0, 97, 98] {} = [0, 97, 98] ∧
    ¬ SgrOnly [27, 91, 51, 56, 58, 53, 58, 50, 48, 48, 109, 0, 97, 98] {} ∧
    ¬ SgrOnly [27, 91, 49, 109, 27, 91, 50, 67] {} ∧ ¬ SgrOnly [27, 91, 49] {} := by
  refine ⟨by decide, by decide, by decide, by decide⟩

/-- Text drawn between pen requests (no ESC in it) reaches the terminal in ground state and changes nothing the pen is about:
    what the harness's `print` step demands of the implementation's bytes. -/
theorem print_keeps_attrs (text : List Byte) (h : ∀ b ∈ text, b ≠ 27) (vt : VT) (hg : vt.st = .ground) : run text vt = vt := by
  induction text with
  | nil => rfl
  | cons b bs ih =>
    have hb : b ≠ 27 := h b (by simp)
    have hf : feed vt b = vt := by
      unfold feed
      rw [hg]
      simp [hb]
    have := ih (fun x hx => h x (by simp [hx]))
    simpa [run, hf] using this

/-! ### the output buffer (`tickit_term_set_output_buffer`): the terminal reads the requests' bytes in the order emitted -/

/-- The SGR string of every request of a history, one `write_str` each. -/
def historyStrings (cfg : Cfg) : List Op → Pen → List (List Byte)
  | [], _ => []
  | op :: ops, cache =>
    (match emit cfg cache op with
      | .bytes bs => bs
      | .overflow _ => []) :: historyStrings cfg ops (termCache op.isSet cfg.colors cache op.pen)

theorem xtermChpen_byte_range (caps : Caps) (cap : Nat) (delta final : Pen) (bs : List Byte)
    (h : xtermChpen caps cap delta final = .bytes bs) : ∀ b ∈ bs, b < 256 := by
  have hr : ∀ ps, ∀ b ∈ renderSgr caps.colon ps, b < 256 := by
    intro ps b hb
    unfold renderSgr at hb
    simp only [List.mem_append, List.mem_cons, List.mem_nil_iff, or_false] at hb
    rcases hb with (h1 | h1) | h1
    · rcases h1 with h1 | h1 <;> (rw [h1]; decide)
    · have := Tickit.Proof.SgrStrict.renderBody_range caps.colon ps b h1
      exact Nat.lt_of_le_of_lt this.2 (by decide)
    · rw [h1]; decide
  unfold xtermChpen at h
  simp only at h
  split at h
  · cases h
  · split at h
    · cases h; intro b hb; cases hb
    · split at h
      · cases h; exact hr _
      · cases h; exact hr _

theorem historyStrings_byte_range (cfg : Cfg) (ops : List Op) (cache : Pen) :
    ∀ b ∈ (historyStrings cfg ops cache).flatten, b < 256 := by
  induction ops generalizing cache with
  | nil => intro b hb; simp [historyStrings] at hb
  | cons op ops ih =>
    intro b hb
    simp only [historyStrings, List.flatten_cons, List.mem_append] at hb
    rcases hb with hb | hb
    · cases he : emit cfg cache op with
      | bytes bs =>
        rw [he] at hb
        exact xtermChpen_byte_range _ _ _ _ bs he b hb
      | overflow n => rw [he] at hb; cases hb
    · exact ih _ b hb

theorem runOps_strings (cfg : Cfg) (ops : List Op) (st st' : TState) (h : runOps cfg ops st = some st') :
    st'.vt = (historyStrings cfg ops st.cache).foldl (fun v bs => run bs v) st.vt := by
  induction ops generalizing st with
  | nil => simp [runOps] at h; subst h; rfl
  | cons op ops ih =>
    simp only [runOps] at h
    cases hs : step cfg st op with
    | none => rw [hs] at h; cases h
    | some s1 =>
      rw [hs] at h
      have := ih s1 h
      unfold step at hs
      cases he : emit cfg st.cache op with
      | overflow n => rw [he] at hs; cases hs
      | bytes bs =>
        rw [he] at hs
        cases hs
        simp only [historyStrings, he, List.foldl_cons]
        exact this

/-- **sgr_inv_buffered.** The invariant with an output buffer of ANY size `n` (0 = none) between the driver and the output
    function: every request's SGR string goes through `write_str` of `src/term.c` (`Model/TermBuf.lean`), then
    `tickit_term_flush`; the terminal reads what the output function received, in the order it received it.  The rendering
    attributes in force are then exactly what the logical pen asks for — a request's bytes can neither overtake earlier ones
    nor be lost, whatever their length relative to the buffer. -/
theorem sgr_inv_buffered (cfg : Cfg) (ops : List Op) (st : TState) (n : Nat) (h8 : 8 ≤ cfg.colors)
    (hok : ∀ op ∈ ops, PenOk cfg.caps op.pen) (h : runOps cfg ops {} = some st) :
    let tb := Tickit.TermBuf.flush (Tickit.Proof.SgrBuf.writeAll (Tickit.TermBuf.setOutputBuffer Tickit.SgrBuf.init n)
                (historyStrings cfg ops {}))
    let vt := run (Tickit.SgrBuf.received tb) {}
    tb.buf = [] ∧ vt.st = .ground ∧ vt.attrs = expected cfg (logical ops) := by
  intro tb vt
  have hv : vt = st.vt := by
    show run (Tickit.SgrBuf.received tb) {} = st.vt
    rw [runOps_strings cfg ops {} st h]
    exact Tickit.Proof.SgrBuf.buffered_reads_in_order n _ (historyStrings_byte_range cfg ops {}) {}
  have hi := sgr_inv cfg ops st h8 hok h
  refine ⟨Tickit.TermBuf.flush_buf _, ?_, ?_⟩
  · rw [hv]; exact hi.1
  · rw [hv]; exact hi.2.2

/-- non-vacuity, and what an out-of-order delivery does: with a 16-byte buffer `ESC[3m` (italic on) stays pending while the
    23 bytes of `setpen {fg=123,bg=200}` follow; delivered in order the terminal ends with italic off … -/
example : (run ([27, 91, 51, 109] ++ [27, 91, 51, 56, 59, 53, 59, 49, 50, 51, 59, 52, 56, 59, 53, 59, 50, 48, 48, 59, 50, 51, 109]) {}).attrs.italic = false := by
  decide +kernel

/-- … delivered with the long string first (a write that bypasses the buffer without flushing it) italic stays on although the
    logical pen has none: the reference interpreter tells the two orders apart. -/
theorem out_of_order_breaks :
    (run ([27, 91, 51, 56, 59, 53, 59, 49, 50, 51, 59, 52, 56, 59, 53, 59, 50, 48, 48, 59, 50, 51, 109] ++ [27, 91, 51, 109]) {}).attrs.italic = true := by
  decide +kernel

end Tickit.Props.C10
