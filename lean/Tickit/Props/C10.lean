import Tickit.Model.TermPen
namespace Tickit.Props.C10
open Tickit Tickit.TermPen

/-- Every entry of the generated palette table is inside the palette it approximates into. -/
theorem palette_table_bounds :
    Tickit.Gen.Palette.as16.size = 256 ∧ Tickit.Gen.Palette.as8.size = 256 ∧
    (∀ i : Fin 256, Tickit.Gen.Palette.as16.getD i.val 0 < 16 ∧ Tickit.Gen.Palette.as8.getD i.val 0 < 8) := by
  decide +kernel

end Tickit.Props.C10
