import Tickit.Proof.WinExpose
import Tickit.Proof.WinFlush
import Tickit.Proof.WinHanded
import Tickit.Proof.RectSetInv
import Tickit.Gen.Win
import Tickit.Proof.WinRB
import Tickit.Proof.XTermDrv
import Tickit.Model.WinTextf
/-
  C02 — A window's drawing is confined to the cells it owns, in its own coordinates.

  Everything is about `WinFlush.flushRender beh st t`, the rendering half of `tickit_window_flush` (the model of the code
  after the `fix:` commits 7086a82, which cuts every damage rectangle down to the root window's current area, and
  1032b01, which renders nothing for a hidden root): it
  renders the damage set `t.root.damage` of tree `t` through `_do_expose` and flushes the buffer to the terminal.
  `beh w rect` is the drawing program window `w`'s expose handler runs when handed `rect`; the theorems hold for
  *every* `beh`, and `confinement` in addition for every program whatsoever run in the handler's place.
  Each handler invocation is a `Shot`: the window, the rectangle handed to it and the render buffer as the handler
  finds it.  Cells `(L, C)` are terminal cells.
-/
namespace Tickit.Props.C02
open Tickit WinTree WinRB WinFlush WinSpec

/-- **The rectangle handed to a handler always lies within the window's bounds** (and is not empty) — for the root
    window too, whatever the pending damage is (this is what failed after a terminal shrink before the fix). -/
theorem handed_rect_in_bounds (beh : Id → Rect → List DrawOp) (st st' : St) (t : Tree) (shots : List Shot)
    (h : flushRender beh st t = .ok (st', shots)) :
    ∀ sh ∈ shots, InB st'.tree sh.win sh.rect :=
  flushRender_inB beh st st' t shots h

/-- **Ownership**: a cell the buffer lets the handler of window `w` touch is a damaged cell that `w` owns in the
    painter's-model composition (within `w`'s bounds and every ancestor's, not covered by a visible child or by a
    higher sibling of `w` or of an ancestor), and the buffer's translation is `w`'s top-left corner: the cell is
    `(L - xl, C - xc)` in `w`'s coordinates. -/
theorem do_expose_ownership (beh : Id → Rect → List DrawOp) (st st' : St) (t : Tree) (shots : List Shot)
    (h : flushRender beh st t = .ok (st', shots)) (hroot : RootOk t) :
    ∀ sh ∈ shots, ∀ L C, sh.rb.writable L C = true →
      Covered t.root.damage L C ∧ ownerAt st'.tree L C = some (sh.win, L - sh.rb.xl, C - sh.rb.xc) :=
  fun sh hsh L C hw => (flushRender_shots beh st st' t shots h hroot).1 sh hsh L C hw

/-- … and conversely every damaged cell inside the root window is offered to exactly the handler of its owner. -/
theorem do_expose_ownership_complete (beh : Id → Rect → List DrawOp) (st st' : St) (t : Tree) (shots : List Shot)
    (h : flushRender beh st t = .ok (st', shots)) (hroot : RootOk t) (hflag : t.root.needsExpose = true) :
    ∀ L C, Covered t.root.damage L C → (ownerAt st'.tree L C).isSome = true →
      ∃ sh ∈ shots, sh.rb.writable L C = true :=
  fun L C hc ho => (flushRender_shots beh st st' t shots h hroot).2 hflag L C hc ho

/-- **Confinement**: whatever drawing program runs in the place of a handler — text, erase, characters, line segments,
    skips, clears, copies and moves of rectangles at any coordinates, with any translation, clip and pen changes, saved and
    restored (`save` / `savepen` / `restore`) in any nesting — the only buffer cells that change are damaged cells owned
    by that handler's window; positions are relative to the window's top-left corner. -/
theorem confinement (beh : Id → Rect → List DrawOp) (st st' : St) (t : Tree) (shots : List Shot)
    (h : flushRender beh st t = .ok (st', shots)) (hroot : RootOk t) :
    ∀ sh ∈ shots, ∀ (prog : List DrawOp) (L C : Int), (sh.rb.run prog).cells L C ≠ sh.rb.cells L C →
      Covered t.root.damage L C ∧ ownerAt st'.tree L C = some (sh.win, L - sh.rb.xl, C - sh.rb.xc) := by
  intro sh hsh prog L C hne
  cases hw : sh.rb.writable L C with
  | true => exact do_expose_ownership beh st st' t shots h hroot sh hsh L C hw
  | false => exact absurd (run_cells_of_not_writable prog sh.rb (flushRender_shots_masksLe beh st st' t shots h sh hsh) L C hw) hne

/-- The same on the terminal: whatever all the handlers draw, a terminal cell that the flush changes is a damaged
    cell inside the root window. -/
theorem screen_change_confined (beh : Id → Rect → List DrawOp) (st st' : St) (t : Tree) (shots : List Shot)
    (h : flushRender beh st t = .ok (st', shots)) :
    ∀ L C, st'.screen L C ≠ st.screen L C → Covered t.root.damage L C :=
  flushRender_frame beh st st' t shots h

/-- A hidden root window is not painted (what failed before the fix 1032b01): no handler runs, no cell changes. -/
theorem hidden_root_not_painted (beh : Id → Rect → List DrawOp) (st st' : St) (t : Tree) (shots : List Shot)
    (h : flushRender beh st t = .ok (st', shots)) (root : Win) (hr : t.wins[0]? = some root)
    (hv : root.isVisible = false) : shots = [] ∧ st'.screen = st.screen :=
  flushRender_hidden_root beh st st' t shots h root hr hv

/-! ### non-vacuity: a tree with overlapping siblings, a child sticking out of its parent and a hidden window -/

/-- Terminal 4 × 8; window 1 at (1,1) 2 × 4; window 2 at (0,3) 3 × 4 in front of it; window 3, child of 1, at (0,2)
    2 × 4 (sticking out); window 4 hidden. -/
def exampleState : Res St := do
  let st := St.init 4 8 (some { fg := some 1 })
  let (st, _) ← newWin st 0 ⟨1, 1, 2, 4⟩ false false false false (some { fg := some 2 })
  let (st, _) ← newWin st 0 ⟨0, 3, 3, 4⟩ false false false false (some { fg := some 3 })
  let (st, _) ← newWin st 1 ⟨0, 2, 2, 4⟩ false false false false none
  let (st, _) ← newWin st 0 ⟨2, 0, 2, 8⟩ false true false false none
  pure st

/-- An adversarial behaviour: every handler erases a huge rectangle and writes far outside its window. -/
def wild : Id → Rect → List DrawOp :=
  fun _ _ => [.eraseRect ⟨-50, -50, 100, 100⟩, .textAt (-1) (-3) [65, 66, 67, 68, 69, 70, 71, 72], .clear]

def eventsOf (r : Res (St × List Shot)) : Option (List Ev) :=
  match r with
  | .ok (_, shots) => some (shots.map Shot.ev)
  | .ub _ => none

/-- The hypotheses of the theorems are inhabited: the flush of that state succeeds and runs four handlers, front-most
    first, children before their parent; window 3 is handed only the part of it inside window 1; the hidden window 4
    is not asked. -/
example : eventsOf (exampleState >>= fun st => flush wild st) =
    some [(2, ⟨0, 0, 3, 4⟩), (3, ⟨0, 0, 2, 2⟩), (1, ⟨0, 0, 2, 4⟩), (0, ⟨0, 0, 4, 8⟩)] := by
  decide +kernel

/-- The terminal-shrink scenario after the fix: the 3 × 5 root is handed its own area, not the old 6 × 12 one. -/
theorem root_shrink_regression :
    eventsOf (termResize (St.init 6 12 none) 3 5 >>= fun st => flush (fun _ _ => []) st) = some [(0, ⟨0, 0, 3, 5⟩)] := by
  decide +kernel

/-! ### the rectangles handed to one window never overlap -/

/-- **`handed_rects_disjoint`**: the rectangles handed to one window during one flush are pairwise disjoint, provided the
    damage set holds pairwise disjoint rectangles (C05's invariant of the stored set) and no window occurs twice in
    the tree (`visitIds`: the windows reachable from the root through the child lists, with multiplicity). -/
theorem handed_rects_disjoint (beh : Id → Rect → List DrawOp) (st st' : St) (t : Tree) (shots : List Shot)
    (h : flushRender beh st t = .ok (st', shots))
    (hdis : t.root.damage.Pairwise Rect.Disjoint)
    (hnd : (visitIds st'.tree (st'.tree.wins.size + 1) 0).Nodup) :
    ∀ w, ((shots.map Shot.ev).filter (fun e => e.1 = w)).Pairwise (fun a b => Rect.Disjoint a.2 b.2) := by
  intro w
  rcases flushRender_cases beh st st' t shots h with ⟨h1, _⟩ | ⟨root, s', _, _, _, he, hs, ht, _⟩
  · subst h1; exact List.Pairwise.nil
  · subst hs
    rw [ht] at hnd
    have hev := exposeRects_events (rendered t) beh st.pens (t.wins.size + 1) ⟨0, 0, root.rect.lines, root.rect.cols⟩ _ _ s' he
    simp only [List.map_nil, List.nil_append] at hev
    rw [hev]
    have hpw : (if root.isVisible = true then t.root.damage else []).Pairwise Rect.Disjoint := by
      split
      · exact hdis
      · exact List.Pairwise.nil
    exact (handedRects_disjoint (rendered t) (t.wins.size + 1) _ hnd w _ hpw).1

/-- The same with the invariant of the rectangle set as C05 proves it (`RectSet.Inv`: kept by every `add`, `subtract`,
    `translate`, `clear`, hence by every window operation, all of which change the damage set only through those):
    the disjointness hypothesis is discharged. -/
theorem handed_rects_disjoint_of_inv (beh : Id → Rect → List DrawOp) (st st' : St) (t : Tree) (shots : List Shot)
    (h : flushRender beh st t = .ok (st', shots))
    (hinv : RectSet.Inv t.root.damage)
    (hnd : (visitIds st'.tree (st'.tree.wins.size + 1) 0).Nodup) :
    ∀ w, ((shots.map Shot.ev).filter (fun e => e.1 = w)).Pairwise (fun a b => Rect.Disjoint a.2 b.2) :=
  handed_rects_disjoint beh st st' t shots h hinv.2.1 hnd

/-- Non-vacuity: in the example tree no window occurs twice and the damage set is a single rectangle. -/
example : (match exampleState with
    | .ok st => decide ((visitIds st.tree (st.tree.wins.size + 1) 0).Nodup) && decide (st.tree.root.damage = [⟨0, 0, 4, 8⟩])
    | .ub _ => false) = true := by
  decide +kernel

/-! ### the wider drawing vocabulary: line segments, copies and moves of rectangles, save / savepen / restore

  `confinement`, `do_expose_ownership` and `screen_change_confined` above hold for every behaviour `beh`, hence for handlers
  that draw line segments, copy and move rectangles and save and restore the buffer's state in any nesting.  The theorems
  of this section state, operation by operation, the three facts those proofs rest on — each is the clause one seeded
  change of the library broke. -/

/-- **Line segments stop at a mask**: a cell the buffer does not let the handler touch — covered by a visible child or by
    a higher sibling, or outside the clip — keeps what it holds, also when it already holds line segments (the border the
    covering window drew) and the new segment runs straight through it: nothing is merged into a LINE cell under a mask. -/
theorem line_segments_confined (rb : RB) (L C : Int) (h : rb.writable L C = false) :
    (∀ line c0 c1 style caps, (rb.hlineAt line c0 c1 style caps).cells L C = rb.cells L C) ∧
    (∀ l0 l1 col style caps, (rb.vlineAt l0 l1 col style caps).cells L C = rb.cells L C) :=
  ⟨fun line c0 c1 style caps => (paints_hlineAt rb line c0 c1 style caps).cells L C h,
   fun l0 l1 col style caps => (paints_vlineAt rb l0 l1 col style caps).cells L C h⟩

/-- … in particular a masked LINE cell keeps its segments and its pen. -/
theorem masked_line_cell_kept (rb : RB) (L C : Int) (pen : Pen) (mask : Nat) (hm : rb.masked L C = true)
    (hc : rb.cells L C = some (.line pen mask)) (line c0 c1 : Int) (style caps : Nat) :
    (rb.hlineAt line c0 c1 style caps).cells L C = some (.line pen mask) := by
  rw [(line_segments_confined rb L C (by simp [RB.writable, hm])).1, hc]

/-- **A copy or a move of a rectangle is confined like any other drawing and leaves the buffer's frame alone**: cells the
    buffer does not let the handler touch keep their value, and the save/restore stack (with the frame
    `tickit_window_flush` / `_do_expose` pushed for the window: damage clip, window bounds, translation), the masks of the
    windows in front, the clip, the translation and the pen are what they were — whatever the two rectangles are and
    whatever runs of cells the copy walks over or overwrites. -/
theorem copy_move_confined (rb : RB) (dest src : Rect) :
    (∀ L C, rb.writable L C = false →
      (rb.copyRect dest src).cells L C = rb.cells L C ∧ (rb.moveRect dest src).cells L C = rb.cells L C) ∧
    ((rb.copyRect dest src).stack = rb.stack ∧ (rb.copyRect dest src).masks = rb.masks ∧
     (rb.copyRect dest src).clip = rb.clip ∧ (rb.copyRect dest src).xl = rb.xl ∧ (rb.copyRect dest src).xc = rb.xc ∧
     (rb.copyRect dest src).pen = rb.pen) ∧
    ((rb.moveRect dest src).stack = rb.stack ∧ (rb.moveRect dest src).masks = rb.masks ∧
     (rb.moveRect dest src).clip = rb.clip ∧ (rb.moveRect dest src).xl = rb.xl ∧ (rb.moveRect dest src).xc = rb.xc ∧
     (rb.moveRect dest src).pen = rb.pen) := by
  have hc := paints_copyRect rb dest src
  have hmv := paints_moveRect rb dest src
  have hcx : (rb.copyRect dest src).xl = rb.xl ∧ (rb.copyRect dest src).xc = rb.xc ∧ (rb.copyRect dest src).pen = rb.pen := by
    unfold RB.copyRect
    simp only
    split
    · exact ⟨rfl, rfl, rfl⟩
    · split <;> exact ⟨rfl, rfl, rfl⟩
  have hmx : (rb.moveRect dest src).xl = rb.xl ∧ (rb.moveRect dest src).xc = rb.xc ∧ (rb.moveRect dest src).pen = rb.pen := by
    unfold RB.moveRect
    simp only
    split
    · exact ⟨rfl, rfl, rfl⟩
    · split
      · exact ⟨rfl, rfl, rfl⟩
      · exact hcx
  exact ⟨fun L C h => ⟨hc.cells L C h, hmv.cells L C h⟩,
    ⟨hc.stack, hc.masks, hc.clip, hcx.1, hcx.2.1, hcx.2.2⟩, ⟨hmv.stack, hmv.masks, hmv.clip, hmx.1, hmx.2.1, hmx.2.2⟩⟩

/-- What a copy inside its domain (`RB.copyDomain`: source inside the buffer, the walk of `copyrect` safe for the real
    displacement) leaves in a cell: a cell the buffer lets the handler touch whose pre-image lies in the source
    rectangle takes the source cell's content *as it was before the call* (its pen completed from the current pen, line
    segments merged); every other cell is untouched.  The source rectangle is in buffer coordinates, the destination goes
    through the translation (`copyRect_source_is_absolute` below). -/
theorem copyRect_cells (rb : RB) (dest src : Rect) (hne : ¬ (dest.top - src.top = 0 ∧ dest.left - src.left = 0))
    (hd : rb.copyDomain dest src = true) (L C : Int) :
    (rb.copyRect dest src).cells L C =
      if src.memb (L - (dest.top - src.top + rb.xl)) (C - (dest.left - src.left + rb.xc)) ∧ rb.writable L C then
        (rb.transfer rb.nextId (rb.cells (L - (dest.top - src.top + rb.xl)) (C - (dest.left - src.left + rb.xc)))
          (rb.cpen (L - (dest.top - src.top + rb.xl)) (C - (dest.left - src.left + rb.xc))) (rb.cells L C)).1
      else rb.cells L C := by
  unfold RB.copyRect
  simp only [hne, if_false, hd, Bool.not_true]
  rfl

/-- **`savepen` … `restore` (and `save` … `restore`) closes exactly the level it opened**: the masks of the windows in
    front — made at levels not above the current one — are still there afterwards, so what the buffer lets the handler
    (and every handler after it) touch is unchanged. -/
theorem save_restore_keeps_masks (rb : RB) (hm : MasksLe rb) :
    rb.savepen.restore.masks = rb.masks ∧ rb.save.restore.masks = rb.masks ∧
    (∀ L C, rb.savepen.restore.writable L C = rb.writable L C) ∧ (∀ L C, rb.save.restore.writable L C = rb.writable L C) := by
  have hf : rb.masks.filter (fun m => decide (m.2 ≤ rb.stack.length)) = rb.masks :=
    List.filter_eq_self.mpr (fun m hmm => by simpa using hm m hmm)
  have h1 : rb.savepen.restore.masks = rb.masks := by simp [RB.savepen, RB.restore, hf]
  have h2 : rb.save.restore.masks = rb.masks := by simp [RB.save, RB.restore, hf]
  have c1 : rb.savepen.restore.clip = rb.clip := by simp [RB.savepen, RB.restore]
  have c2 : rb.save.restore.clip = rb.clip := by simp [RB.save, RB.restore]
  exact ⟨h1, h2, fun L C => writable_congr c1 h1 L C, fun L C => writable_congr c2 h2 L C⟩

/-- The same for a whole handler program, whatever it saves and restores: the stack, the masks and the size of the
    buffer are as the handler found them, it could only narrow what the buffer lets it touch, and no cell outside that
    changed.  (`MasksLe`: every mask was made at a level not above the current one — true of every buffer a handler is
    handed, `flushRender_shots_masksLe`.) -/
theorem program_keeps_frame (prog : List DrawOp) (rb : RB) (hm : MasksLe rb) :
    (rb.run prog).stack = rb.stack ∧ (rb.run prog).masks = rb.masks ∧
    (∀ L C, (rb.run prog).writable L C = true → rb.writable L C = true) ∧
    (∀ L C, rb.writable L C = false → (rb.run prog).cells L C = rb.cells L C) :=
  ⟨(run_sameFrame prog rb hm).stack, (run_sameFrame prog rb hm).masks, run_writable_sub prog rb hm,
   run_cells_of_not_writable prog rb hm⟩

theorem handler_buffers_masksLe (beh : Id → Rect → List DrawOp) (st st' : St) (t : Tree) (shots : List Shot)
    (h : flushRender beh st t = .ok (st', shots)) : ∀ sh ∈ shots, MasksLe sh.rb :=
  flushRender_shots_masksLe beh st st' t shots h

/-- Why the mask levels matter (the seeded change `savepen` without a level of its own): were a mask recorded one level
    *above* the stack it lives under, a `savepen` … `restore` pair would drop it. -/
theorem mask_above_level_dropped :
    let rb : RB := { (RB.new 1 2) with masks := [(⟨0, 1, 1, 1⟩, 1)] }
    rb.masked 0 1 = true ∧ rb.savepen.restore.masked 0 1 = false := by
  decide

/-- `copyrect` reads its source rectangle in *buffer* coordinates: under a translation (any window not at the terminal's
    origin) the text a handler has just drawn at its own `(0, 0)` is not what `copyRect ⟨0, 1, 1, 1⟩ ⟨0, 0, 1, 1⟩` copies —
    the buffer's `(0, 0)` is.  (src/renderbuffer.c, `copyrect`: "TODO: consider how this works in the presence of a
    translation offset"; property C13 is stated for "no translation in force".)  The destination is confined all the
    same (`copy_move_confined`): the quirk concerns where the copied content comes from, not which cells change. -/
theorem copyRect_source_is_absolute :
    let rb := ((RB.new 2 3).translate 1 0).textAt 0 0 [65]
    (match rb.cells 1 0 with | some (.plain x) => x.glyph | _ => 0) = 65 ∧
    (match (rb.copyRect ⟨0, 1, 1, 1⟩ ⟨0, 0, 1, 1⟩).cells 1 1 with | none => true | _ => false) = true := by
  decide +kernel

/-! #### printf-style texts (`tickit_renderbuffer_textf_at`, `put_vtextf`) -/

/-- **Both paths of `put_vtextf` hand `put_text` the formatted bytes** — results of fewer than 64 bytes from the array on the
    stack, longer ones from the buffer's scratch area — and **neither touches the count of valid scratch bytes**
    (`rb->tmplen`), which `flush_to_term` takes to be 0 when it starts collecting the bytes of a LINE run or a CHAR cell:
    so the bytes a flush prints for such a cell are that cell's own, whatever was formatted before in the same flush. -/
theorem putVtextf_text_and_scratch (sc : Scratch) (formatted : List Nat) :
    (putVtextf sc formatted).1 = formatted ∧ (putVtextf sc formatted).2.tmplen = sc.tmplen := by
  unfold putVtextf
  split <;> exact ⟨rfl, rfl⟩

/-- The formatted result of `"%*s"`: at least `pad` bytes and at least the text's, ending in the text. -/
theorem formatPad_length (pad : Nat) (bytes : List Nat) :
    (formatPad pad bytes).length = max pad bytes.length ∧ (formatPad pad bytes).drop (pad - bytes.length) = bytes := by
  unfold formatPad
  refine ⟨?_, ?_⟩
  · simp only [List.length_append, List.length_replicate]; omega
  · rw [List.drop_append]
    simp

/-- A text drawn with `textf_at` is the text drawn with `text_at`, whatever its length. -/
theorem textfAt_eq_textAt (rb : RB) (decode : List Nat → List Nat) (l c : Int) (pad : Nat) (bytes : List Nat) :
    rb.textfAt decode l c pad bytes = rb.textAt l c (decode (formatPad pad bytes)) := by
  unfold RB.textfAt
  rw [(putVtextf_text_and_scratch {} _).1]

/-- **A printf-style text is confined like any other drawing**, however long the formatted result is (in particular 64
    bytes and more, the scratch-area path) and however small the window it is clipped to: a cell the buffer does not let
    the handler touch keeps its value, and the frame (`save` stack, masks, size, clip) is what it was. -/
theorem textf_confined (rb : RB) (decode : List Nat → List Nat) (l c : Int) (pad : Nat) (bytes : List Nat) :
    Paints rb (rb.textfAt decode l c pad bytes) := by
  rw [textfAt_eq_textAt]
  exact paints_textAt rb l c _

theorem textf_cells_of_not_writable (rb : RB) (decode : List Nat → List Nat) (l c : Int) (pad : Nat) (bytes : List Nat)
    (L C : Int) (h : rb.writable L C = false) : (rb.textfAt decode l c pad bytes).cells L C = rb.cells L C :=
  (textf_confined rb decode l c pad bytes).cells L C h

/-! #### non-vacuity: the three scenarios on a concrete tree -/

/-- Glyph and foreground of the cells `0 … n - 1` of screen row `l` after `r`. -/
def rowOf (r : Res (St × List Shot)) (l : Int) (n : Nat) : Option (List (Nat × Int)) :=
  match r with
  | .ok (st, _) => some ((List.range n).map fun (c : Nat) => ((st.screen l (c : Int)).glyph, (st.screen l (c : Int)).fg))
  | .ub _ => none

/-- Terminal 3 × 8, root (foreground 1) with a child (foreground 2) at (0, 5) of 2 × 3. -/
def twoWindows : Res St := do
  let st := St.init 3 8 (some { fg := some 1 })
  let (st, _) ← newWin st 0 ⟨0, 5, 2, 3⟩ false false false false (some { fg := some 2 })
  pure st

/-- The root's handler writes a short text, pulls the empty rest of the line two columns to the left over the text's end
    (`copyRect`: the copy moves a SKIP run over the start of that very run), and then clears "everything"; the child
    blanks itself.  Rows 0 and 1: the child's three cells are still the child's. -/
def pullLeft : Id → Rect → List DrawOp := fun w rect =>
  if w = 0 then [.textAt 1 0 [82, 82, 82], .copyRect ⟨1, 2, 1, 2⟩ ⟨1, 3, 1, 2⟩, .clear] else [.eraseRect rect]

example : rowOf (twoWindows >>= fun st => flush pullLeft st) 1 8 =
    some [(32, 1), (32, 1), (32, 1), (32, 1), (32, 1), (32, 2), (32, 2), (32, 2)] := by
  decide +kernel

/-- The child draws a border of line segments around itself; the root rules a horizontal line along row 0 and a vertical
    line down column 5, straight through the child's border: the child's cells keep their corners and edges
    (`┌ ─ ┐` / `└ ─ ┘`, foreground 2), the root's horizontal line (foreground 1) stops at the child and of its vertical
    line only the end below the child (`╵`) is there. -/
def ruledBox : Id → Rect → List DrawOp := fun w rect =>
  if w = 0 then [.eraseRect rect, .hline 0 0 7 1 0, .vline 0 2 5 1 0]
  else [.eraseRect rect, .hline 0 0 2 1 0, .hline 1 0 2 1 0, .vline 0 1 0 1 0, .vline 0 1 2 1 0]

example : rowOf (twoWindows >>= fun st => flush ruledBox st) 0 8 =
    some [(0x2576, 1), (0x2500, 1), (0x2500, 1), (0x2500, 1), (0x2500, 1), (0x250c, 2), (0x2500, 2), (0x2510, 2)] ∧
    rowOf (twoWindows >>= fun st => flush ruledBox st) 1 8 =
    some [(32, 1), (32, 1), (32, 1), (32, 1), (32, 1), (0x2514, 2), (0x2500, 2), (0x2518, 2)] ∧
    rowOf (twoWindows >>= fun st => flush ruledBox st) 2 8 =
    some [(32, 1), (32, 1), (32, 1), (32, 1), (32, 1), (0x2575, 1), (32, 1), (32, 1)] := by
  decide +kernel

/-- The child (3 columns wide) draws a label of 70 formatted bytes (`"%*s"`, pad 70: 67 blanks and `xyz`, moved left so that
    its end falls into the window) and a single character below it; the root blanks itself, rules a line along row 2 and
    writes a 70-byte label of its own from far left of the screen: rows 0 and 1 show the root's blanks up to the child and
    then the child's `xyz` / `*`, row 2 the root's line — nothing of either label anywhere else. -/
def longLabels : Id → Rect → List DrawOp := fun w rect =>
  if w = 0 then [.eraseRect rect, .hline 2 0 7 1 0, .textAt 1 (-66) ((putVtextf {} (formatPad 70 [113])).1)]
  else [.eraseRect rect, .textAt 0 (-67) ((putVtextf {} (formatPad 70 [120, 121, 122])).1), .charAt 1 1 42]

example : rowOf (twoWindows >>= fun st => flush longLabels st) 0 8 =
    some [(32, 1), (32, 1), (32, 1), (32, 1), (32, 1), (120, 2), (121, 2), (122, 2)] ∧
    rowOf (twoWindows >>= fun st => flush longLabels st) 1 8 =
    some [(32, 1), (32, 1), (32, 1), (113, 1), (32, 1), (32, 2), (42, 2), (32, 2)] ∧
    rowOf (twoWindows >>= fun st => flush longLabels st) 2 8 =
    some [(0x2576, 1), (0x2500, 1), (0x2500, 1), (0x2500, 1), (0x2500, 1), (0x2500, 1), (0x2500, 1), (0x2574, 1)] := by
  decide +kernel

/-- The root's handler draws a label under `savepen` … `restore` (and leaves a `save` open), then clears "everything":
    the child's cells are still the child's. -/
def labelled : Id → Rect → List DrawOp := fun w rect =>
  if w = 0 then [.savepen, .setPen { fg := some 1, b := some true }, .textAt 2 0 [98, 98], .restore, .save, .clear]
  else [.eraseRect rect]

example : rowOf (twoWindows >>= fun st => flush labelled st) 0 8 =
    some [(32, 1), (32, 1), (32, 1), (32, 1), (32, 1), (32, 2), (32, 2), (32, 2)] := by
  decide +kernel

/-! ### below the render buffer: a blank run in reverse video on the reference terminal

  In the xterm configuration of the check the window tree is flushed through the library's xterm driver and the bytes are
  interpreted by the VT reference interpreter (`Model/VT.lean`); the clauses above are judged on the screen it arrives at.
  Under reverse video the driver cannot use ECH (an erased cell does not take the reverse attribute) and writes the blanks
  of an ERASE run as literal spaces, in slices of 64 (`XTermDrv.erasech`; `Props.C09.erasech_effect` proves for every
  count that exactly `count` cells are blanked).  What the terminal does with them: -/

/-- **`n` spaces blank exactly `n` cells**: on the reference terminal, a run of `n` blanks that fits in the row, written
    as `n` literal spaces from the cursor, leaves every cell outside `[col, col + n)` of the cursor's row as it was — for
    every `n` (64, 128, … included) — and the cells inside take the current background and reverse attribute. -/
theorem spaces_blank_exactly (vt : VT.VTState) (n : Nat) (hn : 0 < n) (hg : vt.ps = .ground) (hpw : vt.pendingWrap = false)
    (hfit : vt.col + n ≤ vt.cols) (l c : Int) :
    (VT.run (List.replicate n (0x20 : UInt8)) vt).grid l c =
      if l = vt.row ∧ vt.col ≤ c ∧ c < vt.col + n then ⟨32, vt.bg, vt.rv⟩ else vt.grid l c := by
  have hb : ∀ b ∈ List.replicate n (0x20 : UInt8), 0x20 ≤ b ∧ b < 0x7f := by
    intro b hb
    rw [List.eq_of_mem_replicate hb]
    decide
  have hne : List.replicate n (0x20 : UInt8) ≠ [] := by
    intro h
    have := congrArg List.length h
    simp at this
    omega
  rw [XTermDrv.run_ascii _ hb hne vt hg hpw (by simpa using hfit)]
  simp only [XTermDrv.textGrid, List.length_replicate]
  split
  · rw [XTermDrv.getD_replicate_space]; rfl
  · rfl

/-! ### facts regenerated from the C source on every run -/

/-- The window creation flags are four distinct bits (the harness and the model decode them one by one). -/
theorem gen_window_flags :
    [Gen.Win.flagHidden, Gen.Win.flagLowest, Gen.Win.flagRootParent, Gen.Win.flagStealInput] = [1, 2, 4, 8] := by
  decide

/-- The numbers the handler programs pass for line style and caps, and the position of each direction in a line mask, are
    the library's (`TICKIT_LINE_*`, `TICKIT_LINECAP_*`, the `*_SHIFT` enumerators of renderbuffer.c): `WinRB.lineCalls`
    tests `caps &&& 1` / `caps &&& 2`, `hlineAt` / `vlineAt` shift the style by them. -/
theorem gen_line_constants :
    [Gen.Win.linecapStart, Gen.Win.linecapEnd, Gen.LineChars.lineSingle, Gen.LineChars.lineDouble, Gen.LineChars.lineThick,
     Gen.LineChars.shiftNorth, Gen.LineChars.shiftEast, Gen.LineChars.shiftSouth, Gen.LineChars.shiftWest] =
    [1, 2, 1, 2, 3, 0, 2, 4, 6] ∧ Gen.LineChars.linemaskToChar.size = 256 := by
  decide +kernel

end Tickit.Props.C02
