import Tickit.Model.WinFlush
import Tickit.Model.WinSpec
namespace Tickit.Props.C02
end Tickit.Props.C02
