import Tickit.Proof.WinExpose
import Tickit.Proof.WinFlush
import Tickit.Proof.WinHanded
import Tickit.Proof.RectSetInv
import Tickit.Gen.Win
/-
  C02 — A window's drawing is confined to the cells it owns, in its own coordinates.

  Everything is about `WinFlush.flushRender beh st t`, the rendering half of `tickit_window_flush` (the model of the code
  after the `fix:` commits 7086a82, which cuts every damage rectangle down to the root window's current area, and
  1032b01, which renders nothing for a hidden root): it
  renders the damage set `t.root.damage` of tree `t` through `_do_expose` and flushes the buffer to the terminal.
  `beh w rect` is the drawing program window `w`'s expose handler runs when handed `rect`; the theorems hold for
  *every* `beh`, and `confinement` in addition for every program whatsoever run in the handler's place.
  Each handler invocation is a `Shot`: the window, the rectangle handed to it and the render buffer as the handler
  finds it.  Cells `(L, C)` are terminal cells.
-/
namespace Tickit.Props.C02
open Tickit WinTree WinRB WinFlush WinSpec

/-- **The rectangle handed to a handler always lies within the window's bounds** (and is not empty) — for the root
    window too, whatever the pending damage is (this is what failed after a terminal shrink before the fix). -/
theorem handed_rect_in_bounds (beh : Id → Rect → List DrawOp) (st st' : St) (t : Tree) (shots : List Shot)
    (h : flushRender beh st t = .ok (st', shots)) :
    ∀ sh ∈ shots, InB st'.tree sh.win sh.rect :=
  flushRender_inB beh st st' t shots h

/-- **Ownership**: a cell the buffer lets the handler of window `w` touch is a damaged cell that `w` owns in the
    painter's-model composition (within `w`'s bounds and every ancestor's, not covered by a visible child or by a
    higher sibling of `w` or of an ancestor), and the buffer's translation is `w`'s top-left corner: the cell is
    `(L - xl, C - xc)` in `w`'s coordinates. -/
theorem do_expose_ownership (beh : Id → Rect → List DrawOp) (st st' : St) (t : Tree) (shots : List Shot)
    (h : flushRender beh st t = .ok (st', shots)) (hroot : RootOk t) :
    ∀ sh ∈ shots, ∀ L C, sh.rb.writable L C = true →
      Covered t.root.damage L C ∧ ownerAt st'.tree L C = some (sh.win, L - sh.rb.xl, C - sh.rb.xc) :=
  fun sh hsh L C hw => (flushRender_shots beh st st' t shots h hroot).1 sh hsh L C hw

/-- … and conversely every damaged cell inside the root window is offered to exactly the handler of its owner. -/
theorem do_expose_ownership_complete (beh : Id → Rect → List DrawOp) (st st' : St) (t : Tree) (shots : List Shot)
    (h : flushRender beh st t = .ok (st', shots)) (hroot : RootOk t) (hflag : t.root.needsExpose = true) :
    ∀ L C, Covered t.root.damage L C → (ownerAt st'.tree L C).isSome = true →
      ∃ sh ∈ shots, sh.rb.writable L C = true :=
  fun L C hc ho => (flushRender_shots beh st st' t shots h hroot).2 hflag L C hc ho

/-- **Confinement**: whatever drawing program runs in the place of a handler — text, erase, characters, line segments,
    skips, clears, copies and moves of rectangles at any coordinates, with any translation, clip and pen changes, saved and
    restored (`save` / `savepen` / `restore`) in any nesting — the only buffer cells that change are damaged cells owned
    by that handler's window; positions are relative to the window's top-left corner. -/
theorem confinement (beh : Id → Rect → List DrawOp) (st st' : St) (t : Tree) (shots : List Shot)
    (h : flushRender beh st t = .ok (st', shots)) (hroot : RootOk t) :
    ∀ sh ∈ shots, ∀ (prog : List DrawOp) (L C : Int), (sh.rb.run prog).cells L C ≠ sh.rb.cells L C →
      Covered t.root.damage L C ∧ ownerAt st'.tree L C = some (sh.win, L - sh.rb.xl, C - sh.rb.xc) := by
  intro sh hsh prog L C hne
  cases hw : sh.rb.writable L C with
  | true => exact do_expose_ownership beh st st' t shots h hroot sh hsh L C hw
  | false => exact absurd (run_cells_of_not_writable prog sh.rb (flushRender_shots_masksLe beh st st' t shots h sh hsh) L C hw) hne

/-- The same on the terminal: whatever all the handlers draw, a terminal cell that the flush changes is a damaged
    cell inside the root window. -/
theorem screen_change_confined (beh : Id → Rect → List DrawOp) (st st' : St) (t : Tree) (shots : List Shot)
    (h : flushRender beh st t = .ok (st', shots)) :
    ∀ L C, st'.screen L C ≠ st.screen L C → Covered t.root.damage L C :=
  flushRender_frame beh st st' t shots h

/-- A hidden root window is not painted (what failed before the fix 1032b01): no handler runs, no cell changes. -/
theorem hidden_root_not_painted (beh : Id → Rect → List DrawOp) (st st' : St) (t : Tree) (shots : List Shot)
    (h : flushRender beh st t = .ok (st', shots)) (root : Win) (hr : t.wins[0]? = some root)
    (hv : root.isVisible = false) : shots = [] ∧ st'.screen = st.screen :=
  flushRender_hidden_root beh st st' t shots h root hr hv

/-! ### non-vacuity: a tree with overlapping siblings, a child sticking out of its parent and a hidden window -/

/-- Terminal 4 × 8; window 1 at (1,1) 2 × 4; window 2 at (0,3) 3 × 4 in front of it; window 3, child of 1, at (0,2)
    2 × 4 (sticking out); window 4 hidden. -/
def exampleState : Res St := do
  let st := St.init 4 8 (some { fg := some 1 })
  let (st, _) ← newWin st 0 ⟨1, 1, 2, 4⟩ false false false false (some { fg := some 2 })
  let (st, _) ← newWin st 0 ⟨0, 3, 3, 4⟩ false false false false (some { fg := some 3 })
  let (st, _) ← newWin st 1 ⟨0, 2, 2, 4⟩ false false false false none
  let (st, _) ← newWin st 0 ⟨2, 0, 2, 8⟩ false true false false none
  pure st

/-- An adversarial behaviour: every handler erases a huge rectangle and writes far outside its window. -/
def wild : Id → Rect → List DrawOp :=
  fun _ _ => [.eraseRect ⟨-50, -50, 100, 100⟩, .textAt (-1) (-3) [65, 66, 67, 68, 69, 70, 71, 72], .clear]

def eventsOf (r : Res (St × List Shot)) : Option (List Ev) :=
  match r with
  | .ok (_, shots) => some (shots.map Shot.ev)
  | .ub _ => none

/-- The hypotheses of the theorems are inhabited: the flush of that state succeeds and runs four handlers, front-most
    first, children before their parent; window 3 is handed only the part of it inside window 1; the hidden window 4
    is not asked. -/
example : eventsOf (exampleState >>= fun st => flush wild st) =
    some [(2, ⟨0, 0, 3, 4⟩), (3, ⟨0, 0, 2, 2⟩), (1, ⟨0, 0, 2, 4⟩), (0, ⟨0, 0, 4, 8⟩)] := by
  decide +kernel

/-- The terminal-shrink scenario after the fix: the 3 × 5 root is handed its own area, not the old 6 × 12 one. -/
theorem root_shrink_regression :
    eventsOf (termResize (St.init 6 12 none) 3 5 >>= fun st => flush (fun _ _ => []) st) = some [(0, ⟨0, 0, 3, 5⟩)] := by
  decide +kernel

/-! ### the rectangles handed to one window never overlap -/

/-- **`handed_rects_disjoint`**: the rectangles handed to one window during one flush are pairwise disjoint, provided the
    damage set holds pairwise disjoint rectangles (C05's invariant of the stored set) and no window occurs twice in
    the tree (`visitIds`: the windows reachable from the root through the child lists, with multiplicity). -/
theorem handed_rects_disjoint (beh : Id → Rect → List DrawOp) (st st' : St) (t : Tree) (shots : List Shot)
    (h : flushRender beh st t = .ok (st', shots))
    (hdis : t.root.damage.Pairwise Rect.Disjoint)
    (hnd : (visitIds st'.tree (st'.tree.wins.size + 1) 0).Nodup) :
    ∀ w, ((shots.map Shot.ev).filter (fun e => e.1 = w)).Pairwise (fun a b => Rect.Disjoint a.2 b.2) := by
  intro w
  rcases flushRender_cases beh st st' t shots h with ⟨h1, _⟩ | ⟨root, s', _, _, _, he, hs, ht, _⟩
  · subst h1; exact List.Pairwise.nil
  · subst hs
    rw [ht] at hnd
    have hev := exposeRects_events (rendered t) beh st.pens (t.wins.size + 1) ⟨0, 0, root.rect.lines, root.rect.cols⟩ _ _ s' he
    simp only [List.map_nil, List.nil_append] at hev
    rw [hev]
    have hpw : (if root.isVisible = true then t.root.damage else []).Pairwise Rect.Disjoint := by
      split
      · exact hdis
      · exact List.Pairwise.nil
    exact (handedRects_disjoint (rendered t) (t.wins.size + 1) _ hnd w _ hpw).1

/-- The same with the invariant of the rectangle set as C05 proves it (`RectSet.Inv`: kept by every `add`, `subtract`,
    `translate`, `clear`, hence by every window operation, all of which change the damage set only through those):
    the disjointness hypothesis is discharged. -/
theorem handed_rects_disjoint_of_inv (beh : Id → Rect → List DrawOp) (st st' : St) (t : Tree) (shots : List Shot)
    (h : flushRender beh st t = .ok (st', shots))
    (hinv : RectSet.Inv t.root.damage)
    (hnd : (visitIds st'.tree (st'.tree.wins.size + 1) 0).Nodup) :
    ∀ w, ((shots.map Shot.ev).filter (fun e => e.1 = w)).Pairwise (fun a b => Rect.Disjoint a.2 b.2) :=
  handed_rects_disjoint beh st st' t shots h hinv.2.1 hnd

/-- Non-vacuity: in the example tree no window occurs twice and the damage set is a single rectangle. -/
example : (match exampleState with
    | .ok st => decide ((visitIds st.tree (st.tree.wins.size + 1) 0).Nodup) && decide (st.tree.root.damage = [⟨0, 0, 4, 8⟩])
    | .ub _ => false) = true := by
  decide +kernel

/-! ### facts regenerated from the C source on every run -/

/-- The window creation flags are four distinct bits (the harness and the model decode them one by one). -/
theorem gen_window_flags :
    [Gen.Win.flagHidden, Gen.Win.flagLowest, Gen.Win.flagRootParent, Gen.Win.flagStealInput] = [1, 2, 4, 8] := by
  decide

end Tickit.Props.C02
