import Tickit.Model.EvLoop
namespace Tickit.Props.C17
end Tickit.Props.C17
