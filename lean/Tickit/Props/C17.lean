import Tickit.Proof.EvLoopWF
import Tickit.Proof.EvLoopOnceB
import Tickit.Proof.EvLoopOnceIter
import Tickit.Gen.EvLoop
import Tickit.Proof.EvLoopUnbind
import Tickit.Proof.EvLoopUnbindOnce
/-
  C17 — Timers and deferred callbacks run once, on time, in order, unless cancelled.

  The model (`Tickit.EvLoop`, Model/EvLoop.lean) transcribes src/tickit.c and src/evloop-default.c
  statement by statement; `Config` selects the variant of the eleven places that have been repaired
  (`Config.shipped` = the tree as first shipped, `Config.repaired` = every patch of fixes/ applied, which is what /repo has now);
  the driver takes the variant from `Gen/EvLoop.lean`, which is regenerated from the C source.

  Every theorem below is universally quantified: over *all* states (arbitrary heap, queues, behaviour
  tables of the callbacks, clock), all fuel, or over all histories (`runOps cfg ops`), as stated.
  Callback behaviours are data in the state, so "whatever callbacks do" is part of the quantifier.

  Proved for the tree as first shipped *and* repaired: `queue_order_invariant`, `sorted_insert`,
  `never_early_shipped`/`never_early`, `order_shipped`/`order`, `cancel_exact`, `destroy_notifies_list`.
  Proved for the repaired timer loop: `no_due_timer_left`, `cancelled_never_runs`,
  `registered_in_callback_runs_in_order`.
  Proved for the repaired source (the text /repo has now), across the iterations of every history
  (Proof/EvLoopOnce*.lean): `invocation_count_is_per_watch`, `exactly_once` — the harness's per-slot count of FIRE
  invocations (`SlotRec.fires`, incremented by `fireUser` together with the log entry) is at most 1 for a timer /
  deferred callback, 0 while the watch is allocated — and then it is still queued —, and 1 once it is gone from a live
  instance without a cancel having been asked for (`St.cancelReq`, a ghost the model's `doCancel` keeps) — and for one
  whole iteration (Proof/EvLoopOnceIter.lean): `exactly_once_iteration`.
  Defects of the tree as first shipped: the `*_counterexample` theorems (kernel-checked runs of the model on the
  minimal histories of corpus/C17; the same histories are replayed against the real library on every check); all are
  repaired in /repo.  Statement not proved: `no_ub_full` at the end (engines.d/C17.json).
-/
namespace Tickit.Props.C17
open Tickit Tickit.EvLoop

/-! ### ties to the source (regenerated on every run) -/

theorem gen_bind_flags : Gen.EvLoop.TICKIT_BIND_FIRST = BIND_FIRST ∧ Gen.EvLoop.TICKIT_BIND_UNBIND = BIND_UNBIND ∧
    Gen.EvLoop.TICKIT_BIND_DESTROY = BIND_DESTROY := by decide

theorem gen_event_flags : Gen.EvLoop.TICKIT_EV_FIRE = EV_FIRE ∧ Gen.EvLoop.TICKIT_EV_UNBIND = EV_UNBIND ∧
    Gen.EvLoop.TICKIT_EV_DESTROY = EV_DESTROY := by decide

/-- Timers, deferred callbacks, signal and process watches keep UNBIND and DESTROY of the flags they are given. -/
theorem gen_constructor_masks : Gen.EvLoop.timerFlagMask = BIND_UNBIND ||| BIND_DESTROY ∧
    Gen.EvLoop.laterFlagMask = BIND_UNBIND ||| BIND_DESTROY ∧ Gen.EvLoop.signalFlagMask = BIND_UNBIND ||| BIND_DESTROY ∧
    Gen.EvLoop.processFlagMask = BIND_UNBIND ||| BIND_DESTROY := by decide

/-- The io constructor's mask is one of the two variants the model knows. -/
theorem gen_io_mask : Gen.EvLoop.ioFlagMask = Config.shipped.ioFlagMask ∨ Gen.EvLoop.ioFlagMask = Config.repaired.ioFlagMask := by
  decide

/-- Flags handed to callbacks and the tests that guard the notifications. -/
theorem gen_call_flags : Gen.EvLoop.timerCallFlags = EV_FIRE ||| EV_UNBIND ∧ Gen.EvLoop.laterCallFlags = EV_FIRE ||| EV_UNBIND ∧
    Gen.EvLoop.destroyTestMask = BIND_UNBIND ||| BIND_DESTROY ∧ Gen.EvLoop.destroyCallFlags = EV_UNBIND ||| EV_DESTROY ∧
    Gen.EvLoop.cancelTestMask = BIND_UNBIND ∧ Gen.EvLoop.cancelCallFlags = EV_UNBIND := by decide

/-- The sorted insert skips while `!(queued > new)`, the loop stops at `deadline > now`. -/
theorem gen_comparisons : Gen.EvLoop.insertCmp = ">" ∧ Gen.EvLoop.dueCmp = ">" := by decide

/-! ### deadline order, equal deadlines in registration order -/

/-- The sorted insert of `tickit_watch_timer_at_tv`: a new timer (fresh, hence largest, address) goes
    behind every queued timer whose deadline is earlier *or equal*, and the queue stays strictly
    increasing in (deadline, registration). -/
theorem sorted_insert (st : St) (new : Nat) (due : TV) (l l' : List Nat)
    (hnew : dueOf st new = due) (hfresh : ∀ a ∈ l, a < new)
    (hord : l.Pairwise (keyLt st)) (h : insTimer st new due l = some l') :
    l'.Pairwise (keyLt st) ∧ (∀ x, x ∈ l' ↔ (x = new ∨ x ∈ l)) :=
  ⟨insTimer_ordered st new due l l' hnew hfresh hord h, insTimer_mem st new due l l' h⟩

example : insTimer ({ cfg := .shipped, heap := [{ due := ⟨5, 0⟩ }, { due := ⟨7, 0⟩ }, { due := ⟨5, 0⟩ }] } : St) 2 ⟨5, 0⟩ [0, 1]
    = some [0, 2, 1] := by decide

/-- In every state that any history reaches — under any variant of the source, whatever the
    callbacks do — the timer queue is strictly increasing in (deadline, registration order). -/
theorem queue_order_invariant (cfg : Config) (ops : List Op) : QInv (runOps cfg ops) :=
  qinv_runOps cfg ops

example : (runOps .shipped [.act (.timer 0 10 0), .act (.timer 1 5 0), .act (.timer 2 10 0)]).timers = [3, 2, 4] := by
  decide +kernel

/-- A registration or a cancel from inside a callback, or anything else a callback does, keeps the
    queue ordered (`Pres` also says that deadlines never change and only fresh addresses enter). -/
theorem callback_keeps_queue_ordered (st : St) (k : Int) (flags : Nat) (info : Info) :
    Pres st (fireUser st k flags info) := pres_fireUser st k flags info

/-! ### never before the deadline -/

/-- `tickit_evloop_invoke_timers` as shipped: no timer is invoked whose deadline is later than `now`. -/
theorem never_early_shipped (fuel : Nat) (st : St) (now : TV) (this : Option Nat) :
    ∀ f ∈ (timerLoopT fuel st now this).2.2, f.due.gt now = false :=
  timerLoopT_never_early fuel st now this

/-- The repaired loop: the same. -/
theorem never_early (fuel : Nat) (st : St) (now : TV) :
    ∀ f ∈ (timerLoopPopT fuel st now).2, f.due.gt now = false :=
  timerLoopPopT_never_early fuel st now

/-! ### order within an iteration; what remains afterwards (repaired loop) -/

/-- Callbacks due in one iteration run in deadline order, equal deadlines in registration order:
    whenever `x` is invoked before `y` and `y` was queued when the iteration began, `x` has the smaller
    key — *whatever* `x` and the callbacks between them registered or cancelled.  (The statement holds
    from every state, so also for every later "beginning": each suffix of the run is a run.) -/
theorem order (fuel : Nat) (st : St) (now : TV) (q : QInv st) :
    (timerLoopPopT fuel st now).2.Pairwise (fun x y => y.a ∈ st.timers → Fired.lt x y) :=
  (timerLoopPopT_trace fuel st now q).2.2

/-- The loop as shipped (`this = t->timers` on entry): the timers one run invokes are strictly increasing
    in (deadline, registration order), whatever the callbacks register or cancel. -/
theorem order_shipped (fuel : Nat) (st : St) (now : TV) (q : QInv st) :
    (timerLoopT fuel st now st.timers.head?).2.2.Pairwise Fired.lt :=
  (timerLoopT_ordered fuel st now st.timers.head? q (fun b hb => List.mem_of_mem_head? hb)).1

/-- A timer registered from inside a callback (a fresh address) is invoked in its place in the same
    order: every invoked timer was queued at the start or was allocated afterwards, … -/
theorem registered_in_callback_runs_in_order (fuel : Nat) (st : St) (now : TV) (q : QInv st) :
    ∀ f ∈ (timerLoopPopT fuel st now).2, f.a ∈ st.timers ∨ st.heap.length ≤ f.a :=
  (timerLoopPopT_trace fuel st now q).1

/-- … and when the loop returns normally nothing that is due is left in the queue: a timer registered
    from a callback — whatever its deadline — has been invoked, or is still queued with a deadline in
    the future (so it runs in a later iteration). -/
theorem no_due_timer_left (fuel : Nat) (st : St) (now : TV) (q : QInv st)
    (hok : (timerLoopPopT fuel st now).1.status = .ok) :
    ∀ b ∈ (timerLoopPopT fuel st now).1.timers, (dueOf (timerLoopPopT fuel st now).1 b).gt now = true :=
  timerLoopPopT_none_due fuel st now q hok

example : ((timerLoopPopT 10 (runOps .repaired [.beh ⟨0, 0, [.timerAt 1 999 0 0]⟩, .act (.timer 0 0 0)]) ⟨1000, 0⟩).2.map (·.slot))
    = [0, 1] := by decide +kernel

/-! ### deferred callbacks -/

/-- The batch of deferred callbacks queued when the iteration began (`later = t->laters; t->laters = NULL`):
    the loop over it invokes its members at most once each, in queue order (each with FIRE|UNBIND: `laterCb`),
    whatever they and the timers before them did — either variant of the source.  (Which members: with the
    repaired cancel, those not cancelled meanwhile — `cancelled_later_never_runs_repaired`; as shipped, all of them —
    `later_cancel_detached_counterexample`; that none is lost across iterations: `exactly_once`.) -/
theorem deferred_batch_runs_once_in_order (l : List Nat) (st : St) : (laterLoopT st l).2.Sublist l := laterLoopT_sub l st

example : (laterLoopT { runOps .shipped [.act (.later 0 0), .act (.later 1 1), .act (.later 2 0)] with laters := [] } [3, 2, 4]).2
    = [3, 2, 4] := by decide +kernel

/-! ### cancel -/

/-- `tickit_watch_cancel` of a queued timer or deferred callback: it leaves its list, is freed, and gets
    exactly the UNBIND notification it asked for (one if its flags contain UNBIND, none otherwise). -/
theorem cancel_exact (st : St) (a : Nat) (hok : st.status = .ok) (hl : st.live a = true)
    (ht : (st.getW a).type = .timer ∨ (st.getW a).type = .later)
    (hall : st.allLive (listOf st (st.getW a).type) = true) (hnd : (listOf st (st.getW a).type).Nodup)
    (hin : a ∈ listOf st (st.getW a).type) :
    (watchCancel st a).status = .ok ∧ (watchCancel st a).live a = false ∧
    listOf (watchCancel st a) (st.getW a).type = (listOf st (st.getW a).type).erase a ∧
    (watchCancel st a).log = (if (st.getW a).flags &&& BIND_UNBIND ≠ 0 ∧ (st.getW a).slot ≥ 0
               then [Ev.cb (st.getW a).slot EV_UNBIND .none] else []) ++ st.log :=
  watchCancel_exact st a hok hl ht hall hnd hin

example : (runOps .shipped [.act (.timer 0 10 2), .act (.cancel 0)]).log = [.cb 0 2 .none] := by decide +kernel

/-- A cancelled timer never runs: an allocated address that is not in the queue is never invoked by
    the (repaired) loop — only fresh addresses enter the queue. -/
theorem cancelled_never_runs (fuel : Nat) (st : St) (now : TV) (q : QInv st) (a : Nat)
    (halloc : a < st.heap.length) (hout : a ∉ st.timers) :
    ∀ f ∈ (timerLoopPopT fuel st now).2, f.a ≠ a := by
  intro f hf h
  cases (timerLoopPopT_trace fuel st now q).1 f hf with
  | inl hin => exact hout (h ▸ hin)
  | inr hge => omega

/-! ### destroy -/

/-- `destroy_watchlist` over a list of distinct live watches that runs to completion: exactly one
    UNBIND|DESTROY notification for every watch whose stored flags ask for one, none for the others. -/
theorem destroy_notifies_list (t : WType) (l : List Nat) (st : St) (hnd : l.Nodup) (hlive : st.allLive l = true)
    (hok : (destroyList st t l).status = .ok) :
    (destroyList st t l).log = (l.filterMap (destroyNote st)).reverse ++ st.log :=
  destroyList_log t l st hnd hlive hok

/-- With the repaired timer loop, in every reachable state whose status is ok each of the five watch lists
    holds distinct, live watches of the list's own type (so the lists are disjoint). -/
theorem watch_lists_well_formed (cfg : Config) (hc : cfg.timersPop = true) (ops : List Op)
    (hok : (runOps cfg ops).status = .ok) : WF (runOps cfg ops) := wf_runOps cfg hc ops hok

/-- When the instance is destroyed (and `tickit_destroy` runs to completion) every remaining watch of every
    kind gets exactly the notification its stored flags ask for, exactly once: after the SIGCHLD watch has been
    cancelled, the log gains one UNBIND|DESTROY entry per flagged watch — io watches, timers, deferred
    callbacks, signal watches, process watches, each list in order — and nothing else.  (Which flags are
    *stored* is `repaired_masks_keep_destroy` / `io_destroy_mask_counterexample`.) -/
theorem destroy_notifies_all_kinds (cfg : Config) (hc : cfg.timersPop = true) (ops : List Op)
    (hok : (runOps cfg ops).status = .ok) (hd : (destroy (runOps cfg ops)).status = .ok) :
    (destroy (runOps cfg ops)).log =
      ((listOf (cancelSigchld (runOps cfg ops)) .io ++ listOf (cancelSigchld (runOps cfg ops)) .timer ++
        listOf (cancelSigchld (runOps cfg ops)) .later ++ listOf (cancelSigchld (runOps cfg ops)) .signal ++
        listOf (cancelSigchld (runOps cfg ops)) .process).filterMap (destroyNote (cancelSigchld (runOps cfg ops)))).reverse
      ++ (cancelSigchld (runOps cfg ops)).log :=
  destroy_log_reachable cfg hc ops hok hd

example : (destroy (runOps .repaired [.act (.io 0 100 1 4), .act (.timer 1 5 6), .act (.later 2 0), .act (.signal 3 23 2),
    .act (.process 4 1000000000 4)])).log.reverse = [.cb 0 6 .none, .cb 1 6 .none, .cb 3 6 .none, .cb 4 6 .none] := by decide +kernel

/-- The stored flags keep DESTROY for every kind of watch when the io mask is the repaired one … -/
theorem repaired_masks_keep_destroy (f : Nat) :
    (f &&& (BIND_UNBIND ||| BIND_DESTROY)) &&& BIND_DESTROY = f &&& BIND_DESTROY ∧
    (f &&& Config.repaired.ioFlagMask) &&& BIND_DESTROY = f &&& BIND_DESTROY := by
  constructor <;> (rw [Nat.and_assoc]; rfl)

/-- … and lose it for io watches in the tree as shipped: `flags & (UNBIND|UNBIND)`. -/
theorem io_destroy_mask_counterexample : (BIND_DESTROY &&& Config.shipped.ioFlagMask) &&& BIND_DESTROY = 0 := by decide

/-! ### defects of the tree as shipped (corpus/C17/*.ops), and the same histories repaired -/

def probeIoDestroy : List Op := [.act (.io 0 100 1 4), .destroy]

/-- An io watch that asked for DESTROY only: nothing at destruction. -/
theorem io_destroy_counterexample : (runOps .shipped probeIoDestroy).log = [] := by decide +kernel
theorem io_destroy_repaired : (runOps .repaired probeIoDestroy).log = [.cb 0 6 .none] := by decide +kernel

def probeStaleHead : List Op :=
  [.beh ⟨1, 0, [.timer 2 5 0]⟩, .act (.timer 0 0 0), .act (.timer 1 0 0), .tick]

/-- The second due timer's callback registers a timer: the walk starts at the freed first timer. -/
theorem timer_stale_head_counterexample : (runOps .shipped probeStaleHead).status = .ub .timerInsertWalk := by
  decide +kernel
theorem timer_stale_head_repaired : (runOps .repaired probeStaleHead).status = .ok ∧
    (runOps .repaired probeStaleHead).timers.length = 1 := by decide +kernel

def probePastDropped : List Op :=
  [.beh ⟨0, 0, [.timerAt 1 999 0 0]⟩, .act (.timer 0 0 0), .tick, .tick]

/-- A timer registered from the first due timer's callback with an earlier deadline: after two
    iterations it has not run, is in no queue, and is still allocated (leaked). -/
theorem timer_past_dropped_counterexample :
    (runOps .shipped probePastDropped).status = .ok ∧ (runOps .shipped probePastDropped).timers = [] ∧
    leaked (runOps .shipped probePastDropped) = [3] ∧
    ((runOps .shipped probePastDropped).slots.map (·.fires)) = [1, 0] := by decide +kernel
theorem timer_past_dropped_repaired :
    leaked (runOps .repaired probePastDropped) = [] ∧
    ((runOps .repaired probePastDropped).slots.map (·.fires)) = [1, 1] := by decide +kernel

def probeLaterCancel : List Op :=
  [.beh ⟨0, 0, [.cancel 1]⟩, .act (.later 0 0), .act (.later 1 2), .tick]

/-- A deferred callback cancelled by an earlier one of the same batch, as shipped: no UNBIND notification, and it
    still runs. -/
theorem later_cancel_detached_counterexample :
    (runOps .shipped probeLaterCancel).log.reverse =
      [.poll (some 0) [(-1, 1)] (some 0), .cb 0 3 .none, .a, .cb 1 3 .none] := by decide +kernel

/-- Repaired (`tickit_watch_cancel` marks an entry of the detached batch, the loop skips marked entries): the
    cancelled callback gets the UNBIND notification it asked for, at once, and never runs; nothing is leaked. -/
theorem cancelled_later_never_runs_repaired :
    (runOps .repaired probeLaterCancel).log.reverse =
      [.poll (some 0) [(-1, 1)] (some 0), .cb 0 3 .none, .a, .cb 1 2 .none] ∧
    leaked (runOps .repaired probeLaterCancel) = [] ∧
    ((runOps .repaired probeLaterCancel).slots.map (·.fires)) = [1, 0] := by decide +kernel

/-- … also when a due timer cancels it (the batch is detached before the timers run), and a deferred callback
    that cancels itself from its own callback is not notified a second time. -/
theorem cancelled_later_by_timer_repaired :
    (runOps .repaired [.beh ⟨0, 0, [.cancel 1]⟩, .beh ⟨2, 0, [.cancel 2]⟩, .act (.timer 0 0 0), .act (.later 1 6), .act (.later 2 2),
      .tick]).log.reverse =
      [.poll (some 0) [(-1, 1)] (some 0), .g, .cb 0 3 .none, .a, .cb 1 2 .none, .cb 2 3 .none, .a] := by decide +kernel

def cbLogOf (st : St) : List Ev := st.log.reverse.filter fun e => match e with | .cb .. => true | _ => false

def probePreExited : List Op := [.act (.exit 1000000000 0), .act (.process 0 1000000000 6), .destroy]

/-- A watch on a child that has already exited is linked nowhere: no notification at destruction, leaked. -/
theorem process_preexited_counterexample :
    (runOps .shipped probePreExited).log = [] ∧ leaked (runOps .shipped probePreExited) = [2] := by decide +kernel

/-- Repaired (`tickit_watch_process` links the watch and remembers its deferred callback in `process.notify`):
    destruction notifies it, nothing is leaked … -/
theorem process_preexited_repaired :
    (runOps .repaired probePreExited).log = [.cb 0 6 .none] ∧ leaked (runOps .repaired probePreExited) = [] := by decide +kernel

/-- … it fires once, from the next iteration, and is released; and a cancel before that takes effect: the UNBIND
    notification it asked for, no invocation, nothing leaked. -/
theorem process_preexited_cancel_repaired :
    cbLogOf (runOps .repaired [.act (.exit 1000000000 7), .act (.process 0 1000000000 6), .tick]) = [.cb 0 1 (.proc 1000000000 7)] ∧
    leaked (runOps .repaired [.act (.exit 1000000000 7), .act (.process 0 1000000000 6), .tick]) = [] ∧
    (runOps .repaired [.act (.exit 1000000000 7), .act (.process 0 1000000000 6), .act (.cancel 0)]).log = [.cb 0 2 .none] ∧
    cbLogOf (runOps .repaired [.act (.exit 1000000000 7), .act (.process 0 1000000000 6), .act (.cancel 0), .tick]) = [] ∧
    leaked (runOps .repaired [.act (.exit 1000000000 7), .act (.process 0 1000000000 6), .act (.cancel 0), .tick]) = [] := by
  decide +kernel

def probeSigchldNext : List Op :=
  [.beh ⟨0, 0, [.cancel 1]⟩, .act (.process 0 1000000000 0), .act (.process 1 1000000001 0),
   .act (.exit 1000000000 0), .act (.raise 17), .tick]

/-- `on_sigchld` keeps `next` across a callback that cancels it. -/
theorem sigchld_next_cancelled_counterexample : (runOps .shipped probeSigchldNext).status = .ub .procLoopThis := by
  decide +kernel
theorem sigchld_next_cancelled_repaired : (runOps .repaired probeSigchldNext).status = .ok := by decide +kernel

/-! ### exactly once, across the iterations of a history -/

theorem repaired_is_rep : Rep Config.repaired := ⟨rfl, rfl, rfl, rfl⟩

/-- The count the harness keeps for watch slot `k` is the count of FIRE invocations of one watch: every watch
    with a slot number has its record, slot numbers are not shared, and the record's handle is the watch that
    carries its number (`fireUser st k …`, the only place that logs a FIRE entry `cb:k:…` and the only place
    that increments `fires`, increments the records whose number is `k`). -/
theorem invocation_count_is_per_watch (ops : List Op) (hok : (runOps .repaired ops).status = .ok) :
    (∀ a, a < (runOps .repaired ops).heap.length → ((runOps .repaired ops).getW a).slot ≥ 0 →
        ∃ r ∈ (runOps .repaired ops).slots, r.k = ((runOps .repaired ops).getW a).slot ∧ r.handle = a) ∧
    ((runOps .repaired ops).slots.map (·.k)).Nodup ∧
    (∀ r ∈ (runOps .repaired ops).slots, r.handle < (runOps .repaired ops).heap.length ∧
        ((runOps .repaired ops).getW r.handle).slot = r.k) :=
  ⟨(b_runOps _ repaired_is_rep ops hok).k.s1, (b_runOps _ repaired_is_rep ops hok).k.s2, (b_runOps _ repaired_is_rep ops hok).k.s3⟩

/-- Exactly once.  In every state a history of valid usage reaches under the repaired source, for every timer
    and every deferred callback the harness registered (record `r`, watch `r.handle`):
    * it has been invoked at most once, over all iterations so far — whatever was registered, cancelled or
      invoked in between, from outside or from inside callbacks;
    * while it is allocated it has not been invoked, and (in a live instance) it is still in its queue, where
      the next iteration that finds it due (`no_due_timer_left`) or the next iteration at all
      (`deferred_batch_runs_once_in_order`) takes it;
    * once it is gone from a live instance and no cancel was ever asked for it, it has been invoked exactly once.
    (A deferred callback cancelled while its batch is detached still runs: `later_cancel_detached_counterexample`.) -/
theorem exactly_once (ops : List Op) (hok : (runOps .repaired ops).status = .ok) :
    ∀ r ∈ (runOps .repaired ops).slots, isOneShot ((runOps .repaired ops).getW r.handle).type = true →
      r.fires ≤ 1 ∧
      ((runOps .repaired ops).live r.handle = true → r.fires = 0) ∧
      ((runOps .repaired ops).alive = true → (runOps .repaired ops).live r.handle = true →
        (((runOps .repaired ops).getW r.handle).type = .timer → r.handle ∈ (runOps .repaired ops).timers) ∧
        (((runOps .repaired ops).getW r.handle).type = .later → r.handle ∈ (runOps .repaired ops).laters)) ∧
      ((runOps .repaired ops).alive = true → r.k ∉ (runOps .repaired ops).cancelReq →
        (runOps .repaired ops).live r.handle = false → r.fires = 1) := by
  intro r hr ho
  have b := b_runOps _ repaired_is_rep ops hok
  have hok' := (St.isOk_iff _).mpr hok
  obtain ⟨o1, o2, _⟩ := b.o r hr ho
  refine ⟨o1, fun hl => o2 hok' hl (fun h => by cases h), ?_, fun hal hnc hd => b.g hal r hr ho hnc hd⟩
  intro hal hl
  obtain ⟨l1, l2⟩ := b.li hok' hal r.handle (b.k.s3 r hr).1 hl
  exact ⟨fun ht => (l1 ht).elim id (fun h => by cases h), fun ht => (l2 ht).elim id (fun h => by cases h)⟩

/-- No timer or deferred callback of a live instance is lost: as long as it is allocated it is in its queue
    (internal ones — `process_notify` — included). -/
theorem no_watch_lost (ops : List Op) (hok : (runOps .repaired ops).status = .ok) (hal : (runOps .repaired ops).alive = true) :
    ∀ a, a < (runOps .repaired ops).heap.length → (runOps .repaired ops).live a = true →
      (((runOps .repaired ops).getW a).type = .timer → a ∈ (runOps .repaired ops).timers) ∧
      (((runOps .repaired ops).getW a).type = .later → a ∈ (runOps .repaired ops).laters) := by
  intro a ha hl
  obtain ⟨l1, l2⟩ := (b_runOps _ repaired_is_rep ops hok).li ((St.isOk_iff _).mpr hok) hal a ha hl
  exact ⟨fun ht => (l1 ht).elim id (fun h => by cases h), fun ht => (l2 ht).elim id (fun h => by cases h)⟩

/-- Three timers and a deferred callback over four iterations, one timer registered from a callback with a
    deadline in the past, one cancelled: the counts. -/
example : ((runOps .repaired [.beh ⟨0, 0, [.timerAt 3 999 0 0, .cancel 2]⟩, .act (.timer 0 0 0), .act (.timer 1 5 0), .act (.timer 2 7 0),
      .act (.later 4 0), .tick, .tick, .clock 5000, .tick, .tick]).slots.map (fun r => (r.k, r.fires))) =
    [(0, 1), (1, 1), (2, 0), (4, 1), (3, 1)] ∧
    (runOps .repaired [.beh ⟨0, 0, [.timerAt 3 999 0 0, .cancel 2]⟩, .act (.timer 0 0 0), .act (.timer 1 5 0), .act (.timer 2 7 0),
      .act (.later 4 0), .tick, .tick, .clock 5000, .tick, .tick]).cancelReq = [2] := by decide +kernel

/-! ### exactly once, one whole iteration -/

/-- Exactly once, for one iteration (`tickit_tick`, non-blocking or blocking) begun in any state a history of valid
    usage reaches under the repaired source: a timer of the harness that is queued when the iteration begins and is due
    when its timer phase starts (by the clock after the wait, `phaseClock`), and a deferred callback that is queued when
    the iteration begins — if no cancel has been asked for it by the time the iteration ends — has not been invoked
    before, is gone (released) when the iteration ends, and its count of FIRE invocations is then exactly 1: whatever the
    other timers, deferred callbacks, io, signal and process callbacks of the iteration registered, cancelled or raised.
    (Composes `exactly_once`, `no_due_timer_left`, `deferred_batch_runs_once_in_order`, "only new watches enter a queue",
    and: the type of a timer / deferred callback never changes unless a cancel is asked — Proof/EvLoopOnceIter.lean.) -/
theorem exactly_once_iteration (ops : List Op) (op : Op) (nohang : Bool)
    (hop : (op = .tick ∧ nohang = true) ∨ (op = .tickhang ∧ nohang = false))
    (hok0 : (runOps .repaired ops).status = .ok) (hal : (runOps .repaired ops).alive = true)
    (hok : (runOps .repaired (ops ++ [op])).status = .ok) :
    ∀ r ∈ (runOps .repaired ops).slots, r.k ∉ (runOps .repaired (ops ++ [op])).cancelReq →
      ((r.handle ∈ (runOps .repaired ops).timers ∧
          ((runOps .repaired ops).getW r.handle).due.gt
            (TV.ofUs (phaseClock { runOps .repaired ops with stillRunning := true, log := [] } nohang)) = false) ∨
        r.handle ∈ (runOps .repaired ops).laters) →
      r.fires = 0 ∧ (runOps .repaired (ops ++ [op])).live r.handle = false ∧
      ∃ r' ∈ (runOps .repaired (ops ++ [op])).slots, r'.k = r.k ∧ r'.handle = r.handle ∧ r'.fires = 1 := by
  have b := b_runOps _ repaired_is_rep ops hok0
  have hokb : (runOps .repaired ops).isOk = true := (St.isOk_iff _).mpr hok0
  have b0 : B [] ({ runOps .repaired ops with stillRunning := true, log := [] } : St) :=
    BStep.of_q0 (Q0.of_eq rfl rfl rfl rfl : Q0 (runOps .repaired ops) { runOps .repaired ops with stillRunning := true, log := [] })
      (G4.of_eq rfl rfl rfl rfl rfl rfl rfl : G4 (runOps .repaired ops) { runOps .repaired ops with stillRunning := true, log := [] }).lstep
      (R2.of_eq rfl rfl rfl rfl rfl rfl) b
  have q0 : QInv ({ runOps .repaired ops with stillRunning := true, log := [] } : St) :=
    (qinv_runOps .repaired ops).grow (Grow.of_eq rfl rfl)
  have he : runOps .repaired (ops ++ [op]) =
      tick defaultFuel { runOps .repaired ops with stillRunning := true, log := [] } nohang := by
    have h1 : runOps .repaired (ops ++ [op]) = applyOp (runOps .repaired ops) op := by
      unfold runOps; rw [List.foldl_append]; rfl
    have hok1 : (!({ runOps .repaired ops with log := [] } : St).isOk) ≠ true := by
      show (!(runOps .repaired ops).isOk) ≠ true
      rw [hokb]; decide
    have hal1 : (!({ runOps .repaired ops with log := [] } : St).alive) ≠ true := by
      show (!(runOps .repaired ops).alive) ≠ true
      rw [hal]; decide
    rcases hop with ⟨h, hn⟩ | ⟨h, hn⟩
    · subst h; subst hn
      rw [h1]; unfold applyOp applyOp'
      rw [if_neg hok1]; simp only []; rw [if_neg hal1]
    · subst h; subst hn
      rw [h1]; unfold applyOp applyOp'
      rw [if_neg hok1]; simp only []; rw [if_neg hal1]
  rw [he] at hok ⊢
  intro r hr hnc hq
  rcases hq with ⟨hin, hdue⟩ | hin
  · have hmem : r.handle ∈ listOf ({ runOps .repaired ops with stillRunning := true, log := [] } : St) .timer := hin
    obtain ⟨_, h2, h3, h4⟩ := timer_once_in_iteration defaultFuel _ nohang b0 q0 hal r hr (b0.wf.typ .timer _ hmem)
      (b0.wf.live .timer _ hmem) hdue hok hnc
    exact ⟨h2, h3, h4⟩
  · have hmem : r.handle ∈ listOf ({ runOps .repaired ops with stillRunning := true, log := [] } : St) .later := hin
    obtain ⟨_, h2, h3, h4⟩ := later_once_in_iteration defaultFuel _ nohang b0 hal r hr (b0.wf.typ .later _ hmem)
      (b0.wf.live .later _ hmem) hok hnc
    exact ⟨h2, h3, h4⟩

/-- In a non-blocking iteration the clock of the timer phase is the clock the iteration began with. -/
theorem phase_clock_of_tick (st : St) :
    phaseClock { st with stillRunning := true, log := [] } true = st.clockUs := phaseClock_nohang _

/-- The hypotheses are met and the conclusion is not vacuous: a due timer, a timer whose deadline lies in the past, a
    deferred callback, and a timer that is not yet due, over one iteration. -/
example : ((runOps .repaired [.act (.timer 0 0 0), .act (.timerAt 1 999 0 0), .act (.later 2 0), .act (.timer 3 5 0)]).slots.map
      (fun r => (r.k, r.handle, r.fires))) = [(0, 2, 0), (1, 3, 0), (2, 4, 0), (3, 5, 0)] ∧
    (runOps .repaired [.act (.timer 0 0 0), .act (.timerAt 1 999 0 0), .act (.later 2 0), .act (.timer 3 5 0)]).timers = [3, 2, 5] ∧
    (runOps .repaired [.act (.timer 0 0 0), .act (.timerAt 1 999 0 0), .act (.later 2 0), .act (.timer 3 5 0)]).laters = [4] ∧
    (runOps .repaired ([.act (.timer 0 0 0), .act (.timerAt 1 999 0 0), .act (.later 2 0), .act (.timer 3 5 0)] ++ [.tick])).status = .ok ∧
    (runOps .repaired ([.act (.timer 0 0 0), .act (.timerAt 1 999 0 0), .act (.later 2 0), .act (.timer 3 5 0)] ++ [.tick])).cancelReq = [] ∧
    ((runOps .repaired ([.act (.timer 0 0 0), .act (.timerAt 1 999 0 0), .act (.later 2 0), .act (.timer 3 5 0)] ++ [.tick])).slots.map
      (fun r => (r.k, r.fires))) = [(0, 1), (1, 1), (2, 1), (3, 0)] := by decide +kernel

/-! ### statements of the property that are not proved (engines.d/C17.json: open_statements) -/

/-- No undefined behaviour on valid usage under the repaired source (every use-after-free found so far is repaired in
    /repo: known/C17.json, known/C18.json list them as fixed; the statement for all histories is not proved). -/
def no_ub_full : Prop :=
  ∀ (ops : List Op), (∀ w, (runOps .repaired ops).status ≠ .ub w)

/-! ### unbind handlers that act (Model/EvLoopUnbind.lean): registered from inside a notification, still runs -/

/-- Once the unbind handler of a cancelled timer / deferred callback has returned, `tickit_watch_cancel` never writes
    the queue again: what the handler queued — wherever it landed, also immediately in front of the place the
    cancelled watch had — is still queued when the cancel returns (every state, every handler). -/
theorem cancel_keeps_what_unbind_handler_queued (ub : List Beh) (st : St) (a : Nat) (w : Watch) (l : List Nat) :
    (w.type = .timer → (cancelFoundU ub st a w l).timers = (cancelUnlinkedU ub st a w l).timers) ∧
    (w.type = .later → (cancelFoundU ub st a w l).laters = (cancelUnlinkedU ub st a w l).laters) :=
  ⟨cancel_keeps_what_handler_queued_timers ub st a w l, cancel_keeps_what_handler_queued_laters ub st a w l⟩

/-- The watch is out of its queue before the handler runs. -/
theorem cancel_unlinks_before_unbind_handler (ub : List Beh) (st : St) (a : Nat) (w : Watch) (l : List Nat)
    (ht : w.type = .timer) (hu : unbindActs ub (st.getW a).slot = []) :
    (cancelUnlinkedU ub st a w l).timers = l.erase a := cancel_unlinks_before_handler ub st a w l ht hu

/-- Non-vacuity: a timer the handler registers between the cancelled timer's predecessor and the cancelled timer is
    queued, runs in deadline order; a BIND_FIRST deferred callback queued while the cancelled one is the head runs. -/
theorem unbind_handler_registrations_run :
    (applyCancelU ubBetween probeUnbindBetween 1).timers = [2, 5, 4] ∧
    cbsOf ([Op.clock 10000, .tick].foldl applyOp (applyCancelU ubBetween probeUnbindBetween 1)) =
      [.cb 0 3 .none, .cb 5 3 .none, .cb 2 3 .none] ∧
    cbsOf ([Op.tick].foldl applyOp (applyCancelU [⟨0, 0, [.later 5 1]⟩] probeUnbindFirst 0)) =
      [.cb 5 3 .none, .cb 1 3 .none] :=
  ⟨unbind_handler_timer_between_is_queued.1, unbind_handler_timer_between_runs, unbind_handler_later_first_runs.2⟩

/-! ### unbind handlers that act: what the handler registered runs exactly once -/

/-- A top-level cancel whose unbind handler acts keeps everything the exactly-once theorems rest on: the five watch
    lists well formed, the slot table, at-most-once, "allocated ⇒ queued", "gone ⇒ invoked or cancel asked" (the bundle
    `B []`) and the order of the timer queue — from every state that has them, for every handler. -/
theorem cancel_with_acting_unbind_handler_keeps_invariants (ub : List Beh) (st : St) (k : Int) (b : B [] st) (q : QInv st) :
    B [] (applyCancelU ub st k) ∧ QInv (applyCancelU ub st k) :=
  ⟨b_applyCancelU ub st k b, qinv_applyCancelU ub st k q⟩

/-- … so every state of every history in which top-level cancels find acting unbind handlers (`UOp`, `runUOps`:
    Model/EvLoopUnbind.lean) has them, under the repaired source. -/
theorem invariants_with_acting_unbind_handlers (ops : List UOp) (hok : (runUOps .repaired ops).status = .ok) :
    B [] (runUOps .repaired ops) ∧ QInv (runUOps .repaired ops) :=
  ⟨b_runUOps _ repaired_is_rep ops hok, qinv_runUOps _ ops⟩

/-- When `tickit_watch_cancel` (made from outside any callback) returns, every timer and every deferred callback its
    unbind handler registered is allocated, has not been invoked, and is in its queue — for every history, every handler
    (`ub`: any list of actions — registrations of every kind, also `BIND_FIRST`, raises, errno), wherever in the queue
    the new watch landed.  (Composes `cancel_keeps_what_unbind_handler_queued` / `cancel_unlinks_before_unbind_handler`'s
    shape of the C text — unlink, handler, hook, free — with the bundle.) -/
theorem unbind_handler_registration_is_queued (ops : List UOp) (ub : List Beh) (k : Int)
    (hok0 : (runUOps .repaired ops).status = .ok) (hal : (runUOps .repaired ops).alive = true)
    (hok1 : (runUOps .repaired (ops ++ [.cancelU ub k])).status = .ok) :
    ∀ r ∈ (runUOps .repaired (ops ++ [.cancelU ub k])).slots, (runUOps .repaired ops).heap.length ≤ r.handle →
      r.k ∉ (runUOps .repaired (ops ++ [.cancelU ub k])).cancelReq →
      isOneShot ((runUOps .repaired (ops ++ [.cancelU ub k])).getW r.handle).type = true →
      (runUOps .repaired (ops ++ [.cancelU ub k])).live r.handle = true ∧ r.fires = 0 ∧
      (((runUOps .repaired (ops ++ [.cancelU ub k])).getW r.handle).type = .timer →
        r.handle ∈ (runUOps .repaired (ops ++ [.cancelU ub k])).timers) ∧
      (((runUOps .repaired (ops ++ [.cancelU ub k])).getW r.handle).type = .later →
        r.handle ∈ (runUOps .repaired (ops ++ [.cancelU ub k])).laters) := by
  rw [runUOps_snoc] at hok1 ⊢
  exact unbind_registered_is_queued ub _ k (b_runUOps _ repaired_is_rep ops hok0) hal hok1

/-- Exactly once.  A timer registered by the unbind handler of a watch cancelled from outside any callback that is due
    when the timer phase of the next iteration starts, and a deferred callback registered by such a handler — if no cancel
    is asked for it by the time that iteration ends — has not been invoked when the cancel returns, is in its queue
    then, is gone (released) when the iteration ends, and its count of FIRE invocations is then exactly 1: for every
    history (earlier cancels with acting handlers included), every handler, whatever the other callbacks of the
    iteration do.  (`unbind_handler_registration_is_queued` composed with `exactly_once_iteration`'s two halves,
    `timer_once_in_iteration` / `later_once_in_iteration`, which hold from every state with the bundle.) -/
theorem unbind_handler_registration_runs_once (ops : List UOp) (ub : List Beh) (k : Int) (op : Op) (nohang : Bool)
    (hop : (op = .tick ∧ nohang = true) ∨ (op = .tickhang ∧ nohang = false))
    (hok0 : (runUOps .repaired ops).status = .ok) (hal : (runUOps .repaired ops).alive = true)
    (hok1 : (runUOps .repaired (ops ++ [.cancelU ub k])).status = .ok)
    (hok2 : (runUOps .repaired ((ops ++ [.cancelU ub k]) ++ [.op op])).status = .ok) :
    ∀ r ∈ (runUOps .repaired (ops ++ [.cancelU ub k])).slots, (runUOps .repaired ops).heap.length ≤ r.handle →
      r.k ∉ (runUOps .repaired ((ops ++ [.cancelU ub k]) ++ [.op op])).cancelReq →
      ((((runUOps .repaired (ops ++ [.cancelU ub k])).getW r.handle).type = .timer ∧
          ((runUOps .repaired (ops ++ [.cancelU ub k])).getW r.handle).due.gt
            (TV.ofUs (phaseClock (afterCancelU ub (runUOps .repaired ops) k) nohang)) = false) ∨
        ((runUOps .repaired (ops ++ [.cancelU ub k])).getW r.handle).type = .later) →
      r.fires = 0 ∧
      (r.handle ∈ (runUOps .repaired (ops ++ [.cancelU ub k])).timers ∨
        r.handle ∈ (runUOps .repaired (ops ++ [.cancelU ub k])).laters) ∧
      (runUOps .repaired ((ops ++ [.cancelU ub k]) ++ [.op op])).live r.handle = false ∧
      ∃ r' ∈ (runUOps .repaired ((ops ++ [.cancelU ub k]) ++ [.op op])).slots, r'.k = r.k ∧ r'.handle = r.handle ∧ r'.fires = 1 := by
  have b := b_runUOps _ repaired_is_rep ops hok0
  have he : runUOps .repaired ((ops ++ [.cancelU ub k]) ++ [.op op]) =
      tick defaultFuel (afterCancelU ub (runUOps .repaired ops) k) nohang := by
    rw [runUOps_snoc, runUOps_snoc]
    show applyOp (applyCancelU ub (runUOps .repaired ops) k) op = _
    rw [runUOps_snoc] at hok1
    have hokb : (applyCancelU ub (runUOps .repaired ops) k).isOk = true := (St.isOk_iff _).mpr hok1
    have hal1 : (applyCancelU ub (runUOps .repaired ops) k).alive = true :=
      (r2_applyCancelU ub _ k b.k).alive.trans hal
    have hok1' : (!({ applyCancelU ub (runUOps .repaired ops) k with log := [] } : St).isOk) ≠ true := by
      show (!(applyCancelU ub (runUOps .repaired ops) k).isOk) ≠ true
      rw [hokb]; decide
    have hal1' : (!({ applyCancelU ub (runUOps .repaired ops) k with log := [] } : St).alive) ≠ true := by
      show (!(applyCancelU ub (runUOps .repaired ops) k).alive) ≠ true
      rw [hal1]; decide
    rcases hop with ⟨h, hn⟩ | ⟨h, hn⟩
    · subst h; subst hn
      unfold applyOp applyOp'
      rw [if_neg hok1']; simp only []; rw [if_neg hal1']; rfl
    · subst h; subst hn
      unfold applyOp applyOp'
      rw [if_neg hok1']; simp only []; rw [if_neg hal1']; rfl
  rw [he] at hok2 ⊢
  rw [runUOps_snoc] at hok1 ⊢
  exact unbind_registered_runs_once defaultFuel ub _ k nohang b (qinv_runUOps _ ops) hal hok1 hok2

/-- The hypotheses are met and the conclusion is not vacuous: timers 0, 1 (UNBIND), 2; the clock passes the first two
    deadlines; `cancel 1` from outside, the handler of 1 registers timer 5 immediately in front of the place timer 1 had
    and the deferred callback 6; one iteration: 5 and 6 (and 0) have run once, 2 is not due, 1 was cancelled. -/
def probeUnbindOnce : List UOp :=
  [.op (.act (.timerAt 0 1000 1000 6)), .op (.act (.timerAt 1 1000 5000 2)), .op (.act (.timerAt 2 1000 10000 0)), .op (.clock 5000)]
def ubOnce : List Beh := [⟨1, 0, [.timerAt 5 1000 4999 2, .later 6 0]⟩]

example : (runUOps .repaired probeUnbindOnce).heap.length = 5 ∧ (runUOps .repaired probeUnbindOnce).alive = true ∧
    ((runUOps .repaired (probeUnbindOnce ++ [.cancelU ubOnce 1])).slots.map (fun r => (r.k, r.handle, r.fires))) =
      [(0, 2, 0), (1, 3, 0), (2, 4, 0), (5, 5, 0), (6, 6, 0)] ∧
    (runUOps .repaired (probeUnbindOnce ++ [.cancelU ubOnce 1])).timers = [2, 5, 4] ∧
    (runUOps .repaired (probeUnbindOnce ++ [.cancelU ubOnce 1])).laters = [6] ∧
    (runUOps .repaired ((probeUnbindOnce ++ [.cancelU ubOnce 1]) ++ [.op .tick])).status = .ok ∧
    (runUOps .repaired ((probeUnbindOnce ++ [.cancelU ubOnce 1]) ++ [.op .tick])).cancelReq = [1] ∧
    ((runUOps .repaired ((probeUnbindOnce ++ [.cancelU ubOnce 1]) ++ [.op .tick])).slots.map (fun r => (r.k, r.handle, r.fires))) =
      [(0, 2, 1), (1, 3, 0), (2, 4, 0), (5, 5, 1), (6, 6, 1)] := by decide +kernel

/-- The statement this round started from — membership of the handler's timer in the queue for *every* state `st`, not
    only reachable ones — is false: a state whose slot table points at a freed watch makes `tickit_watch_cancel` read
    freed memory before any handler runs.  (Kernel-checked; the theorems above quantify over the states histories reach.) -/
theorem unbind_registration_needs_a_reachable_state :
    ¬ (∀ (ub : List Beh) (st : St) (k n : Int) (sec usec : Int) (f : Nat),
      st.isOk = true → unbindActs ub k = [.timerAt n sec usec f] → findSlot st n = none → 0 ≤ n → n < MAXW → 0 ≤ usec →
      (∃ r, findSlot st k = some r ∧ st.timers.contains r.handle = true ∧ (st.getW r.handle).flags &&& BIND_UNBIND ≠ 0 ∧
            (st.getW r.handle).slot = k) →
      (doCancelU ub st k).timers.contains st.heap.length = true) := by
  intro h
  have := h [⟨0, 0, [.timerAt 1 0 0 0]⟩]
    { cfg := .repaired, alive := true, heap := [{ freed := true, type := .timer, flags := 2, slot := 0 }], timers := [0],
      slots := [⟨0, 0, 0⟩] } 0 1 0 0 0 (by decide) (by decide) (by decide) (by decide) (by decide) (by decide)
    ⟨⟨0, 0, 0⟩, by decide, by decide, by decide, by decide⟩
  revert this
  decide

/-- Open: that the handler's registration is *performed* — from a reachable state, `tickit_watch_cancel` of a queued
    timer whose stored flags contain UNBIND reaches the handler without reading freed memory, and a handler whose one
    action is `timerAt n …` (slot `n` unused) leaves a record for `n` whose watch is the fresh address, a timer.  (With
    it, `unbind_handler_registration_is_queued` / `…_runs_once` apply to that record.  It is the no-UB statement of
    this path: `no_ub_full` restricted to `tickit_watch_cancel` and `tickit_watch_timer_at_tv`.) -/
def unbind_handler_registration_is_performed : Prop :=
  ∀ (ops : List UOp) (ub : List Beh) (k n : Int) (sec usec : Int) (f : Nat),
    (runUOps .repaired ops).status = .ok → (runUOps .repaired ops).alive = true →
    unbindActs ub k = [.timerAt n sec usec f] → findSlot (runUOps .repaired ops) n = none → 0 ≤ n → n < MAXW → 0 ≤ usec →
    (∃ r, findSlot (runUOps .repaired ops) k = some r ∧ r.handle ∈ (runUOps .repaired ops).timers ∧
          ((runUOps .repaired ops).getW r.handle).flags &&& BIND_UNBIND ≠ 0) →
    (runUOps .repaired (ops ++ [.cancelU ub k])).status = .ok ∧
    ∃ r' ∈ (runUOps .repaired (ops ++ [.cancelU ub k])).slots, r'.k = n ∧ r'.handle = (runUOps .repaired ops).heap.length ∧
      ((runUOps .repaired (ops ++ [.cancelU ub k])).getW r'.handle).type = .timer

/-! ### relative timers: the delay of `tickit_watch_timer_after_msec`, for every number of milliseconds (round 7) -/

/-- `.tv_sec = msec / 1000, .tv_usec = (msec % 1000) * 1000` is exactly `msec` milliseconds and a normalised timeval,
    for EVERY `msec ≥ 0` - there is no bound above which the product `msec * 1000` matters, because it is never formed. -/
theorem after_msec_delay_exact (msec : Int) (_h : 0 ≤ msec) :
    (msec / 1000) * 1000000 + (msec % 1000) * 1000 = msec * 1000 ∧
    0 ≤ (msec % 1000) * 1000 ∧ (msec % 1000) * 1000 < 1000000 := by omega

/-- `timeradd` of two normalised timevals is their exact sum, normalised. -/
theorem tv_add_exact (a b : TV) (ha : 0 ≤ a.usec ∧ a.usec < 1000000) (hb : 0 ≤ b.usec ∧ b.usec < 1000000) :
    (a.add b).sec * 1000000 + (a.add b).usec = (a.sec * 1000000 + a.usec) + (b.sec * 1000000 + b.usec) ∧
    0 ≤ (a.add b).usec ∧ (a.add b).usec < 1000000 := by
  unfold TV.add
  split <;> (simp only []; omega)

/-- The deadline `tickit_watch_timer_after_msec` hands to `tickit_watch_timer_at_tv` is the clock reading plus exactly
    `msec` milliseconds, for every state and every `msec ≥ 0` (36 minutes, 24 days, …): together with
    `never_early` above (no timer is invoked while its stored deadline is in the future)
    a relative timer never runs before `msec` milliseconds have passed on the clock. -/
theorem after_msec_deadline_exact (st : St) (msec : Int) (flags : Nat) (slot : Int) (h : 0 ≤ msec) :
    watchTimerAfterMsec st msec flags slot =
      watchTimerAt (st.emit .g) ((TV.ofUs st.clockUs).add ⟨msec / 1000, (msec % 1000) * 1000⟩) flags slot ∧
    ((TV.ofUs st.clockUs).add ⟨msec / 1000, (msec % 1000) * 1000⟩).sec * 1000000 +
      ((TV.ofUs st.clockUs).add ⟨msec / 1000, (msec % 1000) * 1000⟩).usec = st.clockUs + msec * 1000 := by
  refine ⟨rfl, ?_⟩
  have hn : 0 ≤ (TV.ofUs st.clockUs).usec ∧ (TV.ofUs st.clockUs).usec < 1000000 := by
    unfold TV.ofUs; simp only []; omega
  have h1 := (tv_add_exact (TV.ofUs st.clockUs) ⟨msec / 1000, (msec % 1000) * 1000⟩ hn
    ⟨(after_msec_delay_exact msec h).2.1, (after_msec_delay_exact msec h).2.2⟩).1
  rw [h1]
  have h2 := (after_msec_delay_exact msec h).1
  unfold TV.ofUs
  simp only []
  omega

/-- Non-vacuity: forty minutes (40*60*1000 ms, above INT_MAX/1000) is a deadline 2400 s after the clock reading. -/
theorem after_msec_forty_minutes :
    (watchTimerAfterMsec (build .repaired) 2400000 0 0).1.timers.map
      (fun a => ((watchTimerAfterMsec (build .repaired) 2400000 0 0).1.getW a).due) =
    [⟨(build .repaired).clockUs / 1000000 + 2400, 0⟩] := by decide +kernel

end Tickit.Props.C17
