import Tickit.Proof.WinExpose
import Tickit.Proof.WinFlush
import Tickit.Gen.Win
import Tickit.Proof.WinDamage
import Tickit.Proof.WinSteps
import Tickit.Proof.WinGeom
import Tickit.Proof.WinClose
import Tickit.Proof.WinScroll
import Tickit.Props.C02
/-
  C01 — The flushed screen equals the painter's-model composition of the window tree.

  `WinSpec.ownerAt tree L C = some (w, l, c)`: terminal cell `(L, C)` belongs, in the painter's model (children over their
  parent, earlier siblings over later ones, hidden subtrees ignored, everything clipped to every ancestor), to window
  `w`, where it is the cell `(l, c)` of `w`'s own coordinates.  `content w l c` is what `w` paints there; the proviso
  `WinSpec.Repaints content beh` says every handler repaints the rectangle it is asked to.
  `Exact content st`: every owned terminal cell shows its owner's content.

  Proved: the damage accumulated by `expose` is exactly the exposed area clipped to every ancestor (`expose_sound`); a
  flush turns "damaged or already right" (`Inv`) into `Exact` (`flush_exact`), for every tree; `Inv` is kept by `expose`
  (`inv_step_expose`); hence `C01_partial`: after every flush of every history of exposes and flushes, on every tree,
  the screen is the composition.  The steps for the operations that change the tree and for scrolling are stated in
  full below (`inv_step_full`, `scroll_step_full`) and still open: they are covered by the correspondence check and the
  runtime oracle only.
-/
namespace Tickit.Props.C01
open Tickit WinTree WinRB WinFlush WinSpec

/-! ### stage 1: `expose` -/

/-- **`expose_sound`**: the damage `tickit_window_expose(id, e)` adds is exactly the exposed area clipped to the window and
    to every ancestor, translated to root coordinates, when every window on the way is visible (and nothing
    otherwise); nothing else about the tree changes. -/
theorem expose_sound (fuel : Nat) (t : Tree) (id : Id) (e : Option Rect) (t' : Tree)
    (h : expose t fuel id e = .ok t') (hne : ∀ x ∈ t.root.damage, x.Nonempty) (hpos : RootsPositive t) :
    t'.wins = t.wins ∧ (∀ x ∈ t'.root.damage, x.Nonempty) ∧
    ∀ L C, Covered t'.root.damage L C ↔ (Covered t.root.damage L C ∨ ExposedRegion t fuel id e L C) :=
  let ⟨h1, h2, _, _, h4⟩ := expose_spec fuel t id e t' h hne hpos
  ⟨h1, h2, h4⟩

/-! ### stage 3: the flush -/

/-- Every owned terminal cell shows what its owner paints there. -/
def Exact (content : Id → Int → Int → Cell) (tree : Tree) (screen : Int → Int → Cell) : Prop :=
  ∀ L C w l c, ownerAt tree L C = some (w, l, c) → screen L C = content w l c

/-- Every owned terminal cell is pending repaint or already right. -/
def Inv (content : Id → Int → Int → Cell) (tree : Tree) (screen : Int → Int → Cell) : Prop :=
  InvC content tree screen

/-- Pending damage is flagged (what `tickit_window_expose` does when it records damage). -/
def Flagged (t : Tree) : Prop := t.root.damage ≠ [] → t.root.needsExpose = true

/-- **`flush_exact`** (rendering half): whatever the tree, if every owned cell is damaged or already right and the
    handlers repaint what they are asked to, then after the rendering no damage is left and every owned cell is right. -/
theorem flush_exact (beh : Id → Rect → List DrawOp) (content : Id → Int → Int → Cell)
    (st st' : St) (t : Tree) (shots : List Shot)
    (h : flushRender beh st t = .ok (st', shots)) (hroot : RootOk t) (hflag : Flagged t)
    (hrep : Repaints content beh) (hinv : Inv content t st.screen) :
    st'.tree.root.damage = [] ∧ st'.tree.wins = t.wins ∧ Exact content st'.tree st'.screen := by
  have hcases := flushRender_cases beh st st' t shots h
  cases hne : t.root.needsExpose with
  | false =>
    rcases hcases with ⟨_, hs, htr, _⟩ | ⟨_, _, _, _, hx, _⟩
    · have hdmg : t.root.damage = [] := by
        cases hdd : t.root.damage with
        | nil => rfl
        | cons a b =>
          have := hflag (by rw [hdd]; simp)
          rw [hne] at this; cases this
      have hw : st'.tree.wins = t.wins := by rw [htr]
      refine ⟨by rw [htr]; exact hdmg, hw, ?_⟩
      intro L C w l c ho
      rw [ownerAt_congr st'.tree t hw] at ho
      rcases hinv L C w l c ho with hc | hc
      · rw [hdmg] at hc; exact absurd hc (RectSet.covered_nil L C)
      · rw [hs]; exact hc
    · rw [hne] at hx; cases hx
  | true =>
    rcases hcases with ⟨_, _, _, hx⟩ | ⟨root, s', _, _, _, _, _, ht, _⟩
    · rw [hne] at hx; cases hx
    · refine ⟨by rw [ht]; rfl, by rw [ht]; rfl, ?_⟩
      intro L C w l c ho
      by_cases hc : Covered t.root.damage L C
      · exact flushRender_content beh content st st' t shots h hroot hne hrep L C hc w l c ho
      · have hsame : st'.screen L C = st.screen L C := by
          apply Classical.byContradiction
          intro hdiff
          exact hc (flushRender_frame beh st st' t shots h L C hdiff)
        rw [hsame]
        have hw : st'.tree.wins = t.wins := by rw [ht]; rfl
        rw [ownerAt_congr st'.tree t hw] at ho
        rcases hinv L C w l c ho with hc' | hc'
        · exact absurd hc' hc
        · exact hc'

/-- Cells the rendering does not own or that were not damaged keep what they showed: no misplaced cell. -/
theorem flush_keeps_undamaged (beh : Id → Rect → List DrawOp) (st st' : St) (t : Tree) (shots : List Shot)
    (h : flushRender beh st t = .ok (st', shots)) :
    ∀ L C, ¬ Covered t.root.damage L C → st'.screen L C = st.screen L C := by
  intro L C hc
  apply Classical.byContradiction
  intro hdiff
  exact hc (flushRender_frame beh st st' t shots h L C hdiff)

/-! ### stage 4 (part): histories of exposes and flushes on an arbitrary fixed tree -/

/-- The state is in order: the root window is at the origin, visible and not a child; nothing is queued; recorded
    damage is flagged for the next flush. -/
structure Good (content : Id → Int → Int → Cell) (st : St) : Prop where
  root : RootOk st.tree
  rootTop : ∀ w, st.tree.wins[0]? = some w → w.parent = none
  pos : RootsPositive st.tree
  nonempty : ∀ x ∈ st.tree.root.damage, x.Nonempty
  noQueue : st.tree.root.changes = []
  flagged : Flagged st.tree
  later : st.tree.root.damage ≠ [] → st.tree.root.needsLater = true
  inv : Inv content st.tree st.screen
  /-- parent pointers agree with the child lists -/
  wf : WFp st.tree
  rootWin : RootWin st.tree
  /-- the damage set satisfies the invariant of C05 (in particular its rectangles are pairwise disjoint) -/
  dinv : RectSet.Inv st.tree.root.damage
  onlyRoot : OnlyRoot st.tree
  nodup : ChildrenNodup st.tree
  noSelf : NoSelfParent st.tree

inductive Op where
  | expose (id : Id) (e : Option Rect)
  | geom (id : Id) (rect : Rect)
  | close (id : Id)
  | hide (id : Id)
  | show (id : Id)
  | flush
deriving Repr

/-- Hiding or showing the root window itself is outside this theorem (the composition is then empty); the root's
    geometry follows the terminal. -/
def Op.Ok : Op → Prop
  | .geom id _ => id ≠ 0
  | .close id => id ≠ 0
  | .hide id => id ≠ 0
  | .show id => id ≠ 0
  | _ => True

def runOp (beh : Id → Rect → List DrawOp) (st : St) : Op → Res St
  | .expose id e => do
    let t ← WinTree.expose st.tree st.fuel id e
    pure { st with tree := t }
  | .geom id rect => do
    -- `tickit_window_set_geometry`, then the exposes the proviso demands: old and new area, in the parent
    let t ← setGeometryExposed st.tree st.fuel id rect
    pure { st with tree := t }
  | .close id => do
    let t ← WinTree.close st.tree st.fuel id
    pure { st with tree := t }
  | .hide id => do
    let t ← WinTree.hide st.tree st.fuel id
    pure { st with tree := t }
  | .show id => do
    let t ← WinTree.show st.tree st.fuel id
    pure { st with tree := t }
  | .flush => do
    let r ← WinFlush.flush beh st
    pure r.1

def run (beh : Id → Rect → List DrawOp) : St → List Op → Res St
  | st, [] => .ok st
  | st, op :: ops => do
    let st ← runOp beh st op
    run beh st ops

/-- **`inv_step` for `expose`**: exposing any rectangle of any window keeps the state in order. -/
theorem inv_step_expose (content : Id → Int → Int → Cell) (st : St) (id : Id) (e : Option Rect) (t' : Tree)
    (h : WinTree.expose st.tree st.fuel id e = .ok t') (hg : Good content st) :
    Good content { st with tree := t' } := by
  obtain ⟨hw, hne, hdi, hfl, hcov⟩ := expose_spec st.fuel st.tree id e t' h hg.nonempty hg.pos
  refine { wf := wfp_congr hw hg.wf
           rootWin := rootWin_congr hw hg.rootWin
           onlyRoot := onlyRoot_congr hw hg.onlyRoot
           nodup := (struct_congr_wins hw hg.nodup hg.noSelf).1
           noSelf := (struct_congr_wins hw hg.nodup hg.noSelf).2
           dinv := hdi hg.dinv
           root := rootOk_congr hw hg.root
           rootTop := by intro w hw'; rw [hw] at hw'; exact hg.rootTop w hw'
           pos := by intro i w hw'; rw [hw] at hw'; exact hg.pos i w hw'
           nonempty := hne
           noQueue := ?_
           flagged := ?_
           later := ?_
           inv := ?_ }
  · rcases hfl with rfl | ⟨_, _, hq⟩
    · exact hg.noQueue
    · show t'.root.changes = []
      rw [hq]; exact hg.noQueue
  · rcases hfl with rfl | ⟨h1, _, _⟩
    · exact hg.flagged
    · intro _; exact h1
  · rcases hfl with rfl | ⟨_, h2, _⟩
    · exact hg.later
    · intro _; exact h2
  · intro L C w l c ho
    have ho' : ownerAt st.tree L C = some (w, l, c) := by
      rw [← ownerAt_congr t' st.tree hw]; exact ho
    rcases hg.inv L C w l c ho' with hc | hc
    · exact Or.inl ((hcov L C).2 (Or.inl hc))
    · exact Or.inr hc

/-- **`inv_step` for `flush`** (nothing queued): afterwards the state is in order *and* exact. -/
theorem inv_step_flush (beh : Id → Rect → List DrawOp) (content : Id → Int → Int → Cell) (st st' : St) (shots : List Shot)
    (h : WinFlush.flush beh st = .ok (st', shots)) (hrep : Repaints content beh) (hg : Good content st) :
    Good content st' ∧ Exact content st'.tree st'.screen := by
  obtain ⟨root, hr, hf, hv, htop, hleft⟩ := hg.root.ex
  unfold WinFlush.flush at h
  have hget : WinTree.get st.tree 0 = .ok root := by
    unfold WinTree.get; rw [hr]; simp [hf]
  rw [hget] at h
  simp only [bind, Bind.bind, hg.rootTop root hr, Option.isSome_none] at h
  cases hnl : st.tree.root.needsLater with
  | false =>
    simp only [hnl, pure, Pure.pure] at h
    simp at h
    obtain ⟨h1, h2⟩ := h
    subst h1 h2
    have hdmg : st.tree.root.damage = [] := by
      cases hdd : st.tree.root.damage with
      | nil => rfl
      | cons a b =>
        have := hg.later (by rw [hdd]; simp)
        rw [hnl] at this; cases this
    refine ⟨hg, ?_⟩
    intro L C w l c ho
    rcases hg.inv L C w l c ho with hc | hc
    · rw [hdmg] at hc; exact absurd hc (RectSet.covered_nil L C)
    · exact hc
  | true =>
    simp only [hnl] at h
    have hq : flushQueue st = .ok { st.tree with root := { st.tree.root with needsLater := false, changes := [] } } := by
      unfold flushQueue
      simp only [hg.noQueue, applyChanges]
    rw [hq] at h
    simp only at h
    generalize ht : ({ st.tree with root := { st.tree.root with needsLater := false, changes := [] } } : Tree) = t at h
    have htw : t.wins = st.tree.wins := by rw [← ht]
    have htd : t.root.damage = st.tree.root.damage := by rw [← ht]
    have htq : t.root.changes = [] := by rw [← ht]
    have hrootT : RootOk t := rootOk_congr htw hg.root
    have hflagT : Flagged t := by
      intro hd
      rw [htd] at hd
      have := hg.flagged hd
      rw [← ht]
      exact this
    have hinvT : Inv content t st.screen := by
      intro L C w l c ho
      rw [ownerAt_congr t st.tree htw] at ho
      rw [htd]
      exact hg.inv L C w l c ho
    obtain ⟨hd', hw', hex⟩ := flush_exact beh content st st' t shots h hrootT hflagT hrep hinvT
    obtain ⟨_, hq', _⟩ := flushRender_tree beh st st' t shots h
    have hww : st'.tree.wins = st.tree.wins := by rw [hw', htw]
    refine ⟨{ wf := wfp_congr hww hg.wf
              rootWin := rootWin_congr hww hg.rootWin
              onlyRoot := onlyRoot_congr hww hg.onlyRoot
              nodup := (struct_congr_wins hww hg.nodup hg.noSelf).1
              noSelf := (struct_congr_wins hww hg.nodup hg.noSelf).2
              dinv := by rw [hd']; exact (RectSet.inv_iff _).2 RectSet.invS_nil
              root := rootOk_congr hww hg.root
              rootTop := by intro w hw''; rw [hww] at hw''; exact hg.rootTop w hw''
              pos := by intro i w hw''; rw [hww] at hw''; exact hg.pos i w hw''
              nonempty := by intro x hx; rw [hd'] at hx; cases hx
              noQueue := by rw [hq', htq]
              flagged := by intro hx; exact absurd hd' hx
              later := by intro hx; exact absurd hd' hx
              inv := fun L C w l c ho => Or.inr (hex L C w l c ho) }, hex⟩

/-- **`inv_step` for `hide` and `show`** (of any window but the root): the damage they record covers every cell whose
    owner they change (`Proof/WinSteps.lean`: `hide_step`, `show_step`, through the locality of the painter's model). -/
theorem inv_step_vis (content : Id → Int → Int → Cell) (st : St) (id : Id) (t' : Tree) (hid : id ≠ 0)
    (h : WinTree.hide st.tree st.fuel id = .ok t' ∨ WinTree.show st.tree st.fuel id = .ok t') (hg : Good content st) :
    Good content { st with tree := t' } := by
  have key : InvC content t' st.screen ∧ WFp t' ∧ RootWin t' ∧ (∀ x ∈ t'.root.damage, x.Nonempty) ∧
      (RectSet.Inv st.tree.root.damage → RectSet.Inv t'.root.damage) ∧ RootsPositive t' ∧
      t'.wins.size = st.tree.wins.size ∧
      (t'.root = st.tree.root ∨ (t'.root.needsExpose = true ∧ t'.root.needsLater = true ∧ t'.root.changes = st.tree.root.changes)) ∧
      (∃ t1, SameBut st.tree t1 id ∧ t'.wins = t1.wins) := by
    rcases h with h | h
    · exact hide_step content st.screen st.tree t' id h hid hg.wf hg.rootWin hg.nonempty hg.pos hg.inv
    · exact show_step content st.screen st.tree t' id h hg.wf hg.rootWin hg.nonempty hg.pos hg.inv
  obtain ⟨hinv, hwf, hrw, hne, hdi, hpos, _, hfl, t1, hsb, hwins⟩ := key
  obtain ⟨rw0, hrw0, _, _, hrp, _, _⟩ := hrw.ex
  refine { root := rootOk_congr hwins (rootOk_sameBut hsb hid hg.root)
           rootTop := by intro w hw'; rw [hrw0] at hw'; cases hw'; exact hrp
           pos := hpos
           nonempty := hne
           noQueue := ?_
           flagged := ?_
           later := ?_
           inv := hinv
           wf := hwf
           rootWin := hrw
           onlyRoot := onlyRoot_congr hwins (onlyRoot_sameBut hsb hg.onlyRoot)
           nodup := (struct_congr_wins hwins (struct_sameBut hsb hg.nodup hg.noSelf).1 (struct_sameBut hsb hg.nodup hg.noSelf).2).1
           noSelf := (struct_congr_wins hwins (struct_sameBut hsb hg.nodup hg.noSelf).1 (struct_sameBut hsb hg.nodup hg.noSelf).2).2
           dinv := hdi hg.dinv }
  · rcases hfl with hr | ⟨_, _, hq⟩
    · show t'.root.changes = []
      rw [hr]; exact hg.noQueue
    · show t'.root.changes = []
      rw [hq]; exact hg.noQueue
  · rcases hfl with hr | ⟨h1, _, _⟩
    · intro hd
      show t'.root.needsExpose = true
      rw [hr]
      exact hg.flagged (by show st.tree.root.damage ≠ []; rw [← hr]; exact hd)
    · intro _; exact h1
  · rcases hfl with hr | ⟨_, h2, _⟩
    · intro hd
      show t'.root.needsLater = true
      rw [hr]
      exact hg.later (by show st.tree.root.damage ≠ []; rw [← hr]; exact hd)
    · intro _; exact h2

/-- **`inv_step` for a geometry change** of any window but the root, followed — as the property's proviso demands — by
    the exposes of the old and the new area: every cell whose owner changes lies under the old or the new rectangle
    (`Proof/WinGeom.lean`). -/
theorem inv_step_geom (content : Id → Int → Int → Cell) (st : St) (id : Id) (rect : Rect) (t' : Tree) (hid : id ≠ 0)
    (h : setGeometryExposed st.tree st.fuel id rect = .ok t') (hg : Good content st) :
    Good content { st with tree := t' } := by
  obtain ⟨hinv, hwf, hrw, hor, hne, hdi, hpos, hfl, t1, hsb, hwins⟩ :=
    geom_step content st.screen st.tree t' id rect h hid hg.wf hg.rootWin hg.onlyRoot hg.nonempty hg.pos hg.inv
  obtain ⟨rw0, hrw0, _, _, hrp, _, _⟩ := hrw.ex
  refine { root := rootOk_congr hwins (rootOk_sameButG hsb hid hg.root)
           rootTop := by intro w hw'; rw [hrw0] at hw'; cases hw'; exact hrp
           pos := hpos
           nonempty := hne
           noQueue := ?_
           flagged := ?_
           later := ?_
           inv := hinv
           wf := hwf
           rootWin := hrw
           onlyRoot := hor
           nodup := (struct_congr_wins hwins (struct_sameButG hsb hg.nodup hg.noSelf).1 (struct_sameButG hsb hg.nodup hg.noSelf).2).1
           noSelf := (struct_congr_wins hwins (struct_sameButG hsb hg.nodup hg.noSelf).1 (struct_sameButG hsb hg.nodup hg.noSelf).2).2
           dinv := hdi hg.dinv }
  · rcases hfl with hr | ⟨_, _, hq⟩
    · show t'.root.changes = []
      rw [hr]; exact hg.noQueue
    · show t'.root.changes = []
      rw [hq]; exact hg.noQueue
  · rcases hfl with hr | ⟨h1, _, _⟩
    · intro hd
      show t'.root.needsExpose = true
      rw [hr]
      exact hg.flagged (by show st.tree.root.damage ≠ []; rw [← hr]; exact hd)
    · intro _; exact h1
  · rcases hfl with hr | ⟨_, h2, _⟩
    · intro hd
      show t'.root.needsLater = true
      rw [hr]
      exact hg.later (by show st.tree.root.damage ≠ []; rw [← hr]; exact hd)
    · intro _; exact h2

/-- **`inv_step` for `tickit_window_close`** of any window but the root (nothing queued): the rectangle it exposes in
    the parent covers every cell whose owner changes (`Proof/WinClose.lean`, through the locality lemma for a changed
    child list). -/
theorem inv_step_close (content : Id → Int → Int → Cell) (st : St) (id : Id) (t' : Tree) (hid : id ≠ 0)
    (h : WinTree.close st.tree st.fuel id = .ok t') (hg : Good content st) :
    Good content { st with tree := t' } := by
  obtain ⟨hinv, hok, hro, hne, hdi, hpos, hq, hf⟩ :=
    close_step content st.screen st.tree t' id h hid ⟨hg.wf, hg.nodup, hg.noSelf, hg.onlyRoot, hg.rootWin⟩ hg.root
      hg.nonempty hg.pos hg.inv
  obtain ⟨rw0, hrw0, _, _, hrp, _, _⟩ := hok.rootWin.ex
  have hfl := hf (fun hd => ⟨hg.flagged hd, hg.later hd⟩)
  exact { root := hro
          rootTop := by intro w hw'; rw [hrw0] at hw'; cases hw'; exact hrp
          pos := hpos
          nonempty := hne
          noQueue := hq hg.noQueue
          flagged := fun hd => (hfl hd).1
          later := fun hd => (hfl hd).2
          inv := hinv
          wf := hok.wf
          rootWin := hok.rootWin
          onlyRoot := hok.onlyRoot
          nodup := hok.nodup
          noSelf := hok.noSelf
          dinv := hdi hg.dinv }

theorem good_step (beh : Id → Rect → List DrawOp) (content : Id → Int → Int → Cell) (hrep : Repaints content beh)
    (st st' : St) (op : Op) (hop : op.Ok) (h : runOp beh st op = .ok st') (hg : Good content st) : Good content st' := by
  cases op with
  | close id =>
    simp only [runOp, bind, Bind.bind] at h
    cases he : WinTree.close st.tree st.fuel id with
    | ub w => rw [he] at h; cases h
    | ok t' =>
      rw [he] at h
      simp only [pure, Pure.pure] at h
      cases h
      exact inv_step_close content st id t' hop he hg
  | geom id rect =>
    simp only [runOp, bind, Bind.bind] at h
    cases he : setGeometryExposed st.tree st.fuel id rect with
    | ub w => rw [he] at h; cases h
    | ok t' =>
      rw [he] at h
      simp only [pure, Pure.pure] at h
      cases h
      exact inv_step_geom content st id rect t' hop he hg
  | hide id =>
    simp only [runOp, bind, Bind.bind] at h
    cases he : WinTree.hide st.tree st.fuel id with
    | ub w => rw [he] at h; cases h
    | ok t' =>
      rw [he] at h
      simp only [pure, Pure.pure] at h
      cases h
      exact inv_step_vis content st id t' hop (Or.inl he) hg
  | «show» id =>
    simp only [runOp, bind, Bind.bind] at h
    cases he : WinTree.show st.tree st.fuel id with
    | ub w => rw [he] at h; cases h
    | ok t' =>
      rw [he] at h
      simp only [pure, Pure.pure] at h
      cases h
      exact inv_step_vis content st id t' hop (Or.inr he) hg
  | expose id e =>
    simp only [runOp, bind, Bind.bind] at h
    cases he : WinTree.expose st.tree st.fuel id e with
    | ub w => rw [he] at h; cases h
    | ok t' =>
      rw [he] at h
      simp only [pure, Pure.pure] at h
      cases h
      exact inv_step_expose content st id e t' he hg
  | flush =>
    simp only [runOp, bind, Bind.bind] at h
    cases hf : WinFlush.flush beh st with
    | ub w => rw [hf] at h; cases h
    | ok r =>
      rw [hf] at h
      simp only [pure, Pure.pure] at h
      cases h
      exact (inv_step_flush beh content st r.1 r.2 hf hrep hg).1

theorem good_run (beh : Id → Rect → List DrawOp) (content : Id → Int → Int → Cell) (hrep : Repaints content beh) :
    ∀ (ops : List Op) (st st' : St), (∀ op ∈ ops, op.Ok) → run beh st ops = .ok st' → Good content st → Good content st' := by
  intro ops
  induction ops with
  | nil => intro st st' _ h hg; simp only [run] at h; cases h; exact hg
  | cons op ops ih =>
    intro st st' hok h hg
    simp only [run, bind, Bind.bind] at h
    cases h1 : runOp beh st op with
    | ub w => rw [h1] at h; cases h
    | ok st1 =>
      rw [h1] at h
      exact ih st1 st' (fun o ho => hok o (List.mem_cons_of_mem _ ho)) h
        (good_step beh content hrep st st1 op (hok op List.mem_cons_self) h1 hg)

/-- **`C01_partial`**: on every tree (any shape, geometry, z-order, visibility), for every history of exposes of any
    rectangles of any windows, moves and resizes (each followed by the
    exposes of the old and new area), closes, hides and shows of any windows but the root, interleaved with flushes, and for all handlers that repaint what they are asked to: after
    every flush every owned terminal cell shows what its owner paints there. -/
theorem C01_partial (beh : Id → Rect → List DrawOp) (content : Id → Int → Int → Cell) (hrep : Repaints content beh)
    (st0 : St) (hg : Good content st0) (ops : List Op) (hok : ∀ op ∈ ops, op.Ok) (st1 st2 : St) (shots : List Shot)
    (h1 : run beh st0 ops = .ok st1) (h2 : WinFlush.flush beh st1 = .ok (st2, shots)) :
    Exact content st2.tree st2.screen :=
  (inv_step_flush beh content st1 st2 shots h2 hrep (good_run beh content hrep ops st0 st1 hok h1 hg)).2

/-- Along every such history the damage set keeps C05's invariant, so the rectangles handed to one window during any
    flush are pairwise disjoint (C02's last clause without the disjointness hypothesis), in a tree without repeated
    windows. -/
theorem handed_rects_disjoint_along_history (beh : Id → Rect → List DrawOp) (content : Id → Int → Int → Cell)
    (hrep : Repaints content beh) (st0 : St) (hg : Good content st0) (ops : List Op) (hok : ∀ op ∈ ops, op.Ok)
    (st1 st2 : St) (shots : List Shot)
    (h1 : run beh st0 ops = .ok st1) (h2 : WinFlush.flush beh st1 = .ok (st2, shots))
    (hnd : (visitIds st2.tree (st2.tree.wins.size + 1) 0).Nodup) :
    ∀ w, ((shots.map Shot.ev).filter (fun e => e.1 = w)).Pairwise (fun a b => Rect.Disjoint a.2 b.2) := by
  have hg1 := good_run beh content hrep ops st0 st1 hok h1 hg
  obtain ⟨root, hr, hf, _, _, _⟩ := hg1.root.ex
  unfold WinFlush.flush at h2
  have hget : WinTree.get st1.tree 0 = .ok root := by
    unfold WinTree.get; rw [hr]; simp [hf]
  rw [hget] at h2
  simp only [bind, Bind.bind, hg1.rootTop root hr, Option.isSome_none] at h2
  cases hnl : st1.tree.root.needsLater with
  | false =>
    simp only [hnl, pure, Pure.pure] at h2
    simp at h2
    obtain ⟨_, hs⟩ := h2
    subst hs
    intro w; exact List.Pairwise.nil
  | true =>
    simp only [hnl] at h2
    have hq : flushQueue st1 = .ok { st1.tree with root := { st1.tree.root with needsLater := false, changes := [] } } := by
      unfold flushQueue
      simp only [hg1.noQueue, applyChanges]
    rw [hq] at h2
    simp only at h2
    exact Props.C02.handed_rects_disjoint_of_inv beh st1 st2 _ shots h2 hg1.dinv hnd

/-! ### non-vacuity -/

/-- A handler that repaints what it is asked to: a full pen of its own, then an erase of the handed rectangle. -/
def solidBeh : Id → Rect → List DrawOp :=
  fun w rect => [.setPen { fg := some (w + 1), bg := some 0, b := some false }, .eraseRect rect]

def solidContent : Id → Int → Int → Cell := fun w _ _ => ⟨32, w + 1, 0, false⟩

theorem solid_repaints : Repaints solidContent solidBeh := by
  intro w rect rb L C hw hm
  show ((rb.setpen (some { fg := some ((w : Int) + 1), bg := some 0, b := some false })).eraseRect rect).cells L C = _
  have hw' : (rb.setpen (some { fg := some ((w : Int) + 1), bg := some 0, b := some false })).writable L C = true := by
    rw [writable_setpen]; exact hw
  have hm' : (rect.translate (rb.setpen (some { fg := some ((w : Int) + 1), bg := some 0, b := some false })).xl
      (rb.setpen (some { fg := some ((w : Int) + 1), bg := some 0, b := some false })).xc).memb L C = true := by
    rw [memb_translate]; exact hm
  simp only [RB.eraseRect, RB.putRect]
  rw [if_pos ⟨hm', hw'⟩]
  simp only [RB.setpen, Pen.copy, solidContent, Cell.blank, Cell.ofPen]
  cases rb.stack <;> simp [Pen.copy]

/-- With the whole root window damaged, every owned cell is pending repaint. -/
theorem inv_of_full_damage (content : Id → Int → Int → Cell) (t : Tree) (screen : Int → Int → Cell) (root : Win)
    (hr : t.wins[0]? = some root) (hf : root.freed = false) (hv : root.isVisible = true)
    (htop : root.rect.top = 0) (hleft : root.rect.left = 0)
    (hfull : (⟨0, 0, root.rect.lines, root.rect.cols⟩ : Rect) ∈ t.root.damage) : Inv content t screen := by
  intro L C w l c ho
  rw [ownerAt_eq t root hr hf hv htop hleft L C] at ho
  left
  cases hm : (⟨0, 0, root.rect.lines, root.rect.cols⟩ : Rect).memb L C with
  | false => rw [hm] at ho; simp at ho
  | true => exact ⟨_, hfull, (memb_true_iff _ _ _).1 hm⟩

/-- **Full redraw**: whatever the tree (any shape, geometry, z-order, visibility) and whatever the terminal showed, once
    the whole root window is damaged a flush leaves the painter's-model composition in every owned cell. -/
theorem flush_after_full_expose (beh : Id → Rect → List DrawOp) (content : Id → Int → Int → Cell)
    (st st' : St) (t : Tree) (shots : List Shot) (root : Win)
    (h : flushRender beh st t = .ok (st', shots)) (hroot : RootOk t) (hflag : Flagged t) (hrep : Repaints content beh)
    (hr : t.wins[0]? = some root) (hfull : (⟨0, 0, root.rect.lines, root.rect.cols⟩ : Rect) ∈ t.root.damage) :
    Exact content st'.tree st'.screen := by
  obtain ⟨root0, hr0, hf0, hv0, htop0, hleft0⟩ := hroot.ex
  have : root0 = root := by rw [hr] at hr0; exact (Option.some.inj hr0).symm
  subst this
  exact (flush_exact beh content st st' t shots h hroot hflag hrep
    (inv_of_full_damage content t st.screen root0 hr hf0 hv0 htop0 hleft0 hfull)).2.2

/-- A freshly created terminal of positive size is in order (the hypothesis of `C01_partial` is inhabited). -/
theorem good_init (content : Id → Int → Int → Cell) (lines cols : Int) (pen : Option Pen) (hl : 0 < lines) (hc : 0 < cols) :
    Good content (St.init lines cols pen) := by
  have hd : (St.init lines cols pen).tree.root.damage = [⟨0, 0, lines, cols⟩] := by
    simp [St.init, newRoot, hl, hc]
  have hw : (St.init lines cols pen).tree.wins[0]? = some { rect := ⟨0, 0, lines, cols⟩, isRoot := true } := by
    simp [St.init, newRoot]
  have hwins : (St.init lines cols pen).tree.wins = #[{ rect := ⟨0, 0, lines, cols⟩, isRoot := true }] := by simp [St.init, newRoot]
  refine { root := ⟨⟨_, hw, rfl, rfl, rfl, rfl⟩⟩
           rootTop := by intro w hw'; rw [hw] at hw'; cases hw'; rfl
           wf := ⟨by
             intro cur w hw' ch hch
             rw [hwins] at hw'
             cases cur with
             | zero => simp at hw'; subst hw'; cases hch
             | succ k => simp at hw'⟩
           rootWin := ⟨⟨_, hw, rfl, rfl, rfl, rfl, rfl⟩⟩
           nodup := by
             intro x w hw'
             rw [hwins] at hw'
             cases x with
             | zero => simp at hw'; subst hw'; exact List.nodup_nil
             | succ k => simp at hw'
           noSelf := by
             intro x w hw'
             rw [hwins] at hw'
             cases x with
             | zero => simp at hw'; subst hw'; exact fun hx => by cases hx
             | succ k => simp at hw'
           onlyRoot := by
             intro x w hw' _
             rw [hwins] at hw'
             cases x with
             | zero => rfl
             | succ k => simp at hw'
           dinv := by
             rw [hd]
             exact (RectSet.inv_iff _).2 ⟨by intro x hx; simp at hx; subst hx; exact ⟨hl, hc⟩, List.pairwise_singleton _ _⟩
           pos := ?_
           nonempty := by intro x hx; rw [hd] at hx; simp at hx; subst hx; exact ⟨hl, hc⟩
           noQueue := by simp [St.init, newRoot]
           flagged := by intro _; simp [St.init, newRoot, hl, hc]
           later := by intro _; simp [St.init, newRoot, hl, hc]
           inv := inv_of_full_damage content _ _ _ hw rfl rfl rfl rfl (by rw [hd]; simp) }
  intro i w hw' _
  have : (St.init lines cols pen).tree.wins = #[{ rect := ⟨0, 0, lines, cols⟩, isRoot := true }] := by simp [St.init, newRoot]
  rw [this] at hw'
  cases i with
  | zero => simp at hw'; subst hw'; exact ⟨hl, hc⟩
  | succ k => simp at hw'

/-- The tree of `Props.C02.exampleState`: overlapping siblings, a child sticking out of its parent, a hidden window. -/
def exampleTree : Tree := match Tickit.Props.C02.exampleState with | .ok st => st.tree | .ub _ => {}

def isOk {α : Type} : Res α → Bool
  | .ok _ => true
  | .ub _ => false

/-- The hypotheses of `flush_exact` hold of that tree (root in order, damage flagged, every owned cell damaged) and its
    rendering succeeds. -/
example : RootOk exampleTree ∧ Flagged exampleTree ∧ Inv solidContent exampleTree (fun _ _ => Cell.never) ∧
    isOk (flushRender solidBeh { (St.init 4 8 none) with tree := exampleTree } exampleTree) = true := by
  have hd : exampleTree.root.damage = [⟨0, 0, 4, 8⟩] := by decide +kernel
  cases hw : exampleTree.wins[0]? with
  | none =>
    have : (exampleTree.wins[0]?).isSome = true := by decide +kernel
    rw [hw] at this; cases this
  | some root =>
    have h1 : (exampleTree.wins[0]?).map (fun w => (w.freed, w.isVisible, w.rect)) = some (false, true, ⟨0, 0, 4, 8⟩) := by
      decide +kernel
    rw [hw] at h1
    simp only [Option.map_some, Option.some.injEq, Prod.mk.injEq] at h1
    obtain ⟨hf, hv, hrect⟩ := h1
    refine ⟨⟨⟨root, hw, hf, hv, by rw [hrect], by rw [hrect]⟩⟩, ?_, ?_, ?_⟩
    · intro _; decide +kernel
    · exact inv_of_full_damage _ _ _ root hw hf hv (by rw [hrect]) (by rw [hrect]) (by rw [hd, hrect]; simp)
    · decide +kernel

/-! ### statements kept at full strength, not yet proved (see engines.d/C01.json `open_statements`) -/

/-- The operations that change the window tree, with the exposes the property's proviso demands after a geometry
    change. -/
inductive TreeOp where
  | newWindow (parent : Id) (rect : Rect) (rootParent hidden lowest steal : Bool) (pen : Option Pen)
  | close (id : Id) | show (id : Id) | hide (id : Id)
  | restack (change : Change) (id : Id)
  | setGeometry (id : Id) (rect : Rect)
  | termResize (lines cols : Int)

def runTreeOp (st : St) : TreeOp → Res St
  | .newWindow p r a b c d pen => do let r ← newWin st p r a b c d pen; pure r.1
  | .close id => do let t ← WinTree.close st.tree st.fuel id; pure { st with tree := t }
  | .show id => do let t ← WinTree.show st.tree st.fuel id; pure { st with tree := t }
  | .hide id => do let t ← WinTree.hide st.tree st.fuel id; pure { st with tree := t }
  | .restack ch id => do let t ← requestHierarchyChange st.tree st.fuel ch id; pure { st with tree := t }
  | .setGeometry id rect => do
    let w ← WinTree.get st.tree id
    let (t, _) ← WinTree.setGeometry st.tree id rect
    match w.parent with
    | some p => do
      let t ← WinTree.expose t st.fuel p (some w.rect)
      let t ← WinTree.expose t st.fuel p (some rect)
      pure { st with tree := t }
    | none => pure { st with tree := t }
  | .termResize l c => WinFlush.termResize st l c

/-- `Inv` for a state with queued restacking requests: the composition is taken over the tree as the next flush will
    see it (requests applied). -/
def InvQ (content : Id → Int → Int → Cell) (st : St) : Prop :=
  ∀ t, flushQueue st = .ok t → Inv content t st.screen

/-- Full statement of stage 4 (open): every tree-changing operation keeps "damaged or already right". -/
def inv_step_full : Prop :=
  ∀ (content : Id → Int → Int → Cell) (st st' : St) (op : TreeOp),
    RootOk st.tree → RootsPositive st.tree → InvQ content st → runTreeOp st op = .ok st' → InvQ content st'

/-- Stage 5, first part (proved): the rebuilding of the pending damage by a scroll of `rect` by `(d, r)` is exact — damage
    outside the rectangle stays, damage inside moves with the terminal's content and is cut to the rectangle — and it
    keeps the invariant of the rectangle set (`Proof/WinScroll.lean`, on C05's `add`/`addMany` theorems). -/
theorem scroll_damage_shift_exact (rect : Rect) (d r : Int) (hrect : rect.Nonempty) (dmg acc' : List Rect)
    (h : shiftDamage rect d r dmg [] = .ok acc') (hinv : RectSet.Inv dmg) :
    RectSet.Inv acc' ∧ ∀ L C, Covered acc' L C ↔ ∃ rj ∈ dmg, ShiftedMem rect d r rj L C := by
  obtain ⟨h1, h2⟩ := shiftDamage_spec rect d r hrect dmg [] acc' h hinv.1 RectSet.invS_nil
  refine ⟨(RectSet.inv_iff _).2 h1, fun L C => ?_⟩
  rw [h2 L C]
  constructor
  · rintro (hc | hx)
    · exact absurd hc (RectSet.covered_nil L C)
    · exact hx
  · exact Or.inr

/-- Full statement of stage 5 (open): scrolling, under every scroll oracle, keeps "damaged or already right" when the
    application's content moves with the scroll (`content'` is `content` shifted inside the scrolled rectangle). -/
def scroll_step_full : Prop :=
  ∀ (oracle : Oracle) (content content' : Id → Int → Int → Cell) (st st' : St) (win : Id) (rect : Rect) (d r : Int)
    (pen : Option Pen) (maskChildren ret : Bool),
    RootOk st.tree → RootsPositive st.tree → InvQ content st →
    WinFlush.scroll oracle st win rect d r pen maskChildren = .ok (st', ret) →
    (∀ w l c, content' w l c =
      if w = win ∧ rect.memb l c = true ∧ 0 ≤ l ∧ 0 ≤ c then content w (l + d) (c + r) else content w l c) →
    InvQ content' st'

/-! ### facts regenerated from the C source on every run -/

/-- `HierarchyChangeType` has the seven kinds the model's `WinTree.Change` mirrors, in this order. -/
theorem gen_hierarchy_kinds :
    Gen.Win.hierarchyKinds = ["INSERT_FIRST", "INSERT_LAST", "REMOVE", "RAISE", "RAISE_FRONT", "LOWER", "LOWER_BACK"] := by
  decide

/-- `TickitRect outside[N]` in `_scrollrectset` holds everything `tickit_rect_subtract` can return. -/
theorem scroll_outside_fits (a b : Rect) (ha : a.Nonempty) (hb : b.Nonempty) :
    (Rect.subtract a b).length ≤ Gen.Win.outsideCap :=
  Nat.le_trans (Props.C06.subtract_spec a b ha hb).1 (by decide)

end Tickit.Props.C01
