import Tickit.Proof.WinExpose
import Tickit.Proof.WinFlush
import Tickit.Gen.Win
import Tickit.Proof.WinDamage
import Tickit.Proof.WinSteps
import Tickit.Proof.WinGeom
import Tickit.Proof.WinClose
import Tickit.Proof.WinScroll
import Tickit.Proof.WinFull
import Tickit.Proof.WinScrollStep
import Tickit.Proof.WinScrollCh
import Tickit.Proof.WinNodup
import Tickit.Proof.WinPen
import Tickit.Proof.WinMockResize
import Tickit.Props.C02
/-
  C01 — The flushed screen equals the painter's-model composition of the window tree.

  `WinSpec.ownerAt tree L C = some (w, l, c)`: terminal cell `(L, C)` belongs, in the painter's model (children over their
  parent, earlier siblings over later ones, hidden subtrees ignored, everything clipped to every ancestor), to window
  `w`, where it is the cell `(l, c)` of `w`'s own coordinates.  `content w l c` is what `w` paints there; the proviso
  `WinSpec.Repaints content beh` says every handler repaints the rectangle it is asked to.
  `Exact content st`: every owned terminal cell shows its owner's content.

  Proved: the damage accumulated by `expose` is exactly the exposed area clipped to every ancestor (`expose_sound`); a
  flush turns "damaged or already right" (`Inv`) into `Exact` (`flush_exact`), for every tree; `Inv` is kept by `expose`
  (`inv_step_expose`); hence `C01_partial`: after every flush of every history of exposes and flushes, on every tree,
  the screen is the composition.  The steps for the operations that change the tree (`inv_step_full`, with requests queued;
  `inv_step_queue`: the flush applies them), for scrolling with the children masked (`scroll_step_full`) and for
  `tickit_window_scroll_with_children` followed by the application's move of the children (`scrollch_step_full`), under
  every scroll oracle, are theorems; `C01_full` quantifies over all histories of them (`Reach`).
-/
namespace Tickit.Props.C01
open Tickit WinTree WinRB WinFlush WinSpec

/-! ### stage 1: `expose` -/

/-- **`expose_sound`**: the damage `tickit_window_expose(id, e)` adds is exactly the exposed area clipped to the window and
    to every ancestor, translated to root coordinates, when every window on the way is visible (and nothing
    otherwise); nothing else about the tree changes. -/
theorem expose_sound (fuel : Nat) (t : Tree) (id : Id) (e : Option Rect) (t' : Tree)
    (h : expose t fuel id e = .ok t') (hne : ∀ x ∈ t.root.damage, x.Nonempty) (hpos : RootsPositive t) :
    t'.wins = t.wins ∧ (∀ x ∈ t'.root.damage, x.Nonempty) ∧
    ∀ L C, Covered t'.root.damage L C ↔ (Covered t.root.damage L C ∨ ExposedRegion t fuel id e L C) :=
  let ⟨h1, h2, _, _, h4⟩ := expose_spec fuel t id e t' h hne hpos
  ⟨h1, h2, h4⟩

/-! ### stage 3: the flush -/

/-- Every owned terminal cell shows what its owner paints there. -/
def Exact (content : Id → Int → Int → Cell) (tree : Tree) (screen : Int → Int → Cell) : Prop :=
  ∀ L C w l c, ownerAt tree L C = some (w, l, c) → screen L C = content w l c

/-- Every owned terminal cell is pending repaint or already right. -/
def Inv (content : Id → Int → Int → Cell) (tree : Tree) (screen : Int → Int → Cell) : Prop :=
  InvC content tree screen

/-- Pending damage is flagged (what `tickit_window_expose` does when it records damage). -/
def Flagged (t : Tree) : Prop := t.root.damage ≠ [] → t.root.needsExpose = true

/-- **`flush_exact`** (rendering half): whatever the tree, if every owned cell is damaged or already right and the
    handlers repaint what they are asked to, then after the rendering no damage is left and every owned cell is right. -/
theorem flush_exact (beh : Id → Rect → List DrawOp) (content : Id → Int → Int → Cell)
    (st st' : St) (t : Tree) (shots : List Shot)
    (h : flushRender beh st t = .ok (st', shots)) (hroot : RootOk t) (hflag : Flagged t)
    (hrep : Repaints content beh) (hinv : Inv content t st.screen) :
    st'.tree.root.damage = [] ∧ st'.tree.wins = t.wins ∧ Exact content st'.tree st'.screen := by
  have hcases := flushRender_cases beh st st' t shots h
  cases hne : t.root.needsExpose with
  | false =>
    rcases hcases with ⟨_, hs, htr, _⟩ | ⟨_, _, _, _, hx, _⟩
    · have hdmg : t.root.damage = [] := by
        cases hdd : t.root.damage with
        | nil => rfl
        | cons a b =>
          have := hflag (by rw [hdd]; simp)
          rw [hne] at this; cases this
      have hw : st'.tree.wins = t.wins := by rw [htr]
      refine ⟨by rw [htr]; exact hdmg, hw, ?_⟩
      intro L C w l c ho
      rw [ownerAt_congr st'.tree t hw] at ho
      rcases hinv L C w l c ho with hc | hc
      · rw [hdmg] at hc; exact absurd hc (RectSet.covered_nil L C)
      · rw [hs]; exact hc
    · rw [hne] at hx; cases hx
  | true =>
    rcases hcases with ⟨_, _, _, hx⟩ | ⟨root, s', _, _, _, _, _, ht, _⟩
    · rw [hne] at hx; cases hx
    · refine ⟨by rw [ht]; rfl, by rw [ht]; rfl, ?_⟩
      intro L C w l c ho
      by_cases hc : Covered t.root.damage L C
      · exact flushRender_content beh content st st' t shots h hroot hne hrep L C hc w l c ho
      · have hsame : st'.screen L C = st.screen L C := by
          apply Classical.byContradiction
          intro hdiff
          exact hc (flushRender_frame beh st st' t shots h L C hdiff)
        rw [hsame]
        have hw : st'.tree.wins = t.wins := by rw [ht]; rfl
        rw [ownerAt_congr st'.tree t hw] at ho
        rcases hinv L C w l c ho with hc' | hc'
        · exact absurd hc' hc
        · exact hc'

/-- Cells the rendering does not own or that were not damaged keep what they showed: no misplaced cell. -/
theorem flush_keeps_undamaged (beh : Id → Rect → List DrawOp) (st st' : St) (t : Tree) (shots : List Shot)
    (h : flushRender beh st t = .ok (st', shots)) :
    ∀ L C, ¬ Covered t.root.damage L C → st'.screen L C = st.screen L C := by
  intro L C hc
  apply Classical.byContradiction
  intro hdiff
  exact hc (flushRender_frame beh st st' t shots h L C hdiff)

/-! ### stage 4 (part): histories of exposes and flushes on an arbitrary fixed tree -/

/-- The state is in order: the root window is at the origin, visible and not a child; nothing is queued; recorded
    damage is flagged for the next flush. -/
structure Good (content : Id → Int → Int → Cell) (st : St) : Prop where
  root : RootOk st.tree
  rootTop : ∀ w, st.tree.wins[0]? = some w → w.parent = none
  pos : RootsPositive st.tree
  nonempty : ∀ x ∈ st.tree.root.damage, x.Nonempty
  noQueue : st.tree.root.changes = []
  flagged : Flagged st.tree
  later : st.tree.root.damage ≠ [] → st.tree.root.needsLater = true
  inv : Inv content st.tree st.screen
  /-- parent pointers agree with the child lists -/
  wf : WFp st.tree
  rootWin : RootWin st.tree
  /-- the damage set satisfies the invariant of C05 (in particular its rectangles are pairwise disjoint) -/
  dinv : RectSet.Inv st.tree.root.damage
  onlyRoot : OnlyRoot st.tree
  nodup : ChildrenNodup st.tree
  noSelf : NoSelfParent st.tree

inductive Op where
  | expose (id : Id) (e : Option Rect)
  | geom (id : Id) (rect : Rect)
  | close (id : Id)
  | hide (id : Id)
  | show (id : Id)
  | flush
deriving Repr

/-- Hiding or showing the root window itself is outside this theorem (the composition is then empty); the root's
    geometry follows the terminal. -/
def Op.Ok : Op → Prop
  | .geom id _ => id ≠ 0
  | .close id => id ≠ 0
  | .hide id => id ≠ 0
  | .show id => id ≠ 0
  | _ => True

def runOp (beh : Id → Rect → List DrawOp) (st : St) : Op → Res St
  | .expose id e => do
    let t ← WinTree.expose st.tree st.fuel id e
    pure { st with tree := t }
  | .geom id rect => do
    -- `tickit_window_set_geometry`, then the exposes the proviso demands: old and new area, in the parent
    let t ← setGeometryExposed st.tree st.fuel id rect
    pure { st with tree := t }
  | .close id => do
    let t ← WinTree.close st.tree st.fuel id
    pure { st with tree := t }
  | .hide id => do
    let t ← WinTree.hide st.tree st.fuel id
    pure { st with tree := t }
  | .show id => do
    let t ← WinTree.show st.tree st.fuel id
    pure { st with tree := t }
  | .flush => do
    let r ← WinFlush.flush beh st
    pure r.1

def run (beh : Id → Rect → List DrawOp) : St → List Op → Res St
  | st, [] => .ok st
  | st, op :: ops => do
    let st ← runOp beh st op
    run beh st ops

/-- **`inv_step` for `expose`**: exposing any rectangle of any window keeps the state in order. -/
theorem inv_step_expose (content : Id → Int → Int → Cell) (st : St) (id : Id) (e : Option Rect) (t' : Tree)
    (h : WinTree.expose st.tree st.fuel id e = .ok t') (hg : Good content st) :
    Good content { st with tree := t' } := by
  obtain ⟨hw, hne, hdi, hfl, hcov⟩ := expose_spec st.fuel st.tree id e t' h hg.nonempty hg.pos
  refine { wf := wfp_congr hw hg.wf
           rootWin := rootWin_congr hw hg.rootWin
           onlyRoot := onlyRoot_congr hw hg.onlyRoot
           nodup := (struct_congr_wins hw hg.nodup hg.noSelf).1
           noSelf := (struct_congr_wins hw hg.nodup hg.noSelf).2
           dinv := hdi hg.dinv
           root := rootOk_congr hw hg.root
           rootTop := by intro w hw'; rw [hw] at hw'; exact hg.rootTop w hw'
           pos := by intro i w hw'; rw [hw] at hw'; exact hg.pos i w hw'
           nonempty := hne
           noQueue := ?_
           flagged := ?_
           later := ?_
           inv := ?_ }
  · rcases hfl with rfl | ⟨_, _, hq⟩
    · exact hg.noQueue
    · show t'.root.changes = []
      rw [hq]; exact hg.noQueue
  · rcases hfl with rfl | ⟨h1, _, _⟩
    · exact hg.flagged
    · intro _; exact h1
  · rcases hfl with rfl | ⟨_, h2, _⟩
    · exact hg.later
    · intro _; exact h2
  · intro L C w l c ho
    have ho' : ownerAt st.tree L C = some (w, l, c) := by
      rw [← ownerAt_congr t' st.tree hw]; exact ho
    rcases hg.inv L C w l c ho' with hc | hc
    · exact Or.inl ((hcov L C).2 (Or.inl hc))
    · exact Or.inr hc

/-- **`inv_step` for `flush`** (nothing queued): afterwards the state is in order *and* exact. -/
theorem inv_step_flush (beh : Id → Rect → List DrawOp) (content : Id → Int → Int → Cell) (st st' : St) (shots : List Shot)
    (h : WinFlush.flush beh st = .ok (st', shots)) (hrep : Repaints content beh) (hg : Good content st) :
    Good content st' ∧ Exact content st'.tree st'.screen := by
  obtain ⟨root, hr, hf, hv, htop, hleft⟩ := hg.root.ex
  unfold WinFlush.flush at h
  have hget : WinTree.get st.tree 0 = .ok root := by
    unfold WinTree.get; rw [hr]; simp [hf]
  rw [hget] at h
  simp only [bind, Bind.bind, hg.rootTop root hr, Option.isSome_none] at h
  cases hnl : st.tree.root.needsLater with
  | false =>
    simp only [hnl, pure, Pure.pure] at h
    simp at h
    obtain ⟨h1, h2⟩ := h
    subst h1 h2
    have hdmg : st.tree.root.damage = [] := by
      cases hdd : st.tree.root.damage with
      | nil => rfl
      | cons a b =>
        have := hg.later (by rw [hdd]; simp)
        rw [hnl] at this; cases this
    refine ⟨hg, ?_⟩
    intro L C w l c ho
    rcases hg.inv L C w l c ho with hc | hc
    · rw [hdmg] at hc; exact absurd hc (RectSet.covered_nil L C)
    · exact hc
  | true =>
    simp only [hnl] at h
    have hq : flushQueue st = .ok { st.tree with root := { st.tree.root with needsLater := false, changes := [] } } := by
      unfold flushQueue
      simp only [hg.noQueue, applyChanges]
    rw [hq] at h
    simp only at h
    generalize ht : ({ st.tree with root := { st.tree.root with needsLater := false, changes := [] } } : Tree) = t at h
    have htw : t.wins = st.tree.wins := by rw [← ht]
    have htd : t.root.damage = st.tree.root.damage := by rw [← ht]
    have htq : t.root.changes = [] := by rw [← ht]
    have hrootT : RootOk t := rootOk_congr htw hg.root
    have hflagT : Flagged t := by
      intro hd
      rw [htd] at hd
      have := hg.flagged hd
      rw [← ht]
      exact this
    have hinvT : Inv content t st.screen := by
      intro L C w l c ho
      rw [ownerAt_congr t st.tree htw] at ho
      rw [htd]
      exact hg.inv L C w l c ho
    obtain ⟨hd', hw', hex⟩ := flush_exact beh content st st' t shots h hrootT hflagT hrep hinvT
    obtain ⟨_, hq', _⟩ := flushRender_tree beh st st' t shots h
    have hww : st'.tree.wins = st.tree.wins := by rw [hw', htw]
    refine ⟨{ wf := wfp_congr hww hg.wf
              rootWin := rootWin_congr hww hg.rootWin
              onlyRoot := onlyRoot_congr hww hg.onlyRoot
              nodup := (struct_congr_wins hww hg.nodup hg.noSelf).1
              noSelf := (struct_congr_wins hww hg.nodup hg.noSelf).2
              dinv := by rw [hd']; exact (RectSet.inv_iff _).2 RectSet.invS_nil
              root := rootOk_congr hww hg.root
              rootTop := by intro w hw''; rw [hww] at hw''; exact hg.rootTop w hw''
              pos := by intro i w hw''; rw [hww] at hw''; exact hg.pos i w hw''
              nonempty := by intro x hx; rw [hd'] at hx; cases hx
              noQueue := by rw [hq', htq]
              flagged := by intro hx; exact absurd hd' hx
              later := by intro hx; exact absurd hd' hx
              inv := fun L C w l c ho => Or.inr (hex L C w l c ho) }, hex⟩

/-- **`inv_step` for `hide` and `show`** (of any window but the root): the damage they record covers every cell whose
    owner they change (`Proof/WinSteps.lean`: `hide_step`, `show_step`, through the locality of the painter's model). -/
theorem inv_step_vis (content : Id → Int → Int → Cell) (st : St) (id : Id) (t' : Tree) (hid : id ≠ 0)
    (h : WinTree.hide st.tree st.fuel id = .ok t' ∨ WinTree.show st.tree st.fuel id = .ok t') (hg : Good content st) :
    Good content { st with tree := t' } := by
  have key : InvC content t' st.screen ∧ WFp t' ∧ RootWin t' ∧ (∀ x ∈ t'.root.damage, x.Nonempty) ∧
      (RectSet.Inv st.tree.root.damage → RectSet.Inv t'.root.damage) ∧ RootsPositive t' ∧
      t'.wins.size = st.tree.wins.size ∧
      (t'.root = st.tree.root ∨ (t'.root.needsExpose = true ∧ t'.root.needsLater = true ∧ t'.root.changes = st.tree.root.changes)) ∧
      (∃ t1, SameBut st.tree t1 id ∧ t'.wins = t1.wins) := by
    rcases h with h | h
    · exact hide_step content st.screen st.tree t' id h hid hg.wf hg.rootWin hg.nonempty hg.pos hg.inv
    · exact show_step content st.screen st.tree t' id h hg.wf hg.rootWin hg.nonempty hg.pos hg.inv
  obtain ⟨hinv, hwf, hrw, hne, hdi, hpos, _, hfl, t1, hsb, hwins⟩ := key
  obtain ⟨rw0, hrw0, _, _, hrp, _, _⟩ := hrw.ex
  refine { root := rootOk_congr hwins (rootOk_sameBut hsb hid hg.root)
           rootTop := by intro w hw'; rw [hrw0] at hw'; cases hw'; exact hrp
           pos := hpos
           nonempty := hne
           noQueue := ?_
           flagged := ?_
           later := ?_
           inv := hinv
           wf := hwf
           rootWin := hrw
           onlyRoot := onlyRoot_congr hwins (onlyRoot_sameBut hsb hg.onlyRoot)
           nodup := (struct_congr_wins hwins (struct_sameBut hsb hg.nodup hg.noSelf).1 (struct_sameBut hsb hg.nodup hg.noSelf).2).1
           noSelf := (struct_congr_wins hwins (struct_sameBut hsb hg.nodup hg.noSelf).1 (struct_sameBut hsb hg.nodup hg.noSelf).2).2
           dinv := hdi hg.dinv }
  · rcases hfl with hr | ⟨_, _, hq⟩
    · show t'.root.changes = []
      rw [hr]; exact hg.noQueue
    · show t'.root.changes = []
      rw [hq]; exact hg.noQueue
  · rcases hfl with hr | ⟨h1, _, _⟩
    · intro hd
      show t'.root.needsExpose = true
      rw [hr]
      exact hg.flagged (by show st.tree.root.damage ≠ []; rw [← hr]; exact hd)
    · intro _; exact h1
  · rcases hfl with hr | ⟨_, h2, _⟩
    · intro hd
      show t'.root.needsLater = true
      rw [hr]
      exact hg.later (by show st.tree.root.damage ≠ []; rw [← hr]; exact hd)
    · intro _; exact h2

/-- **`inv_step` for a geometry change** of any window but the root, followed — as the property's proviso demands — by
    the exposes of the old and the new area: every cell whose owner changes lies under the old or the new rectangle
    (`Proof/WinGeom.lean`). -/
theorem inv_step_geom (content : Id → Int → Int → Cell) (st : St) (id : Id) (rect : Rect) (t' : Tree) (hid : id ≠ 0)
    (h : setGeometryExposed st.tree st.fuel id rect = .ok t') (hg : Good content st) :
    Good content { st with tree := t' } := by
  obtain ⟨hinv, hwf, hrw, hor, hne, hdi, hpos, hfl, t1, hsb, hwins⟩ :=
    geom_step content st.screen st.tree t' id rect h hid hg.wf hg.rootWin hg.onlyRoot hg.nonempty hg.pos hg.inv
  obtain ⟨rw0, hrw0, _, _, hrp, _, _⟩ := hrw.ex
  refine { root := rootOk_congr hwins (rootOk_sameButG hsb hid hg.root)
           rootTop := by intro w hw'; rw [hrw0] at hw'; cases hw'; exact hrp
           pos := hpos
           nonempty := hne
           noQueue := ?_
           flagged := ?_
           later := ?_
           inv := hinv
           wf := hwf
           rootWin := hrw
           onlyRoot := hor
           nodup := (struct_congr_wins hwins (struct_sameButG hsb hg.nodup hg.noSelf).1 (struct_sameButG hsb hg.nodup hg.noSelf).2).1
           noSelf := (struct_congr_wins hwins (struct_sameButG hsb hg.nodup hg.noSelf).1 (struct_sameButG hsb hg.nodup hg.noSelf).2).2
           dinv := hdi hg.dinv }
  · rcases hfl with hr | ⟨_, _, hq⟩
    · show t'.root.changes = []
      rw [hr]; exact hg.noQueue
    · show t'.root.changes = []
      rw [hq]; exact hg.noQueue
  · rcases hfl with hr | ⟨h1, _, _⟩
    · intro hd
      show t'.root.needsExpose = true
      rw [hr]
      exact hg.flagged (by show st.tree.root.damage ≠ []; rw [← hr]; exact hd)
    · intro _; exact h1
  · rcases hfl with hr | ⟨_, h2, _⟩
    · intro hd
      show t'.root.needsLater = true
      rw [hr]
      exact hg.later (by show st.tree.root.damage ≠ []; rw [← hr]; exact hd)
    · intro _; exact h2

/-- **`inv_step` for `tickit_window_close`** of any window but the root (nothing queued): the rectangle it exposes in
    the parent covers every cell whose owner changes (`Proof/WinClose.lean`, through the locality lemma for a changed
    child list). -/
theorem inv_step_close (content : Id → Int → Int → Cell) (st : St) (id : Id) (t' : Tree) (hid : id ≠ 0)
    (h : WinTree.close st.tree st.fuel id = .ok t') (hg : Good content st) :
    Good content { st with tree := t' } := by
  obtain ⟨hinv, hok, hro, hne, hdi, hpos, hq, hf⟩ :=
    close_step content st.screen st.tree t' id h hid ⟨hg.wf, hg.nodup, hg.noSelf, hg.onlyRoot, hg.rootWin⟩ hg.root
      hg.nonempty hg.pos hg.inv
  obtain ⟨rw0, hrw0, _, _, hrp, _, _⟩ := hok.rootWin.ex
  have hfl := hf (fun hd => ⟨hg.flagged hd, hg.later hd⟩)
  exact { root := hro
          rootTop := by intro w hw'; rw [hrw0] at hw'; cases hw'; exact hrp
          pos := hpos
          nonempty := hne
          noQueue := hq hg.noQueue
          flagged := fun hd => (hfl hd).1
          later := fun hd => (hfl hd).2
          inv := hinv
          wf := hok.wf
          rootWin := hok.rootWin
          onlyRoot := hok.onlyRoot
          nodup := hok.nodup
          noSelf := hok.noSelf
          dinv := hdi hg.dinv }

theorem good_step (beh : Id → Rect → List DrawOp) (content : Id → Int → Int → Cell) (hrep : Repaints content beh)
    (st st' : St) (op : Op) (hop : op.Ok) (h : runOp beh st op = .ok st') (hg : Good content st) : Good content st' := by
  cases op with
  | close id =>
    simp only [runOp, bind, Bind.bind] at h
    cases he : WinTree.close st.tree st.fuel id with
    | ub w => rw [he] at h; cases h
    | ok t' =>
      rw [he] at h
      simp only [pure, Pure.pure] at h
      cases h
      exact inv_step_close content st id t' hop he hg
  | geom id rect =>
    simp only [runOp, bind, Bind.bind] at h
    cases he : setGeometryExposed st.tree st.fuel id rect with
    | ub w => rw [he] at h; cases h
    | ok t' =>
      rw [he] at h
      simp only [pure, Pure.pure] at h
      cases h
      exact inv_step_geom content st id rect t' hop he hg
  | hide id =>
    simp only [runOp, bind, Bind.bind] at h
    cases he : WinTree.hide st.tree st.fuel id with
    | ub w => rw [he] at h; cases h
    | ok t' =>
      rw [he] at h
      simp only [pure, Pure.pure] at h
      cases h
      exact inv_step_vis content st id t' hop (Or.inl he) hg
  | «show» id =>
    simp only [runOp, bind, Bind.bind] at h
    cases he : WinTree.show st.tree st.fuel id with
    | ub w => rw [he] at h; cases h
    | ok t' =>
      rw [he] at h
      simp only [pure, Pure.pure] at h
      cases h
      exact inv_step_vis content st id t' hop (Or.inr he) hg
  | expose id e =>
    simp only [runOp, bind, Bind.bind] at h
    cases he : WinTree.expose st.tree st.fuel id e with
    | ub w => rw [he] at h; cases h
    | ok t' =>
      rw [he] at h
      simp only [pure, Pure.pure] at h
      cases h
      exact inv_step_expose content st id e t' he hg
  | flush =>
    simp only [runOp, bind, Bind.bind] at h
    cases hf : WinFlush.flush beh st with
    | ub w => rw [hf] at h; cases h
    | ok r =>
      rw [hf] at h
      simp only [pure, Pure.pure] at h
      cases h
      exact (inv_step_flush beh content st r.1 r.2 hf hrep hg).1

theorem good_run (beh : Id → Rect → List DrawOp) (content : Id → Int → Int → Cell) (hrep : Repaints content beh) :
    ∀ (ops : List Op) (st st' : St), (∀ op ∈ ops, op.Ok) → run beh st ops = .ok st' → Good content st → Good content st' := by
  intro ops
  induction ops with
  | nil => intro st st' _ h hg; simp only [run] at h; cases h; exact hg
  | cons op ops ih =>
    intro st st' hok h hg
    simp only [run, bind, Bind.bind] at h
    cases h1 : runOp beh st op with
    | ub w => rw [h1] at h; cases h
    | ok st1 =>
      rw [h1] at h
      exact ih st1 st' (fun o ho => hok o (List.mem_cons_of_mem _ ho)) h
        (good_step beh content hrep st st1 op (hok op List.mem_cons_self) h1 hg)

/-- **`C01_partial`**: on every tree (any shape, geometry, z-order, visibility), for every history of exposes of any
    rectangles of any windows, moves and resizes (each followed by the
    exposes of the old and new area), closes, hides and shows of any windows but the root, interleaved with flushes, and for all handlers that repaint what they are asked to: after
    every flush every owned terminal cell shows what its owner paints there. -/
theorem C01_partial (beh : Id → Rect → List DrawOp) (content : Id → Int → Int → Cell) (hrep : Repaints content beh)
    (st0 : St) (hg : Good content st0) (ops : List Op) (hok : ∀ op ∈ ops, op.Ok) (st1 st2 : St) (shots : List Shot)
    (h1 : run beh st0 ops = .ok st1) (h2 : WinFlush.flush beh st1 = .ok (st2, shots)) :
    Exact content st2.tree st2.screen :=
  (inv_step_flush beh content st1 st2 shots h2 hrep (good_run beh content hrep ops st0 st1 hok h1 hg)).2

/-- Along every such history the damage set keeps C05's invariant, so the rectangles handed to one window during any
    flush are pairwise disjoint (C02's last clause without the disjointness hypothesis), in a tree without repeated
    windows. -/
theorem handed_rects_disjoint_along_history (beh : Id → Rect → List DrawOp) (content : Id → Int → Int → Cell)
    (hrep : Repaints content beh) (st0 : St) (hg : Good content st0) (ops : List Op) (hok : ∀ op ∈ ops, op.Ok)
    (st1 st2 : St) (shots : List Shot)
    (h1 : run beh st0 ops = .ok st1) (h2 : WinFlush.flush beh st1 = .ok (st2, shots))
    (hnd : (visitIds st2.tree (st2.tree.wins.size + 1) 0).Nodup) :
    ∀ w, ((shots.map Shot.ev).filter (fun e => e.1 = w)).Pairwise (fun a b => Rect.Disjoint a.2 b.2) := by
  have hg1 := good_run beh content hrep ops st0 st1 hok h1 hg
  obtain ⟨root, hr, hf, _, _, _⟩ := hg1.root.ex
  unfold WinFlush.flush at h2
  have hget : WinTree.get st1.tree 0 = .ok root := by
    unfold WinTree.get; rw [hr]; simp [hf]
  rw [hget] at h2
  simp only [bind, Bind.bind, hg1.rootTop root hr, Option.isSome_none] at h2
  cases hnl : st1.tree.root.needsLater with
  | false =>
    simp only [hnl, pure, Pure.pure] at h2
    simp at h2
    obtain ⟨_, hs⟩ := h2
    subst hs
    intro w; exact List.Pairwise.nil
  | true =>
    simp only [hnl] at h2
    have hq : flushQueue st1 = .ok { st1.tree with root := { st1.tree.root with needsLater := false, changes := [] } } := by
      unfold flushQueue
      simp only [hg1.noQueue, applyChanges]
    rw [hq] at h2
    simp only at h2
    exact Props.C02.handed_rects_disjoint_of_inv beh st1 st2 _ shots h2 hg1.dinv hnd

/-! ### non-vacuity -/

/-- A handler that repaints what it is asked to: a full pen of its own, then an erase of the handed rectangle. -/
def solidBeh : Id → Rect → List DrawOp :=
  fun w rect => [.setPen { fg := some (w + 1), bg := some 0, b := some false, rv := some false }, .eraseRect rect]

def solidContent : Id → Int → Int → Cell := fun w _ _ => ⟨32, w + 1, 0, false, false⟩

theorem solid_repaints : Repaints solidContent solidBeh := by
  intro w rect rb L C hw hm
  show ((rb.setpen (some { fg := some ((w : Int) + 1), bg := some 0, b := some false, rv := some false })).eraseRect rect).cells L C = _
  have hw' : (rb.setpen (some { fg := some ((w : Int) + 1), bg := some 0, b := some false, rv := some false })).writable L C = true := by
    rw [writable_setpen]; exact hw
  have hm' : (rect.translate (rb.setpen (some { fg := some ((w : Int) + 1), bg := some 0, b := some false, rv := some false })).xl
      (rb.setpen (some { fg := some ((w : Int) + 1), bg := some 0, b := some false, rv := some false })).xc).memb L C = true := by
    rw [memb_translate]; exact hm
  simp only [RB.eraseRect, RB.putRect]
  rw [if_pos ⟨hm', hw'⟩]
  simp only [RB.setpen, Pen.copy, solidContent, Cell.blank, Cell.ofPen]
  cases rb.stack <;> simp [Pen.copy]

/-- With the whole root window damaged, every owned cell is pending repaint. -/
theorem inv_of_full_damage (content : Id → Int → Int → Cell) (t : Tree) (screen : Int → Int → Cell) (root : Win)
    (hr : t.wins[0]? = some root) (hf : root.freed = false) (hv : root.isVisible = true)
    (htop : root.rect.top = 0) (hleft : root.rect.left = 0)
    (hfull : (⟨0, 0, root.rect.lines, root.rect.cols⟩ : Rect) ∈ t.root.damage) : Inv content t screen := by
  intro L C w l c ho
  rw [ownerAt_eq t root hr hf hv htop hleft L C] at ho
  left
  cases hm : (⟨0, 0, root.rect.lines, root.rect.cols⟩ : Rect).memb L C with
  | false => rw [hm] at ho; simp at ho
  | true => exact ⟨_, hfull, (memb_true_iff _ _ _).1 hm⟩

/-- **Full redraw**: whatever the tree (any shape, geometry, z-order, visibility) and whatever the terminal showed, once
    the whole root window is damaged a flush leaves the painter's-model composition in every owned cell. -/
theorem flush_after_full_expose (beh : Id → Rect → List DrawOp) (content : Id → Int → Int → Cell)
    (st st' : St) (t : Tree) (shots : List Shot) (root : Win)
    (h : flushRender beh st t = .ok (st', shots)) (hroot : RootOk t) (hflag : Flagged t) (hrep : Repaints content beh)
    (hr : t.wins[0]? = some root) (hfull : (⟨0, 0, root.rect.lines, root.rect.cols⟩ : Rect) ∈ t.root.damage) :
    Exact content st'.tree st'.screen := by
  obtain ⟨root0, hr0, hf0, hv0, htop0, hleft0⟩ := hroot.ex
  have : root0 = root := by rw [hr] at hr0; exact (Option.some.inj hr0).symm
  subst this
  exact (flush_exact beh content st st' t shots h hroot hflag hrep
    (inv_of_full_damage content t st.screen root0 hr hf0 hv0 htop0 hleft0 hfull)).2.2

/-- A freshly created terminal of positive size is in order (the hypothesis of `C01_partial` is inhabited). -/
theorem good_init (content : Id → Int → Int → Cell) (lines cols : Int) (pen : Option Pen) (hl : 0 < lines) (hc : 0 < cols) :
    Good content (St.init lines cols pen) := by
  have hd : (St.init lines cols pen).tree.root.damage = [⟨0, 0, lines, cols⟩] := by
    simp [St.init, newRoot, hl, hc]
  have hw : (St.init lines cols pen).tree.wins[0]? = some { rect := ⟨0, 0, lines, cols⟩, isRoot := true } := by
    simp [St.init, newRoot]
  have hwins : (St.init lines cols pen).tree.wins = #[{ rect := ⟨0, 0, lines, cols⟩, isRoot := true }] := by simp [St.init, newRoot]
  refine { root := ⟨⟨_, hw, rfl, rfl, rfl, rfl⟩⟩
           rootTop := by intro w hw'; rw [hw] at hw'; cases hw'; rfl
           wf := ⟨by
             intro cur w hw' ch hch
             rw [hwins] at hw'
             cases cur with
             | zero => simp at hw'; subst hw'; cases hch
             | succ k => simp at hw'⟩
           rootWin := ⟨⟨_, hw, rfl, rfl, rfl, rfl, rfl⟩⟩
           nodup := by
             intro x w hw'
             rw [hwins] at hw'
             cases x with
             | zero => simp at hw'; subst hw'; exact List.nodup_nil
             | succ k => simp at hw'
           noSelf := by
             intro x w hw'
             rw [hwins] at hw'
             cases x with
             | zero => simp at hw'; subst hw'; exact fun hx => by cases hx
             | succ k => simp at hw'
           onlyRoot := by
             intro x w hw' _
             rw [hwins] at hw'
             cases x with
             | zero => rfl
             | succ k => simp at hw'
           dinv := by
             rw [hd]
             exact (RectSet.inv_iff _).2 ⟨by intro x hx; simp at hx; subst hx; exact ⟨hl, hc⟩, List.pairwise_singleton _ _⟩
           pos := ?_
           nonempty := by intro x hx; rw [hd] at hx; simp at hx; subst hx; exact ⟨hl, hc⟩
           noQueue := by simp [St.init, newRoot]
           flagged := by intro _; simp [St.init, newRoot, hl, hc]
           later := by intro _; simp [St.init, newRoot, hl, hc]
           inv := inv_of_full_damage content _ _ _ hw rfl rfl rfl rfl (by rw [hd]; simp) }
  intro i w hw' _
  have : (St.init lines cols pen).tree.wins = #[{ rect := ⟨0, 0, lines, cols⟩, isRoot := true }] := by simp [St.init, newRoot]
  rw [this] at hw'
  cases i with
  | zero => simp at hw'; subst hw'; exact ⟨hl, hc⟩
  | succ k => simp at hw'

/-- The tree of `Props.C02.exampleState`: overlapping siblings, a child sticking out of its parent, a hidden window. -/
def exampleTree : Tree := match Tickit.Props.C02.exampleState with | .ok st => st.tree | .ub _ => {}

def isOk {α : Type} : Res α → Bool
  | .ok _ => true
  | .ub _ => false

/-- The hypotheses of `flush_exact` hold of that tree (root in order, damage flagged, every owned cell damaged) and its
    rendering succeeds. -/
example : RootOk exampleTree ∧ Flagged exampleTree ∧ Inv solidContent exampleTree (fun _ _ => Cell.never) ∧
    isOk (flushRender solidBeh { (St.init 4 8 none) with tree := exampleTree } exampleTree) = true := by
  have hd : exampleTree.root.damage = [⟨0, 0, 4, 8⟩] := by decide +kernel
  cases hw : exampleTree.wins[0]? with
  | none =>
    have : (exampleTree.wins[0]?).isSome = true := by decide +kernel
    rw [hw] at this; cases this
  | some root =>
    have h1 : (exampleTree.wins[0]?).map (fun w => (w.freed, w.isVisible, w.rect)) = some (false, true, ⟨0, 0, 4, 8⟩) := by
      decide +kernel
    rw [hw] at h1
    simp only [Option.map_some, Option.some.injEq, Prod.mk.injEq] at h1
    obtain ⟨hf, hv, hrect⟩ := h1
    refine ⟨⟨⟨root, hw, hf, hv, by rw [hrect], by rw [hrect]⟩⟩, ?_, ?_, ?_⟩
    · intro _; decide +kernel
    · exact inv_of_full_damage _ _ _ root hw hf hv (by rw [hrect]) (by rw [hrect]) (by rw [hd, hrect]; simp)
    · decide +kernel

/-! ### stage 4: every tree-changing operation, with restacking requests queued -/

/-- The operations that change the window tree, with the exposes the property's proviso demands after a geometry
    change. -/
inductive TreeOp where
  | newWindow (parent : Id) (rect : Rect) (rootParent hidden lowest steal : Bool) (pen : Option Pen)
  | close (id : Id) | show (id : Id) | hide (id : Id)
  | restack (change : Change) (id : Id)
  | setGeometry (id : Id) (rect : Rect)
  | termResize (lines cols : Int)

def runTreeOp (st : St) : TreeOp → Res St
  | .newWindow p r a b c d pen => do let r ← newWin st p r a b c d pen; pure r.1
  | .close id => do let t ← WinTree.close st.tree st.fuel id; pure { st with tree := t }
  | .show id => do let t ← WinTree.show st.tree st.fuel id; pure { st with tree := t }
  | .hide id => do let t ← WinTree.hide st.tree st.fuel id; pure { st with tree := t }
  | .restack ch id => do let t ← requestHierarchyChange st.tree st.fuel ch id; pure { st with tree := t }
  | .setGeometry id rect => do
    -- `tickit_window_set_geometry`, then the exposes of the old and the new area in the parent
    let t ← setGeometryExposed st.tree st.fuel id rect
    pure { st with tree := t }
  | .termResize l c => WinFlush.termResize st l c

/-- The domain of the histories.

    **`tickit_window_set_geometry` (and `_resize`, `_reposition`) is not applied to the root window (id 0)**:
    `.setGeometry id _` requires `id ≠ 0`.  This is a domain restriction taken from the documentation, not a gap in
    the proof: the root window's geometry is the library's business, not the application's.
    * `man/tickit_window.7`: "A window occupies a given size and position within its parent (apart from the root
      window, which occupies the entire terminal)."
    * `man/tickit_window_get_geometry.3`: "When invoked on a root window, its top left corner will be at zero, and
      its size will give the size of the underlying terminal."
    * `man/tickit_window_set_geometry.3`: "The position is relative to the window's immediate parent." — the root
      window has none.

    The root's geometry is changed only by the library itself, in `on_term_resize` (origin kept, size := the
    terminal's), and that *is* covered: `TreeOp.termResize`.  Closing, hiding and showing the root window are covered
    like those of any other window (`.close`, `.hide`, `.show` carry no condition).  What goes wrong when an
    application does set the root's geometry is machine-checked below: `root_setGeometry_counterexample` (the flush
    renders the root's own cell `(l, c)` at terminal cell `(l, c)` whatever `root->rect.top/left` say, while the
    painter's model, like `tickit_window_get_abs_geometry`, places the root at `root->rect.top/left`; after moving
    the root, exposing all of it and flushing, a cell the root owns still shows another window's content).  Setting
    the root's geometry to the value it already has is a no-op (`root_setGeometry_same`).

    The other conditions: the kinds of restacking requests are the four the API has; a terminal has at least one
    cell. -/
def TreeOp.Ok : TreeOp → Prop
  | .show _ => True
  | .hide _ => True
  | .setGeometry id _ => id ≠ 0
  | .restack ch _ => isRestack ch = true
  | .termResize l c => 0 < l ∧ 0 < c
  | .newWindow .. => True
  | .close _ => True

/-- The invariant of every reachable state, restacking requests queued or not (`Proof/WinFull.lean`): the structural
    invariants of the store, "every cell owned in the tree *as it stands* is damaged or already right", damage flagged,
    queued requests of restacking kinds only, root window = terminal.  Nothing else is assumed of the queue: when the
    flush applies it, each `_do_hierarchy_change` is one more step that keeps the invariant (`inv_step_queue`). -/
abbrev GoodQ := WinFlush.GoodQ

/-- **`inv_step_full`**: every tree-changing operation — creating a window (any flags), closing, showing, hiding, queueing
    a restacking request, a geometry change followed by the proviso's exposes, a terminal resize — keeps the invariant,
    whatever is queued.  (The earlier formulation of this statement assumed only `RootOk` and `RootsPositive` of the
    tree, which is not enough: without the agreement of parent pointers and child lists the damage `hide` records in
    `win->parent` need not cover the window.  `GoodQ` holds of every fresh terminal, `goodQ_init`, and is kept by every
    operation.) -/
theorem inv_step_full (content : Id → Int → Int → Cell) (st st' : St) (op : TreeOp) (hop : op.Ok)
    (hg : GoodQ content st) (h : runTreeOp st op = .ok st') : GoodQ content st' := by
  cases op with
  | newWindow p r a b c d pen =>
    simp only [runTreeOp, bind, Bind.bind] at h
    cases hn : newWin st p r a b c d pen with
    | ub e => rw [hn] at h; cases h
    | ok x =>
      rw [hn] at h
      simp only [pure, Pure.pure] at h
      cases h
      exact goodQ_new content st x.1 p r a b c d pen x.2 hn hg
  | close id =>
    simp only [runTreeOp, bind, Bind.bind] at h
    cases he : WinTree.close st.tree st.fuel id with
    | ub w => rw [he] at h; cases h
    | ok t' =>
      rw [he] at h
      simp only [pure, Pure.pure] at h
      cases h
      exact goodQ_close content st id t' he hg
  | «show» id =>
    simp only [runTreeOp, bind, Bind.bind] at h
    cases he : WinTree.show st.tree st.fuel id with
    | ub w => rw [he] at h; cases h
    | ok t' =>
      rw [he] at h
      simp only [pure, Pure.pure] at h
      cases h
      exact goodQ_vis content st id t' (Or.inr he) hg
  | hide id =>
    simp only [runTreeOp, bind, Bind.bind] at h
    cases he : WinTree.hide st.tree st.fuel id with
    | ub w => rw [he] at h; cases h
    | ok t' =>
      rw [he] at h
      simp only [pure, Pure.pure] at h
      cases h
      by_cases hid : id = 0
      · subst hid
        exact goodQ_hide_root content st t' he hg
      · exact goodQ_vis content st id t' (Or.inl ⟨he, hid⟩) hg
  | restack ch id =>
    simp only [runTreeOp, bind, Bind.bind] at h
    cases he : requestHierarchyChange st.tree st.fuel ch id with
    | ub w => rw [he] at h; cases h
    | ok t' =>
      rw [he] at h
      simp only [pure, Pure.pure] at h
      cases h
      exact goodQ_request content st ch id t' hop he hg
  | setGeometry id rect =>
    simp only [runTreeOp, bind, Bind.bind] at h
    cases he : setGeometryExposed st.tree st.fuel id rect with
    | ub w => rw [he] at h; cases h
    | ok t' =>
      rw [he] at h
      simp only [pure, Pure.pure] at h
      cases h
      exact goodQ_geom content st id rect t' hop he hg
  | termResize l c =>
    exact goodQ_resize content st st' l c hop.1 hop.2 h hg

/-- **`inv_step_queue`**: a flush with restacking requests queued applies them (`_do_hierarchy_change` each, in the order
    queued), renders, and leaves the invariant, an empty queue, no damage — and every owned cell of the *re-stacked* tree
    showing what its owner paints there. -/
theorem inv_step_queue (beh : Id → Rect → List DrawOp) (content : Id → Int → Int → Cell) (st st' : St) (shots : List Shot)
    (h : WinFlush.flush beh st = .ok (st', shots)) (hrep : Repaints content beh) (hg : GoodQ content st) :
    GoodQ content st' ∧ Exact content st'.tree st'.screen ∧ st'.tree.root.changes = [] ∧ st'.tree.root.damage = [] :=
  goodQ_flush beh content st st' shots h hrep hg

/-- The tree a flush renders is the tree with the queued requests applied, in the order they were made. -/
theorem flush_applies_queue (beh : Id → Rect → List DrawOp) (st st' : St) (shots : List Shot)
    (h : WinFlush.flush beh st = .ok (st', shots)) (hl : st.tree.root.needsLater = true)
    (root : Win) (hr : WinTree.get st.tree 0 = .ok root) (hp : root.parent = none) :
    ∃ t, applyChanges st.fuel
      { st.tree with root := { st.tree.root with needsLater := false, changes := [] } } st.tree.root.changes = .ok t ∧
      st'.tree.wins = t.wins := by
  unfold WinFlush.flush at h
  rw [hr] at h
  simp only [bind, Bind.bind, hp, Option.isSome_none, hl, Bool.false_eq_true, if_false, Bool.not_true] at h
  cases hq : flushQueue st with
  | ub e => rw [hq] at h; cases h
  | ok t =>
    rw [hq] at h
    simp only at h
    exact ⟨t, hq, (flushRender_tree beh st st' t shots h).1⟩

/-- A freshly created terminal of positive size satisfies the invariant. -/
theorem goodQ_init (content : Id → Int → Int → Cell) (lines cols : Int) (pen : Option Pen) (hl : 0 < lines) (hc : 0 < cols) :
    GoodQ content (St.init lines cols pen) := by
  have hg := good_init content lines cols pen hl hc
  have hw : (St.init lines cols pen).tree.wins = #[{ rect := ⟨0, 0, lines, cols⟩, isRoot := true }] := by simp [St.init, newRoot]
  have hw0 : (St.init lines cols pen).tree.wins[0]? = some { rect := ⟨0, 0, lines, cols⟩, isRoot := true } := by
    simp [St.init, newRoot]
  have hsome : ∀ (x : Nat) (w : Win), (St.init lines cols pen).tree.wins[x]? = some w →
      x = 0 ∧ w = { rect := ⟨0, 0, lines, cols⟩, isRoot := true } := by
    intro x w hx
    rw [hw] at hx
    cases x with
    | zero => simp at hx; exact ⟨rfl, hx.symm⟩
    | succ k => simp at hx
  exact { tinv := ⟨⟨hg.wf, hg.nodup, hg.noSelf, hg.onlyRoot, hg.rootWin⟩, (by
                     intro x w hx ch hch
                     obtain ⟨_, rfl⟩ := hsome x w hx
                     cases hch), hg.pos, hg.nonempty, hg.dinv, hg.inv⟩
          flags := fun hd => ⟨hg.flagged hd, hg.later hd⟩
          queue := (by intro r hr; rw [hg.noQueue] at hr; cases hr)
          queueLater := fun hq => absurd hg.noQueue hq
          term := ⟨_, hw0, rfl, rfl⟩
          pc := (by
            intro x w p hx hp
            obtain ⟨_, rfl⟩ := hsome x w hx
            cases hp) }

/-- Stage 5, first part (proved): the rebuilding of the pending damage by a scroll of `rect` by `(d, r)` is exact — damage
    outside the rectangle stays, damage inside moves with the terminal's content and is cut to the rectangle — and it
    keeps the invariant of the rectangle set (`Proof/WinScroll.lean`, on C05's `add`/`addMany` theorems). -/
theorem scroll_damage_shift_exact (rect : Rect) (d r : Int) (hrect : rect.Nonempty) (dmg acc' : List Rect)
    (h : shiftDamage rect d r dmg [] = .ok acc') (hinv : RectSet.Inv dmg) :
    RectSet.Inv acc' ∧ ∀ L C, Covered acc' L C ↔ ∃ rj ∈ dmg, ShiftedMem rect d r rj L C := by
  obtain ⟨h1, h2⟩ := shiftDamage_spec rect d r hrect dmg [] acc' h hinv.1 RectSet.invS_nil
  refine ⟨(RectSet.inv_iff _).2 h1, fun L C => ?_⟩
  rw [h2 L C]
  constructor
  · rintro (hc | hx)
    · exact absurd hc (RectSet.covered_nil L C)
    · exact hx
  · exact Or.inr

/-- **`scroll_step_full`** (stage 5): scrolling (`tickit_window_scroll`, `tickit_window_scrollrect`: `_scroll` with the
    children masked), under **every** scroll oracle — the terminal performs the request, refuses it, or does either from
    one rectangle of the visible region to the next — keeps the invariant when the application's content moves with the
    scroll (`content'` is `content` shifted inside the scrolled rectangle of the scrolled window).  Through
    `Proof/WinVisible.lean` (the visible-region computation — the rectangle cut to the window and every ancestor, minus
    visible children and front siblings of the window and of every ancestor — is exactly the set of terminal cells the
    painter's model gives the window inside the rectangle: C05's `subtract_spec`, `add_spec`, `Inv`) and
    `Proof/WinScrollStep.lean` (the terminal scroll against the shifted content and damage, the vacated strips, the
    induction over the pairwise disjoint visible rectangles). -/
theorem scroll_step_full (oracle : Oracle) (content content' : Id → Int → Int → Cell) (st st' : St) (win : Id) (rect : Rect)
    (d r : Int) (pen : Option Pen) (ret : Bool) (hg : GoodQ content st)
    (h : WinFlush.scroll oracle st win rect d r pen true = .ok (st', ret))
    (hc : ∀ w l c, content' w l c =
      if w = win ∧ rect.memb l c = true then content w (l + d) (c + r) else content w l c) :
    GoodQ content' st' :=
  scroll_step oracle content content' st st' win rect d r pen ret hg h hc

/-- `tickit_window_scroll` (the whole window `w`, no pen) is the case `rect = (0, 0, w.lines, w.cols)`. -/
theorem scroll_step_window (oracle : Oracle) (content content' : Id → Int → Int → Cell) (st st' : St) (win : Id) (w : Win)
    (d r : Int) (ret : Bool) (hg : GoodQ content st) (hw : WinTree.get st.tree win = .ok w)
    (h : WinFlush.scrollWindow oracle st win d r = .ok (st', ret))
    (hc : ∀ w' l c, content' w' l c =
      if w' = win ∧ (⟨0, 0, w.rect.lines, w.rect.cols⟩ : Rect).memb l c = true then content w' (l + d) (c + r)
      else content w' l c) :
    GoodQ content' st' := by
  unfold scrollWindow at h
  simp only [bind, Bind.bind, hw] at h
  exact scroll_step_full oracle content content' st st' win _ d r none ret hg h hc

/-- **`scrollch_step_full`** (stage 5, second part): scrolling a container — `tickit_window_scroll_with_children`
    (`_scroll` *without* masking the children: the terminal scrolls every cell the painter's model gives to the window's
    whole subtree, the children's cells included; only siblings in front of the window or of an ancestor are kept out),
    followed by the application moving the children.  The library leaves that move to the application, and says so:
    "This is intended for scrolling a container of windows, which will move all of the sub-windows too.  Note that this
    function does not actually move the child windows, it simply requests a scrolling operation on the underlying
    terminal" (`man/tickit_window_scroll.3`).  The compound step `WinFlush.scrollWithChildrenMoved` is the call followed by
    `tickit_window_set_geometry` of every child (visible or hidden) to its position moved by `(-downward, -rightward)`
    — the way the terminal's cells moved — with *no* expose (this is what the call is for; the proviso "exposes old and
    new areas after changing a geometry" is replaced, for these moves, by the scroll the terminal has performed or the
    exposes `_scrollrectset` has made where it has not).  Under **every** scroll oracle — accept, refuse, or either from
    one rectangle of the visible region to the next — and whatever the call returned, the invariant is kept when the
    window's own content moves with the scroll (`content'`: the window's content shifted; the children's content, in
    their own coordinates, unchanged).  Through `Proof/WinScrollCh.lean`: the visible region computed without masking
    the children is exactly the set of terminal cells owned by the window's subtree (`visibleG_spec`); in the tree with
    the children moved the owner of such a cell is the owner, in the tree as it was, of the cell `(downward,
    rightward)` away (`subOwn_moved`), and outside the region ownership is unchanged (`ownerLoc_moved_back`). -/
theorem scrollch_step_full (oracle : Oracle) (content content' : Id → Int → Int → Cell) (st st' : St) (win : Id) (w : Win)
    (d r : Int) (ret : Bool) (hg : GoodQ content st) (hw : WinTree.get st.tree win = .ok w)
    (h : WinFlush.scrollWithChildrenMoved oracle st win d r = .ok (st', ret))
    (hc : ∀ w' l c, content' w' l c =
      if w' = win ∧ (⟨0, 0, w.rect.lines, w.rect.cols⟩ : Rect).memb l c = true then content w' (l + d) (c + r)
      else content w' l c) :
    GoodQ content' st' :=
  scrollch_step oracle content content' st st' win w d r ret hg hw h hc

/-! ### stage 6: every history -/

/-- The states reachable from a fresh terminal by **any** finite history of window-tree operations — creating windows
    (any flags), closing, showing, hiding, restacking, moving and resizing (followed by the proviso's exposes), exposing,
    scrolling (`tickit_window_scroll`, `tickit_window_scrollrect`, and `tickit_window_scroll_with_children` followed by
    the application's move of the children; under any oracle, chosen anew at every scroll; the content and its handlers
    move with the scroll) and resizing the terminal — interleaved with flushes at arbitrary points.  `content` is what the windows paint now and
    `beh` the handlers that repaint it. -/
inductive Reach : (Id → Int → Int → Cell) → (Id → Rect → List DrawOp) → St → Prop where
  | init (content : Id → Int → Int → Cell) (beh : Id → Rect → List DrawOp) (lines cols : Int) (pen : Option Pen) :
      0 < lines → 0 < cols → Repaints content beh → Reach content beh (St.init lines cols pen)
  | tree {content beh st} (op : TreeOp) (st' : St) :
      Reach content beh st → op.Ok → runTreeOp st op = .ok st' → Reach content beh st'
  | expose {content beh st} (id : Id) (e : Option Rect) (t' : Tree) :
      Reach content beh st → WinTree.expose st.tree st.fuel id e = .ok t' → Reach content beh { st with tree := t' }
  | scroll {content beh st} (oracle : Oracle) (win : Id) (rect : Rect) (d r : Int) (pen : Option Pen) (st' : St) (ret : Bool)
      (content' : Id → Int → Int → Cell) (beh' : Id → Rect → List DrawOp) :
      Reach content beh st → WinFlush.scroll oracle st win rect d r pen true = .ok (st', ret) →
      (∀ w l c, content' w l c = if w = win ∧ rect.memb l c = true then content w (l + d) (c + r) else content w l c) →
      Repaints content' beh' → Reach content' beh' st'
  /-- `tickit_window_scroll_with_children`, then the application moves the children (`scrollch_step_full`) -/
  | scrollch {content beh st} (oracle : Oracle) (win : Id) (w : Win) (d r : Int) (st' : St) (ret : Bool)
      (content' : Id → Int → Int → Cell) (beh' : Id → Rect → List DrawOp) :
      Reach content beh st → WinTree.get st.tree win = .ok w →
      WinFlush.scrollWithChildrenMoved oracle st win d r = .ok (st', ret) →
      (∀ w' l c, content' w' l c =
        if w' = win ∧ (⟨0, 0, w.rect.lines, w.rect.cols⟩ : Rect).memb l c = true then content w' (l + d) (c + r)
        else content w' l c) →
      Repaints content' beh' → Reach content' beh' st'
  | flush {content beh st} (st' : St) (shots : List Shot) :
      Reach content beh st → WinFlush.flush beh st = .ok (st', shots) → Reach content beh st'
  /-- a flush whose handlers also call `tickit_window_expose` (for the next flush) -/
  | flushX {content beh st} (behExp : Id → Rect → List (Id × Option Rect)) (st' : St) (shots : List Shot) :
      Reach content beh st → WinFlush.flushX beh behExp st = .ok (st', shots) → Reach content beh st'

/-- Every reachable state satisfies the invariant, and its handlers repaint its content. -/
theorem reach_good {content : Id → Int → Int → Cell} {beh : Id → Rect → List DrawOp} {st : St} (h : Reach content beh st) :
    GoodQ content st ∧ Repaints content beh := by
  induction h with
  | init content beh lines cols pen hl hc hrep => exact ⟨goodQ_init content lines cols pen hl hc, hrep⟩
  | tree op st' _ hop hrun ih => exact ⟨inv_step_full _ _ st' op hop ih.1 hrun, ih.2⟩
  | expose id e t' _ he ih => exact ⟨goodQ_expose _ _ id e t' he ih.1, ih.2⟩
  | scroll oracle win rect d r pen st' ret content' beh' _ hs hc hrep ih =>
    exact ⟨scroll_step_full oracle _ content' _ st' win rect d r pen ret ih.1 hs hc, hrep⟩
  | scrollch oracle win w d r st' ret content' beh' _ hw hs hc hrep ih =>
    exact ⟨scrollch_step_full oracle _ content' _ st' win w d r ret ih.1 hw hs hc, hrep⟩
  | flush st' shots _ hf ih => exact ⟨(inv_step_queue _ _ _ st' shots hf ih.2 ih.1).1, ih.2⟩
  | flushX behExp st' shots _ hf ih => exact ⟨(goodQ_flushX _ behExp _ _ st' shots hf ih.2 ih.1).1, ih.2⟩

/-- **`C01_full`**: after any finite history of creating, closing, showing, hiding, restacking, moving, resizing,
    exposing and scrolling windows and of resizing the terminal, with flushes at arbitrary points, on every tree shape,
    geometry, z-order and visibility, and for terminals that accept, partially accept or refuse scroll requests: once
    pending activity is flushed, every terminal cell that the painter's model gives to a window shows what that window
    paints there — no stale or misplaced cell survives a flush — and nothing is left pending.  Provisos, as in the
    property: the handlers repaint the area they are asked to, the application exposes old and new areas after changing
    a geometry (`TreeOp.setGeometry`), its content moves with a scroll, and after `tickit_window_scroll_with_children` it
    moves the children by the same offsets, as the manual page says it must (`Reach.scrollch`).  Outside the domain:
    moving or resizing the root window itself by `tickit_window_set_geometry` (`TreeOp.Ok`: by the documentation the
    root occupies the entire terminal and only the library changes its geometry, `TreeOp.termResize`; with it the
    statement is false, `root_setGeometry_counterexample`). -/
theorem C01_full {content : Id → Int → Int → Cell} {beh : Id → Rect → List DrawOp} {st : St} (hreach : Reach content beh st)
    (st' : St) (shots : List Shot) (h : WinFlush.flush beh st = .ok (st', shots)) :
    Exact content st'.tree st'.screen ∧ st'.tree.root.damage = [] ∧ st'.tree.root.changes = [] := by
  obtain ⟨hg, hrep⟩ := reach_good hreach
  obtain ⟨_, h1, h2, h3⟩ := inv_step_queue beh content st st' shots h hrep hg
  exact ⟨h1, h3, h2⟩

/-- The same for a flush whose handlers call `tickit_window_expose` while it runs: the screen is exact for the tree as
    flushed (what the handlers exposed is pending for the next flush). -/
theorem C01_full_handlers_expose {content : Id → Int → Int → Cell} {beh : Id → Rect → List DrawOp} {st : St}
    (hreach : Reach content beh st) (behExp : Id → Rect → List (Id × Option Rect)) (st' : St) (shots : List Shot)
    (h : WinFlush.flushX beh behExp st = .ok (st', shots)) : Exact content st'.tree st'.screen := by
  obtain ⟨hg, hrep⟩ := reach_good hreach
  exact (goodQ_flushX beh behExp content st st' shots h hrep hg).2

/-- And what the flush did not own or was not asked to repaint is untouched: cells outside the pending damage (after the
    queued requests were applied) keep what they showed. -/
theorem C01_full_frame {content : Id → Int → Int → Cell} {beh : Id → Rect → List DrawOp} {st : St}
    (_hreach : Reach content beh st) (st' : St) (t : Tree) (shots : List Shot) (h : flushRender beh st t = .ok (st', shots)) :
    ∀ L C, ¬ Covered t.root.damage L C → st'.screen L C = st.screen L C :=
  flush_keeps_undamaged beh st st' t shots h

/-- **C02's last clause along every history**: in every reachable state, the rectangles handed to one window during a
    flush are pairwise disjoint.  Both hypotheses of `Props.C02.handed_rects_disjoint` are invariants: the damage set
    satisfies C05's `Inv` (so its rectangles are pairwise disjoint), and no window occurs twice in the traversal of the
    tree (`visitIds_nodup`, from the structural invariants of `GoodQ`). -/
theorem handed_rects_disjoint_reach {content : Id → Int → Int → Cell} {beh : Id → Rect → List DrawOp} {st : St}
    (hreach : Reach content beh st) (st' : St) (shots : List Shot) (h : WinFlush.flush beh st = .ok (st', shots)) :
    ∀ w, ((shots.map Shot.ev).filter (fun e => e.1 = w)).Pairwise (fun a b => Rect.Disjoint a.2 b.2) := by
  obtain ⟨hg, hrep⟩ := reach_good hreach
  obtain ⟨hg', _⟩ := inv_step_queue beh content st st' shots h hrep hg
  rcases flush_decompose beh content st st' shots h hg with ⟨_, hs⟩ | ⟨t, hr, hI, _⟩
  · subst hs; intro w; exact List.Pairwise.nil
  · exact Props.C02.handed_rects_disjoint_of_inv beh st st' t shots hr hI.dinv
      (visitIds_nodup st'.tree hg'.tinv.ok hg'.tinv.ord hg'.pc _ 0)

/-! ### non-vacuity of the full statements -/

/-- A history with overlapping windows, a queued restacking request, a flush, a scroll the terminal performs and a
    second flush. -/
def demo : Res (St × List Shot) := do
  let st1 ← runTreeOp (St.init 4 8 none) (.newWindow 0 ⟨1, 1, 2, 3⟩ false false false false none)
  let st2 ← runTreeOp st1 (.newWindow 0 ⟨0, 2, 3, 4⟩ false false false false none)
  let st3 ← runTreeOp st2 (.restack .raise 1)
  let r4 ← WinFlush.flush solidBeh st3
  let r5 ← WinFlush.scroll (fun _ _ _ _ _ => true) r4.1 1 ⟨0, 0, 2, 3⟩ 1 0 none true
  WinFlush.flush solidBeh r5.1

/-- The hypotheses of `inv_step_full`, `inv_step_queue`, `scroll_step_full` and `C01_full` are satisfiable together: the
    history `demo` is a `Reach` derivation whose every step succeeds, ending in a flush. -/
example : ∃ (st st' : St) (shots : List Shot), Reach solidContent solidBeh st ∧
    WinFlush.flush solidBeh st = .ok (st', shots) := by
  have h : isOk demo = true := by decide +kernel
  unfold demo at h
  simp only [bind, Bind.bind] at h
  have r0 : Reach solidContent solidBeh (St.init 4 8 none) :=
    Reach.init _ _ 4 8 none (by decide) (by decide) solid_repaints
  cases h1 : runTreeOp (St.init 4 8 none) (.newWindow 0 ⟨1, 1, 2, 3⟩ false false false false none) with
  | ub e => rw [h1] at h; cases h
  | ok st1 =>
    rw [h1] at h
    simp only at h
    have r1 := Reach.tree (.newWindow 0 ⟨1, 1, 2, 3⟩ false false false false none) st1 r0 trivial h1
    cases h2 : runTreeOp st1 (.newWindow 0 ⟨0, 2, 3, 4⟩ false false false false none) with
    | ub e => rw [h2] at h; cases h
    | ok st2 =>
      rw [h2] at h
      simp only at h
      have r2 := Reach.tree (.newWindow 0 ⟨0, 2, 3, 4⟩ false false false false none) st2 r1 trivial h2
      cases h3 : runTreeOp st2 (.restack .raise 1) with
      | ub e => rw [h3] at h; cases h
      | ok st3 =>
        rw [h3] at h
        simp only at h
        have r3 := Reach.tree (.restack .raise 1) st3 r2 (by show isRestack .raise = true; rfl) h3
        cases h4 : WinFlush.flush solidBeh st3 with
        | ub e => rw [h4] at h; cases h
        | ok x4 =>
          rw [h4] at h
          simp only at h
          have r4 := Reach.flush x4.1 x4.2 r3 h4
          cases h5 : WinFlush.scroll (fun _ _ _ _ _ => true) x4.1 1 ⟨0, 0, 2, 3⟩ 1 0 none true with
          | ub e => rw [h5] at h; cases h
          | ok x5 =>
            rw [h5] at h
            simp only at h
            have r5 : Reach solidContent solidBeh x5.1 :=
              Reach.scroll _ 1 ⟨0, 0, 2, 3⟩ 1 0 none x5.1 x5.2 solidContent solidBeh r4 h5
                (by intro w l c; split <;> rfl) solid_repaints
            cases h6 : WinFlush.flush solidBeh x5.1 with
            | ub e => rw [h6] at h; cases h
            | ok x6 => exact ⟨x5.1, x6.1, x6.2, r5, h6⟩

/-- A container (window 1) with a child inside it (window 2) and a sibling in front of part of it (window 3): flush,
    scroll the container with its children (the application moves window 2), flush. -/
def demoCh (oracle : Oracle) : Res (St × List Shot) := do
  let st1 ← runTreeOp (St.init 6 8 none) (.newWindow 0 ⟨1, 1, 4, 5⟩ false false false false none)
  let st2 ← runTreeOp st1 (.newWindow 1 ⟨1, 1, 2, 2⟩ false false false false none)
  let st3 ← runTreeOp st2 (.newWindow 0 ⟨0, 4, 3, 3⟩ false false false false none)
  let r4 ← WinFlush.flush solidBeh st3
  let r5 ← WinFlush.scrollWithChildrenMoved oracle r4.1 1 1 0
  WinFlush.flush solidBeh r5.1

/-- The hypotheses of `scrollch_step_full` (and of `C01_full` after a `Reach.scrollch` step) are satisfiable, with a
    terminal that performs the scroll and with one that refuses it: `demoCh` is a `Reach` derivation whose every step
    succeeds, ending in a flush. -/
theorem demoCh_reach (oracle : Oracle) (h : isOk (demoCh oracle) = true) :
    ∃ (st0 st st' : St) (w : Win) (ret : Bool) (shots : List Shot), Reach solidContent solidBeh st0 ∧
      WinTree.get st0.tree 1 = .ok w ∧ WinFlush.scrollWithChildrenMoved oracle st0 1 1 0 = .ok (st, ret) ∧
      Reach solidContent solidBeh st ∧ WinFlush.flush solidBeh st = .ok (st', shots) := by
  unfold demoCh at h
  simp only [bind, Bind.bind] at h
  have r0 : Reach solidContent solidBeh (St.init 6 8 none) :=
    Reach.init _ _ 6 8 none (by decide) (by decide) solid_repaints
  cases h1 : runTreeOp (St.init 6 8 none) (.newWindow 0 ⟨1, 1, 4, 5⟩ false false false false none) with
  | ub e => rw [h1] at h; cases h
  | ok st1 =>
    rw [h1] at h
    simp only at h
    have r1 := Reach.tree (.newWindow 0 ⟨1, 1, 4, 5⟩ false false false false none) st1 r0 trivial h1
    cases h2 : runTreeOp st1 (.newWindow 1 ⟨1, 1, 2, 2⟩ false false false false none) with
    | ub e => rw [h2] at h; cases h
    | ok st2 =>
      rw [h2] at h
      simp only at h
      have r2 := Reach.tree (.newWindow 1 ⟨1, 1, 2, 2⟩ false false false false none) st2 r1 trivial h2
      cases h3 : runTreeOp st2 (.newWindow 0 ⟨0, 4, 3, 3⟩ false false false false none) with
      | ub e => rw [h3] at h; cases h
      | ok st3 =>
        rw [h3] at h
        simp only at h
        have r3 := Reach.tree (.newWindow 0 ⟨0, 4, 3, 3⟩ false false false false none) st3 r2 trivial h3
        cases h4 : WinFlush.flush solidBeh st3 with
        | ub e => rw [h4] at h; cases h
        | ok x4 =>
          rw [h4] at h
          simp only at h
          have r4 := Reach.flush x4.1 x4.2 r3 h4
          cases h5 : WinFlush.scrollWithChildrenMoved oracle x4.1 1 1 0 with
          | ub e => rw [h5] at h; cases h
          | ok x5 =>
            rw [h5] at h
            simp only at h
            -- the scrolled window is alive (the compound step read it)
            cases hw : WinTree.get x4.1.tree 1 with
            | ub e =>
              unfold WinFlush.scrollWithChildrenMoved WinFlush.scrollWithChildren at h5
              simp only [bind, Bind.bind, hw] at h5
              cases h5
            | ok w =>
              have r5 : Reach solidContent solidBeh x5.1 :=
                Reach.scrollch oracle 1 w 1 0 x5.1 x5.2 solidContent solidBeh r4 hw h5
                  (by intro w' l c; split <;> rfl) solid_repaints
              cases h6 : WinFlush.flush solidBeh x5.1 with
              | ub e => rw [h6] at h; cases h
              | ok x6 => exact ⟨x4.1, x5.1, x6.1, w, x5.2, x6.2, r4, hw, h5, r5, h6⟩

example : isOk (demoCh (fun _ _ _ _ _ => true)) = true ∧ isOk (demoCh (fun _ _ _ _ _ => false)) = true ∧
    isOk (demoCh (fun _ _ rect _ _ => decide (rect.left < 4))) = true := by
  refine ⟨?_, ?_, ?_⟩ <;> decide +kernel

/-- A run of tree-changing operations. -/
def runTreeOps : St → List TreeOp → Res St
  | st, [] => .ok st
  | st, op :: ops => do
    let st ← runTreeOp st op
    runTreeOps st ops

theorem reach_runTreeOps {content : Id → Int → Int → Cell} {beh : Id → Rect → List DrawOp} :
    ∀ (ops : List TreeOp) (st st' : St), Reach content beh st → (∀ op ∈ ops, op.Ok) → runTreeOps st ops = .ok st' →
    Reach content beh st' := by
  intro ops
  induction ops with
  | nil => intro st st' r _ h; simp only [runTreeOps] at h; cases h; exact r
  | cons op ops ih =>
    intro st st' r hok h
    simp only [runTreeOps, bind, Bind.bind] at h
    cases h1 : runTreeOp st op with
    | ub e => rw [h1] at h; cases h
    | ok st1 =>
      rw [h1] at h
      exact ih st1 st' (Reach.tree op st1 r (hok op List.mem_cons_self) h1) (fun o ho => hok o (List.mem_cons_of_mem _ ho)) h

/-- Every kind of tree-changing operation occurs in a successful run from a fresh terminal (nested and overlapping
    windows, all creation flags, every restacking kind queued, a move, a hide, a show, a close, terminal resizes). -/
def demoOps : List TreeOp :=
  [ .newWindow 0 ⟨1, 1, 2, 3⟩ false false false false none, .newWindow 0 ⟨0, 2, 3, 4⟩ false true true false none,
    .newWindow 1 ⟨1, 1, 2, 2⟩ true false false true none, .restack .raise 2, .restack .lowerBack 1, .restack .raiseFront 2,
    .restack .lower 1, .setGeometry 1 ⟨0, 0, 3, 3⟩, .show 2, .hide 1, .termResize 6 10, .show 1, .close 3, .termResize 3 5, .hide 0, .newWindow 1 ⟨0, 0, 1, 1⟩ false false false false none,
    .restack .raise 4, .show 0, .close 0 ]

example : (∀ op ∈ demoOps, op.Ok) ∧ ∃ st', Reach solidContent solidBeh st' ∧ runTreeOps (St.init 4 8 none) demoOps = .ok st' := by
  have hok : ∀ op ∈ demoOps, op.Ok := by
    intro op hop
    simp only [demoOps, List.mem_cons, List.mem_nil_iff, or_false] at hop
    rcases hop with rfl | rfl | rfl | rfl | rfl | rfl | rfl | rfl | rfl | rfl | rfl | rfl | rfl | rfl | rfl | rfl | rfl | rfl | rfl <;>
      simp [TreeOp.Ok, isRestack]
  refine ⟨hok, ?_⟩
  have h : isOk (runTreeOps (St.init 4 8 none) demoOps) = true := by decide +kernel
  cases h1 : runTreeOps (St.init 4 8 none) demoOps with
  | ub e => rw [h1] at h; cases h
  | ok st' =>
    exact ⟨st', reach_runTreeOps demoOps _ st' (Reach.init _ _ 4 8 none (by decide) (by decide) solid_repaints) hok h1, rfl⟩

/-! ### why `tickit_window_set_geometry` of the root window is outside the domain (`TreeOp.Ok`)

  `tickit_window_set_geometry(root, geom)` only stores `geom` (there is no parent to record damage in).  The flush
  never reads `root->rect.top` / `.left`: it builds a render buffer of `root->rect.lines × root->rect.cols` at the
  terminal's origin, `tickit_window_expose(root, r)` records `r` untranslated, so the root's own cell `(l, c)` always
  lands on terminal cell `(l, c)`.  The painter's model (`WinSpec.ownerAt`, like `tickit_window_get_abs_geometry`)
  places the root at `root->rect.top` / `.left`.  The two agree exactly as long as the root's origin is the terminal's,
  which the documentation promises and the library maintains (`on_term_resize` keeps `top` and `left`). -/

/-- The clause one would like to add to `C01_full` if the application were allowed to move or resize the root window:
    in any reachable state, after `tickit_window_set_geometry(root, rect)` followed — as the proviso for geometry
    changes goes — by an expose of the whole root window, a flush leaves every owned cell showing its owner's
    content.  It is **false**: `root_setGeometry_counterexample`. -/
def root_setGeometry_clause : Prop :=
  ∀ (content : Id → Int → Int → Cell) (beh : Id → Rect → List DrawOp) (st : St), Reach content beh st →
    ∀ (rect : Rect) (t1 t2 : Tree) (st' : St) (shots : List Shot),
      setGeometryExposed st.tree st.fuel 0 rect = .ok t1 →
      WinTree.expose t1 st.fuel 0 none = .ok t2 →
      WinFlush.flush beh { st with tree := t2 } = .ok (st', shots) →
      Exact content st'.tree st'.screen

/-- What is looked at in the final state of `rootProbe`: the root window's `freed`, `is_visible` and `rect`, and for
    the four cells `(0,0) (0,1) (1,0) (1,1)` of a 2×2 terminal the owner in the painter's model and the cell shown. -/
structure RootView where
  root : Option (Bool × Bool × Rect)
  cells : List (Option (Id × Int × Int) × Cell)
deriving DecidableEq

def rootView (st : St) : RootView :=
  ⟨(st.tree.wins[0]?).map (fun w => (w.freed, w.isVisible, w.rect)),
   [(ownerAt st.tree 0 0, st.screen 0 0), (ownerAt st.tree 0 1, st.screen 0 1),
    (ownerAt st.tree 1 0, st.screen 1 0), (ownerAt st.tree 1 1, st.screen 1 1)]⟩

/-- The history of the counterexample: a 2×2 terminal, a child window (id 1) over the terminal's row 1, a flush — now
    nothing is pending, row 0 shows the root's content and row 1 the child's —, then
    `tickit_window_set_geometry(root, rect)`, `tickit_window_expose(root, NULL)` and a second flush.
    (The child is there to make the stale row visible: `solidContent` does not depend on the position, so on a bare
    root the unpainted row would by accident still show the right cell.) -/
def rootProbe (rect : Rect) : Res RootView := do
  let st1 ← runTreeOp (St.init 2 2 none) (.newWindow 0 ⟨1, 0, 1, 2⟩ false false false false none)
  let r2 ← WinFlush.flush solidBeh st1
  let t1 ← setGeometryExposed r2.1.tree r2.1.fuel 0 rect
  let t2 ← WinTree.expose t1 r2.1.fuel 0 none
  let r3 ← WinFlush.flush solidBeh { r2.1 with tree := t2 }
  pure (rootView r3.1)

def resIs {α : Type} [DecidableEq α] : Res α → α → Bool
  | .ok a, b => decide (a = b)
  | .ub _, _ => false

/-- A successful evaluation of `rootProbe rect` is a reachable state `st` (fresh terminal, `tickit_window_new`, flush)
    from which the three steps of `root_setGeometry_clause` succeed, ending in a state with that view. -/
theorem rootProbe_run (rect : Rect) (v : RootView)
    (h : resIs (rootProbe rect) v = true) :
    ∃ (st : St) (t1 t2 : Tree) (st' : St) (shots : List Shot), Reach solidContent solidBeh st ∧
      st.tree.root.damage = [] ∧ st.tree.root.changes = [] ∧
      setGeometryExposed st.tree st.fuel 0 rect = .ok t1 ∧ WinTree.expose t1 st.fuel 0 none = .ok t2 ∧
      WinFlush.flush solidBeh { st with tree := t2 } = .ok (st', shots) ∧ rootView st' = v := by
  unfold rootProbe at h
  simp only [bind, Bind.bind] at h
  have r0 : Reach solidContent solidBeh (St.init 2 2 none) :=
    Reach.init _ _ 2 2 none (by decide) (by decide) solid_repaints
  cases h1 : runTreeOp (St.init 2 2 none) (.newWindow 0 ⟨1, 0, 1, 2⟩ false false false false none) with
  | ub e => rw [h1] at h; cases h
  | ok st1 =>
    rw [h1] at h
    simp only at h
    have r1 := Reach.tree (.newWindow 0 ⟨1, 0, 1, 2⟩ false false false false none) st1 r0 trivial h1
    cases h2 : WinFlush.flush solidBeh st1 with
    | ub e => rw [h2] at h; cases h
    | ok x2 =>
      rw [h2] at h
      simp only at h
      have r2 := Reach.flush x2.1 x2.2 r1 h2
      obtain ⟨_, hd, hq⟩ := C01_full r1 x2.1 x2.2 h2
      cases h3 : setGeometryExposed x2.1.tree x2.1.fuel 0 rect with
      | ub e => rw [h3] at h; cases h
      | ok t1 =>
        rw [h3] at h
        simp only at h
        cases h4 : WinTree.expose t1 x2.1.fuel 0 none with
        | ub e => rw [h4] at h; cases h
        | ok t2 =>
          rw [h4] at h
          simp only at h
          cases h5 : WinFlush.flush solidBeh { x2.1 with tree := t2 } with
          | ub e => rw [h5] at h; cases h
          | ok x5 =>
            rw [h5] at h
            simp only [pure, Pure.pure, resIs, decide_eq_true_eq] at h
            exact ⟨x2.1, t1, t2, x5.1, x5.2, r2, hd, hq, h3, h4, h5, h⟩

/-- **`root_setGeometry_counterexample`**: the clause is false, which is why `TreeOp.Ok` keeps
    `tickit_window_set_geometry` of the root window out of the histories of `C01_full`.  On a 2×2 terminal with
    nothing pending, row 0 showing the root (window 0) and row 1 a child (window 1), the application sets the root's
    geometry to `{top 1, left 0, lines 1, cols 2}`, exposes the whole root and flushes.  The flush succeeds.  In the
    painter's model the root now lies over terminal row 1 (and clips the child away): `ownerAt st'.tree 1 0 =
    some (0, 0, 0)`.  But the flush has painted the root's row 0 at terminal row 0 (owned by no window), and terminal
    row 1 still shows the child's cell `⟨32, 2, 0, false, false⟩`, not `solidContent 0 0 0 = ⟨32, 1, 0, false, false⟩`. -/
theorem root_setGeometry_counterexample : ¬ root_setGeometry_clause := by
  intro hcl
  have h : resIs (rootProbe ⟨1, 0, 1, 2⟩)
      ⟨some (false, true, ⟨1, 0, 1, 2⟩),
       [(none, ⟨32, 1, 0, false, false⟩), (none, ⟨32, 1, 0, false, false⟩),
        (some (0, 0, 0), ⟨32, 2, 0, false, false⟩), (some (0, 0, 1), ⟨32, 2, 0, false, false⟩)]⟩ = true := by decide +kernel
  obtain ⟨st, t1, t2, st', shots, hreach, _, _, h3, h4, h5, hv⟩ := rootProbe_run _ _ h
  have hex := hcl solidContent solidBeh st hreach ⟨1, 0, 1, 2⟩ t1 t2 st' shots h3 h4 h5
  simp only [rootView, RootView.mk.injEq, Prod.mk.injEq, List.cons.injEq] at hv
  obtain ⟨_, _, _, ⟨ho, hs⟩, _⟩ := hv
  have hbad := hex 1 0 0 0 0 ho
  rw [hs] at hbad
  revert hbad
  decide +kernel

/-- Keeping the origin and only shrinking the root (here to the terminal's row 0) does no harm *in this instance*: the
    flush succeeds and the screen is exact — the root's own cell `(l, c)` is still terminal cell `(l, c)`, and the
    cells the root gave up are owned by no window, so nothing is claimed of them.  Only the instance is checked; the
    general clause for origin-keeping changes of the root's size is neither proved nor refuted here, and stays outside
    `TreeOp.Ok` together with the moves (a root larger than the terminal owns cells that are not on the terminal). -/
example : ∃ (st : St) (t1 t2 : Tree) (st' : St) (shots : List Shot), Reach solidContent solidBeh st ∧
    setGeometryExposed st.tree st.fuel 0 ⟨0, 0, 1, 2⟩ = .ok t1 ∧ WinTree.expose t1 st.fuel 0 none = .ok t2 ∧
    WinFlush.flush solidBeh { st with tree := t2 } = .ok (st', shots) ∧ Exact solidContent st'.tree st'.screen := by
  have h : resIs (rootProbe ⟨0, 0, 1, 2⟩)
      ⟨some (false, true, ⟨0, 0, 1, 2⟩),
       [(some (0, 0, 0), ⟨32, 1, 0, false, false⟩), (some (0, 0, 1), ⟨32, 1, 0, false, false⟩),
        (none, ⟨32, 2, 0, false, false⟩), (none, ⟨32, 2, 0, false, false⟩)]⟩ = true := by decide +kernel
  obtain ⟨st, t1, t2, st', shots, hreach, _, _, h3, h4, h5, hv⟩ := rootProbe_run _ _ h
  refine ⟨st, t1, t2, st', shots, hreach, h3, h4, h5, ?_⟩
  simp only [rootView, RootView.mk.injEq, Prod.mk.injEq, List.cons.injEq] at hv
  obtain ⟨hw, ⟨ho00, hs00⟩, ⟨ho01, hs01⟩, _⟩ := hv
  cases hr : st'.tree.wins[0]? with
  | none => rw [hr] at hw; cases hw
  | some root =>
    rw [hr] at hw
    simp only [Option.map_some, Option.some.injEq, Prod.mk.injEq] at hw
    obtain ⟨hf, hvis, hrect⟩ := hw
    intro L C w l c ho
    rw [ownerAt_eq st'.tree root hr hf hvis (by rw [hrect]) (by rw [hrect]) L C, hrect] at ho
    cases hm : (⟨0, 0, 1, 2⟩ : Rect).memb L C with
    | false => rw [hm] at ho; simp at ho
    | true =>
      have hmem := (memb_true_iff _ _ _).1 hm
      simp only [Rect.Mem, Rect.bottom, Rect.right] at hmem
      have hL : L = 0 := by omega
      have hC : C = 0 ∨ C = 1 := by omega
      subst hL
      rcases hC with rfl | rfl
      · have := ownerAt_eq st'.tree root hr hf hvis (by rw [hrect]) (by rw [hrect]) 0 0
        rw [hrect, hm] at this
        rw [if_pos hm] at ho
        rw [ho00, if_pos rfl] at this
        rw [← this] at ho
        cases ho
        rw [hs00]; decide +kernel
      · have := ownerAt_eq st'.tree root hr hf hvis (by rw [hrect]) (by rw [hrect]) 0 1
        rw [hrect, hm] at this
        rw [if_pos hm] at ho
        rw [ho01, if_pos rfl] at this
        rw [← this] at ho
        cases ho
        rw [hs01]; decide +kernel

/-- **`root_setGeometry_same`**: the one root geometry the application may "set" is the one the root already has — the
    call changes nothing (no store, no event, no damage), so histories containing it are histories without it. -/
theorem root_setGeometry_same (t : Tree) (fuel : Nat) (w : Win) (hg : WinTree.get t 0 = .ok w) (hp : w.parent = none) :
    setGeometryExposed t fuel 0 w.rect = .ok t := by
  unfold setGeometryExposed WinTree.setGeometry
  simp only [bind, Bind.bind, hg, hp, ne_eq, not_true_eq_false, if_false, pure, Pure.pure]

/-- The hypotheses of `root_setGeometry_same` hold of the root window of a fresh terminal. -/
example : ∃ w, WinTree.get (St.init 2 2 none).tree 0 = .ok w ∧ w.parent = none ∧
    setGeometryExposed (St.init 2 2 none).tree (St.init 2 2 none).fuel 0 w.rect = .ok (St.init 2 2 none).tree :=
  ⟨{ rect := ⟨0, 0, 2, 2⟩, isRoot := true }, rfl, rfl, root_setGeometry_same _ _ _ rfl rfl⟩

/-! ### pen inheritance: handlers that rely on the pen `_do_expose` hands them

  `Repaints` asks a handler to repaint whatever pen the buffer carries.  A handler that relies on the pen it *inherits*
  (`_do_expose`: `if(win->pen) tickit_renderbuffer_setpen(rb, win->pen)` after the parent's `tickit_renderbuffer_save`, so
  the window pens are merged down the tree) — e.g. one that only erases and expects its window's or an ancestor's
  background — does not satisfy it.  `WinSpec.RepaintsP t pens content beh` asks the same only of buffers carrying
  `WinSpec.mergedPen t pens _ w`, the pen `_do_expose` does hand window `w` (`Proof/WinPen.lean`: `flush_shots_pen`, every
  handler invocation of every flush finds exactly that pen).  Everything above holds under this weaker proviso. -/

/-- **`flush_exact_pen`**: `flush_exact` under the pen-aware proviso, for a tree whose parent pointers agree with its
    child lists (`WFp`, `RootWin`: the merged pen is defined along the parent chain, the rendering descends the child
    lists; both hold of every reachable tree). -/
theorem flush_exact_pen (beh : Id → Rect → List DrawOp) (content : Id → Int → Int → Cell)
    (st st' : St) (t : Tree) (shots : List Shot)
    (h : flushRender beh st t = .ok (st', shots)) (hroot : RootOk t) (hflag : Flagged t) (hwf : WFp t) (hrw : RootWin t)
    (hrep : RepaintsP t st.pens content beh) (hinv : Inv content t st.screen) :
    st'.tree.root.damage = [] ∧ st'.tree.wins = t.wins ∧ Exact content st'.tree st'.screen :=
  flushRender_exact_pen beh content st st' t shots h hroot hflag hwf hrw hrep hinv

/-- One operation of a history other than a flush: it takes the content `content` of the windows to `content'` (only a
    scroll changes it).  No handler is involved. -/
inductive OpStep : (Id → Int → Int → Cell) → St → (Id → Int → Int → Cell) → St → Prop where
  | tree {content st} (op : TreeOp) (st' : St) :
      op.Ok → runTreeOp st op = .ok st' → OpStep content st content st'
  | expose {content st} (id : Id) (e : Option Rect) (t' : Tree) :
      WinTree.expose st.tree st.fuel id e = .ok t' → OpStep content st content { st with tree := t' }
  | scroll {content st} (oracle : Oracle) (win : Id) (rect : Rect) (d r : Int) (pen : Option Pen) (st' : St) (ret : Bool)
      (content' : Id → Int → Int → Cell) :
      WinFlush.scroll oracle st win rect d r pen true = .ok (st', ret) →
      (∀ w l c, content' w l c = if w = win ∧ rect.memb l c = true then content w (l + d) (c + r) else content w l c) →
      OpStep content st content' st'
  /-- `tickit_window_scroll_with_children`, then the application moves the children (`scrollch_step_full`) -/
  | scrollch {content st} (oracle : Oracle) (win : Id) (w : Win) (d r : Int) (st' : St) (ret : Bool)
      (content' : Id → Int → Int → Cell) :
      WinTree.get st.tree win = .ok w →
      WinFlush.scrollWithChildrenMoved oracle st win d r = .ok (st', ret) →
      (∀ w' l c, content' w' l c =
        if w' = win ∧ (⟨0, 0, w.rect.lines, w.rect.cols⟩ : Rect).memb l c = true then content w' (l + d) (c + r)
        else content w' l c) →
      OpStep content st content' st'

/-- Every such operation keeps the invariant. -/
theorem opStep_good {content content' : Id → Int → Int → Cell} {st st' : St} (h : OpStep content st content' st')
    (hg : GoodQ content st) : GoodQ content' st' := by
  cases h with
  | tree op st' hop hrun => exact inv_step_full _ _ st' op hop hg hrun
  | expose id e t' he => exact goodQ_expose _ _ id e t' he hg
  | scroll oracle win rect d r pen st' ret content' hs hc =>
    exact scroll_step_full oracle _ content' _ st' win rect d r pen ret hg hs hc
  | scrollch oracle win w d r st' ret content' hw hs hc =>
    exact scrollch_step_full oracle _ content' _ st' win w d r ret hg hw hs hc

/-- The histories of `Reach`, without a handler proviso carried along: the handlers matter at the flushes only, and
    there the pen-aware proviso is asked of the handlers that flush runs, for the tree it is applied to. -/
inductive ReachP : (Id → Int → Int → Cell) → St → Prop where
  | init (content : Id → Int → Int → Cell) (lines cols : Int) (pen : Option Pen) :
      0 < lines → 0 < cols → ReachP content (St.init lines cols pen)
  | op {content content' st st'} : ReachP content st → OpStep content st content' st' → ReachP content' st'
  | flush {content st} (beh : Id → Rect → List DrawOp) (st' : St) (shots : List Shot) :
      ReachP content st → RepaintsP st.tree st.pens content beh → WinFlush.flush beh st = .ok (st', shots) →
      ReachP content st'
  /-- a flush whose handlers also call `tickit_window_expose` (for the next flush) -/
  | flushX {content st} (beh : Id → Rect → List DrawOp) (behExp : Id → Rect → List (Id × Option Rect)) (st' : St)
      (shots : List Shot) :
      ReachP content st → RepaintsP st.tree st.pens content beh → WinFlush.flushX beh behExp st = .ok (st', shots) →
      ReachP content st'

/-- Every state of such a history satisfies the invariant. -/
theorem reachP_good {content : Id → Int → Int → Cell} {st : St} (h : ReachP content st) : GoodQ content st := by
  induction h with
  | init content lines cols pen hl hc => exact goodQ_init content lines cols pen hl hc
  | op _ hstep ih => exact opStep_good hstep ih
  | flush beh st' shots _ hrep hf ih => exact (goodQ_flush_pen beh _ _ st' shots hf hrep ih).1
  | flushX beh behExp st' shots _ hrep hf ih => exact (goodQ_flushX_pen beh behExp _ _ st' shots hf hrep ih).1

/-- Every history of `Reach` is one of `ReachP`: handlers that repaint whatever pen they find do so with the pen they
    inherit. -/
theorem reach_reachP {content : Id → Int → Int → Cell} {beh : Id → Rect → List DrawOp} {st : St}
    (h : Reach content beh st) : ReachP content st := by
  induction h with
  | init content beh lines cols pen hl hc _ => exact ReachP.init content lines cols pen hl hc
  | tree op st' _ hop hrun ih => exact ReachP.op ih (OpStep.tree op st' hop hrun)
  | expose id e t' _ he ih => exact ReachP.op ih (OpStep.expose id e t' he)
  | scroll oracle win rect d r pen st' ret content' beh' _ hs hc _ ih =>
    exact ReachP.op ih (OpStep.scroll oracle win rect d r pen st' ret content' hs hc)
  | scrollch oracle win w d r st' ret content' beh' _ hw hs hc _ ih =>
    exact ReachP.op ih (OpStep.scrollch oracle win w d r st' ret content' hw hs hc)
  | flush st' shots hr hf ih =>
    exact ReachP.flush _ st' shots ih (repaintsP_of_repaints (reach_good hr).2 _ _) hf
  | flushX behExp st' shots hr hf ih =>
    exact ReachP.flushX _ behExp st' shots ih (repaintsP_of_repaints (reach_good hr).2 _ _) hf

/-- **`C01_full_pen`**: `C01_full` for handlers that rely on the pen they inherit.  After any history (the operations of
    `C01_full`; at each earlier flush the handlers run then satisfied the pen-aware proviso), a flush whose handlers
    repaint the area they are asked to *when the buffer carries the merged pen of their window* — the window pens laid
    over each other down the parent chain, which is what `_do_expose` hands them — leaves every owned terminal cell
    showing what its owner paints there, and nothing pending. -/
theorem C01_full_pen {content : Id → Int → Int → Cell} {beh : Id → Rect → List DrawOp} {st : St} (hreach : ReachP content st)
    (hrep : RepaintsP st.tree st.pens content beh) (st' : St) (shots : List Shot)
    (h : WinFlush.flush beh st = .ok (st', shots)) :
    Exact content st'.tree st'.screen ∧ st'.tree.root.damage = [] ∧ st'.tree.root.changes = [] := by
  obtain ⟨_, h1, h2, h3⟩ := goodQ_flush_pen beh content st st' shots h hrep (reachP_good hreach)
  exact ⟨h1, h3, h2⟩

/-- The same for a flush whose handlers call `tickit_window_expose` while it runs. -/
theorem C01_full_pen_handlers_expose {content : Id → Int → Int → Cell} {beh : Id → Rect → List DrawOp} {st : St}
    (hreach : ReachP content st) (hrep : RepaintsP st.tree st.pens content beh)
    (behExp : Id → Rect → List (Id × Option Rect)) (st' : St) (shots : List Shot)
    (h : WinFlush.flushX beh behExp st = .ok (st', shots)) : Exact content st'.tree st'.screen :=
  (goodQ_flushX_pen beh behExp content st st' shots h hrep (reachP_good hreach)).2

/-- And every handler invocation of such a flush does find the merged pen of its window. -/
theorem handlers_find_merged_pen {content : Id → Int → Int → Cell} {st : St} (hreach : ReachP content st)
    (beh : Id → Rect → List DrawOp) (st' : St) (shots : List Shot) (h : WinFlush.flush beh st = .ok (st', shots)) :
    ∀ sh ∈ shots, sh.rb.pen = mergedPen st.tree st.pens (st.tree.wins.size + 1) sh.win :=
  flush_shots_pen beh content st st' shots h (reachP_good hreach)

/-! #### non-vacuity: a handler that relies on inheritance -/

/-- A handler that only erases the rectangle it is handed: what shows is a blank in whatever pen it inherits. -/
def inheritBeh : Id → Rect → List DrawOp := fun _ rect => [.eraseRect rect]

theorem reachP_runTreeOps {content : Id → Int → Int → Cell} :
    ∀ (ops : List TreeOp) (st st' : St), ReachP content st → (∀ op ∈ ops, op.Ok) → runTreeOps st ops = .ok st' →
    ReachP content st' := by
  intro ops
  induction ops with
  | nil => intro st st' r _ h; simp only [runTreeOps] at h; cases h; exact r
  | cons op ops ih =>
    intro st st' r hok h
    simp only [runTreeOps, bind, Bind.bind] at h
    cases h1 : runTreeOp st op with
    | ub e => rw [h1] at h; cases h
    | ok st1 =>
      rw [h1] at h
      exact ih st1 st' (ReachP.op r (OpStep.tree op st1 (hok op List.mem_cons_self) h1))
        (fun o ho => hok o (List.mem_cons_of_mem _ ho)) h

/-- Root window with a background colour, a child without a pen of its own, a grandchild with a foreground colour. -/
def penOps : List TreeOp :=
  [ .newWindow 0 ⟨1, 1, 2, 4⟩ false false false false none,
    .newWindow 1 ⟨0, 1, 1, 2⟩ false false false false (some { fg := some 3 }) ]

def penState : St :=
  match runTreeOps (St.init 4 8 (some { bg := some 1 })) penOps with
  | .ok st => st
  | .ub _ => {}

/-- What the windows of `penState` show under `inheritBeh`: blanks in their merged pens. -/
def inheritContent : Id → Int → Int → Cell :=
  fun w _ _ => Cell.blank (mergedPen penState.tree penState.pens (penState.tree.wins.size + 1) w)

/-- An erase-only handler satisfies the pen-aware proviso for "a blank in the merged pen", on every tree. -/
theorem inherit_repaintsP (t : Tree) (pens : Array (Option Pen)) :
    RepaintsP t pens (fun w _ _ => Cell.blank (mergedPen t pens (t.wins.size + 1) w)) inheritBeh := by
  intro w rect rb L C hpen hw hm
  show (rb.eraseRect rect).cells L C = _
  simp only [RB.eraseRect, RB.putRect]
  rw [if_pos ⟨by rw [memb_translate]; exact hm, hw⟩, hpen]

/-- … but not `Repaints`: handed a buffer with another pen, it leaves a blank in that pen. -/
theorem inherit_not_repaints : ¬ Repaints inheritContent inheritBeh := by
  intro h
  have h0 := h 0 ⟨0, 0, 1, 1⟩ (RB.new 1 1) 0 0 (by decide +kernel) (by decide +kernel)
  have hl : ((RB.new 1 1).run (inheritBeh 0 ⟨0, 0, 1, 1⟩)).cells 0 0 = some (.plain (Cell.blank {})) := by
    show ((RB.new 1 1).eraseRect ⟨0, 0, 1, 1⟩).cells 0 0 = _
    simp only [RB.eraseRect, RB.putRect]
    rw [if_pos ⟨by decide +kernel, by decide +kernel⟩]
    rfl
  rw [hl] at h0
  simp only [Option.some.injEq, CellV.plain.injEq] at h0
  have hb : (inheritContent 0 (0 - (RB.new 1 1).xl) (0 - (RB.new 1 1).xc)).bg = 1 := by decide +kernel
  rw [← h0] at hb
  exact absurd hb (by decide)

/-- The hypotheses of `C01_full_pen` are jointly satisfiable by a handler that is **not** covered by `C01_full`: the
    history `penOps` is a `ReachP` derivation, `inheritBeh` satisfies the pen-aware proviso in its final state and not
    `Repaints`, and the flush succeeds — after which (by the theorem, and checked here) the grandchild's cell shows its
    own foreground over the root's background, inherited through a window without a pen. -/
example : ∃ (st st' : St) (shots : List Shot), ReachP inheritContent st ∧
    RepaintsP st.tree st.pens inheritContent inheritBeh ∧ ¬ Repaints inheritContent inheritBeh ∧
    WinFlush.flush inheritBeh st = .ok (st', shots) ∧
    st'.screen 1 2 = ⟨32, 3, 1, false, false⟩ ∧ st'.screen 1 1 = ⟨32, -1, 1, false, false⟩ ∧ st'.screen 0 0 = ⟨32, -1, 1, false, false⟩ := by
  have hok : ∀ op ∈ penOps, op.Ok := by
    intro op hop
    simp only [penOps, List.mem_cons, List.mem_nil_iff, or_false] at hop
    rcases hop with rfl | rfl <;> trivial
  have hrun : isOk (runTreeOps (St.init 4 8 (some { bg := some 1 })) penOps) = true := by decide +kernel
  have hreach : ReachP inheritContent penState := by
    cases h1 : runTreeOps (St.init 4 8 (some { bg := some 1 })) penOps with
    | ub e => rw [h1] at hrun; cases hrun
    | ok st =>
      have : penState = st := by unfold penState; rw [h1]
      rw [this]
      exact reachP_runTreeOps penOps _ st (ReachP.init _ 4 8 _ (by decide) (by decide)) hok h1
  have hfl : isOk (WinFlush.flush inheritBeh penState) = true := by decide +kernel
  have hscr : (match WinFlush.flush inheritBeh penState with
      | .ok r => (r.1.screen 1 2, r.1.screen 1 1, r.1.screen 0 0)
      | .ub _ => (Cell.never, Cell.never, Cell.never)) = (⟨32, 3, 1, false, false⟩, ⟨32, -1, 1, false, false⟩, ⟨32, -1, 1, false, false⟩) := by
    decide +kernel
  cases h2 : WinFlush.flush inheritBeh penState with
  | ub e => rw [h2] at hfl; cases hfl
  | ok r =>
    rw [h2] at hscr
    simp only [Prod.mk.injEq] at hscr
    exact ⟨penState, r.1, r.2, hreach, inherit_repaintsP _ _, inherit_not_repaints, h2, hscr.1, hscr.2.1, hscr.2.2⟩

/-- `flush_exact_pen`'s hypotheses hold of the tree of `penState` (with `inheritBeh`, which `flush_exact` does not
    cover). -/
example : ∃ st' shots, flushRender inheritBeh penState penState.tree = .ok (st', shots) ∧ RootOk penState.tree ∧
    Flagged penState.tree ∧ WFp penState.tree ∧ RootWin penState.tree ∧
    RepaintsP penState.tree penState.pens inheritContent inheritBeh := by
  have hrun : isOk (runTreeOps (St.init 4 8 (some { bg := some 1 })) penOps) = true := by decide +kernel
  have hg : GoodQ inheritContent penState := by
    cases h1 : runTreeOps (St.init 4 8 (some { bg := some 1 })) penOps with
    | ub e => rw [h1] at hrun; cases hrun
    | ok st =>
      have : penState = st := by unfold penState; rw [h1]
      rw [this]
      exact reachP_good (reachP_runTreeOps penOps _ st (ReachP.init _ 4 8 _ (by decide) (by decide))
        (by intro op hop
            simp only [penOps, List.mem_cons, List.mem_nil_iff, or_false] at hop
            rcases hop with rfl | rfl <;> trivial) h1)
  have hfl : isOk (flushRender inheritBeh penState penState.tree) = true := by decide +kernel
  have hvis : RootVisible penState.tree := by
    intro w hw
    have : (penState.tree.wins[0]?).map (fun w => w.isVisible) = some true := by decide +kernel
    rw [hw] at this
    simpa using this
  cases h2 : flushRender inheritBeh penState penState.tree with
  | ub e => rw [h2] at hfl; cases hfl
  | ok r =>
    exact ⟨r.1, r.2, rfl, rootOk_of_visible hg.tinv.ok hvis, fun hd => (hg.flags hd).1, hg.tinv.ok.wf, hg.tinv.ok.rootWin,
      inherit_repaintsP _ _⟩

/-! ### resizing the library's mock terminal (`tickit_mockterm_resize`)

  The second harness configuration judges "no stale or misplaced cell survives a flush" on the cells of the library's own
  mock terminal, also across `tickit_mockterm_resize`.  `Proof/WinMockResize.lean` models that function on the driver's cell
  grid in the order of its statements; the theorems below say it is the resize `termResize` (and with it `Reach.resize`,
  `C01_full`) is about. -/

/-- **`tickit_mockterm_resize` is the terminal resize of the model**: a mock terminal that displays the model's screen and
    is resized with the default pen in force displays `resizedScreen` — the screen `termResize` continues with — at every
    cell of the new size, for every old and new size (wider or narrower, taller or shorter, more columns than lines or
    fewer). -/
theorem mock_resize_is_model_resize (st : St) (m : Mock) (hf : m.Full) (hml : m.lines = st.tlines) (hmc : m.cols = st.tcols)
    (hl0 : 0 ≤ st.tlines) (hc0 : 0 ≤ st.tcols) (hb : m.blank = Cell.never)
    (hs : ∀ l c, 0 ≤ l → l < st.tlines → 0 ≤ c → c < st.tcols → m.display l c = st.screen l c)
    (nl nc : Int) (l c : Int) (h0 : 0 ≤ l) (h1 : l < nl) (h2 : 0 ≤ c) (h3 : c < nc) :
    (m.resize nl nc).display l c = resizedScreen st nl nc l c :=
  mockResize_screen st m hf hml hmc hl0 hc0 hb hs nl nc l c h0 h1 h2 h3

/-- **Every cell inside both the old and the new size is kept by the resize** (the window layer exposes only the strips
    the terminal gained, so these cells are not repainted by the next flush: they have to be right already), and the
    resized terminal has no unallocated cell. -/
theorem mock_resize_keeps_shared_cells (m : Mock) (hf : m.Full) (hl0 : 0 ≤ m.lines) (hc0 : 0 ≤ m.cols) (nl nc : Int) :
    (∀ l c, 0 ≤ l → l < min m.lines nl → 0 ≤ c → c < min m.cols nc → (m.resize nl nc).display l c = m.display l c) ∧
    (m.resize nl nc).Full :=
  ⟨fun l c h0 h1 h2 h3 => mockResize_keeps_shared m hf hl0 hc0 nl nc l c h0 h1 h2 h3, mockResize_full m hf hl0 hc0 nl nc⟩

/-- Non-vacuity: 2 lines of 5 columns (more columns than lines) showing `A B C D E`, made 3 × 7: line 1 keeps all five
    letters and gains two blanks. -/
theorem mock_resize_demo :
    ((List.range 7).map fun (c : Nat) => ((demoMock.resize 3 7).display 1 (c : Int)).glyph) = [65, 66, 67, 68, 69, 32, 32] := by
  decide

/-! ### facts regenerated from the C source on every run -/

/-- `HierarchyChangeType` has the seven kinds the model's `WinTree.Change` mirrors, in this order. -/
theorem gen_hierarchy_kinds :
    Gen.Win.hierarchyKinds = ["INSERT_FIRST", "INSERT_LAST", "REMOVE", "RAISE", "RAISE_FRONT", "LOWER", "LOWER_BACK"] := by
  decide

/-- `TickitRect outside[N]` in `_scrollrectset` holds everything `tickit_rect_subtract` can return. -/
theorem scroll_outside_fits (a b : Rect) (ha : a.Nonempty) (hb : b.Nonempty) :
    (Rect.subtract a b).length ≤ Gen.Win.outsideCap :=
  Nat.le_trans (Props.C06.subtract_spec a b ha hb).1 (by decide)

end Tickit.Props.C01
