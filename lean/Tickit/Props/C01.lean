import Tickit.Model.WinFlush
import Tickit.Model.WinSpec
namespace Tickit.Props.C01
end Tickit.Props.C01
