import Tickit.Proof.InputXlate
import Tickit.Gen.InputXlate
/-
  C20 — Decoded input events do not depend on how the byte stream is fragmented.

  The model (`Model/InputXlate.lean`) is `got_key`, `get_keys`, `tickit_term_input_push_bytes` and the
  timeout functions of src/term.c over an abstract `Tokenizer` (libtermkey is modelled, not verified: the
  property itself trusts it).  Every theorem is universally quantified (all tokenizers obeying the law, all
  key sequences, all masks, all cuttings); the `example`s show that hypotheses are inhabited.

  Two clauses are false of the unchanged code.  For each: the full statement as a `def … : Prop`, the
  counterexample theorem for the unrepaired shape of the code, the theorem under the hypothesis that
  excludes the trigger, and the full theorem for the repaired shape.  Which shape the working tree has is
  read from the source on every run (`Gen.InputXlate.pushLoops`, `.dropUnknownMouse`); all four theorems are
  stated for an arbitrary `cfg`, so they stay valid whichever way the source goes.
-/
namespace Tickit.Props.C20
open Tickit Tickit.InputXlate

/-! ### G: the constants and literals of the source are the ones the model uses -/

theorem constants_agree :
    Gen.InputXlate.MOUSEEV_PRESS = MOUSEEV_PRESS ∧ Gen.InputXlate.MOUSEEV_DRAG = MOUSEEV_DRAG ∧
    Gen.InputXlate.MOUSEEV_RELEASE = MOUSEEV_RELEASE ∧ Gen.InputXlate.MOUSEEV_WHEEL = MOUSEEV_WHEEL ∧
    Gen.InputXlate.MOUSEWHEEL_UP = MOUSEWHEEL_UP ∧ Gen.InputXlate.MOUSEWHEEL_DOWN = MOUSEWHEEL_UP + 1 ∧
    Gen.InputXlate.KEYEV_KEY = KEYEV_KEY ∧ Gen.InputXlate.KEYEV_TEXT = KEYEV_TEXT ∧
    Gen.InputXlate.TERMKEY_MOUSE_UNKNOWN = TERMKEY_MOUSE_UNKNOWN ∧
    Gen.InputXlate.TERMKEY_MOUSE_PRESS = TERMKEY_MOUSE_PRESS ∧
    Gen.InputXlate.TERMKEY_MOUSE_DRAG = TERMKEY_MOUSE_DRAG ∧
    Gen.InputXlate.TERMKEY_MOUSE_RELEASE = TERMKEY_MOUSE_RELEASE ∧
    Gen.InputXlate.wheelFirstButton = WHEEL_FIRST_BUTTON ∧ Gen.InputXlate.wheelOffsetBase = WHEEL_FIRST_BUTTON ∧
    Gen.InputXlate.releaseLoopStart = RELEASE_LOOP_START ∧ Gen.InputXlate.positionDecrement = 1 ∧
    Gen.InputXlate.heldMaskShiftLimit = INT_SHIFT_LIMIT ∧
    Gen.InputXlate.MSEC = MSEC ∧ Gen.InputXlate.SECOND = SECOND := by decide

/-- `info.mod = key->modifiers` is copied unchanged: the two libraries number the modifiers alike. -/
theorem modifiers_agree :
    Gen.InputXlate.MOD_SHIFT = Gen.InputXlate.TERMKEY_KEYMOD_SHIFT ∧
    Gen.InputXlate.MOD_ALT = Gen.InputXlate.TERMKEY_KEYMOD_ALT ∧
    Gen.InputXlate.MOD_CTRL = Gen.InputXlate.TERMKEY_KEYMOD_CTRL := by decide

/-- The model instantiated with what the extractor read in the working tree. -/
def sourceCfg : Cfg :=
  { pushLoops := Gen.InputXlate.pushLoops, dropUnknownMouse := Gen.InputXlate.dropUnknownMouse }

/-! ### text and keys -/

/-- Printable text arrives as a text event carrying exactly its UTF-8. -/
theorem text_event_exact (cfg : Cfg) (fuel held : Nat) (utf8 name : List UInt8) :
    gotKey cfg fuel held (.unicode 0 utf8 name) = .ok (held, [Event.key KEYEV_TEXT 0 utf8]) := by
  simp [gotKey]

/-- Named and modified keys arrive as key events carrying the tokenizer's name and modifiers. -/
theorem key_event_exact (cfg : Cfg) (fuel held : Nat) (mods : Int) (utf8 name : List UInt8) :
    gotKey cfg fuel held (.function mods name) = .ok (held, [Event.key KEYEV_KEY mods name]) ∧
    gotKey cfg fuel held (.keysym mods name) = .ok (held, [Event.key KEYEV_KEY mods name]) ∧
    (mods ≠ 0 → gotKey cfg fuel held (.unicode mods utf8 name) = .ok (held, [Event.key KEYEV_KEY mods name])) := by
  refine ⟨by simp [gotKey], by simp [gotKey], fun h => by simp [gotKey, h]⟩

example : gotKey {} 64 0 (.unicode 0 [0xc4, 0x89] [0xc4, 0x89]) = .ok (0, [Event.key 2 0 [0xc4, 0x89]]) := by decide

/-! ### mouse: positions, modifiers, kinds -/

/-- Every event emitted for a mouse report (also each of the releases of a button-less release) carries
    the reported position minus one — the tokenizer is 1-based, the events 0-based — and the report's
    modifiers. -/
theorem positions_zero_based (cfg : Cfg) (fuel held : Nat) (ev button line col mods : Int) (r : Nat × List Event)
    (h : gotKey cfg fuel held (.mouse ev button line col mods) = .ok r) :
    ∀ e ∈ r.2, ∃ t b, e = Event.mouse t b (line - 1) (col - 1) mods := by
  intro e he
  obtain ⟨t, b, hb, _⟩ := gotKey_mouse_events cfg fuel held ev button line col mods r h e he
  exact ⟨t, b, hb⟩

example : gotKey {} 64 0 (.mouse TERMKEY_MOUSE_PRESS 1 24 80 4) = .ok (2, [Event.mouse MOUSEEV_PRESS 1 23 79 4]) := by
  decide

/-- The clause "mouse reports arrive as press/drag/release/wheel", in full. -/
def MouseKindsFull (cfg : Cfg) : Prop :=
  ∀ (fuel held : Nat) (ev button line col mods : Int) (r : Nat × List Event),
    gotKey cfg fuel held (.mouse ev button line col mods) = .ok r →
    ∀ e ∈ r.2, ∃ t b l c m, e = Event.mouse t b l c m ∧
      (t = MOUSEEV_PRESS ∨ t = MOUSEEV_DRAG ∨ t = MOUSEEV_RELEASE ∨ t = MOUSEEV_WHEEL)

/-- It fails while the `default:` arm of `switch(ev)` falls through: a report the tokenizer cannot
    classify (SGR button code 66) becomes an event of type −1. -/
theorem mouse_kinds_counterexample (cfg : Cfg) (h : cfg.dropUnknownMouse = false) : ¬ MouseKindsFull cfg := by
  intro hfull
  have hg : gotKey cfg 0 0 (.mouse TERMKEY_MOUSE_UNKNOWN 0 2 2 0) = .ok (0, [Event.mouse (-1) 0 1 1 0]) := by
    rw [gotKey_mouse_unknown cfg 0 0 _ 0 2 2 0 (by decide) (by decide) (by decide), h]
    rfl
  obtain ⟨t, b, l, c, m, he, ht⟩ := hfull 0 0 _ 0 2 2 0 _ hg _ (List.mem_singleton.2 rfl)
  cases he
  revert ht
  decide

/-- It holds for every report the tokenizer does classify … -/
theorem mouse_kinds_partial (cfg : Cfg) (fuel held : Nat) (ev button line col mods : Int) (r : Nat × List Event)
    (hk : (Key.mouse ev button line col mods).KnownKind)
    (h : gotKey cfg fuel held (.mouse ev button line col mods) = .ok r) :
    ∀ e ∈ r.2, ∃ t b l c m, e = Event.mouse t b l c m ∧
      (t = MOUSEEV_PRESS ∨ t = MOUSEEV_DRAG ∨ t = MOUSEEV_RELEASE ∨ t = MOUSEEV_WHEEL) := by
  intro e he
  obtain ⟨t, b, hb, hkind⟩ := gotKey_mouse_events cfg fuel held ev button line col mods r h e he
  refine ⟨t, b, _, _, _, hb, ?_⟩
  rcases hkind with hkind | ⟨_, _, h1, h2, h3⟩
  · exact hkind
  · rcases hk with hk | hk | hk
    · exact absurd hk h1
    · exact absurd hk h2
    · exact absurd hk h3

/-- … and in full once the `default:` arm returns (fixes/C20_unknown_mouse_event.patch). -/
theorem mouse_kinds_fixed (cfg : Cfg) (h : cfg.dropUnknownMouse = true) : MouseKindsFull cfg := by
  intro fuel held ev button line col mods r hg e he
  obtain ⟨t, b, hb, hkind⟩ := gotKey_mouse_events cfg fuel held ev button line col mods r hg e he
  refine ⟨t, b, _, _, _, hb, ?_⟩
  rcases hkind with hkind | ⟨_, hf, _⟩
  · exact hkind
  · rw [h] at hf; cases hf

/-- What the working tree does (regenerated on every run). -/
theorem mouse_kinds_source : MouseKindsFull sourceCfg ↔ Gen.InputXlate.dropUnknownMouse = true := by
  constructor
  · intro hfull
    cases hd : Gen.InputXlate.dropUnknownMouse
    · exact absurd hfull (mouse_kinds_counterexample sourceCfg hd)
    · rfl
  · exact fun h => mouse_kinds_fixed sourceCfg h

/-! ### the held-button record -/

/-- A release that names no button is reported once for each button currently held (ascending), for no
    other, and the record is empty afterwards.  (`MaskInv`: the mask fits an `int` and bit 0 is clear —
    invariant, see `held_mask_inv`.) -/
theorem release_all_held (cfg : Cfg) (fuel held : Nat) (hfuel : 30 ≤ fuel) (hinv : MaskInv held)
    (line col mods : Int) :
    gotKey cfg fuel held (.mouse TERMKEY_MOUSE_RELEASE 0 line col mods) =
      .ok (0, (heldButtons held).map fun (b : Nat) => Event.mouse MOUSEEV_RELEASE (Int.ofNat b) (line - 1) (col - 1) mods) ∧
    (∀ b, b ∈ heldButtons held ↔ held.testBit b = true) ∧
    (heldButtons held).Pairwise (· < ·) := by
  obtain ⟨hfit, hbit0⟩ := hinv
  refine ⟨?_, ?_, ?_⟩
  · rw [gotKey_mouse_release_all,
      releaseLoop_ok (line - 1) (col - 1) mods fuel RELEASE_LOOP_START held hfit
        (by intro i hi; have : i = 0 := by unfold RELEASE_LOOP_START at hi; omega
            subst this; exact hbit0)
        (by decide) (by unfold RELEASE_LOOP_START INT_SHIFT_LIMIT; omega)]
    rw [heldButtons_eq_tail hbit0]
    rfl
  · intro b
    rw [mem_heldButtons]
    constructor
    · exact fun h => h.2
    · intro h
      refine ⟨?_, h⟩
      apply Nat.lt_of_not_le
      intro hge
      rw [hfit.testBit_false hge] at h
      cases h
  · unfold heldButtons
    exact List.Pairwise.filter _ (List.pairwise_lt_range' 1)

example : MaskInv 0b1010 ∧
    gotKey {} 30 0b1010 (.mouse TERMKEY_MOUSE_RELEASE 0 1 1 0) =
      .ok (0, [Event.mouse MOUSEEV_RELEASE 1 0 0 0, Event.mouse MOUSEEV_RELEASE 3 0 0 0]) := by
  refine ⟨⟨by unfold Fits; decide, by decide⟩, by decide⟩

/-- From a fresh terminal, for every sequence of keys the tokenizer may deliver (`Key.WF`: buttons 0..30,
    a press or drag names a button): `got_key` never shifts out of range and the X10 loop never runs out
    (no `ub`, no `outOfFuel`); the mask fits an `int`, bit 0 is never set, and the buttons recorded in
    it are exactly the specification's set — those pressed or dragged and not released since; and the
    events are exactly the specification's unless a report of unknown kind meets the unrepaired
    `default:` arm. -/
theorem held_mask_inv (cfg : Cfg) (fuel : Nat) (hfuel : 30 ≤ fuel)
    (hcb : cfg.onModereport = true ∧ cfg.onDecrqss = true) (keys : List Key) (hwf : ∀ k ∈ keys, k.WF) :
    ∃ held evs, runKeys cfg fuel 0 keys = .ok (held, evs) ∧
      MaskInv held ∧ heldButtons held = (Spec.run [] keys).1 ∧
      ((cfg.dropUnknownMouse = true ∨ ∀ k ∈ keys, k.KnownKind) → evs = (Spec.run [] keys).2) := by
  have := runKeys_refines cfg fuel (by unfold INT_SHIFT_LIMIT; omega) hcb keys 0 maskInv_zero hwf
  rw [heldButtons_zero] at this
  exact this

/-- The record returns to empty when all buttons are released: an empty set is the mask 0. -/
theorem mask_empty_when_all_released (held : Nat) (hinv : MaskInv held) (h : heldButtons held = []) : held = 0 := by
  apply eq_zero_of_testBit
  intro i
  cases hb : held.testBit i
  · rfl
  · have : i ∈ heldButtons held := by
      rw [mem_heldButtons]
      refine ⟨?_, hb⟩
      apply Nat.lt_of_not_le
      intro hge
      rw [hinv.1.testBit_false hge] at hb
      cases hb
    rw [h] at this
    cases this

example :
    let keys := [Key.mouse TERMKEY_MOUSE_PRESS 1 5 5 0, Key.mouse TERMKEY_MOUSE_DRAG 3 5 6 0,
                 Key.mouse TERMKEY_MOUSE_RELEASE 1 5 6 0, Key.mouse TERMKEY_MOUSE_PRESS 4 5 6 0]
    (∀ k ∈ keys, k.WF) ∧ (Spec.run [] keys).1 = [3] ∧ (runKeys {} 30 0 keys).map (·.1) = .ok 8 := by
  refine ⟨by decide, by decide, by decide⟩

/-! ### termination of the X10 release loop -/

/-- The loop `for(info.button = 1; tt->mouse_buttons_held; info.button++)` terminates, with the mask
    empty, for every mask that fits an `int` and has bit 0 clear — with at most 30 iterations. -/
theorem release_loop_terminates (line col mods : Int) (fuel held : Nat) (hfuel : 30 ≤ fuel)
    (hinv : MaskInv held) :
    ∃ evs, releaseLoop line col mods fuel RELEASE_LOOP_START held = .ok (0, evs) :=
  ⟨_, releaseLoop_ok line col mods fuel RELEASE_LOOP_START held hinv.1
    (by intro i hi; have : i = 0 := by unfold RELEASE_LOOP_START at hi; omega
        subst this; exact hinv.2)
    (by decide) (by unfold RELEASE_LOOP_START INT_SHIFT_LIMIT; omega)⟩

/-- If bit 0 were ever set the loop could not terminate: the mask never becomes empty and the shift count
    runs into `1 << 31` (undefined).  So the suspicion of DESIGN.md is right about the loop … -/
theorem release_loop_diverges_if_bit0 (line col mods : Int) (fuel held : Nat) (h0 : held.testBit 0 = true) :
    (∀ r, releaseLoop line col mods fuel RELEASE_LOOP_START held ≠ .ok r) ∧
    (31 ≤ fuel → ∃ w, releaseLoop line col mods fuel RELEASE_LOOP_START held = .ub w) :=
  ⟨releaseLoop_bit0_not_ok line col mods fuel RELEASE_LOOP_START held h0 (by decide),
   fun hf => releaseLoop_bit0_ub line col mods fuel RELEASE_LOOP_START held h0 (by decide) (by omega)
     (by unfold RELEASE_LOOP_START INT_SHIFT_LIMIT; omega)⟩

example : releaseLoop 0 0 0 64 RELEASE_LOOP_START 1 =
    .ub "1 << info.button with info.button >= 31 in the X10 release loop" := by decide

/-- … but bit 0 cannot be set: only a press or drag of button 0 would, and the tokenizer never reports
    one (`Key.WF`, checked on every key the harness logs).  Stated for one key; `held_mask_inv` is the
    induction. -/
theorem bit0_never_set (cfg : Cfg) (fuel held : Nat) (hfuel : 30 ≤ fuel) (hinv : MaskInv held) (k : Key) (hwf : k.WF)
    (hcb : cfg.onModereport = true ∧ cfg.onDecrqss = true) :
    ∃ held' evs, gotKey cfg fuel held k = .ok (held', evs) ∧ held'.testBit 0 = false := by
  obtain ⟨h', e', hg, hinv', _⟩ := gotKey_refines cfg fuel (by unfold INT_SHIFT_LIMIT; omega) held hinv k hwf hcb
  exact ⟨h', e', hg, hinv'.2⟩

/-- The hypothesis `Key.WF` cannot be dropped: a (hypothetical) press of button 0 sets bit 0, and the next
    button-less release runs into the undefined shift. -/
theorem press_of_button_zero_counterexample :
    ¬ (Key.mouse TERMKEY_MOUSE_PRESS 0 1 1 0).WF ∧
    runKeys {} 64 0 [Key.mouse TERMKEY_MOUSE_PRESS 0 1 1 0, Key.mouse TERMKEY_MOUSE_RELEASE 0 1 1 0] =
      .ub "1 << info.button with info.button >= 31 in the X10 release loop" := by
  refine ⟨by decide, by decide⟩

/-! ### fragmentation independence -/

/-- C20's main clause over an abstract tokenizer obeying `Incremental`: pushing a stream in any pieces
    (no timeout forced in between) gives the same events, the same held-button mask, the same tokenizer
    state and the same armed-ness of the inter-byte timeout as pushing it whole, *provided the whole is
    accepted by one `termkey_push_bytes`* — the unchanged `tickit_term_input_push_bytes` does not look at
    the count (`cfg.pushLoops = false`).  Outcomes are compared as outcomes: if `got_key` runs into
    undefined behaviour for one way of cutting it does so for all. -/
theorem fragmentation_independent (T : Tokenizer) (hI : T.Incremental) (cfg : Cfg) (hc : cfg.pushLoops = false)
    (fuel : Nat) (now : TimeVal) (hnow : 0 ≤ now.sec) (tt : Term T) (p : List UInt8) (ps : List (List UInt8))
    (hacc : T.Accepts tt.tk (p :: ps).flatten) :
    (pushPieces T cfg fuel now tt (p :: ps)).map pushObs =
      (inputPushBytes T cfg fuel now tt (p :: ps).flatten).map pushObs := by
  have hwhole : (inputPushBytes T cfg fuel now tt (p :: ps).flatten).map pushObs =
      semObs T cfg fuel tt (T.feed tt.tk (p :: ps).flatten) := by
    simp only [inputPushBytes, hc, Bool.false_eq_true, if_false, inputPushBytesOnce_eq]
    exact pushSem_obs T cfg fuel now hnow tt _
  rw [hwhole, pushPieces_obs T cfg hc fuel now hnow ps p tt]
  congr 1
  -- tokenizer level: feeding the pieces is feeding the whole, by induction over the pieces
  have key : ∀ (ps : List (List UInt8)) (p : List UInt8) (s : T.σ), T.Accepts s (p :: ps).flatten →
      feedPieces T s p ps = T.feed s (p :: ps).flatten := by
    intro ps
    induction ps with
    | nil => intro p s _; simp [feedPieces]
    | cons q qs ih =>
      intro p s hacc
      simp only [List.flatten_cons] at hacc ih ⊢
      obtain ⟨_, h2, h3⟩ := hI.split s p (q ++ qs.flatten) hacc
      simp only [feedPieces]
      rw [ih q _ h2, h3]
  exact key ps p tt.tk hacc

/-- Any two ways of cutting the same stream into non-empty pieces agree, as long as every single push is
    accepted in full — the whole need not fit the tokenizer's buffer. -/
theorem any_two_fragmentations_agree (T : Tokenizer) (hI : T.Incremental) (cfg : Cfg) (hc : cfg.pushLoops = false)
    (fuel : Nat) (now : TimeVal) (hnow : 0 ≤ now.sec) (tt : Term T)
    (c : List UInt8) (cs : List (List UInt8)) (d : List UInt8) (ds : List (List UInt8))
    (hflat : (c :: cs).flatten = (d :: ds).flatten)
    (hnc : ∀ p ∈ c :: cs, p ≠ []) (hnd : ∀ p ∈ d :: ds, p ≠ [])
    (hac : AcceptedRun T tt.tk c cs) (had : AcceptedRun T tt.tk d ds) :
    (pushPieces T cfg fuel now tt (c :: cs)).map pushObs = (pushPieces T cfg fuel now tt (d :: ds)).map pushObs := by
  rw [pushPieces_obs T cfg hc fuel now hnow cs c tt, pushPieces_obs T cfg hc fuel now hnow ds d tt,
    chunkings_agree T hI _ tt.tk c cs d ds (Nat.lt_succ_self _) hflat hnc hnd hac had]

/-! #### the law is satisfiable: a concrete CSI / SGR-mouse tokenizer with libtermkey's 256-byte buffer -/

/-- Text bytes, ESC, CSI sequences and SGR-1006 mouse reports over a 256-byte buffer. -/
abbrev exampleTokenizer : Tokenizer := Csi.lexer.tokenizer 256

theorem exampleTokenizer_incremental : exampleTokenizer.Incremental := Csi.lexer.incremental 256

def freshTerm : Term exampleTokenizer := { tk := [], held := 0, timeoutAt := ⟨-1, 0⟩ }

/-- `ESC [ < 0 ; 5 ; 7 M`, `ESC [ < 3 ; 5 ; 7 M`, `a` — cut inside both mouse reports. -/
def examplePieces : List (List UInt8) :=
  [[0x1b, 0x5b, 0x3c, 0x30], [0x3b, 0x35, 0x3b, 0x37, 0x4d, 0x1b], [0x5b, 0x3c, 0x33, 0x3b, 0x35, 0x3b, 0x37, 0x4d, 0x61]]

example : exampleTokenizer.Accepts freshTerm.tk examplePieces.flatten := by decide

example :
    (pushPieces exampleTokenizer {} 64 ⟨1000, 0⟩ freshTerm examplePieces).map pushObs =
      .ok ([], 0, false, [Event.mouse MOUSEEV_PRESS 1 6 4 0, Event.mouse MOUSEEV_RELEASE 1 6 4 0,
                          Event.key KEYEV_TEXT 0 [0x61]]) := by decide

example :
    (pushPieces exampleTokenizer {} 64 ⟨1000, 0⟩ freshTerm examplePieces).map pushObs =
      (inputPushBytes exampleTokenizer {} 64 ⟨1000, 0⟩ freshTerm examplePieces.flatten).map pushObs :=
  fragmentation_independent exampleTokenizer exampleTokenizer_incremental {} rfl 64 ⟨1000, 0⟩ (by decide) freshTerm
    _ _ (by decide)

/-! #### the clause in full: it fails for the unchanged `tickit_term_input_push_bytes`, holds for the repaired one -/

/-- Fragmentation independence without the proviso that the whole fits one `termkey_push_bytes`: for every
    tokenizer obeying `Incremental` and `PartialPush`, every cutting of a stream into non-empty pieces
    gives the same observation as the whole.  `runChunks … .isSome` says that a hand-over loop would never
    stall (the tokenizer never refuses everything while bytes are left: no unfinished sequence as long
    as its whole buffer) — for the unchanged code a proviso without effect, for the repaired code the
    condition under which it hands over every byte. -/
def FragmentationFull (cfg : Cfg) : Prop :=
  ∀ (T : Tokenizer), T.Incremental → T.PartialPush → ∀ (fuel : Nat) (now : TimeVal), 0 ≤ now.sec →
    ∀ (tt : Term T) (p : List UInt8) (ps : List (List UInt8)), (∀ q ∈ p :: ps, q ≠ []) →
      (runChunks T tt.tk [(p :: ps).flatten]).isSome → (runChunks T tt.tk (p :: ps)).isSome →
      (pushPieces T cfg fuel now tt (p :: ps)).map pushObs =
        (inputPushBytes T cfg fuel now tt (p :: ps).flatten).map pushObs

/-- A tokenizer with a 4-byte buffer (libtermkey's has 256): `abc`, `def` pushed one after the other all
    arrive; `abcdef` pushed whole loses `ef`. -/
theorem fragmentation_counterexample (cfg : Cfg) (hc : cfg.pushLoops = false) : ¬ FragmentationFull cfg := by
  intro hfull
  have h := hfull (Csi.lexer.tokenizer 4) (Csi.lexer.incremental 4) (Csi.lexer.partialPush 4) 64 ⟨1000, 0⟩ (by decide)
    { tk := [], held := 0, timeoutAt := ⟨-1, 0⟩ } [0x61, 0x62, 0x63] [[0x64, 0x65, 0x66]] (by decide)
    (by decide) (by decide)
  have hp : ∀ cfg' : Cfg, cfg'.pushLoops = false →
      (pushPieces (Csi.lexer.tokenizer 4) cfg' 64 ⟨1000, 0⟩ { tk := [], held := 0, timeoutAt := ⟨-1, 0⟩ }
        [[0x61, 0x62, 0x63], [0x64, 0x65, 0x66]]).map (fun r => r.2.length) = .ok 6 := by
    intro cfg' hc'
    obtain ⟨a, b, c, d⟩ := cfg'
    simp only at hc'
    subst hc'
    cases a <;> cases b <;> cases d <;> decide
  have hw : ∀ cfg' : Cfg, cfg'.pushLoops = false →
      (inputPushBytes (Csi.lexer.tokenizer 4) cfg' 64 ⟨1000, 0⟩ { tk := [], held := 0, timeoutAt := ⟨-1, 0⟩ }
        [0x61, 0x62, 0x63, 0x64, 0x65, 0x66]).map (fun r => r.2.length) = .ok 4 := by
    intro cfg' hc'
    obtain ⟨a, b, c, d⟩ := cfg'
    simp only at hc'
    subst hc'
    cases a <;> cases b <;> cases d <;> decide
  have h1 := hp cfg hc
  have h2 := hw cfg hc
  have h' : (pushPieces (Csi.lexer.tokenizer 4) cfg 64 ⟨1000, 0⟩ { tk := [], held := 0, timeoutAt := ⟨-1, 0⟩ }
        [[0x61, 0x62, 0x63], [0x64, 0x65, 0x66]]).map (fun r => r.2.length) =
      (inputPushBytes (Csi.lexer.tokenizer 4) cfg 64 ⟨1000, 0⟩ { tk := [], held := 0, timeoutAt := ⟨-1, 0⟩ }
        [0x61, 0x62, 0x63, 0x64, 0x65, 0x66]).map (fun r => r.2.length) := by
    have := congrArg (fun o => Outcome.map (fun (x : List UInt8 × Nat × Bool × List Event) => x.2.2.2.length) o) h
    simp only [List.flatten_cons, List.flatten_nil, List.append_nil, List.cons_append, List.nil_append] at this
    revert this
    cases pushPieces (Csi.lexer.tokenizer 4) cfg 64 ⟨1000, 0⟩ { tk := [], held := 0, timeoutAt := ⟨-1, 0⟩ }
        [[0x61, 0x62, 0x63], [0x64, 0x65, 0x66]] <;>
    cases inputPushBytes (Csi.lexer.tokenizer 4) cfg 64 ⟨1000, 0⟩ { tk := [], held := 0, timeoutAt := ⟨-1, 0⟩ }
        [0x61, 0x62, 0x63, 0x64, 0x65, 0x66] <;>
    simp [Outcome.map, pushObs]
  rw [h1, h2] at h'
  cases h'

/-- Under the hypothesis that excludes exactly the trigger — the whole is accepted by one
    `termkey_push_bytes` — the clause holds for the unchanged code (this is `fragmentation_independent`). -/
theorem fragmentation_partial (cfg : Cfg) (hc : cfg.pushLoops = false) (T : Tokenizer) (hI : T.Incremental)
    (fuel : Nat) (now : TimeVal) (hnow : 0 ≤ now.sec) (tt : Term T) (p : List UInt8) (ps : List (List UInt8))
    (hwhole : T.Accepts tt.tk (p :: ps).flatten) :
    (pushPieces T cfg fuel now tt (p :: ps)).map pushObs =
      (inputPushBytes T cfg fuel now tt (p :: ps).flatten).map pushObs :=
  fragmentation_independent T hI cfg hc fuel now hnow tt p ps hwhole

/-- With fixes/C20_push_bytes_short_count.patch (`cfg.pushLoops = true`: the push hands over what
    `termkey_push_bytes` did not accept, after draining) the clause holds in full. -/
theorem fragmentation_fixed (cfg : Cfg) (hc : cfg.pushLoops = true) : FragmentationFull cfg := by
  intro T hI hP fuel now hnow tt p ps hne hw hp
  -- a single looped push is `pushPieces` of one piece
  have hsingle : inputPushBytes T cfg fuel now tt (p :: ps).flatten =
      pushPieces T cfg fuel now tt [(p :: ps).flatten] := by
    simp only [pushPieces]
    cases inputPushBytes T cfg fuel now tt (p :: ps).flatten <;> simp
  rw [hsingle]
  cases hcw : runChunks T tt.tk [(p :: ps).flatten] with
  | none => rw [hcw] at hw; cases hw
  | some rw' =>
    cases hcp : runChunks T tt.tk (p :: ps) with
    | none => rw [hcp] at hp; cases hp
    | some rp =>
      obtain ⟨hfw, hnw, hnnw, haw, _⟩ := runChunks_spec T hP _ tt.tk rw'.1 rw'.2 (by rw [hcw])
      obtain ⟨hfp, hnp, hnnp, hap, _⟩ := runChunks_spec T hP _ tt.tk rp.1 rp.2 (by rw [hcp])
      rw [pushPieces_loop_eq T hP cfg hc fuel now [(p :: ps).flatten] tt rw'.1 rw'.2 (by rw [hcw]),
        pushPieces_loop_eq T hP cfg hc fuel now (p :: ps) tt rp.1 rp.2 (by rw [hcp])]
      have hflatne : (p :: ps).flatten ≠ [] := by
        simp only [List.flatten_cons]
        intro h0
        exact hne p (by simp) (List.append_eq_nil_iff.1 h0).1
      have hwne : ∀ c ∈ rw'.1, c ≠ [] := hnw (by
        intro q hq
        simp only [List.mem_singleton] at hq
        subst hq; exact hflatne)
      have hpne : ∀ c ∈ rp.1, c ≠ [] := hnp hne
      cases hcs : rw'.1 with
      | nil => exact absurd hcs (hnnw (by simp))
      | cons c cs =>
        cases hds : rp.1 with
        | nil => exact absurd hds (hnnp (by simp))
        | cons d ds =>
          rw [hcs] at hfw hwne haw
          rw [hds] at hfp hpne hap
          rw [pushPiecesOnce_obs T cfg fuel now hnow cs c tt, pushPiecesOnce_obs T cfg fuel now hnow ds d tt,
            chunkings_agree T hI _ tt.tk d ds c cs (Nat.lt_succ_self _)
              (by rw [hfp, hfw]; simp) hpne hwne
              ((acceptedRun_iff T ds tt.tk d).2 hap) ((acceptedRun_iff T cs tt.tk c).2 haw)]

/-- What the working tree does (regenerated on every run). -/
theorem fragmentation_source : FragmentationFull sourceCfg ↔ Gen.InputXlate.pushLoops = true := by
  constructor
  · intro hfull
    cases hd : Gen.InputXlate.pushLoops
    · exact absurd hfull (fragmentation_counterexample sourceCfg hd)
    · rfl
  · exact fun h => fragmentation_fixed sourceCfg h

/-- The hypotheses of `FragmentationFull` are inhabited: the example tokenizer obeys both laws, and a
    300-byte stream of text (more than its 256-byte buffer) pushed whole or in two halves never stalls. -/
example : exampleTokenizer.Incremental ∧ exampleTokenizer.PartialPush ∧
    (runChunks exampleTokenizer freshTerm.tk [List.replicate 300 0x61]).isSome = true ∧
    (runChunks exampleTokenizer freshTerm.tk [List.replicate 150 0x61, List.replicate 150 0x61]).isSome = true :=
  ⟨exampleTokenizer_incremental, Csi.lexer.partialPush 256, by decide +kernel, by decide +kernel⟩

/-- … and there the repaired push delivers all 300 events where the unchanged one delivers 256. -/
example :
    (inputPushBytes exampleTokenizer { pushLoops := true } 64 ⟨1000, 0⟩ freshTerm (List.replicate 300 0x61)).map
      (fun r => r.2.length) = .ok 300 ∧
    (inputPushBytes exampleTokenizer { pushLoops := false } 64 ⟨1000, 0⟩ freshTerm (List.replicate 300 0x61)).map
      (fun r => r.2.length) = .ok 256 := by
  constructor <;> decide +kernel

/-! ### the inter-byte timeout deadline (`TickitTerm.input_timeout_at`) -/

/-- absolute microseconds of a `struct timeval` -/
def us (t : TimeVal) : Int := t.sec * 1000000 + t.usec

/-- After a drain that ends in `TERMKEY_RES_AGAIN`, the deadline is the clock reading plus the tokenizer's
    wait time, as a normalised `timeval`; after any other result it is cleared. -/
theorem timeout_armed_at (t now : TimeVal) (w : Int) (hn : 0 ≤ now.usec ∧ now.usec < 1000000)
    (hw : 0 ≤ w ∧ w * 1000 < 1000000) :
    us (armTimeout t now w Res.again) = us now + w * 1000 ∧
    0 ≤ (armTimeout t now w Res.again).usec ∧ (armTimeout t now w Res.again).usec < 1000000 ∧
    ∀ r, r ≠ Res.again → (armTimeout t now w r).sec = -1 := by
  unfold armTimeout us MSEC SECOND
  simp only [if_true]
  refine ⟨?_, ?_, ?_, ?_⟩
  · split <;> simp only <;> omega
  · split <;> simp only <;> omega
  · split <;> simp only <;> omega
  · intro r hr; simp [hr]

/-- `get_timeout` never fires early: it is 0 (force the pending bytes) exactly when the clock has reached
    the deadline, otherwise the time left rounded up to whole milliseconds; −1 when no deadline is armed. -/
theorem timeout_never_early (d now : TimeVal) (hdn : 0 ≤ d.usec ∧ d.usec < 1000000)
    (hn : 0 ≤ now.usec ∧ now.usec < 1000000) :
    (d.sec = -1 → getTimeout d now = -1) ∧
    (d.sec ≠ -1 → us d ≤ us now → getTimeout d now = 0) ∧
    (d.sec ≠ -1 → us now < us d → getTimeout d now = (us d - us now + 999) / 1000 ∧ 0 < getTimeout d now) := by
  refine ⟨fun h => by simp [getTimeout, h], ?_, ?_⟩
  · intro hd h
    unfold getTimeout us MSEC SECOND at *
    rw [if_neg hd]
    simp only
    by_cases hneg : d.usec - now.usec < 0
    · simp only [hneg, if_true]; rw [if_neg (by omega)]
    · simp only [hneg, if_false]; rw [if_neg (by omega)]
  · intro hd h
    unfold getTimeout us MSEC SECOND at *
    rw [if_neg hd]
    simp only
    by_cases hneg : d.usec - now.usec < 0
    · simp only [hneg, if_true]
      rw [if_pos (by omega), Int.tdiv_eq_ediv_of_nonneg (by omega)]
      omega
    · simp only [hneg, if_false]
      rw [if_pos (by omega), Int.tdiv_eq_ediv_of_nonneg (by omega)]
      omega

example : getTimeout (armTimeout ⟨-1, 0⟩ ⟨1000, 999000⟩ 50 Res.again) ⟨1001, 48999⟩ = 1 ∧
    getTimeout (armTimeout ⟨-1, 0⟩ ⟨1000, 999000⟩ 50 Res.again) ⟨1001, 49000⟩ = 0 := by decide

end Tickit.Props.C20
