import Tickit.Model.InputXlate
import Tickit.Gen.InputXlate
namespace Tickit.Props.C20
open Tickit.InputXlate

/-- The constants the model uses are the ones the headers define now. -/
theorem constants_agree :
    Gen.InputXlate.MOUSEEV_PRESS = MOUSEEV_PRESS ∧ Gen.InputXlate.MOUSEEV_DRAG = MOUSEEV_DRAG ∧
    Gen.InputXlate.MOUSEEV_RELEASE = MOUSEEV_RELEASE ∧ Gen.InputXlate.MOUSEEV_WHEEL = MOUSEEV_WHEEL := by decide

end Tickit.Props.C20
