import Tickit.Model.Bindings
import Tickit.Gen.Bindings
namespace Tickit.Props.C16
open Tickit.Bindings

/-- The model's constants are the source's. -/
theorem gen_constants :
    Tickit.Gen.Bindings.BINDING_ID_TOMBSTONE = TOMBSTONE ∧
    Tickit.Gen.Bindings.TICKIT_EV_FIRE = EV_FIRE ∧ Tickit.Gen.Bindings.TICKIT_EV_UNBIND = EV_UNBIND ∧
    Tickit.Gen.Bindings.TICKIT_EV_DESTROY = EV_DESTROY := by decide

end Tickit.Props.C16
