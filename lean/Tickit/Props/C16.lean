import Tickit.Proof.Bindings
import Tickit.Proof.BindingsRoot
import Tickit.Gen.Bindings
/-
  C16 — Handlers fire once per event, in order, never after unbind, even re-entrantly.

  The model (`Tickit/Model/Bindings.lean`) transcribes `src/bindings.c`; `Cfg.original` is the code of
  the unchanged tree, `Cfg.repaired` the code with `fixes/C16_oneshot.patch` and
  `fixes/C16_unbind_reentrant.patch` applied.  Handlers are arbitrary behaviour tables
  (`Behaviour`: handler → invocation number → actions to perform and value to return), interpreted
  at any nesting depth; `fuel` bounds the recursion and every theorem holds for every fuel.

  A *history* is a list of top-level operations run from the empty binding list (`Runs`).  The
  property's clauses are statements about the trace `st.log` of a history (newest event first):
    `Ev.bound k id ev first flags`   a bind created binding `k` (k = its slot) with identifier `id`
    `Ev.enter k h n flags occ`       handler `h` entered for binding `k` with `TickitEventFlags` `flags`
    `Ev.unbindReq k`                 `unbind_event_id` found binding `k`                     (ghost)
    `Ev.fire k occ`                  the walker of occurrence `occ` decided to deliver to `k` (ghost)

  Each clause is a `def …Stmt (cfg : Cfg) : Prop`, proved for `Cfg.repaired` and — where the unchanged
  code violates it — refuted for `Cfg.original` by a concrete history (`…_counterexample`).

  Hypotheses common to the theorems:
    `Safe own beh`   the owner's emitters hold a reference while they run the handlers (`own.holdsRef`, the code since
                     fix 4d40c98), or no behaviour drops the last reference to the owner from inside a handler (`NoDestroy`);
    `ValidOps ops`   `unbind` is never handed `BINDING_ID_TOMBSTONE` (-1), which is not an identifier;
    handlers take no action when called with `TICKIT_EV_DESTROY` (built into the model's `call`).
-/
namespace Tickit.Props.C16
open Tickit.Bindings

/-! ### constants read from the source agree with the model -/

/-- `BINDING_ID_TOMBSTONE` and the event-flag bits the model uses are the source's. -/
theorem gen_constants :
    Tickit.Gen.Bindings.BINDING_ID_TOMBSTONE = TOMBSTONE ∧
    Tickit.Gen.Bindings.TICKIT_EV_FIRE = EV_FIRE ∧ Tickit.Gen.Bindings.TICKIT_EV_UNBIND = EV_UNBIND ∧
    Tickit.Gen.Bindings.TICKIT_EV_DESTROY = EV_DESTROY := by decide

/-- `bind_event` keeps exactly the three flags of `BFlags`; `unbind_event_id` tests `bind->flags` against
    `TICKIT_EV_UNBIND`, which has the value of `TICKIT_BIND_UNBIND`; the destroy loop tests
    `TICKIT_EV_UNBIND|TICKIT_EV_DESTROY` = `TICKIT_BIND_UNBIND|TICKIT_BIND_DESTROY` and event index 0; a one-shot
    delivery adds `TICKIT_EV_UNBIND`; the bits are distinct powers of two (so `Driver.flagsOf` decodes them). -/
theorem gen_flag_layout :
    Tickit.Gen.Bindings.keptMask =
      Tickit.Gen.Bindings.TICKIT_BIND_UNBIND + Tickit.Gen.Bindings.TICKIT_BIND_DESTROY + Tickit.Gen.Bindings.TICKIT_BIND_ONESHOT ∧
    Tickit.Gen.Bindings.unbindTest = Tickit.Gen.Bindings.TICKIT_BIND_UNBIND ∧
    Tickit.Gen.Bindings.unbindCallFlags = EV_UNBIND ∧
    Tickit.Gen.Bindings.destroyTest = Tickit.Gen.Bindings.TICKIT_BIND_UNBIND + Tickit.Gen.Bindings.TICKIT_BIND_DESTROY ∧
    Tickit.Gen.Bindings.destroyCallFlags = EV_UNBIND + EV_DESTROY ∧
    Tickit.Gen.Bindings.destroyEvindex = 0 ∧
    Tickit.Gen.Bindings.oneshotAdds = EV_UNBIND ∧
    (Tickit.Gen.Bindings.TICKIT_BIND_FIRST, Tickit.Gen.Bindings.TICKIT_BIND_UNBIND,
     Tickit.Gen.Bindings.TICKIT_BIND_DESTROY, Tickit.Gen.Bindings.TICKIT_BIND_ONESHOT) = (1, 2, 4, 8) ∧
    Tickit.Gen.Bindings.TICKIT_PEN_ON_DESTROY = 0 ∧ Tickit.Gen.Bindings.TICKIT_TERM_ON_DESTROY = 0 ∧
    Tickit.Gen.Bindings.TICKIT_WINDOW_ON_DESTROY = 0 ∧
    Tickit.Gen.Bindings.TICKIT_PEN_ON_CHANGE = 1 ∧ Tickit.Gen.Bindings.TICKIT_TERM_ON_RESIZE = 1 ∧
    Tickit.Gen.Bindings.TICKIT_TERM_ON_KEY = 2 ∧ Tickit.Gen.Bindings.TICKIT_TERM_ON_MOUSE = 3 := by decide

/-! ### vocabulary -/

/-- a complete history from the empty binding list -/
def Runs (cfg : Cfg) (own : Owner) (beh : Behaviour) (fuel : Nat) (ops : List Op) (st : St) : Prop :=
  execOps cfg own beh fuel ops St.init = .ok st

def ValidOps (ops : List Op) : Prop := ∀ op ∈ ops, OpOk op

instance : DecidablePred OpOk := fun op => by
  cases op <;> simp only [OpOk] <;> infer_instance

instance (ops : List Op) : Decidable (ValidOps ops) := by unfold ValidOps; infer_instance

/-! ### no_ub -/

/-- No history dereferences a freed binding, writes through a stale `bindp` or calls a NULL handler. -/
def NoUbStmt (cfg : Cfg) : Prop :=
  ∀ own beh, Safe own beh → ∀ fuel ops, ValidOps ops → ∀ w, execOps cfg own beh fuel ops St.init ≠ .ub w

theorem no_ub : NoUbStmt Cfg.repaired := by
  intro own beh hb fuel ops hops w hc
  have := execOps_good own beh hb fuel ops St.init hops Top.init (RefOk.init own)
  rw [hc] at this
  exact this

/-- The same for every single task started in a state satisfying the invariant (any nesting depth). -/
theorem no_ub_task (own : Owner) (beh : Behaviour) (hb : Safe own beh) (fuel : Nat) (task : Task) (st : St)
    (h : Tickit.Bindings.Inv st) (hro : RefOk own st) (hok : TaskOk own beh task st) (w : String) :
    exec Cfg.repaired own beh fuel task st ≠ .ub w := by
  intro hc
  have := exec_good own beh hb fuel task st h hro hok
  rw [hc] at this
  exact this

/-! ### live_ids_unique -/

/-- After any history the live bindings have pairwise different identifiers, all positive. -/
def LiveIdsUniqueStmt (cfg : Cfg) : Prop :=
  ∀ own beh, Safe own beh → ∀ fuel ops st, ValidOps ops → Runs cfg own beh fuel ops st → Op.destroy ∉ ops → st.dead = false →
    ∀ b1 ∈ st.list, ∀ b2 ∈ st.list, b1.id ≠ TOMBSTONE → b1.id = b2.id → b1 = b2

theorem live_ids_unique : LiveIdsUniqueStmt Cfg.repaired := by
  intro own beh hb fuel ops st hops hr hnd hal b1 h1 b2 h2 hl heq
  have := execOps_good own beh hb fuel ops St.init hops Top.init (RefOk.init own)
  rw [hr] at this
  have hinv := (this.2 hnd hal).1.1
  have hk := hinv.idsUnique b1 h1 b2 h2 hl heq
  have f1 := findKey_eq_of_mem hinv.keysNodup h1
  have f2 := findKey_eq_of_mem hinv.keysNodup h2
  rw [hk] at f1
  rw [f1] at f2
  injection f2

/-- …and at every bind, top-level or inside a handler at any depth: the identifier returned is positive and
    differs from the identifier of every binding live at that moment. -/
def BindFreshStmt (cfg : Cfg) : Prop :=
  ∀ own beh, Safe own beh → ∀ fuel ops st, ValidOps ops → Runs cfg own beh fuel ops st →
    ∀ post pre k id ev first fl, st.log = post ++ Ev.bound k id ev first fl :: pre →
      1 ≤ id ∧ ∀ k' id' ev' first' fl', Ev.bound k' id' ev' first' fl' ∈ pre → liveAt pre k' → id' ≠ id

theorem bind_returns_fresh_id : BindFreshStmt Cfg.repaired := by
  intro own beh hb fuel ops st hops hr post pre k id ev first fl hsplit
  have := execOps_good own beh hb fuel ops St.init hops Top.init (RefOk.init own)
  rw [hr] at this
  have ht := this.1
  rw [hsplit] at ht
  have := TraceOk.at ht
  exact ⟨this.2.1, this.2.2⟩

/-! ### oneshot_at_most_once -/

/-- Over a whole history the handler of a `TICKIT_BIND_ONESHOT` binding is entered with `TICKIT_EV_FIRE`
    at most once, whichever walker delivers. -/
def OneshotStmt (cfg : Cfg) : Prop :=
  ∀ own beh, Safe own beh → ∀ fuel ops st, ValidOps ops → Runs cfg own beh fuel ops st →
    ∀ k fl, boundIn st.log k fl → fl.oneshot = true → st.log.countP (isEnterFire k) ≤ 1

theorem oneshot_at_most_once : OneshotStmt Cfg.repaired := by
  intro own beh hb fuel ops st hops hr k fl hbound ho
  have := execOps_good own beh hb fuel ops St.init hops Top.init (RefOk.init own)
  rw [hr] at this
  exact Nat.le_trans (enterFire_le_fire this.1 k) (fire_le_one this.1 hbound ho)

/-! ### no_fire_after_unbind -/

/-- Once `unbind_event_id` has found a binding, its handler is never entered with `TICKIT_EV_FIRE` again —
    not even from inside its own unbind notification. -/
def NoFireAfterUnbindStmt (cfg : Cfg) : Prop :=
  ∀ own beh, Safe own beh → ∀ fuel ops st, ValidOps ops → Runs cfg own beh fuel ops st →
    ∀ post pre k, st.log = post ++ Ev.unbindReq k :: pre → post.countP (isEnterFire k) = 0

theorem no_fire_after_unbind : NoFireAfterUnbindStmt Cfg.repaired := by
  intro own beh hb fuel ops st hops hr post pre k hsplit
  have := execOps_good own beh hb fuel ops St.init hops Top.init (RefOk.init own)
  rw [hr] at this
  have ht := this.1
  rw [hsplit] at ht
  exact (no_fire_after_req ht).2

/-! ### unbind_notify_once -/

/-- A binding receives the pure unbind notification (`TICKIT_EV_UNBIND` alone) at most once, never more often
    than it was unbound (which is at most once), and only if it was bound with `TICKIT_BIND_UNBIND`. -/
def UnbindNotifyAtMostStmt (cfg : Cfg) : Prop :=
  ∀ own beh, Safe own beh → ∀ fuel ops st, ValidOps ops → Runs cfg own beh fuel ops st → ∀ k,
    st.log.countP (isNotif k) ≤ st.log.countP (isReq k) ∧ st.log.countP (isReq k) ≤ 1 ∧
    (∀ h n occ, Ev.enter k h n EV_UNBIND occ ∈ st.log → ∃ fl, boundIn st.log k fl ∧ fl.unbind = true)

theorem unbind_notify_at_most_once : UnbindNotifyAtMostStmt Cfg.repaired := by
  intro own beh hb fuel ops st hops hr k
  have := execOps_good own beh hb fuel ops St.init hops Top.init (RefOk.init own)
  rw [hr] at this
  exact ⟨notif_le_req this.1 k, req_le_one this.1 k, fun h n occ hm => notif_asked this.1 hm⟩

/-- …and exactly once when it asked: every completed call of `unbind_event_id` (top-level or nested, from any
    state satisfying the invariant) that finds a live binding bound with `TICKIT_BIND_UNBIND` has entered its
    handler with `TICKIT_EV_UNBIND` right after the request; if the binding did not ask, nothing is called. -/
def UnbindNotifiesStmt (cfg : Cfg) : Prop :=
  ∀ own beh, Safe own beh → ∀ fuel id st st' r b, Tickit.Bindings.Inv st → RefOk own st → id ≠ TOMBSTONE → findId st.list id = some b →
    exec cfg own beh fuel (.unbindId id) st = .ok (st', r) →
    (b.flags.unbind = true → ∃ h n seg, st'.log = seg ++ Ev.enter b.key h n EV_UNBIND 0 :: Ev.unbindReq b.key :: st.log) ∧
    (b.flags.unbind = false → st'.log = Ev.unbindReq b.key :: st.log)

theorem unbind_notifies : UnbindNotifiesStmt Cfg.repaired := by
  intro own beh hb fuel id st st' r b hinv hro hid hf hex
  exact exec_unbindId_log own beh hb hinv hro hid hf hex

/-! ### destroy_notifies -/

/-- Destroying the object (from outside its handlers) calls, with `TICKIT_EV_UNBIND|TICKIT_EV_DESTROY`, exactly the
    remaining bindings that asked — bound to the destroy event (index 0) or with `TICKIT_BIND_UNBIND` or
    `TICKIT_BIND_DESTROY` — each exactly once, in reverse list order (newest first; bindings bound `FIRST`
    last), and calls nothing else.  Every remaining binding is live: there is no tombstone between operations. -/
def DestroyNotifiesStmt (cfg : Cfg) : Prop :=
  ∀ own beh, Safe own beh → ∀ fuel ops st st', ValidOps ops → Op.destroy ∉ ops → Runs cfg own beh fuel ops st →
    st.dead = false → execOp cfg own beh fuel .destroy st = .ok st' →
    (∀ b ∈ st.list, b.id ≠ TOMBSTONE) ∧ st'.list = [] ∧
    ∃ seg, st'.log = seg ++ st.log ∧
      enters seg = ((st.list.reverse.filter asked).map fun b => (b.key, EV_UNBIND + EV_DESTROY))

theorem destroy_notifies : DestroyNotifiesStmt Cfg.repaired := by
  intro own beh hb fuel ops st st' hops hnd hr hal hd
  have := execOps_good own beh hb fuel ops St.init hops Top.init (RefOk.init own)
  rw [hr] at this
  have htop := (this.2 hnd hal).1
  have hfn : ∀ b ∈ st.list.reverse, b.fn ≠ none := fun b hb' =>
    htop.1.liveFn b (List.mem_reverse.1 hb') (htop.no_tombstones b (List.mem_reverse.1 hb'))
  simp only [execOp] at hd
  cases hc : exec Cfg.repaired own beh fuel (.destroyLoop st.list.reverse) st with
  | outOfFuel => rw [hc] at hd; simp [Res.dropRet] at hd
  | ub w => rw [hc] at hd; simp [Res.dropRet] at hd
  | ok p =>
    obtain ⟨st'', r⟩ := p
    rw [hc] at hd
    simp only [Res.dropRet] at hd
    injection hd with hd
    subst hd
    obtain ⟨hl, seg, hseg, hent, _⟩ := destroyLoop_spec own beh _ _ _ _ _ hfn hc
    exact ⟨htop.no_tombstones, hl, seg, hseg, hent⟩

/-- Between operations the list holds no tombstone and the sweep flag is clear: the suspected defect
    "destroy with a tombstone pending" needs the owner to be destroyed from inside a handler. -/
theorem no_tombstone_between_operations (own : Owner) (beh : Behaviour) (hb : Safe own beh) (fuel : Nat) (ops : List Op) (st : St)
    (hops : ValidOps ops) (hnd : Op.destroy ∉ ops) (hr : Runs Cfg.repaired own beh fuel ops st) (hal : st.dead = false) :
    st.isIter = false ∧ ∀ b ∈ st.list, b.id ≠ TOMBSTONE := by
  have := execOps_good own beh hb fuel ops St.init hops Top.init (RefOk.init own)
  rw [hr] at this
  exact ⟨(this.2 hnd hal).1.2, (this.2 hnd hal).1.no_tombstones⟩


/-! ### fire_order -/

/-- **One occurrence**: a call of `tickit_bindings_run_event` (`wf = false`) or `…_whilefalse` (`wf = true`) for event
    `ev`, in any state `st` satisfying the invariant (so: at top level or from inside handlers at any depth), that
    returns `r` in state `st'`.  Its occurrence number is `o = st.nextOcc`; `seg` is what it appended to the trace
    between its `occBegin` and `occEnd`; `A` are the bindings appended to the chain meanwhile.  Then
    1. the chain it walked, `keys st.list ++ A`, has no repetition, and the bindings it delivered to
       (`firesOf o seg`, in time order) form a sub-sequence of it: *list order, each at most once* — also for bindings
       bound during the occurrence;
    2. every delivery went to a binding that was, at that moment, live and bound to `ev`;
    3. a binding of the chain that got no delivery was not live-and-bound-to-`ev` at the moment any binding *after* it
       in the chain got one (i.e. when the walker passed it), nor — unless a handler claimed the event
       (`wf ∧ r ≠ 0`) — at the end of the occurrence;
    4. stop at the first claim (`wf`): a handler of this occurrence (`Ev.leave c o r'`) returning non-zero is the last
       thing of the occurrence and its value is the walker's result; a non-zero result arises only so.
    So the bindings live for `ev` at the start and still live when reached are delivered to exactly once, in chain
    order (`fire_exactly_once`); and the chain is in binding order, `FIRST` binds ahead (`chain_in_binding_order`). -/
def FireOrderStmt (cfg : Cfg) : Prop :=
  ∀ own beh, Safe own beh → ∀ fuel wf ev st st' r, Tickit.Bindings.Inv st → RefOk own st →
    (own.holdsRef = true → b2n st.userRef + st.frozenRefs + 1 ≤ st.refs) → 1 ≤ st.nextOcc →
    exec cfg own beh fuel (.runEvent wf ev) st = .ok (st', r) →
    ∃ seg A, st'.log = Ev.occEnd st.nextOcc :: (seg ++ Ev.occBegin st.nextOcc ev wf :: st.log) ∧
      (keys st.list ++ A).Nodup ∧
      (firesOf st.nextOcc seg).Sublist (keys st.list ++ A) ∧
      (∀ c s1 s2, seg = s2 ++ Ev.fire c st.nextOcc :: s1 → evLive ev (s1 ++ Ev.occBegin st.nextOcc ev wf :: st.log) c) ∧
      (∀ b ∈ keys st.list ++ A, b ∉ firesOf st.nextOcc seg →
        (∀ c s1 s2, seg = s2 ++ Ev.fire c st.nextOcc :: s1 → c ∈ afterK b (keys st.list ++ A) →
            ¬ evLive ev (s1 ++ Ev.occBegin st.nextOcc ev wf :: st.log) b) ∧
        (¬ (wf = true ∧ r ≠ 0) → ¬ evLive ev (seg ++ Ev.occBegin st.nextOcc ev wf :: st.log) b)) ∧
      (∀ s2 s1 c r', seg = s2 ++ Ev.leave c st.nextOcc r' :: s1 → wf = true → r' ≠ 0 → s2 = [] ∧ r = r') ∧
      (r ≠ 0 → wf = true ∧ ∃ c s1, seg = Ev.leave c st.nextOcc r :: s1)

theorem fire_order : FireOrderStmt Cfg.repaired := by
  intro own beh hb fuel wf ev st st' r h hro hrefs hocc hex
  exact runEvent_spec own beh hb h hro hrefs hocc hex

/-- Occurrence numbers start at 1 (0 marks notifications): the hypothesis `1 ≤ st.nextOcc` of `fire_order` holds after
    every history, and `Step.occMono` carries it into every nested call. -/
theorem occurrence_numbers_positive (own : Owner) (beh : Behaviour) (hb : Safe own beh) (fuel : Nat) (ops : List Op) (st : St)
    (hops : ValidOps ops) (hnd : Op.destroy ∉ ops) (hr : Runs Cfg.repaired own beh fuel ops st) (hal : st.dead = false) :
    1 ≤ st.nextOcc := by
  have := execOps_good own beh hb fuel ops St.init hops Top.init (RefOk.init own)
  rw [hr] at this
  exact (this.2 hnd hal).2.1

/-- Exactly once: a binding live for the event when the occurrence starts and still live for it when the occurrence
    ends (no handler having claimed the event) was delivered to exactly once in it. -/
theorem fire_exactly_once (own : Owner) (beh : Behaviour) (hb : Safe own beh) (fuel : Nat) (wf : Bool) (ev : Int)
    (st st' : St) (r : Int) (h : Tickit.Bindings.Inv st) (hro : RefOk own st)
    (hrefs : own.holdsRef = true → b2n st.userRef + st.frozenRefs + 1 ≤ st.refs) (hocc : 1 ≤ st.nextOcc)
    (hex : exec Cfg.repaired own beh fuel (.runEvent wf ev) st = .ok (st', r)) :
    ∃ seg, st'.log = Ev.occEnd st.nextOcc :: (seg ++ Ev.occBegin st.nextOcc ev wf :: st.log) ∧
      ∀ b, evLive ev st.log b → evLive ev (seg ++ Ev.occBegin st.nextOcc ev wf :: st.log) b → ¬ (wf = true ∧ r ≠ 0) →
        (firesOf st.nextOcc seg).count b = 1 := by
  obtain ⟨seg, A, hlog, hnd, hsub, _, hcomp, _⟩ := runEvent_spec own beh hb h hro hrefs hocc hex
  refine ⟨seg, hlog, fun b hl0 hl1 hncl => ?_⟩
  have hbk : b ∈ keys st.list := by
    obtain ⟨x, hx, hxk, _⟩ := (h.liveIff b).2 hl0.1
    exact mem_keys.2 ⟨x, hx, hxk⟩
  have hmem : b ∈ firesOf st.nextOcc seg := by
    apply Classical.byContradiction
    intro hnf
    exact (hcomp b (List.mem_append_left _ hbk) hnf).2 hncl hl1
  rw [List.Nodup.count (hsub.nodup hnd), if_pos hmem]

/-- The chain is in binding order: it is a sub-sequence of the sequence obtained from the bind events by putting
    `TICKIT_BIND_FIRST` binds at the front and the others at the back (which has no repetition). -/
theorem chain_in_binding_order (own : Owner) (beh : Behaviour) (hb : Safe own beh) (fuel : Nat) (ops : List Op) (st : St)
    (hops : ValidOps ops) (hnd : Op.destroy ∉ ops) (hr : Runs Cfg.repaired own beh fuel ops st) (hal : st.dead = false) :
    (keys st.list).Sublist (bindOrder st.log) ∧ (bindOrder st.log).Nodup := by
  have := execOps_good own beh hb fuel ops St.init hops Top.init (RefOk.init own)
  rw [hr] at this
  exact ⟨(this.2 hnd hal).1.1.order, (bindOrder_nodup this.1).1⟩

/-- …and this holds in every state a task runs in (any nesting depth), being part of the invariant. -/
theorem chain_in_binding_order_inv (st : St) (h : Tickit.Bindings.Inv st) :
    (keys st.list).Sublist (bindOrder st.log) ∧ (bindOrder st.log).Nodup :=
  ⟨h.order, (bindOrder_nodup h.trace).1⟩

/-! ### destruction from inside a handler (owners whose emitters hold a reference: the code since fix 4d40c98)

`Safe own beh` is `own.holdsRef = true ∨ NoDestroy beh`: every theorem above therefore holds for *all* behaviours —
including those that drop the owner's last reference from inside a handler, at any depth — when the owner's emitters hold
a reference, as `pen.c` and `term.c` now do (`Gen.Bindings.penEmitterRef/termEmitterRef`).  The handler interpreter
drops the handlers' reference once (`St.userRef`) and takes no action on an owner that is gone. -/

/-- `no_ub` without any hypothesis on the behaviours. -/
theorem no_ub_holding_ref (own : Owner) (hh : own.holdsRef = true) (beh : Behaviour) (fuel : Nat) (ops : List Op)
    (hops : ValidOps ops) (w : String) : execOps Cfg.repaired own beh fuel ops St.init ≠ .ub w :=
  no_ub own beh (Or.inl hh) fuel ops hops w

/-- The owner is never destroyed under a walker: an occurrence — and any task started while a walker runs — ends
    with the owner alive, whatever the handlers do.  (Destruction waits for the end of the outermost emission.) -/
theorem owner_outlives_the_walk (own : Owner) (beh : Behaviour) (hb : Safe own beh) (fuel : Nat) (task : Task) (st st' : St) (r : Int)
    (h : Tickit.Bindings.Inv st) (hro : RefOk own st) (hok : TaskOk own beh task st)
    (hwalk : st.isIter = true ∨ canDie task = false)
    (hex : exec Cfg.repaired own beh fuel task st = .ok (st', r)) : st'.dead = false ∧ Tickit.Bindings.Inv st' := by
  have := exec_good own beh hb fuel task st h hro hok
  rw [hex] at this
  obtain ⟨h', _, _⟩ := this.alive hwalk
  exact ⟨h'.alive.2, h'⟩

/-- **Deferred destruction** (`destroy_notifies` for a destruction requested from inside a handler): an emission, with
    no walker running around it, that ends with the owner destroyed has first run its occurrence to completion — the
    walker returned in a state `st2` in which the owner lives, the invariant holds (so `fire_order` applies to that
    very occurrence), the sweep is done and every binding of the chain is live — and only then notified the remaining
    bindings that asked, in reverse chain order, each exactly once, and freed the chain. -/
def DeferredDestroyStmt (cfg : Cfg) : Prop :=
  ∀ own beh, own.holdsRef = true → ∀ fuel wf ev st st' r, Tickit.Bindings.Inv st → RefOk own st → st.isIter = false →
    exec cfg own beh fuel (.emitter wf ev) st = .ok (st', r) → st'.dead = true →
    ∃ st2 fuel', exec cfg own beh fuel' (.runEvent wf ev) { st with refs := st.refs + 1 } = .ok (st2, r) ∧
      Tickit.Bindings.Inv st2 ∧ st2.isIter = false ∧ (∀ b ∈ st2.list, b.id ≠ TOMBSTONE) ∧ st'.list = [] ∧
      ∃ seg, st'.log = seg ++ st2.log ∧
        enters seg = (st2.list.reverse.filter asked).map (fun b => (b.key, EV_UNBIND + EV_DESTROY))

theorem destroy_from_handler_notifies : DeferredDestroyStmt Cfg.repaired := by
  intro own beh hh fuel wf ev st st' r h hro hni hex hd
  exact emitter_destroys own beh (Or.inl hh) hh h hro hni hex hd

/-- Without the emitters' reference the hypothesis on the behaviours is needed: on a pen that holds none
    (the code before fix 4d40c98) a handler dropping the last reference frees the chain under the walker. -/
theorem destroy_in_handler_counterexample :
    ¬ (∀ (own : Owner) (beh : Behaviour) (fuel : Nat) (ops : List Op), ValidOps ops → ∀ w,
        execOps Cfg.repaired own beh fuel ops St.init ≠ .ub w) := by
  intro h
  have hub : isUb (execOps Cfg.repaired Owner.pen behDropRef 30 [.bind 1 false plain 0, .emit 1] St.init) = true := by decide
  cases hc : execOps Cfg.repaired Owner.pen behDropRef 30 [.bind 1 false plain 0, .emit 1] St.init with
  | ub w => exact h Owner.pen behDropRef 30 _ (by decide) w hc
  | ok st => rw [hc] at hub; cases hub
  | outOfFuel => rw [hc] at hub; cases hub

/-- …and with it the same history completes: handler 0 drops the reference and emits again (the nested occurrence
    delivers to both bindings), the outer walk goes on to binding 1, and only after the outermost emission has ended are
    the two askers notified, newest first; the owner is then gone. -/
example :
    (match execOps Cfg.repaired penHoldingRef behDropRef 40
        [.bind 1 false ⟨false, true, false⟩ 0, .bind 1 false wantsUnbind 1, .emit 1] St.init with
     | .ok st => some (st.dead, firesOf 1 st.log, firesOf 2 st.log)
     | _ => none) = some (true, [0, 1], [0, 1]) := by decide

example :
    (match execOps Cfg.repaired penHoldingRef behDropRef 40
        [.bind 1 false ⟨false, true, false⟩ 0, .bind 1 false wantsUnbind 1, .emit 1] St.init with
     | .ok st => some (enters (st.log.take 4), (st.log.drop 4).head?)
     | _ => none) = some ([(1, 6), (0, 6)], some (Ev.occEnd 1)) := by decide

/-! ### the pen as emitter: freeze..thaw regions (`tickit_pen_copy`, `copy_attr` of a colour, a colour description)

The pen's change event is emitted by `changed()` — at once, or remembered while a region is frozen and delivered as one
batched occurrence by the outermost `thaw()` — and by `tickit_pen_set_colour_attr`, at once.  The model's pen owner
(`PenSt`, `Task.pen`, `Task.penRegion`) transcribes this; handler actions may run such operations on the owner pen
(`Action.pen`).  All theorems above quantify over these behaviours too; the invariant `RefOk` carries, besides the
reference accounting of open regions, that a change is remembered only inside a frozen region. -/

/-- Re-applying a template the pen already satisfies (`tickit_pen_copy` with nothing to copy) is not an occurrence of the
    change event: no handler is called, nothing is recorded, in any state the invariant allows — in particular from
    inside a change handler that is itself being delivered the batched occurrence of an enclosing region (`thaw` clears
    `changed` before it emits). -/
theorem satisfied_template_is_no_occurrence (own : Owner) (beh : Behaviour) (fuel : Nat) (st st' : St) (r : Int) (t : Tmpl) (ow : Bool)
    (h : Tickit.Bindings.Inv st) (hro : RefOk own st)
    (hfg : loopCopiesFg st.pen t ow = false) (hbd : loopCopiesBold st.pen t ow = false)
    (hex : exec Cfg.repaired own beh fuel (.penRegion (PenOp.copy t ow).body) st = .ok (st', r)) :
    st'.log = st.log ∧ st'.dead = false ∧ st'.list = st.list ∧ st'.pen = st.pen := by
  obtain ⟨a, b, c, d, _⟩ := region_nothing_to_copy own beh h hro hfg hbd hex
  exact ⟨a, b, c, d⟩

/-- A change is remembered only inside a frozen region: after any history `changed` is clear and no region is open. -/
theorem no_change_pending_between_operations (own : Owner) (beh : Behaviour) (hb : Safe own beh) (fuel : Nat) (ops : List Op) (st : St)
    (hops : ValidOps ops) (hnd : Op.destroy ∉ ops) (hr : Runs Cfg.repaired own beh fuel ops st) (hal : st.dead = false) :
    st.pen.freeze = 0 → st.pen.changed = false := by
  have := execOps_good own beh hb fuel ops St.init hops Top.init (RefOk.init own)
  rw [hr] at this
  exact (this.2 hnd hal).2.2.1.2

/-- Not vacuous, and the scenario of the demonstration: handler 0 re-applies the satisfied template {bold} from inside
    the batched occurrence that `tickit_pen_copy(pen, {bold}, overwrite)` delivers; each of the two handlers runs once
    for that one change, and a second copy of the same template delivers nothing. -/
example :
    (match execOps Cfg.repaired penHoldingRef (fun h n => if h = 0 ∧ n = 0 then ⟨[.pen (.copy ⟨some true, none, none⟩ true)], 0⟩ else ⟨[], 0⟩) 60
        [.bind 1 false plain 0, .bind 1 false plain 1, .pen (.copy ⟨some true, none, none⟩ true), .pen (.copy ⟨some true, none, none⟩ true)]
        St.init with
     | .ok st => some (st.log.countP (isEnterFire 0), st.log.countP (isEnterFire 1), st.pen.bold)
     | _ => none) = some (1, 1, some true) := by decide

/-! ### no binding is lost -/

/-- After any history, the bindings the trace says are live — bound, not unbound since, not a delivered one-shot —
    are exactly the live nodes of the chain: no bind is lost, no unbound binding lingers. -/
def LiveInChainStmt (cfg : Cfg) : Prop :=
  ∀ own beh, Safe own beh → ∀ fuel ops st, ValidOps ops → Runs cfg own beh fuel ops st → Op.destroy ∉ ops → st.dead = false →
    ∀ k, liveAt st.log k ↔ liveKey st.list k

theorem live_bindings_are_in_chain : LiveInChainStmt Cfg.repaired := by
  intro own beh hb fuel ops st hops hr hnd hal k
  have := execOps_good own beh hb fuel ops St.init hops Top.init (RefOk.init own)
  rw [hr] at this
  exact ((this.2 hnd hal).1.1.liveIff k).symm

/-! ### a library client of the bindings: the root window on its terminal (`src/window.c`)

`tickit_window_new_root2` binds three handlers on the terminal and keeps the identifiers; `tickit_window_destroy` hands them
to `tickit_term_unbind_event_id`.  The clauses "run exactly once per occurrence" and "exactly one unbind notification, if it
asked" for the *application's* handlers on that terminal depend on these identifiers still denoting the root window's own
bindings when it lets go of them: identifiers are `max + 1` over the live bindings, so an identifier that is unbound twice
with a bind in between removes somebody else's binding.  `Model/BindingsRoot.lean` transcribes the root window's side
(`rootNew`, `rootRef`, `rootClose`, `rootUnref`, `unbindAll`); the library's handlers are handlers `LIB_H + i` of the
behaviour table. -/

/-- What the model assumes of window.c is what the source says: the root window binds the terminal's resize, key and mouse
    events, in this order, with flags 0, into `event_ids[0..2]`; it unbinds `event_ids[0..2]`; and no other function of
    window.c binds or unbinds anything on the terminal. -/
theorem gen_root_client :
    Tickit.Gen.Bindings.rootBinds = rootEvents.map (fun ev => (ev, 0)) ∧
    Tickit.Gen.Bindings.rootBindIdx = [0, 1, 2] ∧ Tickit.Gen.Bindings.rootUnbindIdx = [0, 1, 2] ∧
    Tickit.Gen.Bindings.rootBindSites = ["tickit_window_new_root2"] ∧
    Tickit.Gen.Bindings.rootUnbindSites = ["tickit_window_destroy"] := by decide

/-- …and the window's event numbers are those of `Owner.win`: GEOMCHANGE, EXPOSE, FOCUS by `run_events`; KEY, MOUSE by
    `run_events_whilefalse`. -/
theorem gen_window_events :
    (Tickit.Gen.Bindings.TICKIT_WINDOW_ON_GEOMCHANGE, Tickit.Gen.Bindings.TICKIT_WINDOW_ON_EXPOSE,
     Tickit.Gen.Bindings.TICKIT_WINDOW_ON_FOCUS, Tickit.Gen.Bindings.TICKIT_WINDOW_ON_KEY,
     Tickit.Gen.Bindings.TICKIT_WINDOW_ON_MOUSE) = (1, 2, 3, 4, 5) ∧
    (∀ ev, Owner.win.canEmit ev = true → (Owner.win.wf ev = true ↔ ev = 4 ∨ ev = 5)) := by
  refine ⟨by decide, fun ev h => ?_⟩
  simp only [Owner.win, decide_eq_true_eq] at h ⊢
  omega

/-- **An identifier denotes its binding.**  After any history, the identifier `bind_event` returned for binding `k` —
    however many bindings were made and unbound since, by handlers at any depth — is found by `unbind_event_id` at exactly
    that binding, for as long as `k` is live (not unbound, not a delivered one-shot). -/
def IdDenotesStmt (cfg : Cfg) : Prop :=
  ∀ own beh, Safe own beh → ∀ fuel ops st, ValidOps ops → Runs cfg own beh fuel ops st → Op.destroy ∉ ops → st.dead = false →
    ∀ k id ev first fl, Ev.bound k id ev first fl ∈ st.log → liveAt st.log k →
      ∃ b, findId st.list id = some b ∧ b.key = k ∧ b.flags = fl

theorem id_denotes_its_binding : IdDenotesStmt Cfg.repaired := by
  intro own beh hb fuel ops st hops hr hnd hal k id ev first fl hbd hl
  have := execOps_good own beh hb fuel ops St.init hops Top.init (RefOk.init own)
  rw [hr] at this
  obtain ⟨b, hf, _, hk, _, hfl, _⟩ := id_denotes_binding (this.2 hnd hal).1.1 hbd hl
  exact ⟨b, hf, hk, hfl⟩

/-- …in every state a task runs in (any nesting depth), being a consequence of the invariant. -/
theorem id_denotes_its_binding_inv (st : St) (h : Tickit.Bindings.Inv st) (k : Nat) (id ev : Int) (first : Bool) (fl : BFlags)
    (hbd : Ev.bound k id ev first fl ∈ st.log) (hl : liveAt st.log k) :
    ∃ b, findId st.list id = some b ∧ b.key = k ∧ b.flags = fl := by
  obtain ⟨b, hf, _, hk, _, hfl, _⟩ := id_denotes_binding h hbd hl
  exact ⟨b, hf, hk, hfl⟩

/-- a history of a terminal on which root windows come and go, from the empty binding list -/
def RunsW (cfg : Cfg) (own : Owner) (beh : Behaviour) (fuel : Nat) (ops : List WOp) (w : WSt) : Prop :=
  execWOps cfg own beh fuel ops WSt.init = .ok w

def ValidWOps (ops : List WOp) : Prop := ∀ op ∈ ops, WOpOk op

/-- **Histories with a root window.**  For every history of binds, unbinds, emissions (all behaviours, any depth) and
    root-window operations on a terminal, *as long as nobody but the root window unbinds the root window's three bindings*
    (`Intact`: the application hands `unbind` identifiers of its own bindings only): no undefined behaviour, and between
    operations the terminal's state satisfies the invariant all clauses above rest on (`Top`: `fire_order`,
    `unbind_notifies`, `live_ids_unique`, … apply to it), the root window's identifiers are those its binds returned, and
    the reference it holds on the terminal is accounted for. -/
def RootHistoryStmt (cfg : Cfg) : Prop :=
  ∀ own beh, Safe own beh → ∀ fuel ops, ValidWOps ops → Intact own beh fuel ops WSt.init →
    (∀ x, execWOps cfg own beh fuel ops WSt.init ≠ .ub x) ∧
    ∀ w, RunsW cfg own beh fuel ops w → WOp.base .destroy ∉ ops → w.st.dead = false → WInv own w

theorem root_history_good : RootHistoryStmt Cfg.repaired := by
  intro own beh hs fuel ops hops hint
  have := execWOps_good own beh hs fuel ops WSt.init hops (WInv.init own) hint
  constructor
  · intro x hx; rw [hx] at this; exact this
  · intro w hr hnd hal; rw [RunsW] at hr; rw [hr] at this; exact this hnd hal

/-- **The root window unbinds its own bindings and nothing else** (the last `tickit_window_unref`: `tickit_window_destroy`).
    In any state the invariant allows, with the root window's bindings not unbound by anybody else: the three
    `tickit_term_unbind_event_id(root->term, root->event_ids[i])` complete; what they record is exactly the three unbind
    requests for the root window's own bindings — no handler is entered, so no binding of the application receives an
    unbind notification; the chain loses exactly these three nodes; and every other binding is live afterwards iff it was
    before (it goes on being delivered every occurrence: `fire_order` applies to the state reached). -/
theorem root_window_unbinds_only_its_own (own : Owner) (beh : Behaviour) (hs : Safe own beh) (w : WSt) (h : WInv own w)
    (hi : RootIntact w) (r : Root) (hr : w.root = some r) (hlast : r.refs = 1) (fuel : Nat) :
    ∃ st1, unbindAll Cfg.repaired own beh (fuel + 1) r.ids w.st = .ok st1 ∧
      st1.log = (r.keys.reverse.map Ev.unbindReq) ++ w.st.log ∧
      st1.list = w.st.list.filter (fun b => !r.keys.contains b.key) ∧
      Tickit.Bindings.Inv st1 ∧ st1.isIter = false ∧
      (∀ k, k ∉ r.keys → (liveAt st1.log k ↔ liveAt w.st.log k)) ∧
      (∀ k hh n fl occ, Ev.enter k hh n fl occ ∈ st1.log → Ev.enter k hh n fl occ ∈ w.st.log) := by
  obtain ⟨st1, he, hlog, hlist, h1, _, hni, _, _, _, _⟩ := rootUnref_spec own beh hs h hi hr hlast fuel
  refine ⟨st1, he, hlog, hlist, h1, hni, fun k hk => ?_, fun k hh n fl occ hm => ?_⟩
  · rw [hlog]
    exact liveAt_reqs _ _ _ (fun hm => hk (List.mem_reverse.1 hm))
  · rw [hlog] at hm
    rcases List.mem_append.1 hm with hm | hm
    · simp at hm
    · exact hm

/-- **The application's handlers go on running.**  After the root window has gone, an occurrence of any event of the
    terminal (the walker as the emitter calls it, holding its reference) is delivered exactly once to every binding of the
    application's that was live for the event before the root window went and is still live when the occurrence ends, no
    handler having claimed it: none of them was lost to the root window's unbinds. -/
theorem app_bindings_run_after_root_window_left (own : Owner) (beh : Behaviour) (hs : Safe own beh) (w : WSt) (h : WInv own w)
    (hi : RootIntact w) (r : Root) (hr : w.root = some r) (hlast : r.refs = 1) (fuel : Nat) :
    ∃ st1, unbindAll Cfg.repaired own beh (fuel + 1) r.ids w.st = .ok st1 ∧
      ∀ fuel' wf ev st' ret,
        exec Cfg.repaired own beh fuel' (.runEvent wf ev) { st1 with refs := st1.refs + 1 } = .ok (st', ret) →
        ∃ seg, st'.log = Ev.occEnd st1.nextOcc :: (seg ++ Ev.occBegin st1.nextOcc ev wf :: st1.log) ∧
          ∀ k, k ∉ r.keys → evLive ev w.st.log k → evLive ev (seg ++ Ev.occBegin st1.nextOcc ev wf :: st1.log) k →
            ¬ (wf = true ∧ ret ≠ 0) → (firesOf st1.nextOcc seg).count k = 1 := by
  obtain ⟨st1, he, hlog, _, h1, hro1, hni, _, _, hn1, _⟩ := rootUnref_spec own beh hs h hi hr hlast fuel
  refine ⟨st1, he, fun fuel' wf ev st' ret hex => ?_⟩
  have h1' : Tickit.Bindings.Inv { st1 with refs := st1.refs + 1 } := h1.of_refs _ (by omega)
  have hro1' : RefOk own { st1 with refs := st1.refs + 1 } := hro1.of_more_refs _ (by simp)
  have hrefs : own.holdsRef = true →
      b2n ({ st1 with refs := st1.refs + 1 } : St).userRef + ({ st1 with refs := st1.refs + 1 } : St).frozenRefs + 1 ≤
        ({ st1 with refs := st1.refs + 1 } : St).refs := by
    intro hh
    have := hro1.2 hh
    rw [hni] at this
    simp only [b2n_false, Nat.add_zero] at this
    simp only
    omega
  have hocc : 1 ≤ ({ st1 with refs := st1.refs + 1 } : St).nextOcc := by simp only; rw [hn1]; exact h.occ
  obtain ⟨seg, hseg, hall⟩ := fire_exactly_once own beh hs fuel' wf ev _ st' ret h1' hro1' hrefs hocc hex
  refine ⟨seg, hseg, fun k hk hl0 hl1 hncl => hall k ?_ hl1 hncl⟩
  obtain ⟨hla, id, first, fl, hb⟩ := hl0
  refine ⟨?_, id, first, fl, ?_⟩
  · simp only; rw [hlog]
    exact (liveAt_reqs _ _ _ (fun hm => hk (List.mem_reverse.1 hm))).2 hla
  · simp only; rw [hlog]; exact List.mem_append_right _ hb

/-- …and the whole `tickit_window_unref`: the root window is gone, the terminal has one reference less (or, if that was
    the last one, is destroyed with the usual notifications), never undefined behaviour. -/
theorem root_window_release (own : Owner) (beh : Behaviour) (hs : Safe own beh) (w : WSt) (h : WInv own w)
    (hi : RootIntact w) (fuel : Nat) :
    match rootUnref Cfg.repaired own beh fuel w with
    | .ok w' => w'.st.dead = false → WInv own w'
    | .ub _ => False
    | .outOfFuel => True := by
  have := rootUnref_good own beh hs fuel h hi
  cases hc : rootUnref Cfg.repaired own beh fuel w with
  | outOfFuel => trivial
  | ub x => rw [hc] at this; exact this.elim
  | ok w' => rw [hc] at this; exact fun hal => this hal rfl

/-- `tickit_window_new_root` gets identifiers no live binding has, and they are the ones the root window keeps. -/
theorem root_window_ids_fresh (own : Owner) (w : WSt) (h : WInv own w) (hn : w.root = none) :
    ∃ r, (rootNew w).root = some r ∧ r.ids.length = 3 ∧ r.keys.length = 3 ∧
      Owns (rootNew w).st r.pairs ∧ (∀ id ∈ r.ids, ∀ b ∈ w.st.list, b.id ≠ id) := by
  have hw := rootNew_inv h
  have hint : RootIntact (rootNew w) := by
    intro r hr k hk hreq
    simp only [rootNew, hn] at hr hreq
    simp only [Option.some.injEq] at hr
    subst hr
    simp only [libBind_log, reqIn, List.mem_cons, reduceCtorEq, false_or] at hreq
    have := h.top.1.logKeys _ hreq k rfl
    simp only [List.mem_cons, List.not_mem_nil, or_false, libBind_slotIds, List.length_append, List.length_singleton] at hk
    omega
  simp only [rootNew, hn] at hw hint ⊢
  refine ⟨_, rfl, rfl, rfl, hw.owns hint rfl, ?_⟩
  intro id hid b hb heq
  -- the identifier belongs to one of the three new nodes, whose key no old node has; live identifiers are unique
  have hown := hw.owns hint rfl
  have hlen : ∀ k ∈ [w.st.slotIds.length, (libBind { w.st with refs := w.st.refs + 1 } 1 0).slotIds.length,
      (libBind (libBind { w.st with refs := w.st.refs + 1 } 1 0) 2 1).slotIds.length], w.st.slotIds.length ≤ k := by
    intro k hk
    simp only [List.mem_cons, List.not_mem_nil, or_false, libBind_slotIds, List.length_append, List.length_singleton] at hk
    omega
  obtain ⟨p, hp, hpid⟩ : ∃ p ∈ Root.pairs ⟨[nextId { w.st with refs := w.st.refs + 1 }, nextId (libBind { w.st with refs := w.st.refs + 1 } 1 0),
      nextId (libBind (libBind { w.st with refs := w.st.refs + 1 } 1 0) 2 1)],
      [w.st.slotIds.length, (libBind { w.st with refs := w.st.refs + 1 } 1 0).slotIds.length,
        (libBind (libBind { w.st with refs := w.st.refs + 1 } 1 0) 2 1).slotIds.length], 1, false⟩, p.2 = id := by
    simp only [Root.pairs, List.zip_cons_cons, List.zip_nil_right]
    simp only [List.mem_cons, List.not_mem_nil, or_false] at hid
    rcases hid with rfl | rfl | rfl
    · exact ⟨_, List.mem_cons_self .., rfl⟩
    · exact ⟨_, List.mem_cons_of_mem _ (List.mem_cons_self ..), rfl⟩
    · exact ⟨_, List.mem_cons_of_mem _ (List.mem_cons_of_mem _ (List.mem_cons_self ..)), rfl⟩
  obtain ⟨c, hcm, hck, hcid, hcl, _⟩ := hown.2 p hp
  have hbm : b ∈ (libBind (libBind (libBind { w.st with refs := w.st.refs + 1 } 1 0) 2 1) 3 2).list := by
    rw [libBind_list, libBind_list, libBind_list]
    simp only [List.append_assoc, List.mem_append]
    exact Or.inl hb
  have hkk := hw.top.1.idsUnique c hcm b hbm hcl (by rw [hcid, hpid, heq])
  have hkl := h.top.1.keysLt b hb
  have hpk : p.1 ∈ [w.st.slotIds.length, (libBind { w.st with refs := w.st.refs + 1 } 1 0).slotIds.length,
      (libBind (libBind { w.st with refs := w.st.refs + 1 } 1 0) 2 1).slotIds.length] := (List.of_mem_zip hp).1
  have := hlen p.1 hpk
  omega

/-- The demonstration's scenario on the model of the unchanged code: a root window is created, closed while still
    referenced, the application then binds a key handler that asks for an unbind notification, a key arrives, the root
    window's last reference goes, a second key arrives.  The handler (binding 3) ran for both keys and got no notification;
    the root window had identifiers 1, 2, 3 and the new binding got 4, because closing a root window unbinds nothing. -/
example :
    (match execWOps Cfg.repaired { Owner.term with holdsRef := true } behNone 40
        [.rootNew, .rootRef, .rootClose, .rootUnref, .base (.bind 2 false wantsUnbind 0), .base (.emit 2), .rootUnref, .base (.emit 2)]
        WSt.init with
     | .ok w => some (w.st.log.countP (isEnterFire 3), w.st.log.countP (isNotif 3), keys w.st.list, w.st.slotIds, w.root.isNone)
     | _ => none) = some (2, 0, [3], [0, 0, 0, 4], true) := by decide

/-- …the three unbind requests it recorded are those of the root window's bindings 0, 1, 2, and the terminal is back to the
    application's one reference. -/
example :
    (match execWOps Cfg.repaired { Owner.term with holdsRef := true } behNone 40
        [.rootNew, .rootRef, .rootClose, .rootUnref, .base (.bind 2 false wantsUnbind 0), .base (.emit 2), .rootUnref, .base (.emit 2)]
        WSt.init with
     | .ok w => some (w.st.log.countP (isReq 0), w.st.log.countP (isReq 1), w.st.log.countP (isReq 2), w.st.log.countP (isReq 3), w.st.refs)
     | _ => none) = some (1, 1, 1, 0, 1) := by decide

/-- `Intact` is inhabited by that history (nobody else unbinds the root window's bindings in it)… -/
example : Intact { Owner.term with holdsRef := true } behNone 40
    [.rootNew, .rootClose, .base (.bind 2 false wantsUnbind 0), .rootUnref, .base (.emit 2)] WSt.init :=
  intact_of_B _ _ _ _ _ (by decide)

/-- The hypothesis excludes exactly this: an application that unbinds an identifier it has already unbound, after the root
    window was given the same identifier (`max + 1`), removes the root window's resize binding. -/
example : intactB { Owner.term with holdsRef := true } behNone 40
    [.base (.bind 1 false plain 0), .base (.unbind 0), .rootNew, .base (.unbind 0), .rootUnref] WSt.init = false := by decide

/-- …and why it matters that the identifiers are unbound *once*: unbinding the same three identifiers a second time, after
    the application has bound a handler in between (which got identifier 1 again), removes the application's binding and
    sends it an unbind notification nobody asked for.  (`Owns` fails for the second round: the identifiers no longer denote
    the root window's bindings.) -/
example :
    (match unbindAll Cfg.repaired Owner.term behNone 20 [1, 2, 3] (rootNew WSt.init).st with
     | .ok st1 =>
        (match unbindAll Cfg.repaired Owner.term behNone 20 [1, 2, 3] (bindEvent st1 2 false wantsUnbind 0) with
         | .ok st2 => some ((bindEvent st1 2 false wantsUnbind 0).slotIds, keys st2.list, st2.log.countP (isNotif 3))
         | _ => none)
     | _ => none) = some ([0, 0, 0, 1], [], 1) := by decide

/-! ### the unchanged code violates the clauses: counterexample theorems

Each history below is the minimal replay stored under `corpus/C16/`; the real library reproduces every one of
them through the harness (see `known/C16.json`). -/

/-- `corpus/C16/oneshot_reentrant.ops`: handler 0 re-emits; the one-shot binding after it runs in the nested
    occurrence and again when the outer walker reaches its tombstone (which kept `evindex`). -/
theorem oneshot_counterexample : ¬ OneshotStmt Cfg.original := by
  intro h
  obtain ⟨st, hr, hlog, _, _⟩ := runs_of_isOk (cfg := Cfg.original) (own := Owner.pen) (beh := behReemit) (fuel := 30)
    (ops := [.bind 1 false plain 0, .bind 1 false oneshot 1, .emit 1]) (by decide)
  have := h Owner.pen behReemit (Or.inr noDestroy_behReemit) 30 _ st (by decide) hr 1 oneshot
    (by rw [hlog]; exact ⟨2, 1, false, by decide⟩) rfl
  rw [hlog] at this
  revert this; decide

/-- `corpus/C16/whilefalse_oneshot.ops`: a one-shot key handler of a terminal (`run_event_whilefalse`) runs for
    every key event. -/
theorem oneshot_whilefalse_counterexample : ¬ OneshotStmt Cfg.original := by
  intro h
  obtain ⟨st, hr, hlog, _, _⟩ := runs_of_isOk (cfg := Cfg.original) (own := Owner.term) (beh := behNone) (fuel := 30)
    (ops := [.bind 2 false oneshot 0, .emit 2, .emit 2]) (by decide)
  have := h Owner.term behNone (Or.inr noDestroy_behNone) 30 _ st (by decide) hr 0 oneshot
    (by rw [hlog]; exact ⟨1, 2, false, by decide⟩) rfl
  rw [hlog] at this
  revert this; decide

/-- `corpus/C16/unbind_reentrant_uaf.ops`: the unbind notification unbinds its own binding again; the outer
    `unbind_event_id` then writes to and frees a freed node. -/
theorem no_ub_counterexample : ¬ NoUbStmt Cfg.original := by
  intro h
  have hub : isUb (execOps Cfg.original Owner.pen behSelfTwice 30 [.bind 1 false wantsUnbind 0, .unbind 0] St.init) = true := by
    decide
  cases hc : execOps Cfg.original Owner.pen behSelfTwice 30 [.bind 1 false wantsUnbind 0, .unbind 0] St.init with
  | ub w => exact h Owner.pen behSelfTwice (Or.inr noDestroy_behSelfTwice) 30 _ (by decide) w hc
  | ok st => rw [hc] at hub; cases hub
  | outOfFuel => rw [hc] at hub; cases hub

/-- `corpus/C16/unbind_reentrant_notified_twice.ops`: while a walker runs, a handler unbinds itself from inside
    its own unbind notification: found (and notified) twice. -/
theorem unbind_notify_counterexample : ¬ UnbindNotifyAtMostStmt Cfg.original := by
  intro h
  obtain ⟨st, hr, hlog, _, _⟩ := runs_of_isOk (cfg := Cfg.original) (own := Owner.pen) (beh := behSelfTwice) (fuel := 30)
    (ops := [.bind 1 false wantsUnbind 0, .emit 1]) (by decide)
  have := (h Owner.pen behSelfTwice (Or.inr noDestroy_behSelfTwice) 30 _ st (by decide) hr 0).2.1
  rw [hlog] at this
  revert this; decide

/-- `corpus/C16/unbind_reentrant_fires_unbound.ops`: the unbind notification emits the event; the binding being
    unbound is delivered it. -/
theorem no_fire_after_unbind_counterexample : ¬ NoFireAfterUnbindStmt Cfg.original := by
  intro h
  obtain ⟨st, hr, hlog, _, _⟩ := runs_of_isOk (cfg := Cfg.original) (own := Owner.pen) (beh := behReemit) (fuel := 30)
    (ops := [.bind 1 false wantsUnbind 0, .unbind 0]) (by decide)
  have := h Owner.pen behReemit (Or.inr noDestroy_behReemit) 30 _ st (by decide) hr
    [.leave 0 0 0, .actEnd, .occEnd 1, .leave 0 1 0, .enter 0 0 1 1 1, .fire 0 1, .occBegin 1 1 false, .actBegin 0, .enter 0 0 0 2 0]
    [.bound 0 1 1 false wantsUnbind] 0 (by rw [hlog]; decide)
  revert this; decide

/-- `corpus/C16/unbind_reentrant_lost_binding.ops`: the unbind notification of the head binding binds `FIRST`; the
    stale `*bindp = bind->next` unlinks the new binding again. -/
theorem lost_binding_counterexample : ¬ LiveInChainStmt Cfg.original := by
  intro h
  obtain ⟨st, hr, hlog, hchain, hdead⟩ := runs_of_isOk (cfg := Cfg.original) (own := Owner.pen) (beh := behBindFirst) (fuel := 30)
    (ops := [.bind 1 false wantsUnbind 0, .unbind 0]) (by decide)
  have hlive : liveAt st.log 1 := by
    rw [hlog]
    exact ⟨plain, ⟨2, 1, true, by decide⟩, by unfold reqIn; decide, fun ho => by cases ho⟩
  obtain ⟨b, hbm, _, _⟩ := (h Owner.pen behBindFirst (Or.inr noDestroy_behBindFirst) 30 _ st (by decide) hr (by decide) (by rw [hdead]; decide) 1).1 hlive
  have : b.key ∈ keys st.list := mem_keys.2 ⟨b, hbm, rfl⟩
  have hnil : chainOf (execOps Cfg.original Owner.pen behBindFirst 30 [.bind 1 false wantsUnbind 0, .unbind 0] St.init) = [] := by
    decide
  rw [hchain, hnil] at this
  cases this

/-! ### the theorems are not vacuous: concrete histories of the repaired code that exercise them -/

/-- The re-entrant history of `oneshot_counterexample` runs to completion on the repaired code, the one-shot
    binding 1 is bound and delivered exactly once, although event 1 occurred twice. -/
example : ∃ st, Runs Cfg.repaired Owner.pen behReemit 30 [.bind 1 false plain 0, .bind 1 false oneshot 1, .emit 1] st ∧
    boundIn st.log 1 oneshot ∧ st.log.countP (isEnterFire 1) = 1 ∧ st.log.countP (isEnterFire 0) = 2 := by
  obtain ⟨st, hr, hlog, _, _⟩ := runs_of_isOk (cfg := Cfg.repaired) (own := Owner.pen) (beh := behReemit) (fuel := 30)
    (ops := [.bind 1 false plain 0, .bind 1 false oneshot 1, .emit 1]) (by decide)
  refine ⟨st, hr, by rw [hlog]; exact ⟨2, 1, false, by decide⟩, by rw [hlog]; decide, by rw [hlog]; decide⟩

/-- A one-shot key handler on a terminal: two key events, one delivery. -/
example : ∃ st, Runs Cfg.repaired Owner.term behNone 30 [.bind 2 false oneshot 0, .emit 2, .emit 2] st ∧
    st.log.countP (isEnterFire 0) = 1 := by
  obtain ⟨st, hr, hlog, _, _⟩ := runs_of_isOk (cfg := Cfg.repaired) (own := Owner.term) (beh := behNone) (fuel := 30)
    (ops := [.bind 2 false oneshot 0, .emit 2, .emit 2]) (by decide)
  exact ⟨st, hr, by rw [hlog]; decide⟩

/-- The self-unbinding notification of `no_ub_counterexample` / `unbind_notify_counterexample` on the repaired
    code: no undefined behaviour, one request, one notification, both from the top level and under a walker. -/
example : ∃ st, Runs Cfg.repaired Owner.pen behSelfTwice 30 [.bind 1 false wantsUnbind 0, .unbind 0] st ∧
    st.log.countP (isReq 0) = 1 ∧ st.log.countP (isNotif 0) = 1 := by
  obtain ⟨st, hr, hlog, _, _⟩ := runs_of_isOk (cfg := Cfg.repaired) (own := Owner.pen) (beh := behSelfTwice) (fuel := 30)
    (ops := [.bind 1 false wantsUnbind 0, .unbind 0]) (by decide)
  exact ⟨st, hr, by rw [hlog]; decide, by rw [hlog]; decide⟩

example : ∃ st, Runs Cfg.repaired Owner.pen behSelfTwice 30 [.bind 1 false wantsUnbind 0, .emit 1] st ∧
    st.log.countP (isReq 0) = 1 ∧ st.log.countP (isNotif 0) = 1 ∧ st.log.countP (isEnterFire 0) = 1 := by
  obtain ⟨st, hr, hlog, _, _⟩ := runs_of_isOk (cfg := Cfg.repaired) (own := Owner.pen) (beh := behSelfTwice) (fuel := 30)
    (ops := [.bind 1 false wantsUnbind 0, .emit 1]) (by decide)
  exact ⟨st, hr, by rw [hlog]; decide, by rw [hlog]; decide, by rw [hlog]; decide⟩

/-- The notification that re-emits (`no_fire_after_unbind_counterexample`) on the repaired code: an unbind
    request followed by an occurrence of the event, and no delivery to the unbound binding. -/
example : ∃ st, Runs Cfg.repaired Owner.pen behReemit 30 [.bind 1 false wantsUnbind 0, .unbind 0] st ∧
    Ev.unbindReq 0 ∈ st.log ∧ Ev.occBegin 1 1 false ∈ st.log ∧ st.log.countP (isEnterFire 0) = 0 := by
  obtain ⟨st, hr, hlog, _, _⟩ := runs_of_isOk (cfg := Cfg.repaired) (own := Owner.pen) (beh := behReemit) (fuel := 30)
    (ops := [.bind 1 false wantsUnbind 0, .unbind 0]) (by decide)
  exact ⟨st, hr, by rw [hlog]; decide, by rw [hlog]; decide, by rw [hlog]; decide⟩

/-- Destruction with three askers of different kinds and one binding that did not ask: the history and the
    destroy both complete, and the handlers are entered in reverse list order (the `FIRST`-bound one last). -/
example :
    (match execOps Cfg.repaired Owner.pen behNone 30
        [.bind 0 false plain 0, .bind 1 false wantsUnbind 1, .bind 1 false plain 2, .bind 1 true ⟨false, true, false⟩ 3] St.init with
     | .ok st => (match execOp Cfg.repaired Owner.pen behNone 30 .destroy st with
        | .ok st' => some (keys st.list, enters (st'.log.take (st'.log.length - st.log.length)))
        | _ => none)
     | _ => none) = some ([3, 0, 1, 2], [(1, 6), (0, 6), (3, 6)]) := by decide

/-- `fire_order` is not vacuous: from the chain [2, 0, 1] an occurrence whose second handler unbinds the third binding
    and appends a fourth delivers to 2, 0 and the new binding 3 — not to 1. -/
example :
    (match exec Cfg.repaired Owner.pen behMutate 50 (.runEvent false 1) stThree with
     | .ok (st', _) => some (keys stThree.list, firesOf stThree.nextOcc st'.log, keys st'.list)
     | _ => none) = some ([2, 0, 1], [2, 0, 3], [2, 0, 3]) := by decide

/-- The claim clause is not vacuous: three key handlers on a terminal, the second one claims (returns 1): the walker
    returns 1 after two deliveries and the third binding, though live, is not delivered to. -/
example :
    (match exec Cfg.repaired Owner.term (fun h _ => if h = 1 then ⟨[], 1⟩ else ⟨[], 0⟩) 50 (.runEvent true 2)
        (bindEvent (bindEvent (bindEvent St.init 2 false plain 0) 2 false plain 1) 2 false plain 2) with
     | .ok (st', r) => some (firesOf 1 st'.log, r, st'.log.head?, (st'.log.drop 1).head?)
     | _ => none) = some ([0, 1], 1, some (Ev.occEnd 1), some (Ev.leave 1 1 1)) := by decide

end Tickit.Props.C16
