import Tickit.Proof.RectSet
import Tickit.Gen.Leaf
/-
  C05 — A rectangle set is exactly the union of what was added minus what was subtracted.

  `RectSet.add`, `subtract`, `contains` take a `fuel` (the C loops restart and recurse on data they
  rewrite); every theorem holds for *every* fuel: "whenever the function returns, …".  Cells range over
  all of `Int × Int`; histories over all finite lists of operations.
-/
namespace Tickit.Props.C05
open Tickit Tickit.Rect Tickit.RectSet

/-- Every rectangle mentioned by an operation is non-empty (the property's "arbitrary non-empty rectangles"). -/
def Op.Valid : Op → Prop
  | .add r => r.Nonempty
  | .sub r => r.Nonempty
  | _ => True

/-! ### single operations -/

/-- `add` covers exactly the old region plus the new rectangle, and stores only non-empty rectangles. -/
theorem add_spec (fuel : Nat) (s s' : List Rect) (r : Rect)
    (h : RectSet.add fuel s r = some s') (hr : r.Nonempty) (hs : ∀ x ∈ s, x.Nonempty) :
    (∀ x ∈ s', x.Nonempty) ∧ ∀ l c, Covered s' l c ↔ (Covered s l c ∨ r.Mem l c) :=
  add_region h hr hs

/-- `subtract`: nothing outside the hole is lost, nothing is invented, stored rectangles stay non-empty.
    (The remaining clause — no cell of the hole stays covered — is `subtract_removes`, see below.) -/
theorem subtract_bounds (fuel : Nat) (s s' : List Rect) (r : Rect)
    (h : RectSet.subtract fuel s r = some s') (hr : r.Nonempty) (hs : ∀ x ∈ s, x.Nonempty) :
    (∀ x ∈ s', x.Nonempty) ∧
    (∀ l c, Covered s' l c → Covered s l c) ∧
    (∀ l c, Covered s l c → ¬ r.Mem l c → Covered s' l c) :=
  subtractFrom_bounds fuel s r 0 s' h hr hs

theorem translate_spec (s : List Rect) (d k : Int) (hs : ∀ x ∈ s, x.Nonempty) :
    (∀ x ∈ RectSet.translate s d k, x.Nonempty) ∧
    ∀ l c, Covered (RectSet.translate s d k) l c ↔ Covered s (l - d) (c - k) :=
  ⟨nonempty_translate s d k hs, fun l c => covered_translate s d k l c⟩

theorem clear_spec (s : List Rect) : ∀ l c, ¬ Covered (RectSet.clear s) l c :=
  fun l c => covered_nil l c

/-! ### queries -/

/-- `intersects` answers exactly "some cell of the query is covered". -/
theorem intersects_iff (s : List Rect) (q : Rect) (hq : q.Nonempty) (hs : ∀ x ∈ s, x.Nonempty) :
    RectSet.intersects s q = true ↔ ∃ l c, q.Mem l c ∧ Covered s l c :=
  RectSet.intersects_iff s q hq hs

/-- `contains` answering "yes" is always right: every cell of the query is covered. -/
theorem contains_sound (fuel : Nat) (s : List Rect) (q : Rect) (hq : q.Nonempty)
    (h : RectSet.contains fuel s q = some true) : ∀ l c, q.Mem l c → Covered s l c :=
  RectSet.contains_sound fuel s q h hq

/-- `contains` terminates: fuel proportional to the height of the query suffices. -/
theorem contains_terminates (s : List Rect) (q : Rect) :
    ∀ fuel : Nat, 0 < fuel → q.lines < (fuel : Int) → RectSet.contains fuel s q ≠ none := by
  intro fuel
  induction fuel generalizing q with
  | zero => intro h; omega
  | succ n ih =>
    intro _ hlt
    unfold RectSet.contains
    split
    · simp
    · rename_i r _
      split
      · simp
      · split
        · rename_i hcut
          have h1 : (Rect.initBounded r.bottom q.left q.bottom q.right).lines < (n : Int) := by
            unfold Rect.initBounded Rect.bottom at *; simp only; omega
          have h0 : 0 < n := by
            unfold Rect.initBounded Rect.bottom at *; simp only at h1; omega
          have := ih (Rect.initBounded r.bottom q.left q.bottom q.right) h0 h1
          simp only
          split
          · contradiction
          · simp
          · simp
        · simp

/-! ### histories -/

/-- All operations of a history are valid. -/
def Valid (ops : List Op) : Prop := ∀ o ∈ ops, Op.Valid o

/-- Generalised history statement: running `ops` from a state that covers a superset of `reg` ends in a
    state covering a superset of the region `ops` makes out of `reg` — **no cell is ever lost**. -/
theorem run_nothing_lost (fuel : Nat) : ∀ (ops : List Op) (s s' : List Rect) (reg : Int → Int → Prop),
    runOps fuel s ops = some s' → Valid ops → (∀ x ∈ s, x.Nonempty) →
    (∀ l c, reg l c → Covered s l c) →
    (∀ x ∈ s', x.Nonempty) ∧ ∀ l c, ops.foldl Op.apply reg l c → Covered s' l c := by
  intro ops
  induction ops with
  | nil =>
    intro s s' reg h _ hs hreg
    simp [runOps] at h; subst h
    exact ⟨hs, hreg⟩
  | cons o ops ih =>
    intro s s' reg h hv hs hreg
    have hvo : Op.Valid o := hv o (by simp)
    have hvr : Valid ops := fun x hx => hv x (by simp [hx])
    cases o with
    | add r =>
      simp only [runOps, Option.bind_eq_some_iff] at h
      obtain ⟨s1, h1, h2⟩ := h
      obtain ⟨a1, a2⟩ := add_region h1 hvo hs
      refine ih s1 s' _ h2 hvr a1 ?_
      intro l c hh
      simp only [Op.apply] at hh
      rw [a2 l c]
      rcases hh with hh | hh
      · exact Or.inl (hreg l c hh)
      · exact Or.inr hh
    | sub r =>
      simp only [runOps, Option.bind_eq_some_iff] at h
      obtain ⟨s1, h1, h2⟩ := h
      obtain ⟨a1, _, a3⟩ := subtractFrom_bounds fuel s r 0 s1 h1 hvo hs
      refine ih s1 s' _ h2 hvr a1 ?_
      intro l c hh
      simp only [Op.apply] at hh
      exact a3 l c (hreg l c hh.1) hh.2
    | xl d k =>
      simp only [runOps] at h
      refine ih _ s' _ h hvr (nonempty_translate s d k hs) ?_
      intro l c hh
      simp only [Op.apply] at hh
      exact (covered_translate s d k l c).2 (hreg _ _ hh)
    | clear =>
      simp only [runOps] at h
      refine ih _ s' _ h hvr (by simp [RectSet.clear]) ?_
      intro l c hh
      simp only [Op.apply] at hh

/-- **Nothing is lost**: after any history of add/subtract/translate/clear from the empty set, every
    cell of the reference region is covered by the stored rectangles, which are all non-empty. -/
theorem history_nothing_lost (fuel : Nat) (ops : List Op) (s : List Rect)
    (h : runOps fuel [] ops = some s) (hv : Valid ops) :
    (∀ x ∈ s, x.Nonempty) ∧ ∀ l c, refRegion ops l c → Covered s l c :=
  run_nothing_lost fuel ops [] s (fun _ _ => False) h hv (by simp) (by intro l c h; exact h.elim)

/-- A history without subtraction. -/
def NoSub (ops : List Op) : Prop := ∀ o ∈ ops, ∀ r, o ≠ .sub r

theorem run_exact_noSub (fuel : Nat) : ∀ (ops : List Op) (s s' : List Rect) (reg : Int → Int → Prop),
    runOps fuel s ops = some s' → Valid ops → NoSub ops → (∀ x ∈ s, x.Nonempty) →
    (∀ l c, Covered s l c ↔ reg l c) →
    ∀ l c, Covered s' l c ↔ ops.foldl Op.apply reg l c := by
  intro ops
  induction ops with
  | nil =>
    intro s s' reg h _ _ _ hreg
    simp [runOps] at h; subst h
    exact hreg
  | cons o ops ih =>
    intro s s' reg h hv hn hs hreg
    have hvo : Op.Valid o := hv o (by simp)
    have hvr : Valid ops := fun x hx => hv x (by simp [hx])
    have hnr : NoSub ops := fun x hx => hn x (by simp [hx])
    cases o with
    | add r =>
      simp only [runOps, Option.bind_eq_some_iff] at h
      obtain ⟨s1, h1, h2⟩ := h
      obtain ⟨a1, a2⟩ := add_region h1 hvo hs
      refine ih s1 s' _ h2 hvr hnr a1 ?_
      intro l c
      simp only [Op.apply]
      rw [a2 l c, hreg l c]
    | sub r => exact absurd rfl (hn (.sub r) (by simp) r)
    | xl d k =>
      simp only [runOps] at h
      refine ih _ s' _ h hvr hnr (nonempty_translate s d k hs) ?_
      intro l c
      simp only [Op.apply]
      rw [covered_translate, hreg]
    | clear =>
      simp only [runOps] at h
      refine ih _ s' _ h hvr hnr (by simp [RectSet.clear]) ?_
      intro l c
      simp only [Op.apply, RectSet.clear]
      exact ⟨fun h => (covered_nil l c h).elim, fun h => h.elim⟩

/-- **Exactness, partial**: for histories of add/translate/clear the covered cells are exactly the
    reference region.  (Missing for the full statement `history_exact_full`: the clause
    `subtract_removes`, which needs the sortedness/disjointness/no-shared-vertical-edge invariant.) -/
theorem history_exact_partial (fuel : Nat) (ops : List Op) (s : List Rect)
    (h : runOps fuel [] ops = some s) (hv : Valid ops) (hn : NoSub ops) :
    ∀ l c, Covered s l c ↔ refRegion ops l c :=
  run_exact_noSub fuel ops [] s (fun _ _ => False) h hv hn (by simp)
    (fun l c => ⟨fun h => (covered_nil l c h).elim, fun h => h.elim⟩)

/-! ### statements kept at full strength, not yet proved (see engines.d/C05.json `open_statements`) -/

/-- The invariant of the stored array the remaining clauses need. -/
def NoVEdge (s : List Rect) : Prop :=
  ∀ a ∈ s, ∀ b ∈ s, a ≠ b → ¬ ((a.right = b.left ∨ b.right = a.left) ∧ a.top < b.bottom ∧ b.top < a.bottom)

def SortedTL (s : List Rect) : Prop :=
  s.Pairwise (fun a b => a.top < b.top ∨ (a.top = b.top ∧ a.left < b.left))

def Inv (s : List Rect) : Prop :=
  (∀ x ∈ s, x.Nonempty) ∧ s.Pairwise Rect.Disjoint ∧ SortedTL s ∧ NoVEdge s

/-- Full statement of the history clause (open): exact region, disjoint, sorted, non-empty. -/
def history_exact_full : Prop :=
  ∀ (fuel : Nat) (ops : List Op) (s : List Rect), runOps fuel [] ops = some s → Valid ops →
    Inv s ∧ ∀ l c, Covered s l c ↔ refRegion ops l c

/-- Full statement of the subtract clause (open). -/
def subtract_removes : Prop :=
  ∀ (fuel : Nat) (s s' : List Rect) (r : Rect), Inv s → r.Nonempty →
    RectSet.subtract fuel s r = some s' → Inv s' ∧ ∀ l c, Covered s' l c → ¬ r.Mem l c

/-- Full statement of the containment query (open: the "no" answers). -/
def contains_iff_full : Prop :=
  ∀ (fuel : Nat) (s : List Rect) (q : Rect) (b : Bool), Inv s → q.Nonempty →
    RectSet.contains fuel s q = some b → (b = true ↔ ∀ l c, q.Mem l c → Covered s l c)

/-! ### the generated leaf function is the model's -/

theorem leaf_cmprect : Gen.Leaf.cmprect = RectSet.cmprect := by
  funext a b
  unfold Gen.Leaf.cmprect RectSet.cmprect
  simp only [decide_eq_true_eq]

/-! ### non-vacuity -/

/-- The history that lost cells before the repair (fix: commit in /repo): the model, like the repaired
    code, now keeps every cell; all hypotheses of the theorems above are met by it. -/
example :
    runOps 100 [] [.add ⟨0, 0, 1, 2⟩, .add ⟨0, 4, 3, 2⟩, .add ⟨0, 2, 1, 2⟩] =
      some [⟨0, 0, 1, 6⟩, ⟨1, 4, 2, 2⟩] := by decide +kernel

example : Valid [.add ⟨0, 0, 1, 2⟩, .add ⟨0, 4, 3, 2⟩, .sub ⟨0, 1, 2, 4⟩, .xl 1 1] := by
  intro o ho; simp at ho; rcases ho with rfl | rfl | rfl | rfl <;> simp [Op.Valid, Rect.Nonempty]

example : runOps 100 [] [.add ⟨0, 0, 3, 3⟩, .sub ⟨1, 1, 1, 1⟩, .xl 1 1] =
    some [⟨1, 1, 1, 3⟩, ⟨2, 1, 1, 1⟩, ⟨2, 3, 1, 1⟩, ⟨3, 1, 1, 3⟩] := by decide +kernel

example : RectSet.contains 10 [⟨0, 0, 1, 6⟩, ⟨1, 4, 2, 2⟩] ⟨0, 4, 3, 2⟩ = some true := by decide +kernel

end Tickit.Props.C05
